#!/bin/bash
# round.sh <WTROOT> <Cnn> <variants...> : verify the seeded changes a sub-agent left in <WTROOT>/<Cnn>/_seed/<V>,
# keep the confirmed ones in /verif/seeded, run the property's quick check against each, log to seeded/MATRIX.txt
export WTROOT=$1; ID=$2; shift 2
cd /verif
for v in "$@"; do
  tools/verify_seed.sh $ID $v 2>&1 | grep -v conda
  [ -d seeded/$ID-$v ] && tools/seed_matrix.sh quick $ID-$v 2>&1 | grep -v conda | tee -a seeded/MATRIX.txt
done
