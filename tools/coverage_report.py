#!/usr/bin/env python3
"""coverage_report.py — reads evidence/*.json (written by the checks) and prints, per check, how much of the functions the
property is anchored in the inputs of its last run executed (in-process runs only; C07 and parts of C15/C19/C20 drive
the implementation in child processes, which are not seen), and the anchored functions that run never entered."""
import glob, json, os
HERE = os.path.dirname(os.path.abspath(__file__))
for f in sorted(glob.glob(os.path.join(HERE, "..", "evidence", "*.json"))):
    e = json.load(open(f))
    c = e.get("coverage", {}).get("implementation_line_coverage") or {}
    if not c.get("available"):
        continue
    print("%s (%s, seed %s): %s%% of the lines of %s anchored functions executed; %s never entered%s" % (
        e["property_id"], e.get("tier"), e.get("seed"), c.get("percent"), c.get("anchored_functions"), c.get("n_never_entered"),
        (": " + ", ".join(c.get("functions_never_entered", [])[:8]) + (" ..." if c.get("n_never_entered", 0) > 8 else "")) if c.get("n_never_entered") else ""))
