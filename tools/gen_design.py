#!/venv/bin/python
"""gen_design.py — fills the generated blocks of DESIGN.md (between <!-- GEN:x --> and <!-- /GEN:x -->)
from the property plugins' own metadata and from seeded/*/meta.json + seeded/MATRIX.txt, so the
design document cannot drift from what the checks declare."""
import importlib, json, os, re, sys
HERE = os.path.dirname(os.path.abspath(__file__))
V = os.path.join(HERE, "..")
sys.path.insert(0, os.path.join(V, "vlib"))
sys.path.insert(0, os.environ.get("VERIF_REPO", "/repo"))
sys.dont_write_bytecode = True

props = [json.loads(l) for l in open(os.path.join(V, "properties.jsonl"))]
kf = json.load(open(os.path.join(V, "known_findings.json")))


def block_props():
    out = []
    for p in props:
        pid = p["id"]
        m = importlib.import_module("props." + pid.lower())
        out.append("### %s — %s\n" % (pid, p["title"]))
        hand = getattr(m, "DESIGN_NOTE", None)
        if hand:
            out.append(hand.strip() + "\n")
        out.append("*Lean target* `%s`; *theorems audited every run*: %s.\n" % (m.LEAN_TARGET, ", ".join("`%s`" % t.replace("Cxx.", "") for t in m.THEOREMS)))
        out.append("| part of the statement | carried by |\n|---|---|")
        for k, v in m.CARRIED_BY.items():
            out.append("| %s | %s |" % (k.replace("|", "\\|"), v.replace("|", "\\|")))
        out.append("")
        out.append("*Assumptions / hypotheses*: " + "; ".join(getattr(m, "ASSUMPTIONS", []) or ["none"]) + ".\n")
        out.append("*Generated inputs (oracle and correspondence)*: " + m.RULE + ".\n")
        fs = [f for f in kf["findings"] if f["property"] == pid]
        if fs:
            out.append("*Open known findings*: " + "; ".join("`%s`" % f["id"] for f in fs) + " (§8).\n")
    return "\n".join(out)


def block_seeds():
    matrix = {}
    mp = os.path.join(V, "seeded", "MATRIX.txt")
    if os.path.exists(mp):
        for l in open(mp):
            m = re.match(r"(C\d\d-[A-Z]): (.*)", l)
            if m:
                matrix[m.group(1)] = m.group(2).split(" :: ")[0]
    out = ["| seed | where | what the change does | result of the property's quick check |", "|---|---|---|---|"]
    for n in sorted(os.listdir(os.path.join(V, "seeded"))):
        mp = os.path.join(V, "seeded", n, "meta.json")
        if not os.path.exists(mp):
            continue
        m = json.load(open(mp))
        s = (m.get("summary") or "").replace("\n", " ").replace("|", "\\|")
        where = ", ".join(m.get("files", [])) if m.get("files") else ""
        s1 = s[:260] + ("…" if len(s) > 260 else "")
        out.append("| %s | %s | %s | %s |" % (n, where.replace("cxxheaderparser/", ""), s1, matrix.get(n, "not run")))
    return "\n".join(out)


def block_findings():
    out = ["| id | property | what fails (witness in `known_findings.json`) | why recorded rather than repaired |", "|---|---|---|---|"]
    for f in kf["findings"]:
        out.append("| `%s` | %s | %s | %s |" % (f["id"], f["property"], f["what"].replace("|", "\\|").replace("\n", "\\n"), (f.get("why_not_fixed") or "").replace("|", "\\|")))
    out.append("")
    out.append("Fixed by `fix:` commits in /repo (each listed as `fixed:` in `known_findings.json`; nothing is suppressed for them):\n")
    for f in kf["fixed"]:
        out.append("* `%s`" % (f if isinstance(f, str) else f.get("line")))
    return "\n".join(out)


BLOCKS = {"props": block_props, "seeds": block_seeds, "findings": block_findings}
p = os.path.join(V, "DESIGN.md")
s = open(p).read()
for name, fn in BLOCKS.items():
    a, b = "<!-- GEN:%s -->" % name, "<!-- /GEN:%s -->" % name
    if a in s and b in s:
        i, j = s.index(a) + len(a), s.index(b)
        s = s[:i] + "\n" + fn() + "\n" + s[j:]
open(p, "w").write(s)
print("DESIGN.md blocks regenerated")
