#!/venv/bin/python
"""Record the function fingerprints of /repo's current tree as the baseline the checks compare
against to decide whether to enlarge their samples (run after a fix commit; never at check time)."""
import json, os, sys
HERE = os.path.dirname(os.path.abspath(__file__))
sys.path.insert(0, os.path.join(HERE, "..", "vlib"))
import common  # noqa
sys.path.insert(0, common.REPO)
import extract  # noqa
info = extract.extract_all()
p = os.path.join(HERE, "..", "baseline_fingerprints.json")
json.dump(info["fingerprints"], open(p, "w"), indent=1, sort_keys=True)
print("wrote", p, len(info["fingerprints"]), "functions")
