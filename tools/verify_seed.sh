#!/bin/bash
# verify_seed.sh <Cxx> <A|B> : confirm a seeded change in its scratch worktree /tmp/wt/<Cxx>
# (tests pass with it, demo fails with it, demo passes without it) and keep it as
# /verif/seeded/<Cxx>-<variant>/ .
set -u
ID=$1; V=$2
WT=${WTROOT:-/tmp/wt}/$ID
SD=$WT/_seed/$V
OUT=/verif/seeded/$ID-$V
cd $WT || exit 2
git checkout -q -- . 
[ -f $SD/patch.diff ] || { echo "$ID-$V: no patch"; exit 2; }
git apply --check $SD/patch.diff || { echo "$ID-$V: patch does not apply"; exit 1; }
# demo on pristine
P0=$( /venv/bin/python $SD/demo.py >${WTROOT:-/tmp/wt}/$ID.$V.pristine.log 2>&1; echo $? )
git apply $SD/patch.diff
T=$( /venv/bin/python -m pytest -q -p no:cacheprovider -x tests 2>&1 | tail -1 )
P1=$( timeout 600 /venv/bin/python $SD/demo.py >${WTROOT:-/tmp/wt}/$ID.$V.changed.log 2>&1; echo $? )
git checkout -q -- .
echo "$ID-$V: pristine_demo_rc=$P0 changed_demo_rc=$P1 tests='$T'"
if [ "$P0" = "0" ] && [ "$P1" != "0" ] && echo "$T" | grep -q "301 passed"; then
  mkdir -p $OUT
  cp $SD/patch.diff $SD/demo.py $OUT/
  /venv/bin/python - "$SD/meta.json" "$OUT/meta.json" "$T" "$P0" "$P1" <<'PY'
import json,sys
src,dst,t,p0,p1=sys.argv[1:6]
try: m=json.load(open(src))
except Exception as e: m={"note":"agent meta unreadable: %s"%e}
m["confirmed"]={"tests_with_change":t,"demo_rc_pristine":int(p0),"demo_rc_changed":int(p1),
  "ran":["git apply patch.diff","/venv/bin/python -m pytest -q -p no:cacheprovider -x tests","/venv/bin/python demo.py (changed tree)","git checkout -- .","/venv/bin/python demo.py (pristine tree)"]}
json.dump(m,open(dst,"w"),indent=1)
PY
  echo "$ID-$V: KEPT"
else
  echo "$ID-$V: REJECTED"; tail -3 ${WTROOT:-/tmp/wt}/$ID.$V.changed.log
fi
