#!/bin/bash
# seed_matrix.sh [tier] [seed names...] : for every seeded change, apply it to /repo, run the check of the
# property it breaks, undo; prints one line per seed (CAUGHT with/without failing input, or MISSED)
T=${1:-quick}; shift
NAMES="$@"; [ -z "$NAMES" ] && NAMES=$(ls /verif/seeded)
cd /verif
for n in $NAMES; do
  P=${n%%-*}
  [ -f vlib/props/$(echo $P | tr A-Z a-z).py ] || { echo "$n: no check for $P yet"; continue; }
  git -C /repo apply /verif/seeded/$n/patch.diff 2>/dev/null || { echo "$n: patch does not apply"; continue; }
  out=$(timeout 3000 ./check $P $T 2>&1); rc=$?
  git -C /repo checkout -- .
  v=$(echo "$out" | grep "^VIOLATION" | head -1)
  if [ $rc -eq 1 ]; then
    if echo "$v" | grep -q no-failing-input-found; then echo "$n: CAUGHT (no failing input) :: $(echo "$out" | head -1)"; else echo "$n: CAUGHT with failing input"; fi
  elif [ $rc -eq 0 ]; then echo "$n: MISSED :: $(echo "$out" | head -1)"
  else echo "$n: MACHINERY rc=$rc :: $(echo "$out" | tail -2 | tr '\n' ' ')"; fi
done
