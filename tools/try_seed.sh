#!/bin/bash
# try_seed.sh <seed dir name> <Cnn> [tier] : apply a seeded change to /repo, run the check, undo
S=/verif/seeded/$1; P=$2; T=${3:-quick}
git -C /repo apply $S/patch.diff || exit 2
cd /verif && timeout 3000 ./check $P $T 2>&1 | tail -4
echo "rc=${PIPESTATUS[0]}"
git -C /repo checkout -- .
