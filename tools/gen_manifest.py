#!/usr/bin/env python3
"""gen_manifest.py — writes MANIFEST.json from the property plugins that exist (vlib/props/cNN.py)."""
import importlib, json, os, sys
HERE = os.path.dirname(os.path.abspath(__file__))
sys.path.insert(0, os.path.join(HERE, "..", "vlib"))
sys.dont_write_bytecode = True
props = [json.loads(l) for l in open(os.path.join(HERE, "..", "properties.jsonl"))]
checks = []
na = []
for p in props:
    pid = p["id"]
    try:
        mod = importlib.import_module("props." + pid.lower())
    except ImportError:
        na.append({"property_id": pid, "reason": "check not built yet in this round (the technique applies; see DESIGN.md §6)"})
        continue
    checks.append({
        "property_id": pid,
        "quick_cmd": "./check %s quick" % pid,
        "thorough_cmd": "./check %s thorough" % pid,
        "evidence_file": "evidence/%s.json" % pid,
        "replay_cmd_template": "./check %s quick --replay {path}" % pid,
        "engine": "lean4-model",
        "level_claimed": {
            "category": "proof",
            "text": getattr(mod, "LEVEL_TEXT", "Lean 4 theorems about an executable model of the code, re-checked each run against tables regenerated from /repo; model tied to the code by a differential correspondence check; implementation-side oracle as failing-input search."),
            "design_ref": "DESIGN.md §6 " + pid,
        },
        "level_note": getattr(mod, "LEVEL_NOTE", "Trusted: Lean 4.33 kernel; axioms propext, Classical.choice, Quot.sound only (audited every run, no sorry/native_decide); the extractor; the correspondence harness and its generators' reach; parser model is a hand transcription tied by correspondence."),
        "technique": getattr(mod, "TECHNIQUE", "machine-checked proof in Lean 4 (model + theorems) with translator-regenerated tables and differential correspondence to the implementation"),
    })
m = {
    "version": 1,
    "setup_cmd": "cd lean && lake build CxxModel CxxModel.Props.All driver",
    "hooks": {
        "guard": "CXXHEADERPARSER_VERIF",
        "enable": "no source hooks are needed: the harness imports the working tree (PYTHONPATH=/repo) and calls private methods directly",
        "baseline_off_cmd": "cd /repo && /venv/bin/python -m pytest -ra -q -p no:cacheprovider --timeout=900 tests",
        "source_commits": [],
        "add_only": True,
    },
    "engines": [{
        "name": "lean4-model", "path": "lean/",
        "serves_properties": [c["property_id"] for c in checks],
        "kind_free_text": "Lean 4 lake project CxxModel: executable model (regex/PLY/token stream/interpreter/parser/fold/formatters), theorems per property in CxxModel/Props, compiled line-protocol driver for the correspondence check",
    }],
    "checks": checks,
    "notes": "See DESIGN.md. known_findings.json lists genuine defects (open, or fixed by a `fix:` commit in /repo).",
    "not_applicable": na,
}
json.dump(m, open(os.path.join(HERE, "..", "MANIFEST.json"), "w"), indent=1)
print("checks:", [c["property_id"] for c in checks], "not yet:", [n["property_id"] for n in na])
