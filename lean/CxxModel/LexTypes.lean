/-
  LexTypes.lean — data types shared by the generated lexer tables and the PLY model.
-/
import CxxModel.Regex
namespace Cxx

/-- The bodies of the `t_*` rule functions of `PlyLexer`, as a mini-language.  The
    extractor recognises each body by comparing its `ast` with fixed templates; anything
    else becomes `opaque` (and every theorem that needs the rule table then fails). -/
inductive Action where
  | ret                         -- `return t`
  | skip                        -- string rule without a token type (unused today)
  | countNl                     -- `t.lexer.lineno += t.value.count("\n"); return t`
  | lenNl                       -- `t.lexer.lineno += len(t.value); return t`
  | keyword                     -- `if t.value in self.keywords: t.type = t.value; return t`
  | ppDirective                 -- body of `t_PP_DIRECTIVE`
  | error (msg : String)        -- `self._error(msg, t)`
  | errorFmt (pre : String)     -- `self._error(pre % t.value, t)`
  | opaque
  deriving Repr, DecidableEq, Inhabited

structure Rule where
  name : String
  tokType : String
  isFunc : Bool
  action : Action
  re : Re
  deriving Repr, Inhabited

def strOfStr (s : Str) : String := String.ofList (s.map Char.ofNat)
def strToStr (s : String) : Str := s.toList.map Char.toNat

/-- `Location(filename, lineno)`; `filename` may be `None`, `lineno` may be any integer
    after a `#line` directive. -/
structure Location where
  filename : Option String
  lineno : Int
  deriving Repr, DecidableEq, Inhabited

/-- A token as produced by `Lexer.token()` (before `_fill_tokbuf` stamps a location). -/
structure RawTok where
  type : String
  value : Str
  lineno : Nat
  lexpos : Nat
  deriving Repr, DecidableEq, Inhabited

/-- The mutable state of a `PlyLexer` instance that the token loop reads and writes. -/
structure LexState where
  rest : Str                 -- lexdata[lexpos:]
  pos : Nat := 0             -- lexpos
  lineno : Nat := 1          -- lex.lineno
  lineOffset : Int := 0      -- line_offset
  filename : Option String := none
  deriving Repr, DecidableEq, Inhabited

def LexState.location (st : LexState) : Location :=
  { filename := st.filename, lineno := (st.lineno : Int) - st.lineOffset }

/-- `LexError(msg, tok)` raised by `_error`: message, `tok.value`, `tok.location`. -/
structure LexErr where
  msg : String
  tokValue : Str
  loc : Location
  deriving Repr, DecidableEq, Inhabited

end Cxx
