/-
  Parser/Core.lean — the mutually recursive core of `parser.py`: `_parse_type`,
  `_parse_pqname*`, `_parse_template_specialization`, `_parse_cv_ptr_or_fn`,
  `_parse_array_type`, `_parse_parameter(s)`, `_parse_trailing_return_type`,
  `_parse_template_decl`.

  Open recursion: `coreStep rec` is non-recursive and calls `rec.*` where the Python calls
  itself; `core n` unfolds it `n` times (recursion depth), and every `while True:` is a
  `loopN F` (iteration bound).  Running out of either is the distinct outcome `Err.fuel`.
-/
import CxxModel.Parser.Basic
namespace Cxx.P

/-- `dict[key] = tok`: keeps the position of an existing key -/
def dictSet (d : List (String × CTok)) (k : String) (v : CTok) : List (String × CTok) :=
  if d.any (fun p => p.1 = k) then d.map (fun p => if p.1 = k then (k, v) else p) else d ++ [(k, v)]

/-- `ParsedTypeModifiers.validate` -/
def Mods.validate (m : Mods) (varOk methOk : Bool) (msg : String) : M Unit :=
  let bad (tok : CTok) : M Unit := cxxError (msg ++ ": unexpected '" ++ tok.value ++ "'")
  match (if !varOk then m.vars.head? else none) with
  | some (_, tok) => bad tok
  | none =>
    match (if !methOk then m.meths.head? else none) with
    | some (_, tok) => bad tok
    | none =>
      match (if !methOk && !varOk then m.both.head? else none) with
      | some (_, tok) => bad tok
      | none => pure ()

def isAutoSeg : PQSeg → Bool
  | .auto => true
  | _ => false

/-- `typename == PQName([AutoSpecifier()])` -/
def isAutoName : PQName → Bool
  | .mk [s] none false => isAutoSeg s
  | _ => false

def isRefLike : DType → Bool
  | .ref _ => true
  | .mref _ => true
  | _ => false

def isFnType : DType → Bool
  | .fn .. => true
  | _ => false

def setConst : DType → Option DType
  | .type n _ v => some (.type n true v)
  | .ptr t _ v => some (.ptr t true v)
  | _ => none

def setVolatile : DType → Option DType
  | .type n c _ => some (.type n c true)
  | .ptr t c _ => some (.ptr t c true)
  | _ => none

/-- the `Type` object a declarator was built around (pointers, references, arrays and function types wrap it) -/
def baseType : DType → DType
  | .type n c v => .type n c v
  | .ptr t _ _ => baseType t
  | .ref t => baseType t
  | .mref t => baseType t
  | .array t _ => baseType t
  | .fn rt _ _ _ _ _ => baseType rt

/-- the functions that take part in call cycles -/
structure Core where
  parseType : Option CTok → Bool → M (Option DType × Mods)
  parsePqname : Option CTok → (fnOk compoundOk fundOk : Bool) → M (PQName × Option String)
  parseCvPtrOrFn : DType → Bool → M DType
  parseParameters : Bool → M (List Param × Bool × List TemplateParam)
  parseParameter : Option CTok → (conceptOk : Bool) → (endTok : String) → M (Param × Option DType)
  parseTemplateDecl : M TemplateDecl

def Core.bottom : Core :=
  { parseType := fun _ _ => failWith .fuel
    parsePqname := fun _ _ _ _ => failWith .fuel
    parseCvPtrOrFn := fun _ _ => failWith .fuel
    parseParameters := fun _ => failWith .fuel
    parseParameter := fun _ _ _ => failWith .fuel
    parseTemplateDecl := failWith .fuel }

/-- `_parse_cv_ptr` -/
def parseCvPtr (rec : Core) (dtype : DType) : M DType := do
  let d ← rec.parseCvPtrOrFn dtype false
  if isFnType d then cxxError "unexpected function type" else pure d

/-- `_parse_array_type(tok, dtype)`.  The Python recursion (array types read right to left)
    is a loop here: collect the sizes, then wrap from the last to the first. -/
def parseArrayType (F : Nat) (tok : CTok) (dtype : DType) : M DType := do
  let sizes ← loopN F (tok, ([] : List (Option Value))) (fun (tok, sizes) => do
    if isRefLike dtype then cxxError "arrays of references are illegal" (some tok)
    else do
      let toks ← consumeBalancedTokens F [tok]
      let toks := sliceIf Gen.arraySizeSliced toks
      let size := if toks.isEmpty then none else some (createValue toks)
      match (← tokenIf ["["]) with
      | some otok => pure (.inl (otok, sizes ++ [size]))
      | none => pure (.inr (sizes ++ [size])))
  pure (sizes.reverse.foldl (fun t s => DType.array t s) dtype)

/-- `_parse_trailing_return_type(return_type)` -/
def parseTrailingReturnType (rec : Core) (returnType : Option DType) : M DType := do
  let ok := match returnType with
    | some (.type n false false) => isAutoName n
    | _ => false
  if !ok then
    cxxError "function with trailing return type must specify return type of 'auto', not …"
  else do
    let (parsedType, mods) ← rec.parseType none false
    match parsedType with
    | none => raiseParseError none
    | some pt => do
      Mods.validate mods false false "parsing trailing return type"
      parseCvPtr rec pt

/-- `_parse_pqname_decltype_specifier` -/
def parsePqnameDecltypeSpecifier (F : Nat) : M PQSeg := do
  let tok ← nextTokenMustBe ["("]
  let toks ← consumeBalancedTokens F [tok]
  pure (.decltype (toTokens (sliceIf Gen.decltypeSliced toks)))

/-- one iteration of the keyword loop of `_parse_pqname_fundamental` -/
def fundBody (names : List String) : M (List String ⊕ List String) := do
  match (← tokenIfInSet Gen.compoundFundamentals) with
  | none => pure (.inr names)
  | some t => pure (.inl (names ++ [t.value]))

/-- `_parse_pqname_fundamental(tok_value)` -/
def parsePqnameFundamental (F : Nat) (tokValue : String) : M PQSeg := do
  if Gen.compoundFundamentals.contains tokValue then do
    let names ← loopN F [tokValue] fundBody
    pure (.fund (joinWith " " names))
  else pure (.fund tokValue)

/-- `_parse_pqname_name_operator` -/
def parsePqnameNameOperator (F : Nat) : M (List CTok) := do
  let tok ← token
  if tok.value = "(" then do
    let tok2 ← nextTokenMustBe [")"]
    pure [tok, tok2]
  else consumeUntil F [tok] ["("]

/-- `_parse_template_specialization` (on entry `<` has been consumed) -/
def parseTemplateSpecialization (F : Nat) (rec : Core) : M TemplateSpec := do
  let args ← loopN F ([] : List TemplateArg) (fun args => do
    let rawToks ← consumeValueUntil F [] [",", ">", "ELLIPSIS"]
    let val := createValue rawToks
    let tryType : Bool := match rawToks.head? with
      | some t => Gen.pqnameStartTokens.contains t.type || t.type = "const" || t.type = "volatile"
      | none => false
    let dtype : Option DType ← (
      if tryType then
        let body : M DType := do
          let (parsedType, mods) ← rec.parseType none false
          match parsedType with
          | none => raiseParseError none
          | some pt => do
            Mods.validate mods false false ""
            let d ← rec.parseCvPtrOrFn pt true
            let _ ← nextTokenMustBe [Gen.phonyType]
            pure d
        Prog.bounded (rawToks ++ [phonyCTok]) body (fun (r, hasTokens) =>
          match r with
          | some d => if hasTokens then Prog.pure none else Prog.pure (some d)
          | none => Prog.pure none)
      else pure none)
    let paramPack := (← tokenIf ["ELLIPSIS"]).isSome
    let arg : TemplateArg ← (
      match dtype with
      | some d => pure (TemplateArg.ty d paramPack)
      | none =>
        if paramPack then
          match val.tokens.getLast? with
          | none => pyRaise "IndexError" "list index out of range"
          | some lastTok =>
            if lastTok.value = "sizeof" then do
              let tok ← nextTokenMustBe ["("]
              let raw ← consumeBalancedTokens F [tok]
              pure (TemplateArg.val { tokens := val.tokens ++ [{ value := "...", type := "ELLIPSIS" }] ++ toTokens raw } paramPack)
            else pure (TemplateArg.val val paramPack)
        else pure (TemplateArg.val val paramPack))
    let tok ← nextTokenMustBe [",", ">"]
    if tok.type = ">" then pure (.inr (args ++ [arg])) else pure (.inl (args ++ [arg])))
  pure (.mk args)

/-- `_parse_pqname_name(tok_value)` -/
def parsePqnameName (F : Nat) (rec : Core) (tokValue : String) : M (PQSeg × Option String) := do
  let (name, op) ← (
    if tokValue = "operator" then do
      let parts ← parsePqnameNameOperator F
      let op := String.join (parts.map (·.value))
      pure ("operator" ++ op, some op)
    else pure (tokValue, (none : Option String)))
  let spec ← (do
    match (← tokenIf ["<"]) with
    | some _ => do
      let s ← parseTemplateSpecialization F rec
      pure (some s)
    | none => pure none)
  pure (.name name spec, op)

/-- Python truthiness of `op` -/
def opTruthy : Option String → Bool
  | some s => !s.isEmpty
  | none => false

/-- one segment of a qualified name, starting at `tok`; the flag says that no further segment
    may follow (a fundamental type or an operator name ends the name) -/
def pqnameSeg (F : Nat) (rec : Core) (fnOk fundOk : Bool) (segments : List PQSeg) (tok : CTok) :
    M (List PQSeg × Option String × Bool) := do
  let tokValue := tok.value
  if tokValue = "decltype" then do
    let seg ← parsePqnameDecltypeSpecifier F
    pure (segments ++ [seg], (none : Option String), false)
  else if Gen.fundamentals.contains tokValue then
    if !fundOk then raiseParseError (some tok)
    else do
      let seg ← parsePqnameFundamental F tokValue
      pure (segments ++ [seg], none, true)
  else do
    if tokValue = "[[" then consumeAttributeSpecifierSeq F tok
    let (tok, tokValue) ← (
      if tokValue = "template" then do
        let t ← nextTokenMustBe ["NAME"]
        pure (t, t.value)
      else pure (tok, tokValue))
    let (seg, op) ← parsePqnameName F rec tokValue
    if opTruthy op then
      if !fnOk then raiseParseError (some tok) "NAME"
      else pure (segments ++ [seg], op, true)
    else pure (segments ++ [seg], op, false)

/-- one iteration of the segment loop of `_parse_pqname` -/
def pqnameBody (F : Nat) (rec : Core) (fnOk fundOk : Bool) (st : List PQSeg × CTok) :
    M ((List PQSeg × CTok) ⊕ (List PQSeg × Option String)) := do
  let (segments, op, done) ← pqnameSeg F rec fnOk fundOk st.1 st.2
  if done then pure (.inr (segments, op))
  else
    match (← tokenIf ["DBL_COLON"]) with
    | none => pure (.inr (segments, op))
    | some _ => do
      let t ← nextTokenMustBe ["NAME", "operator", "template", "decltype"]
      pure (.inl (segments, t))

/-- `_parse_pqname(tok, fn_ok, compound_ok, fund_ok)` -/
def parsePqnameStep (F : Nat) (rec : Core) (tok : Option CTok) (fnOk compoundOk fundOk : Bool) :
    M (PQName × Option String) := do
  let tok ← (match tok with
    | some t => pure t
    | none => token)
  if !Gen.pqnameStartTokens.contains tok.type then raiseParseError (some tok)
  else if tok.type = "auto" then pure (.mk [.auto] none false, none)
  else do
    -- returns either an early result or (classkey, has_typename, tok)
    let pre : (PQName × Option String) ⊕ (Option String × Bool × CTok) ← (
      if Gen.nameCompoundStart.contains tok.value then
        if !compoundOk then raiseParseError (some tok)
        else do
          let mut classkey := tok.value
          if classkey = "enum" then
            match (← tokenIf ["class", "struct"]) with
            | some t => classkey := classkey ++ " " ++ t.value
            | none => pure ()
          match (← tokenIf Gen.attributeStartTokens) with
          | some t => consumeAttribute F t
          | none => pure ()
          match (← tokenIf ["NAME", "DBL_COLON"]) with
          | none => do
            let id ← (Prog.fresh Prog.pure : M Nat)
            pure (.inl (.mk [.anon id] (some classkey) false, none))
          | some t => pure (.inr (some classkey, false, t))
      else if tok.type = "typename" then do
        let t ← token
        if !Gen.pqnameStartTokens.contains t.type then raiseParseError (some t)
        else pure (.inr (none, true, t))
      else pure (.inr (none, false, tok)))
    match pre with
    | .inl r => pure r
    | .inr (classkey, hasTypename, tok) => do
      let (segments0, tok) ← (
        if tok.type = "DBL_COLON" then do
          let t ← nextTokenMustBe ["NAME", "template", "operator"]
          pure ([PQSeg.name "" none], t)
        else pure ([], tok))
      let (segments, op) ← loopN F (segments0, tok) (pqnameBody F rec fnOk fundOk)
      debugPrint "parse_pqname"
      pure (.mk segments classkey hasTypename, op)

/-- one iteration of the token loop of `_parse_type`; the state is
    (current token, name so far, const, volatile, modifiers, name-optional flag) -/
def typeBody (F : Nat) (rec : Core) (operatorOk : Bool)
    (st : CTok × Option PQName × Bool × Bool × Mods × Bool) :
    M ((CTok × Option PQName × Bool × Bool × Mods × Bool) ⊕ (CTok × Option PQName × Bool × Bool × Mods × Bool)) := do
  let tok := st.1
  let pqname := st.2.1
  let const := st.2.2.1
  let volatile := st.2.2.2.1
  let mods := st.2.2.2.2.1
  let ty := tok.type
  -- `step` = go on with the next token; otherwise `break`
  let r : (Option PQName × Bool × Bool × Mods) ⊕ Bool ← (
    if Gen.pqnameStartTokens.contains ty then
      if pqname.isSome then pure (.inr false)
      else if operatorOk && ty = "operator" then pure (.inr true)
      else do
        let (pq, _) ← rec.parsePqname (some tok) false true true
        pure (.inl (some pq, const, volatile, mods))
    else if Gen.parseTypePtrRefParen.contains ty then
      if pqname.isNone then raiseParseError (some tok) else pure (.inr false)
    else if ty = "const" then pure (.inl (pqname, true, volatile, mods))
    else if Gen.typeKwdBoth.contains ty then do
      if ty = "extern" then
        let _ ← tokenIf ["STRING_LITERAL"]
      pure (.inl (pqname, const, volatile, { mods with both := dictSet mods.both ty tok }))
    else if Gen.typeKwdMeth.contains ty then
      pure (.inl (pqname, const, volatile, { mods with meths := dictSet mods.meths ty tok }))
    else if ty = "mutable" then
      pure (.inl (pqname, const, volatile, { mods with vars := dictSet mods.vars "mutable" tok }))
    else if ty = "volatile" then pure (.inl (pqname, const, true, mods))
    else if Gen.attributeStartTokens.contains ty then do
      consumeAttribute F tok
      pure (.inl (pqname, const, volatile, mods))
    else if ty = "__inline" || ty = "__forceinline" then
      pure (.inl (pqname, const, volatile, { mods with both := dictSet mods.both "inline" tok }))
    else pure (.inr false))
  match r with
  | .inl (pqname, const, volatile, mods) => do
    let t ← token
    pure (.inl (t, pqname, const, volatile, mods, false))
  | .inr opt => pure (.inr (tok, pqname, const, volatile, mods, opt))

/-- `_parse_type(tok, operator_ok)` -/
def parseTypeStep (F : Nat) (rec : Core) (tok : Option CTok) (operatorOk : Bool) :
    M (Option DType × Mods) := do
  let tok ← (match tok with
    | some t => pure t
    | none => token)
  let (tok, pqname, const, volatile, mods, pqnameOptional) ←
    loopN F (tok, (none : Option PQName), false, false, ({} : Mods), false) (typeBody F rec operatorOk)
  match pqname with
  | none =>
    if !pqnameOptional then raiseParseError (some tok)
    else do
      returnToken tok
      pure (none, mods)
  | some pq => do
    returnToken tok
    pure (some (.type pq const volatile), mods)

/-- one iteration of the first `while True:` of `_parse_cv_ptr_or_fn` -/
def cvPtrBody (F : Nat) (rec : Core) (nonptrFn : Bool) (dtype : DType) : M (DType ⊕ DType) := do
  match (← tokenIf ["*", "const", "volatile", "("]) with
  | none => pure (.inr dtype)
  | some tok =>
    if tok.type = "*" then
      if isRefLike dtype then raiseParseError (some tok) else pure (.inl (.ptr dtype false false))
    else if tok.type = "const" then
      match setConst dtype with
      | some d => pure (.inl d)
      | none => raiseParseError (some tok)
    else if tok.type = "volatile" then
      match setVolatile dtype with
      | some d => pure (.inl d)
      | none => raiseParseError (some tok)
    else if nonptrFn then do
      -- remove any inner grouping parens
      loopN F () (fun _ => do
        match (← tokenIf ["("]) with
        | none => pure (.inr ())
        | some gtok => do
          let toks ← consumeBalancedTokens F [gtok]
          returnTokens (inner toks)
          pure (.inl ()))
      let (fnParams, vararg, _) ← rec.parseParameters false
      if isFnType dtype then pyRaise "AssertionError" ""
      else
        match (← tokenIf ["ARROW"]) with
        | some _ => do
          let rt ← parseTrailingReturnType rec (some dtype)
          pure (.inl (.fn rt fnParams vararg true none none))
        | none => pure (.inl (.fn dtype fnParams vararg false none none))
    else do
      let msvcTok ← tokenIfVal Gen.msvcConventions
      let msvc := msvcTok.map (·.value)
      -- Check to see if this is a grouping paren or something else
      if !(← tokenPeekIf ["*", "&"]) then do
        returnToken tok
        pure (.inr dtype)
      else do
        let toks ← consumeBalancedTokens F [tok]
        let dtype ← (do
          match (← tokenIf ["[", "("]) with
          | none => pure dtype
          | some aptok =>
            if aptok.type = "[" then
              if isFnType dtype then pyRaise "AssertionError" ""
              else parseArrayType F aptok dtype
            else do
              let (fnParams, vararg, _) ← rec.parseParameters false
              if isFnType dtype then pyRaise "AssertionError" ""
              else pure (.fn dtype fnParams vararg false none msvc))
        returnTokens (inner toks)
        let d ← rec.parseCvPtrOrFn dtype nonptrFn
        pure (.inr d)

/-- the reference suffix of `_parse_cv_ptr_or_fn` -/
def cvRefTail (rec : Core) (nonptrFn : Bool) (dtype : DType) : M DType := do
  match (← tokenIf ["&", "DBL_AMP"]) with
  | none => pure dtype
  | some tok =>
    if isRefLike dtype then pyRaise "AssertionError" ""
    else do
      let d : DType := if tok.type = "&" then .ref dtype else .mref dtype
      if (← tokenPeekIf ["("]) then rec.parseCvPtrOrFn d nonptrFn else pure d

/-- `_parse_cv_ptr_or_fn(dtype, nonptr_fn)` -/
def parseCvPtrOrFnStep (F : Nat) (rec : Core) (dtype : DType) (nonptrFn : Bool) : M DType := do
  let dtype ← loopN F dtype (cvPtrBody F rec nonptrFn)
  cvRefTail rec nonptrFn dtype

/-- `_parse_parameter(tok, cls, concept_ok, end)`; both `Parameter` and
    `TemplateNonTypeParam` take (type, name, default, param_pack) -/
def parseParameterStep (F : Nat) (rec : Core) (tok : Option CTok) (conceptOk : Bool) (endTok : String) :
    M (Param × Option DType) := do
  let tok ← (match tok with
    | some t => pure t
    | none => token)
  let (parsedType, atType) ← (
    if tok.type = "auto" then
      pure (DType.type autoName false false, some (DType.type autoName false false))
    else do
      let (pt, mods) ← rec.parseType (some tok) false
      match pt with
      | none => raiseParseError none
      | some pt => do
        Mods.validate mods false false "parsing parameter"
        if conceptOk then
          match (← tokenIf ["auto"]) with
          | some _ =>
            match pt with
            | .type n c v => pure (DType.type autoName c v, some (DType.type n false false))
            | other => pure (other, none)
          | none => pure (pt, none)
        else pure (pt, none))
  let dtype ← parseCvPtr rec parsedType
  -- for a parameter that starts with `auto`, `at_type` IS the parsed `Type` object: qualifiers written after
  -- `auto` (`auto const x`) are set on it in place by `_parse_cv_ptr_or_fn`, so the invented template
  -- parameter carries them too
  let atType := if tok.type = "auto" then some (baseType dtype) else atType
  let mut paramPack := (← tokenIf ["ELLIPSIS"]).isSome
  -- name can be surrounded by parens
  match (← tokenIf ["("]) with
  | some t => do
    let toks ← consumeBalancedTokens F [t]
    returnTokens (inner toks)
  | none => pure ()
  let paramName := (← tokenIf ["NAME", "final"]).map (·.value)
  let dtype ← (do
    match (← tokenIf ["["]) with
    | some t => parseArrayType F t dtype
    | none => pure dtype)
  let default ← (do
    match (← tokenIf ["="]) with
    | some _ => do
      let toks ← consumeValueUntil F [] [",", endTok]
      pure (some (createValue toks))
    | none => pure none)
  if atType.isSome then
    if (← tokenIf ["ELLIPSIS"]).isSome then paramPack := true
  debugPrint "parameter"
  pure (.mk dtype paramName default paramPack, atType)

/-- `len(segments) == 1 and getattr(segments[0], "name", None) == "void"` -/
def isLoneVoid : DType → Bool
  | .type (.mk [s] _ _) _ _ => s.nameAttr = some "void"
  | _ => false

/-- `convert fn(void) to fn()`: the tail of `_parse_parameters` -/
def applyVoidOption (convert : Bool) (params : List Param) : List Param :=
  match params with
  | [p0] => if convert && isLoneVoid p0.type then [] else params
  | _ => params

/-- one iteration of the parameter loop of `_parse_parameters`; the state is the parameters so far
    and the template parameters abbreviated `auto` parameters stand for -/
def paramsBody (rec : Core) (conceptOk : Bool) (st : List Param × List TemplateParam) :
    M ((List Param × List TemplateParam) ⊕ (List Param × Bool × List TemplateParam)) := do
  let params := st.1
  let atParams := st.2
  match (← tokenIf ["ELLIPSIS"]) with
  | some _ => do
    let _ ← nextTokenMustBe [")"]
    pure (.inr (params, true, atParams))
  | none => do
    let (param, atType) ← rec.parseParameter none conceptOk ")"
    let params := params ++ [param]
    let atParams := match atType with
      | some t => atParams ++ [TemplateParam.nonType t none none (some ((params.length : Int) - 1)) param.paramPack]
      | none => atParams
    let tok ← nextTokenMustBe [",", ")"]
    if tok.value = ")" then pure (.inr (params, false, atParams)) else pure (.inl (params, atParams))

/-- `_parse_parameters(concept_ok)` -/
def parseParametersStep (F : Nat) (rec : Core) (conceptOk : Bool) :
    M (List Param × Bool × List TemplateParam) := do
  match (← tokenIf [")"]) with
  | some _ => pure ([], false, [])
  | none => do
    let (params, vararg, atParams) ← loopN F (([] : List Param), ([] : List TemplateParam)) (paramsBody rec conceptOk)
    let convert ← getConvertVoid
    pure (applyVoidOption convert params, vararg, atParams)

/-- `_parse_template_type_parameter(tok, template)` -/
def parseTemplateTypeParameter (F : Nat) (tok : CTok) (template : Option TemplateDecl) : M TemplateParam := do
  let typekey := tok.type
  let paramPack := (← tokenIf ["ELLIPSIS"]).isSome
  let name := (← tokenIf ["NAME"]).map (·.value)
  let default ← (do
    match (← tokenIf ["="]) with
    | some _ => do
      let toks ← consumeValueUntil F [] [",", ">"]
      pure (some (createValue toks))
    | none => pure none)
  pure (.typeParam typekey name paramPack default template)

def paramToNonType (p : Param) : TemplateParam := .nonType p.type p.name p.default none p.paramPack

/-- `_parse_template_decl` -/
def parseTemplateDeclStep (F : Nat) (rec : Core) : M TemplateDecl := do
  let _ ← nextTokenMustBe ["<"]
  match (← tokenIf [">"]) with
  | some _ => pure (.mk [] none)
  | none => do
    let params ← loopN F ([] : List TemplateParam) (fun params => do
      let tok ← token
      let param : TemplateParam ← (
        if tok.type = "template" then do
          let template ← rec.parseTemplateDecl
          let t ← nextTokenMustBe ["class", "typename"]
          parseTemplateTypeParameter F t (some template)
        else if tok.type = "class" then parseTemplateTypeParameter F tok none
        else if tok.type = "typename" then do
          let ptok ← token
          let isTypeParam ← (
            if ["ELLIPSIS", "=", ",", ">"].contains ptok.type then pure true
            else if ptok.type = "NAME" then tokenPeekIf ["=", ",", ">"]
            else pure false)
          if isTypeParam then do
            returnToken ptok
            parseTemplateTypeParameter F tok none
          else do
            let (p, _) ← rec.parseParameter (some ptok) false ">"
            pure (paramToNonType p)
        else do
          let (p, _) ← rec.parseParameter (some tok) false ">"
          pure (paramToNonType p))
      let t ← nextTokenMustBe [",", ">"]
      if t.type = ">" then pure (.inr (params ++ [param])) else pure (.inl (params ++ [param])))
    pure (.mk params none)

def coreStep (F : Nat) (rec : Core) : Core :=
  { parseType := parseTypeStep F rec
    parsePqname := parsePqnameStep F rec
    parseCvPtrOrFn := parseCvPtrOrFnStep F rec
    parseParameters := parseParametersStep F rec
    parseParameter := parseParameterStep F rec
    parseTemplateDecl := parseTemplateDeclStep F rec }

/-- recursion depth `n`, loop bound `F` -/
def core (F : Nat) : Nat → Core
  | 0 => Core.bottom
  | n + 1 => coreStep F (core F n)

end Cxx.P
