/-
  Parser/Decl.lean — the acyclic part of `parser.py` on top of the core: requires clauses,
  function/method ends, `_parse_function`, `_parse_field`, `_parse_decl`,
  `_parse_declarations`, classes, enums, namespaces, extern, templates, using, directives
  and the main loop of `parse()`.
-/
import CxxModel.Parser.Core
namespace Cxx.P

/-! ### requires -/

/-- `_parse_requires_segment(tok, rawtoks)` -/
def parseRequiresSegment (F : Nat) (tok : CTok) (rawtoks : List CTok) : M (CTok × List CTok) := do
  let (tok, rawtoks) ← (
    if tok.type = "DBL_COLON" then do
      let t ← token
      pure (t, rawtoks ++ [tok])
    else pure (tok, rawtoks))
  loopN F (tok, rawtoks) (fun (tok, rawtoks) => do
    let rawtoks ← (
      if tok.value = "decltype" then do
        let t ← nextTokenMustBe ["("]
        let more ← consumeBalancedTokens F [t]
        pure (rawtoks ++ [tok] ++ more)
      else if tok.type = "NAME" then pure (rawtoks ++ [tok])
      else raiseParseError (some tok))
    let tok ← token
    let (tok, rawtoks) ← (
      if tok.value = "<" then do
        let more ← consumeBalancedTokens F [tok]
        let t ← token
        pure (t, rawtoks ++ more)
      else pure (tok, rawtoks))
    if tok.type = "DBL_COLON" then do
      let t ← token
      pure (.inl (t, rawtoks))
    else pure (.inr (tok, rawtoks)))

/-- `_parse_requires(tok)` -/
def parseRequires (F : Nat) : M Value := do
  let tok ← token
  if tok.type = "requires" then do
    let t1 ← nextTokenMustBe ["("]
    let g1 ← consumeBalancedTokens F [t1]
    let t2 ← nextTokenMustBe ["{"]
    let g2 ← consumeBalancedTokens F [t2]
    pure (createValue ([tok] ++ g1 ++ g2))
  else if tok.type = "(" then do
    let g ← consumeBalancedTokens F [tok]
    pure (createValue g)
  else do
    let (tok, rawtoks) ← loopN F (tok, ([] : List CTok)) (fun (tok, rawtoks) => do
      let (tok, rawtoks) ← (
        if tok.type = "(" then do
          let g ← consumeBalancedTokens F [tok]
          pure (tok, rawtoks ++ g)
        else parseRequiresSegment F tok rawtoks)
      if !Gen.exprOperators.contains tok.value then pure (.inr (tok, rawtoks))
      else do
        let rawtoks := rawtoks ++ [tok]
        let tok ← token
        if Gen.exprOperators.contains tok.value then do
          let t ← token
          pure (.inl (t, rawtoks ++ [tok]))
        else pure (.inl (tok, rawtoks)))
    returnToken tok
    pure (createValue rawtoks)

/-! ### function / method ends -/

/-- `_discard_ctor_initializer` -/
def discardCtorInitializer (F : Nat) : M Unit := do
  debugPrint "discarding ctor intializer"
  loopN F () (fun _ => do
    let mut tok ← token
    if tok.type = "DBL_COLON" then
      tok ← token
    if tok.type = "decltype" then
      let t ← nextTokenMustBe ["("]
      let _ ← consumeBalancedTokens F [t]
      tok ← token
    -- each initializer is either foo() or foo{}, so look for that
    let tok2 ← loopN F tok (fun tok => do
      if tok.type != "{" && tok.type != "(" then do
        let t ← token
        pure (.inl t)
      else do
        if tok.type = "{" then discardContents F "{" "}" else discardContents F "(" ")"
        let t ← token
        pure (.inr t))
    let mut tok3 := tok2
    if tok3.type = "ELLIPSIS" then
      tok3 ← token
    if tok3.type = "," then pure (.inl ())
    else if tok3.type = "{" then do
      discardContents F "{" "}"
      pure (.inr ())
    else raiseParseError (some tok3) ",' or '{")

/-- `_parse_fn_end(fn)` -/
def parseFnEnd (F : Nat) (c : Core) (fn : Function) : M Function := do
  let mut fn := fn
  if (← tokenIf ["throw"]).isSome then
    let tok ← nextTokenMustBe ["("]
    let toks ← consumeBalancedTokens F [tok]
    fn := { fn with throw := some (createValue (sliceIf Gen.fnThrowSliced toks)) }
  else if (← tokenIf ["noexcept"]).isSome then
    match (← tokenIf ["("]) with
    | some otok =>
      let toks ← consumeBalancedTokens F [otok]
      fn := { fn with noexcept := some (createValue (sliceIf Gen.fnNoexceptSliced toks)) }
    | none => fn := { fn with noexcept := some (createValue []) }
  else
    match (← tokenIf ["requires"]) with
    | some rtok =>
      if !fn.template.isSome then
        let _ ← (raiseParseError (some rtok) : M Unit)
      let v ← parseRequires F
      fn := { fn with rawRequires := some v }
    | none => pure ()
  if (← tokenIf ["ARROW"]).isSome then
    let rt ← parseTrailingReturnType c fn.returnType
    fn := { fn with hasTrailingReturn := true, returnType := some rt }
  if (← tokenIf ["{"]).isSome then
    discardContents F "{" "}"
    fn := { fn with hasBody := true }
  else if (← tokenIf ["="]).isSome then
    if (← tokenIfVal ["delete"]).isSome then
      fn := { fn with deleted := true }
    else
      let _ ← (raiseParseError none "expected 'delete" : M Unit)
  pure fn

/-- one iteration of the `while True:` of `_parse_method_end` -/
def methodEndBody (F : Nat) (c : Core) (method : Function) : M (Function ⊕ Function) := do
  let tok ← token
  let v := tok.value
  if v = ":" || v = "{" then do
    if v = ":" then discardCtorInitializer F else discardContents F "{" "}"
    pure (.inr { method with hasBody := true })
  else if v = "=" then do
    let tok ← token
    let v := tok.value
    if v = "0" then pure (.inr { method with pureVirtual := true })
    else if v = "delete" then pure (.inr { method with deleted := true })
    else if v = "default" then pure (.inr { method with default := true })
    else raiseParseError (some tok) "0/delete/default"
  else if v = "const" then pure (.inl { method with const := true })
  else if v = "volatile" then pure (.inl { method with volatile := true })
  else if v = "override" then pure (.inl { method with override := true })
  else if v = "final" then pure (.inl { method with final := true })
  else if v = "&" || v = "&&" then pure (.inl { method with refQualifier := some v })
  else if v = "->" then do
    let rt ← parseTrailingReturnType c method.returnType
    let method := { method with hasTrailingReturn := true, returnType := some rt }
    if (← tokenIf ["{"]).isSome then do
      discardContents F "{" "}"
      pure (.inr { method with hasBody := true })
    else pure (.inr method)
  else if v = "throw" then do
    let t ← nextTokenMustBe ["("]
    let toks ← consumeBalancedTokens F [t]
    pure (.inl { method with throw := some (createValue (sliceIf Gen.methodThrowSliced toks)) })
  else if v = "noexcept" then do
    match (← tokenIf ["("]) with
    | some otok => do
      let toks ← consumeBalancedTokens F [otok]
      pure (.inl { method with noexcept := some (createValue (sliceIf Gen.methodNoexceptSliced toks)) })
    | none => pure (.inl { method with noexcept := some (createValue []) })
  else if v = "requires" then do
    let r ← parseRequires F
    pure (.inl { method with rawRequires := some r })
  else do
    returnToken tok
    pure (.inr method)

/-- `_parse_method_end(method)` -/
def parseMethodEnd (F : Nat) (c : Core) (method : Function) : M Function :=
  loopN F method (methodEndBody F c)

/-! ### functions -/

def isNameSeg : PQSeg → Bool
  | .name _ _ => true
  | _ => false

def hasKey (d : List (String × CTok)) (k : String) : Bool := d.any (fun p => p.1 = k)

/-- append abbreviated-template parameters to the template header (`template.params.extend`) -/
def extendTemplate (template : TemplateVar) (ps : List TemplateParam) : TemplateVar :=
  match template with
  | .none => .one (.mk ps none)
  | .one (.mk params r) => .one (.mk (params ++ ps) r)
  | .many ts =>
    match ts.reverse with
    | (.mk params r) :: restRev => .many (restRev.reverse ++ [.mk (params ++ ps) r])
    | [] => .many ts

/-- `_parse_function(...)`; returns `True` if the end of the statement was consumed -/
def parseFunction (F : Nat) (c : Core) (mods : Mods) (returnType : Option DType) (pqname : PQName)
    (op : Option String) (template : TemplateVar) (doxygen : Option String) (location : LocRef)
    (constructor destructor isFriend isTypedef : Bool) (msvcConvention : Option CTok)
    (isGuide : Bool) : M Bool := do
  -- last segment must be NameSpecifier
  if !(pqname.segments.getLast?.map isNameSeg).getD false then raiseParseError none
  else do
    setLoc location
    let state ← getTop
    let isClassBlock := state.kind = .cls
    let (params, vararg, atParams) ← c.parseParameters true
    let template := if atParams.isEmpty then template else extendTemplate template atParams
    let multipleNameSegments := pqname.segments.length > 1
    let base : Function :=
      { returnType := returnType, name := pqname, parameters := params, vararg := vararg,
        doxygen := doxygen, template := template, operator := op,
        constexpr := hasKey mods.both "constexpr", extern := hasKey mods.both "extern",
        static := hasKey mods.both "static", inline := hasKey mods.both "inline",
        msvcConvention := msvcConvention.map (·.value) }
    if (isClassBlock || multipleNameSegments) && !isTypedef then do
      let access ← currentAccess
      let method : Function :=
        { base with isMethod := true, constructor := constructor, destructor := destructor,
                    access := access, explicit := hasKey mods.meths "explicit",
                    virtual := hasKey mods.meths "virtual" }
      let method ← parseMethodEnd F c method
      if isClassBlock then
        if isFriend then emit (.classFriend { fn := some method })
        else do
          -- method must not have multiple segments except for operator
          if pqname.segments.length > 1 then
            if (pqname.segments.head?.bind PQSeg.nameAttr) != some "operator" then
              let _ ← (raiseParseError none : M Unit)
          emit (.classMethod method)
      else do
        -- only template specializations can be declared without a body here
        if !method.hasBody && !method.template.isSome then
          let _ ← (raiseParseError none "Method body" : M Unit)
        emit (.methodImpl method)
      pure (method.hasBody || method.hasTrailingReturn)
    else if isGuide then do
      if (← tokenIf ["ARROW"]).isNone then
        let _ ← (raiseParseError none "Trailing return type" : M Unit)
      let rt ← parseTrailingReturnType c (some (.type autoName false false))
      emit (.deductionGuide { resultType := some rt, name := pqname, parameters := params, doxygen := doxygen })
      pure false
    else
      match returnType with
      | none => pyRaise "AssertionError" ""
      | some _ => do
        let fn ← parseFnEnd F c base
        if isTypedef then do
          if pqname.segments.length != 1 then cxxError "typedef name may not be a nested-name-specifier"
          else
            let name := (pqname.segments.head?.bind PQSeg.nameAttr).getD ""
            if name.isEmpty then cxxError "typedef function must have a name"
            else if fn.constexpr then cxxError "typedef function may not be constexpr"
            else if fn.extern then cxxError "typedef function may not be extern"
            else if fn.static then cxxError "typedef function may not be static"
            else if fn.inline then cxxError "typedef function may not be inline"
            else if fn.hasBody then cxxError "typedef may not be a function definition"
            else if fn.template.isSome then cxxError "typedef function may not have a template"
            else
              match fn.returnType with
              | none => cxxError "typedef function must have return type"
              | some rt => do
                let fntype := DType.fn rt fn.parameters fn.vararg fn.hasTrailingReturn fn.noexcept fn.msvcConvention
                let access ← currentAccess
                emit (.typedef { type := fntype, name := name, access := access })
                pure false
        else if isClassBlock then cxxError "internal error"
        else do
          emit (.function fn)
          pure (fn.hasBody || fn.hasTrailingReturn)

/-! ### fields and variables -/

def allDigits (s : String) : Bool := !s.isEmpty && s.toList.all (fun ch => ch.isDigit)

/-- `_parse_bitfield`: `int(tok.value)` -/
def parseBitfield : M Nat := do
  let tok ← nextTokenMustBe ["INT_CONST_DEC"]
  if allDigits tok.value then pure tok.value.toNat!
  else pyRaise "ValueError" "invalid literal for int()"

/-- the end of `_parse_field`: the callback for a typedef, a field or a variable -/
def fieldEmit (mods : Mods) (state : BlockView) (dtype : DType) (pqname : Option PQName)
    (template : Option TemplateDecl) (name : Option String) (bits : Option Nat) (default : Option Value)
    (doxygen : Option String) (isTypedef : Bool) : M Unit :=
  let isClassBlock := state.kind = .cls
  if isTypedef then
    match name with
    | some n =>
      if n.isEmpty then raiseParseError none
      else do
        let access ← currentAccess
        emit (.typedef { type := dtype, name := n, access := access })
    | none => raiseParseError none
  else if isClassBlock then
    match state.access with
    | none => pyRaise "AssertionError" ""
    | some access =>
      if hasKey mods.both "extern" then
        pyRaise "TypeError" "Field.__init__() got an unexpected keyword argument 'extern'"
      else
        emit (.classField
          { name := name, type := dtype, access := access, value := default, bits := bits,
            doxygen := doxygen, constexpr := hasKey mods.both "constexpr",
            static := hasKey mods.both "static", inline := hasKey mods.both "inline",
            mutable := hasKey mods.vars "mutable" })
  else
    match pqname with
    | none => pyRaise "AssertionError" ""
    | some pq =>
      if hasKey mods.vars "mutable" then
        pyRaise "TypeError" "Variable.__init__() got an unexpected keyword argument 'mutable'"
      else
        emit (.variable
          { name := pq, type := dtype, value := default, doxygen := doxygen, template := template,
            constexpr := hasKey mods.both "constexpr", extern := hasKey mods.both "extern",
            static := hasKey mods.both "static", inline := hasKey mods.both "inline" })

/-- `_parse_field(...)` -/
def parseField (F : Nat) (mods : Mods) (dtype : DType) (pqname : Option PQName)
    (template : Option TemplateDecl) (doxygen : Option String) (location : LocRef)
    (isTypedef : Bool) : M Unit := do
  setLoc location
  let state ← getTop
  let isClassBlock := state.kind = .cls
  let name : Option String ← (
    match pqname with
    | none =>
      if isTypedef then cxxError "empty name not allowed in typedef"
      else if !isClassBlock then cxxError "variables must have names"
      else pure none
    | some pq =>
      match pq.segments.getLast? with
      | some (.name n _) =>
        if isTypedef || isClassBlock then
          if pq.segments.length > 1 then cxxError "name cannot have multiple segments: …"
          else pure (some n)
        else pure none
      | _ => cxxError "invalid name for variable: …")
  -- check for array
  let dtype ← (do
    match (← tokenIf ["["]) with
    | some t => parseArrayType F t dtype
    | none => pure dtype)
  -- bitfield
  let bits ← (do
    match (← tokenIf [":"]) with
    | some t =>
      if isTypedef || !isClassBlock then raiseParseError (some t)
      else do
        let b ← parseBitfield
        pure (some b)
    | none => pure none)
  -- default values
  let default ← (do
    match (← tokenIf ["="]) with
    | some t =>
      if isTypedef then raiseParseError (some t)
      else do
        let toks ← consumeValueUntil F [] [",", ";"]
        pure (some (createValue toks))
    | none =>
      match (← tokenIf ["{"]) with
      | some t =>
        if isTypedef then raiseParseError (some t)
        else do
          let toks ← consumeBalancedTokens F [t]
          pure (some (createValue toks))
      | none => pure none)
  let doxygen ← (match doxygen with
    | none => getDoxygenAfter
    | some d => pure (some d))
  fieldEmit mods state dtype pqname template name bits default doxygen isTypedef

def typenameOf : DType → Option PQName
  | .type n _ _ => some n
  | _ => none

def secondLast {α : Type} (l : List α) : Option α :=
  match l.reverse with
  | _ :: x :: _ => some x
  | _ => none

/-- Python truthiness of an optional string -/
def strTruthy : Option String → Bool
  | some s => !s.isEmpty
  | none => false

/-- `_parse_decl(...)`; returns `True` if it handled the end of the statement -/
def parseDecl (F : Nat) (c : Core) (parsedType : DType) (mods : Mods) (location : LocRef)
    (doxygen : Option String) (template : TemplateVar) (isTypedef isFriend : Bool) : M Bool := do
  let dtype0 ← parseCvPtr c parsedType
  let state ← getTop
  let isClassBlock := state.kind = .cls
  -- (dtype, pqname, constructor, destructor, is_guide)
  let (dtype, pqname, constructor, destructor, isGuide) ← (do
    match (← tokenIf ["("]) with
    | none => pure (some dtype0, (none : Option PQName), false, false, false)
    | some tok => do
      let dsegments : List PQSeg := match typenameOf dtype0 with
        | some n => n.segments
        | none => []
      -- constructor / destructor detection
      let (dtype, pqname, constructor, destructor) ← (
        if (isClassBlock || dsegments.length > 1) && (typenameOf dtype0).isSome then
          let clsName : Option String :=
            if !isClassBlock then (secondLast dsegments).bind PQSeg.nameAttr
            else if !isFriend then state.hdr.cls.typename.segments.getLast?.bind PQSeg.nameAttr
            else if dsegments.length ≥ 2 then (secondLast dsegments).bind PQSeg.nameAttr
            else none
          let retName : Option String := dsegments.getLast?.bind PQSeg.nameAttr
          if strTruthy clsName then
            if clsName = retName then do
              returnToken tok
              pure ((none : Option DType), typenameOf dtype0, true, false)
            else if (clsName.map (fun s => "~" ++ s)) = retName then do
              returnToken tok
              pure (none, typenameOf dtype0, false, true)
            else pure (some dtype0, none, false, false)
          else pure (some dtype0, none, false, false)
        else pure (some dtype0, none, false, false))
      if dtype.isSome then do
        let toks ← consumeBalancedTokens F [tok]
        if (← tokenPeekIf ["ARROW"]) then do
          returnTokens toks
          pure (dtype, typenameOf parsedType, constructor, destructor, true)
        else do
          returnTokens (inner toks)
          pure (dtype, pqname, constructor, destructor, false)
      else pure (dtype, pqname, constructor, destructor, false))
  let (msvcConvention, pqname, op) ← (
    if dtype.isSome then do
      let msvc ← tokenIfVal Gen.msvcConventions
      match (← tokenIfInSet Gen.pqnameStartTokens) with
      | some t => do
        let (pq, op) ← c.parsePqname (some t) true false false
        pure (msvc, some pq, op)
      | none => pure (msvc, pqname, (none : Option String))
    else pure (none, pqname, none))
  -- if ( then it's a function/method
  if (← tokenIf ["("]).isSome then
    match pqname with
    | none => raiseParseError none
    | some pq =>
      parseFunction F c mods dtype pq op template doxygen location constructor destructor
        isFriend isTypedef msvcConvention isGuide
  else
    match msvcConvention with
    | some m => raiseParseError (some m)
    | none =>
      if isFriend then do
        -- "friend Foo;"
        if (← tokenIf [";"]).isNone then raiseParseError none
        else if !isClassBlock then pyRaise "AssertionError" ""
        else
          match typenameOf parsedType with
          | none => pyRaise "AttributeError" "typename"
          | some tn => do
            let access ← currentAccess
            setLoc location
            emit (.classFriend { cls := some { typename := tn, template := template, doxygen := doxygen, access := access } })
            pure true
      else if opTruthy op then raiseParseError none
      else
        match dtype with
        | none => cxxError "appear to be parsing a field without a type"
        | some dt =>
          match template with
          | .many _ => cxxError "multiple template declarations on a field"
          | .one t => do
            parseField F mods dt pqname (some t) doxygen location isTypedef
            pure false
          | .none => do
            parseField F mods dt pqname none doxygen location isTypedef
            pure false

/-- `_parse_operator_conversion(...)` -/
def parseOperatorConversion (F : Nat) (c : Core) (mods : Mods) (location : LocRef)
    (doxygen : Option String) (template : TemplateVar) (isTypedef isFriend : Bool) : M Unit := do
  let tok ← nextTokenMustBe ["operator"]
  if isTypedef then raiseParseError (some tok) "operator not permitted in typedef"
  else do
    let (ctype, cmods) ← c.parseType none false
    match ctype with
    | none => raiseParseError none
    | some ct => do
      Mods.validate cmods false false "parsing conversion operator"
      let rtype ← parseCvPtr c ct
      let _ ← nextTokenMustBe ["("]
      let pqname : PQName := .mk [.name "operator" none] none false
      if (← parseFunction F c mods (some rtype) pqname (some "conversion") template doxygen location
            false false isFriend false none false) then pure ()
      else do
        let _ ← nextTokenMustBe [";"]
        pure ()

/-! ### classes and enums -/

/-- one leading `const` / `volatile` of a declarator that follows a class or enum body: it is set on the (shared) type -/
def leadCvBody (pt : DType) : M (DType ⊕ DType) := do
  match (← tokenIf ["const", "volatile"]) with
  | none => pure (.inr pt)
  | some t =>
    match (if t.type = "const" then setConst pt else setVolatile pt) with
    | some d => pure (.inl d)
    | none => pure (.inr pt)

/-- `_finish_class_or_enum(name, is_typedef, mods, classkey)` -/
def finishClassOrEnum (F : Nat) (c : Core) (name : PQName) (isTypedef : Bool) (mods : Mods)
    (classkey : Option String) : M Unit := do
  let parsedType := DType.type name false false
  match (← tokenIf ["__attribute__"]) with
  | some _ => consumeGccAttribute F
  | none => pure ()
  let semi ← (if !isTypedef then do
      let t ← tokenIf [";"]
      pure t.isSome
    else pure false)
  if semi then do
    let state ← getTop
    if state.kind = .cls then
      match state.access with
      | none => pyRaise "AssertionError" ""
      | some access =>
        let isAnon := match name.segments.getLast? with
          | some (.anon _) => true
          | _ => false
        if (classkey = some "union" || classkey = some "struct") && isAnon then
          emit (.classField { type := .type name false false, access := access })
        else pure ()
    else pure ()
  else
    -- every declarator is parsed from THE SAME `Type` object, and `_parse_cv_ptr_or_fn` sets `const` / `volatile` on it in
    -- place when they come first in a declarator (`struct S {…} const a, *b;`): the qualifiers written after the closing
    -- brace stay on the object for all later declarators.  The model threads the object through the loop and reads those
    -- leading qualifiers here (the same tokens, in the same order, with the same effect on the object).
    loopN F parsedType (fun pt => do
      let location ← currentLocation
      let pt ← loopN F pt leadCvBody
      if (← parseDecl F c pt mods location none .none isTypedef false) then pure (.inr ())
      else do
        let tok ← nextTokenMustBe [",", ";"]
        if tok.type = ";" then pure (.inr ()) else pure (.inl pt))

/-- `_parse_enumerator_list`, one iteration, first part: the doc block above and the name -/
def enumHead : M (Option String × CTok) := do
  let doxygen ← getDoxygen
  let nameTok ← nextTokenMustBe ["}", "NAME"]
  pure (doxygen, nameTok)

/-- … the trailing doc comment, looked for only when there was no block above -/
def enumDox (doxygen : Option String) : M (Option String) :=
  match doxygen with
  | none => getDoxygenAfter
  | some d => pure (some d)

/-- … attributes, `= value`, and the `,` or `}` that follows -/
def enumTail (F : Nat) (values : List Enumerator) (name : String) (doxygen : Option String) :
    M (List Enumerator ⊕ List Enumerator) := do
  let mut tok ← nextTokenMustBe ["}", ",", "=", "DBL_LBRACKET"]
  if tok.type = "DBL_LBRACKET" then
    consumeAttributeSpecifierSeq F tok
    tok ← nextTokenMustBe ["}", ",", "="]
  let mut value : Option Value := none
  if tok.type = "=" then
    let toks ← consumeValueUntil F [] [",", "}"]
    value := some (createValue toks)
    tok ← nextTokenMustBe ["}", ","]
  let values := values ++ [{ name := name, value := value, doxygen := doxygen }]
  if tok.type = "}" then pure (.inr values) else pure (.inl values)

/-- one iteration of the `while True:` of `_parse_enumerator_list` -/
def enumBody (F : Nat) (values : List Enumerator) : M (List Enumerator ⊕ List Enumerator) := do
  let (doxygen, nameTok) ← enumHead
  if nameTok.value = "}" then pure (.inr values)
  else do
    let doxygen ← enumDox doxygen
    enumTail F values nameTok.value doxygen

/-- `_parse_enumerator_list` -/
def parseEnumeratorList (F : Nat) : M (List Enumerator) :=
  loopN F ([] : List Enumerator) (enumBody F)

/-- `_parse_enum_decl(typename, tok, doxygen, is_typedef, location, mods)` -/
def parseEnumDecl (F : Nat) (c : Core) (typename : PQName) (tok : CTok) (doxygen : Option String)
    (isTypedef : Bool) (location : LocRef) (mods : Mods) : M Unit := do
  setLoc location
  if tok.type != ":" && tok.type != "{" then raiseParseError (some tok)
  else do
    -- `some base` / early return for a forward declaration
    let r : Option (Option PQName) ← (
      if tok.type = ":" then do
        let (base, _) ← c.parsePqname none false false true
        let t ← nextTokenMustBe ["{", ";"]
        if t.type = ";" then
          if isTypedef then raiseParseError (some t)
          else do
            let access ← currentAccess
            emit (.forwardDecl { typename := typename, template := .none, doxygen := doxygen, enumBase := some base, access := access })
            pure none
        else pure (some (some base))
      else pure (some none))
    match r with
    | none => pure ()
    | some base => do
      let values ← parseEnumeratorList F
      let access ← currentAccess
      emit (.enum { typename := typename, values := values, base := base, doxygen := doxygen, access := access })
      finishClassOrEnum F c typename isTypedef mods (some "enum")

/-- one iteration of the `virtual` / access-specifier loop in front of a base class name -/
def baseSpecBody (st : CTok × String × Bool) : M ((CTok × String × Bool) ⊕ (CTok × String × Bool)) := do
  let tok := st.1
  let access := st.2.1
  let virtual := st.2.2
  if Gen.baseAccessVirtual.contains tok.type then do
    let t ← token
    if tok.type = "virtual" then pure (.inl (t, access, true)) else pure (.inl (t, tok.type, virtual))
  else pure (.inr (tok, access, virtual))

/-- one base class: optional attributes, specifiers, the name, an optional `...`, and whether a `,` follows -/
def baseBody (F : Nat) (c : Core) (defaultAccess : String) (bases : List BaseClass) : M (List BaseClass ⊕ List BaseClass) := do
  let mut tok0 ← token
  -- might start with attributes
  if Gen.attributeSpecifierSeqStartTypes.contains tok0.type then
    consumeAttributeSpecifierSeq F tok0
    tok0 ← token
  -- virtual/access specifier comes next
  let (tok, access, virtual) ← loopN F (tok0, defaultAccess, false) baseSpecBody
  let (typename, _) ← c.parsePqname (some tok) false false false
  let parameterPack := (← tokenIf ["ELLIPSIS"]).isSome
  let bases := bases ++ [{ access := access, typename := typename, virtual := virtual, paramPack := parameterPack }]
  if (← tokenIf [","]).isNone then pure (.inr bases) else pure (.inl bases)

/-- `_parse_class_decl_base_clause(default_access)` -/
def parseClassDeclBaseClause (F : Nat) (c : Core) (defaultAccess : String) : M (List BaseClass) :=
  loopN F ([] : List BaseClass) (baseBody F c defaultAccess)

/-- one iteration of the `final` / `explicit` loop of `_parse_class_decl`: (token, explicit, final) -/
def classSpecBody (st : CTok × Bool × Bool) : M ((CTok × Bool × Bool) ⊕ (CTok × Bool × Bool)) := do
  let (tok, explicit, final) := st
  if tok.type = "final" then do
    let t ← token
    pure (.inl (t, explicit, true))
  else if tok.type = "explicit" then do
    let t ← token
    pure (.inl (t, true, final))
  else pure (.inr (tok, explicit, final))

/-- `_parse_class_decl(typename, tok, doxygen, template, typedef, location, mods)` -/
def parseClassDecl (F : Nat) (c : Core) (typename : PQName) (tok : CTok) (doxygen : Option String)
    (template : TemplateVar) (typedef : Bool) (location : LocRef) (mods : Mods) : M Unit := do
  let defaultAccess := if typename.classkey = some "class" then "private" else "public"
  let (tok, explicit, final) ← loopN F (tok, false, false) classSpecBody
  let (tok, bases) ← (
    if tok.type = ":" then do
      let bases ← parseClassDeclBaseClause F c defaultAccess
      let t ← token
      pure (t, bases)
    else pure (tok, []))
  if tok.type != "{" then raiseParseError (some tok) "{"
  else do
    let access ← currentAccess
    let clsdecl : ClassDecl :=
      { typename := typename, bases := bases, template := template, explicit := explicit,
        final := final, doxygen := doxygen, access := access }
    Prog.push { kind := .cls, loc := location, cls := clsdecl, access := some defaultAccess,
                typedef := typedef, mods := mods } (Prog.pure ())

/-- `_maybe_parse_class_enum_decl(...)` -/
def maybeParseClassEnumDecl (F : Nat) (c : Core) (typename : PQName) (mods : Mods)
    (doxygen : Option String) (template : TemplateVar) (isTypedef isFriend : Bool)
    (location : LocRef) : M Bool := do
  -- check for forward declaration or friend declaration
  if (← tokenIf [";"]).isSome then
    if isTypedef then raiseParseError none
    else do
      let classkey := typename.classkey.getD ""
      Mods.validate mods false false ("parsing " ++ classkey ++ " forward declaration")
      -- enum cannot be forward declared, but "enum class" can
      if classkey.isEmpty then raiseParseError none
      else if classkey = "enum" && !isFriend then raiseParseError none
      else if template.isSome && classkey.startsWith "enum" then raiseParseError none
      else do
        let access ← currentAccess
        let fdecl : ForwardDecl := { typename := typename, template := template, doxygen := doxygen, access := access }
        setLoc location
        if isFriend then emit (.classFriend { cls := some fdecl })
        else emit (.forwardDecl fdecl)
        pure true
  else
    match (← tokenIfInSet Gen.classEnumStage2) with
    | some tok => do
      let classkey := typename.classkey.getD ""
      -- var is ok because it could be carried on to any variables
      Mods.validate mods (!isTypedef) false ("parsing " ++ classkey ++ " declaration")
      if isFriend then raiseParseError (some tok)
      else if classkey = "class" || classkey = "struct" || classkey = "union" then do
        parseClassDecl F c typename tok doxygen template isTypedef location mods
        pure true
      else if template.isSome then raiseParseError (some tok)
      else do
        parseEnumDecl F c typename tok doxygen isTypedef location mods
        pure true
    | none => pure false

/-- one declarator of a declaration statement and the `,` or `;` after it; the state is the
    location and the doc text for the declarator (the first declarator's are the statement's) -/
def declaratorBody (F : Nat) (c : Core) (pt : DType) (mods : Mods) (template : TemplateVar) (isTypedef isFriend : Bool)
    (st : LocRef × Option String) : M ((LocRef × Option String) ⊕ Unit) := do
  if (← parseDecl F c pt mods st.1 st.2 template isTypedef isFriend) then pure (.inr ())
  else do
    let tok ← nextTokenMustBe [",", ";"]
    if tok.type = ";" then pure (.inr ()) else pure (.inl (LocRef.tok tok.sidx, none))

/-- `_parse_declarations(tok, doxygen, template, is_typedef, is_friend)` -/
def parseDeclarations (F : Nat) (c : Core) (tok : CTok) (doxygen : Option String)
    (template : TemplateVar := .none) (isTypedef : Bool := false) (isFriend : Bool := false) : M Unit := do
  let location := LocRef.tok tok.sidx
  let (parsedType, mods) ← c.parseType (some tok) true
  let handled ← (
    match parsedType.bind typenameOf with
    | some tn =>
      if strTruthy tn.classkey then
        maybeParseClassEnumDecl F c tn mods doxygen template isTypedef isFriend location
      else pure false
    | none => pure false)
  if handled then pure ()
  else do
    -- Check for an abbreviated template return type, promote it
    let template ← (
      match parsedType with
      | some pt =>
        if !isTypedef then do
          match (← tokenIfVal ["auto"]) with
          | some _ => pure (extendTemplate template [.nonType pt none none (some (-1)) false])
          | none => pure template
        else pure template
      | none => pure template)
    let state ← getTop
    let (varOk, methOk, msg) :=
      if isTypedef then (false, false, "parsing typedef")
      else if state.kind = .cls then (true, true, "parsing declaration in class")
      else (true, false, "parsing declaration")
    Mods.validate mods varOk methOk msg
    match parsedType with
    | none => parseOperatorConversion F c mods location doxygen template isTypedef isFriend
    | some pt => loopN F (location, doxygen) (declaratorBody F c pt mods template isTypedef isFriend)

/-! ### namespace, extern, friend, inline, typedef, block end -/

/-- one iteration of the name loop of `_parse_namespace` (`endtok` is `{` or, for an alias, `;`) -/
def nsNameBody (endtok : String) (st : List String × CTok) : M ((List String × CTok) ⊕ List String) := do
  let names := st.1 ++ [st.2.value]
  let t ← nextTokenMustBe ["DBL_COLON", endtok]
  if t.type = endtok then pure (.inr names)
  else do
    let t2 ← nextTokenMustBe ["NAME"]
    pure (.inl (names, t2))

/-- after `namespace A =`: the optional leading `::` and the first name of the aliased namespace -/
def nsAliasHead (tok : CTok) : M (List String × CTok × String × Option CTok) := do
  let names0 ← (do
    match (← tokenIf ["DBL_COLON"]) with
    | some mt => pure [mt.value]
    | none => pure [])
  let t ← nextTokenMustBe ["NAME"]
  pure (names0, t, ";", some tok)

/-- the end of `_parse_namespace`: the checks, then the alias callback or the new block -/
def nsFinish (location : LocRef) (doxygen : Option String) (inline : Bool) (names : List String) (nsAlias : Option CTok) : M Unit :=
  if inline && names.length > 1 then cxxError "a nested namespace definition cannot be inline"
  else do
    let state ← getTop
    if state.kind = .cls then cxxError "namespace cannot be defined in a class"
    else
      match nsAlias with
      | some a => do
        setLoc location
        emit (.namespaceAlias { alias := a.value, names := names })
      | none =>
        Prog.push { kind := .ns, loc := location, ns := { names := names, inline := inline, doxygen := doxygen } }
          (Prog.pure ())

/-- `_parse_namespace(tok, doxygen, inline)` -/
def parseNamespace (F : Nat) (tok : CTok) (doxygen : Option String) (inline : Bool) : M Unit := do
  let location := LocRef.tok tok.sidx
  let tok ← nextTokenMustBe ["NAME", "{"]
  let (names, nsAlias) ← (
    if tok.type != "{" then do
      -- Check for namespace alias here
      let (names0, tok, endtok, nsAlias) ← (do
        match (← tokenIf ["="]) with
        | some _ => nsAliasHead tok
        | none => pure ([], tok, "{", (none : Option CTok)))
      let names ← loopN F (names0, tok) (nsNameBody endtok)
      pure (names, nsAlias)
    else pure ([], none))
  nsFinish location doxygen inline names nsAlias

/-- `_parse_template_instantiation(doxygen, extern)` -/
def parseTemplateInstantiation (F : Nat) (c : Core) (doxygen : Option String) (extern : Bool) : M Unit := do
  match (← tokenIf ["class", "struct"]) with
  | none => raiseParseError none
  | some _ => do
    match (← tokenIfInSet Gen.attributeStartTokens) with
    | some atok => consumeAttribute F atok
    | none => pure ()
    let (typename, _) ← c.parsePqname none false false false
    -- the last segment must have a specialization
    let ok := match typename.segments.getLast? with
      | some (.name _ (some _)) => true
      | _ => false
    if !ok then raiseParseError none "expected extern template to have specialization"
    else do
      let _ ← nextTokenMustBe [";"]
      emit (.templateInst { typename := typename, extern := extern, doxygen := doxygen })

/-- `_parse_extern(tok, doxygen)` -/
def parseExtern (F : Nat) (c : Core) (tok : CTok) (doxygen : Option String) : M Unit := do
  match (← tokenIf ["STRING_LITERAL", "template"]) with
  | some etok => do
    -- classes cannot contain extern blocks/templates
    let state ← getTop
    if state.kind = .cls then raiseParseError (some tok)
    else if etok.type = "STRING_LITERAL" then
      if (← tokenIf ["{"]).isSome then
        Prog.push { kind := .ext, loc := .tok tok.sidx, linkage := etok.value } (Prog.pure ())
      else do
        -- an extern variable/function with specific linkage
        returnToken etok
        parseDeclarations F c tok doxygen
    else do
      setLoc (.tok tok.sidx)
      parseTemplateInstantiation F c doxygen true
  | none => parseDeclarations F c tok doxygen

/-- `_parse_friend_decl(tok, doxygen, template)` -/
def parseFriendDecl (F : Nat) (c : Core) (tok : CTok) (doxygen : Option String) (template : TemplateVar) : M Unit := do
  let state ← getTop
  if state.kind != .cls then raiseParseError (some tok)
  else do
    let t ← token
    parseDeclarations F c t doxygen template false true

/-- `_parse_inline(tok, doxygen)` -/
def parseInline (F : Nat) (c : Core) (tok : CTok) (doxygen : Option String) : M Unit := do
  match (← tokenIf ["namespace"]) with
  | some itok => parseNamespace F itok doxygen true
  | none => parseDeclarations F c tok doxygen

/-- `_parse_typedef(tok, doxygen)` -/
def parseTypedef (F : Nat) (c : Core) (doxygen : Option String) : M Unit := do
  let t ← token
  parseDeclarations F c t doxygen .none true false

/-- `_on_block_end(tok, doxygen)` -/
def onBlockEnd (F : Nat) (c : Core) : M Unit := do
  let old ← (Prog.pop Prog.pure : M BlockView)
  if old.kind = .cls then
    finishClassOrEnum F c old.hdr.cls.typename old.hdr.typedef old.hdr.mods old.hdr.cls.typename.classkey
  else pure ()

/-- `_process_access_specifier(tok, doxygen)` -/
def processAccessSpecifier (tok : CTok) : M Unit := do
  let state ← getTop
  if state.kind != .cls then raiseParseError (some tok)
  else do
    Prog.setAccess tok.value (Prog.pure ())
    let _ ← nextTokenMustBe [":"]
    pure ()

/-! ### using -/

/-- one iteration of the name loop of `_parse_using_directive` -/
def usingDirBody (names : List String) : M (List String ⊕ List String) := do
  let tok ← nextTokenMustBe ["NAME"]
  let names := names ++ [tok.value]
  if (← tokenIf ["DBL_COLON"]).isNone then pure (.inr names) else pure (.inl names)

/-- `_parse_using_directive(state)` -/
def parseUsingDirective (F : Nat) : M Unit := do
  let names0 : List String := if (← tokenIf ["DBL_COLON"]).isSome then [""] else []
  let names ← loopN F names0 usingDirBody
  if names.isEmpty then raiseParseError none "NAME"
  else emit (.usingNamespace names)

/-- `_parse_using_declaration(tok, doxygen)` -/
def parseUsingDeclaration (c : Core) (tok : CTok) (doxygen : Option String) : M Unit := do
  let tok ← (if tok.type = "typename" then token else pure tok)
  let (typename, _) ← c.parsePqname (some tok) true true true
  let access ← currentAccess
  emit (.usingDeclaration { typename := typename, access := access, doxygen := doxygen })

/-- `_parse_using_typealias(id_tok, template, doxygen)` -/
def parseUsingTypealias (c : Core) (idTok : CTok) (template : Option TemplateDecl) (doxygen : Option String) : M Unit := do
  let (parsedType, mods) ← c.parseType none false
  match parsedType with
  | none => raiseParseError none
  | some pt => do
    Mods.validate mods false false "parsing typealias"
    let dtype ← parseCvPtr c pt
    let access ← currentAccess
    emit (.usingAlias { alias := idTok.value, type := dtype, template := template, access := access, doxygen := doxygen })

/-- `_parse_using(tok, doxygen, template)` -/
def parseUsing (F : Nat) (c : Core) (tok : CTok) (doxygen : Option String) (template : Option TemplateDecl) : M Unit := do
  setLoc (.tok tok.sidx)
  let tok ← nextTokenMustBe ["NAME", "DBL_COLON", "namespace", "typename", "enum"]
  if tok.type = "namespace" then
    if template.isSome then cxxError "unexpected using-directive when parsing alias-declaration" (some tok)
    else do
      let state ← getTop
      if state.kind = .cls then raiseParseError (some tok)
      else parseUsingDirective F
  else do
    let isDecl ← (
      if tok.type = "DBL_COLON" || tok.type = "typename" then pure true
      else do
        let e ← tokenIf ["="]
        pure e.isNone)
    if isDecl then
      if template.isSome then cxxError "unexpected using-declaration when parsing alias-declaration" (some tok)
      else parseUsingDeclaration c tok doxygen
    else parseUsingTypealias c tok template doxygen
  -- All using things end with a semicolon
  let _ ← nextTokenMustBe [";"]
  pure ()

/-! ### templates and concepts -/

/-- `_parse_concept(tok, doxygen, template)` -/
def parseConcept (F : Nat) (tok : CTok) (doxygen : Option String) (template : TemplateDecl) : M Unit := do
  let name ← nextTokenMustBe ["NAME"]
  let _ ← nextTokenMustBe ["="]
  let toks ← consumeValueUntil F [] [",", ";"]
  let state ← getTop
  if state.kind = .cls then cxxError "concept cannot be defined in a class"
  else do
    setLoc (.tok tok.sidx)
    emit (.concept { template := template, name := name.value, rawConstraint := createValue toks, doxygen := doxygen })

/-- `_parse_template(tok, doxygen)` -/
def parseTemplate (F : Nat) (c : Core) (ttok : CTok) (doxygen : Option String) : M Unit := do
  if !(← tokenPeekIf ["<"]) then do
    setLoc (.tok ttok.sidx)
    parseTemplateInstantiation F c doxygen false
  else do
    let template ← c.parseTemplateDecl
    let tok ← token
    if tok.type = "template" then do
      -- multiple specializations
      let (templates, tok) ← loopN F ([template], tok) (fun (templates, tok) => do
        if tok.type = "template" then do
          let t ← c.parseTemplateDecl
          let nt ← token
          pure (.inl (templates ++ [t], nt))
        else pure (.inr (templates, tok)))
      parseDeclarations F c tok doxygen (.many templates)
    else if tok.type = "using" then parseUsing F c tok doxygen (some template)
    else if tok.type = "friend" then parseFriendDecl F c tok doxygen (.one template)
    else if tok.type = "concept" then parseConcept F tok doxygen template
    else if tok.type = "requires" then do
      let r ← parseRequires F
      let template := TemplateDecl.mk template.params (some r)
      let t ← token
      parseDeclarations F c t doxygen (.one template)
    else parseDeclarations F c tok doxygen (.one template)

/-! ### preprocessor directives -/

def isBlankTabCh (ch : Char) : Bool := ch = ' ' || ch = '\t'

/-- `_preprocessor_compress_re.sub("#", value)` with `^#[\t ]+` -/
def compressHash (v : List Char) : List Char :=
  match v with
  | '#' :: rest =>
    match rest with
    | ch :: _ => if isBlankTabCh ch then '#' :: rest.dropWhile isBlankTabCh else v
    | [] => v
  | _ => v

/-- `_preprocessor_split_re.split(value, 1)` with `[\t ]+`: `none` when there is no blank -/
def splitFirstBlank (v : List Char) : Option (List Char × List Char) :=
  let pre := v.takeWhile (fun ch => !isBlankTabCh ch)
  let rest := v.dropWhile (fun ch => !isBlankTabCh ch)
  if rest.isEmpty then none else some (pre, rest.dropWhile isBlankTabCh)

/-- `_process_include_directive(tok, doxygen)` -/
def processIncludeDirective (tok : CTok) : M Unit := do
  let value := compressHash tok.value.toList
  match splitFirstBlank value with
  | some (_, fname) => do
    setLoc (.tok tok.sidx)
    emit (.include (String.ofList fname))
  | none => cxxError "incomplete #include directive" (some tok)

/-- `_process_pragma_directive(_, doxygen)` -/
def processPragmaDirective (F : Nat) (ptok : CTok) : M Unit := do
  let tokens ← loopN F ([] : List CTok) (fun tokens => do
    match (← tokenNewlineEofOk) with
    | none => pure (.inr tokens)
    | some tok =>
      if tok.type = "NEWLINE" then pure (.inr tokens)
      else if isBalancedStart tok.type then do
        let g ← consumeBalancedTokens F [tok]
        pure (.inl (tokens ++ g))
      else pure (.inl (tokens ++ [tok])))
  setLoc (.tok ptok.sidx)
  emit (.pragma (createValue tokens))

/-! ### `parse()` -/

/-- the handlers of `_translation_unit_tokens`, by handler name -/
def dispatch (F : Nat) (c : Core) (handler : String) (tok : CTok) (doxygen : Option String) : M Unit :=
  match handler with
  | "_consume_gcc_attribute" => consumeGccAttribute F
  | "_consume_declspec" => consumeDeclspec F
  | "_consume_attribute_specifier_seq" => consumeAttributeSpecifierSeq F tok
  | "_parse_extern" => parseExtern F c tok doxygen
  | "_parse_friend_decl" => parseFriendDecl F c tok doxygen .none
  | "_parse_inline" => parseInline F c tok doxygen
  | "_parse_namespace" => parseNamespace F tok doxygen false
  | "_process_access_specifier" => processAccessSpecifier tok
  | "_consume_static_assert" => consumeStaticAssert F
  | "_parse_template" => parseTemplate F c tok doxygen
  | "_parse_typedef" => parseTypedef F c doxygen
  | "_parse_using" => parseUsing F c tok doxygen none
  | "_on_empty_block_start" => raiseParseError (some tok)
  | "_on_block_end" => onBlockEnd F c
  | "_process_include_directive" => processIncludeDirective tok
  | "_process_pragma_directive" => processPragmaDirective F tok
  | "<lambda:Constant(None)>" => pure ()
  | other => unsupported ("dispatch handler " ++ other)

/-- what the top-level loop hands to its next iteration: the pending doc text, and only when
    the item just handled was attribute-like (`_keep_doxygen`) -/
def carry (tok : CTok) (doxygen : Option String) : Option String :=
  if Gen.keepDoxygen.contains tok.type then doxygen else none

/-- one top-level item, starting at `tok` -/
def topItem (F : Nat) (c : Core) (tok : CTok) (doxygen : Option String) : M Unit :=
  match Gen.dispatchTable.lookup tok.type with
  | some handler => dispatch F c handler tok doxygen
  | none => parseDeclarations F c tok doxygen

/-- one iteration of the `while True:` of `parse()` -/
def mainBody (F : Nat) (c : Core) (doxygen : Option String) : M (Option String ⊕ Unit) := do
  let doxygen ← (match doxygen with
    | none => getDoxygen
    | some d => pure (some d))
  match (← tokenEofOk) with
  | none => do
    Prog.note none (Prog.pure ())
    pure (.inr ())
  | some tok => do
    Prog.note (some tok) (Prog.pure ())
    topItem F c tok doxygen
    pure (.inl (carry tok doxygen))

/-- the `while True:` of `parse()` -/
def mainLoop (F : Nat) (c : Core) : M Unit := loopN F (none : Option String) (mainBody F c)

/-- the parser model: loop bound `F`, recursion depth `D` -/
def parserProg (F D : Nat) : Prog Unit := mainLoop F (core F D)

end Cxx.P
