/-
  Parser/Basic.lean — the utility layer of `parser.py` as `Prog` programs: derived token
  operations (`token_if*`, `token_peek_if` are built from `token_eof_ok` + push-back exactly
  as in `lexer.py`), `_parse_error`, `_next_token_must_be`, and the token collectors
  `_consume_until`, `_consume_value_until`, `_consume_balanced_tokens`, `_discard_contents`.

  Same names, same branch order, same error sites as the Python source.
-/
import CxxModel.Prog
import CxxModel.Gen.ParserTables
import CxxModel.Gen.Uses
namespace Cxx.P

abbrev M := Prog

def failWith {α : Type} (e : Err) : M α := Prog.fail e
def unsupported {α : Type} (what : String) : M α := Prog.fail (.unsupported what)
def pyRaise {α : Type} (cls msg : String) : M α := Prog.fail (.py cls msg)
def cxxError {α : Type} (msg : String) (tok : Option CTok := none) : M α := Prog.fail (.parse msg tok)

/-- `while True:` with a bound on the number of iterations -/
def loopN {σ α : Type} : Nat → σ → (σ → M (σ ⊕ α)) → M α
  | 0, _, _ => Prog.fail .fuel
  | n + 1, s, body => Prog.bind (body s) (fun r =>
      match r with
      | .inl s' => loopN n s' body
      | .inr a => Prog.pure a)

/-! ### token stream operations (lexer.py: TokenStream) -/

def tokenEofOk : M (Option CTok) := Prog.next false Prog.pure
def tokenNewlineEofOk : M (Option CTok) := Prog.next true Prog.pure

def token : M CTok := do
  match (← tokenEofOk) with
  | some t => pure t
  | none => failWith .eof

def returnToken (t : CTok) : M Unit := Prog.unread [t] (Prog.pure ())
def returnTokens (ts : List CTok) : M Unit := Prog.unread ts (Prog.pure ())

def tokenIfP (p : CTok → Bool) : M (Option CTok) := do
  match (← tokenEofOk) with
  | none => pure none
  | some t =>
    if p t then pure (some t)
    else do
      returnToken t
      pure none

def tokenIf (types : List String) : M (Option CTok) := tokenIfP (fun t => types.contains t.type)
def tokenIfInSet (types : List String) : M (Option CTok) := tokenIfP (fun t => types.contains t.type)
def tokenIfVal (vals : List String) : M (Option CTok) := tokenIfP (fun t => vals.contains t.value)
def tokenIfNot (types : List String) : M (Option CTok) := tokenIfP (fun t => !types.contains t.type)

def tokenPeekIf (types : List String) : M Bool := do
  match (← tokenEofOk) with
  | none => pure false
  | some t => do
    returnToken t
    pure (types.contains t.type)

def getDoxygen : M (Option String) := Prog.dox false Prog.pure
def getDoxygenAfter : M (Option String) := Prog.dox true Prog.pure
def currentLocation : M LocRef := Prog.curLoc Prog.pure
def getTop : M BlockView := Prog.top Prog.pure
def emit (p : Payload) : M Unit := Prog.emit p (Prog.pure ())
def setLoc (l : LocRef) : M Unit := Prog.setLoc l (Prog.pure ())
def getConvertVoid : M Bool := Prog.opt Prog.pure
def debugPrint (msg : String) : M Unit := Prog.debug msg (Prog.pure ())

/-- `self._current_access`: `getattr(self.state, "access", None)` -/
def currentAccess : M (Option String) := do
  let st ← getTop
  pure (if st.kind = .cls then st.access else none)

/-! ### errors -/

/-- `raise self._parse_error(tok, expected)` -/
def raiseParseError {α : Type} (tok : Option CTok) (expected : String := "") : M α := do
  let tok ← (match tok with
    | some t => pure t
    | none => token)
  let exp := if expected.isEmpty then "" else ", expected '" ++ expected ++ "'"
  cxxError ("unexpected '" ++ tok.value ++ "'" ++ exp) (some tok)

def joinWith (sep : String) : List String → String
  | [] => ""
  | [a] => a
  | a :: rest => a ++ sep ++ joinWith sep rest

/-- `_next_token_must_be(*tokenTypes)` -/
def nextTokenMustBe (types : List String) : M CTok := do
  let tok ← token
  if types.contains tok.type then pure tok
  else raiseParseError (some tok) (joinWith "' or '" types)

/-! ### collectors -/

def isBalancedStart (ty : String) : Bool := (Gen.balancedTokenMap.lookup ty).isSome
def isBalancedEnd (ty : String) : Bool := Gen.endBalancedTokens.contains ty

/-- `_consume_until(rtoks, *token_types)`: does not include the found token -/
def consumeUntil (fuel : Nat) (rtoks : List CTok) (types : List String) : M (List CTok) :=
  loopN fuel rtoks (fun rtoks => do
    match (← tokenIfNot types) with
    | none => pure (.inr rtoks)
    | some tok => pure (.inl (rtoks ++ [tok])))

/-- index of the first element equal to `x` -/
def findIdx (x : String) : List String → Option Nat
  | [] => none
  | y :: ys => if x = y then some 0 else (findIdx x ys).map (· + 1)

/-- the error of `raise self._parse_error(tok, expected)` -/
def unexpectedErr (tok : CTok) (expected : String) : Err :=
  .parse ("unexpected '" ++ tok.value ++ "'" ++ (if expected.isEmpty then "" else ", expected '" ++ expected ++ "'")) (some tok)

def liftE {α : Type} : Except Err α → M α
  | .ok a => Prog.pure a
  | .error e => Prog.fail e

/-- `a[b[0]]`: the lexer fuses the two closers into one `]]` token; the matcher takes them apart
    again when it expects a single `]` and the bracket around it is a `[` as well (expectations `>` between the two — `<` that
    were less-than, `a[i < b[0]]` — are dropped with it) -/
def fusedClosers (ty expected : String) (stack : List String) : Bool :=
  ty == "DBL_RBRACKET" && expected == "]" && (stack.dropWhile (· == ">")).head? == some "]"

/-- one of the two `]` a fused `]]` stands for -/
def unfused (tok : CTok) : CTok := { tok with type := "]", value := "]" }

/-- a `<` still open when a `]]` arrives inside a subscript was a less-than: the expectations `>` on top of the stack are
    dropped (`while expected == ">" and match_stack: expected = match_stack.pop()`) -/
def skipGt : String → List String → String × List String
  | expected, [] => (expected, [])
  | expected, e :: stack => if expected = ">" then skipGt e stack else (expected, e :: stack)

/-- one iteration of `_consume_balanced_tokens` after `tok` was read; `stack` has its top first -/
def balStep (st : List CTok × List String) (tok : CTok) : Except Err ((List CTok × List String) ⊕ List CTok) :=
  let consumed := st.1 ++ [tok]
  if isBalancedEnd tok.type then
    match st.2 with
    | [] => .error (.py "IndexError" "pop from an empty deque")
    | expected0 :: stack0 =>
      let expected := if tok.type = "DBL_RBRACKET" then (skipGt expected0 stack0).1 else expected0
      let stack := if tok.type = "DBL_RBRACKET" then (skipGt expected0 stack0).2 else stack0
      if fusedClosers tok.type expected stack then
        let consumed := st.1 ++ [unfused tok, unfused tok]
        let stack := (stack.dropWhile (· == ">")).tail
        if stack.isEmpty then .ok (.inr consumed) else .ok (.inl (consumed, stack))
      else if tok.type != expected then
        -- hack: assume `<`/`>` are doing math
        if tok.type != ">" && expected != ">" then .error (unexpectedErr tok expected)
        else if tok.type = ">" then .ok (.inl (consumed, expected :: stack))
        else
          match findIdx tok.type stack with
          | some i =>
            let stack := stack.drop (i + 1)
            if stack.isEmpty then .ok (.inr consumed) else .ok (.inl (consumed, stack))
          | none => .ok (.inl (consumed, expected :: stack))
      else
        if stack.isEmpty then .ok (.inr consumed) else .ok (.inl (consumed, stack))
  else
    match Gen.balancedTokenMap.lookup tok.type with
    | some nextEnd => .ok (.inl (consumed, nextEnd :: st.2))
    | none => .ok (.inl (consumed, st.2))

/-- `_consume_balanced_tokens(*init_tokens)` -/
def consumeBalancedTokens (fuel : Nat) (init : List CTok) : M (List CTok) :=
  let stack0 : List String := (init.map (fun t => (Gen.balancedTokenMap.lookup t.type).getD "?")).reverse
  loopN fuel (init, stack0) (fun st => do
    let tok ← token
    liftE (balStep st tok))

/-- `_discard_contents(start_type, end_type)` -/
def discardContents (fuel : Nat) (startType endType : String) : M Unit :=
  loopN fuel (1 : Nat) (fun level => do
    let tok ← token
    if tok.type = startType then pure (.inl (level + 1))
    else if tok.type = endType then
      if level - 1 = 0 then pure (.inr ()) else pure (.inl (level - 1))
    else pure (.inl level))

/-- `_create_value(toks)` -/
def createValue (toks : List CTok) : Value :=
  { tokens := toks.map (fun t => { value := t.value, type := t.type }) }

def toTokens (toks : List CTok) : List Token := toks.map (fun t => { value := t.value, type := t.type })

/-- `_consume_value_until(rtoks, *token_types)` -/
def consumeValueUntil (fuel : Nat) (rtoks : List CTok) (types : List String) : M (List CTok) :=
  loopN fuel rtoks (fun rtoks => do
    match (← tokenIfNot types) with
    | none => pure (.inr rtoks)
    | some tok =>
      if isBalancedStart tok.type then do
        let more ← consumeBalancedTokens fuel [tok]
        pure (.inl (rtoks ++ more))
      else pure (.inl (rtoks ++ [tok])))

/-- `toks[1:-1]` -/
def inner (toks : List CTok) : List CTok := (toks.drop 1).dropLast

/-- `toks[1:-1]` where the call site says so (`Gen.Uses`), else `toks` -/
def sliceIf (b : Bool) (toks : List CTok) : List CTok := if b then inner toks else toks

/-! ### attributes -/

/-- `_consume_gcc_attribute` -/
def consumeGccAttribute (fuel : Nat) : M Unit := do
  let tok1 ← nextTokenMustBe ["("]
  let tok2 ← nextTokenMustBe ["("]
  let _ ← consumeBalancedTokens fuel [tok1, tok2]
  pure ()

/-- `_consume_declspec` -/
def consumeDeclspec (fuel : Nat) : M Unit := do
  let tok ← nextTokenMustBe ["("]
  let _ ← consumeBalancedTokens fuel [tok]
  pure ()

/-- one iteration of `_consume_attribute_specifier_seq` -/
def attrSeqBody (fuel : Nat) (tok : CTok) : M (CTok ⊕ Unit) := do
  if tok.type = "DBL_LBRACKET" then do
    let _ ← consumeBalancedTokens fuel [tok]
    match (← tokenIf Gen.attributeSpecifierSeqStartTypes) with
    | none => pure (.inr ())
    | some t => pure (.inl t)
  else if tok.type = "alignas" then do
    let nextTok ← nextTokenMustBe ["("]
    let _ ← consumeBalancedTokens fuel [nextTok]
    match (← tokenIf Gen.attributeSpecifierSeqStartTypes) with
    | none => pure (.inr ())
    | some t => pure (.inl t)
  else do
    returnToken tok
    pure (.inr ())

/-- `_consume_attribute_specifier_seq(tok)` -/
def consumeAttributeSpecifierSeq (fuel : Nat) (tok : CTok) : M Unit :=
  loopN fuel tok (attrSeqBody fuel)

/-- `_consume_attribute(tok)` -/
def consumeAttribute (fuel : Nat) (tok : CTok) : M Unit :=
  if tok.type = "__attribute__" then consumeGccAttribute fuel
  else if tok.type = "__declspec" then consumeDeclspec fuel
  else if Gen.attributeSpecifierSeqStartTypes.contains tok.type then consumeAttributeSpecifierSeq fuel tok
  else cxxError "internal error"

/-- `_consume_static_assert` -/
def consumeStaticAssert (fuel : Nat) : M Unit := do
  let _ ← nextTokenMustBe ["("]
  discardContents fuel "(" ")"

end Cxx.P
