/-
  ToJ.lean — canonical JSON of the model's result types, shaped like the generic dataclass
  walker of the harness: `{"_": "<ClassName>", "<python field name>": …}`.
-/
import Lean.Data.Json
import CxxModel.Interp
import CxxModel.SimpleFold
open Lean
namespace Cxx.J

def opt {α : Type} (f : α → Json) : Option α → Json
  | none => Json.null
  | some a => f a

def strs (l : List String) : Json := Json.arr (l.map Json.str).toArray
def obj (cls : String) (fields : List (String × Json)) : Json := Json.mkObj (("_", Json.str cls) :: fields)

def token (t : Token) : Json := obj "Token" [("value", t.value), ("type", t.type)]
def tokens (l : List Token) : Json := Json.arr (l.map token).toArray
def value (v : Value) : Json := obj "Value" [("tokens", tokens v.tokens)]

mutual
  def seg : PQSeg → Json
    | .anon id => obj "AnonymousName" [("id", toJson id)]
    | .fund n => obj "FundamentalSpecifier" [("name", n)]
    | .name n s => obj "NameSpecifier" [("name", n), ("specialization", match s with | none => Json.null | some s => spec s)]
    | .decltype ts => obj "DecltypeSpecifier" [("tokens", tokens ts)]
    | .auto => obj "AutoSpecifier" [("name", "auto")]
  def segs : List PQSeg → List Json
    | [] => []
    | s :: r => seg s :: segs r
  def pqname : PQName → Json
    | .mk ss ck ht => obj "PQName" [("segments", Json.arr (segs ss).toArray), ("classkey", opt Json.str ck), ("has_typename", ht)]
  def spec : TemplateSpec → Json
    | .mk as => obj "TemplateSpecialization" [("args", Json.arr (targs as).toArray)]
  def targ : TemplateArg → Json
    | .ty d p => obj "TemplateArgument" [("arg", dtype d), ("param_pack", p)]
    | .val v p => obj "TemplateArgument" [("arg", value v), ("param_pack", p)]
  def targs : List TemplateArg → List Json
    | [] => []
    | a :: r => targ a :: targs r
  def dtype : DType → Json
    | .type n c v => obj "Type" [("typename", pqname n), ("const", c), ("volatile", v)]
    | .ptr t c v => obj "Pointer" [("ptr_to", dtype t), ("const", c), ("volatile", v)]
    | .ref t => obj "Reference" [("ref_to", dtype t)]
    | .mref t => obj "MoveReference" [("moveref_to", dtype t)]
    | .array t s => obj "Array" [("array_of", dtype t), ("size", opt value s)]
    | .fn r ps va tr ne ms =>
      obj "FunctionType" [("return_type", dtype r), ("parameters", Json.arr (params ps).toArray), ("vararg", va),
        ("has_trailing_return", tr), ("noexcept", opt value ne), ("msvc_convention", opt Json.str ms)]
  def param : Param → Json
    | .mk t n d p => obj "Parameter" [("type", dtype t), ("name", opt Json.str n), ("default", opt value d), ("param_pack", p)]
  def params : List Param → List Json
    | [] => []
    | p :: r => param p :: params r
end

mutual
  def tparam : TemplateParam → Json
    | .nonType t n d i p =>
      obj "TemplateNonTypeParam" [("type", dtype t), ("name", opt Json.str n), ("default", opt value d),
        ("param_idx", opt (fun (i : Int) => toJson i) i), ("param_pack", p)]
    | .typeParam k n p d t =>
      obj "TemplateTypeParam" [("typekey", k), ("name", opt Json.str n), ("param_pack", p), ("default", opt value d),
        ("template", match t with | none => Json.null | some t => tdecl t)]
  def tparams : List TemplateParam → List Json
    | [] => []
    | p :: r => tparam p :: tparams r
  def tdecl : TemplateDecl → Json
    | .mk ps r => obj "TemplateDecl" [("params", Json.arr (tparams ps).toArray), ("raw_requires_pre", opt value r)]
end

def tvar : TemplateVar → Json
  | .none => Json.null
  | .one t => tdecl t
  | .many ts => Json.arr (ts.map tdecl).toArray

def namespaceDecl (n : NamespaceDecl) : Json :=
  obj "NamespaceDecl" [("names", strs n.names), ("inline", n.inline), ("doxygen", opt Json.str n.doxygen)]

def enumerator (e : Enumerator) : Json :=
  obj "Enumerator" [("name", e.name), ("value", opt value e.value), ("doxygen", opt Json.str e.doxygen)]

def enumDecl (e : EnumDecl) : Json :=
  obj "EnumDecl" [("typename", pqname e.typename), ("values", Json.arr (e.values.map enumerator).toArray),
    ("base", opt pqname e.base), ("doxygen", opt Json.str e.doxygen), ("access", opt Json.str e.access)]

def forwardDecl (f : ForwardDecl) : Json :=
  obj "ForwardDecl" [("typename", pqname f.typename), ("template", tvar f.template), ("doxygen", opt Json.str f.doxygen),
    ("enum_base", opt pqname f.enumBase), ("access", opt Json.str f.access)]

def baseClass (b : BaseClass) : Json :=
  obj "BaseClass" [("access", b.access), ("typename", pqname b.typename), ("virtual", b.virtual), ("param_pack", b.paramPack)]

def classDecl (c : ClassDecl) : Json :=
  obj "ClassDecl" [("typename", pqname c.typename), ("bases", Json.arr (c.bases.map baseClass).toArray),
    ("template", tvar c.template), ("explicit", c.explicit), ("final", c.final),
    ("doxygen", opt Json.str c.doxygen), ("access", opt Json.str c.access)]

def function (f : Function) : Json :=
  let base : List (String × Json) :=
    [("return_type", opt dtype f.returnType), ("name", pqname f.name),
     ("parameters", Json.arr (f.parameters.map param).toArray), ("vararg", f.vararg),
     ("doxygen", opt Json.str f.doxygen), ("constexpr", f.constexpr), ("extern", f.extern),
     ("static", f.static), ("inline", f.inline), ("deleted", f.deleted), ("has_body", f.hasBody),
     ("has_trailing_return", f.hasTrailingReturn), ("template", tvar f.template),
     ("throw", opt value f.throw), ("noexcept", opt value f.noexcept),
     ("msvc_convention", opt Json.str f.msvcConvention), ("operator", opt Json.str f.operator),
     ("raw_requires", opt value f.rawRequires)]
  if f.isMethod then
    obj "Method" (base ++
      [("access", opt Json.str f.access), ("const", f.const), ("volatile", f.volatile),
       ("ref_qualifier", opt Json.str f.refQualifier), ("constructor", f.constructor),
       ("explicit", f.explicit), ("default", f.default), ("destructor", f.destructor),
       ("pure_virtual", f.pureVirtual), ("virtual", f.virtual), ("final", f.final), ("override", f.override)])
  else obj "Function" base

def payload : Payload → Json
  | .pragma v => value v
  | .include f => Json.str f
  | .concept c => obj "Concept" [("template", tdecl c.template), ("name", c.name), ("raw_constraint", value c.rawConstraint), ("doxygen", opt Json.str c.doxygen)]
  | .namespaceAlias a => obj "NamespaceAlias" [("alias", a.alias), ("names", strs a.names)]
  | .forwardDecl f => forwardDecl f
  | .templateInst t => obj "TemplateInst" [("typename", pqname t.typename), ("extern", t.extern), ("doxygen", opt Json.str t.doxygen)]
  | .variable v =>
    obj "Variable" [("name", pqname v.name), ("type", dtype v.type), ("value", opt value v.value),
      ("constexpr", v.constexpr), ("extern", v.extern), ("static", v.static), ("inline", v.inline),
      ("template", opt tdecl v.template), ("doxygen", opt Json.str v.doxygen)]
  | .function f => function f
  | .methodImpl m => function m
  | .typedef t => obj "Typedef" [("type", dtype t.type), ("name", t.name), ("access", opt Json.str t.access)]
  | .usingNamespace ns => strs ns
  | .usingAlias u =>
    obj "UsingAlias" [("alias", u.alias), ("type", dtype u.type), ("template", opt tdecl u.template),
      ("access", opt Json.str u.access), ("doxygen", opt Json.str u.doxygen)]
  | .usingDeclaration u =>
    obj "UsingDecl" [("typename", pqname u.typename), ("access", opt Json.str u.access), ("doxygen", opt Json.str u.doxygen)]
  | .enum e => enumDecl e
  | .classField f =>
    obj "Field" [("access", f.access), ("type", dtype f.type), ("name", opt Json.str f.name),
      ("value", opt value f.value), ("bits", opt (fun (n : Nat) => toJson n) f.bits),
      ("constexpr", f.constexpr), ("mutable", f.mutable), ("static", f.static), ("inline", f.inline),
      ("doxygen", opt Json.str f.doxygen)]
  | .classMethod m => function m
  | .classFriend f => obj "FriendDecl" [("cls", opt forwardDecl f.cls), ("fn", opt function f.fn)]
  | .deductionGuide g =>
    obj "DeductionGuide" [("result_type", opt dtype g.resultType), ("name", pqname g.name),
      ("parameters", Json.arr (g.parameters.map param).toArray), ("doxygen", opt Json.str g.doxygen)]

def loc (l : Location) : Json := Json.arr #[opt Json.str l.filename, toJson l.lineno]

def kindStr : BlockKind → String
  | .ns => "ns" | .ext => "ext" | .cls => "cls"

def modsKeys (m : Mods) : Json :=
  Json.mkObj [("vars", strs (m.vars.map (·.1))), ("both", strs (m.both.map (·.1))), ("meths", strs (m.meths.map (·.1)))]

/-- the immutable content of a state object -/
def hdr (h : BlockHdr) : Json :=
  match h.kind with
  | .ns => Json.mkObj [("namespace", namespaceDecl h.ns)]
  | .ext => Json.mkObj [("linkage", h.linkage)]
  | .cls => Json.mkObj [("class_decl", classDecl h.cls), ("typedef", h.typedef), ("mods", modsKeys h.mods)]

def cbName (e : Event) : String :=
  match e.kind with
  | .parseStart => "on_parse_start"
  | .blockStart => match e.stateKind with | .ns => "on_namespace_start" | .ext => "on_extern_block_start" | .cls => "on_class_start"
  | .blockEnd => match e.stateKind with | .ns => "on_namespace_end" | .ext => "on_extern_block_end" | .cls => "on_class_end"
  | .item p => p.cbName

def event (e : Event) : Json :=
  Json.mkObj [("cb", cbName e), ("state", toJson e.stateId), ("kind", kindStr e.stateKind),
    ("parent", opt (fun (n : Nat) => toJson n) e.parentId), ("loc", loc e.loc),
    ("access", opt Json.str e.access), ("hdr", hdr e.hdr),
    ("payload", match e.kind with | .item p => payload p | _ => Json.null)]

end Cxx.J

namespace Cxx.J

def typedefJ (t : Typedef) : Json := payload (.typedef t)
def variableJ (v : Variable) : Json := payload (.variable v)
def usingDeclJ (u : UsingDecl) : Json := payload (.usingDeclaration u)
def usingAliasJ (u : UsingAlias) : Json := payload (.usingAlias u)
def fieldJ (f : Field) : Json := payload (.classField f)
def friendJ (f : FriendDecl) : Json := payload (.classFriend f)
def arr (l : List Json) : Json := Json.arr l.toArray

mutual
  def scopeJ : Scope → Json
    | .ns name inl dox it cls nss =>
      obj "NamespaceScope" [("name", name), ("inline", inl), ("doxygen", opt Json.str dox),
        ("classes", arr (scopesJ cls)), ("enums", arr (it.enums.map enumDecl)),
        ("functions", arr (it.functions.map function)), ("method_impls", arr (it.methodImpls.map function)),
        ("typedefs", arr (it.typedefs.map typedefJ)), ("variables", arr (it.variables.map variableJ)),
        ("forward_decls", arr (it.forwardDecls.map forwardDecl)), ("using", arr (it.usingDecls.map usingDeclJ)),
        ("using_ns", arr (it.usingNs.map (fun (s : String) => obj "UsingNamespace" [("ns", Json.str s)]))),
        ("using_alias", arr (it.usingAlias.map usingAliasJ)),
        ("ns_alias", arr (it.nsAlias.map (fun a => payload (.namespaceAlias a)))),
        ("concepts", arr (it.concepts.map (fun c => payload (.concept c)))),
        ("template_insts", arr (it.templateInsts.map (fun t => payload (.templateInst t)))),
        ("namespaces", Json.mkObj (nssJ nss)),
        ("deduction_guides", arr (it.deductionGuides.map (fun g => payload (.deductionGuide g))))]
    | .cls decl it cls =>
      obj "ClassScope" [("class_decl", classDecl decl), ("classes", arr (scopesJ cls)),
        ("enums", arr (it.enums.map enumDecl)), ("fields", arr (it.fields.map fieldJ)),
        ("friends", arr (it.friends.map friendJ)), ("methods", arr (it.methods.map function)),
        ("typedefs", arr (it.typedefs.map typedefJ)), ("forward_decls", arr (it.forwardDecls.map forwardDecl)),
        ("using", arr (it.usingDecls.map usingDeclJ)), ("using_alias", arr (it.usingAlias.map usingAliasJ))]
  def scopesJ : List Scope → List Json
    | [] => []
    | s :: r => scopeJ s :: scopesJ r
  def nssJ : List (String × Scope) → List (String × Json)
    | [] => []
    | (n, s) :: r => (n, scopeJ s) :: nssJ r
end

def parsedData (fs : FoldState) : Json :=
  obj "ParsedData" [("namespace", scopeJ fs.root),
    ("pragmas", arr (fs.pragmas.map (fun v => obj "Pragma" [("content", value v)]))),
    ("includes", arr (fs.includes.map (fun (f : String) => obj "Include" [("filename", Json.str f)])))]

end Cxx.J
