/-
  Blocks.lean — the access-level bookkeeping of nested class bodies as a small machine,
  with its specification as a function of the history alone.

  The parser keeps one mutable `access` field per `ClassBlockState` on its state stack
  (`push` = `_parse_class_decl`, `setAccess` = `_process_access_specifier`, `pop` =
  `_on_block_end`); `bstep` is that bookkeeping on the projection `stack.map access`.
-/
import CxxModel.Interp
namespace Cxx

inductive BOp where
  | opn (dflt : String)      -- a block opens; `dflt` = class-key default (or "" for a non-class block)
  | close
  | access (a : String)      -- an access specifier in the innermost block
  | member (tag : Nat)       -- any member declaration
  deriving Repr, DecidableEq, Inhabited

/-- the stack of current access levels, innermost first -/
def bstep (st : List String) : BOp → List String
  | .opn d => d :: st
  | .close => st.tail
  | .access a => a :: st.tail
  | .member _ => st

def brun (h : List BOp) : List String := h.foldl bstep []

/-- Specification: scan the history backwards, skipping `d` enclosing levels and every
    complete nested block: the most recent access specifier *of that same block*, else the
    block's default. -/
def scanBack : List BOp → Nat → Option String
  | [], _ => none
  | .close :: r, d => scanBack r (d + 1)
  | .opn x :: _, 0 => some x
  | .opn _ :: r, d + 1 => scanBack r d
  | .access a :: _, 0 => some a
  | .access _ :: r, d + 1 => scanBack r (d + 1)
  | .member _ :: r, d => scanBack r d

/-- a history never closes more blocks than it opened, and specifiers appear inside a block -/
def validHist : List BOp → Nat → Bool
  | [], _ => true
  | .opn _ :: r, n => validHist r (n + 1)
  | .close :: r, n => decide (0 < n) && validHist r (n - 1)
  | .access _ :: r, n => decide (0 < n) && validHist r n
  | .member _ :: r, n => validHist r n

theorem brun_snoc (h : List BOp) (op : BOp) : brun (h ++ [op]) = bstep (brun h) op := by
  simp [brun, List.foldl_append]

theorem validHist_append (h : List BOp) (op : BOp) (n : Nat) :
    validHist (h ++ [op]) n = true → validHist h n = true := by
  induction h generalizing n with
  | nil => intro _; rfl
  | cons x xs ih =>
    intro hv
    cases x <;> simp only [List.cons_append, validHist, Bool.and_eq_true] at hv ⊢
    · exact ih _ hv
    · exact ⟨hv.1, ih _ hv.2⟩
    · exact ⟨hv.1, ih _ hv.2⟩
    · exact ih _ hv

theorem access_tracks_rev (hr : List BOp) :
    ∀ d, d < (brun hr.reverse).length → (brun hr.reverse)[d]? = scanBack hr d := by
  induction hr with
  | nil => intro d hd; simp [brun] at hd
  | cons op hr ih =>
    intro d hd
    rw [List.reverse_cons, brun_snoc] at hd ⊢
    cases op with
    | opn x =>
      cases d with
      | zero => simp [bstep, scanBack]
      | succ d =>
        simp only [bstep, List.length_cons] at hd
        simp only [bstep, scanBack, List.getElem?_cons_succ]
        exact ih d (by omega)
    | close =>
      simp only [bstep, List.length_tail] at hd
      simp only [bstep, scanBack, List.getElem?_tail]
      exact ih (d + 1) (by omega)
    | access a =>
      cases d with
      | zero => simp [bstep, scanBack]
      | succ d =>
        simp only [bstep, List.length_cons, List.length_tail] at hd
        simp only [bstep, scanBack, List.getElem?_cons_succ, List.getElem?_tail]
        exact ih (d + 1) (by omega)
    | member t =>
      simp only [bstep] at hd
      simp only [bstep, scanBack]
      exact ih d hd

/-- **access tracking**: after any history, the access level `d` blocks out is what the
    backward scan of the history says — for every nesting depth, with no bound. -/
theorem access_tracks (h : List BOp) :
    ∀ d, d < (brun h).length → (brun h)[d]? = scanBack h.reverse d := by
  intro d hd
  have := access_tracks_rev h.reverse d (by simpa using hd)
  simpa using this

/-- the access attached to a member written at the end of history `h` -/
theorem member_access (h : List BOp) (hne : brun h ≠ []) :
    (brun h).head? = scanBack h.reverse 0 := by
  have := access_tracks h 0 (by cases hb : brun h with | nil => exact absurd hb hne | cons a b => simp)
  simpa [List.head?_eq_getElem?] using this

/-! ### the interpreter's stack implements `bstep` on the projection `stack.map access` -/

def accessOf (b : Block) : String := b.access.getD ""

theorem push_is_opn (st : List Block) (blk : Block) :
    (blk :: st).map accessOf = bstep (st.map accessOf) (.opn (accessOf blk)) := rfl

theorem pop_is_close (st : List Block) (blk : Block) :
    st.map accessOf = bstep ((blk :: st).map accessOf) .close := rfl

theorem setAccess_is_access (st : List Block) (blk : Block) (a : String) :
    ({ blk with access := some a } :: st).map accessOf = bstep ((blk :: st).map accessOf) (.access a) := rfl

/-! non-vacuity: a nested class with its own specifier does not disturb the outer one -/
example :
    brun [.opn "private", .access "public", .opn "public", .access "protected", .member 1, .close, .member 2]
      = ["public"] := by decide

example :
    scanBack [BOp.opn "private", .access "public", .opn "public", .access "protected", .member 1, .close, .member 2].reverse 0
      = some "public" := by decide

end Cxx
