/-
  Types.lean — Lean mirrors of the dataclasses in `cxxheaderparser/types.py` (and the three
  small ones of `simple.py`).  Field names and order follow the Python source; the
  extractor dumps the dataclass schemas into `Gen/Schema.lean` and `SchemaCheck.lean`
  decides that the two agree.
-/
namespace Cxx

/-- `tokfmt.Token` -/
structure Token where
  value : String
  type : String := ""
  deriving Repr, DecidableEq, Inhabited

/-- `types.Value` -/
structure Value where
  tokens : List Token
  deriving Repr, DecidableEq, Inhabited

mutual
  /-- `PQNameSegment` = AnonymousName | FundamentalSpecifier | NameSpecifier | DecltypeSpecifier | AutoSpecifier -/
  inductive PQSeg where
    | anon (id : Nat)
    | fund (name : String)
    | name (name : String) (specialization : Option TemplateSpec)
    | decltype (tokens : List Token)
    | auto

  /-- `PQName(segments, classkey, has_typename)` -/
  inductive PQName where
    | mk (segments : List PQSeg) (classkey : Option String) (hasTypename : Bool)

  /-- `TemplateSpecialization(args)` -/
  inductive TemplateSpec where
    | mk (args : List TemplateArg)

  /-- `TemplateArgument(arg, param_pack)`; `arg` is a DecoratedType/FunctionType or a Value -/
  inductive TemplateArg where
    | ty (arg : DType) (paramPack : Bool)
    | val (arg : Value) (paramPack : Bool)

  /-- `DecoratedType` plus `FunctionType` -/
  inductive DType where
    | type (typename : PQName) (const : Bool) (volatile : Bool)
    | ptr (ptrTo : DType) (const : Bool) (volatile : Bool)
    | ref (refTo : DType)
    | mref (movrefTo : DType)
    | array (arrayOf : DType) (size : Option Value)
    | fn (returnType : DType) (parameters : List Param) (vararg : Bool) (hasTrailingReturn : Bool)
         (noexcept : Option Value) (msvcConvention : Option String)

  /-- `Parameter(type, name, default, param_pack)` -/
  inductive Param where
    | mk (type : DType) (name : Option String) (default : Option Value) (paramPack : Bool)
end

instance : Inhabited PQName := ⟨.mk [] none false⟩
instance : Inhabited DType := ⟨.type default false false⟩
instance : Inhabited Param := ⟨.mk default none none false⟩
instance : Inhabited PQSeg := ⟨.auto⟩

def PQName.segments : PQName → List PQSeg | .mk s _ _ => s
def PQName.classkey : PQName → Option String | .mk _ c _ => c
def PQName.hasTypename : PQName → Bool | .mk _ _ t => t
def Param.type : Param → DType | .mk t _ _ _ => t
def Param.name : Param → Option String | .mk _ n _ _ => n
def Param.default : Param → Option Value | .mk _ _ d _ => d
def Param.paramPack : Param → Bool | .mk _ _ _ p => p

/-- `getattr(seg, "name", None)` -/
def PQSeg.nameAttr : PQSeg → Option String
  | .fund n => some n
  | .name n _ => some n
  | .auto => some "auto"
  | _ => none

def autoName : PQName := .mk [.auto] none false

mutual
  /-- `TemplateParam` = TemplateNonTypeParam | TemplateTypeParam -/
  inductive TemplateParam where
    | nonType (type : DType) (name : Option String) (default : Option Value)
              (paramIdx : Option Int) (paramPack : Bool)
    | typeParam (typekey : String) (name : Option String) (paramPack : Bool)
                (default : Option Value) (template : Option TemplateDecl)

  /-- `TemplateDecl(params, raw_requires_pre)` -/
  inductive TemplateDecl where
    | mk (params : List TemplateParam) (rawRequiresPre : Option Value)
end

instance : Inhabited TemplateDecl := ⟨.mk [] none⟩

def TemplateDecl.params : TemplateDecl → List TemplateParam | .mk p _ => p
def TemplateDecl.rawRequiresPre : TemplateDecl → Option Value | .mk _ r => r

/-- `TemplateDeclTypeVar` = None | TemplateDecl | List[TemplateDecl] -/
inductive TemplateVar where
  | none
  | one (t : TemplateDecl)
  | many (ts : List TemplateDecl)
  deriving Inhabited

def TemplateVar.isSome : TemplateVar → Bool
  | .none => false
  | .one _ => true
  | .many ts => !ts.isEmpty    -- Python truthiness of a list

structure NamespaceAlias where
  alias : String
  names : List String
  deriving Inhabited

structure NamespaceDecl where
  names : List String
  inline : Bool := false
  doxygen : Option String := none
  deriving Inhabited

structure Enumerator where
  name : String
  value : Option Value := none
  doxygen : Option String := none
  deriving Inhabited

structure EnumDecl where
  typename : PQName
  values : List Enumerator
  base : Option PQName := none
  doxygen : Option String := none
  access : Option String := none
  deriving Inhabited

structure TemplateInst where
  typename : PQName
  extern : Bool
  doxygen : Option String := none
  deriving Inhabited

structure Concept where
  template : TemplateDecl
  name : String
  rawConstraint : Value
  doxygen : Option String := none
  deriving Inhabited

structure ForwardDecl where
  typename : PQName
  template : TemplateVar := .none
  doxygen : Option String := none
  enumBase : Option PQName := none
  access : Option String := none
  deriving Inhabited

structure BaseClass where
  access : String
  typename : PQName
  virtual : Bool := false
  paramPack : Bool := false
  deriving Inhabited

structure ClassDecl where
  typename : PQName
  bases : List BaseClass := []
  template : TemplateVar := .none
  explicit : Bool := false
  final : Bool := false
  doxygen : Option String := none
  access : Option String := none
  deriving Inhabited

/-- `Function`; `Method` adds the fields after `rawRequires` (`isMethod` tells which class). -/
structure Function where
  returnType : Option DType
  name : PQName
  parameters : List Param
  vararg : Bool := false
  doxygen : Option String := none
  constexpr : Bool := false
  extern : Bool := false
  static : Bool := false
  inline : Bool := false
  deleted : Bool := false
  hasBody : Bool := false
  hasTrailingReturn : Bool := false
  template : TemplateVar := .none
  throw : Option Value := none
  noexcept : Option Value := none
  msvcConvention : Option String := none
  operator : Option String := none
  rawRequires : Option Value := none
  -- Method only
  isMethod : Bool := false
  access : Option String := none
  const : Bool := false
  volatile : Bool := false
  refQualifier : Option String := none
  constructor : Bool := false
  explicit : Bool := false
  default : Bool := false
  destructor : Bool := false
  pureVirtual : Bool := false
  virtual : Bool := false
  final : Bool := false
  override : Bool := false
  deriving Inhabited

structure FriendDecl where
  cls : Option ForwardDecl := none
  fn : Option Function := none
  deriving Inhabited

structure Typedef where
  type : DType
  name : String
  access : Option String := none
  deriving Inhabited

structure Variable where
  name : PQName
  type : DType
  value : Option Value := none
  constexpr : Bool := false
  extern : Bool := false
  static : Bool := false
  inline : Bool := false
  template : Option TemplateDecl := none
  doxygen : Option String := none
  deriving Inhabited

structure Field where
  access : String
  type : DType
  name : Option String := none
  value : Option Value := none
  bits : Option Nat := none
  constexpr : Bool := false
  mutable : Bool := false
  static : Bool := false
  inline : Bool := false
  doxygen : Option String := none
  deriving Inhabited

structure UsingDecl where
  typename : PQName
  access : Option String := none
  doxygen : Option String := none
  deriving Inhabited

structure UsingAlias where
  alias : String
  type : DType
  template : Option TemplateDecl := none
  access : Option String := none
  doxygen : Option String := none
  deriving Inhabited

structure DeductionGuide where
  resultType : Option DType
  name : PQName
  parameters : List Param
  doxygen : Option String := none
  deriving Inhabited

end Cxx
