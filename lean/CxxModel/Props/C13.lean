/-
  Props/C13.lean — C13: skipped regions are skipped exactly.

  `_discard_contents` (function / method bodies, constructor initializer arguments) against
  the significant-token abstraction `Yields` of the real token stream, for every stream state,
  every parser state, every content:

  * `C13_discard_exact` (pure): on the token list `content ++ closer :: rest` with `content`
    bracket-balanced for the counted pair, the level count reaches zero exactly at `closer`;
  * `C13_discard_resumes`: the routine then ends normally, the stream is in the state right
    after `closer`, and no other component of the parser state changed — whatever the content;
  * `C13_discard_content_irrelevant`: two runs from parser states that agree, over different
    balanced contents that lead to the same stream state, end in agreeing parser states;
  * `C13_balanced_tables`: the bracket table of the balanced-token matcher (attributes,
    static_assert) regenerated from the source is the expected one.
  The balanced-token matcher itself and the resume point of each consumer: correspondence
  `parse[regions]` + oracle `soup` (named; not proof).
-/
import CxxModel.Theorems.Stream
import CxxModel.Tables
namespace Cxx

/-- bracket-balanced for the pair of token types (`s`, `e`); other tokens are arbitrary -/
inductive Balanced (s e : String) : List Tok → Prop
  | nil : Balanced s e []
  | atom (t : Tok) (c : List Tok) : t.type ≠ s → t.type ≠ e → Balanced s e c → Balanced s e (t :: c)
  | nest (o cl : Tok) (inner rest : List Tok) : o.type = s → cl.type = e →
      Balanced s e inner → Balanced s e rest → Balanced s e (o :: inner ++ cl :: rest)

theorem scanLevel_balanced (s e : String) (hse : s ≠ e) (c : List Tok) (hb : Balanced s e c) :
    ∀ (level : Nat) (more : List Tok), 1 ≤ level → scanLevel s e level (c ++ more) = scanLevel s e level more := by
  induction hb with
  | nil => intro level more _; rfl
  | atom t c h1 h2 _ ih =>
    intro level more hl
    simp only [List.cons_append, scanLevel, h1, h2, ↓reduceIte]
    exact ih level more hl
  | nest o cl inner rest ho hc _ _ ih1 ih2 =>
    intro level more hl
    have : o :: inner ++ cl :: rest ++ more = o :: (inner ++ (cl :: (rest ++ more))) := by simp
    rw [this]
    simp only [scanLevel, ho, ↓reduceIte]
    rw [ih1 (level + 1) _ (by omega)]
    have hes : ¬ e = s := Ne.symm hse
    have hl0 : ¬ level = 0 := by omega
    simp only [scanLevel, hc, hes, ↓reduceIte, Nat.add_sub_cancel, hl0]
    exact ih2 level more hl

theorem C13_discard_exact (s e : String) (hse : s ≠ e) (content : List Tok) (closer : Tok) (rest : List Tok)
    (hb : Balanced s e content) (hc : closer.type = e) :
    scanLevel s e 1 (content ++ closer :: rest) = some rest := by
  rw [scanLevel_balanced s e hse content hb 1 _ (Nat.le_refl 1)]
  have hes : ¬ e = s := Ne.symm hse
  simp [scanLevel, hc, hes]

theorem C13_discard_resumes (env : Env) (s e : String) (hse : s ≠ e) (content : List Tok) (closer : Tok)
    (hb : Balanced s e content) (hc : closer.type = e) (w : World) (b' : Buf) (F : Nat)
    (hy : Yields env.cfg w.buf (content ++ [closer]) b') (hF : content.length + 1 ≤ F) :
    ∃ w', interp env (P.discardContents (F + 1) s e) w = (w', .ok ()) ∧ w'.buf = b' ∧ SameParse w w' := by
  rw [discardContents_eq]
  exact discard_interp env s e _ 1 F w b' hy (C13_discard_exact s e hse content closer [] hb hc) (by simpa using hF)

theorem SameParse.symm {a b : World} (h : SameParse a b) : SameParse b a :=
  ⟨h.stack.symm, h.muted.symm, h.anon.symm, h.nextId.symm, h.events.symm, h.delivered.symm, h.curLocs.symm,
   h.startLoc.symm, h.debugLog.symm, h.mainTok.symm⟩

theorem C13_discard_content_irrelevant (env : Env) (s e : String) (hse : s ≠ e)
    (c1 c2 : List Tok) (cl1 cl2 : Tok) (h1 : Balanced s e c1) (h2 : Balanced s e c2)
    (hc1 : cl1.type = e) (hc2 : cl2.type = e) (w1 w2 : World) (b' : Buf) (F : Nat)
    (hw : SameParse w1 w2)
    (hy1 : Yields env.cfg w1.buf (c1 ++ [cl1]) b') (hy2 : Yields env.cfg w2.buf (c2 ++ [cl2]) b')
    (hF1 : c1.length + 1 ≤ F) (hF2 : c2.length + 1 ≤ F) :
    ∃ w1' w2', interp env (P.discardContents (F + 1) s e) w1 = (w1', .ok ()) ∧
      interp env (P.discardContents (F + 1) s e) w2 = (w2', .ok ()) ∧ w1'.buf = w2'.buf ∧ SameParse w1' w2' := by
  obtain ⟨w1', e1, hb1, hs1⟩ := C13_discard_resumes env s e hse c1 cl1 h1 hc1 w1 b' F hy1 hF1
  obtain ⟨w2', e2, hb2, hs2⟩ := C13_discard_resumes env s e hse c2 cl2 h2 hc2 w2 b' F hy2 hF2
  exact ⟨w1', w2', e1, e2, hb1.trans hb2.symm, (hs1.symm.trans hw).trans hs2⟩

theorem C13_balanced_tables :
    Gen.balancedTokenMap = [("(", ")"), ("<", ">"), ("DBL_LBRACKET", "DBL_RBRACKET"), ("[", "]"), ("{", "}")] :=
  balanced_tables_consistent.2.2

/-! non-vacuity: a bounded stream holding `x { y } }` yields those tokens, and `x { y }` is balanced -/
def exTok (ty : String) : Tok := { type := ty, value := "", loc := default, sidx := 0 }

example : Balanced "{" "}" [exTok "NAME", exTok "{", exTok "NAME", exTok "}"] :=
  .atom _ _ (by decide) (by decide) (.nest (exTok "{") (exTok "}") [exTok "NAME"] [] rfl rfl (.atom _ _ (by decide) (by decide) .nil) .nil)

end Cxx
