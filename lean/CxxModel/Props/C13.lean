/-
  Props/C13.lean — C13: skipped regions are skipped exactly.

  `_discard_contents` (function / method bodies, constructor initializer arguments) against
  the significant-token abstraction `Yields` of the real token stream, for every stream state,
  every parser state, every content:

  * `C13_discard_exact` (pure): on the token list `content ++ closer :: rest` with `content`
    bracket-balanced for the counted pair, the level count reaches zero exactly at `closer`;
  * `C13_discard_resumes`: the routine then ends normally, the stream is in the state right
    after `closer`, and no other component of the parser state changed — whatever the content;
  * `C13_discard_content_irrelevant`: two runs from parser states that agree, over different
    balanced contents that lead to the same stream state, end in agreeing parser states;
  * `C13_balanced_tables`: the bracket table of the balanced-token matcher (attributes,
    static_assert) regenerated from the source is the expected one.
  The balanced-token matcher itself and the resume point of each consumer: correspondence
  `parse[regions]` + oracle `soup` (named; not proof).
-/
import CxxModel.Theorems.Stream
import CxxModel.Theorems.AttrSeq
import CxxModel.Tables
namespace Cxx

/-- bracket-balanced for the pair of token types (`s`, `e`); other tokens are arbitrary -/
inductive Balanced (s e : String) : List Tok → Prop
  | nil : Balanced s e []
  | atom (t : Tok) (c : List Tok) : t.type ≠ s → t.type ≠ e → Balanced s e c → Balanced s e (t :: c)
  | nest (o cl : Tok) (inner rest : List Tok) : o.type = s → cl.type = e →
      Balanced s e inner → Balanced s e rest → Balanced s e (o :: inner ++ cl :: rest)

theorem scanLevel_balanced (s e : String) (hse : s ≠ e) (c : List Tok) (hb : Balanced s e c) :
    ∀ (level : Nat) (more : List Tok), 1 ≤ level → scanLevel s e level (c ++ more) = scanLevel s e level more := by
  induction hb with
  | nil => intro level more _; rfl
  | atom t c h1 h2 _ ih =>
    intro level more hl
    simp only [List.cons_append, scanLevel, h1, h2, ↓reduceIte]
    exact ih level more hl
  | nest o cl inner rest ho hc _ _ ih1 ih2 =>
    intro level more hl
    have : o :: inner ++ cl :: rest ++ more = o :: (inner ++ (cl :: (rest ++ more))) := by simp
    rw [this]
    simp only [scanLevel, ho, ↓reduceIte]
    rw [ih1 (level + 1) _ (by omega)]
    have hes : ¬ e = s := Ne.symm hse
    have hl0 : ¬ level = 0 := by omega
    simp only [scanLevel, hc, hes, ↓reduceIte, Nat.add_sub_cancel, hl0]
    exact ih2 level more hl

theorem C13_discard_exact (s e : String) (hse : s ≠ e) (content : List Tok) (closer : Tok) (rest : List Tok)
    (hb : Balanced s e content) (hc : closer.type = e) :
    scanLevel s e 1 (content ++ closer :: rest) = some rest := by
  rw [scanLevel_balanced s e hse content hb 1 _ (Nat.le_refl 1)]
  have hes : ¬ e = s := Ne.symm hse
  simp [scanLevel, hc, hes]

theorem C13_discard_resumes (env : Env) (s e : String) (hse : s ≠ e) (content : List Tok) (closer : Tok)
    (hb : Balanced s e content) (hc : closer.type = e) (w : World) (b' : Buf) (F : Nat)
    (hy : Yields env.cfg w.buf (content ++ [closer]) b') (hF : content.length + 1 ≤ F) :
    ∃ w', interp env (P.discardContents (F + 1) s e) w = (w', .ok ()) ∧ w'.buf = b' ∧ SameParse w w' := by
  rw [discardContents_eq]
  exact discard_interp env s e _ 1 F w b' hy (C13_discard_exact s e hse content closer [] hb hc) (by simpa using hF)

theorem SameParse.symm {a b : World} (h : SameParse a b) : SameParse b a :=
  ⟨h.stack.symm, h.muted.symm, h.anon.symm, h.nextId.symm, h.events.symm, h.delivered.symm, h.curLocs.symm,
   h.startLoc.symm, h.debugLog.symm, h.mainTok.symm⟩

theorem C13_discard_content_irrelevant (env : Env) (s e : String) (hse : s ≠ e)
    (c1 c2 : List Tok) (cl1 cl2 : Tok) (h1 : Balanced s e c1) (h2 : Balanced s e c2)
    (hc1 : cl1.type = e) (hc2 : cl2.type = e) (w1 w2 : World) (b' : Buf) (F : Nat)
    (hw : SameParse w1 w2)
    (hy1 : Yields env.cfg w1.buf (c1 ++ [cl1]) b') (hy2 : Yields env.cfg w2.buf (c2 ++ [cl2]) b')
    (hF1 : c1.length + 1 ≤ F) (hF2 : c2.length + 1 ≤ F) :
    ∃ w1' w2', interp env (P.discardContents (F + 1) s e) w1 = (w1', .ok ()) ∧
      interp env (P.discardContents (F + 1) s e) w2 = (w2', .ok ()) ∧ w1'.buf = w2'.buf ∧ SameParse w1' w2' := by
  obtain ⟨w1', e1, hb1, hs1⟩ := C13_discard_resumes env s e hse c1 cl1 h1 hc1 w1 b' F hy1 hF1
  obtain ⟨w2', e2, hb2, hs2⟩ := C13_discard_resumes env s e hse c2 cl2 h2 hc2 w2 b' F hy2 hF2
  exact ⟨w1', w2', e1, e2, hb1.trans hb2.symm, (hs1.symm.trans hw).trans hs2⟩

theorem C13_balanced_tables :
    Gen.balancedTokenMap = [("(", ")"), ("<", ">"), ("DBL_LBRACKET", "DBL_RBRACKET"), ("[", "]"), ("{", "}")] :=
  balanced_tables_consistent.2.2

/-! non-vacuity: a bounded stream holding `x { y } }` yields those tokens, and `x { y }` is balanced -/
def exTok (ty : String) : Tok := { type := ty, value := "", loc := default, sidx := 0 }

example : Balanced "{" "}" [exTok "NAME", exTok "{", exTok "NAME", exTok "}"] :=
  .atom _ _ (by decide) (by decide) (.nest (exTok "{") (exTok "}") [exTok "NAME"] [] rfl rfl (.atom _ _ (by decide) (by decide) .nil) .nil)


/-! ### the balanced-token matcher and the consumers built on it -/

/-- `[[ … ]]`, `alignas( … )`, `__declspec( … )`: the matcher started with the opener already
    read consumes properly nested content and the matching closer, whatever the content -/
theorem C13_balanced_region (env : Env) (o0 : CTok) (clty : String)
    (hl0 : Gen.balancedTokenMap.lookup o0.type = some clty)
    (content : List Tok) (closer : Tok) (hn : Nested (content.map (·.type))) (hc : closer.type = clty)
    (w : World) (b' : Buf) (F : Nat) (hy : Yields env.cfg w.buf (content ++ [closer]) b') (hF : content.length + 1 ≤ F) :
    ∃ (w' : World) (res : List CTok), interp env (P.consumeBalancedTokens (F + 1) [o0]) w = (w', .ok res) ∧
      w'.buf = b' ∧ SameParse w w' ∧ res.map CTok.tv = o0.tv :: (content.map Tok.tv ++ [closer.tv]) :=
  consumeBalanced_region env o0 clty hl0 content closer hn hc w b' F hy hF

/-- `_consume_declspec`: `( content )` -/
theorem C13_declspec_resumes (env : Env) (op : Tok) (content : List Tok) (closer : Tok)
    (hop : op.type = "(") (hn : Nested (content.map (·.type))) (hc : closer.type = ")")
    (w : World) (b' : Buf) (F : Nat) (hy : Yields env.cfg w.buf (op :: (content ++ [closer])) b')
    (hF : content.length + 1 ≤ F) :
    ∃ w', interp env (P.consumeDeclspec (F + 1)) w = (w', .ok ()) ∧ w'.buf = b' ∧ SameParse w w' := by
  cases hy with
  | cons htok hrest =>
    rename_i b1
    have hho := handOut_same ({ w with buf := b1 } : World) op
    obtain ⟨hsame0, hbuf, hty, _⟩ := hho
    have hsame := (SameParse.setBuf w b1).trans hsame0
    have hl0 : Gen.balancedTokenMap.lookup (({ w with buf := b1 } : World).handOut op).1.type = some ")" := by
      rw [hty, hop]; decide
    obtain ⟨w', res, hw, hb, hsp, _⟩ := consumeBalanced_region env _ ")" hl0 content closer hn hc _ b' F
      (by rw [hbuf]; exact hrest) hF
    refine ⟨w', ?_, hb, hsame.trans hsp⟩
    unfold P.consumeDeclspec
    simp only [bind, interp_bind, interp_nextTokenMustBe_ok env ["("] w op b1 htok (by rw [hop]; decide), hw]
    rfl

/-- `_consume_gcc_attribute`: `(( content ))` -/
theorem C13_gcc_attribute_resumes (env : Env) (op0 op1 : Tok) (content : List Tok) (c1 c0 : Tok)
    (hop0 : op0.type = "(") (hop1 : op1.type = "(") (hn : Nested (content.map (·.type)))
    (hc1 : c1.type = ")") (hc0 : c0.type = ")")
    (w : World) (b' : Buf) (F : Nat) (hy : Yields env.cfg w.buf (op0 :: op1 :: (content ++ [c1] ++ [c0])) b')
    (hF : content.length + 2 ≤ F) :
    ∃ w', interp env (P.consumeGccAttribute (F + 1)) w = (w', .ok ()) ∧ w'.buf = b' ∧ SameParse w w' := by
  cases hy with
  | cons htok0 hrest0 =>
    rename_i b1
    cases hrest0 with
    | cons htok1 hrest =>
      rename_i b2
      have hho0 := handOut_same ({ w with buf := b1 } : World) op0
      obtain ⟨hsame0, hbuf0, hty0, _⟩ := hho0
      have hsameA := (SameParse.setBuf w b1).trans hsame0
      generalize hwA : (({ w with buf := b1 } : World).handOut op0).2 = wA at *
      generalize hcA : (({ w with buf := b1 } : World).handOut op0).1 = cA at *
      have htok1' : tokenEofOk env.cfg wA.buf = .ok (some op1, b2) := by rw [hbuf0]; exact htok1
      have hho1 := handOut_same ({ wA with buf := b2 } : World) op1
      obtain ⟨hsame1, hbuf1, hty1, _⟩ := hho1
      have hsameB := (SameParse.setBuf wA b2).trans hsame1
      generalize hwB : (({ wA with buf := b2 } : World).handOut op1).2 = wB at *
      generalize hcB : (({ wA with buf := b2 } : World).handOut op1).1 = cB at *
      have hlA : Gen.balancedTokenMap.lookup cA.type = some ")" := by rw [hty0, hop0]; decide
      have hlB : Gen.balancedTokenMap.lookup cB.type = some ")" := by rw [hty1, hop1]; decide
      have hst : balStack0 [cA, cB] = [")", ")"] := by simp [balStack0, hlA, hlB]
      have hrun : ∀ cts : List CTok, cts.map CTok.tv = (content ++ [c1] ++ [c0]).map Tok.tv →
          RunsTo P.balStep ([cA, cB], balStack0 [cA, cB]) cts ([cA, cB] ++ cts) := by
        intro cts hcts
        obtain ⟨x1, cc0, hs0, _, hcc0, hx1⟩ := tv_split_last (xs := content ++ [c1]) (y := c0) hcts
        obtain ⟨x2, cc1, hs1, hx2, hcc1, _⟩ := tv_split_last (xs := content) (y := c1) hx1
        subst hs0; subst hs1
        rw [hst]
        have := balanced_region2_runs cA cB ")" ")" hlA hlB x2 cc1 cc0 (by rw [hx2]; exact hn)
          (by rw [hcc1, hc1]) (by rw [hcc0, hc0])
        simpa [List.append_assoc] using this
      obtain ⟨w', res, hw, hb, hsp, _⟩ := consumeBalanced_of_runs env [cA, cB] (content ++ [c1] ++ [c0]) wB b' F
        (by rw [hbuf1]; exact hrest) (by simp; omega) hrun
      refine ⟨w', ?_, hb, (hsameA.trans hsameB).trans hsp⟩
      unfold P.consumeGccAttribute
      simp only [bind, interp_bind, interp_nextTokenMustBe_ok env ["("] w op0 b1 htok0 (by rw [hop0]; decide), hwA, hcA,
        interp_nextTokenMustBe_ok env ["("] wA op1 b2 htok1' (by rw [hop1]; decide), hwB, hcB, hw]
      rfl

/-- `_consume_static_assert`: `( content )` with `content` balanced for parentheses -/
theorem C13_static_assert_resumes (env : Env) (op : Tok) (content : List Tok) (closer : Tok)
    (hop : op.type = "(") (hb : Balanced "(" ")" content) (hc : closer.type = ")")
    (w : World) (b' : Buf) (F : Nat) (hy : Yields env.cfg w.buf (op :: (content ++ [closer])) b')
    (hF : content.length + 1 ≤ F) :
    ∃ w', interp env (P.consumeStaticAssert (F + 1)) w = (w', .ok ()) ∧ w'.buf = b' ∧ SameParse w w' := by
  cases hy with
  | cons htok hrest =>
    rename_i b1
    have hho := handOut_same ({ w with buf := b1 } : World) op
    obtain ⟨hsame0, hbuf, _, _⟩ := hho
    have hsame := (SameParse.setBuf w b1).trans hsame0
    obtain ⟨w', hw, hb', hsp⟩ := C13_discard_resumes env "(" ")" (by decide) content closer hb hc _ b' F
      (by rw [hbuf]; exact hrest) hF
    refine ⟨w', ?_, hb', hsame.trans hsp⟩
    unfold P.consumeStaticAssert
    simp only [bind, interp_bind, interp_nextTokenMustBe_ok env ["("] w op b1 htok (by rw [hop]; decide), hw]


/-! non-vacuity: `a ( [ b ] ) < c >` is properly nested for the regenerated table; a bounded
    stream holding `x )` yields exactly these two tokens -/
example : Nested ["NAME", "(", "[", "NAME", "]", ")", "<", "NAME", ">"] :=
  .atom _ _ (by decide) (by decide)
    (.group "(" ")" ["[", "NAME", "]"] ["<", "NAME", ">"] (by decide)
      (.group "[" "]" ["NAME"] [] (by decide) (.atom _ _ (by decide) (by decide) .nil) .nil)
      (.group "<" ">" ["NAME"] [] (by decide) (.atom _ _ (by decide) (by decide) .nil) .nil))

theorem tokenEofOk_of_pop (cfg : LexCfg) (b : Buf) (t : Tok) (rest : List Tok)
    (h : popSignificant isDiscard b.tokbuf = some (t, rest)) :
    tokenEofOk cfg b = .ok (some t, { b with tokbuf := rest }) := by
  simp only [tokenEofOk, fuelFor, nextTok, h]

example (cfg : LexCfg) :
    Yields cfg { tokbuf := [exTok "NAME", exTok "WHITESPACE", exTok ")"], lex := { rest := [] }, bounded := true }
      [exTok "NAME", exTok ")"] { tokbuf := [], lex := { rest := [] }, bounded := true } :=
  .cons (tokenEofOk_of_pop cfg _ (exTok "NAME") [exTok "WHITESPACE", exTok ")"] (by decide))
    (.cons (tokenEofOk_of_pop cfg _ (exTok ")") [] (by decide)) (.nil _))


/-- **attribute sequences** `[[ … ]] [[ … ]] alignas( … ) …`: any number of groups with properly
    nested content, in any order, followed by a token that starts no group, is consumed whole
    by `_consume_attribute_specifier_seq`, and that token is left in the stream -/
theorem C13_attribute_sequence (env : Env) (G : Nat) (groups : List AGroup) (ct : CTok) (body : List Tok) (w : World)
    (bmid b' : Buf) (term : Tok)
    (hg : GroupBody ct.type body) (hall : ∀ g ∈ groups, g.OK ∧ g.toks.length + 1 ≤ G) (hG : body.length + 1 ≤ G)
    (hy : Yields env.cfg w.buf (body ++ groups.flatMap AGroup.toks) bmid)
    (htok : tokenEofOk env.cfg bmid = .ok (some term, b'))
    (hterm : Gen.attributeSpecifierSeqStartTypes.contains term.type = false) (hn : groups.length + 1 ≤ G + 1) :
    ∃ (w' : World) (t' : Tok), interp env (P.consumeAttributeSpecifierSeq (G + 1) ct) w = (w', .ok ()) ∧
      w'.buf = returnToken t' b' ∧ t'.tv = term.tv ∧ SameParse w w' :=
  attrSeq_consumes env G groups ct body w bmid b' term (G + 1) hg hall hG hy htok hterm hn

end Cxx
