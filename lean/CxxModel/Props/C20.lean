/-
  Props/C20.lean — C20: entry points and tools agree with one another.

  * `C20_parse_file_is_parse_string`: without a preprocessor, `parse_file(path, E)` gives the
    lexer exactly what `parse_string(decode(E or utf-8-sig, bytes))` gives it — for every file
    system, codec, path and encoding;
  * `C20_repr_roundtrip`: for every value conforming to the (regenerated) dataclass schemas,
    evaluating `nondefault_repr` reconstructs an equal value (Python `==`); `C20_schema_ok`
    decides the side conditions on the real schemas (field names distinct, compared ⇒ shown);
  * `C20_preprocessor_once` (also used by C18).
  `'-'`/stdin, os.PathLike, the CLI's JSON (dataclasses.asdict) are library glue: oracle only.
-/
import CxxModel.Entry
import CxxModel.Repr
import CxxModel.Gen.Schema
namespace Cxx

theorem C20_parse_file_is_parse_string (env : EntryEnv) (hpp : env.preprocessor = none)
    (path : String) (enc : Option String) (bytes : List Nat) (text : Str)
    (hfs : env.fs path = some bytes) (hdec : env.decode (enc.getD "utf-8-sig") bytes = some text) :
    parseFileEntry env path enc = parseStringEntry env path text := by
  simp [parseFileEntry, parseStringEntry, cxxParserInit, hpp, hfs, hdec]

theorem C20_parse_file_decode_error (env : EntryEnv) (hpp : env.preprocessor = none)
    (path : String) (enc : Option String) (bytes : List Nat)
    (hfs : env.fs path = some bytes) (hdec : env.decode (enc.getD "utf-8-sig") bytes = none) :
    (parseFileEntry env path enc).1 = .decodeError := by
  simp [parseFileEntry, cxxParserInit, hpp, hfs, hdec]

/-- a configured preprocessor is called exactly once, with (filename, content), and its
    return value is what gets parsed -/
theorem C20_preprocessor_once (env : EntryEnv) (pp : String → Option Str → Str) (hpp : env.preprocessor = some pp)
    (filename : String) (content : Option Str) (enc : Option String) :
    cxxParserInit env filename content enc = (.content (pp filename content), [(filename, content)]) := by
  simp [cxxParserInit, hpp]

theorem C20_schema_ok : Gen.schema.all (fun e => specsOK e.2) = true := by decide +kernel

theorem C20_repr_roundtrip (v : PyVal) (h : Conforms Gen.schema v = true) :
    deq Gen.schema v (evalRepr Gen.schema (nondefaultRepr Gen.schema v)) = true :=
  repr_roundtrip Gen.schema v h

/-! non-vacuity: a `TemplateNonTypeParam`-like object with `param_idx = 0` (default `None`)
    conforms, and its `param_idx` is written -/
example :
    let v : PyVal := .obj "AnonymousName" [("id", .int 0)]
    Conforms Gen.schema v = true ∧
      (match nondefaultRepr Gen.schema v with | .call _ kw => kw.length | _ => 0) = 1 := by
  decide +kernel

end Cxx
