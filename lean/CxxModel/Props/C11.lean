/-
  Props/C11.lean — C11: documentation comments attach to the declaration they adjoin, and only to it.

  Stream level, for every token buffer:
  * `C11_doxScan_partition`: one pass of `get_doxygen` over the buffer consumes a prefix and
    leaves the rest untouched; it stops exactly at the first significant token (which it does
    not consume); nothing is duplicated or pushed back — a comment token can be returned by at
    most one scan;
  * `C11_doxScan_comments_after_last_newline`: the comments it reports are the comment tokens
    of the consumed prefix that come after its last NEWLINE token (a NEWLINE token *after* a
    comment is a blank line, since comment tokens swallow their own newline);
  * `C11_doxAfter_partition`: the trailing scan removes only comment tokens (and the NEWLINE
    that ends the line); every other token stays, in order;
  * `C11_extract_none_without_doc`: plain comments contribute no text;
  * `C11_extract_lines_append`: every doc comment of a block contributes its lines, in order;
  * `C11_keep_doxygen`: in the main loop a pending doc text survives only attribute-like items.
  * `C11_get_doxygen_neutral`: `get_doxygen()` is neutral for the token sequence — after it,
    `token_eof_ok` returns exactly what it would have returned before (same token or end of
    input or lexical error, same stream state afterwards), for every stream state over the
    regenerated rules: looking for documentation can never make the parser read different
    tokens.
  * `C11_doc_scans_preserve_tokens`: both scans leave the sequence of significant tokens the
    stream will yield untouched: whatever tokens the parser would have read before
    `get_doxygen()` / `get_doxygen_after()`, it reads the same ones afterwards.
  Attachment per declaration kind: correspondence `parse[doxygen]` + oracle (named; not proof).
  * `C11_variable_doc` (`Theorems/TopLevel.lean`; the statement of `C01_toplevel_variable` read for its
    documentation part): through one iteration of the parse loop, a variable declaration
    `T ptr-ops x ;` gets as doxygen exactly the text `get_doxygen` found before it when there is
    one (`d = some dd → dox = some dd`), otherwise what the trailing scan finds; the callback is
    the only one delivered, and the iteration hands NO doc text to the next declaration
    (`.inl none`) — a doc block is never attributed twice.
-/
import CxxModel.TokStream
import CxxModel.Tables
import CxxModel.GenCfg
import CxxModel.Theorems.DoxNeutral
import CxxModel.Theorems.SigEq
import CxxModel.Theorems.TopLevel
namespace Cxx

/-- comment tokens of a list that come after its last NEWLINE token -/
def commentsAfterLastNl : List Tok → List Tok → List Tok
  | acc, [] => acc
  | acc, t :: ts =>
    if t.type = "NEWLINE" then commentsAfterLastNl [] ts
    else if isComment t.type then commentsAfterLastNl (acc ++ [t]) ts
    else commentsAfterLastNl acc ts

def isLayoutTok (t : Tok) : Bool := t.type = "NEWLINE" || t.type = "WHITESPACE" || isComment t.type

theorem C11_doxScan_partition (cs buf : List Tok) :
    ∃ pre, buf = pre ++ (doxScan cs buf).2.1 ∧ (∀ t ∈ pre, isLayoutTok t = true) ∧
      ((doxScan cs buf).2.2 = true → ∃ t rest, (doxScan cs buf).2.1 = t :: rest ∧ isLayoutTok t = false) ∧
      ((doxScan cs buf).2.2 = false → (doxScan cs buf).2.1 = []) := by
  induction buf generalizing cs with
  | nil => exact ⟨[], by simp [doxScan], by simp, by simp [doxScan], by simp [doxScan]⟩
  | cons t ts ih =>
    simp only [doxScan]
    split
    · rename_i h
      obtain ⟨pre, h1, h2, h3, h4⟩ := ih []
      exact ⟨t :: pre, by simp [← h1], by intro x hx; simp at hx; rcases hx with rfl | hx; simp [isLayoutTok, h]; exact h2 x hx, h3, h4⟩
    · split
      · rename_i h
        obtain ⟨pre, h1, h2, h3, h4⟩ := ih cs
        exact ⟨t :: pre, by simp [← h1], by intro x hx; simp at hx; rcases hx with rfl | hx; simp [isLayoutTok, h]; exact h2 x hx, h3, h4⟩
      · split
        · rename_i h
          obtain ⟨pre, h1, h2, h3, h4⟩ := ih (cs ++ [t])
          exact ⟨t :: pre, by simp [← h1], by intro x hx; simp at hx; rcases hx with rfl | hx; simp [isLayoutTok, h]; exact h2 x hx, h3, h4⟩
        · rename_i h1 h2 h3
          refine ⟨[], by simp, by simp, fun _ => ⟨t, ts, rfl, ?_⟩, by simp⟩
          simp [isLayoutTok, h1, h2, h3]

theorem C11_doxScan_comments_after_last_newline (cs buf : List Tok) :
    ∃ pre, buf = pre ++ (doxScan cs buf).2.1 ∧ (doxScan cs buf).1 = commentsAfterLastNl cs pre := by
  induction buf generalizing cs with
  | nil => exact ⟨[], by simp [doxScan], by simp [doxScan, commentsAfterLastNl]⟩
  | cons t ts ih =>
    simp only [doxScan]
    split
    · rename_i h
      obtain ⟨pre, h1, h2⟩ := ih []
      exact ⟨t :: pre, by simp [← h1], by simp [commentsAfterLastNl, h, h2]⟩
    · rename_i hnl
      split
      · rename_i h
        obtain ⟨pre, h1, h2⟩ := ih cs
        have hc : isComment t.type = false := by simp [isComment, h]
        exact ⟨t :: pre, by simp [← h1], by simp [commentsAfterLastNl, hnl, hc, h2]⟩
      · split
        · rename_i h
          obtain ⟨pre, h1, h2⟩ := ih (cs ++ [t])
          have hc : isComment t.type = true := by simpa [isComment] using h
          exact ⟨t :: pre, by simp [← h1], by simp [commentsAfterLastNl, hnl, hc, h2]⟩
        · exact ⟨[], by simp, by simp [commentsAfterLastNl]⟩

/-- the trailing scan: what stays in the buffer is the buffer without the comment tokens it took — only comment
    tokens are removed; the NEWLINE that ends the line stays (it may end a directive line held in the same buffer) -/
theorem C11_doxAfter_partition (cs nb buf : List Tok) :
    let r := doxAfterScan cs nb buf
    ∃ kept dropped, r.2.1 = nb ++ kept ∧ (∀ t ∈ kept, isComment t.type = false) ∧
      (∀ t ∈ dropped, isComment t.type = true) ∧
      (kept ++ dropped).length + r.2.2.length = buf.length := by
  induction buf generalizing cs nb with
  | nil => exact ⟨[], [], by simp [doxAfterScan], by simp, by simp, by simp [doxAfterScan]⟩
  | cons t ts ih =>
    simp only [doxAfterScan]
    split
    · rename_i h
      exact ⟨[t], [], by simp, by intro x hx; simp at hx; subst hx; simp [isComment, h], by simp, by simp; omega⟩
    · rename_i hnl
      split
      · rename_i h
        obtain ⟨kept, dropped, h1, h2, h3, h4⟩ := ih cs (nb ++ [t])
        refine ⟨t :: kept, dropped, by simp [h1], ?_, h3, by simp at h4 ⊢; omega⟩
        intro x hx; simp at hx; rcases hx with rfl | hx
        · simp [isComment, h]
        · exact h2 x hx
      · split
        · rename_i h
          obtain ⟨kept, dropped, h1, h2, h3, h4⟩ := ih (cs ++ [t]) nb
          refine ⟨kept, t :: dropped, h1, h2, ?_, by simp at h4 ⊢; omega⟩
          intro x hx; simp at hx; rcases hx with rfl | hx
          · simpa [isComment] using h
          · exact h3 x hx
        · rename_i hws hcm
          have hnc : isComment t.type = false := by simpa [isComment] using hcm
          split
          · exact ⟨[t], [], by simp, by intro x hx; simp at hx; subst hx; exact hnc, by simp, by simp; omega⟩
          · obtain ⟨kept, dropped, h1, h2, h3, h4⟩ := ih cs (nb ++ [t])
            refine ⟨t :: kept, dropped, by simp [h1], ?_, h3, by simp at h4 ⊢; omega⟩
            intro x hx; simp at hx; rcases hx with rfl | hx
            · exact hnc
            · exact h2 x hx

/-- comments that are not documentation comments give no text -/
def isDocText (v : Str) : Bool :=
  startsWith v [47, 47, 47] || startsWith v [47, 47, 33] || startsWith v [47, 42, 42] || startsWith v [47, 42, 33]

theorem C11_extract_none_without_doc (mcRe : Re) (comments : List Tok)
    (h : ∀ c ∈ comments, isDocText (strToStr c.value) = false) : extractComments mcRe comments = none := by
  have key : comments.flatMap (docLinesOf mcRe) = [] := by
    rw [List.flatMap_eq_nil_iff]
    intro c hc
    have hd := h c hc
    simp only [isDocText, Bool.or_eq_false_iff] at hd
    obtain ⟨⟨⟨h1, h2⟩, h3⟩, h4⟩ := hd
    simp [docLinesOf, h1, h2, h3, h4]
  simp only [extractComments, key, joinNl]
  rfl

/-- every comment of a block contributes its lines, in order: the lines of a concatenation
    are the concatenation of the lines (no comment replaces what was collected before it) -/
theorem C11_extract_lines_append (mcRe : Re) (a b : List Tok) :
    (a ++ b).flatMap (docLinesOf mcRe) = a.flatMap (docLinesOf mcRe) ++ b.flatMap (docLinesOf mcRe) :=
  List.flatMap_append

theorem C11_keep_doxygen : Gen.keepDoxygen = ["DBL_LBRACKET", "__attribute__", "__declspec", "alignas"] := keep_doxygen_eq


theorem C11_get_doxygen_neutral (mcRe : Re) (b b1 : Buf) (d : Option String)
    (h : getDoxygen genLexCfg mcRe b = .ok (d, b1)) : tokenEofOk genLexCfg b1 = tokenEofOk genLexCfg b :=
  getDoxygen_next genLexCfg gen_rules_progress mcRe b b1 d h


theorem C11_doc_scans_preserve_tokens (mcRe : Re) (b : Buf) (t : Tok) (ts : List Tok) (b' : Buf)
    (hy : Yields genLexCfg b (t :: ts) b') :
    (∀ d b1, getDoxygen genLexCfg mcRe b = .ok (d, b1) → Yields genLexCfg b1 (t :: ts) b') ∧
    (∃ b1', Yields genLexCfg (getDoxygenAfter mcRe b).2 (t :: ts) b1' ∧ SigEq b' b1') := by
  refine ⟨fun d b1 hd => Yields.after_getDoxygen gen_rules_progress hd hy, ?_⟩
  exact Yields.sigEq hy (getDoxygenAfter_sigEq mcRe b).symm

section
open P

theorem C11_variable_doc (env : Env) (hc : env.cfg = genLexCfg) (F D : Nat) (w : World)
    (first : Tok) (pairs : List (Tok × Tok)) (ops : List Tok) (x semi : Tok) (d1 : DType) (b1 b0 bmid bx b' : Buf)
    (blk : Block) (rest : List Block) (hstack : w.stack = blk :: rest) (hk : blk.hdr.kind ≠ .cls)
    (hmu : w.muted = false) (hfa : ¬ env.faultAt = some w.delivered)
    (htok : tokenEofOk env.cfg w.buf = .ok (some first, b1))
    (hty : first.type = "NAME") (htv : identVal first.value = true)
    (hall : ∀ p ∈ pairs, p.1.type = "DBL_COLON" ∧ p.2.type = "NAME" ∧ plainVal p.2.value = true)
    (hy0 : Yields env.cfg b1 (pairs.flatMap (fun p => [p.1, p.2])) b0)
    (hops : opsHeadOk ops = true) (hopsv : ∀ o ∈ ops, o.value ≠ "auto")
    (hy : Yields env.cfg b0 ops bmid)
    (ha : applyPtrOps (.type (.mk (.name first.value none :: pairs.map (fun p => .name p.2.value none)) none false) false false)
      (ops.map (·.type)) = some d1)
    (htx : tokenEofOk env.cfg bmid = .ok (some x, bx)) (hx : x.type = "NAME") (hxv : identVal x.value = true)
    (hsemi : tokenEofOk env.cfg bx = .ok (some semi, b')) (hs : semi.type = ";")
    (hF : pairs.length + ops.length + 2 ≤ F) :
    ∃ (d : Option String) (bD : Buf) (w7 : World) (ct : CTok) (dox : Option String) (ev : Event),
      getDoxygen env.cfg env.mcRe w.buf = .ok (d, bD) ∧
      interp env (mainBody F (core F (D + 1 + 1)) none) w = (w7, .ok (.inl none)) ∧
      SigEq b' w7.buf ∧ ct.value = first.value ∧ w7.stack = { blk with loc := .tok ct.sidx } :: rest ∧
      w7.events = w.events ++ [ev] ∧ ev.kind = .item (.variable (plainVariable x d1 dox)) ∧
      ev.stateId = blk.id ∧ ev.parentId = rest.head?.map (·.id) ∧ (∀ dd, d = some dd → dox = some dd) ∧
      w7.delivered = w.delivered + 1 ∧ w7.anon = w.anon ∧ w7.muted = false ∧ w7.nextId = w.nextId :=
  toplevel_variable env (by rw [hc]; exact gen_rules_progress) F D w first pairs ops x semi d1 b1 b0 bmid bx b' blk rest hstack hk hmu hfa
    htok hty htv hall hy0 hops hopsv hy ha htx hx hxv hsemi hs hF

end

end Cxx
