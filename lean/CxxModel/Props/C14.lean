/-
  Props/C14.lean — C14: unparsed values carry exactly the source tokens of their expression.

  For every stream state, parser state, fuel and initial token list, whenever the collector
  ends normally:

  * `C14_balanced_contiguous`: `_consume_balanced_tokens(*init)` returns `init` followed by
    exactly the tokens the stream yielded while it ran — same text and type, same order, none
    dropped, duplicated or taken from elsewhere, except that a `]]` token closing two `[`
    (`a[b[0]]`, fused by the lexer) appears as the two `]` it stands for (`Unfused`;
    `C14_unfused_chars`: no character changes, `C14_unfused_none`: without `]]` tokens nothing
    changes) — and leaves the stream right after the last of them; no other component of the
    parser state changes;
  * `C14_value_until_contiguous`: the same for `_consume_value_until(rtoks, *terminators)`,
    whose stream ends at a look-ahead (the terminator was peeked and pushed back);
  * `C14_create_value`: `_create_value` keeps every token's text and type, in order;
  * `C14_value_sites`: the positions whose delimiters are documented as omitted apply `[1:-1]`
    (flags regenerated from the call sites on every run);
  * `C14_inner`: `[1:-1]` removes exactly the first and the last token.
  * `C14_value_stops`: on a stream that yields a value whose top level has the shape
    `TopLevel types` (tokens that are neither terminators nor openers, and bracket groups with
    properly nested content — terminators inside brackets are fine) followed by a terminator,
    `_consume_value_until` returns exactly the value's tokens and leaves the terminator in
    the stream.
  * `C14_method_noexcept_value`: one position end to end — for `noexcept ( content )` after a
    method's parameter list, with properly nested content, the `noexcept` field holds exactly
    the content tokens: the parentheses are left out and nothing else is.
  * `C14_enumerator_values`: a second position end to end, for lists of any length: every
    enumerator's value holds exactly the tokens written after its `=`, up to the `,` or `}` that
    ends it, and an enumerator without `=` has no value — whatever its neighbours hold.
  Which terminator set each position uses and values outside `TopLevel` (the `<` heuristic):
  oracle `positions` and correspondence `parse[values]` (named; not proof).
  * `C14_variable_initializer` (`Theorems/VarInit.lean`, `FieldForm.lean`, `TopLevel.lean`): a position end to
    end through the parse loop and the recursive core — in `T ptr-ops x = value ;` the one
    `on_variable` carries as value EXACTLY the tokens written between the `=` and the `;`
    (`valueOf vals`: same types and texts, same order, nothing dropped, duplicated or taken from
    the surrounding declaration), for every value of top-level shape of any length.
  * `C14_default_argument` (`Theorems/ParamForm.lean`): a position end to end through three levels of the recursive
    core — in a parameter `T ptr-ops name = value` the default is EXACTLY the tokens written
    between the `=` and the `,` / `)` that ends the parameter, for every value of top-level
    shape of any length (commas and parentheses inside brackets are part of the value).
-/
import CxxModel.Theorems.InitPre
import CxxModel.Theorems.Stream
import CxxModel.Theorems.MethodEnd
import CxxModel.Theorems.EnumList
import CxxModel.Tables
import CxxModel.Theorems.TopLevel
import CxxModel.GenCfg
import CxxModel.Theorems.ParamForm
namespace Cxx

theorem C14_balanced_contiguous (env : Env) (F : Nat) (init : List CTok) (w w' : World) (res : List CTok)
    (h : interp env (P.consumeBalancedTokens F init) w = (w', .ok res)) :
    ∃ (ts : List Tok) (cts us : List CTok), Yields env.cfg w.buf ts w'.buf ∧ SameParse w w' ∧
      cts.map CTok.tv = ts.map Tok.tv ∧ Unfused cts us ∧ res = init ++ us :=
  consumeBalanced_contiguous env F init w w' res h

theorem C14_value_until_contiguous (env : Env) (types : List String) (F : Nat) (rtoks : List CTok)
    (w w' : World) (res : List CTok)
    (h : interp env (P.consumeValueUntil F rtoks types) w = (w', .ok res)) :
    ∃ (ts : List Tok) (cts us : List CTok) (bmid : Buf), Yields env.cfg w.buf ts bmid ∧ Peeked env.cfg bmid w'.buf ∧
      SameParse w w' ∧ cts.map CTok.tv = ts.map Tok.tv ∧ Unfused cts us ∧ res = rtoks ++ us :=
  consumeValueUntil_contiguous env types F rtoks w w' res h

/-- `Unfused cts us`: `us` is `cts` with some `]]` tokens written as the two `]` they stand for
    (`a[b[0]]`); no character changes, and without `]]` tokens nothing changes at all -/
theorem C14_unfused_chars {cts us : List CTok} (h : Unfused cts us) (hv : ∀ t ∈ cts, t.type = "DBL_RBRACKET" → t.value = "]]") :
    String.join (us.map (·.value)) = String.join (cts.map (·.value)) := h.chars hv

theorem C14_unfused_none {cts us : List CTok} (h : Unfused cts us) (hn : ∀ t ∈ cts, t.type ≠ "DBL_RBRACKET") : us = cts :=
  h.none hn

theorem C14_create_value (toks : List CTok) :
    (P.createValue toks).tokens.map (fun t => (t.type, t.value)) = toks.map CTok.tv := by
  simp [P.createValue, CTok.tv, Function.comp_def]

theorem C14_inner (a z : CTok) (mid : List CTok) : P.inner (a :: (mid ++ [z])) = mid := by
  simp [P.inner]

theorem C14_value_sites :
    Gen.fnThrowSliced = true ∧ Gen.fnNoexceptSliced = true ∧ Gen.methodThrowSliced = true ∧
    Gen.methodNoexceptSliced = true ∧ Gen.decltypeSliced = true ∧ Gen.arraySizeSliced = true := value_sites_conform


theorem C14_value_stops (env : Env) (types : List String) (vals : List Tok) (term : Tok)
    (hn : TopLevel types (vals.map (·.type))) (hterm : types.contains term.type = true)
    (F : Nat) (rtoks : List CTok) (w : World) (bmid b' : Buf)
    (hy : Yields env.cfg w.buf vals bmid) (htok : tokenEofOk env.cfg bmid = .ok (some term, b'))
    (hF : vals.length + 2 ≤ F) :
    ∃ (w' : World) (res : List CTok) (t' : Tok),
      interp env (P.consumeValueUntil F rtoks types) w = (w', .ok res) ∧
      w'.buf = returnToken t' b' ∧ t'.tv = term.tv ∧ SameParse w w' ∧
      res.map CTok.tv = rtoks.map CTok.tv ++ vals.map Tok.tv := by
  cases F with
  | zero => omega
  | succ F =>
    exact consumeValueUntil_stops env types _ hn vals rfl term hterm F F rtoks w bmid b' hy htok (by omega) (by omega)

/-! non-vacuity: `f ( a , b ) + x [ 1 ]` is a value for the terminators `,` `;` although it
    contains a comma inside the parentheses -/
example : TopLevel [",", ";"] ["NAME", "(", "NAME", ",", "NAME", ")", "+", "NAME", "[", "INT_CONST_DEC", "]"] :=
  .atom _ _ (by decide) (by decide)
    (.group "(" ")" ["NAME", ",", "NAME"] ["+", "NAME", "[", "INT_CONST_DEC", "]"] (by decide) (by decide)
      (.atom _ _ (by decide) (by decide) (.atom _ _ (by decide) (by decide) (.atom _ _ (by decide) (by decide) .nil)))
      (.atom _ _ (by decide) (by decide) (.atom _ _ (by decide) (by decide)
        (.group "[" "]" ["INT_CONST_DEC"] [] (by decide) (by decide) (.atom _ _ (by decide) (by decide) .nil) .nil))))


theorem C14_method_noexcept_value (env : Env) (G : Nat) (c : P.Core) (m : Function) (w : World) (kw op : Tok) (b1 b2 b' : Buf)
    (content : List Tok) (closer : Tok)
    (h1 : tokenEofOk env.cfg w.buf = .ok (some kw, b1)) (hk : kw.value = "noexcept")
    (h2 : tokenEofOk env.cfg b1 = .ok (some op, b2)) (ho : op.type = "(")
    (hy : Yields env.cfg b2 (content ++ [closer]) b') (hn : Nested (content.map (·.type))) (hc : closer.type = ")")
    (hG : content.length + 1 ≤ G) :
    ∃ (w' : World) (v : Value), interp env (P.methodEndBody (G + 1) c m) w = (w', .ok (.inl { m with noexcept := some v })) ∧
      w'.buf = b' ∧ SameParse w w' ∧ v.tokens.map (fun t => (t.type, t.value)) = content.map Tok.tv :=
  methodEndBody_noexcept env G c m w kw op b1 b2 b' content closer h1 hk h2 ho hy hn hc hG


theorem C14_enumerator_values (env : Env) (hp : RulesProgress env.cfg = true) (F : Nat) (pre : List EItem) (last : EItem)
    (more : List Tok) (w : World) (bEnd : Buf)
    (hall : ∀ i ∈ pre, i.OK ∧ i.sep.type = "," ∧ i.toks.length + 2 ≤ F)
    (hlast : last.OK ∧ last.sep.type = "}" ∧ last.toks.length + 2 ≤ F)
    (hy : Yields env.cfg w.buf ((pre ++ [last]).flatMap EItem.toks ++ more) bEnd) (hF : pre.length + 1 ≤ F) :
    ∃ (w' : World) (vs : List Enumerator), interp env (P.parseEnumeratorList F) w = (w', .ok vs) ∧
      vs.map Enumerator.nv = (pre ++ [last]).map EItem.nv := by
  obtain ⟨w', vs, _, h, hnv, _⟩ := enumList_last env hp F pre last more w bEnd hall hlast hy hF
  exact ⟨w', vs, h, hnv⟩

section
open P

theorem C14_variable_initializer (env : Env) (hc : env.cfg = genLexCfg) (G D : Nat) (w : World)
    (first : Tok) (pairs : List (Tok × Tok)) (ops : List Tok) (x eq : Tok) (vals : List Tok) (semi : Tok) (d1 : DType) (b1 b0 bmid bx bq bv b' : Buf)
    (blk : Block) (rest : List Block) (hstack : w.stack = blk :: rest) (hk : blk.hdr.kind ≠ .cls)
    (hmu : w.muted = false) (hfa : ¬ env.faultAt = some w.delivered)
    (htok : tokenEofOk env.cfg w.buf = .ok (some first, b1))
    (hty : first.type = "NAME") (htv : identVal first.value = true)
    (hall : ∀ p ∈ pairs, p.1.type = "DBL_COLON" ∧ p.2.type = "NAME" ∧ plainVal p.2.value = true)
    (hy0 : Yields env.cfg b1 (pairs.flatMap (fun p => [p.1, p.2])) b0)
    (hops : opsHeadOk ops = true) (hopsv : ∀ o ∈ ops, o.value ≠ "auto")
    (hy : Yields env.cfg b0 ops bmid)
    (ha : applyPtrOps (.type (.mk (.name first.value none :: pairs.map (fun p => .name p.2.value none)) none false) false false)
      (ops.map (·.type)) = some d1)
    (htx : tokenEofOk env.cfg bmid = .ok (some x, bx)) (hx : x.type = "NAME") (hxv : identVal x.value = true)
    (hteq : tokenEofOk env.cfg bx = .ok (some eq, bq)) (heq : eq.type = "=")
    (hyv : Yields env.cfg bq vals bv) (htl : TopLevel [",", ";"] (vals.map (·.type)))
    (hsemi : tokenEofOk env.cfg bv = .ok (some semi, b')) (hs : semi.type = ";")
    (hF : pairs.length + ops.length + 2 ≤ G + 1) (hFv : vals.length + 1 ≤ G) :
    ∃ (d : Option String) (bD : Buf) (w7 : World) (ct : CTok) (dox : Option String) (ev : Event),
      getDoxygen env.cfg env.mcRe w.buf = .ok (d, bD) ∧
      interp env (mainBody (G + 1) (core (G + 1) (D + 1 + 1)) none) w = (w7, .ok (.inl none)) ∧
      SigEq b' w7.buf ∧ ct.value = first.value ∧ w7.stack = { blk with loc := .tok ct.sidx } :: rest ∧
      w7.events = w.events ++ [ev] ∧ ev.kind = .item (.variable (initVariable x d1 vals dox)) ∧
      ev.stateId = blk.id ∧ ev.parentId = rest.head?.map (·.id) ∧ (∀ dd, d = some dd → dox = some dd) ∧
      w7.delivered = w.delivered + 1 ∧ w7.anon = w.anon ∧ w7.muted = false ∧ w7.nextId = w.nextId :=
  toplevel_variable_init env (by rw [hc]; exact gen_rules_progress) G D w first pairs ops x eq vals semi d1 b1 b0 bmid bx bq bv b' blk rest hstack hk hmu hfa
    htok hty htv hall hy0 hops hopsv hy ha htx hx hxv hteq heq hyv htl hsemi hs hF hFv

end

section
open P

theorem C14_default_argument (env : Env) (F D : Nat) (p : PItem) (ty : DType) (hok : p.OK ty)
    (eq : Tok) (vals : List Tok) (sep : Tok) (w : World) (bmid bq bv b' : Buf)
    (hy : Yields env.cfg w.buf p.toks bmid) (hte : tokenEofOk env.cfg bmid = .ok (some eq, bq)) (heq : eq.type = "=")
    (hyv : Yields env.cfg bq vals bv) (htl : TopLevel [",", ")"] (vals.map (·.type)))
    (htsep : tokenEofOk env.cfg bv = .ok (some sep, b'))
    (hsep : sep.type = "," ∨ sep.type = ")") (hF : p.pairs.length + p.ops.length + 2 ≤ F + 1) (hFv : vals.length + 1 ≤ F) :
    ∃ (w' : World) (t' : Tok),
      interp env (parseParameterStep (F + 1) (core (F + 1) (D + 1 + 1)) none true ")") w =
        (w', .ok (.mk ty (some p.name.value) (some (valueOf vals)) false, none)) ∧
      SameButLog w w' ∧ tokenEofOk env.cfg w'.buf = .ok (some t', b') ∧ t'.type = sep.type ∧ t'.value = sep.value :=
  parameter_default env F D p ty hok eq vals sep w bmid bq bv b' hy hte heq hyv htl htsep hsep hF hFv

end


section
open P

/-- **`S prefix x = value ;` through `parse()`'s loop**, any type specifier, any declarator prefix: exactly ONE `on_variable` whose
    value is EXACTLY the tokens written between the `=` and the `;` (any value of top-level shape, any length) -/
theorem C14_initializer_general (env : Env) (hp : RulesProgress env.cfg = true) (G D : Nat) (w : World)
    (toks : List Tok) (first : Tok) (trest : List Tok) (segs : List PQSeg) (cst vol : Bool) (pre : List (String × String)) (ops : List Tok) (x eq : Tok) (vals : List Tok) (semi : Tok) (d1 : DType) (b1 b0 bmid bx bq bv b' : Buf)
    (blk : Block) (rest : List Block) (hstack : w.stack = blk :: rest) (hk : blk.hdr.kind ≠ .cls)
    (hmu : w.muted = false) (hfa : ¬ env.faultAt = some w.delivered)
    (hspecT : TypeSpecR env (G + 1) D toks segs cst vol) (htoks : toks = first :: trest) (hfirst : specFirst first.type = true)
    (htok : tokenEofOk env.cfg w.buf = .ok (some first, b1))
    (hy0 : Yields env.cfg b1 trest b0)
    (hhead : ∀ p ∈ pre.head?, declStart p.1 = true ∧ p.2 ≠ "auto")
    (hy : Yields env.cfg b0 ops bmid)
    (hpre : PrefixSpec env (G + 1) (D + 1) (.type (.mk segs none false) cst vol) pre d1) (hfn : isFnType d1 = false) (hops : tvs ops = pre)
    (htx : tokenEofOk env.cfg bmid = .ok (some x, bx)) (hx : x.type = "NAME") (hxv : identVal x.value = true)
    (hteq : tokenEofOk env.cfg bx = .ok (some eq, bq)) (heq : eq.type = "=")
    (hyv : Yields env.cfg bq vals bv) (htl : TopLevel [",", ";"] (vals.map (·.type)))
    (hsemi : tokenEofOk env.cfg bv = .ok (some semi, b')) (hs : semi.type = ";")
    (hFv : vals.length + 1 ≤ G) :
    ∃ (d : Option String) (bD : Buf) (w7 : World) (ct : CTok) (dox : Option String) (ev : Event),
      getDoxygen env.cfg env.mcRe w.buf = .ok (d, bD) ∧
      interp env (mainBody (G + 1) (core (G + 1) (D + 1 + 1)) none) w = (w7, .ok (.inl none)) ∧
      SigEq b' w7.buf ∧ ct.value = first.value ∧ w7.stack = { blk with loc := .tok ct.sidx } :: rest ∧
      w7.events = w.events ++ [ev] ∧ ev.kind = .item (.variable (initVariable x d1 vals dox)) ∧
      ev.stateId = blk.id ∧ ev.parentId = rest.head?.map (·.id) ∧ (∀ dd, d = some dd → dox = some dd) ∧
      w7.delivered = w.delivered + 1 ∧ w7.anon = w.anon ∧ w7.muted = false ∧ w7.nextId = w.nextId :=
  toplevel_variable_init_pre env hp G D w toks first trest segs cst vol pre ops x eq vals semi d1 b1 b0 bmid bx bq bv b' blk rest hstack hk hmu hfa hspecT htoks hfirst htok hy0 hhead hy hpre hfn hops htx hx hxv hteq heq hyv htl hsemi hs hFv

end

end Cxx
