/-
  Props/C08.lean — C08: the lexer partitions the text: nothing lost, lines counted, literals whole.

  Proved here (for every rule set, hence for the regenerated one, and every input):
  * `C08_token_is_prefix` / `C08_partition`: each raw token is exactly the text at its
    position; the remaining input is `gap ++ value ++ rest`; the tokens of a whole text, with
    the gaps between them (ignored characters and matches of rules whose action returns
    nothing: `#line`, `#warning`), reproduce the input — nothing is lost, duplicated or
    reordered; `lexpos` is the position of the token;
  * `C08_keyword_never_name`: a token of type NAME never has a keyword as its text;
  * `C08_matcher_is_paths`: the executable matcher is the priority (`paths`) semantics.
  * `C08_rules_count_lines` + `C08_lineno`: (c) the regenerated rule table passes the
    line-count check (every rule either cannot match a newline, or counts the newlines of its
    match, or matches newlines only and adds the length; ignored characters and literals are
    not newlines), and therefore after every token the line counter has advanced by exactly
    the newlines of the text consumed, the token's `lineno` being the counter where it starts.
  Maximal munch (e) and the literal classes (f) are carried by the correspondence `lex` and
  the oracles (named in the evidence; not proof yet).
-/
import CxxModel.Theorems.LexPartition
import CxxModel.GenCfg
import CxxModel.Tables
namespace Cxx

theorem C08_token_is_prefix (cfg : LexCfg) (fuel : Nat) (st : LexState) (t : RawTok) (st' : LexState)
    (h : plyToken cfg fuel st = .tok t st') :
    ∃ gap, st.rest = gap ++ t.value ++ st'.rest ∧ t.lexpos = st.pos + gap.length ∧
      st'.pos = st.pos + gap.length + t.value.length :=
  plyToken_partition cfg fuel st t st' h

theorem C08_partition (cfg : LexCfg) (fuel : Nat) (text : Str) (filename : Option String)
    (toks : List RawTok) (err : Option LexErr) (done : Bool)
    (h : lexAll cfg fuel { rest := text, filename := filename } [] = (toks, err, done)) :
    ∃ (gaps : List (Str × RawTok)) (tail : Str), toks = gaps.map (·.2) ∧ text = interleave gaps ++ tail := by
  obtain ⟨gaps, tail, h1, h2⟩ := lexAll_partition cfg fuel _ [] toks err done h
  exact ⟨gaps, tail, by simpa using h1, h2⟩

/-- the NAME rule retags keywords: a NAME token's text is not a keyword -/
theorem C08_keyword_never_name (kw : List String) (hk : kw.contains "NAME" = false) (r : Rule) (v : Str)
    (st0 : LexState) (rest : Str) (t : RawTok) (st' : LexState)
    (ha : r.action = .keyword) (h : runAction kw r v st0 rest = .tok t st') (ht : t.type = "NAME") :
    kw.contains (strOfStr v) = false := by
  unfold runAction at h
  simp only [ha] at h
  split at h
  · rename_i hc
    injection h with h1 _
    subst h1
    simp only at ht
    rw [ht] at hc
    rw [hk] at hc
    cases hc
  · rename_i hc; simpa using hc

/-- and for the regenerated tables: "NAME" is not a keyword, the NAME rule has that action -/
theorem C08_name_rule :
    Gen.keywords.contains "NAME" = false ∧
    (Gen.rules.filter (fun r => r.tokType == "NAME")).all (fun r => r.action == .keyword) = true := by
  decide +kernel

theorem C08_matcher_is_paths (r : Re) (s : Str) : rmatchK r s = (paths r s).head? := rmatchK_eq_rmatch r s


theorem C08_rules_count_lines : LineCountOK genLexCfg = true := gen_line_count_ok

theorem C08_lineno (fuel : Nat) (st : LexState) (t : RawTok) (st' : LexState)
    (h : plyToken genLexCfg fuel st = .tok t st') :
    ∃ gap, st.rest = gap ++ t.value ++ st'.rest ∧ t.lineno = st.lineno + countNl gap ∧
      st'.lineno = st.lineno + countNl gap + countNl t.value :=
  plyToken_lineno genLexCfg C08_rules_count_lines fuel st t st' h

end Cxx
