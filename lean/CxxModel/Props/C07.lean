/-
  Props/C07.lean — C07: parsing time is polynomially bounded in input size (lexer part).

  * `C07_all_rules_poly`: every one of the lexer's rules (regenerated from the live master
    regular expression on every run) passes the analysis `polyOK`: each unbounded repetition
    has a body that can match in at most one way from any position and is not nullable.
    (On the pinned tree the multi-line comment rule failed it — `2^k` on `"/*" + "\n"*k` —
    found by this analysis and repaired by a `fix:` commit.)
  * `C07_paths_bound`, `C07_cost_bound` (soundness, every input string): for a rule that
    passes, the number of ways it can match and the size of the *complete* backtracking
    search (every continuation failing) are bounded by `c·(|s|+1)^d` with `(c, d)` computed
    from the rule — no input family is exponential.
  * `C07_matcher_is_paths`: the model matcher is the priority semantics the bounds are about;
    `C07_rep_bodies_nonnull`: no repetition body is nullable (CPython's empty-iteration guard
    never fires, so it need not be modelled).
  * `C07_collectors_linear`: the token collectors (`_discard_contents`,
    `_consume_balanced_tokens` and every loop of the shape "read one token, decide") run their
    body exactly once per token they take from the stream: the number of iterations equals
    the number of tokens consumed, no token is read twice.
  * `C07_rules_make_progress` + `C07_lexer_total`: no rule of the regenerated table can match
    the empty string and none has an unmodelled action, hence every call of `Lexer.token`
    makes progress: it returns a token, reports a lexical error, or reaches the real end of the
    input — the model's bound on the loop is never what ends it.
  Recorded assumption: CPython's `sre` takes no more steps than naive backtracking.  The
  parser's re-scans and trial parses are exercised by the timing oracle (not proof).
-/
import CxxModel.Cost
import CxxModel.Gen.LexRules
import CxxModel.Theorems.Stream
import CxxModel.GenCfg
namespace Cxx

def repBodiesNonNull : Re → Bool
  | .seq a b => repBodiesNonNull a && repBodiesNonNull b
  | .alt a b => repBodiesNonNull a && repBodiesNonNull b
  | .nla a => repBodiesNonNull a
  | .rep a _ _ => repBodiesNonNull a && !nullable a
  | _ => true

theorem C07_all_rules_poly : Gen.rules.all (fun r => polyOK r.re) = true := by decide +kernel

theorem C07_rep_bodies_nonnull : Gen.rules.all (fun r => repBodiesNonNull r.re) = true := by decide +kernel

theorem C07_paths_bound (r : Rule) (hr : r ∈ Gen.rules) (s : Str) :
    (paths r.re s).length ≤ (pcoef r.re).1 * (s.length + 1) ^ (pcoef r.re).2 := by
  have h := C07_all_rules_poly
  simp only [List.all_eq_true] at h
  exact polyOK_paths_le r.re (h r hr) s

theorem C07_cost_bound (r : Rule) (hr : r ∈ Gen.rules) (s : Str) :
    cost r.re s ≤ (ccoef r.re).1 * (s.length + 1) ^ (ccoef r.re).2 := by
  have h := C07_all_rules_poly
  simp only [List.all_eq_true] at h
  exact polyOK_cost_le r.re (h r hr) s

theorem C07_matcher_is_paths (r : Re) (s : Str) : rmatchK r s = (paths r s).head? := rmatchK_eq_rmatch r s

/-! the analysis is not vacuous: it rejects the classic ambiguous star and the pinned comment rule's shape -/
example : polyOK (.rep (.alt (.chars false [(97, 97)]) (.seq (.chars false [(97, 97)]) (.chars false [(97, 97)]))) 0 none) = false := by decide
example : polyOK (.rep (.alt (.chars true [(42, 42)]) (.chars false [(13, 13), (10, 10)])) 0 none) = false := by decide
/-- the largest degree over all rules (how polynomial "polynomial" is) -/
example : (Gen.rules.map (fun r => (ccoef r.re).2)).foldl max 0 ≤ 6 := by decide +kernel


/-- the number of tokens a run of the step function consumes -/
theorem RunsTo.length_pos {σ α : Type} {step : σ → CTok → Except Err (σ ⊕ α)} {s : σ} {cts : List CTok} {a : α}
    (h : RunsTo step s cts a) : 0 < cts.length := by
  cases h <;> simp

theorem C07_collectors_linear (env : Env) {σ α : Type} (step : σ → CTok → Except Err (σ ⊕ α))
    (F : Nat) (s : σ) (w w' : World) (a : α)
    (h : interp env (P.loopN F s (fun s => do let tok ← P.token; P.liftE (step s tok))) w = (w', .ok a)) :
    ∃ (ts : List Tok) (cts : List CTok), Yields env.cfg w.buf ts w'.buf ∧ RunsTo step s cts a ∧
      cts.length = ts.length ∧ 0 < ts.length := by
  obtain ⟨ts, cts, hy, _, htv, hr⟩ := tokLoop_contiguous env step F s w w' a h
  have hl : cts.length = ts.length := by
    have := congrArg List.length htv
    simpa using this
  exact ⟨ts, cts, hy, hr, hl, by rw [← hl]; exact hr.length_pos⟩


theorem C07_rules_make_progress : RulesProgress genLexCfg = true := gen_rules_progress

theorem C07_lexer_total (st : LexState) :
    plyTokenF genLexCfg st ≠ .opaque ∧ (∀ st', plyTokenF genLexCfg st = .eof st' → st'.rest = []) :=
  plyTokenF_total genLexCfg C07_rules_make_progress st

end Cxx
