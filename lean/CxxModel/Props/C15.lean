/-
  Props/C15.lean — C15: parses are isolated from one another.

  On the store model of `Isolation.lean`, for every step function, every number of parses
  and every schedule:
  * `C15_noninterference`: each parse's private state after any interleaving equals the state
    of its solo run after the same number of its own steps;
  * `C15_shared_constant`: the shared part is never changed;
  * `C15_history_independent`: earlier parses (successful or failed) do not matter.
  The hypothesis built into the model — a step writes only its own private part — is what
  ties it to the code, and it is checked, not assumed: the extractor lists every module- and
  class-level object of the package, and the correspondence fingerprints them (deeply, by
  value) before and after every parse of generated histories, nested parses and threads.
  The GIL, bytecode atomicity and the one-time race in `PlyLexer.__new__` are runtime
  behaviour the model does not exhibit (named; exercised by the oracle with 16 threads).
-/
import CxxModel.Isolation
namespace Cxx

theorem C15_noninterference {S P : Type} (step : S → P → P) (st : Store S P) (sched : List Nat) (i : Nat) :
    (runSchedule step st sched).priv i = solo step st.shared (st.priv i) (sched.count i) :=
  noninterference step st sched i

theorem C15_shared_constant {S P : Type} (step : S → P → P) (st : Store S P) (sched : List Nat) :
    (runSchedule step st sched).shared = st.shared := shared_constant step st sched

theorem C15_history_independent {S P : Type} (step : S → P → P) (st : Store S P) (before : List Nat) (i n : Nat)
    (hb : i ∉ before) :
    (runSchedule step st (before ++ List.replicate n i)).priv i = solo step st.shared (st.priv i) n :=
  history_independent step st before i n hb

/-! non-vacuity: two counters interleaved -/
example :
    let st : Store Nat Nat := { shared := 5, priv := fun _ => 0 }
    (runSchedule (fun s p => p + s) st [0, 1, 0, 0, 1]).priv 0 = 15 ∧
    (runSchedule (fun s p => p + s) st [0, 1, 0, 0, 1]).priv 1 = 10 := by decide

end Cxx
