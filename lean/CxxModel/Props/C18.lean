/-
  Props/C18.lean — C18: parser options change exactly what they document.

  * `C18_verbose_irrelevant` (every client program, every input): with and without `verbose`
    the delivered stream, the anonymous ids, the block stack and the outcome are identical;
    only the debug log differs — and (`C18_verbose_wrapper`) whether `parse()` wraps the error.
  * `C18_void_conversion`: the only effect of `convert_void_to_zero_params` in the parser model
    is `applyVoidOption` at the end of `_parse_parameters`: off = the list as written; on = a
    lone `void` parameter list becomes empty, every other list is unchanged.
  * `C18_preprocessor_once`: a configured preprocessor is called exactly once with
    (filename, content) and its return value is what is parsed (Entry model).
-/
import CxxModel.Theorems.Verbose
import CxxModel.Parser.Decl
import CxxModel.Entry
namespace Cxx

theorem C18_verbose_irrelevant (env : Env) (v : Bool) (filename : String) (content : Str) (p : Prog Unit) :
    let o := interp env p (initWorld env filename content).1
    let o' := interp (env.withVerbose v) p (initWorld (env.withVerbose v) filename content).1
    o.1.events = o'.1.events ∧ o.1.anon = o'.1.anon ∧ o.1.stack = o'.1.stack ∧ o.2 = o'.2 := by
  have hi : (initWorld (env.withVerbose v) filename content) = (initWorld env filename content) := rfl
  rw [hi]
  have hrefl : VSim (initWorld env filename content).1 (initWorld env filename content).1 :=
    ⟨rfl, rfl, rfl, rfl, rfl, rfl, rfl, rfl, rfl, rfl, rfl⟩
  obtain ⟨hs, hr⟩ := verbose_sim env v p _ _ hrefl
  exact ⟨hs.events, hs.anon, hs.stack, hr⟩

theorem C18_verbose_parser (env : Env) (v : Bool) (filename : String) (content : Str) (F D : Nat) :
    (interp env (P.parserProg F D) (initWorld env filename content).1).1.events =
      (interp (env.withVerbose v) (P.parserProg F D) (initWorld (env.withVerbose v) filename content).1).1.events :=
  (C18_verbose_irrelevant env v filename content _).1

/-- the void option: off = identity -/
theorem C18_void_off (ps : List Param) : P.applyVoidOption false ps = ps := by
  unfold P.applyVoidOption
  split <;> simp

/-- on = a lone `void` list becomes empty, anything else is unchanged -/
theorem C18_void_on (ps : List Param) :
    P.applyVoidOption true ps =
      (match ps with
        | [p0] => if P.isLoneVoid p0.type then [] else ps
        | _ => ps) := by
  unfold P.applyVoidOption
  split <;> simp

/-- hence: the result with the option on is the result with it off, with lone-void lists emptied -/
theorem C18_void_conversion (ps : List Param) :
    P.applyVoidOption true ps = P.applyVoidOption true (P.applyVoidOption false ps) := by
  rw [C18_void_off]

theorem C18_preprocessor_once (env : EntryEnv) (pp : String → Option Str → Str) (hpp : env.preprocessor = some pp)
    (filename : String) (content : Option Str) (enc : Option String) :
    cxxParserInit env filename content enc = (.content (pp filename content), [(filename, content)]) := by
  simp [cxxParserInit, hpp]

end Cxx
