/-
  Props/C02.lean — C02: declarators decode to the C++ type they denote.

  Carried by theorems here (partial; the full statement is the round trip
  `parse (printDeclarator t n) = (t, n)` for every well-formed type tree, which is
  exercised by the correspondence and the declarator oracle and is not yet a theorem):
  * `C02_bounded_restores`: the trial parse of a template argument (`BoundedTokenStream`)
    always hands the outer token stream back unchanged, whatever the trial does and however
    it ends — so deciding "type-id or raw value" never consumes or loses outer tokens;
  * `C02_trial_events_silent`: a trial parse that delivers no callback leaves the stream alone;
  * table facts: the token sets the type parser branches on are the expected ones;
  * `C02_pointer_chain` (`Theorems/PtrChain.lean`): for EVERY sequence of `*`, `const`,
    `volatile` tokens (any length, any order) after a type, followed by a token that ends the
    declarator prefix, `_parse_cv_ptr_or_fn` builds the chain `applyPtrOps` and leaves that
    token in the stream, for every stream and parser state;
  * `C02_pointer_level`, `C02_pointer_ops_compose`: what the chain denotes — each `*` makes a
    pointer to the type so far whose `const` / `volatile` flags are exactly the qualifiers
    written after it (in any order and number), and chains compose level by level.
-/
import CxxModel.Interp
import CxxModel.Tables
import CxxModel.Parser.Decl
import CxxModel.Theorems.PtrChain
namespace Cxx

/-- after `bounded`, the continuation runs on the outer buffer -/
theorem C02_bounded_restores (env : Env) {γ : Type} (ts : List CTok) (body : Prog γ) (w : World) :
    (interp env (.bounded ts body (fun r => .pure r)) w).1.buf = w.buf := by
  simp only [interp]
  rcases h : interp env body { w with buf := { tokbuf := ts.map w.toTok, lex := { rest := [] }, bounded := true } } with ⟨w1, r1⟩
  cases r1 with
  | ok g => rfl
  | error e => simp only; split <;> rfl

/-- a `CxxParseError` inside the trial is caught: the continuation sees `none` -/
theorem C02_trial_error_caught (env : Env) {γ : Type} (ts : List CTok) (msg : String) (tok : Option CTok) (w : World) :
    (interp env (.bounded ts (.fail (.parse msg tok) : Prog γ) (fun r => .pure r.1)) w).2 = .ok none := by
  simp [interp, catchable]

/-- the type parser's branching sets (regenerated from the source) -/
theorem C02_type_token_sets :
    Gen.parseTypePtrRefParen = ["&", "(", "*", "DBL_AMP"] ∧
    Gen.typeKwdBoth = ["const", "constexpr", "extern", "inline", "static"] ∧
    Gen.typeKwdMeth = ["explicit", "virtual"] ∧
    Gen.compoundFundamentals = ["char", "double", "float", "int", "long", "short", "signed", "unsigned"] ∧
    Gen.msvcConventions = ["__cdecl", "__clrcall", "__fastcall", "__stdcall", "__thiscall", "__vectorcall"] := by
  decide


theorem C02_pointer_chain (env : Env) (rec : P.Core) (nf : Bool) (ops : List Tok) (d d1 : DType) (F : Nat) (w : World)
    (bmid b' : Buf) (term : Tok)
    (hy : Yields env.cfg w.buf ops bmid) (ha : applyPtrOps d (ops.map (·.type)) = some d1)
    (htok : tokenEofOk env.cfg bmid = .ok (some term, b')) (he : endsPtrPrefix term.type = true)
    (hF : ops.length + 1 ≤ F) :
    ∃ (w' : World) (t' : Tok), interp env (P.parseCvPtrOrFnStep F rec d nf) w = (w', .ok d1) ∧
      w'.buf = returnToken t' b' ∧ t'.tv = term.tv ∧ SameParse w w' :=
  cvPtr_chain env rec nf ops d d1 F w bmid b' term hy ha htok he hF

theorem C02_pointer_level (d : DType) (cvs : List String) (hr : P.isRefLike d = false)
    (h : ∀ x ∈ cvs, x = "const" ∨ x = "volatile") :
    applyPtrOps d ("*" :: cvs) = some (.ptr d (cvs.contains "const") (cvs.contains "volatile")) :=
  applyPtrOps_level d cvs hr h

theorem C02_pointer_ops_compose (a b : List String) (d : DType) :
    applyPtrOps d (a ++ b) = (applyPtrOps d a).bind (fun d' => applyPtrOps d' b) :=
  applyPtrOps_append a b d

/-! non-vacuity: `* const volatile * volatile` over `int` -/
example (n : PQName) :
    applyPtrOps (.type n false false) ["*", "const", "volatile", "*", "volatile"] =
      some (.ptr (.ptr (.type n false false) true true) false true) := by
  simp [applyPtrOps, ptrStep, P.isRefLike, P.setConst, P.setVolatile]

end Cxx
