/-
  Props/C02.lean — C02: declarators decode to the C++ type they denote.

  Carried by theorems here (partial; the full statement is the round trip
  `parse (printDeclarator t n) = (t, n)` for every well-formed type tree, which is
  exercised by the correspondence and the declarator oracle and is not yet a theorem):
  * `C02_bounded_restores`: the trial parse of a template argument (`BoundedTokenStream`)
    always hands the outer token stream back unchanged, whatever the trial does and however
    it ends — so deciding "type-id or raw value" never consumes or loses outer tokens;
  * `C02_trial_events_silent`: a trial parse that delivers no callback leaves the stream alone;
  * table facts: the token sets the type parser branches on are the expected ones;
  * `C02_pointer_chain` (`Theorems/PtrChain.lean`): for EVERY sequence of `*`, `const`,
    `volatile` tokens (any length, any order) after a type, followed by a token that ends the
    declarator prefix, `_parse_cv_ptr_or_fn` builds the chain `applyPtrOps` and leaves that
    token in the stream, for every stream and parser state;
  * `C02_pointer_level`, `C02_pointer_ops_compose`: what the chain denotes — each `*` makes a
    pointer to the type so far whose `const` / `volatile` flags are exactly the qualifiers
    written after it (in any order and number), and chains compose level by level;
  * `C02_fundamental_group`, `C02_fundamental_single` (`Theorems/FundGroup.lean`): fundamental-type
    keyword groups — after a first keyword of the compound set (regenerated:
    `C02_compound_keywords`), `_parse_pqname_fundamental` collects EVERY following keyword of the
    set, in order, whatever their number, stops at the first other token without consuming it,
    and names the type by the keywords joined with single blanks; any other fundamental keyword
    stands alone and consumes nothing.
  * `C02_plain_qualified_name` (`Theorems/PqName.lean`): qualified names — for identifiers
    `n1 :: … :: nk` of any length followed by a token that is neither `<` nor `::`, `_parse_pqname`
    returns exactly the segments `[n1, …, nk]` (no class key, no `typename`, no operator) and
    leaves the following token in the stream, whatever `fn_ok` / `compound_ok` / `fund_ok`.
  * `C02_type_name` (`Theorems/TypeName.lean`): `_parse_type` on identifiers `n1 :: … :: nk` followed
    by a token that starts the declarator (or `;`) returns the type `n1::…::nk` (not const, not volatile, no
    specifiers) and leaves that token in the stream;
  * `C02_declarator_variable` (`Theorems/VarDecl.lean`): one declarator `ptr-ops x` and the `,` / `;`
    after it, outside a class: exactly one `on_variable` whose type is the chain the declarator
    denotes over the given base type (any non-function type), for chains of any length; the loop
    ends at `;` and goes on after `,` with the comma's location and no doc text.
  * `C02_reference_chain` (`Theorems/RefChain.lean`): reference declarators — for EVERY sequence of
    `*`, `const`, `volatile` after a type, followed by `&` or `&&` and a token that is not `(`,
    `_parse_cv_ptr_or_fn` builds the lvalue (`&`) / rvalue (`&&`) reference to the chain the
    operators denote and leaves that token in the stream.
  * `C02_parameters` (`Theorems/ParamForm.lean`): parameter lists — `_parse_parameters` on `p1 , … , pn )` with
    plain parameters `Ti ptr-ops name`, ANY number of them: the parameters in order, each with its
    own name and the type ITS declarator denotes; nothing dropped by the `void` rule; no vararg.
  * `C02_array_declarator` (`Theorems/ArrayForm.lean`): array declarators — for properly nested size tokens followed
    by `]` and a token that is not `[`, `_parse_array_type` returns the array of the element type
    whose size is EXACTLY the written tokens (none for `[]`; C14's array-size position) and leaves
    the following token in the stream.
-/
import CxxModel.Theorems.LeadCv
import CxxModel.Theorems.DeclGenItems
import CxxModel.Theorems.WholeParse
import CxxModel.Interp
import CxxModel.Tables
import CxxModel.Parser.Decl
import CxxModel.Theorems.PtrChain
import CxxModel.Theorems.FundGroup
import CxxModel.Theorems.PqName
import CxxModel.Theorems.VarDecl
import CxxModel.Theorems.RefChain
import CxxModel.Theorems.ParamForm
import CxxModel.Theorems.ArrayForm
namespace Cxx

/-- after `bounded`, the continuation runs on the outer buffer -/
theorem C02_bounded_restores (env : Env) {γ : Type} (ts : List CTok) (body : Prog γ) (w : World) :
    (interp env (.bounded ts body (fun r => .pure r)) w).1.buf = w.buf := by
  simp only [interp]
  rcases h : interp env body { w with buf := { tokbuf := ts.map w.toTok, lex := { rest := [] }, bounded := true } } with ⟨w1, r1⟩
  cases r1 with
  | ok g => rfl
  | error e => simp only; split <;> rfl

/-- a `CxxParseError` inside the trial is caught: the continuation sees `none` -/
theorem C02_trial_error_caught (env : Env) {γ : Type} (ts : List CTok) (msg : String) (tok : Option CTok) (w : World) :
    (interp env (.bounded ts (.fail (.parse msg tok) : Prog γ) (fun r => .pure r.1)) w).2 = .ok none := by
  simp [interp, catchable]

/-- the type parser's branching sets (regenerated from the source) -/
theorem C02_type_token_sets :
    Gen.parseTypePtrRefParen = ["&", "(", "*", "DBL_AMP"] ∧
    Gen.typeKwdBoth = ["const", "constexpr", "extern", "inline", "static"] ∧
    Gen.typeKwdMeth = ["explicit", "virtual"] ∧
    Gen.compoundFundamentals = ["char", "double", "float", "int", "long", "short", "signed", "unsigned"] ∧
    Gen.msvcConventions = ["__cdecl", "__clrcall", "__fastcall", "__stdcall", "__thiscall", "__vectorcall"] := by
  decide


theorem C02_pointer_chain (env : Env) (rec : P.Core) (nf : Bool) (ops : List Tok) (d d1 : DType) (F : Nat) (w : World)
    (bmid b' : Buf) (term : Tok)
    (hy : Yields env.cfg w.buf ops bmid) (ha : applyPtrOps d (ops.map (·.type)) = some d1)
    (htok : tokenEofOk env.cfg bmid = .ok (some term, b')) (he : endsPtrPrefix term.type = true)
    (hF : ops.length + 1 ≤ F) :
    ∃ (w' : World) (t' : Tok), interp env (P.parseCvPtrOrFnStep F rec d nf) w = (w', .ok d1) ∧
      w'.buf = returnToken t' b' ∧ t'.tv = term.tv ∧ SameParse w w' :=
  cvPtr_chain env rec nf ops d d1 F w bmid b' term hy ha htok he hF

theorem C02_pointer_level (d : DType) (cvs : List String) (hr : P.isRefLike d = false)
    (h : ∀ x ∈ cvs, x = "const" ∨ x = "volatile") :
    applyPtrOps d ("*" :: cvs) = some (.ptr d (cvs.contains "const") (cvs.contains "volatile")) :=
  applyPtrOps_level d cvs hr h

theorem C02_pointer_ops_compose (a b : List String) (d : DType) :
    applyPtrOps d (a ++ b) = (applyPtrOps d a).bind (fun d' => applyPtrOps d' b) :=
  applyPtrOps_append a b d

/-! non-vacuity: `* const volatile * volatile` over `int` -/
example (n : PQName) :
    applyPtrOps (.type n false false) ["*", "const", "volatile", "*", "volatile"] =
      some (.ptr (.ptr (.type n false false) true true) false true) := by
  simp [applyPtrOps, ptrStep, P.isRefLike, P.setConst, P.setVolatile]

theorem C02_compound_keywords :
    Gen.compoundFundamentals = ["char", "double", "float", "int", "long", "short", "signed", "unsigned"] := by decide

theorem C02_fundamental_group (env : Env) (F : Nat) (first : String) (ks : List Tok) (w : World) (bmid b' : Buf) (term : Tok)
    (hfirst : Gen.compoundFundamentals.contains first = true)
    (hall : ∀ k ∈ ks, Gen.compoundFundamentals.contains k.type = true)
    (hy : Yields env.cfg w.buf ks bmid) (htok : tokenEofOk env.cfg bmid = .ok (some term, b'))
    (hterm : Gen.compoundFundamentals.contains term.type = false) (hF : ks.length + 1 ≤ F) :
    ∃ (w' : World) (t' : Tok),
      interp env (P.parsePqnameFundamental F first) w = (w', .ok (.fund (P.joinWith " " (first :: ks.map (·.value))))) ∧
      SameParse w w' ∧ tokenEofOk env.cfg w'.buf = .ok (some t', b') ∧ t'.type = term.type ∧ t'.value = term.value :=
  fundamental_group env F first ks w bmid b' term hfirst hall hy htok hterm hF

theorem C02_fundamental_single (env : Env) (F : Nat) (first : String) (w : World)
    (hfirst : Gen.compoundFundamentals.contains first = false) :
    interp env (P.parsePqnameFundamental F first) w = (w, .ok (.fund first)) :=
  fundamental_single env F first w hfirst

/-! non-vacuity: `unsigned long long int` -/
example : Gen.compoundFundamentals.contains "unsigned" = true ∧
    (∀ k ∈ ["long", "long", "int"], Gen.compoundFundamentals.contains k = true) ∧
    Gen.compoundFundamentals.contains "NAME" = false ∧
    P.joinWith " " ("unsigned" :: ["long", "long", "int"]) = "unsigned long long int" := by
  refine ⟨by decide, by decide, by decide, by decide⟩

section
open P

theorem C02_plain_qualified_name (env : Env) (F : Nat) (rec : Core) (fnOk compoundOk fundOk : Bool) (ct : CTok)
    (pairs : List (Tok × Tok)) (w : World) (bmid b' : Buf) (term : Tok)
    (hty : ct.type = "NAME") (hpv : plainVal ct.value = true) (hnc : Gen.nameCompoundStart.contains ct.value = false)
    (hall : ∀ p ∈ pairs, p.1.type = "DBL_COLON" ∧ p.2.type = "NAME" ∧ plainVal p.2.value = true)
    (hy : Yields env.cfg w.buf (pairs.flatMap (fun p => [p.1, p.2])) bmid)
    (htok : tokenEofOk env.cfg bmid = .ok (some term, b')) (hlt : term.type ≠ "<") (hdc : term.type ≠ "DBL_COLON")
    (hF : pairs.length + 1 ≤ F) :
    ∃ (w' : World) (t' : Tok),
      interp env (parsePqnameStep F rec (some ct) fnOk compoundOk fundOk) w =
        (logged env w' "parse_pqname",
          .ok (.mk (.name ct.value none :: pairs.map (fun p => .name p.2.value none)) none false, none)) ∧
      SameParse w w' ∧ tokenEofOk env.cfg w'.buf = .ok (some t', b') ∧ t'.type = term.type ∧ t'.value = term.value :=
  plain_pqname env F rec fnOk compoundOk fundOk ct pairs w bmid b' term hty hpv hnc hall hy htok hlt hdc hF

end

section
open P

theorem C02_type_name (env : Env) (F D : Nat) (operatorOk : Bool) (ct : CTok) (pairs : List (Tok × Tok))
    (w : World) (bmid b' : Buf) (term : Tok)
    (hty : ct.type = "NAME") (hpv : plainVal ct.value = true) (hnc : Gen.nameCompoundStart.contains ct.value = false)
    (hall : ∀ p ∈ pairs, p.1.type = "DBL_COLON" ∧ p.2.type = "NAME" ∧ plainVal p.2.value = true)
    (hy : Yields env.cfg w.buf (pairs.flatMap (fun p => [p.1, p.2])) bmid)
    (htok : tokenEofOk env.cfg bmid = .ok (some term, b')) (hstop : typeEnd term.type = true)
    (hlt : term.type ≠ "<") (hdc : term.type ≠ "DBL_COLON") (hF : pairs.length + 2 ≤ F) :
    ∃ (w' : World) (t' : Tok),
      interp env (parseTypeStep F (core F (D + 1)) (some ct) operatorOk) w =
        (w', .ok (some (.type (.mk (.name ct.value none :: pairs.map (fun p => .name p.2.value none)) none false) false false), {})) ∧
      SameButLog w w' ∧ tokenEofOk env.cfg w'.buf = .ok (some t', b') ∧ t'.type = term.type ∧ t'.value = term.value :=
  parseType_plain env F D operatorOk ct pairs w bmid b' term hty hpv hnc hall hy htok hstop hlt hdc hF

theorem C02_declarator_variable (env : Env) (F D : Nat) (pt : DType) (location : LocRef) (doxygen : Option String)
    (ops : List Tok) (x tm : Tok) (d1 : DType) (w : World) (bmid bx b' : Buf)
    (blk : Block) (rest : List Block) (hstack : w.stack = blk :: rest) (hk : blk.hdr.kind ≠ .cls)
    (hmu : w.muted = false) (hfa : ¬ env.faultAt = some w.delivered)
    (hpt : isFnType pt = false)
    (hy : Yields env.cfg w.buf ops bmid) (ha : applyPtrOps pt (ops.map (·.type)) = some d1)
    (htx : tokenEofOk env.cfg bmid = .ok (some x, bx)) (hx : x.type = "NAME") (hxv : identVal x.value = true)
    (httm : tokenEofOk env.cfg bx = .ok (some tm, b')) (htm : tm.type = ";" ∨ tm.type = ",")
    (hF : ops.length + 1 ≤ F) :
    ∃ (w7 : World) (c : CTok) (dox : Option String) (ev : Event),
      interp env (declaratorBody F (core F (D + 1)) pt {} .none false false (location, doxygen)) w =
        (w7, .ok (afterDeclarator tm c)) ∧
      SigEq b' w7.buf ∧ w7.stack = { blk with loc := location } :: rest ∧
      w7.events = w.events ++ [ev] ∧ ev.kind = .item (.variable (plainVariable x d1 dox)) ∧
      ev.stateId = blk.id ∧ ev.parentId = rest.head?.map (·.id) ∧ (∀ d, doxygen = some d → dox = some d) ∧
      w7.delivered = w.delivered + 1 ∧ w7.anon = w.anon ∧ w7.muted = false ∧ w7.nextId = w.nextId ∧
      w7.mainTok = w.mainTok :=
  declarator_variable env F D pt location doxygen ops x tm d1 w bmid bx b' blk rest hstack hk hmu hfa hpt hy ha htx hx hxv httm htm hF

end

section
open P

theorem C02_reference_chain (env : Env) (rec : Core) (nf : Bool) (ops : List Tok) (d d1 : DType) (F : Nat) (w : World)
    (bmid bamp b' : Buf) (amp term : Tok)
    (hy : Yields env.cfg w.buf ops bmid) (ha : applyPtrOps d (ops.map (·.type)) = some d1) (hnr : isRefLike d1 = false)
    (htamp : tokenEofOk env.cfg bmid = .ok (some amp, bamp)) (hamp : amp.type = "&" ∨ amp.type = "DBL_AMP")
    (htok : tokenEofOk env.cfg bamp = .ok (some term, b')) (hterm : term.type ≠ "(")
    (hF : ops.length + 1 ≤ F) :
    ∃ (w' : World) (t' : Tok), interp env (parseCvPtrOrFnStep F rec d nf) w = (w', .ok (refOf amp.type d1)) ∧
      SameParse w w' ∧ tokenEofOk env.cfg w'.buf = .ok (some t', b') ∧ t'.type = term.type ∧ t'.value = term.value :=
  cvPtr_chain_ref env rec nf ops d d1 F w bmid bamp b' amp term hy ha hnr htamp hamp htok hterm hF

end

section
open P

theorem C02_parameters (env : Env) (F D : Nat) (ps : List (PItem × DType × Tok)) (last : PItem × DType) (cp : Tok)
    (w : World) (b' : Buf)
    (hall : ∀ q ∈ ps, q.1.OK q.2.1 ∧ q.2.2.type = "," ∧ q.2.2.value ≠ ")" ∧ q.1.pairs.length + q.1.ops.length + 2 ≤ F)
    (hlast : last.1.OK last.2) (hlF : last.1.pairs.length + last.1.ops.length + 2 ≤ F) (hcp : cp.type = ")") (hcpv : cp.value = ")")
    (hy : Yields env.cfg w.buf (ps.flatMap (fun q => q.1.toks ++ [q.2.2]) ++ (last.1.toks ++ [cp])) b') (hF : ps.length + 1 ≤ F) :
    ∃ (w' : World),
      interp env (parseParametersStep F (core F (D + 1 + 1 + 1)) true) w =
        (w', .ok (ps.map (fun q => q.1.param q.2.1) ++ [last.1.param last.2], false, [])) ∧
      SameButLog w w' ∧ w'.buf = b' :=
  parseParameters_plain env F D ps last cp w b' hall hlast hlF hcp hcpv hy hF

end

section
open P

theorem C02_array_declarator (env : Env) (F : Nat) (ob : CTok) (dtype : DType) (content : List Tok) (cb nx : Tok)
    (w : World) (bmid b' : Buf) (hob : ob.type = "[") (hnr : isRefLike dtype = false)
    (hn : Nested (content.map (·.type))) (hcb : cb.type = "]")
    (hy : Yields env.cfg w.buf (content ++ [cb]) bmid) (htnx : tokenEofOk env.cfg bmid = .ok (some nx, b')) (hnx : nx.type ≠ "[")
    (hF : content.length + 1 ≤ F) :
    ∃ (w' : World) (t' : Tok),
      interp env (parseArrayType (F + 1) ob dtype) w =
        (w', .ok (.array dtype (if content.isEmpty then none else some (valueOf content)))) ∧
      SameParse w w' ∧ tokenEofOk env.cfg w'.buf = .ok (some t', b') ∧ t'.type = nx.type ∧ t'.value = nx.value :=
  parseArrayType_one env F ob dtype content cb nx w bmid b' hob hnr hn hcb hy htnx hnx hF

end


section
open P

/-- **cv-qualified type specifiers**: ANY number of `const` / `volatile` tokens before and after a name that
    `_parse_pqname` reads (`NameSpecR`) is read by `_parse_type` as that name with `const` set iff a `const` was
    written and `volatile` set iff a `volatile` was written, for every stream and parser state, leaving the
    declarator's first token next -/
theorem C02_cv_type (env : Env) (F D : Nat) (pre ntoks post : List Tok) (segs : List PQSeg)
    (hname : NameSpecR env F D ntoks segs)
    (hpre : ∀ k ∈ pre, isCv k.type = true) (hpost : ∀ k ∈ post, isCv k.type = true)
    (hF : pre.length + post.length + 3 ≤ F) :
    TypeSpecR env F D (pre ++ ntoks ++ post) segs (cvConst pre || cvConst post) (cvVol pre || cvVol post) :=
  typeSpecR_cv env F D pre ntoks post segs hname hpre hpost hF

/-- qualified names of identifiers are names in that sense … -/
theorem C02_name_plain (env : Env) (F D : Nat) (first : Tok) (pairs : List (Tok × Tok))
    (hty : first.type = "NAME") (hpv : plainVal first.value = true) (hnc : Gen.nameCompoundStart.contains first.value = false)
    (hall : ∀ p ∈ pairs, p.1.type = "DBL_COLON" ∧ p.2.type = "NAME" ∧ plainVal p.2.value = true)
    (hF : pairs.length + 1 ≤ F) :
    NameSpecR env F D (first :: pairs.flatMap (fun p => [p.1, p.2]))
      (.name first.value none :: pairs.map (fun p => .name p.2.value none)) :=
  nameSpecR_plain env F D first pairs hty hpv hnc hall hF

/-- … and so are fundamental types: one keyword, or a group of the compound keywords of any length, named by the
    keywords joined with single blanks -/
theorem C02_name_fundamental (env : Env) (F D : Nat) (first : Tok) (ks : List Tok)
    (hkw : first.type = first.value) (hfund : Gen.fundamentals.contains first.value = true)
    (hks : if Gen.compoundFundamentals.contains first.value then ∀ k ∈ ks, Gen.compoundFundamentals.contains k.type = true else ks = [])
    (hF : ks.length + 1 ≤ F) :
    NameSpecR env F D (first :: ks) [.fund (joinWith " " (first.value :: ks.map (·.value)))] :=
  nameSpecR_fund env F D first ks hkw hfund hks hF

/-- **`S ptr-ops x ;` through `parse()`'s loop, for ANY type specifier `S`** (`TypeSpecR`): exactly ONE `on_variable`
    carrying the name `x` and the type the pointer chain denotes over the type `S` denotes (with its cv flags) -/
theorem C02_cv_variable (env : Env) (hp : RulesProgress env.cfg = true) (F D : Nat) (w : World)
    (toks : List Tok) (first : Tok) (trest : List Tok) (segs : List PQSeg) (cst vol : Bool)
    (ops : List Tok) (x semi : Tok) (d1 : DType) (b1 b0 bmid bx b' : Buf)
    (blk : Block) (rest : List Block) (hstack : w.stack = blk :: rest) (hk : blk.hdr.kind ≠ .cls)
    (hmu : w.muted = false) (hfa : ¬ env.faultAt = some w.delivered)
    (hspec : TypeSpecR env F D toks segs cst vol) (htoks : toks = first :: trest) (hfirst : specFirst first.type = true)
    (htok : tokenEofOk env.cfg w.buf = .ok (some first, b1))
    (hy0 : Yields env.cfg b1 trest b0)
    (hops : opsHeadOk ops = true) (hopsv : ∀ o ∈ ops, o.value ≠ "auto")
    (hy : Yields env.cfg b0 ops bmid)
    (ha : applyPtrOps (.type (.mk segs none false) cst vol) (ops.map (·.type)) = some d1)
    (htx : tokenEofOk env.cfg bmid = .ok (some x, bx)) (hx : x.type = "NAME") (hxv : identVal x.value = true)
    (hsemi : tokenEofOk env.cfg bx = .ok (some semi, b')) (hs : semi.type = ";")
    (hF : ops.length + 2 ≤ F) :
    ∃ (d : Option String) (bD : Buf) (w7 : World) (ct : CTok) (dox : Option String) (ev : Event),
      getDoxygen env.cfg env.mcRe w.buf = .ok (d, bD) ∧
      interp env (mainBody F (core F (D + 1 + 1)) none) w = (w7, .ok (.inl none)) ∧
      SigEq b' w7.buf ∧ ct.value = first.value ∧ w7.stack = { blk with loc := .tok ct.sidx } :: rest ∧
      w7.events = w.events ++ [ev] ∧ ev.kind = .item (.variable (plainVariable x d1 dox)) ∧
      ev.stateId = blk.id ∧ ev.parentId = rest.head?.map (·.id) ∧ (∀ dd, d = some dd → dox = some dd) ∧
      w7.delivered = w.delivered + 1 ∧ w7.anon = w.anon ∧ w7.muted = false ∧ w7.nextId = w.nextId :=
  toplevel_variable_gen env hp F D w toks first trest segs cst vol ops x semi d1 b1 b0 bmid bx b' blk rest hstack hk hmu hfa
    hspec htoks hfirst htok hy0 hops hopsv hy ha htx hx hxv hsemi hs hF

/-- the first tokens of such specifiers have no handler of their own in `parse()`'s dispatch table and are not in
    the keep-doc set (decided over the regenerated tables) -/
theorem C02_spec_first_tokens : ∀ ty ∈ "NAME" :: "const" :: "volatile" :: Gen.fundamentals, specFirst ty = true := specFirst_ok

/-- **declarator prefixes as an interface**: pointer chains of any length are prefixes … -/
theorem C02_prefix_ptr (env : Env) (F D : Nat) (pt d1 : DType) (pre : List (String × String))
    (ha : applyPtrOps pt (pre.map (·.1)) = some d1) (hF : pre.length + 1 ≤ F) : PrefixSpec env F D pt pre d1 :=
  prefixSpec_ptr env F D pt d1 pre ha hF

/-- … and so are pointer chains ending in `&` / `&&` (the lvalue / rvalue reference to what the chain denotes) -/
theorem C02_prefix_ref (env : Env) (F D : Nat) (pt d1 : DType) (chain : List (String × String)) (amp : String × String)
    (ha : applyPtrOps pt (chain.map (·.1)) = some d1) (hnr : isRefLike d1 = false) (hamp : amp.1 = "&" ∨ amp.1 = "DBL_AMP")
    (hF : chain.length + 1 ≤ F) : PrefixSpec env F D pt (chain ++ [amp]) (refOf amp.1 d1) :=
  prefixSpec_ref env F D pt d1 chain amp ha hnr hamp hF

/-- **`S prefix x ;` through `parse()`'s loop for ANY type specifier `S` (`TypeSpecR`) and ANY declarator prefix
    (`PrefixSpec`)**: exactly ONE `on_variable` carrying the name `x` and the type the prefix denotes over the type
    `S` denotes.  The two interfaces are independent: a new specifier form or a new prefix form needs only its own
    instance lemma to be covered here, in class bodies (`C03_field_general`) and in whole sources (`Item.variablePre`). -/
theorem C02_declaration_general (env : Env) (hp : RulesProgress env.cfg = true) (F D : Nat) (w : World)
    (toks : List Tok) (first : Tok) (trest : List Tok) (segs : List PQSeg) (cst vol : Bool)
    (pre : List (String × String)) (ops : List Tok) (x semi : Tok) (d1 : DType) (b1 b0 bmid bx b' : Buf)
    (blk : Block) (rest : List Block) (hstack : w.stack = blk :: rest) (hk : blk.hdr.kind ≠ .cls)
    (hmu : w.muted = false) (hfa : ¬ env.faultAt = some w.delivered)
    (hspec : TypeSpecR env F D toks segs cst vol) (htoks : toks = first :: trest) (hfirst : specFirst first.type = true)
    (htok : tokenEofOk env.cfg w.buf = .ok (some first, b1))
    (hy0 : Yields env.cfg b1 trest b0)
    (hhead : ∀ p ∈ pre.head?, declStart p.1 = true ∧ p.2 ≠ "auto")
    (hy : Yields env.cfg b0 ops bmid)
    (hpre : PrefixSpec env F (D + 1) (.type (.mk segs none false) cst vol) pre d1) (hfn : isFnType d1 = false) (hops : tvs ops = pre)
    (htx : tokenEofOk env.cfg bmid = .ok (some x, bx)) (hx : x.type = "NAME") (hxv : identVal x.value = true)
    (hsemi : tokenEofOk env.cfg bx = .ok (some semi, b')) (hs : semi.type = ";")
    (hF : 2 ≤ F) :
    ∃ (d : Option String) (bD : Buf) (w7 : World) (ct : CTok) (dox : Option String) (ev : Event),
      getDoxygen env.cfg env.mcRe w.buf = .ok (d, bD) ∧
      interp env (mainBody F (core F (D + 1 + 1)) none) w = (w7, .ok (.inl none)) ∧
      SigEq b' w7.buf ∧ ct.value = first.value ∧ w7.stack = { blk with loc := .tok ct.sidx } :: rest ∧
      w7.events = w.events ++ [ev] ∧ ev.kind = .item (.variable (plainVariable x d1 dox)) ∧
      ev.stateId = blk.id ∧ ev.parentId = rest.head?.map (·.id) ∧ (∀ dd, d = some dd → dox = some dd) ∧
      w7.delivered = w.delivered + 1 ∧ w7.anon = w.anon ∧ w7.muted = false ∧ w7.nextId = w.nextId :=
  toplevel_variable_pre env hp F D w toks first trest segs cst vol pre ops x semi d1 b1 b0 bmid bx b' blk rest hstack hk hmu hfa
    hspec htoks hfirst htok hy0 hhead hy hpre hfn hops htx hx hxv hsemi hs hF

/-- **parameter lists over ANY type specifier × ANY declarator prefix**: `_parse_parameters` on `p1 , … , pn )` with every
    `pi` of the form `Sᵢ prefixᵢ nameᵢ` (`TypeSpecR` × `PrefixSpec`) returns the parameters in order, each with its own
    name and the type ITS prefix denotes over the type ITS specifier denotes; nothing leaks from one parameter into
    the next, no vararg, nothing dropped by the `void` rule; the stream is right after the `)` -/
theorem C02_parameters_general (env : Env) (F D : Nat) (ps : List (PItemG × Tok)) (last : PItemG) (cp : Tok)
    (w : World) (b' : Buf)
    (hall : ∀ q ∈ ps, q.1.OK env F D ∧ q.2.type = "," ∧ q.2.value ≠ ")")
    (hlast : last.OK env F D) (hcp : cp.type = ")") (hcpv : cp.value = ")")
    (hy : Yields env.cfg w.buf (plistToks ps last cp) b') (hF : ps.length + 1 ≤ F) :
    ∃ (w' : World),
      interp env (parseParametersStep F (core F (D + 1 + 1 + 1)) true) w =
        (w', .ok (ps.map (fun q => q.1.param) ++ [last.param], false, [])) ∧
      SameButLog w w' ∧ w'.buf = b' :=
  parseParameters_gen env F D ps last cp w b' hall hlast hcp hcpv hy hF

/-- **`S prefix x [ size ] ;` through `parse()`'s loop**, any type specifier, any declarator prefix that does not end in a
    reference: exactly ONE `on_variable` whose type is the array of what the prefix denotes, the size being EXACTLY the
    written tokens (absent for `[]`) -/
theorem C02_array_declaration (env : Env) (hp : RulesProgress env.cfg = true) (F D : Nat) (w : World)
    (toks : List Tok) (first : Tok) (trest : List Tok) (segs : List PQSeg) (cst vol : Bool)
    (pre : List (String × String)) (ops : List Tok) (x ob : Tok) (content : List Tok) (cb semi : Tok) (d1 : DType) (b1 b0 bmid bx bo bc b' : Buf)
    (blk : Block) (rest : List Block) (hstack : w.stack = blk :: rest) (hk : blk.hdr.kind ≠ .cls)
    (hmu : w.muted = false) (hfa : ¬ env.faultAt = some w.delivered)
    (hspec : TypeSpecR env (F + 1) D toks segs cst vol) (htoks : toks = first :: trest) (hfirst : specFirst first.type = true)
    (htok : tokenEofOk env.cfg w.buf = .ok (some first, b1))
    (hy0 : Yields env.cfg b1 trest b0)
    (hhead : ∀ p ∈ pre.head?, declStart p.1 = true ∧ p.2 ≠ "auto")
    (hy : Yields env.cfg b0 ops bmid)
    (hpre : PrefixSpec env (F + 1) (D + 1) (.type (.mk segs none false) cst vol) pre d1) (hfn : isFnType d1 = false) (hnr : isRefLike d1 = false) (hops : tvs ops = pre)
    (htx : tokenEofOk env.cfg bmid = .ok (some x, bx)) (hx : x.type = "NAME") (hxv : identVal x.value = true)
    (hto : tokenEofOk env.cfg bx = .ok (some ob, bo)) (hob : ob.type = "[")
    (hn : Nested (content.map (·.type))) (hcb : cb.type = "]") (hyc : Yields env.cfg bo (content ++ [cb]) bc)
    (hsemi : tokenEofOk env.cfg bc = .ok (some semi, b')) (hs : semi.type = ";")
    (hF : content.length + 1 ≤ F) :
    ∃ (d : Option String) (bD : Buf) (w7 : World) (ct : CTok) (dox : Option String) (ev : Event),
      getDoxygen env.cfg env.mcRe w.buf = .ok (d, bD) ∧
      interp env (mainBody (F + 1) (core (F + 1) (D + 1 + 1)) none) w = (w7, .ok (.inl none)) ∧
      SigEq b' w7.buf ∧ ct.value = first.value ∧ w7.stack = { blk with loc := .tok ct.sidx } :: rest ∧
      w7.events = w.events ++ [ev] ∧ ev.kind = .item (.variable (plainVariable x (DType.array d1 (if content.isEmpty then none else some (valueOf content))) dox)) ∧
      ev.stateId = blk.id ∧ ev.parentId = rest.head?.map (·.id) ∧ (∀ dd, d = some dd → dox = some dd) ∧
      w7.delivered = w.delivered + 1 ∧ w7.anon = w.anon ∧ w7.muted = false ∧ w7.nextId = w.nextId :=
  toplevel_variable_array_pre env hp F D w toks first trest segs cst vol pre ops x ob content cb semi d1 b1 b0 bmid bx bo bc b' blk rest hstack hk hmu hfa hspec htoks hfirst htok hy0 hhead hy hpre hfn hnr hops htx hx hxv hto hob hn hcb hyc hsemi hs hF

/-! non-vacuity: `const unsigned long volatile * const p ;` is a `SpecDeclToks` that satisfies `OK`, and the
    corresponding `Item.variableGen` reads exactly those tokens from a stream that holds them -/
section nonvacuity
private def tk (ty v : String) : Tok := { type := ty, value := v, loc := default, sidx := 0 }

private def cvDecl : SpecDeclToks :=
  { spec := [tk "const" "const", tk "unsigned" "unsigned", tk "long" "long", tk "volatile" "volatile"],
    segs := [.fund "unsigned long"], cst := true, vol := true,
    ops := [tk "*" "*", tk "const" "const"], x := tk "NAME" "p", semi := tk ";" ";",
    d1 := .ptr (.type (.mk [.fund "unsigned long"] none false) true true) true false }

private theorem cvDecl_ok (env : Env) (F D : Nat) (hF : 5 ≤ F) : cvDecl.OK env F D := by
  refine ⟨?_, ⟨_, _, rfl, by decide⟩, by decide, by decide, rfl, rfl, by decide, rfl, by show 2 + 2 ≤ F; omega⟩
  have h := typeSpecR_cv env F D [tk "const" "const"] [tk "unsigned" "unsigned", tk "long" "long"] [tk "volatile" "volatile"]
    [.fund "unsigned long"]
    (nameSpecR_fund env F D (tk "unsigned" "unsigned") [tk "long" "long"] rfl (by decide) (by decide) (by show 1 + 1 ≤ F; omega))
    (by decide) (by decide) (by show 1 + 1 + 3 ≤ F; omega)
  exact h

example (env : Env) (hp : RulesProgress env.cfg = true) (hnf : env.faultAt = none) (F D : Nat) (hF : 5 ≤ F) (lex : LexState) :
    ∃ bE, (Item.variableGen env hp hnf F D cvDecl).At
      { tokbuf := [tk "const" "const", tk "unsigned" "unsigned", tk "long" "long", tk "volatile" "volatile", tk "*" "*",
          tk "const" "const", tk "NAME" "p", tk ";" ";"], lex := lex, bounded := true } bE :=
  ⟨{ tokbuf := [], lex := lex, bounded := true }, cvDecl_ok env F (D + 1 + 1) hF,
    Yields.of_tokbuf env.cfg lex true cvDecl.toks [] (by decide)⟩

private def refDecl : DeclToks :=
  { spec := [tk "const" "const", tk "unsigned" "unsigned", tk "long" "long"],
    segs := [.fund "unsigned long"], cst := true, vol := false,
    ops := [tk "*" "*", tk "const" "const", tk "&" "&"], x := tk "NAME" "r", semi := tk ";" ";",
    d1 := .ref (.ptr (.type (.mk [.fund "unsigned long"] none false) true false) true false) }

/-- `const unsigned long * const & r ;` satisfies the side conditions of `Item.variablePre` -/
private theorem refDecl_ok (env : Env) (F D : Nat) (hF : 5 ≤ F) : refDecl.OK env F D := by
  refine ⟨?_, ⟨_, _, rfl, by decide⟩, by decide, ?_, rfl, rfl, by decide, rfl, by omega⟩
  · have h := typeSpecR_cv env F D [tk "const" "const"] [tk "unsigned" "unsigned", tk "long" "long"] []
      [.fund "unsigned long"]
      (nameSpecR_fund env F D (tk "unsigned" "unsigned") [tk "long" "long"] rfl (by decide) (by decide) (by show 1 + 1 ≤ F; omega))
      (by decide) (by decide) (by show 1 + 0 + 3 ≤ F; omega)
    exact h
  · exact prefixSpec_ref env F (D + 1) _ _ [("*", "*"), ("const", "const")] ("&", "&") rfl rfl (.inl rfl) (by show 2 + 1 ≤ F; omega)

example (env : Env) (hp : RulesProgress env.cfg = true) (hnf : env.faultAt = none) (F D : Nat) (hF : 5 ≤ F) (lex : LexState) :
    ∃ bE, (Item.variablePre env hp hnf F D refDecl).At
      { tokbuf := [tk "const" "const", tk "unsigned" "unsigned", tk "long" "long", tk "*" "*",
          tk "const" "const", tk "&" "&", tk "NAME" "r", tk ";" ";"], lex := lex, bounded := true } bE :=
  ⟨{ tokbuf := [], lex := lex, bounded := true }, refDecl_ok env F (D + 1 + 1) hF,
    Yields.of_tokbuf env.cfg lex true refDecl.toks [] (by decide)⟩

/-- the parameter `const unsigned long * p` satisfies the side conditions of `C02_parameters_general` -/
private def cvParam : PItemG :=
  { spec := [tk "const" "const", tk "unsigned" "unsigned", tk "long" "long"], segs := [.fund "unsigned long"], cst := true, vol := false,
    ops := [tk "*" "*"], name := tk "NAME" "p", ty := .ptr (.type (.mk [.fund "unsigned long"] none false) true false) false false }

example (env : Env) (F D : Nat) (hF : 5 ≤ F) : cvParam.OK env F D where
  spec := typeSpecR_cv env F D [tk "const" "const"] [tk "unsigned" "unsigned", tk "long" "long"] [] [.fund "unsigned long"]
    (nameSpecR_fund env F D (tk "unsigned" "unsigned") [tk "long" "long"] rfl (by decide) (by decide) (by show 1 + 1 ≤ F; omega))
    (by decide) (by decide) (by show 1 + 0 + 3 ≤ F; omega)
  first := ⟨_, _, rfl, by decide, by decide, by decide⟩
  head := by decide
  pre := prefixSpec_ptr env F (D + 1) _ _ [("*", "*")] rfl (by show 1 + 1 ≤ F; omega)
  notFn := rfl
  nameTy := rfl
  notVoid := rfl

/-- `unsigned long * x [ N + 1 ] ;` satisfies the side conditions of `Item.arrayVar` -/
private def arrDecl : ArrDeclToks :=
  { d := { spec := [tk "unsigned" "unsigned", tk "long" "long"], segs := [.fund "unsigned long"], cst := false, vol := false,
           ops := [tk "*" "*"], x := tk "NAME" "x", semi := tk ";" ";",
           d1 := .ptr (.type (.mk [.fund "unsigned long"] none false) false false) false false },
    ob := tk "[" "[", content := [tk "NAME" "N", tk "+" "+", tk "INT_CONST_DEC" "1"], cb := tk "]" "]" }

example (env : Env) (F D : Nat) (hF : 5 ≤ F) : arrDecl.OK env F D := by
  refine ⟨?_, ⟨_, _, rfl, by decide⟩, by decide, ?_, rfl, rfl, rfl, by decide, rfl, ?_, rfl, rfl, by show 3 + 1 ≤ F; omega⟩
  · have h := typeSpecR_cv env (F + 1) D [] [tk "unsigned" "unsigned", tk "long" "long"] [] [.fund "unsigned long"]
      (nameSpecR_fund env (F + 1) D (tk "unsigned" "unsigned") [tk "long" "long"] rfl (by decide) (by decide) (by show 1 + 1 ≤ F + 1; omega))
      (by decide) (by decide) (by show 0 + 0 + 3 ≤ F + 1; omega)
    exact h
  · exact prefixSpec_ptr env (F + 1) (D + 1) _ _ [("*", "*")] rfl (by show 1 + 1 ≤ F + 1; omega)
  · exact .atom _ _ (by decide) (by decide) (.atom _ _ (by decide) (by decide) (.atom _ _ (by decide) (by decide) .nil))
end nonvacuity

end

/-! ### cv-qualifiers after a class / enum body: `key S { … } const volatile a , * b ;` -/

/-- **the qualifiers written after the closing brace** (any number of `const` / `volatile`, any order) are read by the
    declarator loop of `_finish_class_or_enum` and set on the type every declarator of the statement is built from -/
theorem C02_class_cv_loop (env : Env) (cvs : List Tok) (n : PQName) (c v : Bool) (term : Tok) (k : Nat) (w : World) (bmid b' : Buf)
    (hall : ∀ q ∈ cvs, q.type = "const" ∨ q.type = "volatile") (h1 : term.type ≠ "const") (h2 : term.type ≠ "volatile")
    (hy : Yields env.cfg w.buf cvs bmid) (htok : tokenEofOk env.cfg bmid = .ok (some term, b')) (hk : cvs.length + 1 ≤ k) :
    ∃ (w' : World) (t' : Tok),
      interp env (P.loopN k (.type n c v) P.leadCvBody) w = (w', .ok (cvOn n c v cvs)) ∧ SameParse w w' ∧
      tokenEofOk env.cfg w'.buf = .ok (some t', b') ∧ t'.type = term.type ∧ t'.value = term.value :=
  leadCv_loop env cvs n c v term k w bmid b' hall h1 h2 hy htok hk

/-- **they stay there for every later declarator**: the type handed to declarator j carries every qualifier read before any
    declarator i ≤ j (the implementation shares ONE `Type` object between the declarators and qualifies it in place) -/
theorem C02_class_cv_persists (n : PQName) (c v : Bool) (cvs1 cvs2 : List Tok) :
    (match cvOn n c v cvs1 with
     | .type n' c' v' => cvOn n' c' v' cvs2
     | d => d) = cvOn n c v (cvs1 ++ cvs2) := cvOn_persists n c v cvs1 cvs2

example (n : PQName) : cvOn n false false [{ type := "const", value := "const", loc := default }] = .type n true false := by
  simp [cvOn]


end Cxx
