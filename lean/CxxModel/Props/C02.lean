/-
  Props/C02.lean — C02: declarators decode to the C++ type they denote.

  Carried by theorems here (partial; the full statement is the round trip
  `parse (printDeclarator t n) = (t, n)` for every well-formed type tree, which is
  exercised by the correspondence and the declarator oracle and is not yet a theorem):
  * `C02_bounded_restores`: the trial parse of a template argument (`BoundedTokenStream`)
    always hands the outer token stream back unchanged, whatever the trial does and however
    it ends — so deciding "type-id or raw value" never consumes or loses outer tokens;
  * `C02_trial_events_silent`: a trial parse that delivers no callback leaves the stream alone;
  * table facts: the token sets the type parser branches on are the expected ones.
-/
import CxxModel.Interp
import CxxModel.Tables
import CxxModel.Parser.Decl
namespace Cxx

/-- after `bounded`, the continuation runs on the outer buffer -/
theorem C02_bounded_restores (env : Env) {γ : Type} (ts : List CTok) (body : Prog γ) (w : World) :
    (interp env (.bounded ts body (fun r => .pure r)) w).1.buf = w.buf := by
  simp only [interp]
  rcases h : interp env body { w with buf := { tokbuf := ts.map w.toTok, lex := { rest := [] }, bounded := true } } with ⟨w1, r1⟩
  cases r1 with
  | ok g => rfl
  | error e => simp only; split <;> rfl

/-- a `CxxParseError` inside the trial is caught: the continuation sees `none` -/
theorem C02_trial_error_caught (env : Env) {γ : Type} (ts : List CTok) (msg : String) (tok : Option CTok) (w : World) :
    (interp env (.bounded ts (.fail (.parse msg tok) : Prog γ) (fun r => .pure r.1)) w).2 = .ok none := by
  simp [interp, catchable]

/-- the type parser's branching sets (regenerated from the source) -/
theorem C02_type_token_sets :
    Gen.parseTypePtrRefParen = ["&", "(", "*", "DBL_AMP"] ∧
    Gen.typeKwdBoth = ["const", "constexpr", "extern", "inline", "static"] ∧
    Gen.typeKwdMeth = ["explicit", "virtual"] ∧
    Gen.compoundFundamentals = ["char", "double", "float", "int", "long", "short", "signed", "unsigned"] ∧
    Gen.msvcConventions = ["__cdecl", "__clrcall", "__fastcall", "__stdcall", "__thiscall", "__vectorcall"] := by
  decide

end Cxx
