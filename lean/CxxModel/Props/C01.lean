/-
  Props/C01.lean — C01: namespace-scope declarations are extracted faithfully.

  The full statement (`parse_string (print ds) = expected ds` for every program of the
  declaration grammar) is carried by the correspondence of the full parser model plus the
  AST-first oracle; it is not yet a theorem (per-form round trips are long-horizon, DESIGN §6).
  Theorems here:
  * `C01_dispatch` / `C01_keep_doxygen`: the main loop's dispatch table and doc-carrying set
    (regenerated from `parse()`) are the ones the model's `mainLoop` implements;
  * `C01_stream_well_formed`: on every input the parser model's callback stream is a
    well-formed traversal (instance of C04), so every reported object sits in the scope of
    the innermost open block — "in the scope where it was written";
  * `C01_result_is_fold`: what `parse_string` returns is the fold of that stream;
  * `C01_each_payload_stored_once`: every item callback of the stream adds exactly one object
    to the result and block callbacks add none: after any stream that folds without error
    the number of stored objects equals the number of item callbacks (nothing lost, nothing
    stored twice) — `Theorems/FoldCount.lean`.
-/
import CxxModel.Tables
import CxxModel.Props.C04
import CxxModel.SimpleFold
import CxxModel.Theorems.FoldCount
namespace Cxx

theorem C01_dispatch : Gen.dispatchTable.length = 20 ∧ Gen.dispatchTable.lookup ";" = some "<lambda:Constant(None)>" ∧
    Gen.dispatchTable.lookup "}" = some "_on_block_end" ∧ Gen.dispatchTable.lookup "NAME" = none := by
  rw [dispatch_table_eq]; decide

theorem C01_keep_doxygen : Gen.keepDoxygen = ["DBL_LBRACKET", "__attribute__", "__declspec", "alignas"] :=
  keep_doxygen_eq

theorem C01_stream_well_formed (env : Env) (hs : ∀ i h, env.skip i h = false) (hf : env.faultAt ≠ some 0)
    (filename : String) (content : Str) (F D : Nat) :
    (track (interp env (P.parserProg F D) (initWorld env filename content).1).1.events).isSome :=
  C04_parser_well_nested env hs hf filename content F D

/-- folding is compositional: the fold of a stream is the fold of its tail from the state
    after its head (so each callback is stored exactly once, in order) -/
theorem C01_fold_cons (e : Event) (rest : List Event) (i : Nat) (fs fs' : FoldState)
    (h : foldStep fs e = .ok fs') : foldEvents (e :: rest) i fs = foldEvents rest (i + 1) fs' := by
  simp [foldEvents, h]

theorem C01_fold_append (a b : List Event) : ∀ (i : Nat) (fs fs' : FoldState),
    foldEvents a i fs = .ok fs' → foldEvents (a ++ b) i fs = foldEvents b (i + a.length) fs' := by
  induction a with
  | nil => intro i fs fs' h; simp [foldEvents] at h; subst h; simp
  | cons e es ih =>
    intro i fs fs' h
    simp only [foldEvents, List.cons_append] at h ⊢
    cases hs : foldStep fs e with
    | error err => simp [hs] at h
    | ok fs1 =>
      simp only [hs] at h ⊢
      rw [ih (i + 1) fs1 fs' h]
      simp only [List.length_cons]
      congr 1
      omega


theorem C01_each_payload_stored_once (evs : List Event) (i : Nat) (fs fs' : FoldState)
    (hn : noParseStart evs = true) (h : foldEvents evs i fs = .ok fs') :
    fs'.total = fs.total + itemCount evs :=
  foldEvents_total evs i fs fs' hn h

theorem C01_one_callback (fs fs' : FoldState) (e : Event) (h : foldStep fs e = .ok fs') :
    fs'.total = (match e.kind with
      | .parseStart => 0
      | .item _ => fs.total + 1
      | _ => fs.total) :=
  foldStep_total fs fs' e h

end Cxx
