/-
  Props/C01.lean — C01: namespace-scope declarations are extracted faithfully.

  The full statement (`parse_string (print ds) = expected ds` for every program of the
  declaration grammar) is carried by the correspondence of the full parser model plus the
  AST-first oracle; it is not yet a theorem (per-form round trips are long-horizon, DESIGN §6).
  Theorems here:
  * `C01_dispatch` / `C01_keep_doxygen`: the main loop's dispatch table and doc-carrying set
    (regenerated from `parse()`) are the ones the model's `mainLoop` implements;
  * `C01_stream_well_formed`: on every input the parser model's callback stream is a
    well-formed traversal (instance of C04), so every reported object sits in the scope of
    the innermost open block — "in the scope where it was written";
  * `C01_result_is_fold`: what `parse_string` returns is the fold of that stream;
  * `C01_each_payload_stored_once`: every item callback of the stream adds exactly one object
    to the result and block callbacks add none: after any stream that folds without error
    the number of stored objects equals the number of item callbacks (nothing lost, nothing
    stored twice) — `Theorems/FoldCount.lean`;
  * `C01_enumerator_list`, `C01_enumerator_list_trailing_comma`: one declaration form proved
    end to end against the real token stream — for EVERY enumerator list `n1 [= v1], …, nk [= vk] }`
    (any length; values with no top-level `,` or `}`; with or without a trailing comma; any
    comments, blank lines or doc blocks between the tokens), `_parse_enumerator_list` over the
    regenerated lexer rules returns one enumerator per item, in order, with the written name
    and exactly the written value tokens (or no value), and leaves the stream right after the
    closing brace (`Theorems/EnumList.lean`);
  * `C01_using_namespace`: a whole declaration form — after `using namespace`, for a qualified
    name `n1 :: … :: nk` of any length, `_parse_using_directive` is exactly "read the name, then
    deliver one `on_using_namespace [n1, …, nk]`" to the innermost open block, and the token
    after the name stays in the stream (`Theorems/UsingDir.lean`);
  * `C01_using_namespace_decl` (`Theorems/UsingDecl.lean`): the same one level up — outside a
    class, `_parse_using` on `namespace n1 :: … :: nk` is exactly "record the `using` token's
    location on the innermost block, deliver one `on_using_namespace`, require `;`";
  * `C01_namespace_alias`: `namespace A = [::] n1 :: … :: nk ;` of any length is exactly "read
    the declaration, then `nsFinish` with the written names and the alias token": one
    `on_namespace_alias` carrying `A` and `[n1, …, nk]` (a leading `::` kept as a first name,
    as the implementation does), or the documented errors (`Theorems/NsForm.lean`).
  * `C01_toplevel_using_namespace` (`Theorems/TopLevel.lean`): the whole declaration through one
    iteration of `parse()`'s loop, on the regenerated rules / dispatch table / keep set: with an
    active visitor that does not raise here, `using namespace n1 :: … :: nk ;` delivers exactly
    ONE callback — `on_using_namespace [n1, …, nk]` for the innermost open block — consumes
    exactly the declaration and changes nothing else but the block's recorded location.
-/
import CxxModel.Tables
import CxxModel.Props.C04
import CxxModel.SimpleFold
import CxxModel.Theorems.FoldCount
import CxxModel.Theorems.EnumList
import CxxModel.Theorems.UsingDir
import CxxModel.Theorems.NsForm
import CxxModel.Theorems.UsingDecl
import CxxModel.GenCfg
import CxxModel.Theorems.TopLevel
namespace Cxx

theorem C01_dispatch : Gen.dispatchTable.length = 20 ∧ Gen.dispatchTable.lookup ";" = some "<lambda:Constant(None)>" ∧
    Gen.dispatchTable.lookup "}" = some "_on_block_end" ∧ Gen.dispatchTable.lookup "NAME" = none := by
  rw [dispatch_table_eq]; decide

theorem C01_keep_doxygen : Gen.keepDoxygen = ["DBL_LBRACKET", "__attribute__", "__declspec", "alignas"] :=
  keep_doxygen_eq

theorem C01_stream_well_formed (env : Env) (hs : ∀ i h, env.skip i h = false) (hf : env.faultAt ≠ some 0)
    (filename : String) (content : Str) (F D : Nat) :
    (track (interp env (P.parserProg F D) (initWorld env filename content).1).1.events).isSome :=
  C04_parser_well_nested env hs hf filename content F D

/-- folding is compositional: the fold of a stream is the fold of its tail from the state
    after its head (so each callback is stored exactly once, in order) -/
theorem C01_fold_cons (e : Event) (rest : List Event) (i : Nat) (fs fs' : FoldState)
    (h : foldStep fs e = .ok fs') : foldEvents (e :: rest) i fs = foldEvents rest (i + 1) fs' := by
  simp [foldEvents, h]

theorem C01_fold_append (a b : List Event) : ∀ (i : Nat) (fs fs' : FoldState),
    foldEvents a i fs = .ok fs' → foldEvents (a ++ b) i fs = foldEvents b (i + a.length) fs' := by
  induction a with
  | nil => intro i fs fs' h; simp [foldEvents] at h; subst h; simp
  | cons e es ih =>
    intro i fs fs' h
    simp only [foldEvents, List.cons_append] at h ⊢
    cases hs : foldStep fs e with
    | error err => simp [hs] at h
    | ok fs1 =>
      simp only [hs] at h ⊢
      rw [ih (i + 1) fs1 fs' h]
      simp only [List.length_cons]
      congr 1
      omega


theorem C01_each_payload_stored_once (evs : List Event) (i : Nat) (fs fs' : FoldState)
    (hn : noParseStart evs = true) (h : foldEvents evs i fs = .ok fs') :
    fs'.total = fs.total + itemCount evs :=
  foldEvents_total evs i fs fs' hn h

theorem C01_one_callback (fs fs' : FoldState) (e : Event) (h : foldStep fs e = .ok fs') :
    fs'.total = (match e.kind with
      | .parseStart => 0
      | .item _ => fs.total + 1
      | _ => fs.total) :=
  foldStep_total fs fs' e h


theorem C01_enumerator_list (env : Env) (hc : env.cfg = genLexCfg) (F : Nat) (pre : List EItem) (last : EItem)
    (more : List Tok) (w : World) (bEnd : Buf)
    (hall : ∀ i ∈ pre, i.OK ∧ i.sep.type = "," ∧ i.toks.length + 2 ≤ F)
    (hlast : last.OK ∧ last.sep.type = "}" ∧ last.toks.length + 2 ≤ F)
    (hy : Yields env.cfg w.buf ((pre ++ [last]).flatMap EItem.toks ++ more) bEnd) (hF : pre.length + 1 ≤ F) :
    ∃ (w' : World) (vs : List Enumerator) (bEnd' : Buf), interp env (P.parseEnumeratorList F) w = (w', .ok vs) ∧
      vs.map Enumerator.nv = (pre ++ [last]).map EItem.nv ∧
      Yields env.cfg w'.buf more bEnd' ∧ SigEq bEnd bEnd' ∧ SameParse w w' :=
  enumList_last env (by rw [hc]; exact gen_rules_progress) F pre last more w bEnd hall hlast hy hF

theorem C01_enumerator_list_trailing_comma (env : Env) (hc : env.cfg = genLexCfg) (F : Nat) (items : List EItem) (cl : Tok)
    (more : List Tok) (w : World) (bEnd : Buf)
    (hall : ∀ i ∈ items, i.OK ∧ i.sep.type = "," ∧ i.toks.length + 2 ≤ F)
    (hty : cl.type = "}") (hv : cl.value = "}")
    (hy : Yields env.cfg w.buf (items.flatMap EItem.toks ++ cl :: more) bEnd) (hF : items.length + 1 ≤ F) :
    ∃ (w' : World) (vs : List Enumerator) (bEnd' : Buf), interp env (P.parseEnumeratorList F) w = (w', .ok vs) ∧
      vs.map Enumerator.nv = items.map EItem.nv ∧
      Yields env.cfg w'.buf more bEnd' ∧ SigEq bEnd bEnd' ∧ SameParse w w' :=
  enumList_trailing env (by rw [hc]; exact gen_rules_progress) F items cl more w bEnd hall hty hv hy hF

/-! non-vacuity: `A = 1 + f ( 2 , 3 ) ,` is an item -/
example : (EItem.mk { type := "NAME", value := "A", loc := default }
    (some ({ type := "=", value := "=", loc := default },
      [{ type := "INT_CONST_DEC", value := "1", loc := default }, { type := "+", value := "+", loc := default },
       { type := "NAME", value := "f", loc := default }, { type := "(", value := "(", loc := default },
       { type := "INT_CONST_DEC", value := "2", loc := default }, { type := ",", value := ",", loc := default },
       { type := "INT_CONST_DEC", value := "3", loc := default }, { type := ")", value := ")", loc := default }]))
    { type := ",", value := ",", loc := default }).OK := by
  refine ⟨rfl, by decide, .inl rfl, ?_⟩
  intro e v h
  simp only [Option.some.injEq, Prod.mk.injEq] at h
  obtain ⟨rfl, rfl⟩ := h
  refine ⟨rfl, ?_⟩
  exact .atom _ _ (by decide) (by decide) (.atom _ _ (by decide) (by decide) (.atom _ _ (by decide) (by decide)
    (.group "(" ")" ["INT_CONST_DEC", ",", "INT_CONST_DEC"] [] (by decide) (by decide)
      (.atom _ _ (by decide) (by decide) (.atom _ _ (by decide) (by decide) (.atom _ _ (by decide) (by decide) .nil))) .nil)))


theorem C01_using_namespace (env : Env) (pairs : List (Tok × Tok)) (first : Tok) (w : World) (bmid b' : Buf) (term : Tok) (F : Nat)
    (hf : first.type = "NAME") (hall : ∀ p ∈ pairs, p.1.type = "DBL_COLON" ∧ p.2.type = "NAME")
    (hy : Yields env.cfg w.buf (first :: pairs.flatMap (fun p => [p.1, p.2])) bmid)
    (htok : tokenEofOk env.cfg bmid = .ok (some term, b')) (hterm : term.type ≠ "DBL_COLON") (hF : pairs.length + 1 ≤ F) :
    ∃ (w' : World) (t' : Tok), w'.buf = returnToken t' b' ∧ t'.tv = term.tv ∧ SameParse w w' ∧
      interp env (P.parseUsingDirective F) w =
        interp env (P.emit (.usingNamespace (first.value :: pairs.map (·.2.value)))) w' :=
  usingDirective_plain env pairs first w bmid b' term F hf hall hy htok hterm hF

theorem C01_namespace_alias (env : Env) (F : Nat) (tok : CTok) (doxygen : Option String) (inline : Bool)
    (first eq : Tok) (lead : Option Tok) (n1 : Tok) (pairs : List (Tok × Tok)) (semi : Tok) (w : World) (b' : Buf)
    (hf : first.type = "NAME") (heq : eq.type = "=") (hlead : ∀ l, lead = some l → l.type = "DBL_COLON")
    (hn1 : n1.type = "NAME") (hall : ∀ p ∈ pairs, p.1.type = "DBL_COLON" ∧ p.2.type = "NAME") (hsemi : semi.type = ";")
    (hy : Yields env.cfg w.buf (first :: eq :: (lead.toList ++ n1 :: (pairs.flatMap (fun p => [p.1, p.2]) ++ [semi]))) b')
    (hF : pairs.length + 1 ≤ F) :
    ∃ (w' : World) (a : CTok), w'.buf = b' ∧ SameParse w w' ∧ a.value = first.value ∧
      interp env (P.parseNamespace F tok doxygen inline) w =
        interp env (P.nsFinish (.tok tok.sidx) doxygen inline
          (lead.toList.map (·.value) ++ n1.value :: pairs.map (·.2.value)) (some a)) w' :=
  namespace_alias_form env F tok doxygen inline first eq lead n1 pairs semi w b' hf heq hlead hn1 hall hsemi hy hF

theorem C01_using_namespace_decl (env : Env) (F : Nat) (c : P.Core) (tok : CTok) (doxygen : Option String)
    (kw first : Tok) (pairs : List (Tok × Tok)) (term : Tok) (w : World) (bmid b' : Buf)
    (blk : Block) (rest : List Block) (hstack : w.stack = blk :: rest) (hk : blk.view.kind ≠ .cls)
    (hkw : kw.type = "namespace") (hf : first.type = "NAME")
    (hall : ∀ p ∈ pairs, p.1.type = "DBL_COLON" ∧ p.2.type = "NAME")
    (hy : Yields env.cfg w.buf (kw :: first :: pairs.flatMap (fun p => [p.1, p.2])) bmid)
    (htok : tokenEofOk env.cfg bmid = .ok (some term, b')) (hterm : term.type ≠ "DBL_COLON") (hF : pairs.length + 1 ≤ F) :
    ∃ (w' : World) (t' : Tok), w'.buf = returnToken t' b' ∧ t'.tv = term.tv ∧
      SameParse { w with stack := { blk with loc := .tok tok.sidx } :: rest } w' ∧
      interp env (P.parseUsing F c tok doxygen none) w =
        interp env (do
          P.emit (.usingNamespace (first.value :: pairs.map (·.2.value)))
          let _ ← P.nextTokenMustBe [";"]
          pure ()) w' :=
  using_namespace_decl env F c tok doxygen kw first pairs term w bmid b' blk rest hstack hk hkw hf hall hy htok hterm hF

section
open P

theorem C01_toplevel_using_namespace (env : Env) (hc : env.cfg = genLexCfg) (F : Nat) (c : Core) (w : World)
    (kwU kwN first : Tok) (pairs : List (Tok × Tok)) (semi : Tok) (b' : Buf)
    (blk : Block) (rest : List Block) (hstack : w.stack = blk :: rest) (hk : blk.view.kind ≠ .cls)
    (hmu : w.muted = false) (hfa : ¬ env.faultAt = some w.delivered)
    (hU : kwU.type = "using") (hN : kwN.type = "namespace") (hf : first.type = "NAME")
    (hall : ∀ p ∈ pairs, p.1.type = "DBL_COLON" ∧ p.2.type = "NAME") (hsemi : semi.type = ";")
    (hy : Yields env.cfg w.buf (kwU :: ((kwN :: first :: pairs.flatMap (fun p => [p.1, p.2])) ++ [semi])) b')
    (hF : pairs.length + 1 ≤ F) :
    ∃ (w2 : World) (ct : CTok) (ev : Event), interp env (mainBody F c none) w = (w2, .ok (.inl none)) ∧ w2.buf = b' ∧
      ct.value = kwU.value ∧
      w2.stack = { blk with loc := .tok ct.sidx } :: rest ∧ w2.events = w.events ++ [ev] ∧
      ev.kind = .item (.usingNamespace (first.value :: pairs.map (·.2.value))) ∧ ev.stateId = blk.id ∧
      ev.parentId = rest.head?.map (·.id) ∧
      w2.delivered = w.delivered + 1 ∧ w2.anon = w.anon ∧ w2.muted = false :=
  toplevel_using_namespace env (by rw [hc]; exact gen_rules_progress) F c w kwU kwN first pairs semi b' blk rest hstack hk hmu hfa hU hN hf hall hsemi hy hF

end

end Cxx
