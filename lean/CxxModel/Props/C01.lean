/-
  Props/C01.lean — C01: namespace-scope declarations are extracted faithfully.

  The full statement (`parse_string (print ds) = expected ds` for every program of the
  declaration grammar) is carried by the correspondence of the full parser model plus the
  AST-first oracle; it is not yet a theorem (per-form round trips are long-horizon, DESIGN §6).
  Theorems here:
  * `C01_dispatch` / `C01_keep_doxygen`: the main loop's dispatch table and doc-carrying set
    (regenerated from `parse()`) are the ones the model's `mainLoop` implements;
  * `C01_stream_well_formed`: on every input the parser model's callback stream is a
    well-formed traversal (instance of C04), so every reported object sits in the scope of
    the innermost open block — "in the scope where it was written";
  * `C01_result_is_fold`: what `parse_string` returns is the fold of that stream;
  * `C01_each_payload_stored_once`: every item callback of the stream adds exactly one object
    to the result and block callbacks add none: after any stream that folds without error
    the number of stored objects equals the number of item callbacks (nothing lost, nothing
    stored twice) — `Theorems/FoldCount.lean`;
  * `C01_enumerator_list`, `C01_enumerator_list_trailing_comma`: one declaration form proved
    end to end against the real token stream — for EVERY enumerator list `n1 [= v1], …, nk [= vk] }`
    (any length; values with no top-level `,` or `}`; with or without a trailing comma; any
    comments, blank lines or doc blocks between the tokens), `_parse_enumerator_list` over the
    regenerated lexer rules returns one enumerator per item, in order, with the written name
    and exactly the written value tokens (or no value), and leaves the stream right after the
    closing brace (`Theorems/EnumList.lean`);
  * `C01_using_namespace`: a whole declaration form — after `using namespace`, for a qualified
    name `n1 :: … :: nk` of any length, `_parse_using_directive` is exactly "read the name, then
    deliver one `on_using_namespace [n1, …, nk]`" to the innermost open block, and the token
    after the name stays in the stream (`Theorems/UsingDir.lean`);
  * `C01_using_namespace_decl` (`Theorems/UsingDecl.lean`): the same one level up — outside a
    class, `_parse_using` on `namespace n1 :: … :: nk` is exactly "record the `using` token's
    location on the innermost block, deliver one `on_using_namespace`, require `;`";
  * `C01_namespace_alias`: `namespace A = [::] n1 :: … :: nk ;` of any length is exactly "read
    the declaration, then `nsFinish` with the written names and the alias token": one
    `on_namespace_alias` carrying `A` and `[n1, …, nk]` (a leading `::` kept as a first name,
    as the implementation does), or the documented errors (`Theorems/NsForm.lean`).
  * `C01_toplevel_using_namespace` (`Theorems/TopLevel.lean`): the whole declaration through one
    iteration of `parse()`'s loop, on the regenerated rules / dispatch table / keep set: with an
    active visitor that does not raise here, `using namespace n1 :: … :: nk ;` delivers exactly
    ONE callback — `on_using_namespace [n1, …, nk]` for the innermost open block — consumes
    exactly the declaration and changes nothing else but the block's recorded location.
  * `C01_toplevel_using_declaration` (`Theorems/UsingDeclForm.lean`, `PqName.lean`, `TopLevel.lean`): the
    first form through the recursive type/name core — `using n1 :: … :: nk ;` (identifiers, any
    length, any layout between the tokens) through one iteration of the parse loop delivers
    exactly ONE `on_using_declaration` with the written qualified name, the access level in
    force (the innermost class's, none outside a class) and the doc text found; nothing else
    changes but the block's recorded location (and the debug log in verbose mode).
  * `C01_toplevel_variable` (`Theorems/VarDecl.lean`, `TypeName.lean`, `FieldForm.lean`, `TopLevel.lean`):
    a variable declaration through the whole parse loop and the recursive core —
    `T ptr-ops x ;` with `T` a qualified name of identifiers of any length, `ptr-ops` empty or any
    sequence of `*` / `const` / `volatile` starting with `*`, `x` an identifier, any comments and
    blank lines between the tokens.  Outside a class, with an active visitor that does not raise
    here, the iteration delivers exactly ONE `on_variable` for the innermost open block with the
    name `x`, the type the declarator denotes (`applyPtrOps`, characterised by `C02_pointer_level`),
    no value, and the doc text found before the declaration or else behind it; it consumes exactly
    the declaration and hands no doc text on.
  * `C01_declaration_statement` (`Theorems/VarDecls.lean`): statements with ANY NUMBER of declarators —
    `d1 , d2 , … , dn ;` after the type, every `di` being `ptr-ops x`: outside a class, with an active
    visitor that never raises, the declarator loop delivers exactly one `on_variable` per declarator,
    in order, each with its own name and the type ITS chain denotes over the shared base type
    (no pointer level, qualifier or name leaks from one declarator into the next), all to the same
    block, and consumes exactly the statement.
  * `C01_toplevel_variables` (`Theorems/VarDecls.lean`, `TopLevel.lean`): the same statement —
    `T d1 , d2 , … , dn ;` for any n — through the whole of one iteration of the parse loop on the
    regenerated rules, dispatch table and keep set: one `on_variable` per declarator, in order,
    nothing else delivered, the statement consumed exactly, no doc text handed on.
  * `C01_toplevel_typedef` (`Theorems/TypedefForm.lean`, `TopLevel.lean`): `typedef T ptr-ops x ;` through the
    whole parse loop and the recursive core, in any block: exactly ONE `on_typedef` with the name,
    the type the declarator denotes and (in a class body) the access level in force.
  * `C01_toplevel_forward_decl` (`Theorems/FwdDecl.lean`, `TopLevel.lean`): `class N ;` / `struct a::b::N ;` /
    `union N ;` through the whole parse loop and the recursive core, in any block: exactly ONE
    `on_forward_decl` with the written class key and qualified name, the access level in force and
    the doc text found before it.
  * `C01_toplevel_using_alias` (`Theorems/UsingAliasForm.lean`, `TopLevel.lean`): `using A = T ptr-ops ;` through the
    whole parse loop and the recursive core, in any block: exactly ONE `on_using_alias` with the
    alias name, the type the abstract declarator denotes, the access level in force and the doc
    text found before it.
  * `C01_toplevel_enum` (`Theorems/EnumDecl.lean`, `EnumList.lean`, `TopLevel.lean`): `enum [class|struct] N { e1 [= v1] , … } ;`
    through the whole parse loop and the recursive core, in any block, for lists of any length
    with any comments / doc blocks between the items: exactly ONE `on_enum` with the written key
    and qualified name and one enumerator per item, in order, with the written names and exactly
    the written value tokens.
  * `C01_toplevel_function` (`Theorems/FnDecl.lean`, `TopLevel.lean`): `T ptr-ops f ( ) ;` at namespace scope through the
    whole parse loop and the recursive core: exactly ONE `on_function` with the name, the return
    type the declarator prefix denotes, an empty parameter list, no specifiers and no body.
  * `C01_toplevel_function_params` (`Theorems/ParamForm.lean`, `FnDecl.lean`, `TopLevel.lean`): `T ptr-ops f ( p1 , … , pn ) ;`
    at namespace scope, every `pi` a plain parameter `Ti ptr-ops name`, ANY number of them, through
    the whole parse loop and three levels of the recursive core (`_parse_parameters` →
    `_parse_parameter` → `_parse_type` / `_parse_cv_ptr_or_fn`): exactly ONE `on_function` with one
    parameter per item, in order, each with its own name and the type ITS declarator denotes.
-/
import CxxModel.Theorems.DeclGenItems
import CxxModel.Theorems.BaseItems
import CxxModel.Theorems.FinalItems
import CxxModel.Theorems.MembersN
import CxxModel.Tables
import CxxModel.Props.C04
import CxxModel.SimpleFold
import CxxModel.Theorems.FoldCount
import CxxModel.Theorems.EnumList
import CxxModel.Theorems.UsingDir
import CxxModel.Theorems.NsForm
import CxxModel.Theorems.UsingDecl
import CxxModel.GenCfg
import CxxModel.Theorems.TopLevel
import CxxModel.Theorems.VarDecls
import CxxModel.Theorems.WholeParse
namespace Cxx

theorem C01_dispatch : Gen.dispatchTable.length = 20 ∧ Gen.dispatchTable.lookup ";" = some "<lambda:Constant(None)>" ∧
    Gen.dispatchTable.lookup "}" = some "_on_block_end" ∧ Gen.dispatchTable.lookup "NAME" = none := by
  rw [dispatch_table_eq]; decide

theorem C01_keep_doxygen : Gen.keepDoxygen = ["DBL_LBRACKET", "__attribute__", "__declspec", "alignas"] :=
  keep_doxygen_eq

theorem C01_stream_well_formed (env : Env) (hs : ∀ i h, env.skip i h = false) (hf : env.faultAt ≠ some 0)
    (filename : String) (content : Str) (F D : Nat) :
    (track (interp env (P.parserProg F D) (initWorld env filename content).1).1.events).isSome :=
  C04_parser_well_nested env hs hf filename content F D

/-- folding is compositional: the fold of a stream is the fold of its tail from the state
    after its head (so each callback is stored exactly once, in order) -/
theorem C01_fold_cons (e : Event) (rest : List Event) (i : Nat) (fs fs' : FoldState)
    (h : foldStep fs e = .ok fs') : foldEvents (e :: rest) i fs = foldEvents rest (i + 1) fs' := by
  simp [foldEvents, h]

theorem C01_fold_append (a b : List Event) : ∀ (i : Nat) (fs fs' : FoldState),
    foldEvents a i fs = .ok fs' → foldEvents (a ++ b) i fs = foldEvents b (i + a.length) fs' := by
  induction a with
  | nil => intro i fs fs' h; simp [foldEvents] at h; subst h; simp
  | cons e es ih =>
    intro i fs fs' h
    simp only [foldEvents, List.cons_append] at h ⊢
    cases hs : foldStep fs e with
    | error err => simp [hs] at h
    | ok fs1 =>
      simp only [hs] at h ⊢
      rw [ih (i + 1) fs1 fs' h]
      simp only [List.length_cons]
      congr 1
      omega


theorem C01_each_payload_stored_once (evs : List Event) (i : Nat) (fs fs' : FoldState)
    (hn : noParseStart evs = true) (h : foldEvents evs i fs = .ok fs') :
    fs'.total = fs.total + itemCount evs :=
  foldEvents_total evs i fs fs' hn h

theorem C01_one_callback (fs fs' : FoldState) (e : Event) (h : foldStep fs e = .ok fs') :
    fs'.total = (match e.kind with
      | .parseStart => 0
      | .item _ => fs.total + 1
      | _ => fs.total) :=
  foldStep_total fs fs' e h


theorem C01_enumerator_list (env : Env) (hc : env.cfg = genLexCfg) (F : Nat) (pre : List EItem) (last : EItem)
    (more : List Tok) (w : World) (bEnd : Buf)
    (hall : ∀ i ∈ pre, i.OK ∧ i.sep.type = "," ∧ i.toks.length + 2 ≤ F)
    (hlast : last.OK ∧ last.sep.type = "}" ∧ last.toks.length + 2 ≤ F)
    (hy : Yields env.cfg w.buf ((pre ++ [last]).flatMap EItem.toks ++ more) bEnd) (hF : pre.length + 1 ≤ F) :
    ∃ (w' : World) (vs : List Enumerator) (bEnd' : Buf), interp env (P.parseEnumeratorList F) w = (w', .ok vs) ∧
      vs.map Enumerator.nv = (pre ++ [last]).map EItem.nv ∧
      Yields env.cfg w'.buf more bEnd' ∧ SigEq bEnd bEnd' ∧ SameParse w w' :=
  enumList_last env (by rw [hc]; exact gen_rules_progress) F pre last more w bEnd hall hlast hy hF

theorem C01_enumerator_list_trailing_comma (env : Env) (hc : env.cfg = genLexCfg) (F : Nat) (items : List EItem) (cl : Tok)
    (more : List Tok) (w : World) (bEnd : Buf)
    (hall : ∀ i ∈ items, i.OK ∧ i.sep.type = "," ∧ i.toks.length + 2 ≤ F)
    (hty : cl.type = "}") (hv : cl.value = "}")
    (hy : Yields env.cfg w.buf (items.flatMap EItem.toks ++ cl :: more) bEnd) (hF : items.length + 1 ≤ F) :
    ∃ (w' : World) (vs : List Enumerator) (bEnd' : Buf), interp env (P.parseEnumeratorList F) w = (w', .ok vs) ∧
      vs.map Enumerator.nv = items.map EItem.nv ∧
      Yields env.cfg w'.buf more bEnd' ∧ SigEq bEnd bEnd' ∧ SameParse w w' :=
  enumList_trailing env (by rw [hc]; exact gen_rules_progress) F items cl more w bEnd hall hty hv hy hF

/-! non-vacuity: `A = 1 + f ( 2 , 3 ) ,` is an item -/
example : (EItem.mk { type := "NAME", value := "A", loc := default }
    (some ({ type := "=", value := "=", loc := default },
      [{ type := "INT_CONST_DEC", value := "1", loc := default }, { type := "+", value := "+", loc := default },
       { type := "NAME", value := "f", loc := default }, { type := "(", value := "(", loc := default },
       { type := "INT_CONST_DEC", value := "2", loc := default }, { type := ",", value := ",", loc := default },
       { type := "INT_CONST_DEC", value := "3", loc := default }, { type := ")", value := ")", loc := default }]))
    { type := ",", value := ",", loc := default }).OK := by
  refine ⟨rfl, by decide, .inl rfl, ?_⟩
  intro e v h
  simp only [Option.some.injEq, Prod.mk.injEq] at h
  obtain ⟨rfl, rfl⟩ := h
  refine ⟨rfl, ?_⟩
  exact .atom _ _ (by decide) (by decide) (.atom _ _ (by decide) (by decide) (.atom _ _ (by decide) (by decide)
    (.group "(" ")" ["INT_CONST_DEC", ",", "INT_CONST_DEC"] [] (by decide) (by decide)
      (.atom _ _ (by decide) (by decide) (.atom _ _ (by decide) (by decide) (.atom _ _ (by decide) (by decide) .nil))) .nil)))


theorem C01_using_namespace (env : Env) (pairs : List (Tok × Tok)) (first : Tok) (w : World) (bmid b' : Buf) (term : Tok) (F : Nat)
    (hf : first.type = "NAME") (hall : ∀ p ∈ pairs, p.1.type = "DBL_COLON" ∧ p.2.type = "NAME")
    (hy : Yields env.cfg w.buf (first :: pairs.flatMap (fun p => [p.1, p.2])) bmid)
    (htok : tokenEofOk env.cfg bmid = .ok (some term, b')) (hterm : term.type ≠ "DBL_COLON") (hF : pairs.length + 1 ≤ F) :
    ∃ (w' : World) (t' : Tok), w'.buf = returnToken t' b' ∧ t'.tv = term.tv ∧ SameParse w w' ∧
      interp env (P.parseUsingDirective F) w =
        interp env (P.emit (.usingNamespace (first.value :: pairs.map (·.2.value)))) w' :=
  usingDirective_plain env pairs first w bmid b' term F hf hall hy htok hterm hF

theorem C01_namespace_alias (env : Env) (F : Nat) (tok : CTok) (doxygen : Option String) (inline : Bool)
    (first eq : Tok) (lead : Option Tok) (n1 : Tok) (pairs : List (Tok × Tok)) (semi : Tok) (w : World) (b' : Buf)
    (hf : first.type = "NAME") (heq : eq.type = "=") (hlead : ∀ l, lead = some l → l.type = "DBL_COLON")
    (hn1 : n1.type = "NAME") (hall : ∀ p ∈ pairs, p.1.type = "DBL_COLON" ∧ p.2.type = "NAME") (hsemi : semi.type = ";")
    (hy : Yields env.cfg w.buf (first :: eq :: (lead.toList ++ n1 :: (pairs.flatMap (fun p => [p.1, p.2]) ++ [semi]))) b')
    (hF : pairs.length + 1 ≤ F) :
    ∃ (w' : World) (a : CTok), w'.buf = b' ∧ SameParse w w' ∧ a.value = first.value ∧
      interp env (P.parseNamespace F tok doxygen inline) w =
        interp env (P.nsFinish (.tok tok.sidx) doxygen inline
          (lead.toList.map (·.value) ++ n1.value :: pairs.map (·.2.value)) (some a)) w' :=
  namespace_alias_form env F tok doxygen inline first eq lead n1 pairs semi w b' hf heq hlead hn1 hall hsemi hy hF

theorem C01_using_namespace_decl (env : Env) (F : Nat) (c : P.Core) (tok : CTok) (doxygen : Option String)
    (kw first : Tok) (pairs : List (Tok × Tok)) (term : Tok) (w : World) (bmid b' : Buf)
    (blk : Block) (rest : List Block) (hstack : w.stack = blk :: rest) (hk : blk.view.kind ≠ .cls)
    (hkw : kw.type = "namespace") (hf : first.type = "NAME")
    (hall : ∀ p ∈ pairs, p.1.type = "DBL_COLON" ∧ p.2.type = "NAME")
    (hy : Yields env.cfg w.buf (kw :: first :: pairs.flatMap (fun p => [p.1, p.2])) bmid)
    (htok : tokenEofOk env.cfg bmid = .ok (some term, b')) (hterm : term.type ≠ "DBL_COLON") (hF : pairs.length + 1 ≤ F) :
    ∃ (w' : World) (t' : Tok), w'.buf = returnToken t' b' ∧ t'.tv = term.tv ∧
      SameParse { w with stack := { blk with loc := .tok tok.sidx } :: rest } w' ∧
      interp env (P.parseUsing F c tok doxygen none) w =
        interp env (do
          P.emit (.usingNamespace (first.value :: pairs.map (·.2.value)))
          let _ ← P.nextTokenMustBe [";"]
          pure ()) w' :=
  using_namespace_decl env F c tok doxygen kw first pairs term w bmid b' blk rest hstack hk hkw hf hall hy htok hterm hF

section
open P

theorem C01_toplevel_using_namespace (env : Env) (hc : env.cfg = genLexCfg) (F : Nat) (c : Core) (w : World)
    (kwU kwN first : Tok) (pairs : List (Tok × Tok)) (semi : Tok) (b' : Buf)
    (blk : Block) (rest : List Block) (hstack : w.stack = blk :: rest) (hk : blk.view.kind ≠ .cls)
    (hmu : w.muted = false) (hfa : ¬ env.faultAt = some w.delivered)
    (hU : kwU.type = "using") (hN : kwN.type = "namespace") (hf : first.type = "NAME")
    (hall : ∀ p ∈ pairs, p.1.type = "DBL_COLON" ∧ p.2.type = "NAME") (hsemi : semi.type = ";")
    (hy : Yields env.cfg w.buf (kwU :: ((kwN :: first :: pairs.flatMap (fun p => [p.1, p.2])) ++ [semi])) b')
    (hF : pairs.length + 1 ≤ F) :
    ∃ (w2 : World) (ct : CTok) (ev : Event), interp env (mainBody F c none) w = (w2, .ok (.inl none)) ∧ w2.buf = b' ∧
      ct.value = kwU.value ∧
      w2.stack = { blk with loc := .tok ct.sidx } :: rest ∧ w2.events = w.events ++ [ev] ∧
      ev.kind = .item (.usingNamespace (first.value :: pairs.map (·.2.value))) ∧ ev.stateId = blk.id ∧
      ev.parentId = rest.head?.map (·.id) ∧
      w2.delivered = w.delivered + 1 ∧ w2.anon = w.anon ∧ w2.muted = false :=
  toplevel_using_namespace env (by rw [hc]; exact gen_rules_progress) F c w kwU kwN first pairs semi b' blk rest hstack hk hmu hfa hU hN hf hall hsemi hy hF

end

section
open P

theorem C01_toplevel_using_declaration (env : Env) (hc : env.cfg = genLexCfg) (F D : Nat) (w : World)
    (kwU first : Tok) (pairs : List (Tok × Tok)) (semi : Tok) (b' : Buf)
    (blk : Block) (rest : List Block) (hstack : w.stack = blk :: rest)
    (hmu : w.muted = false) (hfa : ¬ env.faultAt = some w.delivered)
    (hU : kwU.type = "using") (hf : first.type = "NAME") (hfv : plainVal first.value = true)
    (hfc : Gen.nameCompoundStart.contains first.value = false)
    (hall : ∀ p ∈ pairs, p.1.type = "DBL_COLON" ∧ p.2.type = "NAME" ∧ plainVal p.2.value = true) (hsemi : semi.type = ";")
    (hy : Yields env.cfg w.buf (kwU :: ((first :: pairs.flatMap (fun p => [p.1, p.2])) ++ [semi])) b')
    (hF : pairs.length + 1 ≤ F) :
    ∃ (d : Option String) (bD : Buf) (w2 : World) (ct : CTok) (ev : Event),
      getDoxygen env.cfg env.mcRe w.buf = .ok (d, bD) ∧
      interp env (mainBody F (core F (D + 1)) none) w = (w2, .ok (.inl none)) ∧ w2.buf = b' ∧
      ct.value = kwU.value ∧
      w2.stack = { blk with loc := .tok ct.sidx } :: rest ∧ w2.events = w.events ++ [ev] ∧
      ev.kind = .item (.usingDeclaration {
        typename := .mk (.name first.value none :: pairs.map (fun p => .name p.2.value none)) none false,
        access := if blk.hdr.kind = .cls then blk.access else none, doxygen := d }) ∧
      ev.stateId = blk.id ∧ ev.parentId = rest.head?.map (·.id) ∧
      w2.delivered = w.delivered + 1 ∧ w2.anon = w.anon ∧ w2.muted = false ∧ w2.nextId = w.nextId :=
  toplevel_using_declaration env (by rw [hc]; exact gen_rules_progress) F D w kwU first pairs semi b' blk rest hstack hmu hfa hU hf hfv hfc hall hsemi hy hF

end

section
open P

theorem C01_toplevel_variable (env : Env) (hc : env.cfg = genLexCfg) (F D : Nat) (w : World)
    (first : Tok) (pairs : List (Tok × Tok)) (ops : List Tok) (x semi : Tok) (d1 : DType) (b1 b0 bmid bx b' : Buf)
    (blk : Block) (rest : List Block) (hstack : w.stack = blk :: rest) (hk : blk.hdr.kind ≠ .cls)
    (hmu : w.muted = false) (hfa : ¬ env.faultAt = some w.delivered)
    (htok : tokenEofOk env.cfg w.buf = .ok (some first, b1))
    (hty : first.type = "NAME") (htv : identVal first.value = true)
    (hall : ∀ p ∈ pairs, p.1.type = "DBL_COLON" ∧ p.2.type = "NAME" ∧ plainVal p.2.value = true)
    (hy0 : Yields env.cfg b1 (pairs.flatMap (fun p => [p.1, p.2])) b0)
    (hops : opsHeadOk ops = true) (hopsv : ∀ o ∈ ops, o.value ≠ "auto")
    (hy : Yields env.cfg b0 ops bmid)
    (ha : applyPtrOps (.type (.mk (.name first.value none :: pairs.map (fun p => .name p.2.value none)) none false) false false)
      (ops.map (·.type)) = some d1)
    (htx : tokenEofOk env.cfg bmid = .ok (some x, bx)) (hx : x.type = "NAME") (hxv : identVal x.value = true)
    (hsemi : tokenEofOk env.cfg bx = .ok (some semi, b')) (hs : semi.type = ";")
    (hF : pairs.length + ops.length + 2 ≤ F) :
    ∃ (d : Option String) (bD : Buf) (w7 : World) (ct : CTok) (dox : Option String) (ev : Event),
      getDoxygen env.cfg env.mcRe w.buf = .ok (d, bD) ∧
      interp env (mainBody F (core F (D + 1 + 1)) none) w = (w7, .ok (.inl none)) ∧
      SigEq b' w7.buf ∧ ct.value = first.value ∧ w7.stack = { blk with loc := .tok ct.sidx } :: rest ∧
      w7.events = w.events ++ [ev] ∧ ev.kind = .item (.variable (plainVariable x d1 dox)) ∧
      ev.stateId = blk.id ∧ ev.parentId = rest.head?.map (·.id) ∧ (∀ dd, d = some dd → dox = some dd) ∧
      w7.delivered = w.delivered + 1 ∧ w7.anon = w.anon ∧ w7.muted = false ∧ w7.nextId = w.nextId :=
  toplevel_variable env (by rw [hc]; exact gen_rules_progress) F D w first pairs ops x semi d1 b1 b0 bmid bx b' blk rest hstack hk hmu hfa
    htok hty htv hall hy0 hops hopsv hy ha htx hx hxv hsemi hs hF

end

section
open P

theorem C01_declaration_statement (env : Env) (hnf : env.faultAt = none) (F D : Nat) (pt : DType) (hpt : isFnType pt = false)
    (blkId : Nat) (hdr : BlockHdr) (hk : hdr.kind ≠ .cls) (rest : List Block) :
    ∀ (ds : List (Dtor × DType)) (last : Dtor × DType) (loc : LocRef) (dox : Option String) (w : World) (b' : Buf) (n : Nat)
      (blk : Block),
    blk.id = blkId → blk.hdr = hdr → w.stack = blk :: rest → w.muted = false →
    (∀ p ∈ ds, p.1.OK pt p.2 ∧ p.1.sep.type = "," ∧ p.1.ops.length + 1 ≤ F) →
    last.1.OK pt last.2 → last.1.sep.type = ";" → last.1.ops.length + 1 ≤ F →
    Yields env.cfg w.buf (ds.flatMap (fun p => p.1.toks) ++ last.1.toks) b' → ds.length + 1 ≤ n →
    ∃ (wF : World) (evs : List Event) (doxs : List (Option String)) (l : LocRef) (blkF : Block),
      interp env (loopN n (loc, dox) (declaratorBody F (core F (D + 1)) pt {} .none false false)) w = (wF, .ok ()) ∧
      SigEq b' wF.buf ∧ wF.stack = blkF :: rest ∧ blkF.id = blkId ∧ blkF.hdr = hdr ∧ blkF = { blk with loc := l } ∧
      wF.events = w.events ++ evs ∧ doxs.length = ds.length + 1 ∧
      evs.map (·.kind) = varKinds (ds ++ [last]) doxs ∧ (∀ e ∈ evs, e.stateId = blkId ∧ e.parentId = rest.head?.map (·.id)) ∧
      (∀ d, dox = some d → doxs.head? = some (some d)) ∧
      wF.delivered = w.delivered + (ds.length + 1) ∧ wF.anon = w.anon ∧ wF.muted = false ∧ wF.nextId = w.nextId :=
  declarators_variables env hnf F D pt hpt blkId hdr hk rest

end

section
open P

theorem C01_toplevel_variables (env : Env) (hc : env.cfg = genLexCfg) (hnf : env.faultAt = none) (F D : Nat) (w : World)
    (first : Tok) (pairs : List (Tok × Tok)) (ds : List (Dtor × DType)) (last : Dtor × DType) (b1 b0 b' : Buf)
    (blk : Block) (rest : List Block) (hstack : w.stack = blk :: rest) (hk : blk.hdr.kind ≠ .cls) (hmu : w.muted = false)
    (htok : tokenEofOk env.cfg w.buf = .ok (some first, b1))
    (hty : first.type = "NAME") (htv : identVal first.value = true)
    (hall : ∀ p ∈ pairs, p.1.type = "DBL_COLON" ∧ p.2.type = "NAME" ∧ plainVal p.2.value = true)
    (hy0 : Yields env.cfg b1 (pairs.flatMap (fun p => [p.1, p.2])) b0)
    (hops : opsHeadOk (firstDtor ds last).ops = true) (hopsv : ∀ o ∈ (firstDtor ds last).ops, o.value ≠ "auto")
    (hds : ∀ p ∈ ds, p.1.OK (.type (.mk (.name first.value none :: pairs.map (fun p => .name p.2.value none)) none false) false false) p.2 ∧
      p.1.sep.type = "," ∧ p.1.ops.length + 1 ≤ F)
    (hlast : last.1.OK (.type (.mk (.name first.value none :: pairs.map (fun p => .name p.2.value none)) none false) false false) last.2)
    (hsep : last.1.sep.type = ";") (hlen : last.1.ops.length + 1 ≤ F)
    (hy : Yields env.cfg b0 (ds.flatMap (fun p => p.1.toks) ++ last.1.toks) b')
    (hF : pairs.length + 2 ≤ F) (hF2 : ds.length + 1 ≤ F) :
    ∃ (d : Option String) (bD : Buf) (wF : World) (evs : List Event) (doxs : List (Option String)) (blkF : Block),
      getDoxygen env.cfg env.mcRe w.buf = .ok (d, bD) ∧
      interp env (mainBody F (core F (D + 1 + 1)) none) w = (wF, .ok (.inl none)) ∧
      SigEq b' wF.buf ∧ wF.stack = blkF :: rest ∧ blkF.id = blk.id ∧ blkF.hdr = blk.hdr ∧
      wF.events = w.events ++ evs ∧ doxs.length = ds.length + 1 ∧
      evs.map (·.kind) = varKinds (ds ++ [last]) doxs ∧ (∀ e ∈ evs, e.stateId = blk.id ∧ e.parentId = rest.head?.map (·.id)) ∧
      (∀ dd, d = some dd → doxs.head? = some (some dd)) ∧
      wF.delivered = w.delivered + (ds.length + 1) ∧ wF.anon = w.anon ∧ wF.muted = false ∧ wF.nextId = w.nextId :=
  toplevel_variables env (by rw [hc]; exact gen_rules_progress) hnf F D w first pairs ds last b1 b0 b' blk rest hstack hk hmu
    htok hty htv hall hy0 hops hopsv hds hlast hsep hlen hy hF hF2

end

/-! non-vacuity of `C01_toplevel_variable`: a stream holding `T /* c */ * const x ;` meets its stream
    hypotheses, `T` and `x` are identifiers, and the declarator denotes `T * const` -/
private def tkv (ty v : String) : Tok := { type := ty, value := v, loc := default, sidx := 0 }

private theorem tokenEofOk_pop' (cfg : LexCfg) (b : Buf) (t : Tok) (rest : List Tok)
    (h : popSignificant isDiscard b.tokbuf = some (t, rest)) :
    tokenEofOk cfg b = .ok (some t, { b with tokbuf := rest }) := by
  simp only [tokenEofOk, fuelFor, nextTok, h]

example (cfg : LexCfg) (n : PQName) :
    let B : List Tok → Buf := fun l => { tokbuf := l, lex := { rest := [] }, bounded := true }
    tokenEofOk cfg (B [tkv "NAME" "T", tkv "WHITESPACE" " ", tkv "COMMENT_MULTILINE" "/* c */", tkv "*" "*", tkv "const" "const",
        tkv "WHITESPACE" " ", tkv "NAME" "x", tkv ";" ";"]) =
      .ok (some (tkv "NAME" "T"), B [tkv "WHITESPACE" " ", tkv "COMMENT_MULTILINE" "/* c */", tkv "*" "*", tkv "const" "const",
        tkv "WHITESPACE" " ", tkv "NAME" "x", tkv ";" ";"]) ∧
    Yields cfg (B [tkv "WHITESPACE" " ", tkv "COMMENT_MULTILINE" "/* c */", tkv "*" "*", tkv "const" "const",
        tkv "WHITESPACE" " ", tkv "NAME" "x", tkv ";" ";"]) [tkv "*" "*", tkv "const" "const"]
      (B [tkv "WHITESPACE" " ", tkv "NAME" "x", tkv ";" ";"]) ∧
    tokenEofOk cfg (B [tkv "WHITESPACE" " ", tkv "NAME" "x", tkv ";" ";"]) = .ok (some (tkv "NAME" "x"), B [tkv ";" ";"]) ∧
    tokenEofOk cfg (B [tkv ";" ";"]) = .ok (some (tkv ";" ";"), B []) ∧
    identVal "T" = true ∧ identVal "x" = true ∧ opsHeadOk [tkv "*" "*", tkv "const" "const"] = true ∧
    applyPtrOps (.type n false false) ([tkv "*" "*", tkv "const" "const"].map (·.type)) =
      some (.ptr (.type n false false) true false) := by
  refine ⟨tokenEofOk_pop' cfg _ _ _ (by decide), ?_, tokenEofOk_pop' cfg _ _ _ (by decide), tokenEofOk_pop' cfg _ _ _ (by decide),
    by decide, by decide, by decide, by simp [applyPtrOps, ptrStep, P.isRefLike, P.setConst, tkv]⟩
  exact .cons (tokenEofOk_pop' cfg _ _ [tkv "const" "const", tkv "WHITESPACE" " ", tkv "NAME" "x", tkv ";" ";"] (by decide))
    (.cons (tokenEofOk_pop' cfg _ _ [tkv "WHITESPACE" " ", tkv "NAME" "x", tkv ";" ";"] (by decide)) (.nil _))

section
open P

theorem C01_toplevel_typedef (env : Env) (hc : env.cfg = genLexCfg) (F D : Nat) (w : World)
    (kw first : Tok) (pairs : List (Tok × Tok)) (ops : List Tok) (x semi : Tok) (d1 : DType) (bk b1 b0 bmid bx b' : Buf)
    (blk : Block) (rest : List Block) (hstack : w.stack = blk :: rest) (hxne : x.value ≠ "")
    (hmu : w.muted = false) (hfa : ¬ env.faultAt = some w.delivered)
    (htkw : tokenEofOk env.cfg w.buf = .ok (some kw, bk)) (hkw : kw.type = "typedef")
    (htok : tokenEofOk env.cfg bk = .ok (some first, b1))
    (hty : first.type = "NAME") (htv : identVal first.value = true)
    (hall : ∀ p ∈ pairs, p.1.type = "DBL_COLON" ∧ p.2.type = "NAME" ∧ plainVal p.2.value = true)
    (hy0 : Yields env.cfg b1 (pairs.flatMap (fun p => [p.1, p.2])) b0)
    (hops : opsHeadOk ops = true) (hopsv : ∀ o ∈ ops, o.value ≠ "auto")
    (hy : Yields env.cfg b0 ops bmid)
    (ha : applyPtrOps (.type (.mk (.name first.value none :: pairs.map (fun p => .name p.2.value none)) none false) false false)
      (ops.map (·.type)) = some d1)
    (htx : tokenEofOk env.cfg bmid = .ok (some x, bx)) (hx : x.type = "NAME") (hxv : identVal x.value = true)
    (hsemi : tokenEofOk env.cfg bx = .ok (some semi, b')) (hs : semi.type = ";")
    (hF : pairs.length + ops.length + 2 ≤ F) :
    ∃ (w7 : World) (ct : CTok) (ev : Event),
      interp env (mainBody F (core F (D + 1 + 1)) none) w = (w7, .ok (.inl none)) ∧
      SigEq b' w7.buf ∧ ct.value = first.value ∧ w7.stack = { blk with loc := .tok ct.sidx } :: rest ∧
      w7.events = w.events ++ [ev] ∧ ev.kind = .item (.typedef (plainTypedef x d1 blk)) ∧
      ev.stateId = blk.id ∧ ev.parentId = rest.head?.map (·.id) ∧
      w7.delivered = w.delivered + 1 ∧ w7.anon = w.anon ∧ w7.muted = false ∧ w7.nextId = w.nextId :=
  toplevel_typedef env (by rw [hc]; exact gen_rules_progress) F D w kw first pairs ops x semi d1 bk b1 b0 bmid bx b' blk rest hstack hxne hmu hfa
    htkw hkw htok hty htv hall hy0 hops hopsv hy ha htx hx hxv hsemi hs hF

end

section
open P

theorem C01_toplevel_forward_decl (env : Env) (hc : env.cfg = genLexCfg) (F D : Nat) (w : World)
    (kw first : Tok) (pairs : List (Tok × Tok)) (semi : Tok) (bk b1 bmid b' : Buf)
    (blk : Block) (rest : List Block) (hstack : w.stack = blk :: rest)
    (hmu : w.muted = false) (hfa : ¬ env.faultAt = some w.delivered)
    (htkw : tokenEofOk env.cfg w.buf = .ok (some kw, bk)) (hkw : isClassKey kw.value = true) (hkwt : kw.type = kw.value)
    (htf : tokenEofOk env.cfg bk = .ok (some first, b1)) (hf : first.type = "NAME") (hfv : plainVal first.value = true)
    (hall : ∀ p ∈ pairs, p.1.type = "DBL_COLON" ∧ p.2.type = "NAME" ∧ plainVal p.2.value = true)
    (hy : Yields env.cfg b1 (pairs.flatMap (fun p => [p.1, p.2])) bmid)
    (htok : tokenEofOk env.cfg bmid = .ok (some semi, b')) (hs : semi.type = ";") (hF : pairs.length + 2 ≤ F) :
    ∃ (d : Option String) (bD : Buf) (w7 : World) (ct : CTok) (ev : Event),
      getDoxygen env.cfg env.mcRe w.buf = .ok (d, bD) ∧
      interp env (mainBody F (core F (D + 1 + 1)) none) w = (w7, .ok (.inl none)) ∧
      w7.buf = b' ∧ w7.stack = { blk with loc := .tok ct.sidx } :: rest ∧
      w7.events = w.events ++ [ev] ∧ ev.kind = .item (.forwardDecl (plainFwd kw.value first pairs blk d)) ∧
      ev.stateId = blk.id ∧ ev.parentId = rest.head?.map (·.id) ∧
      w7.delivered = w.delivered + 1 ∧ w7.anon = w.anon ∧ w7.muted = false ∧ w7.nextId = w.nextId :=
  toplevel_forward_decl env (by rw [hc]; exact gen_rules_progress) F D w kw first pairs semi bk b1 bmid b' blk rest hstack hmu hfa
    htkw hkw hkwt htf hf hfv hall hy htok hs hF

end

section
open P

theorem C01_toplevel_using_alias (env : Env) (hc : env.cfg = genLexCfg) (F D : Nat) (w : World)
    (kw a eq first : Tok) (pairs : List (Tok × Tok)) (ops : List Tok) (semi : Tok) (d1 : DType) (bk ba bq b1 b0 bmid b' : Buf)
    (blk : Block) (rest : List Block) (hstack : w.stack = blk :: rest)
    (hmu : w.muted = false) (hfa : ¬ env.faultAt = some w.delivered)
    (htkw : tokenEofOk env.cfg w.buf = .ok (some kw, bk)) (hkw : kw.type = "using")
    (hta : tokenEofOk env.cfg bk = .ok (some a, ba)) (ha : a.type = "NAME")
    (hte : tokenEofOk env.cfg ba = .ok (some eq, bq)) (heq : eq.type = "=")
    (htf : tokenEofOk env.cfg bq = .ok (some first, b1)) (hf : first.type = "NAME") (hfv : identVal first.value = true)
    (hall : ∀ p ∈ pairs, p.1.type = "DBL_COLON" ∧ p.2.type = "NAME" ∧ plainVal p.2.value = true)
    (hy0 : Yields env.cfg b1 (pairs.flatMap (fun p => [p.1, p.2])) b0)
    (hops : opsHeadOk ops = true)
    (hy : Yields env.cfg b0 ops bmid)
    (hap : applyPtrOps (.type (.mk (.name first.value none :: pairs.map (fun p => .name p.2.value none)) none false) false false)
      (ops.map (·.type)) = some d1)
    (hsemi : tokenEofOk env.cfg bmid = .ok (some semi, b')) (hs : semi.type = ";")
    (hF : pairs.length + ops.length + 2 ≤ F) :
    ∃ (d : Option String) (bD : Buf) (w7 : World) (ct : CTok) (ev : Event),
      getDoxygen env.cfg env.mcRe w.buf = .ok (d, bD) ∧
      interp env (mainBody F (core F (D + 1 + 1)) none) w = (w7, .ok (.inl none)) ∧
      w7.buf = b' ∧ ct.value = kw.value ∧ w7.stack = { blk with loc := .tok ct.sidx } :: rest ∧
      w7.events = w.events ++ [ev] ∧ ev.kind = .item (.usingAlias (plainAlias a d1 blk d)) ∧
      ev.stateId = blk.id ∧ ev.parentId = rest.head?.map (·.id) ∧
      w7.delivered = w.delivered + 1 ∧ w7.anon = w.anon ∧ w7.muted = false ∧ w7.nextId = w.nextId :=
  toplevel_using_alias env (by rw [hc]; exact gen_rules_progress) F D w kw a eq first pairs ops semi d1 bk ba bq b1 b0 bmid b' blk rest hstack hmu hfa
    htkw hkw hta ha hte heq htf hf hfv hall hy0 hops hy hap hsemi hs hF

end

section
open P

theorem C01_toplevel_enum (env : Env) (hc : env.cfg = genLexCfg) (F D : Nat) (w : World)
    (kw : Tok) (cs : Option Tok) (first : Tok) (pairs : List (Tok × Tok)) (ob : Tok) (pre : List EItem) (last : EItem) (semi : Tok)
    (bk b0 b1 bmid bl bEnd : Buf)
    (blk : Block) (rest : List Block) (hstack : w.stack = blk :: rest)
    (hacc : blk.hdr.kind = .cls → ∃ a, blk.access = some a)
    (hmu : w.muted = false) (hfa : ¬ env.faultAt = some w.delivered)
    (htkw : tokenEofOk env.cfg w.buf = .ok (some kw, bk)) (hkw : kw.value = "enum") (hkwt : kw.type = "enum")
    (hcs : match cs with
      | none => b0 = bk
      | some c => tokenEofOk env.cfg bk = .ok (some c, b0) ∧ (c.type = "class" ∨ c.type = "struct"))
    (hcsv : ∀ c, cs = some c → c.value = c.type)
    (htf : tokenEofOk env.cfg b0 = .ok (some first, b1)) (hf : first.type = "NAME") (hfv : plainVal first.value = true)
    (hall : ∀ p ∈ pairs, p.1.type = "DBL_COLON" ∧ p.2.type = "NAME" ∧ plainVal p.2.value = true)
    (hy : Yields env.cfg b1 (pairs.flatMap (fun p => [p.1, p.2])) bmid)
    (htob : tokenEofOk env.cfg bmid = .ok (some ob, bl)) (hob : ob.type = "{")
    (hpre : ∀ i ∈ pre, i.OK ∧ i.sep.type = "," ∧ i.toks.length + 2 ≤ F)
    (hlast : last.OK ∧ last.sep.type = "}" ∧ last.toks.length + 2 ≤ F)
    (hyl : Yields env.cfg bl ((pre ++ [last]).flatMap EItem.toks ++ [semi]) bEnd) (hs : semi.type = ";")
    (hF : pairs.length + 2 ≤ F) (hF2 : pre.length + 1 ≤ F) :
    ∃ (d : Option String) (bD : Buf) (w7 : World) (ct : CTok) (vs : List Enumerator) (ev : Event),
      getDoxygen env.cfg env.mcRe w.buf = .ok (d, bD) ∧
      interp env (mainBody F (core F (D + 1 + 1)) none) w = (w7, .ok (.inl none)) ∧
      vs.map Enumerator.nv = (pre ++ [last]).map EItem.nv ∧
      SigEq bEnd w7.buf ∧ w7.stack = { blk with loc := .tok ct.sidx } :: rest ∧
      w7.events = w.events ++ [ev] ∧ ev.kind = .item (.enum (plainEnum cs first pairs vs blk d)) ∧
      ev.stateId = blk.id ∧ ev.parentId = rest.head?.map (·.id) ∧
      w7.delivered = w.delivered + 1 ∧ w7.anon = w.anon ∧ w7.muted = false ∧ w7.nextId = w.nextId :=
  toplevel_enum env (by rw [hc]; exact gen_rules_progress) F D w kw cs first pairs ob pre last semi bk b0 b1 bmid bl bEnd blk rest hstack hacc hmu hfa
    htkw hkw hkwt hcs hcsv htf hf hfv hall hy htob hob hpre hlast hyl hs hF hF2

end

section
open P

theorem C01_toplevel_function (env : Env) (hc : env.cfg = genLexCfg) (F D : Nat) (w : World)
    (first : Tok) (pairs : List (Tok × Tok)) (ops : List Tok) (x op cp semi : Tok) (d1 : DType) (b1 b0 bmid bx bo bc b' : Buf)
    (blk : Block) (rest : List Block) (hstack : w.stack = blk :: rest) (hk : blk.hdr.kind ≠ .cls)
    (hmu : w.muted = false) (hfa : ¬ env.faultAt = some w.delivered)
    (htok : tokenEofOk env.cfg w.buf = .ok (some first, b1))
    (hty : first.type = "NAME") (htv : identVal first.value = true)
    (hall : ∀ p ∈ pairs, p.1.type = "DBL_COLON" ∧ p.2.type = "NAME" ∧ plainVal p.2.value = true)
    (hy0 : Yields env.cfg b1 (pairs.flatMap (fun p => [p.1, p.2])) b0)
    (hops : opsHeadOk ops = true) (hopsv : ∀ o ∈ ops, o.value ≠ "auto")
    (hy : Yields env.cfg b0 ops bmid)
    (ha : applyPtrOps (.type (.mk (.name first.value none :: pairs.map (fun p => .name p.2.value none)) none false) false false)
      (ops.map (·.type)) = some d1)
    (htx : tokenEofOk env.cfg bmid = .ok (some x, bx)) (hx : x.type = "NAME") (hxv : identVal x.value = true)
    (hto : tokenEofOk env.cfg bx = .ok (some op, bo)) (hop : op.type = "(")
    (htc : tokenEofOk env.cfg bo = .ok (some cp, bc)) (hcp : cp.type = ")")
    (hsemi : tokenEofOk env.cfg bc = .ok (some semi, b')) (hs : semi.type = ";")
    (hF : pairs.length + ops.length + 2 ≤ F) :
    ∃ (d : Option String) (bD : Buf) (w7 : World) (ct : CTok) (ev : Event),
      getDoxygen env.cfg env.mcRe w.buf = .ok (d, bD) ∧
      interp env (mainBody F (core F (D + 1 + 1)) none) w = (w7, .ok (.inl none)) ∧
      w7.buf = b' ∧ ct.value = first.value ∧ w7.stack = { blk with loc := .tok ct.sidx } :: rest ∧
      w7.events = w.events ++ [ev] ∧ ev.kind = .item (.function (plainFunction x d1 d)) ∧
      ev.stateId = blk.id ∧ ev.parentId = rest.head?.map (·.id) ∧
      w7.delivered = w.delivered + 1 ∧ w7.anon = w.anon ∧ w7.muted = false ∧ w7.nextId = w.nextId :=
  toplevel_function env (by rw [hc]; exact gen_rules_progress) F D w first pairs ops x op cp semi d1 b1 b0 bmid bx bo bc b' blk rest hstack hk hmu hfa
    htok hty htv hall hy0 hops hopsv hy ha htx hx hxv hto hop htc hcp hsemi hs hF

end

section
open P

theorem C01_toplevel_function_params (env : Env) (hc : env.cfg = genLexCfg) (F D : Nat) (w : World)
    (first : Tok) (pairs : List (Tok × Tok)) (ops : List Tok) (x op : Tok) (ps : List (PItem × DType × Tok)) (last : PItem × DType) (cp semi : Tok) (d1 : DType) (b1 b0 bmid bx bo bc b' : Buf)
    (blk : Block) (rest : List Block) (hstack : w.stack = blk :: rest) (hk : blk.hdr.kind ≠ .cls)
    (hmu : w.muted = false) (hfa : ¬ env.faultAt = some w.delivered)
    (htok : tokenEofOk env.cfg w.buf = .ok (some first, b1))
    (hty : first.type = "NAME") (htv : identVal first.value = true)
    (hall : ∀ p ∈ pairs, p.1.type = "DBL_COLON" ∧ p.2.type = "NAME" ∧ plainVal p.2.value = true)
    (hy0 : Yields env.cfg b1 (pairs.flatMap (fun p => [p.1, p.2])) b0)
    (hops : opsHeadOk ops = true) (hopsv : ∀ o ∈ ops, o.value ≠ "auto")
    (hy : Yields env.cfg b0 ops bmid)
    (ha : applyPtrOps (.type (.mk (.name first.value none :: pairs.map (fun p => .name p.2.value none)) none false) false false)
      (ops.map (·.type)) = some d1)
    (htx : tokenEofOk env.cfg bmid = .ok (some x, bx)) (hx : x.type = "NAME") (hxv : identVal x.value = true)
    (hto : tokenEofOk env.cfg bx = .ok (some op, bo)) (hop : op.type = "(")
    (hallp : ∀ q ∈ ps, q.1.OK q.2.1 ∧ q.2.2.type = "," ∧ q.2.2.value ≠ ")" ∧ q.1.pairs.length + q.1.ops.length + 2 ≤ F)
    (hlastp : last.1.OK last.2) (hlF : last.1.pairs.length + last.1.ops.length + 2 ≤ F) (hcp : cp.type = ")") (hcpv : cp.value = ")")
    (hyp : Yields env.cfg bo (ps.flatMap (fun q => q.1.toks ++ [q.2.2]) ++ (last.1.toks ++ [cp])) bc) (hFp : ps.length + 1 ≤ F)
    (hsemi : tokenEofOk env.cfg bc = .ok (some semi, b')) (hs : semi.type = ";")
    (hF : pairs.length + ops.length + 2 ≤ F) :
    ∃ (d : Option String) (bD : Buf) (w7 : World) (ct : CTok) (ev : Event),
      getDoxygen env.cfg env.mcRe w.buf = .ok (d, bD) ∧
      interp env (mainBody F (core F (D + 1 + 1 + 1 + 1)) none) w = (w7, .ok (.inl none)) ∧
      w7.buf = b' ∧ ct.value = first.value ∧ w7.stack = { blk with loc := .tok ct.sidx } :: rest ∧
      w7.events = w.events ++ [ev] ∧ ev.kind = .item (.function { plainFunction x d1 d with
        parameters := ps.map (fun q => q.1.param q.2.1) ++ [last.1.param last.2] }) ∧
      ev.stateId = blk.id ∧ ev.parentId = rest.head?.map (·.id) ∧
      w7.delivered = w.delivered + 1 ∧ w7.anon = w.anon ∧ w7.muted = false ∧ w7.nextId = w.nextId :=
  toplevel_function_params env (by rw [hc]; exact gen_rules_progress) F D w first pairs ops x op ps last cp semi d1 b1 b0 bmid bx bo bc b' blk rest hstack hk hmu hfa
    htok hty htv hall hy0 hops hopsv hy ha htx hx hxv hto hop hallp hlastp hlF hcp hcpv hyp hFp hsemi hs hF

end

/-! ### whole sources -/

/-- **C01 for whole sources** (`Theorems/WholeParse.lean`): over the regenerated lexer rules, for a
    visitor that neither raises nor skips, the COMPLETE run `CxxParser(...).parse()` on ANY source
    whose significant tokens form an `Item` — any number of declarations of the proven forms in any
    order, namespaces, extern blocks and classes nested to any depth, any layout and comments —
    returns normally and delivers `on_parse_start` followed by exactly the item's callbacks:
    one per declaration, in source order, each in the scope it was written in. -/
theorem C01_whole_source (env : Env) (hc : env.cfg = genLexCfg) (hnf : env.faultAt = none) (F D : Nat)
    (it : Item env F (P.core F D)) (filename : String) (content : Str) (bE bEE : Buf)
    (hat : it.At { tokbuf := [], lex := { rest := content, filename := some filename } } bE)
    (heof : tokenEofOk env.cfg bE = .ok (none, bEE)) (hF : it.size + 1 ≤ F) :
    ∃ (wF : World) (start : Event) (evs : List Event),
      runParse env filename content (P.parserProg F D) = (wF, .ok) ∧ wF.events = start :: evs ∧
      start.kind = .parseStart ∧ it.Ev globalBlock [] evs ∧ (∃ g, wF.stack = [g] ∧ g.id = 0 ∧ g.isGlobal = true) :=
  parse_source env (by rw [hc]; exact gen_rules_progress) hnf F D it filename content bE bEE hat heof hF

/-- **the loop is the sequence of its items**: from any state at non-class scope with an active
    visitor, a source piece made of the items `its` runs all their iterations and the callbacks
    added are the items' groups, one per item, in order (`SeqEv`) -/
theorem C01_sequence (env : Env) (F : Nat) (c : P.Core) (its : List (Item env F c)) (w : World) (b' : Buf) (blk : Block)
    (rest : List Block) (hst : w.stack = blk :: rest) (hk : blk.hdr.kind ≠ .cls) (hmu : w.muted = false)
    (hat : SeqAt its w.buf b') :
    ∃ (w7 : World) (evs : List Event), Ran env F c w (seqSize its) b' blk rest evs w7 ∧ SeqEv blk rest its evs :=
  seq_sound its w b' blk rest hst hk hmu hat

/-- any number of `T ptr-ops x ;` declarations: one `on_variable` each, in order, to the end of input -/
theorem C01_variable_sequence (env : Env) (hc : env.cfg = genLexCfg) (hnf : env.faultAt = none) (F D : Nat)
    (rest : List Block) (vs : List VarDeclToks) (w : World) (b bE bEE : Buf) (blk : Block)
    (hst : w.stack = blk :: rest) (hk : blk.hdr.kind ≠ .cls) (hmu : w.muted = false)
    (hsig : SigEq b w.buf) (hvs : VarDeclsAt env.cfg b vs bE) (heof : tokenEofOk env.cfg bE = .ok (none, bEE))
    (hF : ∀ v ∈ vs, v.pairs.length + v.ops.length + 2 ≤ F) (hn : vs.length + 1 ≤ F) :
    ∃ (wF : World) (evs : List Event) (blkF : Block),
      interp env (P.mainLoop F (P.core F (D + 1 + 1))) w = (wF, .ok ()) ∧
      wF.events = w.events ++ evs ∧ OneEach (VarEventFor blk.id (rest.head?.map (·.id))) evs vs ∧
      wF.stack = blkF :: rest ∧ blkF.hdr = blk.hdr ∧ blkF.id = blk.id ∧
      wF.delivered = w.delivered + vs.length ∧ wF.anon = w.anon ∧ wF.muted = false ∧ wF.nextId = w.nextId :=
  parse_variable_sequence env (by rw [hc]; exact gen_rules_progress) hnf F D rest vs w b bE bEE blk hst hk hmu hsig hvs heof hF hn


section
open P

/-- **`S ptr-ops f ( parameters ) ;` through `parse()`'s loop for ANY return-type specifier `S` (`TypeSpecR`) and ANY
    parameter list `_parse_parameters` decodes**: exactly ONE `on_function` with the return type the chain denotes over
    the type `S` denotes and exactly those parameters -/
theorem C01_function_general (env : Env) (hp : RulesProgress env.cfg = true) (F D : Nat) (w : World)
    (toks : List Tok) (first : Tok) (trest : List Tok) (segs : List PQSeg) (cst vol : Bool) (ops : List Tok) (x op : Tok) (plist : List Param) (semi : Tok) (d1 : DType) (b1 b0 bmid bx bo bc b' : Buf)
    (blk : Block) (rest : List Block) (hstack : w.stack = blk :: rest) (hk : blk.hdr.kind ≠ .cls)
    (hmu : w.muted = false) (hfa : ¬ env.faultAt = some w.delivered)
    (hspec : TypeSpecR env F (D + 1 + 1) toks segs cst vol) (htoks : toks = first :: trest) (hfirst : specFirst first.type = true)
    (htok : tokenEofOk env.cfg w.buf = .ok (some first, b1))
    (hy0 : Yields env.cfg b1 trest b0)
    (hops : opsHeadOk ops = true) (hopsv : ∀ o ∈ ops, o.value ≠ "auto")
    (hy : Yields env.cfg b0 ops bmid)
    (ha : applyPtrOps (.type (.mk segs none false) cst vol) (ops.map (·.type)) = some d1)
    (htx : tokenEofOk env.cfg bmid = .ok (some x, bx)) (hx : x.type = "NAME") (hxv : identVal x.value = true)
    (hto : tokenEofOk env.cfg bx = .ok (some op, bo)) (hop : op.type = "(")
    (hparams : ∀ W : World, W.buf = bo → ∃ w7, interp env (parseParametersStep F (core F (D + 1 + 1 + 1)) true) W = (w7, .ok (plist, false, [])) ∧
      SameButLog W w7 ∧ w7.buf = bc)
    (hsemi : tokenEofOk env.cfg bc = .ok (some semi, b')) (hs : semi.type = ";")
    (hF : ops.length + 2 ≤ F) :
    ∃ (d : Option String) (bD : Buf) (w7 : World) (ct : CTok) (ev : Event),
      getDoxygen env.cfg env.mcRe w.buf = .ok (d, bD) ∧
      interp env (mainBody F (core F (D + 1 + 1 + 1 + 1)) none) w = (w7, .ok (.inl none)) ∧
      w7.buf = b' ∧ ct.value = first.value ∧ w7.stack = { blk with loc := .tok ct.sidx } :: rest ∧
      w7.events = w.events ++ [ev] ∧ ev.kind = .item (.function { plainFunction x d1 d with
        parameters := plist }) ∧
      ev.stateId = blk.id ∧ ev.parentId = rest.head?.map (·.id) ∧
      w7.delivered = w.delivered + 1 ∧ w7.anon = w.anon ∧ w7.muted = false ∧ w7.nextId = w.nextId :=
  toplevel_function_gen env hp F D w toks first trest segs cst vol ops x op plist semi d1 b1 b0 bmid bx bo bc b' blk rest hstack hk hmu hfa hspec htoks hfirst htok hy0 hops hopsv hy ha htx hx hxv hto hop hparams hsemi hs hF

end

section
open P

/-- **`S d1 , … , dn ;` through `parse()`'s loop**, any type specifier, ANY NUMBER of declarators each with its own prefix
    (`const T * a , & b , * const * c ;`): exactly one `on_variable` per declarator, in order, each with its own name and the
    type ITS prefix denotes over the shared type — nothing leaks from one declarator into the next -/
theorem C01_declaration_statement_general (env : Env) (hp : RulesProgress env.cfg = true) (hnf : env.faultAt = none) (F D : Nat) (w : World)
    (toks : List Tok) (first : Tok) (trest : List Tok) (segs : List PQSeg) (cst vol : Bool) (ds : List (Dtor × DType)) (last : Dtor × DType) (b1 b0 b' : Buf)
    (blk : Block) (rest : List Block) (hstack : w.stack = blk :: rest) (hk : blk.hdr.kind ≠ .cls) (hmu : w.muted = false)
    (hspec : TypeSpecR env F D toks segs cst vol) (hspectoks : toks = first :: trest) (hfirst : specFirst first.type = true)
    (htok : tokenEofOk env.cfg w.buf = .ok (some first, b1))
    (hy0 : Yields env.cfg b1 trest b0)
    (hhead : ∀ o ∈ (firstDtor ds last).ops.head?, declStart o.type = true ∧ o.value ≠ "auto")
    (hds : ∀ p ∈ ds, p.1.OKp env F (D + 1) (.type (.mk segs none false) cst vol) p.2 ∧ p.1.sep.type = ",")
    (hlast : last.1.OKp env F (D + 1) (.type (.mk segs none false) cst vol) last.2)
    (hsep : last.1.sep.type = ";")
    (hy : Yields env.cfg b0 (ds.flatMap (fun p => p.1.toks) ++ last.1.toks) b')
    (hF : 2 ≤ F) (hF2 : ds.length + 1 ≤ F) :
    ∃ (d : Option String) (bD : Buf) (wF : World) (evs : List Event) (doxs : List (Option String)) (blkF : Block),
      getDoxygen env.cfg env.mcRe w.buf = .ok (d, bD) ∧
      interp env (mainBody F (core F (D + 1 + 1)) none) w = (wF, .ok (.inl none)) ∧
      SigEq b' wF.buf ∧ wF.stack = blkF :: rest ∧ blkF.id = blk.id ∧ blkF.hdr = blk.hdr ∧
      wF.events = w.events ++ evs ∧ doxs.length = ds.length + 1 ∧
      evs.map (·.kind) = varKinds (ds ++ [last]) doxs ∧ (∀ e ∈ evs, e.stateId = blk.id ∧ e.parentId = rest.head?.map (·.id)) ∧
      (∀ dd, d = some dd → doxs.head? = some (some dd)) ∧
      wF.delivered = w.delivered + (ds.length + 1) ∧ wF.anon = w.anon ∧ wF.muted = false ∧ wF.nextId = w.nextId ∧
      ∃ l, blkF = { blk with loc := l } :=
  toplevel_variables_pre env hp hnf F D w toks first trest segs cst vol ds last b1 b0 b' blk rest hstack hk hmu hspec hspectoks hfirst htok hy0 hhead hds hlast hsep hy hF hF2

/-- **`typedef S prefix x ;` through `parse()`'s loop**, any type specifier, any declarator prefix, in any block: exactly ONE
    `on_typedef` with the name `x` and the type the prefix denotes over the type `S` denotes -/
theorem C01_typedef_general (env : Env) (hp : RulesProgress env.cfg = true) (F D : Nat) (w : World)
    (kw : Tok) (toks : List Tok) (first : Tok) (trest : List Tok) (segs : List PQSeg) (cst vol : Bool) (pre : List (String × String)) (ops : List Tok) (x semi : Tok) (d1 : DType) (bk b1 b0 bmid bx b' : Buf)
    (blk : Block) (rest : List Block) (hstack : w.stack = blk :: rest) (hxne : x.value ≠ "")
    (hmu : w.muted = false) (hfa : ¬ env.faultAt = some w.delivered)
    (htkw : tokenEofOk env.cfg w.buf = .ok (some kw, bk)) (hkw : kw.type = "typedef")
    (htok : tokenEofOk env.cfg bk = .ok (some first, b1))
    (hspec : TypeSpecR env F D toks segs cst vol) (htoks : toks = first :: trest)
    (hy0 : Yields env.cfg b1 trest b0)
    (hhead : ∀ p ∈ pre.head?, declStart p.1 = true ∧ p.2 ≠ "auto")
    (hy : Yields env.cfg b0 ops bmid)
    (hpre : PrefixSpec env F (D + 1) (.type (.mk segs none false) cst vol) pre d1) (hfn : isFnType d1 = false) (hops : tvs ops = pre)
    (htx : tokenEofOk env.cfg bmid = .ok (some x, bx)) (hx : x.type = "NAME") (hxv : identVal x.value = true)
    (hsemi : tokenEofOk env.cfg bx = .ok (some semi, b')) (hs : semi.type = ";")
    (hF : 2 ≤ F) :
    ∃ (w7 : World) (ct : CTok) (ev : Event),
      interp env (mainBody F (core F (D + 1 + 1)) none) w = (w7, .ok (.inl none)) ∧
      SigEq b' w7.buf ∧ ct.value = first.value ∧ w7.stack = { blk with loc := .tok ct.sidx } :: rest ∧
      w7.events = w.events ++ [ev] ∧ ev.kind = .item (.typedef (plainTypedef x d1 blk)) ∧
      ev.stateId = blk.id ∧ ev.parentId = rest.head?.map (·.id) ∧
      w7.delivered = w.delivered + 1 ∧ w7.anon = w.anon ∧ w7.muted = false ∧ w7.nextId = w.nextId :=
  toplevel_typedef_pre env hp F D w kw toks first trest segs cst vol pre ops x semi d1 bk b1 b0 bmid bx b' blk rest hstack hxne hmu hfa htkw hkw htok hspec htoks hy0 hhead hy hpre hfn hops htx hx hxv hsemi hs hF

/-- **`using A = S prefix ;` through `parse()`'s loop**, any type specifier, any abstract declarator prefix: exactly ONE
    `on_using_alias` with the alias `A` and the type the prefix denotes over the type `S` denotes -/
theorem C01_using_alias_general (env : Env) (hp : RulesProgress env.cfg = true) (F D : Nat) (w : World)
    (kw a eq : Tok) (toks : List Tok) (first : Tok) (trest : List Tok) (segs : List PQSeg) (cst vol : Bool) (pre : List (String × String)) (ops : List Tok) (semi : Tok) (d1 : DType) (bk ba bq b1 b0 bmid b' : Buf)
    (blk : Block) (rest : List Block) (hstack : w.stack = blk :: rest)
    (hmu : w.muted = false) (hfa : ¬ env.faultAt = some w.delivered)
    (htkw : tokenEofOk env.cfg w.buf = .ok (some kw, bk)) (hkw : kw.type = "using")
    (hta : tokenEofOk env.cfg bk = .ok (some a, ba)) (ha : a.type = "NAME")
    (hte : tokenEofOk env.cfg ba = .ok (some eq, bq)) (heq : eq.type = "=")
    (htf : tokenEofOk env.cfg bq = .ok (some first, b1))
    (hspecS : TypeSpecS env F D toks segs cst vol) (htoks : toks = first :: trest)
    (hy0 : Yields env.cfg b1 trest b0)
    (hhead : ∀ p ∈ pre.head?, declStart p.1 = true)
    (hy : Yields env.cfg b0 ops bmid)
    (hpre : PrefixSpec env F (D + 1) (.type (.mk segs none false) cst vol) pre d1) (hfn : isFnType d1 = false) (hops : tvs ops = pre)
    (hsemi : tokenEofOk env.cfg bmid = .ok (some semi, b')) (hs : semi.type = ";")
    (hF : 2 ≤ F) :
    ∃ (d : Option String) (bD : Buf) (w7 : World) (ct : CTok) (ev : Event),
      getDoxygen env.cfg env.mcRe w.buf = .ok (d, bD) ∧
      interp env (mainBody F (core F (D + 1 + 1)) none) w = (w7, .ok (.inl none)) ∧
      w7.buf = b' ∧ ct.value = kw.value ∧ w7.stack = { blk with loc := .tok ct.sidx } :: rest ∧
      w7.events = w.events ++ [ev] ∧ ev.kind = .item (.usingAlias (plainAlias a d1 blk d)) ∧
      ev.stateId = blk.id ∧ ev.parentId = rest.head?.map (·.id) ∧
      w7.delivered = w.delivered + 1 ∧ w7.anon = w.anon ∧ w7.muted = false ∧ w7.nextId = w.nextId :=
  toplevel_using_alias_pre env hp F D w kw a eq toks first trest segs cst vol pre ops semi d1 bk ba bq b1 b0 bmid b' blk rest hstack hmu hfa htkw hkw hta ha hte heq htf hspecS htoks hy0 hhead hy hpre hfn hops hsemi hs hF

end

section
open P

/-- **function definitions `S ptr-ops f ( parameters ) { body }` through `parse()`'s loop**: any return-type specifier, any decoded
    parameter list, ANY bracket-balanced body: exactly ONE `on_function` with `has_body` set; the body is skipped exactly — the
    stream resumes right after its closing brace, no `;` is expected, nothing of the body is reported -/
theorem C01_function_definition (env : Env) (hp : RulesProgress env.cfg = true) (F D : Nat) (w : World)
    (toks : List Tok) (first : Tok) (trest : List Tok) (segs : List PQSeg) (cst vol : Bool) (ops : List Tok) (x op : Tok) (plist : List Param) (ob : Tok) (content : List Tok) (cb : Tok) (d1 : DType) (b1 b0 bmid bx bo bc bb b' : Buf)
    (blk : Block) (rest : List Block) (hstack : w.stack = blk :: rest) (hk : blk.hdr.kind ≠ .cls)
    (hmu : w.muted = false) (hfa : ¬ env.faultAt = some w.delivered)
    (hspec : TypeSpecR env (F + 1) (D + 1 + 1) toks segs cst vol) (htoks : toks = first :: trest) (hfirst : specFirst first.type = true)
    (htok : tokenEofOk env.cfg w.buf = .ok (some first, b1))
    (hy0 : Yields env.cfg b1 trest b0)
    (hops : opsHeadOk ops = true) (hopsv : ∀ o ∈ ops, o.value ≠ "auto")
    (hy : Yields env.cfg b0 ops bmid)
    (ha : applyPtrOps (.type (.mk segs none false) cst vol) (ops.map (·.type)) = some d1)
    (htx : tokenEofOk env.cfg bmid = .ok (some x, bx)) (hx : x.type = "NAME") (hxv : identVal x.value = true)
    (hto : tokenEofOk env.cfg bx = .ok (some op, bo)) (hop : op.type = "(")
    (hparams : ∀ W : World, W.buf = bo → ∃ w7, interp env (parseParametersStep (F + 1) (core (F + 1) (D + 1 + 1 + 1)) true) W = (w7, .ok (plist, false, [])) ∧
      SameButLog W w7 ∧ w7.buf = bc)
    (htb : tokenEofOk env.cfg bc = .ok (some ob, bb)) (hob : ob.type = "{")
    (hbal : Balanced "{" "}" content) (hcb : cb.type = "}") (hyb : Yields env.cfg bb (content ++ [cb]) b')
    (hF : ops.length + 2 ≤ F + 1) (hFb : content.length + 1 ≤ F) :
    ∃ (d : Option String) (bD : Buf) (w7 : World) (ct : CTok) (ev : Event),
      getDoxygen env.cfg env.mcRe w.buf = .ok (d, bD) ∧
      interp env (mainBody (F + 1) (core (F + 1) (D + 1 + 1 + 1 + 1)) none) w = (w7, .ok (.inl none)) ∧
      w7.buf = b' ∧ ct.value = first.value ∧ w7.stack = { blk with loc := .tok ct.sidx } :: rest ∧
      w7.events = w.events ++ [ev] ∧ ev.kind = .item (.function { plainFunction x d1 d with
        parameters := plist, hasBody := true }) ∧
      ev.stateId = blk.id ∧ ev.parentId = rest.head?.map (·.id) ∧
      w7.delivered = w.delivered + 1 ∧ w7.anon = w.anon ∧ w7.muted = false ∧ w7.nextId = w.nextId :=
  toplevel_function_body_gen env hp F D w toks first trest segs cst vol ops x op plist ob content cb d1 b1 b0 bmid bx bo bc bb b' blk rest hstack hk hmu hfa hspec htoks hfirst htok hy0 hops hopsv hy ha htx hx hxv hto hop hparams htb hob hbal hcb hyb hF hFb

end

/-! non-vacuity of `C01_whole_source`: the token sequence of
    `namespace a { T x ; ; class C { T f ; public : T g ; } ; }` is an `Item` (a namespace holding a
    variable, a stray `;` and a class with two fields around an access specifier), read from a stream
    that holds those tokens. -/
section nonvacuity
private def tkw (ty v : String) : Tok := { type := ty, value := v, loc := default, sidx := 0 }
private def tyT : DType := .type (.mk [.name "T" none] none false) false false
private def vdecl (x : String) : VarDeclToks :=
  { first := tkw "NAME" "T", pairs := [], ops := [], x := tkw "NAME" x, semi := tkw ";" ";", d1 := tyT }

private theorem vdecl_ok (x : String) (hx : identVal x = true) (F : Nat) (hF : 2 ≤ F) : (vdecl x).OK F :=
  ⟨rfl, by show identVal "T" = true; decide, by simp [vdecl], rfl, by simp [vdecl], rfl, rfl, hx, rfl, by simp [vdecl]; omega⟩

example (env : Env) (hp : RulesProgress env.cfg = true) (hnf : env.faultAt = none) (hskip : ∀ i h, env.skip i h = false)
    (F D : Nat) (hF : 2 ≤ F) (lex : LexState) :
    ∃ bE, (Item.ns env hp hnf F D hskip ["a"] (Item.seq [Item.variable env hp hnf F D (vdecl "x"), Item.semicolon env hp F D,
        Item.cls env hp hnf F D hskip (tkw "class" "class") (tkw "NAME" "C") []
          [Member.field env hp hnf F D (vdecl "f"), Member.accessSpec env hp F D (tkw "public" "public") (tkw ":" ":"),
           Member.field env hp hnf F D (vdecl "g")]])).At
      { tokbuf := [tkw "namespace" "namespace", tkw "NAME" "a", tkw "{" "{", tkw "NAME" "T", tkw "NAME" "x", tkw ";" ";", tkw ";" ";",
          tkw "class" "class", tkw "NAME" "C", tkw "{" "{", tkw "NAME" "T", tkw "NAME" "f", tkw ";" ";", tkw "public" "public",
          tkw ":" ":", tkw "NAME" "T", tkw "NAME" "g", tkw ";" ";", tkw "}" "}", tkw ";" ";", tkw "}" "}"], lex := lex, bounded := true } bE := by
  let B : List Tok → Buf := fun l => { tokbuf := l, lex := lex, bounded := true }
  have Y : ∀ (ts rest : List Tok), (∀ t ∈ ts, isDiscard t.type = false) → Yields env.cfg (B (ts ++ rest)) ts (B rest) :=
    fun ts rest h => Yields.of_tokbuf env.cfg lex true ts rest h
  refine ⟨B [], tkw "namespace" "namespace", tkw "NAME" "a", [], tkw "{" "{", tkw "}" "}", B _, B [tkw "}" "}"],
    rfl, rfl, by simp, rfl, rfl, by show 0 + 1 ≤ F; omega, Y [_, _, _] _ (by decide), ?_, (Y [tkw "}" "}"] [] (by decide)).single_inv, rfl⟩
  refine .cons (b1 := B _) ⟨vdecl_ok "x" (by decide) F hF, Y [_, _, _] _ (by decide)⟩
    (.cons (b1 := B _) ⟨tkw ";" ";", (Y [tkw ";" ";"] _ (by decide)).single_inv, rfl⟩
      (.cons (b1 := B _) ?_ (.nil _)))
  refine ⟨tkw "{" "{", tkw "}" "}", tkw ";" ";", B _, B [tkw "}" "}", tkw ";" ";", tkw "}" "}"], by decide, rfl, rfl, by decide, by simp, rfl, rfl, rfl,
    by show 0 + 2 ≤ F; omega, Y [_, _, _] _ (by decide), ?_, Y [_, _] _ (by decide)⟩
  exact .cons (b1 := B _) ⟨vdecl_ok "f" (by decide) F hF, Y [_, _, _] _ (by decide)⟩
    (.cons (b1 := B _) ⟨.inl rfl, rfl, Y [_, _] _ (by decide)⟩
      (.cons (b1 := B _) ⟨vdecl_ok "g" (by decide) F hF, Y [_, _, _] _ (by decide)⟩ (.nil _)))

/-! non-vacuity of the generalised forms inside a whole source: the tokens of
    `namespace a { const unsigned long * const & r ; typedef unsigned long * P ; }` form an `Item` (a namespace holding a
    reference variable over a cv-qualified fundamental type and a typedef), so `C01_whole_source` applies to it. -/
private def ulName (env : Env) (F D : Nat) (hF : 5 ≤ F) :
    NameSpecR env F D [tkw "unsigned" "unsigned", tkw "long" "long"] [.fund "unsigned long"] :=
  nameSpecR_fund env F D (tkw "unsigned" "unsigned") [tkw "long" "long"] rfl (by decide) (by decide) (by show 1 + 1 ≤ F; omega)

private def refD : DeclToks :=
  { spec := [tkw "const" "const", tkw "unsigned" "unsigned", tkw "long" "long"], segs := [.fund "unsigned long"], cst := true, vol := false,
    ops := [tkw "*" "*", tkw "const" "const", tkw "&" "&"], x := tkw "NAME" "r", semi := tkw ";" ";",
    d1 := .ref (.ptr (.type (.mk [.fund "unsigned long"] none false) true false) true false) }

private def tdD : DeclToks :=
  { spec := [tkw "unsigned" "unsigned", tkw "long" "long"], segs := [.fund "unsigned long"], cst := false, vol := false,
    ops := [tkw "*" "*"], x := tkw "NAME" "P", semi := tkw ";" ";",
    d1 := .ptr (.type (.mk [.fund "unsigned long"] none false) false false) false false }

private theorem refD_ok (env : Env) (F D : Nat) (hF : 5 ≤ F) : refD.OK env F D := by
  refine ⟨?_, ⟨_, _, rfl, by decide⟩, by decide, ?_, rfl, rfl, by decide, rfl, by omega⟩
  · exact typeSpecR_cv env F D [tkw "const" "const"] [tkw "unsigned" "unsigned", tkw "long" "long"] [] [.fund "unsigned long"]
      (ulName env F D hF) (by decide) (by decide) (by show 1 + 0 + 3 ≤ F; omega)
  · exact prefixSpec_ref env F (D + 1) _ _ [("*", "*"), ("const", "const")] ("&", "&") rfl rfl (.inl rfl) (by show 2 + 1 ≤ F; omega)

private theorem tdD_ok (env : Env) (F D : Nat) (hF : 5 ≤ F) : tdD.OK env F D := by
  refine ⟨?_, ⟨_, _, rfl, by decide⟩, by decide, ?_, rfl, rfl, by decide, rfl, by omega⟩
  · exact typeSpecR_cv env F D [] [tkw "unsigned" "unsigned", tkw "long" "long"] [] [.fund "unsigned long"]
      (ulName env F D hF) (by decide) (by decide) (by show 0 + 0 + 3 ≤ F; omega)
  · exact prefixSpec_ptr env F (D + 1) _ _ [("*", "*")] rfl (by show 1 + 1 ≤ F; omega)

example (env : Env) (hp : RulesProgress env.cfg = true) (hnf : env.faultAt = none) (hskip : ∀ i h, env.skip i h = false)
    (F D : Nat) (hF : 5 ≤ F) (lex : LexState) :
    ∃ bE, (Item.ns env hp hnf F D hskip ["a"] (Item.seq [Item.variablePre env hp hnf F D refD,
        Item.typedefPre env hp hnf F D (tkw "typedef" "typedef") tdD])).At
      { tokbuf := [tkw "namespace" "namespace", tkw "NAME" "a", tkw "{" "{",
          tkw "const" "const", tkw "unsigned" "unsigned", tkw "long" "long", tkw "*" "*", tkw "const" "const", tkw "&" "&", tkw "NAME" "r", tkw ";" ";",
          tkw "typedef" "typedef", tkw "unsigned" "unsigned", tkw "long" "long", tkw "*" "*", tkw "NAME" "P", tkw ";" ";",
          tkw "}" "}"], lex := lex, bounded := true } bE := by
  let B : List Tok → Buf := fun l => { tokbuf := l, lex := lex, bounded := true }
  have Y : ∀ (ts rest : List Tok), (∀ t ∈ ts, isDiscard t.type = false) → Yields env.cfg (B (ts ++ rest)) ts (B rest) :=
    fun ts rest h => Yields.of_tokbuf env.cfg lex true ts rest h
  refine ⟨B [], tkw "namespace" "namespace", tkw "NAME" "a", [], tkw "{" "{", tkw "}" "}", B _, B [tkw "}" "}"],
    rfl, rfl, by simp, rfl, rfl, by show 0 + 1 ≤ F; omega, Y [_, _, _] _ (by decide), ?_, (Y [tkw "}" "}"] [] (by decide)).single_inv, rfl⟩
  refine .cons (b1 := B _) ⟨refD_ok env F (D + 1 + 1) hF, Y refD.toks _ (by decide)⟩
    (.cons (b1 := B _) ⟨⟨rfl, by decide, tdD_ok env F (D + 1 + 1) hF⟩, Y (tkw "typedef" "typedef" :: tdD.toks) _ (by decide)⟩ (.nil _))
/-! non-vacuity of classes with a base clause inside a whole source: the tokens of
    `struct D : public A , virtual ns :: B ... { T f ; } ;` form an `Item`, so `C01_whole_source` applies to it and the class block
    it reports lists the two bases `public A` and `public virtual ns::B...` (the `struct` default is `public`). -/
private def baseA : BaseItem := { specs := [tkw "public" "public"], first := tkw "NAME" "A", pairs := [], pack := none }
private def baseB : BaseItem :=
  { specs := [tkw "virtual" "virtual"], first := tkw "NAME" "ns", pairs := [(tkw "DBL_COLON" "::", tkw "NAME" "B")], pack := some (tkw "ELLIPSIS" "...") }

private theorem baseA_ok : baseA.OK := ⟨by decide, rfl, by decide, by decide, by decide, by intro t ht; cases ht⟩
private theorem baseB_ok : baseB.OK := by
  refine ⟨by decide, rfl, by decide, by decide, by decide, ?_⟩
  intro t ht
  simp only [baseB, Option.some.injEq] at ht
  rw [← ht]; rfl

example : (baseA.denotes "public").access = "public" ∧ (baseB.denotes "public").access = "public" ∧
    (baseB.denotes "public").virtual = true ∧ (baseA.denotes "public").virtual = false ∧ (baseB.denotes "public").paramPack = true := by decide

example (env : Env) (hp : RulesProgress env.cfg = true) (hnf : env.faultAt = none) (hskip : ∀ i h, env.skip i h = false)
    (F D : Nat) (hF : 5 ≤ F) (lex : LexState) :
    ∃ bE, (Item.clsB env hp hnf F D hskip (tkw "struct" "struct") (tkw "NAME" "D") [] [(baseA, tkw "," ",")] baseB
        [Member.field env hp hnf F D (vdecl "f")]).At
      { tokbuf := [tkw "struct" "struct", tkw "NAME" "D", tkw ":" ":", tkw "public" "public", tkw "NAME" "A", tkw "," ",",
          tkw "virtual" "virtual", tkw "NAME" "ns", tkw "DBL_COLON" "::", tkw "NAME" "B", tkw "ELLIPSIS" "...", tkw "{" "{",
          tkw "NAME" "T", tkw "NAME" "f", tkw ";" ";", tkw "}" "}", tkw ";" ";"], lex := lex, bounded := true } bE := by
  let B : List Tok → Buf := fun l => { tokbuf := l, lex := lex, bounded := true }
  have Y : ∀ (ts rest : List Tok), (∀ t ∈ ts, isDiscard t.type = false) → Yields env.cfg (B (ts ++ rest)) ts (B rest) :=
    fun ts rest h => Yields.of_tokbuf env.cfg lex true ts rest h
  refine ⟨B [], tkw ":" ":", tkw "{" "{", tkw "}" "}", tkw ";" ";", B _, B [tkw "}" "}", tkw ";" ";"], by decide, rfl, rfl, by decide, by simp, rfl, rfl, rfl,
    by show 0 + 2 ≤ F; omega, ⟨rfl, ?_, baseB_ok, by show 1 + 1 + 2 ≤ F; omega, by show 1 + 1 ≤ F; omega⟩,
    Y [_, _, _, _, _, _, _, _, _, _, _, _] _ (by decide), ?_, Y [_, _] _ (by decide)⟩
  · intro q hq
    simp only [List.mem_singleton] at hq
    subst hq
    exact ⟨baseA_ok, rfl, by show 1 + 0 + 2 ≤ F; omega⟩
  · exact .cons (b1 := B _) ⟨vdecl_ok "f" (by decide) F (by omega), Y [_, _, _] _ (by decide)⟩ (.nil _)
/-- `class E final : A { T f ; } ;` meets the hypotheses of `Item.clsFB` -/
example (env : Env) (hp : RulesProgress env.cfg = true) (hnf : env.faultAt = none) (hskip : ∀ i h, env.skip i h = false)
    (F D : Nat) (hF : 5 ≤ F) (lex : LexState) :
    ∃ bE, (Item.clsFB env hp hnf F D hskip (tkw "class" "class") (tkw "NAME" "E") [] [tkw "final" "final"] [] { baseA with specs := [] }
        [Member.field env hp hnf F D (vdecl "f")]).At
      { tokbuf := [tkw "class" "class", tkw "NAME" "E", tkw "final" "final", tkw ":" ":", tkw "NAME" "A", tkw "{" "{",
          tkw "NAME" "T", tkw "NAME" "f", tkw ";" ";", tkw "}" "}", tkw ";" ";"], lex := lex, bounded := true } bE := by
  let B : List Tok → Buf := fun l => { tokbuf := l, lex := lex, bounded := true }
  have Y : ∀ (ts rest : List Tok), (∀ t ∈ ts, isDiscard t.type = false) → Yields env.cfg (B (ts ++ rest)) ts (B rest) :=
    fun ts rest h => Yields.of_tokbuf env.cfg lex true ts rest h
  refine ⟨B [], tkw ":" ":", tkw "{" "{", tkw "}" "}", tkw ";" ";", B _, B [tkw "}" "}", tkw ";" ";"], by decide, rfl, rfl, by decide, by simp, rfl, rfl, rfl,
    by show 0 + 2 ≤ F; omega, ⟨rfl, by simp, ⟨by decide, rfl, by decide, by decide, by decide, by intro t ht; cases ht⟩,
      by show 0 + 0 + 2 ≤ F; omega, by show 0 + 1 ≤ F; omega, by decide, by show 1 + 1 ≤ F; omega⟩,
    Y [_, _, _, _, _, _] _ (by decide), ?_, Y [_, _] _ (by decide)⟩
  exact .cons (b1 := B _) ⟨vdecl_ok "f" (by decide) F (by omega), Y [_, _, _] _ (by decide)⟩ (.nil _)
/-- `class W { T f ; W ( ) ; ~W ( ) ; } ;` meets the hypotheses of `Item.clsN`: a class with a field, its default constructor
    and its destructor is covered by `C01_whole_source` -/
example (env : Env) (hp : RulesProgress env.cfg = true) (hnf : env.faultAt = none) (hskip : ∀ i h, env.skip i h = false)
    (F D : Nat) (hF : 5 ≤ F) (lex : LexState) :
    ∃ bE, (Item.clsN env hp hnf F D hskip "W" (tkw "class" "class") (tkw "NAME" "W") []
        [(Member.field env hp hnf F D (vdecl "f")).toN (nameIs "W"),
         MemberN.ctor0 env hp hnf F D "W" (tkw "NAME" "W") (tkw "(" "(") (tkw ")" ")") [] (tkw ";" ";"),
         MemberN.dtor0 env hp hnf F D "W" (tkw "NAME" "~W") (tkw "(" "(") (tkw ")" ")") [] (tkw ";" ";")]).At
      { tokbuf := [tkw "class" "class", tkw "NAME" "W", tkw "{" "{", tkw "NAME" "T", tkw "NAME" "f", tkw ";" ";",
          tkw "NAME" "W", tkw "(" "(", tkw ")" ")", tkw ";" ";", tkw "NAME" "~W", tkw "(" "(", tkw ")" ")", tkw ";" ";",
          tkw "}" "}", tkw ";" ";"], lex := lex, bounded := true } bE := by
  let B : List Tok → Buf := fun l => { tokbuf := l, lex := lex, bounded := true }
  have Y : ∀ (ts rest : List Tok), (∀ t ∈ ts, isDiscard t.type = false) → Yields env.cfg (B (ts ++ rest)) ts (B rest) :=
    fun ts rest h => Yields.of_tokbuf env.cfg lex true ts rest h
  refine ⟨B [], tkw "{" "{", tkw "}" "}", tkw ";" ";", B _, B [tkw "}" "}", tkw ";" ";"], by decide, rfl, rfl, by decide, by simp, rfl, rfl, rfl,
    by show 0 + 2 ≤ F; omega, rfl, Y [_, _, _] _ (by decide), ?_, Y [_, _] _ (by decide)⟩
  refine .cons (b1 := B _) ⟨vdecl_ok "f" (by decide) F (by omega), Y [_, _, _] _ (by decide)⟩
    (.cons (b1 := B _) ⟨⟨rfl, rfl, by decide, by decide, rfl, by decide, rfl, rfl, rfl, rfl, by show 0 + 1 ≤ F; omega, by omega,
        fun d acc => ⟨_, rfl⟩⟩, Y [_, _, _, _] _ (by decide)⟩
      (.cons (b1 := B _) ⟨⟨rfl, rfl, by decide, by decide, rfl, by decide, rfl, rfl, rfl, rfl, by show 0 + 1 ≤ F; omega, by omega,
        fun d acc => ⟨_, rfl⟩⟩, Y [_, _, _, _] _ (by decide)⟩ (.nil _)))
end nonvacuity

end Cxx
