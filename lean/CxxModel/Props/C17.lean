/-
  Props/C17.lean — C17: formatted types parse back to the same type.

  The full statement (`parse (format_decl t n) = (t, n)`, `parse (format t) = t` for every
  type the parser can produce) is FALSE on the current tree (known finding C17-format:
  multi-dimensional arrays, references to functions, arrays in type-id position).  It needs
  the declarator round trip of C02, which is not yet a theorem; what is proved here is the
  formatter's side: exact equations for what `format()` / `format_decl(name)` write, for every
  type tree (so a change of the formatter is re-judged by the kernel), and that the two agree
  on where the name goes:
  * `C17_decl_type`, `C17_decl_ptr_plain`, `C17_decl_array`, `C17_decl_ptr_array`,
    `C17_decl_ref_array`: the inside-out shapes;
  * `C17_fmt_plain_ptr`, `C17_fmt_mref`.
  The parse-back is exercised on the implementation over the C02 generator's range (oracle)
  and the formatter model is tied to types.py by the correspondence `format`.
  * `C17_chain_round_trip` (`Theorems/ChainRoundTrip.lean`): format → parse at the token level, for every
    type `d` built from a named type by ANY number of pointer levels with any cv flags:
    `format_decl(x)` writes the name, exactly the operators `chainOps d` (each `*`, then ` const`,
    then ` volatile` as flagged) and `x`; those operators are empty or start with `*`; and decoding
    them the way `_parse_cv_ptr_or_fn` provably does (`C02_pointer_chain`) gives `d` back.  With
    `C01_toplevel_variable` the token sequence `name ops x ;` parses to exactly one variable of
    type `d` named `x`.  What stays outside the theorem is that the formatted TEXT lexes to those
    tokens (lexer model + `lex` / `format` correspondences).
-/
import CxxModel.Format
import CxxModel.Theorems.ChainRoundTrip
namespace Cxx

theorem C17_decl_type (n : PQName) (c v : Bool) (name : String) :
    fmtDecl (.type n c v) name = fmtType (.type n c v) ++ " " ++ name := by
  simp [fmtDecl, fmtType]

theorem C17_decl_array (a : DType) (s : Option Value) (name : String) :
    fmtDecl (.array a s) name = fmtType a ++ " " ++ name ++ "[" ++ sizeStr s ++ "]" := by
  simp [fmtDecl]

/-- pointer to something that is neither array nor function: postfix `*`, then the name -/
theorem C17_decl_ptr_plain (t : DType) (c v : Bool) (name : String) (h : isArrayOrFn t = false) :
    fmtDecl (.ptr t c v) name = fmtType (.ptr t c v) ++ " " ++ name := by
  cases t <;> simp_all [fmtDecl, fmtType, isArrayOrFn, String.append_assoc]

/-- pointer to array: grouping parenthesis around `*` and the name, dimensions outside -/
theorem C17_decl_ptr_array (a : DType) (s : Option Value) (c v : Bool) (name : String) :
    fmtDecl (.ptr (.array a s) c v) name =
      fmtDecl (.array a s) ("(*" ++ (if c then " const" else "") ++ (if v then " volatile" else "") ++ " " ++ name ++ ")") := by
  simp [fmtDecl, String.append_assoc]

theorem C17_decl_ref_array (a : DType) (s : Option Value) (name : String) :
    fmtDecl (.ref (.array a s)) name = fmtDecl (.array a s) ("(& " ++ name ++ ")") := by
  simp [fmtDecl, String.append_assoc]

theorem C17_fmt_plain_ptr (t : DType) (c v : Bool) (h : isArrayOrFn t = false) :
    fmtType (.ptr t c v) = fmtType t ++ "*" ++ (if c then " const" else "") ++ (if v then " volatile" else "") := by
  cases t <;> simp_all [fmtType, isArrayOrFn]

theorem C17_fmt_mref (t : DType) : fmtType (.mref t) = fmtType t ++ "&&" := by simp [fmtType]

/-- both qualifiers of a pointer are written (a const volatile pointer keeps both) -/
theorem C17_ptr_cv_both (t : DType) (h : isArrayOrFn t = false) :
    fmtType (.ptr t true true) = fmtType t ++ "* const volatile" := by
  cases t <;> simp_all [fmtType, isArrayOrFn, String.append_assoc]

theorem C17_chain_round_trip (d : DType) (n : PQName) (x : String) (h : isChain d = true) (hb : chainBase d = some n) :
    fmtDecl d x = fmtPQName n ++ String.join ((chainOps d).map renderOp) ++ " " ++ x ∧
    fmtType d = fmtPQName n ++ String.join ((chainOps d).map renderOp) ∧
    (chainOps d = [] ∨ (chainOps d).head? = some "*") ∧
    applyPtrOps (.type n false false) (chainOps d) = some d :=
  ⟨chain_format_decl d n x h hb, chain_format d n h hb, chainOps_head d, chain_decodes d n h hb⟩

/-! non-vacuity: `T * const * volatile` -/
example (n : PQName) : isChain (.ptr (.ptr (.type n false false) true false) false true) = true ∧
    chainOps (.ptr (.ptr (.type n false false) true false) false true) = ["*", "const", "*", "volatile"] := by
  constructor <;> rfl

end Cxx
