/-
  Props/C12.lean — C12: sibling declarations are independent and scopes compose.

  Full statement (parse (A ++ B) = merge (parse A) (parse B)): carried by the oracle `compose`
  and the correspondence `parse[pairs]`; NOT a theorem.  Proved here, for all inputs:

  * `C12_fold_append`: the simple API's result is a fold of the callback stream, and folding a
    concatenation is folding the first part and continuing with the second from the state
    reached — the fold itself keeps nothing but `FoldState`;
  * `C12_extern_transparent`: an extern-block start changes no scope: the block's `user_data`
    is the parent's scope, so its items are appended to the parent's lists;
  * `C12_open_split`: `on_namespace_start` for the name list `a ++ b` is the walk for `a`
    followed by the walk for `b` from where the first ended — `namespace a::b {` opens the same
    chain of scopes as the nested blocks;
  * `C12_open_existing`: walking to a namespace that already exists leaves the tree unchanged
    (re-opening appends to the same scope);
  * `C12_top_level_carries_only_doc` + `C12_keep_doxygen`: the top-level loop is `loopN` over
    `mainBody`, whose only loop-carried value is `carry tok doxygen`: `none` unless the item was
    one of the four attribute-like tokens.
-/
import CxxModel.SimpleFold
import CxxModel.Parser.Decl
import CxxModel.Tables
import CxxModel.Props.C01
namespace Cxx

theorem C12_fold_append (a b : List Event) (i : Nat) (fs fs' : FoldState)
    (h : foldEvents a i fs = .ok fs') : foldEvents (a ++ b) i fs = foldEvents b (i + a.length) fs' :=
  C01_fold_append a b i fs fs' h

/-- an extern block start: root, pragmas, includes unchanged; the new state's scope is the parent's -/
theorem C12_extern_transparent (fs : FoldState) (e : Event) (pid : Nat) (ppath : Path)
    (hk : e.kind = .blockStart) (hp : e.parentId = some pid) (hs : e.stateKind = .ext)
    (hl : fs.userData.lookup pid = some ppath) :
    foldStep fs e = .ok { fs with userData := (e.stateId, ppath) :: fs.userData } := by
  simp only [foldStep, hk, hp, FoldState.pathOf, hl, hs]

theorem C12_open_split (a b : List String) : ∀ (path : Path) (root : Scope),
    openNamespaces (a ++ b) path root =
      match openNamespaces a path root with
      | none => none
      | some (root', path') => openNamespaces b path' root' := by
  induction a with
  | nil => intro path root; simp [openNamespaces]
  | cons n rest ih =>
    intro path root
    simp only [List.cons_append, openNamespaces]
    split
    · rfl
    · exact ih _ _

/-- the scope at a path is a namespace that already has a child namespace `name` -/
def hasNs (root : Scope) (path : Path) (name : String) : Prop :=
  ∃ n i d it cl nss, root.getAt path = some (.ns n i d it cl nss) ∧ (nss.lookup name).isSome = true

theorem modifyAt_id (f : Scope → Option Scope) : ∀ (path : Path) (root s : Scope),
    root.getAt path = some s → f s = some s → root.modifyAt f path = some root := by
  intro path
  induction path with
  | nil => intro root s h hf; simp only [Scope.getAt, Option.some.injEq] at h; subst h; simpa [Scope.modifyAt] using hf
  | cons st rest ih =>
    intro root s h hf
    simp only [Scope.getAt] at h
    simp only [Scope.modifyAt]
    cases hc : root.child? st with
    | none => simp [hc] at h
    | some c =>
      simp only [hc] at h ⊢
      rw [ih c s h hf]
      simp only
      congr 1
      -- setting a child to itself changes nothing
      cases st with
      | nsChild name =>
        cases root with
        | cls d it cl => simp [Scope.child?] at hc
        | ns n i d it cl nss =>
          simp only [Scope.child?] at hc
          simp only [Scope.setChild]
          congr 1
          induction nss with
          | nil => simp at hc
          | cons kv r ihr =>
            obtain ⟨k', v'⟩ := kv
            simp only [replaceAssoc]
            by_cases hk : k' = name
            · subst hk
              simp only [List.lookup, beq_self_eq_true] at hc
              simp only [Option.some.injEq] at hc
              simp [hc]
            · have hk' : (name == k') = false := by simp [Ne.symm hk]
              simp only [List.lookup, hk'] at hc
              simp [hk, ihr hc]
      | clsChild idx =>
        simp only [Scope.child?] at hc
        simp only [Scope.setChild]
        have : root.classes.set idx c = root.classes := by
          apply List.ext_getElem?
          intro j
          by_cases hj : idx = j
          · subst hj
            rw [List.getElem?_set_self' ]
            simp [hc]
          · rw [List.getElem?_set_ne hj]
        rw [this]
        cases root <;> rfl

/-- re-opening an existing namespace: the tree is unchanged and the path is the child's -/
theorem C12_open_existing (name : String) (path : Path) (root : Scope) (h : hasNs root path name) :
    openNamespaces [name] path root = some (root, path ++ [.nsChild name]) := by
  obtain ⟨n, i, d, it, cl, nss, hg, hl⟩ := h
  simp only [openNamespaces]
  rw [modifyAt_id _ path root _ hg (by simp [hl])]

theorem C12_top_level_carries_only_doc (F : Nat) (c : P.Core) :
    P.mainLoop F c = P.loopN F (none : Option String) (P.mainBody F c) ∧
    (∀ tok d, Gen.keepDoxygen.contains tok.type = false → P.carry tok d = none) ∧
    (∀ tok, P.carry tok none = none) := by
  refine ⟨rfl, ?_, ?_⟩
  · intro tok d h; unfold P.carry; rw [h]; rfl
  · intro tok; simp [P.carry]

theorem C12_keep_doxygen : Gen.keepDoxygen = ["DBL_LBRACKET", "__attribute__", "__declspec", "alignas"] := keep_doxygen_eq

end Cxx
