/-
  Props/C12.lean — C12: sibling declarations are independent and scopes compose.

  Full statement (parse (A ++ B) = merge (parse A) (parse B)): carried by the oracle `compose`
  and the correspondence `parse[pairs]`; NOT a theorem.  Proved here, for all inputs:

  * `C12_fold_append`: the simple API's result is a fold of the callback stream, and folding a
    concatenation is folding the first part and continuing with the second from the state
    reached — the fold itself keeps nothing but `FoldState`;
  * `C12_extern_transparent`: an extern-block start changes no scope: the block's `user_data`
    is the parent's scope, so its items are appended to the parent's lists;
  * `C12_open_split`: `on_namespace_start` for the name list `a ++ b` is the walk for `a`
    followed by the walk for `b` from where the first ended — `namespace a::b {` opens the same
    chain of scopes as the nested blocks;
  * `C12_open_existing`: walking to a namespace that already exists leaves the tree unchanged
    (re-opening appends to the same scope);
  * `C12_top_level_carries_only_doc` + `C12_keep_doxygen`: the top-level loop is `loopN` over
    `mainBody`, whose only loop-carried value is `carry tok doxygen`: `none` unless the item was
    one of the four attribute-like tokens;
  * `C12_namespace_header`: a whole declaration form — for a header `n1 :: … :: nk {` of any
    length, `_parse_namespace` is exactly "read the header, then `nsFinish` with the written
    names": one block is pushed carrying `[n1, …, nk]` and nothing else of the parser state
    changes (`Theorems/NsForm.lean`); with `C12_open_split` the pushed block opens the same
    chain of scopes as the nested spelling;
  * `C12_extern_block_header`: outside a class, `extern "<linkage>" {` is exactly "open one
    extern block carrying the written linkage" (`Theorems/ExternForm.lean`); with
    `C12_extern_transparent` the block's items land in the enclosing scope;
  * `C12_toplevel_namespace` (`Theorems/TopLevel.lean`): the same at the level of `parse()`'s own
    loop, on the regenerated lexer rules, dispatch table and keep set — an iteration that starts
    (after any comments and blank lines) at `namespace n1 :: … :: nk {` finds the doc text with
    `get_doxygen`, opens one block with exactly the written names and that doc text, changes
    nothing else of the parser state and hands NO doc text to the next iteration.
  * `C12_toplevel_namespace_opens`, `C12_toplevel_extern_opens`, `C12_toplevel_semicolon`: the same
    iterations down to the callback — with an active visitor that does not raise here, the
    header delivers exactly ONE start callback for a new block (fresh id, child of the innermost
    open block, the written names / linkage, the doc text found) and pushes exactly that block
    (`pushedWorld`); a lone `;` changes nothing.
-/
import CxxModel.SimpleFold
import CxxModel.Parser.Decl
import CxxModel.Tables
import CxxModel.Props.C01
import CxxModel.Theorems.NsForm
import CxxModel.Theorems.ExternForm
import CxxModel.Theorems.TopLevel
import CxxModel.GenCfg
import CxxModel.Theorems.WholeParse
namespace Cxx

theorem C12_fold_append (a b : List Event) (i : Nat) (fs fs' : FoldState)
    (h : foldEvents a i fs = .ok fs') : foldEvents (a ++ b) i fs = foldEvents b (i + a.length) fs' :=
  C01_fold_append a b i fs fs' h

/-- an extern block start: root, pragmas, includes unchanged; the new state's scope is the parent's -/
theorem C12_extern_transparent (fs : FoldState) (e : Event) (pid : Nat) (ppath : Path)
    (hk : e.kind = .blockStart) (hp : e.parentId = some pid) (hs : e.stateKind = .ext)
    (hl : fs.userData.lookup pid = some ppath) :
    foldStep fs e = .ok { fs with userData := (e.stateId, ppath) :: fs.userData } := by
  simp only [foldStep, hk, hp, FoldState.pathOf, hl, hs]

theorem C12_open_split (a b : List String) : ∀ (path : Path) (root : Scope),
    openNamespaces (a ++ b) path root =
      match openNamespaces a path root with
      | none => none
      | some (root', path') => openNamespaces b path' root' := by
  induction a with
  | nil => intro path root; simp [openNamespaces]
  | cons n rest ih =>
    intro path root
    simp only [List.cons_append, openNamespaces]
    split
    · rfl
    · exact ih _ _

/-- the scope at a path is a namespace that already has a child namespace `name` -/
def hasNs (root : Scope) (path : Path) (name : String) : Prop :=
  ∃ n i d it cl nss, root.getAt path = some (.ns n i d it cl nss) ∧ (nss.lookup name).isSome = true

theorem modifyAt_id (f : Scope → Option Scope) : ∀ (path : Path) (root s : Scope),
    root.getAt path = some s → f s = some s → root.modifyAt f path = some root := by
  intro path
  induction path with
  | nil => intro root s h hf; simp only [Scope.getAt, Option.some.injEq] at h; subst h; simpa [Scope.modifyAt] using hf
  | cons st rest ih =>
    intro root s h hf
    simp only [Scope.getAt] at h
    simp only [Scope.modifyAt]
    cases hc : root.child? st with
    | none => simp [hc] at h
    | some c =>
      simp only [hc] at h ⊢
      rw [ih c s h hf]
      simp only
      congr 1
      -- setting a child to itself changes nothing
      cases st with
      | nsChild name =>
        cases root with
        | cls d it cl => simp [Scope.child?] at hc
        | ns n i d it cl nss =>
          simp only [Scope.child?] at hc
          simp only [Scope.setChild]
          congr 1
          induction nss with
          | nil => simp at hc
          | cons kv r ihr =>
            obtain ⟨k', v'⟩ := kv
            simp only [replaceAssoc]
            by_cases hk : k' = name
            · subst hk
              simp only [List.lookup, beq_self_eq_true] at hc
              simp only [Option.some.injEq] at hc
              simp [hc]
            · have hk' : (name == k') = false := by simp [Ne.symm hk]
              simp only [List.lookup, hk'] at hc
              simp [hk, ihr hc]
      | clsChild idx =>
        simp only [Scope.child?] at hc
        simp only [Scope.setChild]
        have : root.classes.set idx c = root.classes := by
          apply List.ext_getElem?
          intro j
          by_cases hj : idx = j
          · subst hj
            rw [List.getElem?_set_self' ]
            simp [hc]
          · rw [List.getElem?_set_ne hj]
        rw [this]
        cases root <;> rfl

/-- re-opening an existing namespace: the tree is unchanged and the path is the child's -/
theorem C12_open_existing (name : String) (path : Path) (root : Scope) (h : hasNs root path name) :
    openNamespaces [name] path root = some (root, path ++ [.nsChild name]) := by
  obtain ⟨n, i, d, it, cl, nss, hg, hl⟩ := h
  simp only [openNamespaces]
  rw [modifyAt_id _ path root _ hg (by simp [hl])]

theorem C12_top_level_carries_only_doc (F : Nat) (c : P.Core) :
    P.mainLoop F c = P.loopN F (none : Option String) (P.mainBody F c) ∧
    (∀ tok d, Gen.keepDoxygen.contains tok.type = false → P.carry tok d = none) ∧
    (∀ tok, P.carry tok none = none) := by
  refine ⟨rfl, ?_, ?_⟩
  · intro tok d h; unfold P.carry; rw [h]; rfl
  · intro tok; simp [P.carry]

theorem C12_keep_doxygen : Gen.keepDoxygen = ["DBL_LBRACKET", "__attribute__", "__declspec", "alignas"] := keep_doxygen_eq


theorem C12_namespace_header (env : Env) (F : Nat) (tok : CTok) (doxygen : Option String) (inline : Bool)
    (first : Tok) (pairs : List (Tok × Tok)) (ob : Tok) (w : World) (b' : Buf)
    (hf : first.type = "NAME") (hall : ∀ p ∈ pairs, p.1.type = "DBL_COLON" ∧ p.2.type = "NAME") (hob : ob.type = "{")
    (hy : Yields env.cfg w.buf (first :: (pairs.flatMap (fun p => [p.1, p.2]) ++ [ob])) b') (hF : pairs.length + 1 ≤ F) :
    ∃ w', w'.buf = b' ∧ SameParse w w' ∧
      interp env (P.parseNamespace F tok doxygen inline) w =
        interp env (P.nsFinish (.tok tok.sidx) doxygen inline (first.value :: pairs.map (·.2.value)) none) w' :=
  namespace_form env F tok doxygen inline first pairs ob w b' hf hall hob hy hF

theorem C12_extern_block_header (env : Env) (F : Nat) (c : P.Core) (tok : CTok) (doxygen : Option String) (str ob : Tok)
    (w : World) (b' : Buf) (blk : Block) (rest : List Block) (hstack : w.stack = blk :: rest) (hk : blk.view.kind ≠ .cls)
    (hs : str.type = "STRING_LITERAL") (hob : ob.type = "{") (hy : Yields env.cfg w.buf [str, ob] b') :
    ∃ (w' : World) (e : CTok), w'.buf = b' ∧ SameParse w w' ∧ e.value = str.value ∧
      interp env (P.parseExtern F c tok doxygen) w =
        interp env (Prog.push { kind := .ext, loc := .tok tok.sidx, linkage := e.value } (Prog.pure ())) w' :=
  extern_block_form env F c tok doxygen str ob w b' blk rest hstack hk hs hob hy

theorem C12_toplevel_namespace (env : Env) (hc : env.cfg = genLexCfg) (F : Nat) (c : P.Core) (w : World)
    (kw first : Tok) (pairs : List (Tok × Tok)) (ob : Tok) (b' : Buf)
    (hkw : kw.type = "namespace") (hf : first.type = "NAME")
    (hall : ∀ p ∈ pairs, p.1.type = "DBL_COLON" ∧ p.2.type = "NAME") (hob : ob.type = "{")
    (hy : Yields env.cfg w.buf (kw :: first :: (pairs.flatMap (fun p => [p.1, p.2]) ++ [ob])) b')
    (hF : pairs.length + 1 ≤ F) :
    ∃ (d : Option String) (bD : Buf) (w' : World) (ct : CTok),
      getDoxygen env.cfg env.mcRe w.buf = .ok (d, bD) ∧ w'.buf = b' ∧
      w'.stack = w.stack ∧ w'.events = w.events ∧ w'.delivered = w.delivered ∧ w'.anon = w.anon ∧ w'.muted = w.muted ∧
      w'.nextId = w.nextId ∧ w'.mainTok = some ct ∧ ct.value = kw.value ∧
      interp env (P.mainBody F c none) w =
        match interp env (P.nsFinish (.tok ct.sidx) d false (first.value :: pairs.map (·.2.value)) none) w' with
        | (w3, .ok ()) => (w3, .ok (.inl none))
        | (w3, .error e) => (w3, .error e) :=
  toplevel_namespace env (by rw [hc]; exact gen_rules_progress) F c w kw first pairs ob b' hkw hf hall hob hy hF

/-! non-vacuity: a stream holding `namespace a :: b {` with a comment and blanks between the tokens
    meets the hypotheses of `C12_toplevel_namespace` -/
private def tk (ty v : String) : Tok := { type := ty, value := v, loc := default, sidx := 0 }

private theorem tokenEofOk_pop (cfg : LexCfg) (b : Buf) (t : Tok) (rest : List Tok)
    (h : popSignificant isDiscard b.tokbuf = some (t, rest)) :
    tokenEofOk cfg b = .ok (some t, { b with tokbuf := rest }) := by
  simp only [tokenEofOk, fuelFor, nextTok, h]

example (cfg : LexCfg) :
    Yields cfg { tokbuf := [tk "namespace" "namespace", tk "WHITESPACE" " ", tk "NAME" "a", tk "DBL_COLON" "::",
                            tk "COMMENT_MULTILINE" "/* c */", tk "NAME" "b", tk "NEWLINE" "\n", tk "{" "{"],
                 lex := { rest := [] }, bounded := true }
      (tk "namespace" "namespace" :: tk "NAME" "a" ::
        (([(tk "DBL_COLON" "::", tk "NAME" "b")] : List (Tok × Tok)).flatMap (fun p => [p.1, p.2]) ++ [tk "{" "{"]))
      { tokbuf := [], lex := { rest := [] }, bounded := true } :=
  .cons (tokenEofOk_pop cfg _ _ [tk "WHITESPACE" " ", tk "NAME" "a", tk "DBL_COLON" "::", tk "COMMENT_MULTILINE" "/* c */",
      tk "NAME" "b", tk "NEWLINE" "\n", tk "{" "{"] (by decide))
    (.cons (tokenEofOk_pop cfg _ _ [tk "DBL_COLON" "::", tk "COMMENT_MULTILINE" "/* c */", tk "NAME" "b", tk "NEWLINE" "\n",
        tk "{" "{"] (by decide))
      (.cons (tokenEofOk_pop cfg _ _ [tk "COMMENT_MULTILINE" "/* c */", tk "NAME" "b", tk "NEWLINE" "\n", tk "{" "{"] (by decide))
        (.cons (tokenEofOk_pop cfg _ _ [tk "NEWLINE" "\n", tk "{" "{"] (by decide))
          (.cons (tokenEofOk_pop cfg _ _ [] (by decide)) (.nil _)))))

section
open P

theorem C12_toplevel_namespace_opens (env : Env) (hc : env.cfg = genLexCfg) (F : Nat) (c : Core) (w : World)
    (kw first : Tok) (pairs : List (Tok × Tok)) (ob : Tok) (b' : Buf)
    (blk : Block) (rest : List Block) (hstack : w.stack = blk :: rest) (hk : blk.view.kind ≠ .cls)
    (hmu : w.muted = false) (hfa : ¬ env.faultAt = some w.delivered)
    (hkw : kw.type = "namespace") (hf : first.type = "NAME")
    (hall : ∀ p ∈ pairs, p.1.type = "DBL_COLON" ∧ p.2.type = "NAME") (hob : ob.type = "{")
    (hy : Yields env.cfg w.buf (kw :: first :: (pairs.flatMap (fun p => [p.1, p.2]) ++ [ob])) b')
    (hF : pairs.length + 1 ≤ F) :
    ∃ (d : Option String) (bD : Buf) (w' : World) (ct : CTok),
      getDoxygen env.cfg env.mcRe w.buf = .ok (d, bD) ∧ w'.buf = b' ∧
      w'.stack = w.stack ∧ w'.events = w.events ∧ w'.delivered = w.delivered ∧ w'.anon = w.anon ∧ w'.muted = w.muted ∧
      w'.nextId = w.nextId ∧ ct.value = kw.value ∧
      interp env (mainBody F c none) w =
        (pushedWorld env { kind := .ns, loc := .tok ct.sidx, ns := { names := first.value :: pairs.map (·.2.value), inline := false, doxygen := d } } w',
          .ok (.inl none)) :=
  toplevel_namespace_opens env (by rw [hc]; exact gen_rules_progress) F c w kw first pairs ob b' blk rest hstack hk hmu hfa hkw hf hall hob hy hF

theorem C12_toplevel_extern_opens (env : Env) (hc : env.cfg = genLexCfg) (F : Nat) (c : Core) (w : World)
    (kw str ob : Tok) (b' : Buf) (blk : Block) (rest : List Block) (hstack : w.stack = blk :: rest) (hk : blk.view.kind ≠ .cls)
    (hmu : w.muted = false) (hfa : ¬ env.faultAt = some w.delivered)
    (hkw : kw.type = "extern") (hs : str.type = "STRING_LITERAL") (hob : ob.type = "{")
    (hy : Yields env.cfg w.buf [kw, str, ob] b') :
    ∃ (w' : World) (ct e : CTok), w'.buf = b' ∧ w'.stack = w.stack ∧ w'.events = w.events ∧ w'.anon = w.anon ∧
      w'.muted = w.muted ∧ w'.delivered = w.delivered ∧ w'.nextId = w.nextId ∧ ct.value = kw.value ∧ e.value = str.value ∧
      interp env (mainBody F c none) w =
        (pushedWorld env { kind := .ext, loc := .tok ct.sidx, linkage := e.value } w', .ok (.inl none)) :=
  toplevel_extern_opens env (by rw [hc]; exact gen_rules_progress) F c w kw str ob b' blk rest hstack hk hmu hfa hkw hs hob hy

theorem C12_toplevel_semicolon (env : Env) (hc : env.cfg = genLexCfg) (F : Nat) (c : Core) (w : World) (t : Tok) (b1 : Buf)
    (ht : tokenEofOk env.cfg w.buf = .ok (some t, b1)) (hty : t.type = ";") :
    ∃ (wA : World) (ct : CTok), SameParse w wA ∧ wA.buf = b1 ∧ ct.value = t.value ∧
      interp env (mainBody F c none) w = ({ wA with mainTok := some ct }, .ok (.inl none)) :=
  toplevel_semicolon env (by rw [hc]; exact gen_rules_progress) F c w t b1 ht hty

end

/-! ### whole sources -/

/-- **the whole run on nested namespaces** (`Theorems/WholeParse.lean`): `parse()` on
    `namespace N { body }` — `body` ANY item, in particular further namespaces to any depth and
    sequences of any length — returns normally; after `on_parse_start` the callbacks are the
    namespace's start (a child of the global namespace, carrying the written names), the body's
    callbacks inside it, and its end; the block stack ends as the global namespace alone. -/
theorem C12_namespace_source (env : Env) (hc : env.cfg = genLexCfg) (hnf : env.faultAt = none) (hskip : ∀ i h, env.skip i h = false)
    (F D : Nat) (names : List String) (body : Item env F (P.core F (D + 1 + 1 + 1 + 1)))
    (filename : String) (content : Str) (bE bEE : Buf)
    (hat : (Item.ns env (by rw [hc]; exact gen_rules_progress) hnf F D hskip names body).At
      { tokbuf := [], lex := { rest := content, filename := some filename } } bE)
    (heof : tokenEofOk env.cfg bE = .ok (none, bEE)) (hF : body.size + 2 + 1 ≤ F) :
    ∃ (wF : World) (start : Event) (evs : List Event),
      runParse env filename content (P.parserProg F (D + 1 + 1 + 1 + 1)) = (wF, .ok) ∧ wF.events = start :: evs ∧
      start.kind = .parseStart ∧
      BlockEvents globalBlock (fun h => h.kind = .ns ∧ h.ns.names = names ∧ h.ns.inline = false)
        (fun nb mid => body.Ev nb [globalBlock] mid) evs ∧
      (∃ g, wF.stack = [g] ∧ g.id = 0 ∧ g.isGlobal = true) :=
  parse_source env (by rw [hc]; exact gen_rules_progress) hnf F (D + 1 + 1 + 1 + 1)
    (Item.ns env (by rw [hc]; exact gen_rules_progress) hnf F D hskip names body) filename content bE bEE hat heof hF

/-- **concatenation** (`Theorems/WholeParse.lean`): the callbacks of the source `xs ys` (two
    sequences of items of any length, from any state at non-class scope) split into the group for
    `xs` and the group for `ys`, each constrained only by its own items and the enclosing block —
    exactly the constraints the sequence has when it stands alone (`C01_sequence`) -/
theorem C12_concatenation {env : Env} {F : Nat} {c : P.Core} (xs ys : List (Item env F c)) (w : World) (b1 b' : Buf) (blk : Block)
    (rest : List Block) (hst : w.stack = blk :: rest) (hk : blk.hdr.kind ≠ .cls) (hmu : w.muted = false)
    (hx : SeqAt xs w.buf b1) (hy : SeqAt ys b1 b') :
    ∃ (w7 : World) (e1 e2 : List Event), Ran env F c w (seqSize xs + seqSize ys) b' blk rest (e1 ++ e2) w7 ∧
      SeqEv blk rest xs e1 ∧ SeqEv blk rest ys e2 :=
  seq_concat xs ys w b1 b' blk rest hst hk hmu hx hy

end Cxx
