/-
  Props/C06.lean — C06: every input ends in a result or a CxxParseError that says where.

  On the model (errors are values):
  * `C06_runParse_total`: non-verbose `parse()` of any client on any input ends in `ok`, in a
    wrapped `parseError`, or the constructor raised — never a raw error;
  * `C06_wrap_prefix_tok` / `C06_wrap_prefix_notok`: the wrapped message is
    `"{file}:{line}: parse error evaluating '{tok}'…"` with (file, line) the location of a
    token that was read (or of the lexer for a lexical error), or `"{file}: parse error…"`
    when no token was read;
  * `C06_stray_close_rejected`: `}` with only the global state open is a CxxParseError;
  * `C06_lexer_error_wrapped`: a lexical error carries the lexer's location;
  * `C06_lexer_total`, `C06_stream_total` (`Theorems/LexTotal.lean`, table facts re-decided each
    run): on the regenerated rules the token loop and the token stream always make progress —
    `Lexer.token` returns a token, a lexical error or the real end of input, and
    `token_eof_ok` never ends because the model's bound ran out: for the lexer and the stream
    the model's `fuel` outcome does not exist, every input is lexed to the end or rejected.
  * the explicit structural checks, for every parser state of the stated shape
    (`Theorems/Structural.lean`, `Theorems/ExternForm.lean`): `C06_friend_outside_class`,
    `C06_access_outside_class` (error at the keyword, nothing consumed or delivered),
    `C06_namespace_in_class` (also namespace aliases), `C06_concept_in_class`,
    `C06_extern_in_class`, `C06_mismatched_closer` / `C06_closer_nothing_open` (bracket matcher; a `]]` that closes two
    `[` is taken apart, not rejected).
  The remaining rejection rules are sites of the parser model tied by the correspondence and
  searched by the oracle; Python-level exceptions inside helpers are runtime behaviour (named).
-/
import CxxModel.Interp
import CxxModel.Tables
import CxxModel.Parser.Decl
import CxxModel.GenCfg
import CxxModel.Theorems.Structural
namespace Cxx

theorem C06_runParse_total (env : Env) (hv : env.opts.verbose = false) (filename : String) (content : Str) (p : Prog Unit) :
    (runParse env filename content p).2 = .ok ∨
    (∃ msg e, (runParse env filename content p).2 = .parseError msg e) ∨
    (∃ e, (runParse env filename content p).2 = .ctorRaised e) := by
  simp only [runParse]
  rcases initWorld env filename content with ⟨w0, r0⟩
  cases r0 with
  | some e => exact Or.inr (Or.inr ⟨e, rfl⟩)
  | none =>
    simp only
    rcases interp env p w0 with ⟨w1, r1⟩
    cases r1 with
    | ok a => exact Or.inl rfl
    | error e => simp only [hv]; exact Or.inr (Or.inl ⟨_, _, rfl⟩)

/-- the message when a token is known: its location, then `parse error evaluating '<value>'` -/
theorem C06_wrap_prefix_tok (w : World) (filename msg : String) (t : CTok) :
    wrapError w filename (.parse msg (some t)) =
      optStr (w.resolve (.tok t.sidx)).filename ++ ":" ++ intToString (w.resolve (.tok t.sidx)).lineno ++
        ": parse error evaluating '" ++ t.value ++ "'" ++ (": " ++ msg) := by
  simp [wrapError]

/-- no token was read at all: only the file name -/
theorem C06_wrap_prefix_notok (w : World) (filename : String) (hm : w.mainTok = none) :
    wrapError w filename .eof = filename ++ ": parse error" ++ "" := by
  simp [wrapError, hm]

/-- a lexical error is reported at the lexer's own location -/
theorem C06_lexer_error_wrapped (w : World) (filename : String) (le : LexErr) :
    wrapError w filename (.lex le) =
      optStr le.loc.filename ++ ":" ++ intToString le.loc.lineno ++
        ": parse error evaluating '" ++ strOfStr le.tokValue ++ "'" ++ (": " ++ le.msg) := by
  simp [wrapError]

/-- `}` when only the global state is open: CxxParseError, nothing delivered -/
theorem C06_stray_close_rejected (env : Env) (w : World) (g : Block) (hg : g.isGlobal = true) (hs : w.stack = [g])
    {α : Type} (k : BlockView → Prog α) :
    interp env (.pop k) w = (w, .error (.parse "INTERNAL ERROR: unbalanced state" none)) := by
  simp [interp, hs, hg]


theorem C06_rules_make_progress : RulesProgress genLexCfg = true := gen_rules_progress

theorem C06_lexer_total (st : LexState) :
    plyTokenF genLexCfg st ≠ .opaque ∧ (∀ st', plyTokenF genLexCfg st = .eof st' → st'.rest = []) :=
  plyTokenF_total genLexCfg C06_rules_make_progress st

theorem C06_stream_total (b : Buf) : tokenEofOk genLexCfg b ≠ .error .fuel :=
  tokenEofOk_no_fuel genLexCfg C06_rules_make_progress b

theorem C06_friend_outside_class (env : Env) (F : Nat) (c : P.Core) (tok : CTok) (doxygen : Option String) (template : TemplateVar)
    (w : World) (blk : Block) (rest : List Block) (hstack : w.stack = blk :: rest) (hk : blk.view.kind ≠ .cls) :
    interp env (P.parseFriendDecl F c tok doxygen template) w =
      (w, .error (.parse ("unexpected '" ++ tok.value ++ "'") (some tok))) :=
  friend_outside_class env F c tok doxygen template w blk rest hstack hk

theorem C06_access_outside_class (env : Env) (tok : CTok) (w : World) (blk : Block) (rest : List Block)
    (hstack : w.stack = blk :: rest) (hk : blk.view.kind ≠ .cls) :
    interp env (P.processAccessSpecifier tok) w = (w, .error (.parse ("unexpected '" ++ tok.value ++ "'") (some tok))) :=
  access_outside_class env tok w blk rest hstack hk

theorem C06_namespace_in_class (env : Env) (loc : LocRef) (doxygen : Option String) (inline : Bool) (names : List String)
    (a : Option CTok) (w : World) (blk : Block) (rest : List Block) (hstack : w.stack = blk :: rest) (hk : blk.view.kind = .cls) :
    ∃ msg, interp env (P.nsFinish loc doxygen inline names a) w = (w, .error (.parse msg none)) :=
  namespace_in_class env loc doxygen inline names a w blk rest hstack hk

theorem C06_concept_in_class (env : Env) (F : Nat) (ctok : CTok) (doxygen : Option String) (template : TemplateDecl)
    (w : World) (blk : Block) (rest : List Block) (hstack : w.stack = blk :: rest) (hk : blk.view.kind = .cls)
    (w' : World) (r : Except Err Unit) (h : interp env (P.parseConcept F ctok doxygen template) w = (w', r)) :
    ∃ e, r = .error e :=
  concept_in_class env F ctok doxygen template w blk rest hstack hk w' r h

theorem C06_extern_in_class (env : Env) (F : Nat) (c : P.Core) (tok : CTok) (doxygen : Option String) (str : Tok)
    (w : World) (b1 : Buf) (blk : Block) (rest : List Block) (hstack : w.stack = blk :: rest) (hk : blk.view.kind = .cls)
    (hs : str.type = "STRING_LITERAL") (htok : tokenEofOk env.cfg w.buf = .ok (some str, b1)) :
    ∃ (w' : World), w'.buf = b1 ∧ SameParse w w' ∧
      interp env (P.parseExtern F c tok doxygen) w = (w', .error (.parse ("unexpected '" ++ tok.value ++ "'") (some tok))) := by
  obtain ⟨w', hb, hs', hi⟩ := extern_in_class_rejected env F c tok doxygen str w b1 blk rest hstack hk hs htok
  exact ⟨w', hb, hs', by rw [hi, interp_raise_some]⟩

theorem C06_mismatched_closer (st : List CTok × List String) (tok : CTok) (e : String) (stack : List String)
    (hend : P.isBalancedEnd tok.type = true) (hst : st.2 = e :: stack) (hne : tok.type ≠ e) (h1 : tok.type ≠ ">") (h2 : e ≠ ">")
    (hnf : P.fusedClosers tok.type e stack = false) :
    P.balStep st tok = .error (P.unexpectedErr tok e) :=
  mismatched_closer st tok e stack hend hst hne h1 h2 hnf

theorem C06_closer_nothing_open (st : List CTok × List String) (tok : CTok)
    (hend : P.isBalancedEnd tok.type = true) (hst : st.2 = []) : ∃ e, P.balStep st tok = .error e :=
  closer_nothing_open st tok hend hst

end Cxx
