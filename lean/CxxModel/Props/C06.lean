/-
  Props/C06.lean — C06: every input ends in a result or a CxxParseError that says where.

  On the model (errors are values):
  * `C06_runParse_total`: non-verbose `parse()` of any client on any input ends in `ok`, in a
    wrapped `parseError`, or the constructor raised — never a raw error;
  * `C06_wrap_prefix_tok` / `C06_wrap_prefix_notok`: the wrapped message is
    `"{file}:{line}: parse error evaluating '{tok}'…"` with (file, line) the location of a
    token that was read (or of the lexer for a lexical error), or `"{file}: parse error…"`
    when no token was read;
  * `C06_stray_close_rejected`: `}` with only the global state open is a CxxParseError;
  * `C06_lexer_error_wrapped`: a lexical error carries the lexer's location;
  * `C06_lexer_total`, `C06_stream_total` (`Theorems/LexTotal.lean`, table facts re-decided each
    run): on the regenerated rules the token loop and the token stream always make progress —
    `Lexer.token` returns a token, a lexical error or the real end of input, and
    `token_eof_ok` never ends because the model's bound ran out: for the lexer and the stream
    the model's `fuel` outcome does not exist, every input is lexed to the end or rejected.
  The remaining rejection rules are sites of the parser model tied by the correspondence and
  searched by the oracle; Python-level exceptions inside helpers are runtime behaviour (named).
-/
import CxxModel.Interp
import CxxModel.Tables
import CxxModel.Parser.Decl
import CxxModel.Theorems.LexTotal
namespace Cxx

theorem C06_runParse_total (env : Env) (hv : env.opts.verbose = false) (filename : String) (content : Str) (p : Prog Unit) :
    (runParse env filename content p).2 = .ok ∨
    (∃ msg e, (runParse env filename content p).2 = .parseError msg e) ∨
    (∃ e, (runParse env filename content p).2 = .ctorRaised e) := by
  simp only [runParse]
  rcases initWorld env filename content with ⟨w0, r0⟩
  cases r0 with
  | some e => exact Or.inr (Or.inr ⟨e, rfl⟩)
  | none =>
    simp only
    rcases interp env p w0 with ⟨w1, r1⟩
    cases r1 with
    | ok a => exact Or.inl rfl
    | error e => simp only [hv]; exact Or.inr (Or.inl ⟨_, _, rfl⟩)

/-- the message when a token is known: its location, then `parse error evaluating '<value>'` -/
theorem C06_wrap_prefix_tok (w : World) (filename msg : String) (t : CTok) :
    wrapError w filename (.parse msg (some t)) =
      optStr (w.resolve (.tok t.sidx)).filename ++ ":" ++ intToString (w.resolve (.tok t.sidx)).lineno ++
        ": parse error evaluating '" ++ t.value ++ "'" ++ (": " ++ msg) := by
  simp [wrapError]

/-- no token was read at all: only the file name -/
theorem C06_wrap_prefix_notok (w : World) (filename : String) (hm : w.mainTok = none) :
    wrapError w filename .eof = filename ++ ": parse error" ++ "" := by
  simp [wrapError, hm]

/-- a lexical error is reported at the lexer's own location -/
theorem C06_lexer_error_wrapped (w : World) (filename : String) (le : LexErr) :
    wrapError w filename (.lex le) =
      optStr le.loc.filename ++ ":" ++ intToString le.loc.lineno ++
        ": parse error evaluating '" ++ strOfStr le.tokValue ++ "'" ++ (": " ++ le.msg) := by
  simp [wrapError]

/-- `}` when only the global state is open: CxxParseError, nothing delivered -/
theorem C06_stray_close_rejected (env : Env) (w : World) (g : Block) (hg : g.isGlobal = true) (hs : w.stack = [g])
    {α : Type} (k : BlockView → Prog α) :
    interp env (.pop k) w = (w, .error (.parse "INTERNAL ERROR: unbalanced state" none)) := by
  simp [interp, hs, hg]


def genCfg6 : LexCfg := { rules := Gen.rules, literals := Gen.literals, ignore := Gen.ignore, keywords := Gen.keywords }

theorem C06_rules_make_progress : RulesProgress genCfg6 = true := by decide +kernel

theorem C06_lexer_total (st : LexState) :
    plyTokenF genCfg6 st ≠ .opaque ∧ (∀ st', plyTokenF genCfg6 st = .eof st' → st'.rest = []) :=
  plyTokenF_total genCfg6 C06_rules_make_progress st

theorem C06_stream_total (b : Buf) : tokenEofOk genCfg6 b ≠ .error .fuel :=
  tokenEofOk_no_fuel genCfg6 C06_rules_make_progress b

end Cxx
