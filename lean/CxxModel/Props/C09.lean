/-
  Props/C09.lean — C09: layout between tokens never changes the result.

  First layer (token stream), proved for every buffer:
  * `C09_discard_sets_are_layout`: the sets the stream discards are exactly the layout token
    types (regenerated from `lexer.py`);
  * `C09_popSignificant_skips_layout`: looking for the next token skips any prefix of layout
    tokens, and never returns a layout token;
  * `C09_next_ignores_layout_prefix`: `token_eof_ok` gives the same token and leaves the same
    stream whether or not layout tokens precede it in the buffer.
  Second layer (every client program, `Theorems/Layout.lean`):
  * `C09_layout_sim`: if a relation `R` on stream states is a bisimulation for the stream
    interface (no operation can tell related states apart: same tokens, same doc text,
    related successors; locations free), then EVERY client program run from `R`-related
    streams and agreeing parser states gives the same result, the same callbacks with the same
    payloads in the same order (only resolved locations may differ), the same block stack and
    counters, and `R`-related streams at the end;
  * `C09_parser_layout`: the instance at the parser model;
  * `C09_prelexed_locations_irrelevant`: a concrete bisimulation (`rbnd_bisim`): pre-lexed
    token streams that differ only in the locations of their tokens.
  * `C09_layout_in_buffer_invisible`: WHITESPACE, NEWLINE and comment tokens waiting in the
    line buffer are invisible to `token_eof_ok`: stream states with the same lexer state and the
    same significant tokens buffered return the same token and stay so related; hence
    (`C09_yields_respects_layout`) they yield the same token sequences.
  What remains carried by the correspondence `parse[relayout]` and the oracle `relayout`: that
  two TEXTS with the same significant tokens give bisimilar lexer-backed streams (the lexer
  side of the statement).
-/
import CxxModel.Theorems.LineEnds
import CxxModel.TokStream
import CxxModel.Tables
import CxxModel.Theorems.Layout
import CxxModel.Theorems.SigEq
import CxxModel.Parser.Decl
namespace Cxx

theorem C09_discard_sets_are_layout :
    Gen.discardTypes = ["COMMENT_MULTILINE", "COMMENT_SINGLELINE", "NEWLINE", "WHITESPACE"] ∧
    Gen.discardTypesExceptNewline = ["COMMENT_MULTILINE", "COMMENT_SINGLELINE", "WHITESPACE"] :=
  discard_sets_are_layout

theorem C09_popSignificant_skips_layout (disc : String → Bool) (layout rest : List Tok)
    (h : ∀ t ∈ layout, disc t.type = true) :
    popSignificant disc (layout ++ rest) = popSignificant disc rest := by
  induction layout with
  | nil => rfl
  | cons t ts ih =>
    have ht : disc t.type = true := h t (by simp)
    simp only [List.cons_append, popSignificant, ht, ↓reduceIte]
    exact ih (fun x hx => h x (by simp [hx]))

theorem C09_popSignificant_not_layout (disc : String → Bool) (buf rest : List Tok) (t : Tok)
    (h : popSignificant disc buf = some (t, rest)) : disc t.type = false := by
  induction buf with
  | nil => simp [popSignificant] at h
  | cons x xs ih =>
    simp only [popSignificant] at h
    split at h
    · exact ih h
    · rename_i hx
      injection h with h; injection h with h1 _; subst h1
      simpa using hx

theorem C09_next_ignores_layout_prefix (cfg : LexCfg) (disc : String → Bool) (fuel : Nat) (b : Buf)
    (layout : List Tok) (h : ∀ t ∈ layout, disc t.type = true) :
    nextTok cfg disc (fuel + 1) { b with tokbuf := layout ++ b.tokbuf } = nextTok cfg disc (fuel + 1) b := by
  simp only [nextTok, C09_popSignificant_skips_layout disc layout b.tokbuf h]


theorem C09_layout_sim (env : Env) (R : Buf → Buf → Prop) (hR : StreamBisim env R) {α : Type} (p : Prog α)
    (w1 w2 : World) (h : LSim R w1 w2) : LOut R (interp env p w1) (interp env p w2) :=
  layout_sim env R hR p w1 w2 h

theorem C09_parser_layout (env : Env) (R : Buf → Buf → Prop) (hR : StreamBisim env R) (F D : Nat)
    (w1 w2 : World) (h : LSim R w1 w2) :
    LOut R (interp env (P.parserProg F D) w1) (interp env (P.parserProg F D) w2) :=
  layout_sim env R hR _ w1 w2 h

/-- the delivered callbacks agree up to the resolved location, in particular there are equally many -/
theorem C09_same_callbacks (env : Env) (R : Buf → Buf → Prop) (hR : StreamBisim env R) (F D : Nat)
    (w1 w2 : World) (h : LSim R w1 w2) :
    (interp env (P.parserProg F D) w1).1.events.map Event.noLoc =
      (interp env (P.parserProg F D) w2).1.events.map Event.noLoc :=
  (layout_sim env R hR _ w1 w2 h).1.events

theorem C09_prelexed_locations_irrelevant (env : Env) (F D : Nat) (w1 w2 : World) (h : LSim RBnd w1 w2) :
    LOut RBnd (interp env (P.parserProg F D) w1) (interp env (P.parserProg F D) w2) :=
  layout_sim env RBnd (rbnd_bisim env) _ w1 w2 h

/-! non-vacuity: two bounded streams holding `int x ;` with different line numbers are related -/
example : RBnd
    (boundedBuf [{ type := "int", value := "int", loc := { filename := none, lineno := 1 } },
                 { type := "NAME", value := "x", loc := { filename := none, lineno := 1 } },
                 { type := ";", value := ";", loc := { filename := none, lineno := 1 } }])
    (boundedBuf [{ type := "int", value := "int", loc := { filename := some "f.h", lineno := 7 } },
                 { type := "NAME", value := "x", loc := { filename := some "f.h", lineno := 9 } },
                 { type := ";", value := ";", loc := { filename := some "f.h", lineno := 9 } }]) :=
  ⟨rfl, rfl, .cons ⟨rfl, rfl, rfl⟩ (.cons ⟨rfl, rfl, rfl⟩ (.cons ⟨rfl, rfl, rfl⟩ .nil))⟩


theorem C09_layout_in_buffer_invisible (cfg : LexCfg) (b b' : Buf) (h : SigEq b b') :
    (∃ e, tokenEofOk cfg b = .error e ∧ tokenEofOk cfg b' = .error e) ∨
    (∃ o b1 b1', tokenEofOk cfg b = .ok (o, b1) ∧ tokenEofOk cfg b' = .ok (o, b1') ∧ SigEq b1 b1') :=
  tokenEofOk_sigEq cfg h

theorem C09_yields_respects_layout (cfg : LexCfg) (ts : List Tok) (b b' b1 : Buf) (hy : Yields cfg b ts b1) (h : SigEq b b') :
    ∃ b1', Yields cfg b' ts b1' ∧ SigEq b1 b1' :=
  Yields.sigEq hy h


/-- **the trailing-comment scan keeps every line end** (the statement the repair 9b2dc7f makes true): `get_doxygen_after()`
    removes nothing but comment tokens from the line buffer — what a NEWLINE-sensitive read (`#pragma`, `#include`
    handling) sees of the buffer is unchanged, so a directive line that an earlier comment merged into the same buffer
    still ends where it is written, however many declarators ran the scan before it -/
theorem C09_trailing_scan_keeps_line_ends (mcRe : Re) (b : Buf) :
    (getDoxygenAfter mcRe b).2.lex = b.lex ∧ (getDoxygenAfter mcRe b).2.bounded = b.bounded ∧
      nlSigOf (getDoxygenAfter mcRe b).2.tokbuf = nlSigOf b.tokbuf :=
  getDoxygenAfter_keeps_line_ends mcRe b

/-- the same at the level of reads: after the trailing scan `token_newline_eof_ok` — the read `#pragma` / `#include` handling
    uses — returns exactly what it would have returned without the scan -/
theorem C09_newline_reads_unaffected_by_trailing_scan (cfg : LexCfg) (mcRe : Re) (b : Buf) :
    (∃ e, tokenNewlineEofOk cfg (getDoxygenAfter mcRe b).2 = .error e ∧ tokenNewlineEofOk cfg b = .error e) ∨
    (∃ o b1 b1', tokenNewlineEofOk cfg (getDoxygenAfter mcRe b).2 = .ok (o, b1) ∧ tokenNewlineEofOk cfg b = .ok (o, b1') ∧ NlSigEq b1 b1') :=
  tokenNewlineEofOk_after_getDoxygenAfter cfg mcRe b

/-- `n` trailing scans in a row (one per declarator of a statement) -/
def scansAfter (mcRe : Re) : Nat → Buf → Buf
  | 0, b => b
  | n + 1, b => scansAfter mcRe n (getDoxygenAfter mcRe b).2

/-- … for any number of scans in a row -/
theorem C09_trailing_scans_keep_line_ends (mcRe : Re) : ∀ (n : Nat) (b : Buf),
    nlSigOf (scansAfter mcRe n b).tokbuf = nlSigOf b.tokbuf := by
  intro n
  induction n with
  | zero => intro b; rfl
  | succ k ih =>
    intro b
    show nlSigOf (scansAfter mcRe k (getDoxygenAfter mcRe b).2).tokbuf = _
    rw [ih]
    exact (getDoxygenAfter_keeps_line_ends mcRe b).2.2

end Cxx
