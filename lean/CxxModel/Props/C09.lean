/-
  Props/C09.lean — C09: layout between tokens never changes the result.

  First layer (token stream), proved for every buffer:
  * `C09_discard_sets_are_layout`: the sets the stream discards are exactly the layout token
    types (regenerated from `lexer.py`);
  * `C09_popSignificant_skips_layout`: looking for the next token skips any prefix of layout
    tokens, and never returns a layout token;
  * `C09_next_ignores_layout_prefix`: `token_eof_ok` gives the same token and leaves the same
    stream whether or not layout tokens precede it in the buffer.
  The generic theorem for every client program (the parser cannot observe layout at all) is
  the abstraction theorem of DESIGN §6 C09; until it lands that clause is carried by the
  correspondence and the oracle (named in the evidence).
-/
import CxxModel.TokStream
import CxxModel.Tables
namespace Cxx

theorem C09_discard_sets_are_layout :
    Gen.discardTypes = ["COMMENT_MULTILINE", "COMMENT_SINGLELINE", "NEWLINE", "WHITESPACE"] ∧
    Gen.discardTypesExceptNewline = ["COMMENT_MULTILINE", "COMMENT_SINGLELINE", "WHITESPACE"] :=
  discard_sets_are_layout

theorem C09_popSignificant_skips_layout (disc : String → Bool) (layout rest : List Tok)
    (h : ∀ t ∈ layout, disc t.type = true) :
    popSignificant disc (layout ++ rest) = popSignificant disc rest := by
  induction layout with
  | nil => rfl
  | cons t ts ih =>
    have ht : disc t.type = true := h t (by simp)
    simp only [List.cons_append, popSignificant, ht, ↓reduceIte]
    exact ih (fun x hx => h x (by simp [hx]))

theorem C09_popSignificant_not_layout (disc : String → Bool) (buf rest : List Tok) (t : Tok)
    (h : popSignificant disc buf = some (t, rest)) : disc t.type = false := by
  induction buf with
  | nil => simp [popSignificant] at h
  | cons x xs ih =>
    simp only [popSignificant] at h
    split at h
    · exact ih h
    · rename_i hx
      injection h with h; injection h with h1 _; subst h1
      simpa using hx

theorem C09_next_ignores_layout_prefix (cfg : LexCfg) (disc : String → Bool) (fuel : Nat) (b : Buf)
    (layout : List Tok) (h : ∀ t ∈ layout, disc t.type = true) :
    nextTok cfg disc (fuel + 1) { b with tokbuf := layout ++ b.tokbuf } = nextTok cfg disc (fuel + 1) b := by
  simp only [nextTok, C09_popSignificant_skips_layout disc layout b.tokbuf h]

end Cxx
