/-
  Props/C04.lean — C04: the visitor callback stream is a well-formed, complete traversal.

  Proved for every client program of the parser interface (hence for the parser model):
  * `C04_well_nested`: with a visitor that skips nothing, the delivered stream satisfies the
    protocol monitor `track` — `on_parse_start` first and once, block starts/ends nested,
    each end matching the most recent open start, every callback carrying the innermost open
    state, `parent` = the enclosing state — and when `parse()` returns normally the open
    states are exactly the parser's stack (every block closed in the source has been ended);
  * `C04_fault_truncates`: if the `i`-th delivered callback raises, the stream is exactly
    the first `i+1` callbacks of the run in which nothing raises, and the parse fails with
    that exception as its cause; if fewer than `i+1` callbacks are delivered the runs agree.
  * `C04_block_end` (`Theorems/BlockEnd.lean`): `}` closing a namespace or extern block, for
    every parser state with that block innermost: the end callback is for exactly that block
    (same state id, parent = the enclosing block), exactly that block is popped, the visitor
    in force before the block is restored, nothing else changes.
  * `C04_toplevel_block_end`: the same through one iteration of the parse loop (regenerated
    dispatch table): `}` with a namespace / extern block innermost ends and pops exactly it.
-/
import CxxModel.Theorems.Fault
import CxxModel.Theorems.Nest
import CxxModel.Parser.Decl
import CxxModel.Theorems.FoldCount
import CxxModel.Theorems.BlockEnd
import CxxModel.Theorems.TopLevel
import CxxModel.GenCfg
import CxxModel.Theorems.WholeParse
namespace Cxx

/-- the world after `on_parse_start` satisfies the nesting invariant -/
theorem init_nest (env : Env) (hf : env.faultAt ≠ some 0) (filename : String) (content : Str) :
    (initWorld env filename content).2 = none ∧ Nest (initWorld env filename content).1 := by
  have hd : ∀ (w : World) (e : Event), w.muted = false → w.delivered = 0 →
      deliver env w e = ({ w with events := w.events ++ [e], delivered := w.delivered + 1 }, none) := by
    intro w e hm h0
    have : ¬ (env.faultAt = some w.delivered) := by rw [h0]; exact hf
    simp [deliver, hm, this]
  simp only [initWorld]
  rw [hd _ _ rfl rfl]
  refine ⟨rfl, ⟨rfl, ?_, ?_, ?_⟩⟩
  · intro b hb; simp at hb; subst hb; rfl
  · simp [track, trackStep, mkEvent, ids]
  · simp

/-- **C04 (nesting), generic.**  No start callback returns `False`; any fault position other
    than `on_parse_start` itself.  The delivered stream is accepted by the protocol monitor,
    and on normal return the monitor's open states are the parser's stack. -/
theorem C04_well_nested (env : Env) (hs : ∀ i h, env.skip i h = false) (hf : env.faultAt ≠ some 0)
    (filename : String) (content : Str) (p : Prog Unit) :
    let o := interp env p (initWorld env filename content).1
    (track o.1.events).isSome ∧ (∀ a, o.2 = .ok a → track o.1.events = some (ids o.1.stack)) := by
  obtain ⟨_, hn⟩ := init_nest env hf filename content
  obtain ⟨h1, h2⟩ := nest_sim env hs p _ hn
  exact ⟨h1, fun a ha => (h2 (by rw [ha]; trivial)).trk⟩

/-- `on_parse_start` is the first callback (and, by `track`, the only one of its kind) -/
theorem C04_parse_start_first (env : Env) (filename : String) (content : Str) (p : Prog Unit) :
    ∃ e rest, (interp env p (initWorld env filename content).1).1.events = e :: rest ∧
      (match e.kind with | .parseStart => True | _ => False) := by
  have hx := interp_extends env p (initWorld env filename content).1
  obtain ⟨suf, he, _⟩ := hx
  have hi : ∃ e, (initWorld env filename content).1.events = [e] ∧
      (match e.kind with | .parseStart => True | _ => False) := by
    by_cases h0 : env.faultAt = some 0
    · exact ⟨_, by simp [initWorld, deliver, h0]; rfl, by simp [mkEvent]⟩
    · exact ⟨_, by simp [initWorld, deliver, h0]; rfl, by simp [mkEvent]⟩
  obtain ⟨e, hie, hk⟩ := hi
  exact ⟨e, suf, by rw [he, hie]; rfl, hk⟩

theorem init_counted (env : Env) (filename : String) (content : Str) :
    Counted (initWorld env filename content).1 := by
  by_cases h0 : env.faultAt = some 0 <;> simp [initWorld, deliver, Counted, h0]

/-- **C04 (fault), generic.**  The `i`-th delivered callback (`i ≥ 1`, i.e. not
    `on_parse_start`, which is delivered by the constructor) raises. -/
theorem C04_fault_truncates (env : Env) (hf : env.faultAt = none) (i : Nat) (hi : 1 ≤ i)
    (filename : String) (content : Str) (p : Prog Unit) :
    let o := interp env p (initWorld env filename content).1
    let oF := interp (env.withFault i) p (initWorld (env.withFault i) filename content).1
    (o.1.delivered ≤ i → oF = o) ∧
    (i < o.1.delivered → oF.2 = .error (.visitor i) ∧ oF.1.events = o.1.events.take (i + 1)) := by
  have hinit : (initWorld (env.withFault i) filename content).1 = (initWorld env filename content).1 := by
    have h0 : ¬ (some i = some 0) := by intro h; injection h with h; omega
    simp [initWorld, deliver, hf, withFault_faultAt, h0]
  have hdl : (initWorld env filename content).1.delivered ≤ i := by
    simp [initWorld, deliver, hf]; exact hi
  rw [hinit]
  exact fault_sim env hf i p _ (init_counted env filename content) hdl

/-- the failure of `parse()` is chained to the exception the callback raised -/
theorem C04_fault_cause (env : Env) (hv : env.opts.verbose = false) (filename : String) (content : Str)
    (p : Prog Unit) (w0 w1 : World) (i : Nat)
    (h0 : initWorld env filename content = (w0, none))
    (h1 : interp env p w0 = (w1, .error (.visitor i))) :
    ∃ msg, (runParse env filename content p).2 = .parseError msg (.visitor i) := by
  simp [runParse, h0, h1, hv]

/-- instances at the parser model -/
theorem C04_parser_well_nested (env : Env) (hs : ∀ i h, env.skip i h = false) (hf : env.faultAt ≠ some 0)
    (filename : String) (content : Str) (F D : Nat) :
    (track (interp env (P.parserProg F D) (initWorld env filename content).1).1.events).isSome :=
  (C04_well_nested env hs hf filename content _).1

theorem C04_parser_fault (env : Env) (hf : env.faultAt = none) (i : Nat) (hi : 1 ≤ i)
    (filename : String) (content : Str) (F D : Nat) :
    let o := interp env (P.parserProg F D) (initWorld env filename content).1
    let oF := interp (env.withFault i) (P.parserProg F D) (initWorld (env.withFault i) filename content).1
    (o.1.delivered ≤ i → oF = o) ∧
    (i < o.1.delivered → oF.2 = .error (.visitor i) ∧ oF.1.events = o.1.events.take (i + 1)) :=
  C04_fault_truncates env hf i hi filename content (P.parserProg F D)

/-! the monitor is not vacuous: it rejects an end that does not match the open start -/
example :
    let s (id : Nat) (k : EventKind) (par : Option Nat) : Event :=
      { kind := k, stateId := id, stateKind := .ns, parentId := par, loc := default, access := none, hdr := default }
    track [s 0 .parseStart none, s 1 .blockStart (some 0), s 2 .blockStart (some 1), s 1 .blockEnd (some 0)] = none := by
  decide

example :
    let s (id : Nat) (k : EventKind) (par : Option Nat) : Event :=
      { kind := k, stateId := id, stateKind := .ns, parentId := par, loc := default, access := none, hdr := default }
    track [s 0 .parseStart none, s 1 .blockStart (some 0), s 2 .blockStart (some 1), s 2 .blockEnd (some 1)] = some [1, 0] := by
  decide


/-- the fold stores each payload exactly once: after any stream that folds without error, the
    number of stored objects is the number of item callbacks -/
theorem C04_each_payload_stored_once (evs : List Event) (i : Nat) (fs fs' : FoldState)
    (hn : noParseStart evs = true) (h : foldEvents evs i fs = .ok fs') :
    fs'.total = fs.total + itemCount evs :=
  foldEvents_total evs i fs fs' hn h

theorem C04_block_end (env : Env) (F : Nat) (c : P.Core) (w : World) (blk : Block) (rest : List Block)
    (hstack : w.stack = blk :: rest) (hg : blk.isGlobal = false) (hk : blk.hdr.kind ≠ .cls) :
    interp env (P.onBlockEnd F c) w =
      match deliver env w (mkEvent w .blockEnd blk (rest.head?.map (·.id))) with
      | (w1, some e) => (w1, .error e)
      | (w1, none) => ({ w1 with muted := blk.priorMuted, stack := rest }, .ok ()) :=
  block_end_nonclass env F c w blk rest hstack hg hk

section
open P

theorem C04_toplevel_block_end (env : Env) (hc : env.cfg = genLexCfg) (F : Nat) (c : Core) (w : World) (t : Tok) (b1 : Buf)
    (blk : Block) (rest : List Block) (hstack : w.stack = blk :: rest) (hg : blk.isGlobal = false) (hk : blk.hdr.kind ≠ .cls)
    (ht : tokenEofOk env.cfg w.buf = .ok (some t, b1)) (hty : t.type = "}") :
    ∃ (wA : World) (ct : CTok), SameParse w wA ∧ wA.buf = b1 ∧ ct.value = t.value ∧
      interp env (mainBody F c none) w =
        match deliver env { wA with mainTok := some ct }
            (mkEvent { wA with mainTok := some ct } .blockEnd blk (rest.head?.map (·.id))) with
        | (w1, some e) => (w1, .error e)
        | (w1, none) => ({ w1 with muted := blk.priorMuted, stack := rest }, .ok (.inl none)) :=
  toplevel_block_end env (by rw [hc]; exact gen_rules_progress) F c w t b1 blk rest hstack hg hk ht hty

end

/-! ### whole sources -/

/-- **block callbacks are paired, around their contents, for the same block** (`Theorems/ItemKinds.lean`):
    what `parse()` delivers for `namespace N { body }` from ANY state at non-class scope with an
    active visitor — for ANY body that is an `Item`, so to any nesting depth — is one start callback
    for a fresh block that is a child of the enclosing block, the body's callbacks inside THAT block,
    and one end callback for the same block; and the block stack afterwards is what it was. -/
theorem C04_namespace_block (env : Env) (hc : env.cfg = genLexCfg) (hnf : env.faultAt = none) (hskip : ∀ i h, env.skip i h = false)
    (F D : Nat) (names : List String) (body : Item env F (P.core F (D + 1 + 1 + 1 + 1)))
    (w : World) (b' : Buf) (blk : Block) (rest : List Block) (hst : w.stack = blk :: rest) (hk : blk.hdr.kind ≠ .cls)
    (hmu : w.muted = false)
    (hat : (Item.ns env (by rw [hc]; exact gen_rules_progress) hnf F D hskip names body).At w.buf b') :
    ∃ (w7 : World) (evs : List Event), Ran env F (P.core F (D + 1 + 1 + 1 + 1)) w (body.size + 2) b' blk rest evs w7 ∧
      BlockEvents blk (fun h => h.kind = .ns ∧ h.ns.names = names ∧ h.ns.inline = false)
        (fun nb mid => body.Ev nb (blk :: rest) mid) evs :=
  (Item.ns env (by rw [hc]; exact gen_rules_progress) hnf F D hskip names body).sound w b' blk rest hst hk hmu hat

/-- the same for `extern "L" { body }` -/
theorem C04_extern_block (env : Env) (hc : env.cfg = genLexCfg) (hnf : env.faultAt = none) (hskip : ∀ i h, env.skip i h = false)
    (F D : Nat) (linkage : String) (body : Item env F (P.core F (D + 1 + 1 + 1 + 1)))
    (w : World) (b' : Buf) (blk : Block) (rest : List Block) (hst : w.stack = blk :: rest) (hk : blk.hdr.kind ≠ .cls)
    (hmu : w.muted = false)
    (hat : (Item.externBlock env (by rw [hc]; exact gen_rules_progress) hnf F D hskip linkage body).At w.buf b') :
    ∃ (w7 : World) (evs : List Event), Ran env F (P.core F (D + 1 + 1 + 1 + 1)) w (body.size + 2) b' blk rest evs w7 ∧
      BlockEvents blk (fun h => h.kind = .ext ∧ h.linkage = linkage) (fun nb mid => body.Ev nb (blk :: rest) mid) evs :=
  (Item.externBlock env (by rw [hc]; exact gen_rules_progress) hnf F D hskip linkage body).sound w b' blk rest hst hk hmu hat


/-- **whole sources under a visitor that raises**: for a source that is an `Item` (skipping nothing), the run in which the
    `i`-th delivered callback raises (`i ≥ 1`) delivers exactly the first `i + 1` callbacks of `on_parse_start` followed by
    the item's callbacks and fails with that exception; if fewer callbacks are delivered the run is the unfaulted one -/
theorem C04_whole_source_fault (env : Env) (hp : RulesProgress env.cfg = true) (hnf : env.faultAt = none) (F D : Nat)
    (it : Item env F (P.core F D)) (filename : String) (content : Str) (bE bEE : Buf)
    (hat : it.At { tokbuf := [], lex := { rest := content, filename := some filename } } bE)
    (heof : tokenEofOk env.cfg bE = .ok (none, bEE)) (hF : it.size + 1 ≤ F) (i : Nat) (hi : 1 ≤ i) :
    ∃ (start : Event) (evs : List Event), start.kind = .parseStart ∧ it.Ev globalBlock [] evs ∧
      (i < evs.length + 1 →
        (interp (env.withFault i) (P.parserProg F D) (initWorld (env.withFault i) filename content).1).2 = .error (.visitor i) ∧
        (interp (env.withFault i) (P.parserProg F D) (initWorld (env.withFault i) filename content).1).1.events = (start :: evs).take (i + 1)) ∧
      (evs.length + 1 ≤ i →
        (interp (env.withFault i) (P.parserProg F D) (initWorld (env.withFault i) filename content).1).1.events = start :: evs) := by
  obtain ⟨wF, start, evs, hrun, hev, hstart, hE, _⟩ := parse_source env hp hnf F D it filename content bE bEE hat heof hF
  -- the unfaulted run, as an interpretation from the initial world
  have hn : (initWorld env filename content).2 = none := by simp [initWorld, deliver, hnf]
  have hw : (interp env (P.parserProg F D) (initWorld env filename content).1).1 = wF := by
    have := congrArg Prod.fst hrun
    simp only [runParse] at this
    rcases hi0 : initWorld env filename content with ⟨w0, r0⟩
    rw [hi0] at hn this
    simp only at hn
    subst hn
    simp only at this ⊢
    rcases h1 : interp env (P.parserProg F D) w0 with ⟨w1, r1⟩
    rw [h1] at this
    cases r1 with
    | ok a => exact this
    | error e => simp only at this; split at this <;> exact this
  have hcount : wF.delivered = evs.length + 1 := by
    obtain ⟨suf, hs1, hs2, _⟩ := interp_extends env (P.parserProg F D) (initWorld env filename content).1
    rw [hw] at hs1 hs2
    have hc := init_counted env filename content
    unfold Counted at hc
    have hlen : wF.events.length = (initWorld env filename content).1.events.length + suf.length := by rw [hs1]; simp
    rw [hev] at hlen
    simp only [List.length_cons] at hlen
    omega
  have hf := C04_parser_fault env hnf i hi filename content F D
  simp only at hf
  rw [hw] at hf
  refine ⟨start, evs, hstart, hE, ?_, ?_⟩
  · intro hlt
    obtain ⟨h1, h2⟩ := hf.2 (by rw [hcount]; exact hlt)
    exact ⟨h1, by rw [h2, hev]⟩
  · intro hge
    have := hf.1 (by rw [hcount]; exact hge)
    rw [this, hw, hev]

end Cxx
