/-
  Props/C16.lean — C16: formatted token values re-lex to the same tokens.

  The full statement (`lexSig (tokfmt ts) = ts.map value` for every lexable `ts`) is FALSE on
  the current tree (known finding: adjacent punctuators / digits fuse, e.g. `] ]`, `- >`,
  `1 . 0`, `/ /`).  Proved here (partial):
  * `C16_values_kept`: the output is the token values in order with single blanks inserted
    and nothing else — no token text is lost, duplicated, reordered or altered;
  * `C16_blank_rule`: exactly where a blank is written (from the regenerated table);
  * `C16_wide_separated`: word-like tokens (names, keywords, numbers, strings, characters —
    table classes (2,2), decided on the regenerated table) are always separated from each
    other, so they never fuse; `C16_wide_classes` lists them.
  Which punctuator neighbours re-lex correctly is checked on the implementation exhaustively
  for sequences up to length 3 (oracle, not proof) against the listed finding.
-/
import CxxModel.TokFmt
import CxxModel.Gen.LexRules
namespace Cxx

theorem C16_values_kept (ts : List Token) (h : ∀ t ∈ ts, t.value ≠ " ") :
    (tokfmtPieces 0 ts).filter (fun x => !decide (x = " ")) = ts.map (·.value) := tokfmt_values 0 ts h

theorem C16_blank_rule (last : Nat) (a b : Token) (ts : List Token) :
    tokfmtPieces last (a :: b :: ts) =
      (if (spacing a).1 + last ≥ 3 then [" ", a.value] else [a.value]) ++
      (if blankBetween a b then [" ", b.value] else [b.value]) ++ tokfmtPieces (spacing b).2 ts :=
  tokfmtPieces_cons_cons last a b ts

theorem C16_wide_separated (a b : Token) (ha : isWide a = true) (hb : isWide b = true) :
    blankBetween a b = true := wide_always_separated a b ha hb

/-- every literal class, NAME and every keyword of the lexer has spacing wish (2,2) in the
    regenerated table — the classes that `C16_wide_separated` covers -/
theorem C16_wide_classes :
    (["FLOAT_CONST", "HEX_FLOAT_CONST", "INT_CONST_HEX", "INT_CONST_BIN", "INT_CONST_OCT", "INT_CONST_DEC",
      "INT_CONST_CHAR", "NAME", "CHAR_CONST", "WCHAR_CONST", "U8CHAR_CONST", "U16CHAR_CONST", "U32CHAR_CONST",
      "STRING_LITERAL", "WSTRING_LITERAL", "U8STRING_LITERAL", "U16STRING_LITERAL", "U32STRING_LITERAL"] ++
      Gen.keywords ++ Gen.keywordTokenTypes).all
      (fun ty => Gen.wantSpacing.lookup ty == some (2, 2)) = true := by
  decide +kernel

theorem C16_tokfmt_standard : Gen.tokfmtStandard = true := by decide

end Cxx
