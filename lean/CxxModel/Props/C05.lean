/-
  Props/C05.lean — C05: returning False from a start callback prunes exactly that block.

  Full statement, for every client program of the parser interface (hence for the parser
  model `P.parserProg`), every input, every choice of which start callbacks return `False`:
  the delivered stream equals the unskipped stream with, for every skipped block,
  everything after its start callback up to and including its end callback removed.
-/
import CxxModel.Theorems.WholeParse
import CxxModel.Theorems.SkipMain
import CxxModel.Parser.Decl
namespace Cxx

theorem initWorld_noSkip (env : Env) (filename : String) (content : Str) :
    initWorld env.noSkip filename content = initWorld env filename content := rfl

/-- the initial worlds (after `on_parse_start`) are in simulation -/
theorem init_sim (env : Env) (hf : env.faultAt = none) (filename : String) (content : Str) :
    (initWorld env filename content).2 = none ∧
    SkipSim env.skip (initWorld env filename content).1 (initWorld env filename content).1 := by
  simp only [initWorld]
  rw [deliver_eq env hf]
  refine ⟨rfl, ?_⟩
  constructor <;> simp [stackSim, blockSim, chainOK, skipDepth, pruneState, pruneStep, mkEvent]

/-- the world after `runParse` is the world after interpreting the client from the initial world -/
theorem runParse_world (env : Env) (hf : env.faultAt = none) (filename : String) (content : Str)
    (p : Prog Unit) :
    (runParse env filename content p).1 = (interp env p (initWorld env filename content).1).1 := by
  have hn := (init_sim env hf filename content).1
  simp only [runParse]
  rcases hi : initWorld env filename content with ⟨w0, r0⟩
  rw [hi] at hn
  simp only at hn
  subst hn
  simp only
  rcases h1 : interp env p w0 with ⟨w1, r1⟩
  cases r1 with
  | ok a => rfl
  | error e => simp only; split <;> rfl

/-- **C05 (generic).**  For every client `p`: the stream delivered when the start callbacks
    selected by `env.skip` return `False` is `prune` of the stream delivered when none does.
    Holds whether or not the parse succeeds. -/
theorem C05_skip_prunes (env : Env) (hf : env.faultAt = none) (filename : String) (content : Str)
    (p : Prog Unit) :
    (runParse env filename content p).1.events =
      prune env.skip (runParse env.noSkip filename content p).1.events := by
  rw [runParse_world env hf, runParse_world env.noSkip hf, initWorld_noSkip]
  exact (skip_sim env hf p _ _ (init_sim env hf filename content).2).2.1.symm

/-- the outcome (success / which error) is the same with and without skipping -/
theorem C05_same_outcome (env : Env) (hf : env.faultAt = none) (filename : String) (content : Str)
    (p : Prog Unit) :
    (interp env p (initWorld env filename content).1).2 =
      (interp env.noSkip p (initWorld env filename content).1).2 :=
  (skip_sim env hf p _ _ (init_sim env hf filename content).2).1

/-- **C05 for the parser model** (any loop bound `F`, recursion depth `D`). -/
theorem C05_parser (env : Env) (hf : env.faultAt = none) (filename : String) (content : Str) (F D : Nat) :
    (runParse env filename content (P.parserProg F D)).1.events =
      prune env.skip (runParse env.noSkip filename content (P.parserProg F D)).1.events :=
  C05_skip_prunes env hf filename content _

/-! ### what `prune` removes (sanity lemmas: the statement is not vacuous) -/

/-- nothing is skipped: nothing is removed -/
theorem prune_none (evs : List Event) : prune (fun _ _ => false) evs = evs := by
  have : ∀ acc, (evs.foldl (pruneStep (fun _ _ => false)) (0, acc)) = (0, acc ++ evs) := by
    induction evs with
    | nil => intro acc; simp
    | cons e es ih =>
      intro acc
      have : pruneStep (fun _ _ => false) (0, acc) e = (0, acc ++ [e]) := by
        simp only [pruneStep]; split <;> simp
      simp [List.foldl_cons, this, ih]
  simp [prune, pruneState, this]

/-- a skipped block: its start is kept, then everything up to and including the matching
    end is dropped (here for a block containing only non-block callbacks) -/
theorem prune_flat_block (skip : Nat → BlockHdr → Bool) (s e : Event) (body : List Event)
    (hs : s.kind = .blockStart) (hsk : skip s.stateId s.hdr = true) (he : e.kind = .blockEnd)
    (hb : ∀ x ∈ body, ∃ p, x.kind = .item p) :
    prune skip ([s] ++ body ++ [e]) = [s] := by
  have h1 : pruneStep skip (0, []) s = (1, [s]) := by simp [pruneStep, hs, hsk]
  have h2 : ∀ (b : List Event), (∀ x ∈ b, ∃ p, x.kind = .item p) →
      b.foldl (pruneStep skip) (1, [s]) = (1, [s]) := by
    intro b
    induction b with
    | nil => intro _; rfl
    | cons x xs ih =>
      intro hx
      obtain ⟨p, hp⟩ := hx x (by simp)
      have : pruneStep skip (1, [s]) x = (1, [s]) := by simp [pruneStep, hp]
      simp [List.foldl_cons, this, ih (fun y hy => hx y (by simp [hy]))]
  have h3 : pruneStep skip (1, [s]) e = (0, [s]) := by simp [pruneStep, he]
  simp only [prune, pruneState, List.foldl_append, List.foldl_cons, List.foldl_nil, h1, h2 body hb, h3]


/-- **whole sources under ANY set of skipped blocks**: for a source that is an `Item` (any number of declarations of the proven
    forms, namespaces / extern blocks / classes nested to any depth) and a visitor that does not raise, the callbacks the
    visitor receives are `prune skip` of `on_parse_start` followed by exactly the item's callbacks — the composition of the
    whole-source theorem (no skipping) with the generic pruning theorem (every client program) -/
theorem C05_whole_source_pruned (env : Env) (hp : RulesProgress env.cfg = true) (hnf : env.faultAt = none) (F D : Nat)
    (it : Item env.noSkip F (P.core F D)) (filename : String) (content : Str) (bE bEE : Buf)
    (hat : it.At { tokbuf := [], lex := { rest := content, filename := some filename } } bE)
    (heof : tokenEofOk env.cfg bE = .ok (none, bEE)) (hF : it.size + 1 ≤ F) :
    ∃ (start : Event) (evs : List Event),
      (runParse env filename content (P.parserProg F D)).1.events = prune env.skip (start :: evs) ∧
      start.kind = .parseStart ∧ it.Ev globalBlock [] evs := by
  obtain ⟨wF, start, evs, hrun, hev, hstart, hE, _⟩ := parse_source env.noSkip hp hnf F D it filename content bE bEE hat heof hF
  refine ⟨start, evs, ?_, hstart, hE⟩
  rw [C05_parser env hnf filename content F D, hrun]
  exact congrArg (prune env.skip) hev

end Cxx
