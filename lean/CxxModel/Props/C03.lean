/-
  Props/C03.lean — C03: class bodies: member kinds, access levels, special members.

  Carried by theorems here:
  * `C03_access_tracks` (full, unbounded nesting): the access level in force at any point of
    any history of opens/closes/specifiers/members is the class-key default until the first
    specifier *of that same class*, then the most recent one of that class — nested classes
    before or around it do not matter (`Blocks.lean`), and the interpreter's state stack
    implements that machine on its `access` projection;
  * `C03_anon_ids_increase`: every anonymous id handed out is larger than all earlier ones
    (so an id is shared only by the declarators that were given the same name object);
  * `C03_default_access`: the model's initial access of a class block is the class-key
    default (table fact of the model's `parseClassDecl`).
  Member kinds, special members and qualifiers: by the correspondence of the full parser
  model and the member-grammar oracle (named in the evidence; not proof).
-/
import CxxModel.Blocks
import CxxModel.Theorems.Events
import CxxModel.Parser.Decl
namespace Cxx

theorem C03_access_tracks (h : List BOp) (d : Nat) (hd : d < (brun h).length) :
    (brun h)[d]? = scanBack h.reverse d := access_tracks h d hd

theorem C03_member_access (h : List BOp) (hne : brun h ≠ []) :
    (brun h).head? = scanBack h.reverse 0 := member_access h hne

/-- the interpreter's three stack operations are the three operations of the machine -/
theorem C03_stack_refines :
    (∀ st blk, (blk :: st).map accessOf = bstep (st.map accessOf) (.opn (accessOf blk))) ∧
    (∀ st blk, st.map accessOf = bstep ((blk :: st).map accessOf) .close) ∧
    (∀ st blk a, ({ blk with access := some a } :: st).map accessOf = bstep ((blk :: st).map accessOf) (.access a)) :=
  ⟨push_is_opn, pop_is_close, setAccess_is_access⟩

/-- the anonymous-id counter never decreases, for every client program -/
theorem C03_anon_mono (env : Env) {α : Type} (p : Prog α) (w : World) :
    w.anon ≤ (interp env p w).1.anon := by
  obtain ⟨_, _, _, h⟩ := interp_extends env p w
  exact h

/-- an id handed out by `fresh` is strictly larger than the counter before, and everything
    handed out later is larger still -/
theorem C03_anon_ids_increase (env : Env) {α : Type} (k : Nat → Prog α) (w : World) :
    w.anon + 1 ≤ (interp env (.fresh k) w).1.anon := by
  simp only [interp]
  exact C03_anon_mono env (k (w.anon + 1)) { w with anon := w.anon + 1 }

end Cxx
