/-
  Props/C03.lean — C03: class bodies: member kinds, access levels, special members.

  Carried by theorems here:
  * `C03_access_tracks` (full, unbounded nesting): the access level in force at any point of
    any history of opens/closes/specifiers/members is the class-key default until the first
    specifier *of that same class*, then the most recent one of that class — nested classes
    before or around it do not matter (`Blocks.lean`), and the interpreter's state stack
    implements that machine on its `access` projection;
  * `C03_anon_ids_increase`: every anonymous id handed out is larger than all earlier ones
    (so an id is shared only by the declarators that were given the same name object);
  * `C03_default_access`: the model's initial access of a class block is the class-key
    default (table fact of the model's `parseClassDecl`).
  * `C03_method_qualifiers`, `C03_method_qualifiers_assign`, `C03_method_qualifiers_body`,
    `C03_qualifier_flags` (`Theorems/MethodEnd.lean`): for EVERY sequence of the plain
    qualifiers `const`, `volatile`, `override`, `final`, `&`, `&&` (any length, any order)
    after a method's parameter list, followed by a token the routine does not handle, by
    `= 0` / `= delete` / `= default`, or by a body with bracket-balanced content,
    `_parse_method_end` sets exactly the flags that are written (a flag is on iff it was on
    before or its keyword occurs), touches nothing else of the method, and leaves the stream
    right after the declaration part it owns — for every stream state and parser state.
  * `C03_access_specifier` (`Theorems/AccessForm.lean`): in a class body `public:` /
    `protected:` / `private:` sets the access of the innermost open class — of that stack
    entry only — to the written keyword (the `.access` operation of the machine in
    `C03_stack_refines`), consumes the colon and delivers nothing; `C03_access_outside_class`:
    anywhere else it is a parse error at the keyword.
  Member kinds, constructors / destructors, `noexcept` / `throw` / trailing return in the
  qualifier sequence, base-class flags: by the correspondence of the full parser model and
  the member-grammar oracle (named in the evidence; not proof).
  * `C03_toplevel_access_specifier` (`Theorems/TopLevel.lean`): the same through one iteration of
    the parse loop on the regenerated dispatch table: `public :` etc. in a class body ends with the
    innermost class at the written access level, no callback, no doc text handed on.
  * `C03_toplevel_field` (`Theorems/VarDecl.lean`, `TopLevel.lean`): a data member through the whole
    parse loop and the recursive core — `T ptr-ops x ;` in a class body (same shape as
    `C01_toplevel_variable`) delivers exactly ONE `on_class_field` for the innermost open class with
    the name `x`, the type the declarator denotes, the access level in force in THAT class (the
    value `C03_access_tracks` characterises), no bit width, no value and the doc text before or
    else behind the declaration.
  * `C03_toplevel_class_head`, `C03_toplevel_class_end` (`Theorems/ClassForm.lean`, `TopLevel.lean`): through the parse
    loop and the recursive core — `class N {` / `struct a::b::N {` / `union N {` (no base clause) opens
    exactly ONE class block whose access level is the class-key default (`private` for `class`,
    `public` for `struct` / `union`: the `.opn` step of the machine of `C03_stack_refines`), carrying
    the written key and name, the doc text and the access level in force in the enclosing class;
    `} ;` of a named class ends and pops exactly that block (the `.close` step), restores the
    visitor in force before it, consumes the `;` and synthesises nothing.  Together with
    `C03_toplevel_access_specifier`, `C03_toplevel_field` and `C03_access_tracks`: in a class body of
    data members and access specifiers, nested to any depth, every member is reported once with the
    access level in force at its position.
  * `C03_field_declarators` (`Theorems/FieldDecls.lean`): member statements with ANY NUMBER of declarators —
    in a class body the declarator loop delivers exactly one `on_class_field` per declarator, in
    order, each with its own name, the type ITS chain denotes and the access level in force.
  * `C03_method_declarator` (`Theorems/MethodDecl.lean`, `FnDecl.lean`, `ParamForm.lean`): member functions — in a class
    body the declarator `ptr-ops f ( parameters ) qualifiers` followed by `;` delivers exactly ONE
    `on_class_method` with the name, the return type the prefix denotes, the parameters
    `_parse_parameters` decodes (`C02_parameters` for plain parameter lists of any length), the
    access level in force in THAT class and exactly the written qualifier flags
    (`C03_qualifier_flags`), for qualifier sequences of any length.
  * `C03_bitfield_declarator` (`Theorems/VarDecl.lean`, `FieldForm.lean`): bit-fields — in a class body the declarator
    `ptr-ops x : width` delivers exactly ONE `on_class_field` whose `bits` is the written decimal
    width, with the access level in force.
  * `C03_toplevel_method` (`Theorems/MethodDecl.lean`, `TopLevel.lean`): the same through one iteration of the parse loop —
    `T ptr-ops f ( p1 , … , pn ) qualifiers ;` in a class body is exactly ONE `on_class_method` with
    the access level in force and exactly the written qualifier flags.
-/
import CxxModel.Theorems.FnBody
import CxxModel.Theorems.BaseItems
import CxxModel.Theorems.FinalItems
import CxxModel.Theorems.CtorDecl
import CxxModel.Theorems.MembersN
import CxxModel.Theorems.DeclGenItems
import CxxModel.Blocks
import CxxModel.Theorems.Events
import CxxModel.Theorems.MethodEnd
import CxxModel.Theorems.AccessForm
import CxxModel.Parser.Decl
import CxxModel.Theorems.TopLevel
import CxxModel.GenCfg
import CxxModel.Theorems.FieldDecls
import CxxModel.Theorems.MethodDecl
import CxxModel.Theorems.WholeParse
namespace Cxx

theorem C03_access_tracks (h : List BOp) (d : Nat) (hd : d < (brun h).length) :
    (brun h)[d]? = scanBack h.reverse d := access_tracks h d hd

theorem C03_member_access (h : List BOp) (hne : brun h ≠ []) :
    (brun h).head? = scanBack h.reverse 0 := member_access h hne

/-- the interpreter's three stack operations are the three operations of the machine -/
theorem C03_stack_refines :
    (∀ st blk, (blk :: st).map accessOf = bstep (st.map accessOf) (.opn (accessOf blk))) ∧
    (∀ st blk, st.map accessOf = bstep ((blk :: st).map accessOf) .close) ∧
    (∀ st blk a, ({ blk with access := some a } :: st).map accessOf = bstep ((blk :: st).map accessOf) (.access a)) :=
  ⟨push_is_opn, pop_is_close, setAccess_is_access⟩

/-- the anonymous-id counter never decreases, for every client program -/
theorem C03_anon_mono (env : Env) {α : Type} (p : Prog α) (w : World) :
    w.anon ≤ (interp env p w).1.anon := by
  obtain ⟨_, _, _, h⟩ := interp_extends env p w
  exact h

/-- an id handed out by `fresh` is strictly larger than the counter before, and everything
    handed out later is larger still -/
theorem C03_anon_ids_increase (env : Env) {α : Type} (k : Nat → Prog α) (w : World) :
    w.anon + 1 ≤ (interp env (.fresh k) w).1.anon := by
  simp only [interp]
  exact C03_anon_mono env (k (w.anon + 1)) { w with anon := w.anon + 1 }


theorem C03_method_qualifiers (env : Env) (c : P.Core) (quals : List Tok) (m m' : Function) (F : Nat) (w : World)
    (bmid b' : Buf) (term : Tok)
    (hy : Yields env.cfg w.buf quals bmid) (ha : applyQuals m (quals.map (·.value)) = some m')
    (htok : tokenEofOk env.cfg bmid = .ok (some term, b')) (hp : isPlainEnd term.value = true)
    (hF : quals.length + 1 ≤ F) :
    ∃ (w' : World) (t' : Tok), interp env (P.parseMethodEnd F c m) w = (w', .ok m') ∧
      w'.buf = returnToken t' b' ∧ t'.tv = term.tv ∧ SameParse w w' :=
  methodEnd_quals env c quals m m' F w bmid b' term hy ha htok hp hF

theorem C03_method_qualifiers_assign (env : Env) (c : P.Core) (quals : List Tok) (m m1 : Function) (F : Nat) (w : World)
    (bmid b1 b2 : Buf) (eq z : Tok) (res : Function)
    (hy : Yields env.cfg w.buf quals bmid) (ha : applyQuals m (quals.map (·.value)) = some m1)
    (h1 : tokenEofOk env.cfg bmid = .ok (some eq, b1)) (he : eq.value = "=")
    (h2 : tokenEofOk env.cfg b1 = .ok (some z, b2))
    (hz : (z.value = "0" ∧ res = { m1 with pureVirtual := true }) ∨
          (z.value = "delete" ∧ res = { m1 with deleted := true }) ∨
          (z.value = "default" ∧ res = { m1 with default := true }))
    (hF : quals.length + 1 ≤ F) :
    ∃ w', interp env (P.parseMethodEnd F c m) w = (w', .ok res) ∧ w'.buf = b2 ∧ SameParse w w' :=
  methodEnd_quals_assign env c quals m m1 F w bmid b1 b2 eq z res hy ha h1 he h2 hz hF

theorem C03_method_qualifiers_body (env : Env) (c : P.Core) (quals : List Tok) (m m1 : Function) (F : Nat) (w : World)
    (bmid b1 b' : Buf) (ob : Tok) (content : List Tok) (closer : Tok)
    (hy : Yields env.cfg w.buf quals bmid) (ha : applyQuals m (quals.map (·.value)) = some m1)
    (h1 : tokenEofOk env.cfg bmid = .ok (some ob, b1)) (ho : ob.value = "{")
    (hyb : Yields env.cfg b1 (content ++ [closer]) b') (hb : Balanced "{" "}" content) (hc : closer.type = "}")
    (hF : quals.length + content.length + 2 ≤ F) :
    ∃ w', interp env (P.parseMethodEnd (F + 1) c m) w = (w', .ok { m1 with hasBody := true }) ∧ w'.buf = b' ∧ SameParse w w' :=
  methodEnd_quals_body env c quals m m1 F w bmid b1 b' ob content closer hy ha h1 ho hyb hb hc hF

/-- the flags after any qualifier sequence: on iff on before or written; nothing else moves -/
theorem C03_qualifier_flags (vs : List String) (m m' : Function) (h : applyQuals m vs = some m') :
    m'.const = (m.const || vs.contains "const") ∧ m'.volatile = (m.volatile || vs.contains "volatile") ∧
    m'.override = (m.override || vs.contains "override") ∧ m'.final = (m.final || vs.contains "final") ∧
    m'.name = m.name ∧ m'.parameters = m.parameters ∧ m'.returnType = m.returnType ∧
    m'.pureVirtual = m.pureVirtual ∧ m'.deleted = m.deleted ∧ m'.default = m.default ∧ m'.hasBody = m.hasBody :=
  applyQuals_flags vs m m' h

/-! non-vacuity: `const volatile && override final` is a qualifier sequence -/
example (m : Function) : (applyQuals m ["const", "volatile", "&&", "override", "final"]).isSome = true := by
  simp [applyQuals, qualStep]

theorem C03_access_specifier (env : Env) (tok : CTok) (colon : Tok) (w : World) (b1 : Buf) (blk : Block) (rest : List Block)
    (hstack : w.stack = blk :: rest) (hk : blk.view.kind = .cls) (hc : colon.type = ":")
    (htok : tokenEofOk env.cfg w.buf = .ok (some colon, b1)) :
    ∃ w', interp env (P.processAccessSpecifier tok) w = (w', .ok ()) ∧ w'.buf = b1 ∧
      w'.stack = { blk with access := some tok.value } :: rest ∧
      w'.events = w.events ∧ w'.delivered = w.delivered ∧ w'.anon = w.anon ∧ w'.muted = w.muted :=
  access_specifier_form env tok colon w b1 blk rest hstack hk hc htok

theorem C03_access_outside_class (env : Env) (tok : CTok) (w : World) (blk : Block) (rest : List Block)
    (hstack : w.stack = blk :: rest) (hk : blk.view.kind ≠ .cls) :
    interp env (P.processAccessSpecifier tok) w = (w, .error (.parse ("unexpected '" ++ tok.value ++ "'") (some tok))) :=
  access_outside_class env tok w blk rest hstack hk

section
open P

theorem C03_toplevel_access_specifier (env : Env) (hc : env.cfg = genLexCfg) (F : Nat) (c : Core) (w : World)
    (kw colon : Tok) (b' : Buf) (blk : Block) (rest : List Block) (hstack : w.stack = blk :: rest) (hk : blk.view.kind = .cls)
    (hkw : kw.type = "public" ∨ kw.type = "protected" ∨ kw.type = "private") (hcol : colon.type = ":")
    (hy : Yields env.cfg w.buf [kw, colon] b') :
    ∃ (w' : World), interp env (mainBody F c none) w = (w', .ok (.inl none)) ∧ w'.buf = b' ∧
      w'.stack = { blk with access := some kw.value } :: rest ∧
      w'.events = w.events ∧ w'.delivered = w.delivered ∧ w'.anon = w.anon ∧ w'.muted = w.muted :=
  toplevel_access_specifier env (by rw [hc]; exact gen_rules_progress) F c w kw colon b' blk rest hstack hk hkw hcol hy

end

section
open P

theorem C03_toplevel_field (env : Env) (hc : env.cfg = genLexCfg) (F D : Nat) (w : World)
    (first : Tok) (pairs : List (Tok × Tok)) (ops : List Tok) (x semi : Tok) (d1 : DType) (b1 b0 bmid bx b' : Buf)
    (blk : Block) (rest : List Block) (hstack : w.stack = blk :: rest) (hk : blk.hdr.kind = .cls) (acc : String) (hacc : blk.access = some acc)
    (hmu : w.muted = false) (hfa : ¬ env.faultAt = some w.delivered)
    (htok : tokenEofOk env.cfg w.buf = .ok (some first, b1))
    (hty : first.type = "NAME") (htv : identVal first.value = true)
    (hall : ∀ p ∈ pairs, p.1.type = "DBL_COLON" ∧ p.2.type = "NAME" ∧ plainVal p.2.value = true)
    (hy0 : Yields env.cfg b1 (pairs.flatMap (fun p => [p.1, p.2])) b0)
    (hops : opsHeadOk ops = true) (hopsv : ∀ o ∈ ops, o.value ≠ "auto")
    (hy : Yields env.cfg b0 ops bmid)
    (ha : applyPtrOps (.type (.mk (.name first.value none :: pairs.map (fun p => .name p.2.value none)) none false) false false)
      (ops.map (·.type)) = some d1)
    (htx : tokenEofOk env.cfg bmid = .ok (some x, bx)) (hx : x.type = "NAME") (hxv : identVal x.value = true)
    (hsemi : tokenEofOk env.cfg bx = .ok (some semi, b')) (hs : semi.type = ";")
    (hF : pairs.length + ops.length + 2 ≤ F) :
    ∃ (d : Option String) (bD : Buf) (w7 : World) (ct : CTok) (dox : Option String) (ev : Event),
      getDoxygen env.cfg env.mcRe w.buf = .ok (d, bD) ∧
      interp env (mainBody F (core F (D + 1 + 1)) none) w = (w7, .ok (.inl none)) ∧
      SigEq b' w7.buf ∧ ct.value = first.value ∧ w7.stack = { blk with loc := .tok ct.sidx } :: rest ∧
      w7.events = w.events ++ [ev] ∧ ev.kind = .item (.classField (plainField x d1 acc dox)) ∧
      ev.stateId = blk.id ∧ ev.parentId = rest.head?.map (·.id) ∧ (∀ dd, d = some dd → dox = some dd) ∧
      w7.delivered = w.delivered + 1 ∧ w7.anon = w.anon ∧ w7.muted = false ∧ w7.nextId = w.nextId :=
  toplevel_field env (by rw [hc]; exact gen_rules_progress) F D w first pairs ops x semi d1 b1 b0 bmid bx b' blk rest hstack hk acc hacc hmu hfa
    htok hty htv hall hy0 hops hopsv hy ha htx hx hxv hsemi hs hF

end

section
open P

theorem C03_toplevel_class_head (env : Env) (hc : env.cfg = genLexCfg) (F D : Nat) (w : World)
    (kw first : Tok) (pairs : List (Tok × Tok)) (ob : Tok) (bk b1 bmid b' : Buf)
    (blk : Block) (rest : List Block) (hstack : w.stack = blk :: rest)
    (hmu : w.muted = false) (hfa : ¬ env.faultAt = some w.delivered)
    (htkw : tokenEofOk env.cfg w.buf = .ok (some kw, bk)) (hkw : isClassKey kw.value = true) (hkwt : kw.type = kw.value)
    (htf : tokenEofOk env.cfg bk = .ok (some first, b1)) (hf : first.type = "NAME") (hfv : plainVal first.value = true)
    (hall : ∀ p ∈ pairs, p.1.type = "DBL_COLON" ∧ p.2.type = "NAME" ∧ plainVal p.2.value = true)
    (hy : Yields env.cfg b1 (pairs.flatMap (fun p => [p.1, p.2])) bmid)
    (htok : tokenEofOk env.cfg bmid = .ok (some ob, b')) (hob : ob.type = "{") (hF : pairs.length + 2 ≤ F) :
    ∃ (d : Option String) (bD : Buf) (w' : World) (ct : CTok),
      getDoxygen env.cfg env.mcRe w.buf = .ok (d, bD) ∧ w'.buf = b' ∧ ct.value = kw.value ∧
      w'.stack = w.stack ∧ w'.events = w.events ∧ w'.delivered = w.delivered ∧ w'.anon = w.anon ∧ w'.muted = w.muted ∧
      w'.nextId = w.nextId ∧
      interp env (mainBody F (core F (D + 1 + 1)) none) w =
        (pushedWorld env (classHdr ct first pairs blk d) w', .ok (.inl none)) :=
  toplevel_class_head env (by rw [hc]; exact gen_rules_progress) F D w kw first pairs ob bk b1 bmid b' blk rest hstack hmu hfa
    htkw hkw hkwt htf hf hfv hall hy htok hob hF

theorem C03_toplevel_class_end (env : Env) (hc : env.cfg = genLexCfg) (F : Nat) (c : Core) (w : World)
    (cl semi : Tok) (b1 b' : Buf) (cb blk : Block) (rest : List Block) (n : String) (sp : Option TemplateSpec)
    (hstack : w.stack = cb :: blk :: rest) (hg : cb.isGlobal = false) (hk : cb.hdr.kind = .cls)
    (htd : cb.hdr.typedef = false) (hname : cb.hdr.cls.typename.segments.getLast? = some (.name n sp))
    (hacc : blk.hdr.kind = .cls → ∃ a, blk.access = some a)
    (htcl : tokenEofOk env.cfg w.buf = .ok (some cl, b1)) (hcl : cl.type = "}")
    (htok : tokenEofOk env.cfg b1 = .ok (some semi, b')) (hs : semi.type = ";") :
    ∃ (wA : World) (ct : CTok), SameParse w wA ∧ ct.value = cl.value ∧
      ∀ w1, deliver env { wA with mainTok := some ct } (mkEvent { wA with mainTok := some ct } .blockEnd cb (some blk.id)) = (w1, none) →
        ∃ w3, interp env (mainBody F c none) w = (w3, .ok (.inl none)) ∧ w3.buf = b' ∧
          SameParse { w1 with muted := cb.priorMuted, stack := blk :: rest } w3 :=
  toplevel_class_end env (by rw [hc]; exact gen_rules_progress) F c w cl semi b1 b' cb blk rest n sp hstack hg hk htd hname hacc
    htcl hcl htok hs

end

section
open P

theorem C03_field_declarators (env : Env) (hnf : env.faultAt = none) (F D : Nat) (pt : DType) (hpt : isFnType pt = false)
    (blkId : Nat) (hdr : BlockHdr) (hk : hdr.kind = .cls) (acc : String) (rest : List Block) :
    ∀ (ds : List (Dtor × DType)) (last : Dtor × DType) (loc : LocRef) (dox : Option String) (w : World) (b' : Buf) (n : Nat)
      (blk : Block),
    blk.id = blkId → blk.hdr = hdr → blk.access = some acc → w.stack = blk :: rest → w.muted = false →
    (∀ p ∈ ds, p.1.OK pt p.2 ∧ p.1.sep.type = "," ∧ p.1.ops.length + 1 ≤ F) →
    last.1.OK pt last.2 → last.1.sep.type = ";" → last.1.ops.length + 1 ≤ F →
    Yields env.cfg w.buf (ds.flatMap (fun p => p.1.toks) ++ last.1.toks) b' → ds.length + 1 ≤ n →
    ∃ (wF : World) (evs : List Event) (doxs : List (Option String)) (l : LocRef) (blkF : Block),
      interp env (loopN n (loc, dox) (declaratorBody F (core F (D + 1)) pt {} .none false false)) w = (wF, .ok ()) ∧
      SigEq b' wF.buf ∧ wF.stack = blkF :: rest ∧ blkF.id = blkId ∧ blkF.hdr = hdr ∧ blkF.access = some acc ∧ blkF.loc = l ∧
      wF.events = w.events ++ evs ∧ doxs.length = ds.length + 1 ∧
      evs.map (·.kind) = fieldKinds acc (ds ++ [last]) doxs ∧ (∀ e ∈ evs, e.stateId = blkId ∧ e.parentId = rest.head?.map (·.id)) ∧
      (∀ d, dox = some d → doxs.head? = some (some d)) ∧
      wF.delivered = w.delivered + (ds.length + 1) ∧ wF.anon = w.anon ∧ wF.muted = false ∧ wF.nextId = w.nextId :=
  declarators_fields env hnf F D pt hpt blkId hdr hk acc rest

end

section
open P

theorem C03_method_declarator (env : Env) (F D : Nat) (pt : DType) (location : LocRef) (doxygen : Option String)
    (ops : List Tok) (f op semi : Tok) (plist : List Param) (quals : List Tok) (d1 : DType) (m' : Function) (w : World)
    (bmid bf bo bc bq b' : Buf)
    (blk : Block) (rest : List Block) (hstack : w.stack = blk :: rest) (hk : blk.hdr.kind = .cls)
    (hmu : w.muted = false) (hfa : ¬ env.faultAt = some w.delivered)
    (hpt : isFnType pt = false)
    (hy : Yields env.cfg w.buf ops bmid) (ha : applyPtrOps pt (ops.map (·.type)) = some d1)
    (htf : tokenEofOk env.cfg bmid = .ok (some f, bf)) (hf : f.type = "NAME") (hfv : identVal f.value = true)
    (hto : tokenEofOk env.cfg bf = .ok (some op, bo)) (hop : op.type = "(")
    (hparams : ∀ W : World, W.buf = bo → ∃ w7, interp env (parseParametersStep F (core F D) true) W = (w7, .ok (plist, false, [])) ∧
      SameButLog W w7 ∧ w7.buf = bc)
    (hyq : Yields env.cfg bc quals bq)
    (haq : applyQuals { plainFunction f d1 doxygen with parameters := plist, isMethod := true, access := blk.access }
      (quals.map (·.value)) = some m')
    (hts : tokenEofOk env.cfg bq = .ok (some semi, b')) (hs : semi.type = ";") (hsv : semi.value = ";") (hFq : quals.length + 1 ≤ F)
    (hF : ops.length + 1 ≤ F) :
    ∃ (w7 : World) (ev : Event),
      interp env (declaratorBody F (core F (D + 1)) pt {} .none false false (location, doxygen)) w = (w7, .ok (.inr ())) ∧
      w7.buf = b' ∧ w7.stack = { blk with loc := location } :: rest ∧
      w7.events = w.events ++ [ev] ∧ ev.kind = .item (.classMethod m') ∧
      ev.stateId = blk.id ∧ ev.parentId = rest.head?.map (·.id) ∧
      w7.delivered = w.delivered + 1 ∧ w7.anon = w.anon ∧ w7.muted = false ∧ w7.nextId = w.nextId ∧
      w7.mainTok = w.mainTok :=
  declarator_method env F D pt location doxygen ops f op semi plist quals d1 m' w bmid bf bo bc bq b' blk rest hstack hk hmu hfa
    hpt hy ha htf hf hfv hto hop hparams hyq haq hts hs hsv hFq hF

end

section
open P

theorem C03_bitfield_declarator (env : Env) (F D : Nat) (pt : DType) (location : LocRef) (doxygen : Option String)
    (ops : List Tok) (x colon num tm : Tok) (d1 : DType) (w : World) (bmid bx bc bn b' : Buf)
    (blk : Block) (rest : List Block) (hstack : w.stack = blk :: rest) (hk : blk.hdr.kind = .cls) (acc : String) (hacc : blk.access = some acc)
    (hmu : w.muted = false) (hfa : ¬ env.faultAt = some w.delivered)
    (hpt : isFnType pt = false)
    (hy : Yields env.cfg w.buf ops bmid) (ha : applyPtrOps pt (ops.map (·.type)) = some d1)
    (htx : tokenEofOk env.cfg bmid = .ok (some x, bx)) (hx : x.type = "NAME") (hxv : identVal x.value = true)
    (htc : tokenEofOk env.cfg bx = .ok (some colon, bc)) (hc : colon.type = ":")
    (htn : tokenEofOk env.cfg bc = .ok (some num, bn)) (hn : num.type = "INT_CONST_DEC") (hdig : allDigits num.value = true)
    (httm : tokenEofOk env.cfg bn = .ok (some tm, b')) (htm : tm.type = ";" ∨ tm.type = ",")
    (hF : ops.length + 1 ≤ F) :
    ∃ (w7 : World) (c : CTok) (dox : Option String) (ev : Event),
      interp env (declaratorBody F (core F (D + 1)) pt {} .none false false (location, doxygen)) w =
        (w7, .ok (afterDeclarator tm c)) ∧
      SigEq b' w7.buf ∧ w7.stack = { blk with loc := location } :: rest ∧
      w7.events = w.events ++ [ev] ∧ ev.kind = .item (.classField { plainField x d1 acc dox with bits := some num.value.toNat! }) ∧
      ev.stateId = blk.id ∧ ev.parentId = rest.head?.map (·.id) ∧ (∀ d, doxygen = some d → dox = some d) ∧
      w7.delivered = w.delivered + 1 ∧ w7.anon = w.anon ∧ w7.muted = false ∧ w7.nextId = w.nextId ∧
      w7.mainTok = w.mainTok :=
  declarator_field_bits env F D pt location doxygen ops x colon num tm d1 w bmid bx bc bn b' blk rest hstack hk acc hacc hmu hfa
    hpt hy ha htx hx hxv htc hc htn hn hdig httm htm hF

end

section
open P

theorem C03_toplevel_method (env : Env) (hc : env.cfg = genLexCfg) (F D : Nat) (w : World)
    (first : Tok) (pairs : List (Tok × Tok)) (ops : List Tok) (x op : Tok) (ps : List (PItem × DType × Tok)) (last : PItem × DType) (cp semi : Tok) (quals : List Tok) (m' : Function) (d1 : DType) (b1 b0 bmid bx bo bc bq b' : Buf)
    (blk : Block) (rest : List Block) (hstack : w.stack = blk :: rest) (hk : blk.hdr.kind = .cls)
    (hmu : w.muted = false) (hfa : ¬ env.faultAt = some w.delivered)
    (htok : tokenEofOk env.cfg w.buf = .ok (some first, b1))
    (hty : first.type = "NAME") (htv : identVal first.value = true)
    (hall : ∀ p ∈ pairs, p.1.type = "DBL_COLON" ∧ p.2.type = "NAME" ∧ plainVal p.2.value = true)
    (hy0 : Yields env.cfg b1 (pairs.flatMap (fun p => [p.1, p.2])) b0)
    (hops : opsHeadOk ops = true) (hopsv : ∀ o ∈ ops, o.value ≠ "auto")
    (hy : Yields env.cfg b0 ops bmid)
    (ha : applyPtrOps (.type (.mk (.name first.value none :: pairs.map (fun p => .name p.2.value none)) none false) false false)
      (ops.map (·.type)) = some d1)
    (htx : tokenEofOk env.cfg bmid = .ok (some x, bx)) (hx : x.type = "NAME") (hxv : identVal x.value = true)
    (hto : tokenEofOk env.cfg bx = .ok (some op, bo)) (hop : op.type = "(")
    (hallp : ∀ q ∈ ps, q.1.OK q.2.1 ∧ q.2.2.type = "," ∧ q.2.2.value ≠ ")" ∧ q.1.pairs.length + q.1.ops.length + 2 ≤ F)
    (hlastp : last.1.OK last.2) (hlF : last.1.pairs.length + last.1.ops.length + 2 ≤ F) (hcp : cp.type = ")") (hcpv : cp.value = ")")
    (hyp : Yields env.cfg bo (ps.flatMap (fun q => q.1.toks ++ [q.2.2]) ++ (last.1.toks ++ [cp])) bc) (hFp : ps.length + 1 ≤ F)
    (hyq : Yields env.cfg bc quals bq)
    (hsemi : tokenEofOk env.cfg bq = .ok (some semi, b')) (hs : semi.type = ";") (hsv : semi.value = ";") (hFq : quals.length + 1 ≤ F)
    (hF : pairs.length + ops.length + 2 ≤ F) :
    ∀ (d : Option String) (bD : Buf), getDoxygen env.cfg env.mcRe w.buf = .ok (d, bD) →
    applyQuals { plainFunction x d1 d with parameters := ps.map (fun q => q.1.param q.2.1) ++ [last.1.param last.2], isMethod := true, access := blk.access }
      (quals.map (·.value)) = some m' →
    ∃ (w7 : World) (ct : CTok) (ev : Event),
      interp env (mainBody F (core F (D + 1 + 1 + 1 + 1)) none) w = (w7, .ok (.inl none)) ∧
      w7.buf = b' ∧ ct.value = first.value ∧ w7.stack = { blk with loc := .tok ct.sidx } :: rest ∧
      w7.events = w.events ++ [ev] ∧ ev.kind = .item (.classMethod m') ∧
      ev.stateId = blk.id ∧ ev.parentId = rest.head?.map (·.id) ∧
      w7.delivered = w.delivered + 1 ∧ w7.anon = w.anon ∧ w7.muted = false ∧ w7.nextId = w.nextId :=
  toplevel_method env (by rw [hc]; exact gen_rules_progress) F D w first pairs ops x op ps last cp semi quals m' d1 b1 b0 bmid bx bo bc bq b' blk rest hstack hk hmu hfa
    htok hty htv hall hy0 hops hopsv hy ha htx hx hxv hto hop hallp hlastp hlF hcp hcpv hyp hFp hyq hsemi hs hsv hFq hF

end

/-! ### whole class bodies -/

/-- **C03 through whole class bodies** (`Theorems/Members.lean`, `MemberKinds.lean`): in the callbacks
    of a class body of ANY length, the member at ANY position is reported under the access level
    left by the members before it … -/
theorem C03_member_access_level {env : Env} {F : Nat} {c : P.Core} {blk : Block} {rest : List Block}
    (pre : List (Member env F c)) (m : Member env F c) (post : List (Member env F c)) (acc : String) (evs : List Event)
    (h : MSeqEv blk rest (pre ++ m :: post) acc evs) :
    ∃ (e1 g e2 : List Event) (blk' : Block), evs = e1 ++ g ++ e2 ∧ blk.SameButLocAcc blk' ∧ m.Ev blk' rest (accAfter pre acc) g :=
  MSeqEv.at_member pre m post acc evs h

/-- … and that level is the LATEST access specifier's: after `… kw: m₁ … mₖ` (the `mᵢ` not access
    specifiers) it is `kw`, whatever came before; with no specifier at all it is the class key's
    default (`C03_default_access_kept`) -/
theorem C03_latest_specifier_wins {env : Env} (hp : RulesProgress env.cfg = true) {F D : Nat}
    (pre post : List (Member env F (P.core F (D + 1 + 1 + 1 + 1)))) (kw colon : Tok) (acc : String)
    (hpost : ∀ m ∈ post, m.accOut = id) :
    accAfter (pre ++ Member.accessSpec env hp F D kw colon :: post) acc = kw.value :=
  accAfter_spec hp pre post kw colon acc hpost

theorem C03_default_access_kept {env : Env} {F : Nat} {c : P.Core} (ms : List (Member env F c)) (acc : String)
    (h : ∀ m ∈ ms, m.accOut = id) : accAfter ms acc = acc :=
  accAfter_id ms acc h

/-- a class body run from any state inside the class: all members' iterations run, one group of
    callbacks per member, in order, each under the access level in force at that point -/
theorem C03_class_body (env : Env) (F : Nat) (c : P.Core) (ms : List (Member env F c)) (w : World) (b' : Buf) (blk : Block)
    (rest : List Block) (acc : String) (hst : w.stack = blk :: rest) (hk : blk.hdr.kind = .cls) (hacc : blk.access = some acc)
    (hmu : w.muted = false) (hat : MSeqAt ms w.buf b') :
    ∃ (w7 : World) (evs : List Event), RanC env F c w (mseqSize ms) b' blk rest (accAfter ms acc) evs w7 ∧
      MSeqEv blk rest ms acc evs :=
  mseq_sound ms w b' blk rest acc hst hk hacc hmu hat

/-- **the whole run on `key N { members };`**: the class's start and end callbacks around the
    members' callbacks, which are read under the class key's default access level until a
    specifier changes it -/
theorem C03_class_source (env : Env) (hc : env.cfg = genLexCfg) (hnf : env.faultAt = none) (hskip : ∀ i h, env.skip i h = false)
    (F D : Nat) (kw first : Tok) (pairs : List (Tok × Tok)) (ms : List (Member env F (P.core F (D + 1 + 1 + 1 + 1))))
    (filename : String) (content : Str) (bE bEE : Buf)
    (hat : (Item.cls env (by rw [hc]; exact gen_rules_progress) hnf F D hskip kw first pairs ms).At
      { tokbuf := [], lex := { rest := content, filename := some filename } } bE)
    (heof : tokenEofOk env.cfg bE = .ok (none, bEE)) (hF : mseqSize ms + 2 + 1 ≤ F) :
    ∃ (wF : World) (start : Event) (evs : List Event),
      runParse env filename content (P.parserProg F (D + 1 + 1 + 1 + 1)) = (wF, .ok) ∧ wF.events = start :: evs ∧
      start.kind = .parseStart ∧
      BlockEvents globalBlock
        (fun h => h.kind = .cls ∧ h.access = some (defaultAccess kw.value) ∧
          h.cls.typename = .mk (.name first.value none :: pairs.map (fun p => .name p.2.value none)) (some kw.value) false)
        (fun nb mid => MSeqEv nb [globalBlock] ms (defaultAccess kw.value) mid) evs := by
  obtain ⟨wF, start, evs, h1, h2, h3, h4, _⟩ := parse_source env (by rw [hc]; exact gen_rules_progress) hnf F (D + 1 + 1 + 1 + 1)
    (Item.cls env (by rw [hc]; exact gen_rules_progress) hnf F D hskip kw first pairs ms) filename content bE bEE hat heof hF
  exact ⟨wF, start, evs, h1, h2, h3, h4⟩

/-! non-vacuity of `C03_latest_specifier_wins` / `C03_member_access_level`: the members
    `f; public: g; private: h;` — `h` is reported under `private`, `g` under `public`, `f` under the
    level the body started with -/
example (env : Env) (hp : RulesProgress env.cfg = true) (hnf : env.faultAt = none) (F D : Nat) (v1 v2 : VarDeclToks)
    (pub c1 priv c2 : Tok) (acc : String) :
    accAfter [Member.field env hp hnf F D v1, Member.accessSpec env hp F D pub c1, Member.field env hp hnf F D v2,
      Member.accessSpec env hp F D priv c2] acc = priv.value ∧
    accAfter [Member.field env hp hnf F D v1, Member.accessSpec env hp F D pub c1] acc = pub.value ∧
    accAfter ([] : List (Member env F (P.core F (D + 1 + 1 + 1 + 1)))) acc = acc :=
  ⟨rfl, rfl, rfl⟩

/-- **nested classes**: a class nested in a class body is itself a member (`Member.cls`): from any
    state inside the outer class, with ANY access level `acc` in force, its start callback, its
    members' callbacks read from ITS key's default level, its end callback; afterwards the outer
    class is on top again with `acc` still in force -/
theorem C03_nested_class (env : Env) (hc : env.cfg = genLexCfg) (hnf : env.faultAt = none) (hskip : ∀ i h, env.skip i h = false)
    (F D : Nat) (kw first : Tok) (pairs : List (Tok × Tok)) (ms : List (Member env F (P.core F (D + 1 + 1 + 1 + 1))))
    (w : World) (b' : Buf) (blk : Block) (rest : List Block) (acc : String) (hst : w.stack = blk :: rest)
    (hk : blk.hdr.kind = .cls) (hacc : blk.access = some acc) (hmu : w.muted = false)
    (hat : (Member.cls env (by rw [hc]; exact gen_rules_progress) hnf F D hskip kw first pairs ms).At w.buf b') :
    ∃ (w7 : World) (evs : List Event), RanC env F (P.core F (D + 1 + 1 + 1 + 1)) w (mseqSize ms + 2) b' blk rest acc evs w7 ∧
      BlockEvents blk
        (fun h => h.kind = .cls ∧ h.access = some (defaultAccess kw.value) ∧ h.cls.access = some acc ∧
          h.cls.typename = .mk (.name first.value none :: pairs.map (fun p => .name p.2.value none)) (some kw.value) false)
        (fun nb mid => MSeqEv nb (blk :: rest) ms (defaultAccess kw.value) mid) evs :=
  (Member.cls env (by rw [hc]; exact gen_rules_progress) hnf F D hskip kw first pairs ms).sound w b' blk rest acc hst hk hacc hmu hat


section
open P

/-- **`S ptr-ops x ;` in a class body through `parse()`'s loop, for ANY type specifier `S`** (`TypeSpecR`: qualified
    names, fundamental keyword groups, any number of `const` / `volatile` before and after them): exactly ONE
    `on_class_field` for the innermost open class, with the access level in force there and the type the pointer
    chain denotes over the type `S` denotes -/
theorem C03_cv_field (env : Env) (hp : RulesProgress env.cfg = true) (F D : Nat) (w : World)
    (toks : List Tok) (first : Tok) (trest : List Tok) (segs : List PQSeg) (cst vol : Bool)
    (ops : List Tok) (x semi : Tok) (d1 : DType) (b1 b0 bmid bx b' : Buf)
    (blk : Block) (rest : List Block) (hstack : w.stack = blk :: rest) (hk : blk.hdr.kind = .cls) (acc : String) (hacc : blk.access = some acc)
    (hmu : w.muted = false) (hfa : ¬ env.faultAt = some w.delivered)
    (hspec : TypeSpecR env F D toks segs cst vol) (htoks : toks = first :: trest) (hfirst : specFirst first.type = true)
    (htok : tokenEofOk env.cfg w.buf = .ok (some first, b1))
    (hy0 : Yields env.cfg b1 trest b0)
    (hops : opsHeadOk ops = true) (hopsv : ∀ o ∈ ops, o.value ≠ "auto")
    (hy : Yields env.cfg b0 ops bmid)
    (ha : applyPtrOps (.type (.mk segs none false) cst vol) (ops.map (·.type)) = some d1)
    (htx : tokenEofOk env.cfg bmid = .ok (some x, bx)) (hx : x.type = "NAME") (hxv : identVal x.value = true)
    (hsemi : tokenEofOk env.cfg bx = .ok (some semi, b')) (hs : semi.type = ";")
    (hF : ops.length + 2 ≤ F) :
    ∃ (d : Option String) (bD : Buf) (w7 : World) (ct : CTok) (dox : Option String) (ev : Event),
      getDoxygen env.cfg env.mcRe w.buf = .ok (d, bD) ∧
      interp env (mainBody F (core F (D + 1 + 1)) none) w = (w7, .ok (.inl none)) ∧
      SigEq b' w7.buf ∧ ct.value = first.value ∧ w7.stack = { blk with loc := .tok ct.sidx } :: rest ∧
      w7.events = w.events ++ [ev] ∧ ev.kind = .item (.classField (plainField x d1 acc dox)) ∧
      ev.stateId = blk.id ∧ ev.parentId = rest.head?.map (·.id) ∧ (∀ dd, d = some dd → dox = some dd) ∧
      w7.delivered = w.delivered + 1 ∧ w7.anon = w.anon ∧ w7.muted = false ∧ w7.nextId = w.nextId :=
  toplevel_field_gen env hp F D w toks first trest segs cst vol ops x semi d1 b1 b0 bmid bx b' blk rest hstack hk acc hacc hmu hfa
    hspec htoks hfirst htok hy0 hops hopsv hy ha htx hx hxv hsemi hs hF

/-- the same for ANY declarator prefix as well (`PrefixSpec`: pointer chains, pointer chains ending in `&` / `&&`) -/
theorem C03_field_general (env : Env) (hp : RulesProgress env.cfg = true) (F D : Nat) (w : World)
    (toks : List Tok) (first : Tok) (trest : List Tok) (segs : List PQSeg) (cst vol : Bool)
    (pre : List (String × String)) (ops : List Tok) (x semi : Tok) (d1 : DType) (b1 b0 bmid bx b' : Buf)
    (blk : Block) (rest : List Block) (hstack : w.stack = blk :: rest) (hk : blk.hdr.kind = .cls) (acc : String) (hacc : blk.access = some acc)
    (hmu : w.muted = false) (hfa : ¬ env.faultAt = some w.delivered)
    (hspec : TypeSpecR env F D toks segs cst vol) (htoks : toks = first :: trest) (hfirst : specFirst first.type = true)
    (htok : tokenEofOk env.cfg w.buf = .ok (some first, b1))
    (hy0 : Yields env.cfg b1 trest b0)
    (hhead : ∀ p ∈ pre.head?, declStart p.1 = true ∧ p.2 ≠ "auto")
    (hy : Yields env.cfg b0 ops bmid)
    (hpre : PrefixSpec env F (D + 1) (.type (.mk segs none false) cst vol) pre d1) (hfn : isFnType d1 = false) (hops : tvs ops = pre)
    (htx : tokenEofOk env.cfg bmid = .ok (some x, bx)) (hx : x.type = "NAME") (hxv : identVal x.value = true)
    (hsemi : tokenEofOk env.cfg bx = .ok (some semi, b')) (hs : semi.type = ";")
    (hF : 2 ≤ F) :
    ∃ (d : Option String) (bD : Buf) (w7 : World) (ct : CTok) (dox : Option String) (ev : Event),
      getDoxygen env.cfg env.mcRe w.buf = .ok (d, bD) ∧
      interp env (mainBody F (core F (D + 1 + 1)) none) w = (w7, .ok (.inl none)) ∧
      SigEq b' w7.buf ∧ ct.value = first.value ∧ w7.stack = { blk with loc := .tok ct.sidx } :: rest ∧
      w7.events = w.events ++ [ev] ∧ ev.kind = .item (.classField (plainField x d1 acc dox)) ∧
      ev.stateId = blk.id ∧ ev.parentId = rest.head?.map (·.id) ∧ (∀ dd, d = some dd → dox = some dd) ∧
      w7.delivered = w.delivered + 1 ∧ w7.anon = w.anon ∧ w7.muted = false ∧ w7.nextId = w.nextId :=
  toplevel_field_pre env hp F D w toks first trest segs cst vol pre ops x semi d1 b1 b0 bmid bx b' blk rest hstack hk acc hacc hmu hfa
    hspec htoks hfirst htok hy0 hhead hy hpre hfn hops htx hx hxv hsemi hs hF

/-- **member functions over ANY return-type specifier** (`TypeSpecR`), any decoded parameter list and any qualifier
    sequence: exactly ONE `on_class_method` with exactly the written qualifier flags -/
theorem C03_method_general (env : Env) (hp : RulesProgress env.cfg = true) (F D : Nat) (w : World)
    (toks : List Tok) (first : Tok) (trest : List Tok) (segs : List PQSeg) (cst vol : Bool) (ops : List Tok) (x op : Tok) (plist : List Param) (semi : Tok) (quals : List Tok) (m' : Function) (d1 : DType) (b1 b0 bmid bx bo bc bq b' : Buf)
    (blk : Block) (rest : List Block) (hstack : w.stack = blk :: rest) (hk : blk.hdr.kind = .cls)
    (hmu : w.muted = false) (hfa : ¬ env.faultAt = some w.delivered)
    (hspec : TypeSpecR env F (D + 1 + 1) toks segs cst vol) (htoks : toks = first :: trest) (hfirst : specFirst first.type = true)
    (htok : tokenEofOk env.cfg w.buf = .ok (some first, b1))
    (hy0 : Yields env.cfg b1 trest b0)
    (hops : opsHeadOk ops = true) (hopsv : ∀ o ∈ ops, o.value ≠ "auto")
    (hy : Yields env.cfg b0 ops bmid)
    (ha : applyPtrOps (.type (.mk segs none false) cst vol) (ops.map (·.type)) = some d1)
    (htx : tokenEofOk env.cfg bmid = .ok (some x, bx)) (hx : x.type = "NAME") (hxv : identVal x.value = true)
    (hto : tokenEofOk env.cfg bx = .ok (some op, bo)) (hop : op.type = "(")
    (hparams : ∀ W : World, W.buf = bo → ∃ w7, interp env (parseParametersStep F (core F (D + 1 + 1 + 1)) true) W = (w7, .ok (plist, false, [])) ∧
      SameButLog W w7 ∧ w7.buf = bc)
    (hyq : Yields env.cfg bc quals bq)
    (hsemi : tokenEofOk env.cfg bq = .ok (some semi, b')) (hs : semi.type = ";") (hsv : semi.value = ";") (hFq : quals.length + 1 ≤ F)
    (hF : ops.length + 2 ≤ F) :
    ∀ (d : Option String) (bD : Buf), getDoxygen env.cfg env.mcRe w.buf = .ok (d, bD) →
    applyQuals { plainFunction x d1 d with parameters := plist, isMethod := true, access := blk.access }
      (quals.map (·.value)) = some m' →
    ∃ (w7 : World) (ct : CTok) (ev : Event),
      interp env (mainBody F (core F (D + 1 + 1 + 1 + 1)) none) w = (w7, .ok (.inl none)) ∧
      w7.buf = b' ∧ ct.value = first.value ∧ w7.stack = { blk with loc := .tok ct.sidx } :: rest ∧
      w7.events = w.events ++ [ev] ∧ ev.kind = .item (.classMethod m') ∧
      ev.stateId = blk.id ∧ ev.parentId = rest.head?.map (·.id) ∧
      w7.delivered = w.delivered + 1 ∧ w7.anon = w.anon ∧ w7.muted = false ∧ w7.nextId = w.nextId :=
  toplevel_method_gen env hp F D w toks first trest segs cst vol ops x op plist semi quals m' d1 b1 b0 bmid bx bo bc bq b' blk rest hstack hk hmu hfa hspec htoks hfirst htok hy0 hops hopsv hy ha htx hx hxv hto hop hparams hyq hsemi hs hsv hFq hF

/-- **array data members `S prefix x [ size ] ;` through `parse()`'s loop**: exactly ONE `on_class_field` with the access level
    in force, the array type and exactly the written size tokens -/
theorem C03_array_field (env : Env) (hp : RulesProgress env.cfg = true) (F D : Nat) (w : World)
    (toks : List Tok) (first : Tok) (trest : List Tok) (segs : List PQSeg) (cst vol : Bool)
    (pre : List (String × String)) (ops : List Tok) (x ob : Tok) (content : List Tok) (cb semi : Tok) (d1 : DType) (b1 b0 bmid bx bo bc b' : Buf)
    (blk : Block) (rest : List Block) (hstack : w.stack = blk :: rest) (hk : blk.hdr.kind = .cls) (acc : String) (hacc : blk.access = some acc)
    (hmu : w.muted = false) (hfa : ¬ env.faultAt = some w.delivered)
    (hspec : TypeSpecR env (F + 1) D toks segs cst vol) (htoks : toks = first :: trest) (hfirst : specFirst first.type = true)
    (htok : tokenEofOk env.cfg w.buf = .ok (some first, b1))
    (hy0 : Yields env.cfg b1 trest b0)
    (hhead : ∀ p ∈ pre.head?, declStart p.1 = true ∧ p.2 ≠ "auto")
    (hy : Yields env.cfg b0 ops bmid)
    (hpre : PrefixSpec env (F + 1) (D + 1) (.type (.mk segs none false) cst vol) pre d1) (hfn : isFnType d1 = false) (hnr : isRefLike d1 = false) (hops : tvs ops = pre)
    (htx : tokenEofOk env.cfg bmid = .ok (some x, bx)) (hx : x.type = "NAME") (hxv : identVal x.value = true)
    (hto : tokenEofOk env.cfg bx = .ok (some ob, bo)) (hob : ob.type = "[")
    (hn : Nested (content.map (·.type))) (hcb : cb.type = "]") (hyc : Yields env.cfg bo (content ++ [cb]) bc)
    (hsemi : tokenEofOk env.cfg bc = .ok (some semi, b')) (hs : semi.type = ";")
    (hF : content.length + 1 ≤ F) :
    ∃ (d : Option String) (bD : Buf) (w7 : World) (ct : CTok) (dox : Option String) (ev : Event),
      getDoxygen env.cfg env.mcRe w.buf = .ok (d, bD) ∧
      interp env (mainBody (F + 1) (core (F + 1) (D + 1 + 1)) none) w = (w7, .ok (.inl none)) ∧
      SigEq b' w7.buf ∧ ct.value = first.value ∧ w7.stack = { blk with loc := .tok ct.sidx } :: rest ∧
      w7.events = w.events ++ [ev] ∧ ev.kind = .item (.classField (plainField x (DType.array d1 (if content.isEmpty then none else some (valueOf content))) acc dox)) ∧
      ev.stateId = blk.id ∧ ev.parentId = rest.head?.map (·.id) ∧ (∀ dd, d = some dd → dox = some dd) ∧
      w7.delivered = w.delivered + 1 ∧ w7.anon = w.anon ∧ w7.muted = false ∧ w7.nextId = w.nextId :=
  toplevel_field_array_pre env hp F D w toks first trest segs cst vol pre ops x ob content cb semi d1 b1 b0 bmid bx bo bc b' blk rest hstack hk acc hacc hmu hfa hspec htoks hfirst htok hy0 hhead hy hpre hfn hnr hops htx hx hxv hto hob hn hcb hyc hsemi hs hF

/-- **bit-field members `S prefix x : width ;` through `parse()`'s loop**, any type specifier, any declarator prefix: exactly ONE
    `on_class_field` with the access level in force whose `bits` is the written decimal width -/
theorem C03_bitfield_member (env : Env) (hp : RulesProgress env.cfg = true) (F D : Nat) (w : World)
    (toks : List Tok) (first : Tok) (trest : List Tok) (segs : List PQSeg) (cst vol : Bool)
    (pre : List (String × String)) (ops : List Tok) (x colon num semi : Tok) (d1 : DType) (b1 b0 bmid bx bc bn b' : Buf)
    (blk : Block) (rest : List Block) (hstack : w.stack = blk :: rest) (hk : blk.hdr.kind = .cls) (acc : String) (hacc : blk.access = some acc)
    (hmu : w.muted = false) (hfa : ¬ env.faultAt = some w.delivered)
    (hspec : TypeSpecR env F D toks segs cst vol) (htoks : toks = first :: trest) (hfirst : specFirst first.type = true)
    (htok : tokenEofOk env.cfg w.buf = .ok (some first, b1))
    (hy0 : Yields env.cfg b1 trest b0)
    (hhead : ∀ p ∈ pre.head?, declStart p.1 = true ∧ p.2 ≠ "auto")
    (hy : Yields env.cfg b0 ops bmid)
    (hpre : PrefixSpec env F (D + 1) (.type (.mk segs none false) cst vol) pre d1) (hfn : isFnType d1 = false) (hops : tvs ops = pre)
    (htx : tokenEofOk env.cfg bmid = .ok (some x, bx)) (hx : x.type = "NAME") (hxv : identVal x.value = true)
    (htc : tokenEofOk env.cfg bx = .ok (some colon, bc)) (hc : colon.type = ":")
    (htn : tokenEofOk env.cfg bc = .ok (some num, bn)) (hn : num.type = "INT_CONST_DEC") (hdig : allDigits num.value = true)
    (hsemi : tokenEofOk env.cfg bn = .ok (some semi, b')) (hs : semi.type = ";")
    (hF : 2 ≤ F) :
    ∃ (d : Option String) (bD : Buf) (w7 : World) (ct : CTok) (dox : Option String) (ev : Event),
      getDoxygen env.cfg env.mcRe w.buf = .ok (d, bD) ∧
      interp env (mainBody F (core F (D + 1 + 1)) none) w = (w7, .ok (.inl none)) ∧
      SigEq b' w7.buf ∧ ct.value = first.value ∧ w7.stack = { blk with loc := .tok ct.sidx } :: rest ∧
      w7.events = w.events ++ [ev] ∧ ev.kind = .item (.classField ({ plainField x d1 acc dox with bits := some num.value.toNat! })) ∧
      ev.stateId = blk.id ∧ ev.parentId = rest.head?.map (·.id) ∧ (∀ dd, d = some dd → dox = some dd) ∧
      w7.delivered = w.delivered + 1 ∧ w7.anon = w.anon ∧ w7.muted = false ∧ w7.nextId = w.nextId :=
  toplevel_field_bits_pre env hp F D w toks first trest segs cst vol pre ops x colon num semi d1 b1 b0 bmid bx bc bn b' blk rest hstack hk acc hacc hmu hfa hspec htoks hfirst htok hy0 hhead hy hpre hfn hops htx hx hxv htc hc htn hn hdig hsemi hs hF

/-- **member function definitions `S ptr-ops f ( parameters ) qualifiers { body }` through `parse()`'s loop**: exactly ONE
    `on_class_method` with exactly the written qualifier flags and `has_body`; ANY bracket-balanced body is skipped exactly -/
theorem C03_method_definition (env : Env) (hp : RulesProgress env.cfg = true) (F D : Nat) (w : World)
    (toks : List Tok) (first : Tok) (trest : List Tok) (segs : List PQSeg) (cst vol : Bool) (ops : List Tok) (x op : Tok) (plist : List Param) (ob : Tok) (content : List Tok) (cb : Tok) (quals : List Tok) (m' : Function) (d1 : DType) (b1 b0 bmid bx bo bc bq bb b' : Buf)
    (blk : Block) (rest : List Block) (hstack : w.stack = blk :: rest) (hk : blk.hdr.kind = .cls)
    (hmu : w.muted = false) (hfa : ¬ env.faultAt = some w.delivered)
    (hspec : TypeSpecR env (F + 1) (D + 1 + 1) toks segs cst vol) (htoks : toks = first :: trest) (hfirst : specFirst first.type = true)
    (htok : tokenEofOk env.cfg w.buf = .ok (some first, b1))
    (hy0 : Yields env.cfg b1 trest b0)
    (hops : opsHeadOk ops = true) (hopsv : ∀ o ∈ ops, o.value ≠ "auto")
    (hy : Yields env.cfg b0 ops bmid)
    (ha : applyPtrOps (.type (.mk segs none false) cst vol) (ops.map (·.type)) = some d1)
    (htx : tokenEofOk env.cfg bmid = .ok (some x, bx)) (hx : x.type = "NAME") (hxv : identVal x.value = true)
    (hto : tokenEofOk env.cfg bx = .ok (some op, bo)) (hop : op.type = "(")
    (hparams : ∀ W : World, W.buf = bo → ∃ w7, interp env (parseParametersStep (F + 1) (core (F + 1) (D + 1 + 1 + 1)) true) W = (w7, .ok (plist, false, [])) ∧
      SameButLog W w7 ∧ w7.buf = bc)
    (hyq : Yields env.cfg bc quals bq)
    (htb : tokenEofOk env.cfg bq = .ok (some ob, bb)) (hob : ob.value = "{")
    (hbal : Balanced "{" "}" content) (hcb : cb.type = "}") (hyb : Yields env.cfg bb (content ++ [cb]) b')
    (hFq : quals.length + content.length + 2 ≤ F) (hF : ops.length + 2 ≤ F + 1) :
    ∀ (d : Option String) (bD : Buf), getDoxygen env.cfg env.mcRe w.buf = .ok (d, bD) →
    applyQuals { plainFunction x d1 d with parameters := plist, isMethod := true, access := blk.access }
      (quals.map (·.value)) = some m' →
    ∃ (w7 : World) (ct : CTok) (ev : Event),
      interp env (mainBody (F + 1) (core (F + 1) (D + 1 + 1 + 1 + 1)) none) w = (w7, .ok (.inl none)) ∧
      w7.buf = b' ∧ ct.value = first.value ∧ w7.stack = { blk with loc := .tok ct.sidx } :: rest ∧
      w7.events = w.events ++ [ev] ∧ ev.kind = .item (.classMethod { m' with hasBody := true }) ∧
      ev.stateId = blk.id ∧ ev.parentId = rest.head?.map (·.id) ∧
      w7.delivered = w.delivered + 1 ∧ w7.anon = w.anon ∧ w7.muted = false ∧ w7.nextId = w.nextId :=
  toplevel_method_body_gen env hp F D w toks first trest segs cst vol ops x op plist ob content cb quals m' d1 b1 b0 bmid bx bo bc bq bb b' blk rest hstack hk hmu hfa hspec htoks hfirst htok hy0 hops hopsv hy ha htx hx hxv hto hop hparams hyq htb hob hbal hcb hyb hFq hF

/-- such a member is a piece of whole class bodies: `Member.fieldGen` composes with every other member kind in
    `Item.cls`, so `parse_source` covers classes whose data members have cv-qualified / fundamental types -/
example (env : Env) (hp : RulesProgress env.cfg = true) (hnf : env.faultAt = none) (F D : Nat) (v : SpecDeclToks) :
    Member env F (core F (D + 1 + 1 + 1 + 1)) := Member.fieldGen env hp hnf F D v

example (env : Env) (hp : RulesProgress env.cfg = true) (hnf : env.faultAt = none) (F D : Nat) (v : DeclToks) :
    Member env F (core F (D + 1 + 1 + 1 + 1)) := Member.fieldPre env hp hnf F D v

/-! ### base clauses: `key N : [access] [virtual] Base [...] , … {` -/

/-- a base is `virtual` iff ITS OWN specifiers contain `virtual` -/
theorem C03_base_virtual_own (specs : List Tok) (v : Bool) :
    specVirtual v specs = (v || specs.any (fun s => s.type == "virtual")) := by
  induction specs generalizing v with
  | nil => simp [specVirtual]
  | cons s ss ih => simp [specVirtual, ih, Bool.or_assoc]

/-- the access level of a base is that of the LATEST access specifier among its own specifiers, and the class-key default when
    it has none — never that of a neighbouring base -/
theorem C03_base_access_own (specs : List Tok) (acc : String) :
    specAccess acc specs = (((specs.filter (fun s => s.type ≠ "virtual")).getLast?).map (·.type)).getD acc := by
  induction specs generalizing acc with
  | nil => simp [specAccess]
  | cons s ss ih =>
    rw [specAccess, ih]
    by_cases hv : s.type = "virtual"
    · simp [hv]
    · simp only [if_neg hv, ne_eq, hv, not_false_eq_true, decide_true, List.filter_cons_of_pos]
      cases hf : ss.filter (fun s => decide ¬ s.type = "virtual") with
      | nil => simp
      | cons a as =>
        simp only [List.getLast?_cons_cons]
        cases hg : (a :: as).getLast? with
        | none => exact absurd hg (by simp)
        | some z => simp

/-- **`key N : base-clause {` through `parse()`'s loop**: ONE class block whose header lists one `BaseClass` per written base,
    in the written order, each with the access level of its own latest access specifier (else the class-key default:
    `private` for `class`, `public` for `struct`/`union`), `virtual` iff written among its own specifiers, and the pack flag iff
    `...` follows its own name; the members are then read under the class-key default as for a class without bases. -/
theorem C03_class_head_bases (env : Env) (hc : env.cfg = genLexCfg) (F D : Nat) (w : World)
    (kw first : Tok) (pairs : List (Tok × Tok)) (colon : Tok) (bs : List (BaseItem × Tok)) (last : BaseItem) (ob : Tok) (bk b1 bmid bc bb b' : Buf)
    (blk : Block) (rest : List Block) (hstack : w.stack = blk :: rest)
    (hmu : w.muted = false) (hfa : ¬ env.faultAt = some w.delivered)
    (htkw : tokenEofOk env.cfg w.buf = .ok (some kw, bk)) (hkw : isClassKey kw.value = true) (hkwt : kw.type = kw.value)
    (htf : tokenEofOk env.cfg bk = .ok (some first, b1)) (hf : first.type = "NAME") (hfv : plainVal first.value = true)
    (hall : ∀ p ∈ pairs, p.1.type = "DBL_COLON" ∧ p.2.type = "NAME" ∧ plainVal p.2.value = true)
    (hy : Yields env.cfg b1 (pairs.flatMap (fun p => [p.1, p.2])) bmid)
    (htok : tokenEofOk env.cfg bmid = .ok (some colon, bc)) (hcolon : colon.type = ":")
    (hbs : ∀ q ∈ bs, q.1.OK ∧ q.2.type = "," ∧ q.1.specs.length + q.1.pairs.length + 2 ≤ F)
    (hlast : last.OK) (hlF : last.specs.length + last.pairs.length + 2 ≤ F)
    (hyb : Yields env.cfg bc (bs.flatMap (fun q => q.1.toks ++ [q.2]) ++ last.toks) bb)
    (htob : tokenEofOk env.cfg bb = .ok (some ob, b')) (hob : ob.type = "{") (hF : pairs.length + 2 ≤ F) (hFb : bs.length + 1 ≤ F) :
    ∃ (d : Option String) (bD : Buf) (w' : World) (ct : CTok),
      getDoxygen env.cfg env.mcRe w.buf = .ok (d, bD) ∧ w'.buf = b' ∧ ct.value = kw.value ∧
      w'.stack = w.stack ∧ w'.events = w.events ∧ w'.delivered = w.delivered ∧ w'.anon = w.anon ∧ w'.muted = w.muted ∧
      w'.nextId = w.nextId ∧
      interp env (mainBody F (core F (D + 1 + 1)) none) w =
        (pushedWorld env (classHdrB ct first pairs
          (bs.map (fun q => q.1.denotes (defaultAccess kw.value)) ++ [last.denotes (defaultAccess kw.value)]) blk d) w', .ok (.inl none)) :=
  toplevel_class_head_bases env (by rw [hc]; exact gen_rules_progress) F D w kw first pairs colon bs last ob bk b1 bmid bc bb b' blk rest hstack hmu hfa
    htkw hkw hkwt htf hf hfv hall hy htok hcolon hbs hlast hlF hyb htob hob hF hFb

/-- classes with base clauses are pieces of whole sources (`parse_source`) and of class bodies -/
example (env : Env) (hp : RulesProgress env.cfg = true) (hnf : env.faultAt = none) (F D : Nat) (hskip : ∀ i h, env.skip i h = false)
    (kw first : Tok) (pairs : List (Tok × Tok)) (bs : List (BaseItem × Tok)) (last : BaseItem)
    (ms : List (Member env F (core F (D + 1 + 1 + 1 + 1)))) : Item env F (core F (D + 1 + 1 + 1 + 1)) :=
  Item.clsB env hp hnf F D hskip kw first pairs bs last ms

example (env : Env) (hp : RulesProgress env.cfg = true) (hnf : env.faultAt = none) (F D : Nat) (hskip : ∀ i h, env.skip i h = false)
    (kw first : Tok) (pairs : List (Tok × Tok)) (bs : List (BaseItem × Tok)) (last : BaseItem)
    (ms : List (Member env F (core F (D + 1 + 1 + 1 + 1)))) : Member env F (core F (D + 1 + 1 + 1 + 1)) :=
  Member.clsB env hp hnf F D hskip kw first pairs bs last ms

/-! ### `final` classes: `key N final… [: base-clause] {` -/

/-- **`key N final… {` through `parse()`'s loop**: ONE class block, marked `final` iff at least one `final` is written after the
    name (`fs = []` is the plain head); key, name, default access as for any class head. -/
theorem C03_class_head_final (env : Env) (hc : env.cfg = genLexCfg) (F D : Nat) (w : World)
    (kw first : Tok) (pairs : List (Tok × Tok)) (fs : List Tok) (ob : Tok) (bk b1 bmid b' : Buf)
    (blk : Block) (rest : List Block) (hstack : w.stack = blk :: rest)
    (hmu : w.muted = false) (hfa : ¬ env.faultAt = some w.delivered)
    (htkw : tokenEofOk env.cfg w.buf = .ok (some kw, bk)) (hkw : isClassKey kw.value = true) (hkwt : kw.type = kw.value)
    (htf : tokenEofOk env.cfg bk = .ok (some first, b1)) (hf : first.type = "NAME") (hfv : plainVal first.value = true)
    (hall : ∀ p ∈ pairs, p.1.type = "DBL_COLON" ∧ p.2.type = "NAME" ∧ plainVal p.2.value = true)
    (hy : Yields env.cfg b1 (pairs.flatMap (fun p => [p.1, p.2])) bmid)
    (hfs : ∀ f ∈ fs, f.type = "final") (hyf : Yields env.cfg bmid (fs ++ [ob]) b') (hob : ob.type = "{") (hF : pairs.length + 2 ≤ F)
    (hFf : fs.length + 1 ≤ F) :
    ∃ (d : Option String) (bD : Buf) (w' : World) (ct : CTok),
      getDoxygen env.cfg env.mcRe w.buf = .ok (d, bD) ∧ w'.buf = b' ∧ ct.value = kw.value ∧
      w'.stack = w.stack ∧ w'.events = w.events ∧ w'.delivered = w.delivered ∧ w'.anon = w.anon ∧ w'.muted = w.muted ∧
      w'.nextId = w.nextId ∧
      interp env (mainBody F (core F (D + 1 + 1)) none) w =
        (pushedWorld env (classHdrF ct first pairs [] (!fs.isEmpty) blk d) w', .ok (.inl none)) :=
  toplevel_class_head_final env (by rw [hc]; exact gen_rules_progress) F D w kw first pairs fs ob bk b1 bmid b' blk rest hstack hmu hfa
    htkw hkw hkwt htf hf hfv hall hy hfs hyf hob hF hFf

/-- **`key N final… : base-clause {` through `parse()`'s loop**: the `final` flag and the base list are independent of each other -/
theorem C03_class_head_final_bases (env : Env) (hc : env.cfg = genLexCfg) (F D : Nat) (w : World)
    (kw first : Tok) (pairs : List (Tok × Tok)) (fs : List Tok) (colon : Tok) (bs : List (BaseItem × Tok)) (last : BaseItem) (ob : Tok) (bk b1 bmid bc bb b' : Buf)
    (blk : Block) (rest : List Block) (hstack : w.stack = blk :: rest)
    (hmu : w.muted = false) (hfa : ¬ env.faultAt = some w.delivered)
    (htkw : tokenEofOk env.cfg w.buf = .ok (some kw, bk)) (hkw : isClassKey kw.value = true) (hkwt : kw.type = kw.value)
    (htf : tokenEofOk env.cfg bk = .ok (some first, b1)) (hf : first.type = "NAME") (hfv : plainVal first.value = true)
    (hall : ∀ p ∈ pairs, p.1.type = "DBL_COLON" ∧ p.2.type = "NAME" ∧ plainVal p.2.value = true)
    (hy : Yields env.cfg b1 (pairs.flatMap (fun p => [p.1, p.2])) bmid)
    (hfs : ∀ f ∈ fs, f.type = "final") (hyf : Yields env.cfg bmid (fs ++ [colon]) bc) (hcolon : colon.type = ":") (hFf : fs.length + 1 ≤ F)
    (hbs : ∀ q ∈ bs, q.1.OK ∧ q.2.type = "," ∧ q.1.specs.length + q.1.pairs.length + 2 ≤ F)
    (hlast : last.OK) (hlF : last.specs.length + last.pairs.length + 2 ≤ F)
    (hyb : Yields env.cfg bc (bs.flatMap (fun q => q.1.toks ++ [q.2]) ++ last.toks) bb)
    (htob : tokenEofOk env.cfg bb = .ok (some ob, b')) (hob : ob.type = "{") (hF : pairs.length + 2 ≤ F) (hFb : bs.length + 1 ≤ F) :
    ∃ (d : Option String) (bD : Buf) (w' : World) (ct : CTok),
      getDoxygen env.cfg env.mcRe w.buf = .ok (d, bD) ∧ w'.buf = b' ∧ ct.value = kw.value ∧
      w'.stack = w.stack ∧ w'.events = w.events ∧ w'.delivered = w.delivered ∧ w'.anon = w.anon ∧ w'.muted = w.muted ∧
      w'.nextId = w.nextId ∧
      interp env (mainBody F (core F (D + 1 + 1)) none) w =
        (pushedWorld env (classHdrF ct first pairs
          (bs.map (fun q => q.1.denotes (defaultAccess kw.value)) ++ [last.denotes (defaultAccess kw.value)]) (!fs.isEmpty) blk d) w', .ok (.inl none)) :=
  toplevel_class_head_final_bases env (by rw [hc]; exact gen_rules_progress) F D w kw first pairs fs colon bs last ob bk b1 bmid bc bb b' blk rest hstack hmu hfa
    htkw hkw hkwt htf hf hfv hall hy hfs hyf hcolon hFf hbs hlast hlF hyb htob hob hF hFb

example (env : Env) (hp : RulesProgress env.cfg = true) (hnf : env.faultAt = none) (F D : Nat) (hskip : ∀ i h, env.skip i h = false)
    (kw first : Tok) (pairs : List (Tok × Tok)) (fs : List Tok) (bs : List (BaseItem × Tok)) (last : BaseItem)
    (ms : List (Member env F (core F (D + 1 + 1 + 1 + 1)))) : List (Item env F (core F (D + 1 + 1 + 1 + 1))) :=
  [Item.clsF env hp hnf F D hskip kw first pairs fs ms, Item.clsFB env hp hnf F D hskip kw first pairs fs bs last ms]

example (env : Env) (hp : RulesProgress env.cfg = true) (hnf : env.faultAt = none) (F D : Nat) (hskip : ∀ i h, env.skip i h = false)
    (kw first : Tok) (pairs : List (Tok × Tok)) (fs : List Tok) (bs : List (BaseItem × Tok)) (last : BaseItem)
    (ms : List (Member env F (core F (D + 1 + 1 + 1 + 1)))) : List (Member env F (core F (D + 1 + 1 + 1 + 1))) :=
  [Member.clsF env hp hnf F D hskip kw first pairs fs ms, Member.clsFB env hp hnf F D hskip kw first pairs fs bs last ms]

/-! ### constructors: `N ( parameters ) qualifiers ;` in the body of a class named `N` -/

/-- **a constructor declaration through `parse()`'s loop**, for ANY parameter list `_parse_parameters` decodes to `plist`
    (`hparams`; instances: `C03_default_constructor`, `C03_constructor_parameters`): exactly ONE `on_class_method` for the
    innermost open class with `constructor = True`, NO return type, the class's name, exactly those parameters, the access level
    in force in THAT class and exactly the written qualifier flags; consumed exactly. -/
theorem C03_constructor (env : Env) (hc : env.cfg = genLexCfg) (F D : Nat) (w : World)
    (first op f semi : Tok) (plist : List Param) (quals : List Tok) (m' : Function) (bn bo b1 bc bq b' : Buf)
    (blk : Block) (rest : List Block) (hstack : w.stack = blk :: rest) (hk : blk.hdr.kind = .cls)
    (hcn : blk.hdr.cls.typename.segments.getLast?.bind PQSeg.nameAttr = some first.value)
    (hmu : w.muted = false) (hfa : ¬ env.faultAt = some w.delivered)
    (htok : tokenEofOk env.cfg w.buf = .ok (some first, bn))
    (hty : first.type = "NAME") (htv : identVal first.value = true) (hne : first.value.isEmpty = false)
    (hto : tokenEofOk env.cfg bn = .ok (some op, bo)) (hop : op.type = "(") (hopv : op.value ≠ "auto")
    (htf : tokenEofOk env.cfg bo = .ok (some f, b1)) (hfs : f.type ≠ "*") (hfamp : f.type ≠ "&")
    (hms : Gen.msvcConventions.contains f.value = false)
    (hparams : ∀ (W : World) (f' : Tok), tokenEofOk env.cfg W.buf = .ok (some f', b1) → f'.type = f.type → f'.value = f.value →
      ∃ w7, interp env (parseParametersStep F (core F (D + 1 + 1 + 1)) true) W = (w7, .ok (plist, false, [])) ∧ SameButLog W w7 ∧ w7.buf = bc)
    (hyq : Yields env.cfg bc quals bq)
    (hsemi : tokenEofOk env.cfg bq = .ok (some semi, b')) (hs : semi.type = ";") (hsv : semi.value = ";") (hFq : quals.length + 1 ≤ F)
    (hF : 2 ≤ F) :
    ∀ (d : Option String) (bD : Buf), getDoxygen env.cfg env.mcRe w.buf = .ok (d, bD) →
    applyQuals { ctorFunction first.value d with parameters := plist, isMethod := true, constructor := true, access := blk.access }
      (quals.map (·.value)) = some m' →
    ∃ (w7 : World) (ct : CTok) (ev : Event),
      interp env (mainBody F (core F (D + 1 + 1 + 1 + 1)) none) w = (w7, .ok (.inl none)) ∧
      w7.buf = b' ∧ ct.value = first.value ∧ w7.stack = { blk with loc := .tok ct.sidx } :: rest ∧
      w7.events = w.events ++ [ev] ∧ ev.kind = .item (.classMethod m') ∧
      ev.stateId = blk.id ∧ ev.parentId = rest.head?.map (·.id) ∧
      w7.delivered = w.delivered + 1 ∧ w7.anon = w.anon ∧ w7.muted = false ∧ w7.nextId = w.nextId :=
  toplevel_ctor env (by rw [hc]; exact gen_rules_progress) F D w first op f semi plist quals m' bn bo b1 bc bq b' blk rest hstack hk hcn hmu hfa
    htok hty htv hne hto hop hopv htf hfs hfamp hms hparams hyq hsemi hs hsv hFq hF

/-- **`N ( ) qualifiers ;`**: the default constructor — no parameters -/
theorem C03_default_constructor (env : Env) (hc : env.cfg = genLexCfg) (F D : Nat) (w : World)
    (first op cp semi : Tok) (quals : List Tok) (m' : Function) (bn bo bc bq b' : Buf)
    (blk : Block) (rest : List Block) (hstack : w.stack = blk :: rest) (hk : blk.hdr.kind = .cls)
    (hcn : blk.hdr.cls.typename.segments.getLast?.bind PQSeg.nameAttr = some first.value)
    (hmu : w.muted = false) (hfa : ¬ env.faultAt = some w.delivered)
    (htok : tokenEofOk env.cfg w.buf = .ok (some first, bn))
    (hty : first.type = "NAME") (htv : identVal first.value = true) (hne : first.value.isEmpty = false)
    (hto : tokenEofOk env.cfg bn = .ok (some op, bo)) (hop : op.type = "(") (hopv : op.value ≠ "auto")
    (htc : tokenEofOk env.cfg bo = .ok (some cp, bc)) (hcp : cp.type = ")") (hcpv : cp.value = ")")
    (hyq : Yields env.cfg bc quals bq)
    (hsemi : tokenEofOk env.cfg bq = .ok (some semi, b')) (hs : semi.type = ";") (hsv : semi.value = ";") (hFq : quals.length + 1 ≤ F)
    (hF : 2 ≤ F) :
    ∀ (d : Option String) (bD : Buf), getDoxygen env.cfg env.mcRe w.buf = .ok (d, bD) →
    applyQuals { ctorFunction first.value d with parameters := [], isMethod := true, constructor := true, access := blk.access }
      (quals.map (·.value)) = some m' →
    ∃ (w7 : World) (ct : CTok) (ev : Event),
      interp env (mainBody F (core F (D + 1 + 1 + 1 + 1)) none) w = (w7, .ok (.inl none)) ∧
      w7.buf = b' ∧ ct.value = first.value ∧ w7.stack = { blk with loc := .tok ct.sidx } :: rest ∧
      w7.events = w.events ++ [ev] ∧ ev.kind = .item (.classMethod m') ∧
      ev.stateId = blk.id ∧ ev.parentId = rest.head?.map (·.id) ∧
      w7.delivered = w.delivered + 1 ∧ w7.anon = w.anon ∧ w7.muted = false ∧ w7.nextId = w.nextId :=
  C03_constructor env hc F D w first op cp semi [] quals m' bn bo bc bc bq b' blk rest hstack hk hcn hmu hfa htok hty htv hne hto hop hopv
    htc (by rw [hcp]; decide) (by rw [hcp]; decide) (by rw [hcpv]; decide)
    (fun W f' hW hft _ => parseParameters_empty_flex env F _ W f' bc hW (hft.trans hcp)) hyq hsemi hs hsv hFq hF

/-- **`N ( S1 prefix1 n1 , … , Sk prefixk nk ) qualifiers ;`**: a constructor over a general parameter list (`PItemG`) -/
theorem C03_constructor_parameters (env : Env) (hc : env.cfg = genLexCfg) (F D : Nat) (w : World)
    (first op semi : Tok) (ps : List (PItemG × Tok)) (last : PItemG) (cp f : Tok) (prest : List Tok) (quals : List Tok) (m' : Function)
    (bn bo b1 bc bq b' : Buf)
    (blk : Block) (rest : List Block) (hstack : w.stack = blk :: rest) (hk : blk.hdr.kind = .cls)
    (hcn : blk.hdr.cls.typename.segments.getLast?.bind PQSeg.nameAttr = some first.value)
    (hmu : w.muted = false) (hfa : ¬ env.faultAt = some w.delivered)
    (htok : tokenEofOk env.cfg w.buf = .ok (some first, bn))
    (hty : first.type = "NAME") (htv : identVal first.value = true) (hne : first.value.isEmpty = false)
    (hto : tokenEofOk env.cfg bn = .ok (some op, bo)) (hop : op.type = "(") (hopv : op.value ≠ "auto")
    (hallp : ∀ q ∈ ps, q.1.OK env F D ∧ q.2.type = "," ∧ q.2.value ≠ ")")
    (hlastp : last.OK env F D) (hcp : cp.type = ")") (hcpv : cp.value = ")")
    (htoks : plistToks ps last cp = f :: prest)
    (htf : tokenEofOk env.cfg bo = .ok (some f, b1)) (hfs : f.type ≠ "*") (hfamp : f.type ≠ "&")
    (hms : Gen.msvcConventions.contains f.value = false)
    (hyp : Yields env.cfg b1 prest bc) (hFp : ps.length + 1 ≤ F)
    (hyq : Yields env.cfg bc quals bq)
    (hsemi : tokenEofOk env.cfg bq = .ok (some semi, b')) (hs : semi.type = ";") (hsv : semi.value = ";") (hFq : quals.length + 1 ≤ F)
    (hF : 2 ≤ F) :
    ∀ (d : Option String) (bD : Buf), getDoxygen env.cfg env.mcRe w.buf = .ok (d, bD) →
    applyQuals { ctorFunction first.value d with parameters := ps.map (fun q => q.1.param) ++ [last.param], isMethod := true, constructor := true, access := blk.access }
      (quals.map (·.value)) = some m' →
    ∃ (w7 : World) (ct : CTok) (ev : Event),
      interp env (mainBody F (core F (D + 1 + 1 + 1 + 1)) none) w = (w7, .ok (.inl none)) ∧
      w7.buf = b' ∧ ct.value = first.value ∧ w7.stack = { blk with loc := .tok ct.sidx } :: rest ∧
      w7.events = w.events ++ [ev] ∧ ev.kind = .item (.classMethod m') ∧
      ev.stateId = blk.id ∧ ev.parentId = rest.head?.map (·.id) ∧
      w7.delivered = w.delivered + 1 ∧ w7.anon = w.anon ∧ w7.muted = false ∧ w7.nextId = w.nextId :=
  C03_constructor env hc F D w first op f semi _ quals m' bn bo b1 bc bq b' blk rest hstack hk hcn hmu hfa htok hty htv hne hto hop hopv
    htf hfs hfamp hms
    (fun W f' hW hft hfv => parseParameters_gen_flex env F D ps last cp W b1 bc f f' prest hallp hlastp hcp hcpv htoks hW hft hfv hyp hFp)
    hyq hsemi hs hsv hFq hF

/-- **a destructor declaration `~N ( … ) qualifiers ;` through `parse()`'s loop** (`~N` is ONE token for the lexer), for ANY parameter list `_parse_parameters` decodes to `plist`
    (`hparams`; instance: `C03_plain_destructor`): exactly ONE `on_class_method` for the
    innermost open class with `destructor = True`, NO return type, the name `~N`, exactly those parameters, the access level
    in force in THAT class and exactly the written qualifier flags; consumed exactly. -/
theorem C03_destructor (env : Env) (hc : env.cfg = genLexCfg) (F D : Nat) (w : World)
    (first : Tok) (nm : String) (op f semi : Tok) (plist : List Param) (quals : List Tok) (m' : Function) (bn bo b1 bc bq b' : Buf)
    (blk : Block) (rest : List Block) (hstack : w.stack = blk :: rest) (hk : blk.hdr.kind = .cls)
    (hcn : blk.hdr.cls.typename.segments.getLast?.bind PQSeg.nameAttr = some nm) (hval : first.value = "~" ++ nm)
    (hmu : w.muted = false) (hfa : ¬ env.faultAt = some w.delivered)
    (htok : tokenEofOk env.cfg w.buf = .ok (some first, bn))
    (hty : first.type = "NAME") (htv : identVal first.value = true) (hne : nm.isEmpty = false)
    (hto : tokenEofOk env.cfg bn = .ok (some op, bo)) (hop : op.type = "(") (hopv : op.value ≠ "auto")
    (htf : tokenEofOk env.cfg bo = .ok (some f, b1)) (hfs : f.type ≠ "*") (hfamp : f.type ≠ "&")
    (hms : Gen.msvcConventions.contains f.value = false)
    (hparams : ∀ (W : World) (f' : Tok), tokenEofOk env.cfg W.buf = .ok (some f', b1) → f'.type = f.type → f'.value = f.value →
      ∃ w7, interp env (parseParametersStep F (core F (D + 1 + 1 + 1)) true) W = (w7, .ok (plist, false, [])) ∧ SameButLog W w7 ∧ w7.buf = bc)
    (hyq : Yields env.cfg bc quals bq)
    (hsemi : tokenEofOk env.cfg bq = .ok (some semi, b')) (hs : semi.type = ";") (hsv : semi.value = ";") (hFq : quals.length + 1 ≤ F)
    (hF : 2 ≤ F) :
    ∀ (d : Option String) (bD : Buf), getDoxygen env.cfg env.mcRe w.buf = .ok (d, bD) →
    applyQuals { ctorFunction first.value d with parameters := plist, isMethod := true, destructor := true, access := blk.access }
      (quals.map (·.value)) = some m' →
    ∃ (w7 : World) (ct : CTok) (ev : Event),
      interp env (mainBody F (core F (D + 1 + 1 + 1 + 1)) none) w = (w7, .ok (.inl none)) ∧
      w7.buf = b' ∧ ct.value = first.value ∧ w7.stack = { blk with loc := .tok ct.sidx } :: rest ∧
      w7.events = w.events ++ [ev] ∧ ev.kind = .item (.classMethod m') ∧
      ev.stateId = blk.id ∧ ev.parentId = rest.head?.map (·.id) ∧
      w7.delivered = w.delivered + 1 ∧ w7.anon = w.anon ∧ w7.muted = false ∧ w7.nextId = w.nextId :=
  toplevel_dtor env (by rw [hc]; exact gen_rules_progress) F D w first nm op f semi plist quals m' bn bo b1 bc bq b' blk rest hstack hk hcn hval hmu hfa
    htok hty htv hne hto hop hopv htf hfs hfamp hms hparams hyq hsemi hs hsv hFq hF

/-- **`~N ( ) qualifiers ;`**: the destructor as it is written in practice -/
theorem C03_plain_destructor (env : Env) (hc : env.cfg = genLexCfg) (F D : Nat) (w : World)
    (first : Tok) (nm : String) (op cp semi : Tok) (quals : List Tok) (m' : Function) (bn bo bc bq b' : Buf)
    (blk : Block) (rest : List Block) (hstack : w.stack = blk :: rest) (hk : blk.hdr.kind = .cls)
    (hcn : blk.hdr.cls.typename.segments.getLast?.bind PQSeg.nameAttr = some nm) (hval : first.value = "~" ++ nm)
    (hmu : w.muted = false) (hfa : ¬ env.faultAt = some w.delivered)
    (htok : tokenEofOk env.cfg w.buf = .ok (some first, bn))
    (hty : first.type = "NAME") (htv : identVal first.value = true) (hne : nm.isEmpty = false)
    (hto : tokenEofOk env.cfg bn = .ok (some op, bo)) (hop : op.type = "(") (hopv : op.value ≠ "auto")
    (htc : tokenEofOk env.cfg bo = .ok (some cp, bc)) (hcp : cp.type = ")") (hcpv : cp.value = ")")
    (hyq : Yields env.cfg bc quals bq)
    (hsemi : tokenEofOk env.cfg bq = .ok (some semi, b')) (hs : semi.type = ";") (hsv : semi.value = ";") (hFq : quals.length + 1 ≤ F)
    (hF : 2 ≤ F) :
    ∀ (d : Option String) (bD : Buf), getDoxygen env.cfg env.mcRe w.buf = .ok (d, bD) →
    applyQuals { ctorFunction first.value d with parameters := [], isMethod := true, destructor := true, access := blk.access }
      (quals.map (·.value)) = some m' →
    ∃ (w7 : World) (ct : CTok) (ev : Event),
      interp env (mainBody F (core F (D + 1 + 1 + 1 + 1)) none) w = (w7, .ok (.inl none)) ∧
      w7.buf = b' ∧ ct.value = first.value ∧ w7.stack = { blk with loc := .tok ct.sidx } :: rest ∧
      w7.events = w.events ++ [ev] ∧ ev.kind = .item (.classMethod m') ∧
      ev.stateId = blk.id ∧ ev.parentId = rest.head?.map (·.id) ∧
      w7.delivered = w.delivered + 1 ∧ w7.anon = w.anon ∧ w7.muted = false ∧ w7.nextId = w.nextId :=
  C03_destructor env hc F D w first nm op cp semi [] quals m' bn bo bc bc bq b' blk rest hstack hk hcn hval hmu hfa htok hty htv hne hto hop hopv
    htc (by rw [hcp]; decide) (by rw [hcp]; decide) (by rw [hcpv]; decide)
    (fun W f' hW hft _ => parseParameters_empty_flex env F _ W f' bc hW (hft.trans hcp)) hyq hsemi hs hsv hFq hF

/-- **classes that declare constructors and destructors are pieces of whole sources**: `key … N { members } ;` is an `Item`
    when its members are `MemberN (nameIs N)` — every ordinary `Member` (`Member.toN`), `N ( ) quals ;` (`MemberN.ctor0`), `N ( parameters ) quals ;` (`MemberN.ctorP`) and
    `~N ( ) quals ;` (`MemberN.dtor0`) — so `parse_source` / `C01_whole_source` report, for such a class, the block start, one
    callback per member in order (constructors and destructors flagged as such, under the access level in force) and the block
    end -/
example (env : Env) (hp : RulesProgress env.cfg = true) (hnf : env.faultAt = none) (F D : Nat) (hskip : ∀ i h, env.skip i h = false)
    (nm : String) (kw first : Tok) (pairs : List (Tok × Tok)) (c0 op cp semi d0 : Tok) (quals : List Tok) (ps : List (PItemG × Tok)) (last : PItemG)
    (ms : List (Member env F (core F (D + 1 + 1 + 1 + 1)))) : Item env F (core F (D + 1 + 1 + 1 + 1)) :=
  Item.clsN env hp hnf F D hskip nm kw first pairs
    (ms.map (fun m => m.toN (nameIs nm)) ++ [MemberN.ctor0 env hp hnf F D nm c0 op cp quals semi,
      MemberN.ctorP env hp hnf F D nm c0 op ps last cp quals semi, MemberN.dtor0 env hp hnf F D nm d0 op cp quals semi])

/-- such classes nest: a class with constructors inside a class body is a `Member` of the outer body -/
example (env : Env) (hp : RulesProgress env.cfg = true) (hnf : env.faultAt = none) (F D : Nat) (hskip : ∀ i h, env.skip i h = false)
    (nm : String) (kw first : Tok) (pairs : List (Tok × Tok)) (ms : List (MemberN env F (core F (D + 1 + 1 + 1 + 1)) (nameIs nm))) :
    Member env F (core F (D + 1 + 1 + 1 + 1)) := Member.clsN env hp hnf F D hskip nm kw first pairs ms

/-- non-vacuity of the qualifier hypothesis: a constructor record accepts the empty qualifier list and stays a constructor
    without a return type -/
example (n : String) (d : Option String) (ps : List Param) (acc : Option String) :
    ∃ m', applyQuals { ctorFunction n d with parameters := ps, isMethod := true, constructor := true, access := acc } [] = some m' ∧
      m'.constructor = true ∧ m'.returnType = none ∧ m'.parameters = ps := ⟨_, rfl, rfl, rfl, rfl⟩

/-- non-vacuity: `protected virtual ns::B...` is a well-formed base; it denotes a virtual, protected pack base whatever the
    default is, and `B` alone takes the default -/
def exBase : BaseItem :=
  { specs := [{ type := "protected", value := "protected", loc := default }, { type := "virtual", value := "virtual", loc := default }],
    first := { type := "NAME", value := "ns", loc := default },
    pairs := [({ type := "DBL_COLON", value := "::", loc := default }, { type := "NAME", value := "B", loc := default })],
    pack := some { type := "ELLIPSIS", value := "...", loc := default } }

example : exBase.OK ∧ (exBase.denotes "private").access = "protected" ∧ (exBase.denotes "private").virtual = true ∧
    (exBase.denotes "private").paramPack = true ∧
    (({ exBase with specs := [], pack := none } : BaseItem).denotes "public").access = "public" := by
  refine ⟨⟨by decide, rfl, by decide, by decide, by decide, ?_⟩, rfl, rfl, rfl, rfl⟩
  intro t ht
  simp only [exBase, Option.some.injEq] at ht
  rw [← ht]


end

end Cxx
