/-
  Props/C10.lean — C10: reported line numbers and file names are the real ones.

  * `C10_action_lineno`: a rule action moves the line counter by exactly the newlines of the
    token it returns (comments, NEWLINE), by nothing otherwise;
  * `C10_location_is_lexer_line`: the location stamped on a token is the lexer's
    (file, line − offset) after that token;
  * `C10_line_directive_rebases`: after `#line N "f"` seen when the counter is `p`, a token at
    counter `q` is reported at `(f, N + (q − p − 1))`;
  * `C10_error_location`: a lexical error carries the lexer's location at the offending text;
  * `C10_countNl_append`: newlines are counted additively through any text.
  * `C10_locations_opaque`: line numbers and file names are opaque to every client program
    of the stream interface: from lexer states over the same remaining text that differ in
    line counter, line offset or file name (another `filename` argument, another starting
    line, another `#line` history) the parser model delivers the same callbacks with the same
    payloads and ends in the same state — only the reported locations differ
    (`rloc_bisim` + `layout_sim`);
  * `C10_filename_only_in_locations`: the instance for `CxxParser(f1, content)` vs
    `CxxParser(f2, content)`.
  Which token a declaration's location is taken from is per declaration form: correspondence
  `parse[locations]` and the oracles (named; not proof).
-/
import CxxModel.TokStream
import CxxModel.Tables
import CxxModel.Theorems.Layout
import CxxModel.Parser.Decl
namespace Cxx

theorem C10_countNl_append (a b : Str) : countNl (a ++ b) = countNl a + countNl b := by
  induction a with
  | nil => simp [countNl]
  | cons c t ih => simp only [List.cons_append, countNl, ih]; omega

def actionLines (a : Action) (v : Str) : Nat :=
  match a with
  | .countNl => countNl v
  | .lenNl => v.length
  | _ => 0

theorem C10_action_lineno (kw : List String) (r : Rule) (v : Str) (st0 : LexState) (rest : Str)
    (t : RawTok) (st' : LexState) (h : runAction kw r v st0 rest = .tok t st') :
    st'.lineno = st0.lineno + actionLines r.action v ∧ st'.lineOffset = st0.lineOffset ∧ st'.filename = st0.filename := by
  unfold runAction at h
  cases ha : r.action <;> simp only [ha] at h
  case ret => injection h with h1 h2; subst h1 h2; simp [actionLines]
  case skip => cases h
  case countNl => injection h with h1 h2; subst h1 h2; simp [actionLines]
  case lenNl => injection h with h1 h2; subst h1 h2; simp [actionLines]
  case keyword => split at h <;> (injection h with h1 h2; subst h1 h2; simp [actionLines])
  case ppDirective =>
    split at h
    · cases h
    · split at h
      · cases h
      · split at h <;> simp [mkErr] at h
  case error => simp [mkErr] at h
  case errorFmt => simp [mkErr] at h
  case «opaque» => cases h

theorem C10_location_is_lexer_line (raw : RawTok) (st : LexState) :
    (Tok.ofRaw raw st.location).loc = { filename := st.filename, lineno := (st.lineno : Int) - st.lineOffset } := rfl

theorem C10_line_directive_rebases (st : LexState) (N q : Nat) (f : String) :
    ({ st with lineno := q, lineOffset := 1 + (st.lineno : Int) - (N : Int), filename := some f } : LexState).location =
      { filename := some f, lineno := (N : Int) + ((q : Int) - (st.lineno : Int) - 1) } := by
  simp only [LexState.location, Location.mk.injEq, true_and]
  omega

theorem C10_error_location (msg : String) (v : Str) (st : LexState) :
    mkErr msg v st = .err { msg := msg, tokValue := v, loc := { filename := st.filename, lineno := (st.lineno : Int) - st.lineOffset } } := rfl


theorem C10_locations_opaque (env : Env) (F D : Nat) (w1 w2 : World) (h : LSim RLoc w1 w2) :
    LOut RLoc (interp env (P.parserProg F D) w1) (interp env (P.parserProg F D) w2) :=
  layout_sim env RLoc (rloc_bisim env) _ w1 w2 h

/-- the two initial worlds of `CxxParser(f1, content, …)` and `CxxParser(f2, content, …)` -/
theorem initWorld_lsim (env : Env) (f1 f2 : String) (content : Str) :
    LSim RLoc (initWorld env f1 content).1 (initWorld env f2 content).1 ∧
    (initWorld env f1 content).2 = (initWorld env f2 content).2 := by
  simp only [initWorld]
  by_cases hf : env.faultAt = some 0
  · simp only [deliver, hf, ↓reduceIte, Bool.false_eq_true]
    exact ⟨⟨⟨rfl, .nil, rfl⟩, rfl, rfl, rfl, rfl, rfl, rfl, rfl, rfl, rfl, rfl⟩, trivial⟩
  · simp only [deliver, hf, ↓reduceIte, Bool.false_eq_true]
    exact ⟨⟨⟨rfl, .nil, rfl⟩, rfl, rfl, rfl, rfl, rfl, rfl, rfl, rfl, rfl, rfl⟩, trivial⟩

theorem C10_filename_only_in_locations (env : Env) (F D : Nat) (f1 f2 : String) (content : Str) :
    ((interp env (P.parserProg F D) (initWorld env f1 content).1).1.events.map Event.noLoc =
     (interp env (P.parserProg F D) (initWorld env f2 content).1).1.events.map Event.noLoc) ∧
    ResRel (interp env (P.parserProg F D) (initWorld env f1 content).1).2
           (interp env (P.parserProg F D) (initWorld env f2 content).1).2 := by
  have h := C10_locations_opaque env F D _ _ (initWorld_lsim env f1 f2 content).1
  exact ⟨h.1.events, h.2⟩

end Cxx
