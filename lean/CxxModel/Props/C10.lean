/-
  Props/C10.lean — C10: reported line numbers and file names are the real ones.

  * `C10_action_lineno`: a rule action moves the line counter by exactly the newlines of the
    token it returns (comments, NEWLINE), by nothing otherwise;
  * `C10_location_is_lexer_line`: the location stamped on a token is the lexer's
    (file, line − offset) after that token;
  * `C10_line_directive_rebases`: after `#line N "f"` seen when the counter is `p`, a token at
    counter `q` is reported at `(f, N + (q − p − 1))`;
  * `C10_error_location`: a lexical error carries the lexer's location at the offending text;
  * `C10_countNl_append`: newlines are counted additively through any text.
  Which token a declaration's location is taken from is per declaration form: correspondence
  `parse[locations]` and the oracles (named; not proof).
-/
import CxxModel.TokStream
import CxxModel.Tables
namespace Cxx

theorem C10_countNl_append (a b : Str) : countNl (a ++ b) = countNl a + countNl b := by
  induction a with
  | nil => simp [countNl]
  | cons c t ih => simp only [List.cons_append, countNl, ih]; omega

def actionLines (a : Action) (v : Str) : Nat :=
  match a with
  | .countNl => countNl v
  | .lenNl => v.length
  | _ => 0

theorem C10_action_lineno (kw : List String) (r : Rule) (v : Str) (st0 : LexState) (rest : Str)
    (t : RawTok) (st' : LexState) (h : runAction kw r v st0 rest = .tok t st') :
    st'.lineno = st0.lineno + actionLines r.action v ∧ st'.lineOffset = st0.lineOffset ∧ st'.filename = st0.filename := by
  unfold runAction at h
  cases ha : r.action <;> simp only [ha] at h
  case ret => injection h with h1 h2; subst h1 h2; simp [actionLines]
  case skip => cases h
  case countNl => injection h with h1 h2; subst h1 h2; simp [actionLines]
  case lenNl => injection h with h1 h2; subst h1 h2; simp [actionLines]
  case keyword => split at h <;> (injection h with h1 h2; subst h1 h2; simp [actionLines])
  case ppDirective =>
    split at h
    · cases h
    · split at h
      · cases h
      · split at h <;> simp [mkErr] at h
  case error => simp [mkErr] at h
  case errorFmt => simp [mkErr] at h
  case «opaque» => cases h

theorem C10_location_is_lexer_line (raw : RawTok) (st : LexState) :
    (Tok.ofRaw raw st.location).loc = { filename := st.filename, lineno := (st.lineno : Int) - st.lineOffset } := rfl

theorem C10_line_directive_rebases (st : LexState) (N q : Nat) (f : String) :
    ({ st with lineno := q, lineOffset := 1 + (st.lineno : Int) - (N : Int), filename := some f } : LexState).location =
      { filename := some f, lineno := (N : Int) + ((q : Int) - (st.lineno : Int) - 1) } := by
  simp only [LexState.location, Location.mk.injEq, true_and]
  omega

theorem C10_error_location (msg : String) (v : Str) (st : LexState) :
    mkErr msg v st = .err { msg := msg, tokValue := v, loc := { filename := st.filename, lineno := (st.lineno : Int) - st.lineOffset } } := rfl

end Cxx
