/-
  Props/C19.lean — C19: preprocessor integration yields the main file's declarations only.

  On the model of the filters (`PPFilter.lean`), for preprocessor output that is a sequence
  of marker-delimited segments (the recorded assumption about g++ / pcpp):
  * `C19_gcc_filter_spec`, `C19_pcpp_filter_spec`: the filter output is exactly the segments
    whose marker names the main file, whole and in order — for every number and content of
    segments;
  * `C19_gcc_marker_exact`, `C19_pcpp_marker_exact`: "names the main file" is equality of
    the quoted file name (not a suffix/prefix test), whatever the files are called.
  What the external tools emit, include resolution, macro expansion, the depfile writer and
  the MSVC back end are exercised by the correspondence / oracle only (named in evidence).
-/
import CxxModel.PPFilter
import CxxModel.LexTypes
namespace Cxx

theorem C19_gcc_filter_spec (fname : Str) (segs : List Segment)
    (hm : ∀ s ∈ segs, (gccMarkerKeep fname s.marker).isSome)
    (hb : ∀ s ∈ segs, ∀ l ∈ s.body, gccMarkerKeep fname l = none) :
    gccFilter fname true (segs.flatMap Segment.lines) =
      (segs.filter (fun s => gccMarkerKeep fname s.marker = some true)).flatMap Segment.lines := by
  rw [gccFilter_eq_seg]; exact segFilter_spec _ segs hm hb true

theorem C19_pcpp_filter_spec (fname : Str) (segs : List Segment)
    (hm : ∀ s ∈ segs, (pcppMarkerKeep fname s.marker).isSome)
    (hb : ∀ s ∈ segs, ∀ l ∈ s.body, pcppMarkerKeep fname l = none) :
    pcppFilter fname true (segs.flatMap Segment.lines) =
      (segs.filter (fun s => pcppMarkerKeep fname s.marker = some true)).flatMap Segment.lines := by
  rw [pcppFilter_eq_seg]; exact segFilter_spec _ segs hm hb true

theorem C19_gcc_marker_exact (fname file pre flags : Str)
    (hp : isPrefix [35, 32] pre = true)
    (hq : ∀ c ∈ file, c ≠ 34) (hn : ∀ c ∈ pre, c ≠ 34) (hf : ∀ c ∈ flags, c ≠ 34) :
    gccMarkerKeep fname (pre ++ [34] ++ file ++ [34] ++ flags) = some (file == fname) :=
  gccMarkerKeep_exact fname file pre flags hp hq hn hf

theorem C19_pcpp_marker_exact (fname file pre : Str)
    (hp : isPrefix [35, 108, 105, 110, 101] pre = true) (hn : ∀ c ∈ pre, c ≠ 34) :
    pcppMarkerKeep fname (pre ++ [34] ++ file ++ [34, 10]) = some (file == fname) :=
  pcppMarkerKeep_exact fname file pre hp hn

/-! non-vacuity: main `a.h`; markers for `xa.h` and `sub/a.h` are *not* the main file -/
example : gccMarkerKeep (strToStr "a.h") (strToStr "# 1 \"xa.h\" 1\n") = some false := by decide
example : gccMarkerKeep (strToStr "a.h") (strToStr "# 1 \"sub/a.h\" 1\n") = some false := by decide
example : gccMarkerKeep (strToStr "a.h") (strToStr "# 3 \"a.h\" 2\n") = some true := by decide
example : pcppMarkerKeep (strToStr "a.h") (strToStr "#line 1 \"sub/a.h\"\n") = some false := by decide
example : pcppMarkerKeep (strToStr "a.h") (strToStr "#line 3 \"a.h\"\n") = some true := by decide

end Cxx
