/-
  Props/C19.lean — C19: preprocessor integration yields the main file's declarations only.

  On the model of the filters (`PPFilter.lean`), for preprocessor output that is a sequence
  of marker-delimited segments (the recorded assumption about g++ / pcpp):
  * `C19_gcc_filter_spec`, `C19_pcpp_filter_spec`: the filter output is exactly the segments
    whose marker names the main file, whole and in order — for every number and content of
    segments;
  * `C19_gcc_marker_exact`, `C19_pcpp_marker_exact`: "names the main file" is equality of
    the quoted file name (not a suffix/prefix test), whatever the files are called.
  * `C19_msvc_filter_spec`, `C19_msvc_marker_exact`: the same for `_msvc_filter`, whose main
    file is the one named by the first `#line` line (its suffix test is an equality test
    because the compared text starts at the opening quote).
  What the external tools emit, include resolution, macro expansion and the depfile writer are
  exercised by the correspondence / oracle only (named in evidence); cl.exe is not available,
  so the MSVC filter is tied to the code on synthetic MSVC-format output.
-/
import CxxModel.PPFilter
import CxxModel.LexTypes
namespace Cxx

theorem C19_gcc_filter_spec (fname : Str) (segs : List Segment)
    (hm : ∀ s ∈ segs, (gccMarkerKeep fname s.marker).isSome)
    (hb : ∀ s ∈ segs, ∀ l ∈ s.body, gccMarkerKeep fname l = none) :
    gccFilter fname true (segs.flatMap Segment.lines) =
      (segs.filter (fun s => gccMarkerKeep fname s.marker = some true)).flatMap Segment.lines := by
  rw [gccFilter_eq_seg]; exact segFilter_spec _ segs hm hb true

/-- the whole `_gcc_filter`: the main file is recognised by its name with every backslash doubled, as gcc writes
    it; the escaping identifies no two different names, so no other file's marker can equal the main file's -/
theorem C19_gcc_filter_top_spec (fname : Str) (segs : List Segment)
    (hm : ∀ s ∈ segs, (gccMarkerKeep (escBackslash fname) s.marker).isSome)
    (hb : ∀ s ∈ segs, ∀ l ∈ s.body, gccMarkerKeep (escBackslash fname) l = none) :
    gccFilterTop fname (segs.flatMap Segment.lines) =
      (segs.filter (fun s => gccMarkerKeep (escBackslash fname) s.marker = some true)).flatMap Segment.lines :=
  C19_gcc_filter_spec (escBackslash fname) segs hm hb

theorem C19_gcc_escape_injective (a b : Str) (h : escBackslash a = escBackslash b) : a = b :=
  escBackslash_injective a b h

/-- a marker naming the file `other` (escaped as gcc does) is taken for the main file's only if `other` IS the main file -/
theorem C19_gcc_marker_exact_escaped (fname other pre flags : Str)
    (hp : isPrefix [35, 32] pre = true)
    (hq : ∀ c ∈ escBackslash other, c ≠ 34) (hn : ∀ c ∈ pre, c ≠ 34) (hf : ∀ c ∈ flags, c ≠ 34)
    (hk : gccMarkerKeep (escBackslash fname) (pre ++ [34] ++ escBackslash other ++ [34] ++ flags) = some true) : other = fname := by
  rw [gccMarkerKeep_exact (escBackslash fname) (escBackslash other) pre flags hp hq hn hf] at hk
  have : (escBackslash other == escBackslash fname) = true := by simpa using hk
  exact escBackslash_injective _ _ (by simpa using this)

theorem C19_pcpp_filter_spec (fname : Str) (segs : List Segment)
    (hm : ∀ s ∈ segs, (pcppMarkerKeep fname s.marker).isSome)
    (hb : ∀ s ∈ segs, ∀ l ∈ s.body, pcppMarkerKeep fname l = none) :
    pcppFilter fname true (segs.flatMap Segment.lines) =
      (segs.filter (fun s => pcppMarkerKeep fname s.marker = some true)).flatMap Segment.lines := by
  rw [pcppFilter_eq_seg]; exact segFilter_spec _ segs hm hb true

theorem C19_gcc_marker_exact (fname file pre flags : Str)
    (hp : isPrefix [35, 32] pre = true)
    (hq : ∀ c ∈ file, c ≠ 34) (hn : ∀ c ∈ pre, c ≠ 34) (hf : ∀ c ∈ flags, c ≠ 34) :
    gccMarkerKeep fname (pre ++ [34] ++ file ++ [34] ++ flags) = some (file == fname) :=
  gccMarkerKeep_exact fname file pre flags hp hq hn hf

theorem C19_pcpp_marker_exact (fname file pre : Str)
    (hp : isPrefix [35, 108, 105, 110, 101] pre = true) (hn : ∀ c ∈ pre, c ≠ 34) :
    pcppMarkerKeep fname (pre ++ [34] ++ file ++ [34, 10]) = some (file == fname) :=
  pcppMarkerKeep_exact fname file pre hp hn

theorem C19_msvc_filter_spec (first : Str) (segs : List Segment)
    (hfirst : isPrefix [35, 108, 105, 110, 101] first = true)
    (hm : ∀ s ∈ segs, (msvcMarkerKeep (msvcFname first) s.marker).isSome)
    (hb : ∀ s ∈ segs, ∀ l ∈ s.body, msvcMarkerKeep (msvcFname first) l = none) (body0 : List Str)
    (hb0 : ∀ l ∈ body0, msvcMarkerKeep (msvcFname first) l = none) :
    msvcFilter (first :: body0 ++ segs.flatMap Segment.lines) =
      some (body0 ++ (segs.filter (fun s => msvcMarkerKeep (msvcFname first) s.marker = some true)).flatMap Segment.lines) := by
  simp only [msvcFilter, List.cons_append, List.headD_cons, hfirst, ↓reduceIte, List.drop_succ_cons, List.drop_zero, Option.some.injEq]
  have body_lemma : ∀ (body tail : List Str), (∀ l ∈ body, msvcMarkerKeep (msvcFname first) l = none) →
      segFilter (msvcMarkerKeep (msvcFname first)) true (body ++ tail) =
        body ++ segFilter (msvcMarkerKeep (msvcFname first)) true tail := by
    intro body tail hbody
    induction body with
    | nil => rfl
    | cons l ls ih =>
      have hl := hbody l (by simp)
      simp [segFilter, hl, ih (fun x hx => hbody x (by simp [hx]))]
  rw [body_lemma body0 _ hb0, segFilter_spec _ segs hm hb true]

theorem C19_msvc_marker_exact (main file pre : Str) (hm : ∀ c ∈ main, c ≠ 34) (hf : ∀ c ∈ file, c ≠ 34)
    (hp : ∀ c ∈ pre, c ≠ 34) (hpre : isPrefix [35, 108, 105, 110, 101] pre = true) :
    msvcMarkerKeep ([34] ++ main ++ [34, 10]) (pre ++ [34] ++ file ++ [34, 10]) = some (decide (file = main)) :=
  msvcMarkerKeep_exact main file pre hm hf hp hpre

/-! non-vacuity: main `a.h`; markers for `xa.h` and `sub/a.h` are *not* the main file -/
example : gccMarkerKeep (strToStr "a.h") (strToStr "# 1 \"xa.h\" 1\n") = some false := by decide
example : gccMarkerKeep (strToStr "a.h") (strToStr "# 1 \"sub/a.h\" 1\n") = some false := by decide
example : gccMarkerKeep (strToStr "a.h") (strToStr "# 3 \"a.h\" 2\n") = some true := by decide
example : pcppMarkerKeep (strToStr "a.h") (strToStr "#line 1 \"sub/a.h\"\n") = some false := by decide
example : pcppMarkerKeep (strToStr "a.h") (strToStr "#line 3 \"a.h\"\n") = some true := by decide
example : msvcFilter [strToStr "#line 1 \"c:\\\\p\\\\a.h\"\n", strToStr "int m;\n", strToStr "#line 1 \"c:\\\\p\\\\xa.h\"\n",
    strToStr "int o;\n", strToStr "#line 3 \"c:\\\\p\\\\a.h\"\n", strToStr "int n;\n"] =
    some [strToStr "int m;\n", strToStr "#line 3 \"c:\\\\p\\\\a.h\"\n", strToStr "int n;\n"] := by decide

end Cxx
