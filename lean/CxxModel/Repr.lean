/-
  Repr.lean — model of `gentest.nondefault_repr` over generic dataclass values, its inverse
  (what `eval` of the produced expression constructs), and the round-trip theorem.

  Values are a generic tree (`PyVal`); the dataclass schemas are data (regenerated into
  `Gen/Schema.lean`).  The produced text is Python source; the model stops at the expression
  tree (`RExpr`) — that Python's `eval(repr(x)) == x` holds for `str/int/bool/None` and that
  keyword-argument construction assigns fields is the recorded assumption.
-/
namespace Cxx

inductive PyVal where
  | none
  | bool (b : Bool)
  | int (i : Int)
  | str (s : String)
  | list (xs : List PyVal)
  | dict (kvs : List (String × PyVal))
  | obj (cls : String) (fields : List (String × PyVal))
  deriving Repr, Inhabited

/-- one dataclass field: `default = none` means `MISSING` -/
structure FieldSpec where
  name : String
  repr : Bool
  compare : Bool
  default : Option PyVal
  deriving Inhabited

abbrev Schema := List (String × List FieldSpec)

/-- the expression `nondefault_repr` writes -/
inductive RExpr where
  | lit (v : PyVal)                                   -- `repr(o)` of a scalar
  | list (xs : List RExpr)
  | dict (kvs : List (String × RExpr))
  | call (cls : String) (kwargs : List (String × RExpr))
  deriving Inhabited

def lookupFields (schema : Schema) (cls : String) : List FieldSpec := (schema.lookup cls).getD []

mutual
  /-- Python `==`: dataclass `__eq__` compares the `compare=True` fields of same-class
      objects; lists and dicts element-wise (dict order is insertion order on both sides
      here); `True == 1` -/
  def deq (schema : Schema) : PyVal → PyVal → Bool
    | .none, .none => true
    | .bool a, .bool b => a == b
    | .int a, .int b => a == b
    | .bool a, .int b => (if a then 1 else 0) == b
    | .int a, .bool b => a == (if b then 1 else 0)
    | .str a, .str b => a == b
    | .list a, .list b => deqList schema a b
    | .dict a, .dict b => deqKvs schema a b
    | .obj c a, .obj d b => c == d && deqFields schema (lookupFields schema c) a b
    | _, _ => false
  def deqList (schema : Schema) : List PyVal → List PyVal → Bool
    | [], [] => true
    | x :: xs, y :: ys => deq schema x y && deqList schema xs ys
    | _, _ => false
  def deqKvs (schema : Schema) : List (String × PyVal) → List (String × PyVal) → Bool
    | [], [] => true
    | (k, x) :: xs, (l, y) :: ys => k == l && deq schema x y && deqKvs schema xs ys
    | _, _ => false
  /-- field-wise, skipping `compare=False` fields; both objects list their fields in schema order -/
  def deqFields (schema : Schema) : List FieldSpec → List (String × PyVal) → List (String × PyVal) → Bool
    | [], [], [] => true
    | f :: fs, (_, x) :: xs, (_, y) :: ys =>
      (if f.compare then deq schema x y else true) && deqFields schema fs xs ys
    | _, _, _ => false
end


mutual
  /-- `_inner_repr` -/
  def nondefaultRepr (schema : Schema) : PyVal → RExpr
    | .obj cls fields => .call cls (reprFields schema (lookupFields schema cls) fields)
    | .list xs => .list (reprList schema xs)
    | .dict kvs => .dict (reprKvs schema kvs)
    | v => .lit v
  def reprList (schema : Schema) : List PyVal → List RExpr
    | [] => []
    | x :: xs => nondefaultRepr schema x :: reprList schema xs
  def reprKvs (schema : Schema) : List (String × PyVal) → List (String × RExpr)
    | [] => []
    | (k, x) :: xs => (k, nondefaultRepr schema x) :: reprKvs schema xs
  /-- for every field with `repr and compare`: emitted iff the value differs from the default.
      `fields` lists the object's field values in schema order. -/
  def reprFields (schema : Schema) : List FieldSpec → List (String × PyVal) → List (String × RExpr)
    | f :: fs, (_, v) :: vs =>
      let rest := reprFields schema fs vs
      if f.repr && f.compare then
        match f.default with
        | some d => if deq schema v d then rest else (f.name, nondefaultRepr schema v) :: rest
        | Option.none => (f.name, nondefaultRepr schema v) :: rest
      else rest
    | _, _ => []
end

/-- constructor call: a passed keyword wins, else the default (a field without default that
    is not passed is a `TypeError`; modelled as `none` — excluded by `Conforms`) -/
def fillFields : List FieldSpec → List (String × PyVal) → List (String × PyVal)
  | [], _ => []
  | f :: fs, kw =>
    (f.name, match kw.lookup f.name with
      | some v => v
      | Option.none => f.default.getD .none) :: fillFields fs kw

mutual
  /-- what evaluating the expression constructs: keyword arguments assigned, every other
      field gets its default -/
  def evalRepr (schema : Schema) : RExpr → PyVal
    | .lit v => v
    | .list xs => .list (evalList schema xs)
    | .dict kvs => .dict (evalKvs schema kvs)
    | .call cls kwargs => .obj cls (fillFields (lookupFields schema cls) (evalKvs schema kwargs))
  def evalList (schema : Schema) : List RExpr → List PyVal
    | [] => []
    | x :: xs => evalRepr schema x :: evalList schema xs
  def evalKvs (schema : Schema) : List (String × RExpr) → List (String × PyVal)
    | [] => []
    | (k, x) :: xs => (k, evalRepr schema x) :: evalKvs schema xs
end

end Cxx

namespace Cxx

/-! ### round trip -/

def emitted (schema : Schema) (f : FieldSpec) (v : PyVal) : Bool :=
  f.repr && f.compare && (match f.default with
    | some d => !deq schema v d
    | Option.none => true)

/-- schema entry well-formed: field names distinct; a compared field is also shown -/
def specsOK (fs : List FieldSpec) : Bool :=
  decide ((fs.map (·.name)).Nodup) && fs.all (fun f => !f.compare || f.repr)

mutual
  /-- the value is an instance of the schema: every object lists exactly its class's fields,
      in order; a field without default is one that `nondefault_repr` always writes -/
  def Conforms (schema : Schema) : PyVal → Bool
    | .obj cls fields => specsOK (lookupFields schema cls) && conformsFields schema (lookupFields schema cls) fields
    | .list xs => conformsList schema xs
    | .dict kvs => conformsKvs schema kvs
    | _ => true
  def conformsList (schema : Schema) : List PyVal → Bool
    | [] => true
    | x :: xs => Conforms schema x && conformsList schema xs
  def conformsKvs (schema : Schema) : List (String × PyVal) → Bool
    | [] => true
    | (_, x) :: xs => Conforms schema x && conformsKvs schema xs
  def conformsFields (schema : Schema) : List FieldSpec → List (String × PyVal) → Bool
    | [], [] => true
    | f :: fs, (n, v) :: vs =>
      (n == f.name) && Conforms schema v && (f.default.isSome || (f.repr && f.compare)) &&
        conformsFields schema fs vs
    | _, _ => false
end

theorem reprFields_cons (schema : Schema) (f : FieldSpec) (fs : List FieldSpec) (n : String) (v : PyVal)
    (vs : List (String × PyVal)) :
    reprFields schema (f :: fs) ((n, v) :: vs) =
      (if emitted schema f v then [(f.name, nondefaultRepr schema v)] else []) ++ reprFields schema fs vs := by
  simp only [reprFields, emitted]
  by_cases hrc : (f.repr && f.compare) = true
  · simp only [hrc, ↓reduceIte, Bool.true_and]
    cases hd : f.default with
    | none => simp
    | some d => simp only; by_cases hq : deq schema v d = true <;> simp [hq]
  · simp [hrc]

theorem evalKvs_append (schema : Schema) (a b : List (String × RExpr)) :
    evalKvs schema (a ++ b) = evalKvs schema a ++ evalKvs schema b := by
  induction a with
  | nil => rfl
  | cons x xs ih => obtain ⟨k, e⟩ := x; simp [evalKvs, ih]

/-- keys written by `reprFields` are field names of the specs -/
theorem reprFields_keys (schema : Schema) : ∀ (fs : List FieldSpec) (vs : List (String × PyVal)) (k : String),
    k ∉ fs.map (·.name) → (evalKvs schema (reprFields schema fs vs)).lookup k = Option.none := by
  intro fs
  induction fs with
  | nil => intro vs k _; cases vs <;> simp [reprFields, evalKvs]
  | cons f fs ih =>
    intro vs k hk
    cases vs with
    | nil => simp [reprFields, evalKvs]
    | cons nv vs =>
      obtain ⟨n, v⟩ := nv
      have hkf : k ≠ f.name := by intro h; apply hk; simp [h]
      have hks : k ∉ fs.map (·.name) := by intro h; apply hk; simp [h]
      rw [reprFields_cons, evalKvs_append]
      split
      · simp only [evalKvs, List.singleton_append, List.lookup_cons]
        have : (k == f.name) = false := by simpa using hkf
        simp [this, ih vs k hks]
      · simp [evalKvs, ih vs k hks]

/-- looking a field up in the written keyword arguments: its value if it was written -/
theorem lookup_reprFields (schema : Schema) : ∀ (fs : List FieldSpec) (vs : List (String × PyVal)),
    (fs.map (·.name)).Nodup → fs.length = vs.length →
    ∀ (i : Nat) (hi : i < fs.length) (hv : i < vs.length),
      (evalKvs schema (reprFields schema fs vs)).lookup (fs[i]).name =
        (if emitted schema fs[i] (vs[i]).2 then some (evalRepr schema (nondefaultRepr schema (vs[i]).2)) else Option.none) := by
  intro fs
  induction fs with
  | nil => intro vs _ _ i hi; simp at hi
  | cons f fs ih =>
    intro vs hnd hlen i hi hv
    cases vs with
    | nil => simp at hv
    | cons nv vs =>
      obtain ⟨n, v⟩ := nv
      simp only [List.map_cons, List.nodup_cons] at hnd
      obtain ⟨hnotin, hnd'⟩ := hnd
      rw [reprFields_cons, evalKvs_append]
      cases i with
      | zero =>
        simp only [List.getElem_cons_zero]
        by_cases he : emitted schema f v = true
        · simp [he, evalKvs]
        · simp only [he, Bool.false_eq_true, ↓reduceIte, evalKvs, List.nil_append]
          exact reprFields_keys schema fs vs f.name hnotin
      | succ j =>
        simp only [List.getElem_cons_succ]
        have hj : j < fs.length := by simpa using hi
        have hne : (fs[j]).name ≠ f.name := by
          intro h; apply hnotin; rw [← h]; exact List.mem_map.mpr ⟨fs[j], List.getElem_mem hj, rfl⟩
        have hb : ((fs[j]).name == f.name) = false := by simpa using hne
        have := ih vs hnd' (by simpa using hlen) j hj (by simpa using hv)
        split
        · simp only [evalKvs, List.singleton_append, List.lookup_cons, hb]
          exact this
        · simpa [evalKvs] using this

end Cxx

namespace Cxx

/-- field-wise equality of an object with its reconstruction, given that every keyword
    lookup returns what was written for that field -/
theorem deqFields_fill (schema : Schema) (kw : List (String × PyVal)) :
    ∀ (fs : List FieldSpec) (vs : List (String × PyVal)),
      conformsFields schema fs vs = true →
      fs.all (fun f => !f.compare || f.repr) = true →
      (∀ (i : Nat) (hi : i < fs.length) (hv : i < vs.length),
        kw.lookup (fs[i]).name =
          (if emitted schema fs[i] (vs[i]).2 then some (evalRepr schema (nondefaultRepr schema (vs[i]).2)) else Option.none)) →
      (∀ (i : Nat) (hv : i < vs.length), deq schema (vs[i]).2 (evalRepr schema (nondefaultRepr schema (vs[i]).2)) = true) →
      deqFields schema fs vs (fillFields fs kw) = true := by
  intro fs
  induction fs with
  | nil => intro vs hc _ _ _; cases vs <;> simp_all [conformsFields, deqFields, fillFields]
  | cons f fs ih =>
    intro vs hc hall hlk hel
    cases vs with
    | nil => simp [conformsFields] at hc
    | cons nv vs =>
      obtain ⟨n, v⟩ := nv
      simp only [conformsFields, Bool.and_eq_true] at hc
      obtain ⟨⟨⟨_, _⟩, hdef⟩, hcs⟩ := hc
      simp only [List.all_cons, Bool.and_eq_true] at hall
      obtain ⟨hf, hall'⟩ := hall
      simp only [fillFields, deqFields, Bool.and_eq_true]
      refine ⟨?_, ?_⟩
      · by_cases hcmp : f.compare = true
        · simp only [hcmp, ↓reduceIte]
          have h0 := hlk 0 (by simp) (by simp)
          simp only [List.getElem_cons_zero] at h0
          rw [h0]
          by_cases he : emitted schema f v = true
          · simp only [he, ↓reduceIte]
            exact hel 0 (by simp)
          · simp only [he, Bool.false_eq_true, ↓reduceIte]
            -- not written although compared (hence shown): the value equals the default
            have hrepr : f.repr = true := by simpa [hcmp] using hf
            simp only [emitted, hrepr, hcmp, Bool.and_self, Bool.true_and] at he
            cases hd : f.default with
            | none => simp [hd] at he
            | some d => simp only [hd, Bool.not_eq_true', Bool.not_eq_false] at he; simpa [hd] using he
        · simp [hcmp]
      · apply ih vs hcs hall'
        · intro i hi hv
          have := hlk (i + 1) (by simpa using hi) (by simpa using hv)
          simpa using this
        · intro i hv
          have := hel (i + 1) (by simpa using hv)
          simpa using this

theorem conformsFields_length (schema : Schema) : ∀ (fs : List FieldSpec) (vs : List (String × PyVal)),
    conformsFields schema fs vs = true → fs.length = vs.length := by
  intro fs
  induction fs with
  | nil => intro vs h; cases vs <;> simp_all [conformsFields]
  | cons f fs ih =>
    intro vs h
    cases vs with
    | nil => simp [conformsFields] at h
    | cons nv vs =>
      obtain ⟨n, v⟩ := nv
      simp only [conformsFields, Bool.and_eq_true] at h
      simp [ih vs h.2]

theorem conformsFields_kvs (schema : Schema) : ∀ (fs : List FieldSpec) (vs : List (String × PyVal)),
    conformsFields schema fs vs = true → conformsKvs schema vs = true := by
  intro fs
  induction fs with
  | nil => intro vs h; cases vs <;> simp_all [conformsFields, conformsKvs]
  | cons f fs ih =>
    intro vs h
    cases vs with
    | nil => simp [conformsFields] at h
    | cons nv vs =>
      obtain ⟨n, v⟩ := nv
      simp only [conformsFields, Bool.and_eq_true] at h
      simp only [conformsKvs, Bool.and_eq_true]
      exact ⟨h.1.1.2, ih vs h.2⟩

mutual
  /-- **round trip**: a conforming value equals (Python `==`) what evaluating its
      `nondefault_repr` constructs -/
  theorem repr_roundtrip (schema : Schema) : ∀ (v : PyVal), Conforms schema v = true →
      deq schema v (evalRepr schema (nondefaultRepr schema v)) = true
    | .none, _ => by simp [nondefaultRepr, evalRepr, deq]
    | .bool b, _ => by simp [nondefaultRepr, evalRepr, deq]
    | .int i, _ => by simp [nondefaultRepr, evalRepr, deq]
    | .str s, _ => by simp [nondefaultRepr, evalRepr, deq]
    | .list xs, h => by
      simp only [nondefaultRepr, evalRepr, deq]
      exact repr_roundtrip_list schema xs (by simpa [Conforms] using h)
    | .dict kvs, h => by
      simp only [nondefaultRepr, evalRepr, deq]
      exact repr_roundtrip_kvs schema kvs (by simpa [Conforms] using h)
    | .obj cls fields, h => by
      simp only [Conforms, Bool.and_eq_true] at h
      obtain ⟨hok, hcf⟩ := h
      simp only [specsOK, Bool.and_eq_true, decide_eq_true_eq] at hok
      obtain ⟨hnd, hall⟩ := hok
      simp only [nondefaultRepr, evalRepr, deq, beq_self_eq_true, Bool.true_and]
      have hlen : (lookupFields schema cls).length = fields.length :=
        conformsFields_length schema _ _ hcf
      apply deqFields_fill schema _ _ _ hcf hall
      · intro i hi hv
        exact lookup_reprFields schema _ _ hnd hlen i hi hv
      · intro i hv
        exact repr_roundtrip_vals schema fields (conformsFields_kvs schema _ _ hcf) i hv
  theorem repr_roundtrip_list (schema : Schema) : ∀ (xs : List PyVal), conformsList schema xs = true →
      deqList schema xs (evalList schema (reprList schema xs)) = true
    | [], _ => by simp [reprList, evalList, deqList]
    | x :: xs, h => by
      simp only [conformsList, Bool.and_eq_true] at h
      simp only [reprList, evalList, deqList, Bool.and_eq_true]
      exact ⟨repr_roundtrip schema x h.1, repr_roundtrip_list schema xs h.2⟩
  theorem repr_roundtrip_vals (schema : Schema) : ∀ (vs : List (String × PyVal)), conformsKvs schema vs = true →
      ∀ (i : Nat) (hv : i < vs.length), deq schema (vs[i]).2 (evalRepr schema (nondefaultRepr schema (vs[i]).2)) = true
    | [], _, i, hv => by simp at hv
    | (k, x) :: xs, h, 0, _ => by
      simp only [conformsKvs, Bool.and_eq_true] at h
      simpa using repr_roundtrip schema x h.1
    | (k, x) :: xs, h, i + 1, hv => by
      simp only [conformsKvs, Bool.and_eq_true] at h
      simpa using repr_roundtrip_vals schema xs h.2 i (by simpa using hv)
  theorem repr_roundtrip_kvs (schema : Schema) : ∀ (kvs : List (String × PyVal)), conformsKvs schema kvs = true →
      deqKvs schema kvs (evalKvs schema (reprKvs schema kvs)) = true
    | [], _ => by simp [reprKvs, evalKvs, deqKvs]
    | (k, x) :: xs, h => by
      simp only [conformsKvs, Bool.and_eq_true] at h
      simp only [reprKvs, evalKvs, deqKvs, beq_self_eq_true, Bool.true_and, Bool.and_eq_true]
      exact ⟨repr_roundtrip schema x h.1, repr_roundtrip_kvs schema xs h.2⟩
end

end Cxx
