/-
  Isolation.lean — parses are isolated: a store split into a `shared` part (the prototype
  PLY lexer, `PhonyEnding`, class-level sets, `null_visitor`, …) that no parse writes, and one
  `private` part per parse (the cloned lexer's `lexpos/lineno/lexdata`, the token buffer, the
  state stack, `anon_id`, …).  A parse is a sequence of steps, each reading `shared` and its
  own private part and writing only its own private part.  For every interleaving of any
  number of parses (sequential, nested from a callback, or concurrent under the GIL — all are
  interleavings of steps) each parse's state is the one of its solo run.
-/
namespace Cxx

variable {S P : Type}

/-- the whole store: shared part + one private part per parse -/
structure Store (S P : Type) where
  shared : S
  priv : Nat → P

/-- one scheduled step of parse `i`: reads `shared`, rewrites its own private part only -/
def stepParse (step : S → P → P) (st : Store S P) (i : Nat) : Store S P :=
  { st with priv := fun j => if j = i then step st.shared (st.priv j) else st.priv j }

/-- run a schedule (which parse moves next), any interleaving -/
def runSchedule (step : S → P → P) (st : Store S P) (sched : List Nat) : Store S P :=
  sched.foldl (stepParse step) st

/-- solo run of one parse for `n` steps -/
def solo (step : S → P → P) (s : S) (p : P) : Nat → P
  | 0 => p
  | n + 1 => solo step s (step s p) n

theorem solo_succ_right (step : S → P → P) (s : S) (p : P) (n : Nat) :
    solo step s p (n + 1) = step s (solo step s p n) := by
  induction n generalizing p with
  | zero => rfl
  | succ n ih => simp only [solo] at ih ⊢; rw [ih]

theorem shared_constant (step : S → P → P) (st : Store S P) (sched : List Nat) :
    (runSchedule step st sched).shared = st.shared := by
  induction sched generalizing st with
  | nil => rfl
  | cons i rest ih => simp only [runSchedule, List.foldl_cons] at ih ⊢; rw [ih]; rfl

/-- **noninterference**: after any schedule, parse `i` is exactly where its solo run is after
    as many steps as it was scheduled — whatever the other parses did in between -/
theorem noninterference (step : S → P → P) (st : Store S P) (sched : List Nat) (i : Nat) :
    (runSchedule step st sched).priv i = solo step st.shared (st.priv i) (sched.count i) := by
  induction sched generalizing st with
  | nil => rfl
  | cons j rest ih =>
    simp only [runSchedule, List.foldl_cons] at ih ⊢
    rw [ih]
    by_cases h : j = i
    · subst h
      simp [stepParse, List.count_cons_self, solo]
    · have hc : (j :: rest).count i = rest.count i := by
        simp [List.count_cons, h]
      simp [stepParse, hc, Ne.symm h]

/-- history independence: the parses that ran to completion before parse `i` started do not
    matter (special case: a schedule that runs others first, then `i` alone) -/
theorem history_independent (step : S → P → P) (st : Store S P) (before : List Nat) (i n : Nat)
    (hb : i ∉ before) :
    (runSchedule step st (before ++ List.replicate n i)).priv i = solo step st.shared (st.priv i) n := by
  rw [noninterference]
  have : (before ++ List.replicate n i).count i = n := by
    simp [List.count_append, List.count_eq_zero_of_not_mem hb, List.count_replicate_self]
  rw [this]

/-- `Lexer.clone`: `copy.copy` gives the instance its own `lexpos`, `lineno`, `lexdata`;
    writing them does not touch the prototype (two records, no aliasing) -/
structure LexPos where
  lexpos : Nat
  lineno : Nat
  deriving DecidableEq

theorem clone_is_private (proto clone : LexPos) (f : LexPos → LexPos) :
    (proto, f clone).1 = proto := rfl

end Cxx
