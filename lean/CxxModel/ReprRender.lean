/-
  ReprRender.lean — the text `nondefault_repr` produces for an `RExpr` (for the
  correspondence check; the theorems are about the expression tree).
-/
import CxxModel.Repr
import CxxModel.Ply
namespace Cxx

def joinStr (sep : String) : List String → String
  | [] => ""
  | [a] => a
  | a :: rest => a ++ sep ++ joinStr sep rest

def pyScalar : PyVal → String
  | .none => "None"
  | .bool true => "True"
  | .bool false => "False"
  | .int i => toString i
  | .str s => pyRepr (strToStr s)
  | _ => "?"

mutual
  def RExpr.render : RExpr → String
    | .lit v => pyScalar v
    | .list xs => "[" ++ joinStr "," (renderList xs) ++ "]"
    | .dict kvs => "{" ++ joinStr "," (renderDict kvs) ++ "}"
    | .call cls kwargs => cls ++ "(" ++ joinStr ", " (renderKw kwargs) ++ ")"
  def renderList : List RExpr → List String
    | [] => []
    | x :: xs => x.render :: renderList xs
  def renderDict : List (String × RExpr) → List String
    | [] => []
    | (k, x) :: xs => ("\"" ++ k ++ "\": " ++ x.render) :: renderDict xs
  def renderKw : List (String × RExpr) → List String
    | [] => []
    | (k, x) :: xs => (k ++ "=" ++ x.render) :: renderKw xs
end

end Cxx
