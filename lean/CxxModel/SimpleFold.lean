/-
  SimpleFold.lean — model of `simple.py: SimpleCxxVisitor`: the fold of the callback stream
  into `ParsedData`.

  `state.user_data` (a pointer to a mutable scope object) is modelled as a *path* from the
  global namespace scope: extern blocks alias their parent's scope (same path), namespaces
  are looked up or created by name, classes are appended to `classes` of the parent scope.
-/
import CxxModel.Interp
namespace Cxx

/-- the per-scope item lists that are not themselves scopes -/
structure NsItems where
  enums : List EnumDecl := []
  functions : List Function := []
  methodImpls : List Function := []
  typedefs : List Typedef := []
  variables : List Variable := []
  forwardDecls : List ForwardDecl := []
  usingDecls : List UsingDecl := []
  usingNs : List String := []
  usingAlias : List UsingAlias := []
  nsAlias : List NamespaceAlias := []
  concepts : List Concept := []
  templateInsts : List TemplateInst := []
  deductionGuides : List DeductionGuide := []
  deriving Inhabited

structure ClsItems where
  enums : List EnumDecl := []
  fields : List Field := []
  friends : List FriendDecl := []
  methods : List Function := []
  typedefs : List Typedef := []
  forwardDecls : List ForwardDecl := []
  usingDecls : List UsingDecl := []
  usingAlias : List UsingAlias := []
  deriving Inhabited

/-- `NamespaceScope` / `ClassScope` -/
inductive Scope where
  | ns (name : String) (inline : Bool) (doxygen : Option String) (items : NsItems)
       (classes : List Scope) (namespaces : List (String × Scope))
  | cls (decl : ClassDecl) (items : ClsItems) (classes : List Scope)

instance : Inhabited Scope := ⟨.ns "" false none {} [] []⟩

def Scope.emptyNs (name : String) : Scope := .ns name false none {} [] []

/-- one step from a scope to a child scope -/
inductive Step where
  | nsChild (name : String)
  | clsChild (idx : Nat)
  deriving Repr, DecidableEq, Inhabited

abbrev Path := List Step

def Scope.classes : Scope → List Scope
  | .ns _ _ _ _ c _ => c
  | .cls _ _ c => c

def Scope.setClasses (s : Scope) (c : List Scope) : Scope :=
  match s with
  | .ns n i d it _ nss => .ns n i d it c nss
  | .cls d it _ => .cls d it c

def Scope.child? (s : Scope) : Step → Option Scope
  | .nsChild name =>
    match s with
    | .ns _ _ _ _ _ nss => nss.lookup name
    | .cls .. => none
  | .clsChild idx => s.classes[idx]?

def replaceAssoc (k : String) (v : Scope) : List (String × Scope) → List (String × Scope)
  | [] => []
  | (k', v') :: r => if k' = k then (k, v) :: r else (k', v') :: replaceAssoc k v r

def Scope.setChild (s : Scope) (st : Step) (c : Scope) : Scope :=
  match st with
  | .nsChild name =>
    match s with
    | .ns n i d it cl nss => .ns n i d it cl (replaceAssoc name c nss)
    | other => other
  | .clsChild idx => s.setClasses (s.classes.set idx c)

/-- apply `f` to the scope at `path` (structural recursion on the path) -/
def Scope.modifyAt (f : Scope → Option Scope) : Path → Scope → Option Scope
  | [], s => f s
  | st :: rest, s =>
    match s.child? st with
    | none => none
    | some c =>
      match Scope.modifyAt f rest c with
      | none => none
      | some c' => some (s.setChild st c')

def Scope.getAt : Path → Scope → Option Scope
  | [], s => some s
  | st :: rest, s =>
    match s.child? st with
    | none => none
    | some c => Scope.getAt rest c

/-- `ParsedData` plus the visitor's bookkeeping: which scope each state's `user_data` is -/
structure FoldState where
  root : Scope := Scope.emptyNs ""
  pragmas : List Value := []
  includes : List String := []
  userData : List (Nat × Path) := []          -- state id ↦ scope path
  started : Bool := false                     -- `self.data` exists
  deriving Inhabited

/-- why a callback of `SimpleCxxVisitor` raises -/
inductive FoldErr where
  | attribute (what : String)     -- AttributeError (wrong kind of scope / no user_data)
  | assertion                     -- AssertionError
  deriving Repr, DecidableEq, Inhabited

def FoldState.pathOf (fs : FoldState) (id : Nat) : Except FoldErr Path :=
  match fs.userData.lookup id with
  | some p => .ok p
  | none => .error (.attribute "user_data")

/-- modify the namespace scope at `path`; a class scope there is an `AttributeError` -/
def FoldState.modifyNs (fs : FoldState) (path : Path) (what : String) (f : NsItems → NsItems) :
    Except FoldErr FoldState :=
  match fs.root.modifyAt (fun s => match s with
      | .ns n i d it cl nss => some (.ns n i d (f it) cl nss)
      | .cls .. => none) path with
  | some r => .ok { fs with root := r }
  | none => .error (.attribute what)

def FoldState.modifyCls (fs : FoldState) (path : Path) (what : String) (f : ClsItems → ClsItems) :
    Except FoldErr FoldState :=
  match fs.root.modifyAt (fun s => match s with
      | .cls d it cl => some (.cls d (f it) cl)
      | .ns .. => none) path with
  | some r => .ok { fs with root := r }
  | none => .error (.attribute what)

/-- modify either kind of scope (`state.user_data.<list>.append` where both have the list) -/
def FoldState.modifyAny (fs : FoldState) (path : Path) (what : String)
    (fn : NsItems → NsItems) (fc : ClsItems → ClsItems) : Except FoldErr FoldState :=
  match fs.root.modifyAt (fun s => match s with
      | .ns n i d it cl nss => some (.ns n i d (fn it) cl nss)
      | .cls d it cl => some (.cls d (fc it) cl)) path with
  | some r => .ok { fs with root := r }
  | none => .error (.attribute what)

def isNsAt (fs : FoldState) (path : Path) : Bool :=
  match fs.root.getAt path with
  | some (.ns ..) => true
  | _ => false

/-- `on_namespace_start`: walk / create the chain of namespaces below `path`; returns the new
    root and the path of the innermost one -/
def openNamespaces : List String → Path → Scope → Option (Scope × Path)
  | [], path, root => some (root, path)
  | name :: rest, path, root =>
    match root.modifyAt (fun s => match s with
        | .ns n i d it cl nss =>
          if (nss.lookup name).isSome then some (.ns n i d it cl nss)
          else some (.ns n i d it cl (nss ++ [(name, Scope.emptyNs name)]))
        | .cls .. => none) path with
    | none => none
    | some root' => openNamespaces rest (path ++ [.nsChild name]) root'

/-- one callback of `SimpleCxxVisitor` -/
def foldStep (fs : FoldState) (e : Event) : Except FoldErr FoldState :=
  match e.kind with
  | .parseStart =>
    .ok { root := Scope.emptyNs "", pragmas := [], includes := [], userData := [(e.stateId, [])], started := true }
  | .blockStart =>
    match e.parentId with
    | none => .error (.attribute "parent")
    | some pid =>
      match fs.pathOf pid with
      | .error err => .error err
      | .ok ppath =>
        match e.stateKind with
        | .ext => .ok { fs with userData := (e.stateId, ppath) :: fs.userData }
        | .ns =>
          let names := if e.hdr.ns.names.isEmpty then [""] else e.hdr.ns.names
          match openNamespaces names ppath fs.root with
          | none => .error (.attribute "namespaces")
          | some (root, path) =>
            match root.modifyAt (fun s => match s with
                | .ns n _ _ it cl nss => some (.ns n e.hdr.ns.inline e.hdr.ns.doxygen it cl nss)
                | .cls .. => none) path with
            | none => .error (.attribute "namespaces")
            | some root' => .ok { fs with root := root', userData := (e.stateId, path) :: fs.userData }
        | .cls =>
          match fs.root.getAt ppath with
          | none => .error (.attribute "user_data")
          | some parent =>
            let idx := parent.classes.length
            match fs.root.modifyAt (fun s => some (s.setClasses (s.classes ++ [.cls e.hdr.cls {} []]))) ppath with
            | none => .error (.attribute "classes")
            | some root' => .ok { fs with root := root', userData := (e.stateId, ppath ++ [.clsChild idx]) :: fs.userData }
  | .blockEnd => .ok fs
  | .item p =>
    match p with
    | .pragma v => .ok { fs with pragmas := fs.pragmas ++ [v] }
    | .include f => .ok { fs with includes := fs.includes ++ [f] }
    | other =>
      match fs.pathOf e.stateId with
      | .error err => .error err
      | .ok path =>
        match other with
        | .concept c => fs.modifyNs path "concepts" (fun it => { it with concepts := it.concepts ++ [c] })
        | .namespaceAlias a => fs.modifyNs path "ns_alias" (fun it => { it with nsAlias := it.nsAlias ++ [a] })
        | .forwardDecl f =>
          fs.modifyAny path "forward_decls" (fun it => { it with forwardDecls := it.forwardDecls ++ [f] })
            (fun it => { it with forwardDecls := it.forwardDecls ++ [f] })
        | .templateInst t =>
          if isNsAt fs path then fs.modifyNs path "template_insts" (fun it => { it with templateInsts := it.templateInsts ++ [t] })
          else .error .assertion
        | .variable v =>
          if isNsAt fs path then fs.modifyNs path "variables" (fun it => { it with variables := it.variables ++ [v] })
          else .error .assertion
        | .function f => fs.modifyNs path "functions" (fun it => { it with functions := it.functions ++ [f] })
        | .methodImpl m => fs.modifyNs path "method_impls" (fun it => { it with methodImpls := it.methodImpls ++ [m] })
        | .typedef t =>
          fs.modifyAny path "typedefs" (fun it => { it with typedefs := it.typedefs ++ [t] })
            (fun it => { it with typedefs := it.typedefs ++ [t] })
        | .usingNamespace ns =>
          fs.modifyNs path "using_ns" (fun it => { it with usingNs := it.usingNs ++ [String.intercalate "::" ns] })
        | .usingAlias u =>
          fs.modifyAny path "using_alias" (fun it => { it with usingAlias := it.usingAlias ++ [u] })
            (fun it => { it with usingAlias := it.usingAlias ++ [u] })
        | .usingDeclaration u =>
          fs.modifyAny path "using" (fun it => { it with usingDecls := it.usingDecls ++ [u] })
            (fun it => { it with usingDecls := it.usingDecls ++ [u] })
        | .enum en =>
          fs.modifyAny path "enums" (fun it => { it with enums := it.enums ++ [en] })
            (fun it => { it with enums := it.enums ++ [en] })
        | .classField f => fs.modifyCls path "fields" (fun it => { it with fields := it.fields ++ [f] })
        | .classMethod m => fs.modifyCls path "methods" (fun it => { it with methods := it.methods ++ [m] })
        | .classFriend f => fs.modifyCls path "friends" (fun it => { it with friends := it.friends ++ [f] })
        | .deductionGuide g => fs.modifyNs path "deduction_guides" (fun it => { it with deductionGuides := it.deductionGuides ++ [g] })
        | _ => .ok fs

/-- fold a stream; on a raising callback: the index of that callback and why -/
def foldEvents : List Event → Nat → FoldState → Except (Nat × FoldErr) FoldState
  | [], _, fs => .ok fs
  | e :: rest, i, fs =>
    match foldStep fs e with
    | .error err => .error (i, err)
    | .ok fs' => foldEvents rest (i + 1) fs'

def simpleFold (evs : List Event) : Except (Nat × FoldErr) FoldState := foldEvents evs 0 {}

end Cxx
