/-
  Format.lean — model of the `format()` / `format_decl(name)` methods of `types.py`.
-/
import CxxModel.Types
import CxxModel.TokFmt
namespace Cxx

def joinS (sep : String) : List String → String
  | [] => ""
  | [a] => a
  | a :: rest => a ++ sep ++ joinS sep rest

def fmtValue (v : Value) : String := tokfmt v.tokens

def sizeStr : Option Value → String
  | some x => fmtValue x
  | none => ""

def isArrayOrFn : DType → Bool
  | .array .. => true
  | .fn .. => true
  | _ => false

def isArray : DType → Bool
  | .array .. => true
  | _ => false

mutual
  def fmtSeg : PQSeg → String
    | .anon id => "<<id=" ++ toString id ++ ">>"
    | .fund n => n
    | .name n none => n
    | .name n (some s) => n ++ fmtSpec s
    | .decltype ts => "decltype(" ++ tokfmt ts ++ ")"
    | .auto => "auto"
  def fmtSegs : List PQSeg → List String
    | [] => []
    | s :: r => fmtSeg s :: fmtSegs r
  def fmtPQName : PQName → String
    | .mk segs ck ht =>
      let tn := if ht then "typename " else ""
      match ck with
      | some k => if k.isEmpty then tn ++ joinS "::" (fmtSegs segs) else tn ++ k ++ " " ++ joinS "::" (fmtSegs segs)
      | none => tn ++ joinS "::" (fmtSegs segs)
  def fmtSpec : TemplateSpec → String
    | .mk args => "<" ++ joinS ", " (fmtTArgs args) ++ ">"
  def fmtTArg : TemplateArg → String
    | .ty d p => fmtType d ++ (if p then "..." else "")
    | .val v p => fmtValue v ++ (if p then "..." else "")
  def fmtTArgs : List TemplateArg → List String
    | [] => []
    | a :: r => fmtTArg a :: fmtTArgs r
  /-- `format()` -/
  def fmtType : DType → String
    | .type n c v => (if c then "const " else "") ++ (if v then "volatile " else "") ++ fmtPQName n
    | .ptr t c v =>
      let cs := if c then " const" else ""
      let vs := if v then " volatile" else ""
      match t with
      | .array a s => fmtType a ++ " " ++ ("(*" ++ cs ++ vs ++ ")") ++ "[" ++ sizeStr s ++ "]"
      | .fn r ps va tr _ _ =>
        let params := joinS ", " (fmtParams ps) ++ (if va then "..." else "")
        if tr then "auto " ++ ("(*" ++ cs ++ vs ++ ")") ++ "(" ++ params ++ ") -> " ++ fmtType r
        else fmtType r ++ " " ++ ("(*" ++ cs ++ vs ++ ")") ++ "(" ++ params ++ ")"
      | other => fmtType other ++ "*" ++ cs ++ vs
    | .ref t =>
      match t with
      | .array a s => fmtType a ++ " " ++ "(&)" ++ "[" ++ sizeStr s ++ "]"
      | other => fmtType other ++ "&"
    | .mref t => fmtType t ++ "&&"
    | .array a s => fmtType a ++ "[" ++ sizeStr s ++ "]"
    | .fn r ps va tr _ _ =>
      let params := joinS ", " (fmtParams ps) ++ (if va then "..." else "")
      if tr then "auto (" ++ params ++ ") -> " ++ fmtType r else fmtType r ++ " (" ++ params ++ ")"
  /-- `format_decl(name)` -/
  def fmtDecl : DType → String → String
    | .type n c v, name => (if c then "const " else "") ++ (if v then "volatile " else "") ++ fmtPQName n ++ " " ++ name
    | .ptr t c v, name =>
      let cs := if c then " const" else ""
      let vs := if v then " volatile" else ""
      match t with
      | .array a s => fmtType a ++ " " ++ ("(*" ++ cs ++ vs ++ " " ++ name ++ ")") ++ "[" ++ sizeStr s ++ "]"
      | .fn r ps va tr _ _ =>
        let params := joinS ", " (fmtParams ps) ++ (if va then "..." else "")
        if tr then "auto " ++ ("(*" ++ cs ++ vs ++ " " ++ name ++ ")") ++ "(" ++ params ++ ") -> " ++ fmtType r
        else fmtType r ++ " " ++ ("(*" ++ cs ++ vs ++ " " ++ name ++ ")") ++ "(" ++ params ++ ")"
      | other => fmtType other ++ "*" ++ cs ++ vs ++ " " ++ name
    | .ref t, name =>
      match t with
      | .array a s => fmtType a ++ " " ++ ("(& " ++ name ++ ")") ++ "[" ++ sizeStr s ++ "]"
      | other => fmtType other ++ "& " ++ name
    | .mref t, name => fmtType t ++ "&& " ++ name
    | .array a s, name => fmtType a ++ " " ++ name ++ "[" ++ sizeStr s ++ "]"
    | .fn r ps va tr _ _, name =>
      let params := joinS ", " (fmtParams ps) ++ (if va then "..." else "")
      if tr then "auto " ++ name ++ "(" ++ params ++ ") -> " ++ fmtType r else fmtType r ++ " " ++ name ++ "(" ++ params ++ ")"
  def fmtParam : Param → String
    | .mk t n d p =>
      let dflt := match d with | some v => " = " ++ fmtValue v | none => ""
      let pp := if p then "... " else ""
      match n with
      | some nm => if nm.isEmpty then fmtType t ++ pp ++ dflt else fmtDecl t (pp ++ nm) ++ dflt
      | none => fmtType t ++ pp ++ dflt
  def fmtParams : List Param → List String
    | [] => []
    | p :: r => fmtParam p :: fmtParams r
end

end Cxx
