/-
  Cost.lean — no lexer rule can backtrack exponentially.

  `paths r s` lists every way `r` matches a prefix of `s` in backtracking order; `cost r s` is
  the size of the full backtracking search (every continuation failing): an upper bound on the
  steps of the model matcher for any continuation.  A syntactic analysis `polyOK` (every
  unbounded repetition has a body that is *single* — at most one way to match from any
  position — and not nullable) yields polynomial bounds on both, for every input string.

  `singleB` establishes singleness syntactically: sequences of singles; alternatives that
  exclude each other (disjoint first-character sets, or `x(?!H)` against `x` followed by
  something that must start in `H`); a character-class repetition directly followed by
  something that cannot start inside the class (so only the maximal run survives).
-/
import CxxModel.Regex
namespace Cxx

/-! ### nullability -/

def nullable : Re → Bool
  | .chars _ _ => false
  | .eps => true
  | .seq a b => nullable a && nullable b
  | .alt a b => nullable a || nullable b
  | .rep a mn _ => mn == 0 || nullable a
  | .nla _ => true
  | .eos => true
  | .unsupported => false

theorem suffix_length_le {p s : Str} (h : p <:+ s) : p.length ≤ s.length := by
  obtain ⟨t, ht⟩ := h; subst ht; simp

/-- iterating with at least one pending mandatory iteration only yields strictly shorter remainders -/
theorem iterPaths_shorter (pa : Str → List Str) (hpa : ∀ s p, p ∈ pa s → p <:+ s) (mn : Nat) (mx : Option Nat) :
    ∀ fuel n s p, n < mn → p ∈ iterPaths pa mn mx fuel n s → p.length < s.length := by
  intro fuel
  induction fuel with
  | zero => intro n s p hn hp; simp only [iterPaths] at hp; split at hp <;> simp at hp; omega
  | succ fuel ih =>
    intro n s p hn hp
    simp only [iterPaths, List.mem_append] at hp
    rcases hp with hp | hp
    · split at hp
      · rw [List.mem_flatMap] at hp
        obtain ⟨s', hs', hp⟩ := hp
        split at hp
        · rename_i hlt
          have := suffix_length_le (iterPaths_suffix pa hpa mn mx _ _ _ _ hp)
          omega
        · simp at hp
      · simp at hp
    · split at hp <;> simp at hp; omega

/-- a non-nullable expression consumes at least one character on every path -/
theorem nonnull_consumes (r : Re) : nullable r = false → ∀ s p, p ∈ paths r s → p.length < s.length := by
  induction r with
  | chars neg rs =>
    intro _ s p hp
    cases s with
    | nil => simp [paths, stepChar] at hp
    | cons c t => simp only [paths, stepChar] at hp; split at hp <;> simp at hp; subst hp; simp
  | eps => intro h; simp [nullable] at h
  | seq a b iha ihb =>
    intro h s p hp
    simp only [paths, List.mem_flatMap] at hp
    obtain ⟨m, hm, hp⟩ := hp
    have l1 := suffix_length_le (paths_suffix a s m hm)
    have l2 := suffix_length_le (paths_suffix b m p hp)
    simp only [nullable, Bool.and_eq_false_iff] at h
    rcases h with h | h
    · have := iha h s m hm; omega
    · have := ihb h m p hp; omega
  | alt a b iha ihb =>
    intro h s p hp
    simp only [nullable, Bool.or_eq_false_iff] at h
    simp only [paths, List.mem_append] at hp
    rcases hp with hp | hp
    · exact iha h.1 s p hp
    · exact ihb h.2 s p hp
  | rep a mn mx _ =>
    intro h s p hp
    simp only [nullable, Bool.or_eq_false_iff, beq_eq_false_iff_ne, ne_eq] at h
    exact iterPaths_shorter (paths a) (paths_suffix a) mn mx _ 0 s p (by omega) hp
  | nla a _ => intro h; simp [nullable] at h
  | eos => intro h; simp [nullable] at h
  | unsupported => intro _ s p hp; simp [paths] at hp

/-! ### first-character sets -/

/-- the character classes a match can start with (over-approximation) -/
def atoms : Re → List (Bool × List (Nat × Nat))
  | .chars neg rs => [(neg, rs)]
  | .eps => []
  | .seq a b => atoms a ++ (if nullable a then atoms b else [])
  | .alt a b => atoms a ++ atoms b
  | .rep a _ _ => atoms a
  | .nla _ => []
  | .eos => []
  | .unsupported => []

def firstB (r : Re) (c : Nat) : Bool := (atoms r).any (fun a => charOk a.1 a.2 c)

theorem iterPaths_first (pa : Str → List Str) (mn : Nat) (mx : Option Nat) :
    ∀ fuel n s p, p ∈ iterPaths pa mn mx fuel n s → p ≠ s → ∃ s', s' ∈ pa s ∧ s'.length < s.length := by
  intro fuel
  cases fuel with
  | zero => intro n s p hp hne; simp only [iterPaths] at hp; split at hp <;> simp at hp; exact absurd hp hne
  | succ fuel =>
    intro n s p hp hne
    simp only [iterPaths, List.mem_append] at hp
    rcases hp with hp | hp
    · split at hp
      · rw [List.mem_flatMap] at hp
        obtain ⟨s', hs', hp⟩ := hp
        split at hp
        · rename_i hlt; exact ⟨s', hs', hlt⟩
        · simp at hp
      · simp at hp
    · split at hp <;> simp at hp; exact absurd hp hne

/-- a path that consumed something started with a character of the first set -/
theorem first_sound (r : Re) : ∀ c t p, p ∈ paths r (c :: t) → p ≠ c :: t → firstB r c = true := by
  induction r with
  | chars neg rs =>
    intro c t p hp _
    simp only [paths, stepChar] at hp
    split at hp
    · rename_i h; simp [firstB, atoms, h]
    · simp at hp
  | eps => intro c t p hp hne; simp [paths] at hp; exact absurd hp hne
  | seq a b iha ihb =>
    intro c t p hp hne
    simp only [paths, List.mem_flatMap] at hp
    obtain ⟨m, hm, hp⟩ := hp
    by_cases hmid : m = c :: t
    · subst hmid
      have hb := ihb c t p hp hne
      have hna : nullable a = true := by
        cases hn : nullable a with
        | true => rfl
        | false => have := nonnull_consumes a hn _ _ hm; simp at this
      simp only [firstB, atoms, hna, ↓reduceIte, List.any_append, Bool.or_eq_true]
      exact Or.inr hb
    · have ha := iha c t m hm hmid
      simp only [firstB, atoms, List.any_append, Bool.or_eq_true]
      exact Or.inl ha
  | alt a b iha ihb =>
    intro c t p hp hne
    simp only [paths, List.mem_append] at hp
    simp only [firstB, atoms, List.any_append, Bool.or_eq_true]
    rcases hp with hp | hp
    · exact Or.inl (iha c t p hp hne)
    · exact Or.inr (ihb c t p hp hne)
  | rep a mn mx iha =>
    intro c t p hp hne
    obtain ⟨s', hs', hlt⟩ := iterPaths_first (paths a) mn mx _ _ _ _ hp hne
    have : s' ≠ c :: t := by intro h; subst h; simp at hlt
    exact iha c t s' hs' this
  | nla a _ =>
    intro c t p hp hne
    simp only [paths] at hp; split at hp <;> simp at hp; exact absurd hp hne
  | eos =>
    intro c t p hp hne
    simp only [paths] at hp; split at hp <;> simp at hp; exact absurd hp hne
  | unsupported => intro c t p hp; simp [paths] at hp

/-- a non-nullable expression that matches at all matches on a non-empty string starting in its first set -/
theorem nonnull_first (r : Re) (hn : nullable r = false) (s : Str) (h : paths r s ≠ []) :
    ∃ c t, s = c :: t ∧ firstB r c = true := by
  obtain ⟨p, hp⟩ := List.exists_mem_of_ne_nil _ h
  have hl := nonnull_consumes r hn s p hp
  cases s with
  | nil => simp at hl
  | cons c t =>
    refine ⟨c, t, rfl, first_sound r c t p hp ?_⟩
    intro he; subst he; simp at hl

/-! ### disjointness of character classes, decided on the ranges -/

def rangesDisjoint (r1 r2 : List (Nat × Nat)) : Bool :=
  r1.all (fun a => r2.all (fun b => decide (a.2 < b.1) || decide (b.2 < a.1)))

def rangesSubset (r2 r1 : List (Nat × Nat)) : Bool :=
  r2.all (fun b => r1.any (fun a => decide (a.1 ≤ b.1) && decide (b.2 ≤ a.2)))

/-- two classes with no common character -/
def atomDisjoint (a b : Bool × List (Nat × Nat)) : Bool :=
  match a.1, b.1 with
  | false, false => rangesDisjoint a.2 b.2
  | true, false => rangesSubset b.2 a.2
  | false, true => rangesSubset a.2 b.2
  | true, true => false

theorem inRanges_iff (c : Nat) (rs : List (Nat × Nat)) :
    inRanges c rs = true ↔ ∃ r ∈ rs, r.1 ≤ c ∧ c ≤ r.2 := by
  induction rs with
  | nil => simp [inRanges]
  | cons r rs ih =>
    obtain ⟨lo, hi⟩ := r
    simp only [inRanges, Bool.or_eq_true, Bool.and_eq_true, decide_eq_true_eq, ih, List.mem_cons, exists_eq_or_imp]

theorem rangesDisjoint_sound {r1 r2 : List (Nat × Nat)} (h : rangesDisjoint r1 r2 = true) (c : Nat) :
    ¬ (inRanges c r1 = true ∧ inRanges c r2 = true) := by
  rintro ⟨h1, h2⟩
  rw [inRanges_iff] at h1 h2
  obtain ⟨a, ha, ha1, ha2⟩ := h1
  obtain ⟨b, hb, hb1, hb2⟩ := h2
  simp only [rangesDisjoint, List.all_eq_true, Bool.or_eq_true, decide_eq_true_eq] at h
  rcases h a ha b hb with h | h <;> omega

theorem rangesSubset_sound {r2 r1 : List (Nat × Nat)} (h : rangesSubset r2 r1 = true) (c : Nat)
    (hc : inRanges c r2 = true) : inRanges c r1 = true := by
  rw [inRanges_iff] at hc ⊢
  obtain ⟨b, hb, hb1, hb2⟩ := hc
  simp only [rangesSubset, List.all_eq_true, List.any_eq_true, Bool.and_eq_true, decide_eq_true_eq] at h
  obtain ⟨a, ha, ha1, ha2⟩ := h b hb
  exact ⟨a, ha, by omega, by omega⟩

theorem atomDisjoint_sound {a b : Bool × List (Nat × Nat)} (h : atomDisjoint a b = true) (c : Nat) :
    ¬ (charOk a.1 a.2 c = true ∧ charOk b.1 b.2 c = true) := by
  obtain ⟨na, ra⟩ := a
  obtain ⟨nb, rb⟩ := b
  simp only [atomDisjoint] at h
  rintro ⟨h1, h2⟩
  simp only [charOk] at h1 h2
  cases na <;> cases nb <;> simp only at h
  · simp at h1 h2; exact rangesDisjoint_sound h c ⟨h1, h2⟩
  · simp at h1 h2; have := rangesSubset_sound h c h1; rw [this] at h2; simp at h2
  · simp at h1 h2; have := rangesSubset_sound h c h2; rw [this] at h1; simp at h1
  · cases h

def atomsDisjoint (as bs : List (Bool × List (Nat × Nat))) : Bool :=
  as.all (fun a => bs.all (fun b => atomDisjoint a b))

theorem atomsDisjoint_sound {as bs : List (Bool × List (Nat × Nat))} (h : atomsDisjoint as bs = true) (c : Nat) :
    ¬ (as.any (fun a => charOk a.1 a.2 c) = true ∧ bs.any (fun a => charOk a.1 a.2 c) = true) := by
  rintro ⟨h1, h2⟩
  simp only [List.any_eq_true] at h1 h2
  obtain ⟨a, ha, hca⟩ := h1
  obtain ⟨b, hb, hcb⟩ := h2
  simp only [atomsDisjoint, List.all_eq_true] at h
  exact atomDisjoint_sound (h a ha b hb) c ⟨hca, hcb⟩

/-! ### mutually exclusive alternatives -/

/-- `x(?!H)`-shape: one character of class `X`, then "not followed by `H`" -/
def asCharNla : Re → Option ((Bool × List (Nat × Nat)) × (Bool × List (Nat × Nat)))
  | .seq (.chars n1 r1) (.nla (.chars n2 r2)) => some ((n1, r1), (n2, r2))
  | _ => none

/-- `x` then something non-nullable that must start inside `H`: returns the atoms of what follows -/
def asCharThen : Re → Option (List (Bool × List (Nat × Nat)))
  | .seq (.chars _ _) b => if nullable b then none else some (atoms b)
  | .seq (.seq (.chars _ _) b) _ => if nullable b then none else some (atoms b)
  | _ => none

/-- every atom lies inside the (non-negated) class `h` -/
def atomsInside (as : List (Bool × List (Nat × Nat))) (h : Bool × List (Nat × Nat)) : Bool :=
  !h.1 && as.all (fun a => !a.1 && rangesSubset a.2 h.2)

/-- can `a` and `b` never both match at the same position? -/
def excl : Re → Re → Bool
  | .alt a1 a2, b => excl a1 b && excl a2 b
  | a, b =>
    match b with
    | .alt b1 b2 => exclR a b1 && exclR a b2
    | _ => exclBase a b
where
  exclBase (a b : Re) : Bool :=
    (!nullable a && !nullable b && atomsDisjoint (atoms a) (atoms b)) ||
    (match asCharNla a, asCharThen b with
      | some (_, h), some as => atomsInside as h
      | _, _ => false)
  exclR (a : Re) : Re → Bool
    | .alt b1 b2 => exclR a b1 && exclR a b2
    | b => exclBase a b

theorem exclBase_sound (a b : Re) (h : excl.exclBase a b = true) (s : Str) : paths a s = [] ∨ paths b s = [] := by
  simp only [excl.exclBase, Bool.or_eq_true, Bool.and_eq_true, Bool.not_eq_true'] at h
  rcases h with ⟨⟨hna, hnb⟩, hd⟩ | h
  · by_cases ha : paths a s = []
    · exact Or.inl ha
    · by_cases hb : paths b s = []
      · exact Or.inr hb
      · obtain ⟨c, t, hs, hfa⟩ := nonnull_first a hna s ha
        obtain ⟨c', t', hs', hfb⟩ := nonnull_first b hnb s hb
        rw [hs] at hs'; injection hs' with hc _; subst hc
        exact absurd ⟨hfa, hfb⟩ (atomsDisjoint_sound hd c)
  · -- look-ahead shape
    cases ha : asCharNla a with
    | none => simp [ha] at h
    | some xh =>
      obtain ⟨x, hcls⟩ := xh
      cases hb : asCharThen b with
      | none => simp [ha, hb] at h
      | some as =>
        simp only [ha, hb, atomsInside, Bool.and_eq_true, Bool.not_eq_true', List.all_eq_true] at h
        obtain ⟨hneg, hall⟩ := h
        -- `a = seq (chars X) (nla (chars H))`
        match a, ha with
        | .seq (.chars n1 r1) (.nla (.chars n2 r2)), ha =>
          simp only [asCharNla, Option.some.injEq, Prod.mk.injEq] at ha
          obtain ⟨_, hh⟩ := ha
          subst hh
          simp only at hneg
          by_cases hpa : paths (.seq (.chars n1 r1) (.nla (.chars n2 r2))) s = []
          · exact Or.inl hpa
          · right
            -- after the first character the next one is not in H
            cases s with
            | nil => simp [paths, stepChar] at hpa
            | cons c t =>
              have hnext : ∀ d t', t = d :: t' → inRanges d r2 = false := by
                intro d t' ht
                subst ht
                cases hin : inRanges d r2 with
                | false => rfl
                | true =>
                  exfalso
                  apply hpa
                  simp only [paths, stepChar]
                  split
                  · simp [paths, stepChar, charOk, hneg, hin]
                  · simp
              -- `b` needs a second character inside H
              have key : ∀ (bb : Re), nullable bb = false → (∀ x ∈ atoms bb, (x.1 = false ∧ rangesSubset x.2 r2 = true)) →
                  paths bb t = [] := by
                intro bb hnb hin
                by_cases hne : paths bb t = []
                · exact hne
                exfalso
                obtain ⟨d, t', ht, hf⟩ := nonnull_first bb hnb t hne
                simp only [firstB, List.any_eq_true] at hf
                obtain ⟨x, hx, hcx⟩ := hf
                obtain ⟨hx1, hx2⟩ := hin x hx
                simp only [charOk, hx1] at hcx
                have : inRanges d x.2 = true := by simpa using hcx
                have := rangesSubset_sound hx2 d this
                rw [hnext d t' ht] at this
                cases this
              match b, hb with
              | .seq (.chars m1 q1) b2, hb =>
                simp only [asCharThen] at hb
                split at hb
                · cases hb
                · rename_i hnb
                  injection hb with hb; subst hb
                  have hnb' : nullable b2 = false := by simpa using hnb
                  simp only [paths, stepChar]
                  split
                  · simp only [List.flatMap_cons, List.flatMap_nil, List.append_nil]
                    exact key b2 hnb' (fun x hx => by
                      have := hall x hx; simp only [Bool.and_eq_true, Bool.not_eq_true'] at this; exact this)
                  · simp
              | .seq (.seq (.chars m1 q1) b2) b3, hb =>
                simp only [asCharThen] at hb
                split at hb
                · cases hb
                · rename_i hnb
                  injection hb with hb; subst hb
                  have hnb' : nullable b2 = false := by simpa using hnb
                  simp only [paths, stepChar]
                  split
                  · simp only [List.flatMap_cons, List.flatMap_nil, List.append_nil]
                    have := key b2 hnb' (fun x hx => by
                      have := hall x hx; simp only [Bool.and_eq_true, Bool.not_eq_true'] at this; exact this)
                    simp [this]
                  · simp

theorem exclR_sound (a : Re) : ∀ b, excl.exclR a b = true → ∀ s, paths a s = [] ∨ paths b s = [] := by
  intro b
  induction b with
  | alt b1 b2 ih1 ih2 =>
    intro h s
    simp only [excl.exclR, Bool.and_eq_true] at h
    rcases ih1 h.1 s with h1 | h1
    · exact Or.inl h1
    · rcases ih2 h.2 s with h2 | h2
      · exact Or.inl h2
      · right; simp [paths, h1, h2]
  | chars _ _ => intro h s; exact exclBase_sound a _ (by simpa [excl.exclR] using h) s
  | eps => intro h s; exact exclBase_sound a _ (by simpa [excl.exclR] using h) s
  | seq _ _ _ _ => intro h s; exact exclBase_sound a _ (by simpa [excl.exclR] using h) s
  | rep _ _ _ _ => intro h s; exact exclBase_sound a _ (by simpa [excl.exclR] using h) s
  | nla _ _ => intro h s; exact exclBase_sound a _ (by simpa [excl.exclR] using h) s
  | eos => intro h s; exact exclBase_sound a _ (by simpa [excl.exclR] using h) s
  | unsupported => intro h s; exact exclBase_sound a _ (by simpa [excl.exclR] using h) s

end Cxx

namespace Cxx

theorem excl_sound (a : Re) : ∀ b, excl a b = true → ∀ s, paths a s = [] ∨ paths b s = [] := by
  induction a with
  | alt a1 a2 ih1 ih2 =>
    intro b h s
    simp only [excl, Bool.and_eq_true] at h
    rcases ih1 b h.1 s with h1 | h1
    · rcases ih2 b h.2 s with h2 | h2
      · left; simp [paths, h1, h2]
      · exact Or.inr h2
    · exact Or.inr h1
  | chars n r => intro b h s; exact exclR_sound _ b (by cases b <;> simpa [excl, excl.exclR] using h) s
  | eps => intro b h s; exact exclR_sound _ b (by cases b <;> simpa [excl, excl.exclR] using h) s
  | seq x y _ _ => intro b h s; exact exclR_sound _ b (by cases b <;> simpa [excl, excl.exclR] using h) s
  | rep x mn mx _ => intro b h s; exact exclR_sound _ b (by cases b <;> simpa [excl, excl.exclR] using h) s
  | nla x _ => intro b h s; exact exclR_sound _ b (by cases b <;> simpa [excl, excl.exclR] using h) s
  | eos => intro b h s; exact exclR_sound _ b (by cases b <;> simpa [excl, excl.exclR] using h) s
  | unsupported => intro b h s; exact exclR_sound _ b (by cases b <;> simpa [excl, excl.exclR] using h) s

/-! ### singleness -/

/-- `next` cannot match at a position whose first character is in the class `c` -/
def blocks (c : Bool × List (Nat × Nat)) : Re → Bool
  | .chars n r => atomDisjoint c (n, r)
  | .nla (.chars n r) => !c.1 && !n && rangesSubset c.2 r
  | _ => false

theorem blocks_sound (c : Bool × List (Nat × Nat)) (next : Re) (h : blocks c next = true) (d : Nat) (t : Str)
    (hd : charOk c.1 c.2 d = true) : paths next (d :: t) = [] := by
  match next, h with
  | .chars n r, h =>
    simp only [blocks] at h
    simp only [paths, stepChar]
    split
    · rename_i hok; exact absurd ⟨hd, hok⟩ (atomDisjoint_sound h d)
    · rfl
  | .nla (.chars n r), h =>
    simp only [blocks, Bool.and_eq_true, Bool.not_eq_true'] at h
    obtain ⟨⟨hc, hn⟩, hsub⟩ := h
    simp only [charOk, hc] at hd
    have hin : inRanges d c.2 = true := by simpa using hd
    have := rangesSubset_sound hsub d hin
    simp [paths, stepChar, charOk, hn, this]

/-- the whole continuation `b` cannot match where the next character is in `c` -/
def blocksHead (c : Bool × List (Nat × Nat)) : Re → Bool
  | .seq next _ => blocks c next
  | next => blocks c next

theorem blocksHead_sound (c : Bool × List (Nat × Nat)) (b : Re) (h : blocksHead c b = true) (d : Nat) (t : Str)
    (hd : charOk c.1 c.2 d = true) : paths b (d :: t) = [] := by
  cases b with
  | seq next more =>
    simp only [blocksHead] at h
    simp [paths, blocks_sound c next h d t hd]
  | chars n r => exact blocks_sound c _ (by simpa [blocksHead] using h) d t hd
  | nla x => exact blocks_sound c _ (by simpa [blocksHead] using h) d t hd
  | eps => simp [blocksHead, blocks] at h
  | alt x y => simp [blocksHead, blocks] at h
  | rep x mn mx => simp [blocksHead, blocks] at h
  | eos => simp [blocksHead, blocks] at h
  | unsupported => simp [blocksHead, blocks] at h

/-- is this a repetition of a single character class? -/
def isRepChars : Re → Option (Bool × List (Nat × Nat))
  | .rep (.chars n r) _ _ => some (n, r)
  | _ => none

theorem isRepChars_some {a : Re} {c : Bool × List (Nat × Nat)} (h : isRepChars a = some c) :
    ∃ mn mx, a = .rep (.chars c.1 c.2) mn mx := by
  match a, h with
  | .rep (.chars n r) mn mx, h => simp only [isRepChars, Option.some.injEq] at h; subst h; exact ⟨mn, mx, rfl⟩

def singleB : Re → Bool
  | .alt a b => singleB a && singleB b && excl a b
  | .seq a b =>
    match isRepChars a with
    | some c => blocksHead c b && singleB b
    | none => singleB a && singleB b
  | .rep _ _ _ => false
  | _ => true

theorem flatMap_le_one {α β : Type} (l : List α) (f : α → List β) (hl : l.length ≤ 1) (hf : ∀ x, (f x).length ≤ 1) :
    (l.flatMap f).length ≤ 1 := by
  match l, hl with
  | [], _ => simp
  | [x], _ => simpa using hf x

/-- a character-class repetition followed by a blocked continuation: only the maximal run can go on -/
theorem rep_chars_blocked (n : Bool) (r : List (Nat × Nat)) (mn : Nat) (mx : Option Nat) (cont : Str → List Str)
    (hblock : ∀ d t, charOk n r d = true → cont (d :: t) = []) (hone : ∀ p, (cont p).length ≤ 1) :
    ∀ fuel k s, ((iterPaths (stepChar n r) mn mx fuel k s).flatMap cont).length ≤ 1 := by
  intro fuel
  induction fuel with
  | zero => intro k s; simp only [iterPaths]; split <;> simp [hone]
  | succ fuel ih =>
    intro k s
    simp only [iterPaths, List.flatMap_append, List.length_append]
    cases s with
    | nil =>
      have : stepChar n r [] = [] := rfl
      simp only [this, List.flatMap_nil]
      split <;> (split <;> simp [hone])
    | cons d t =>
      by_cases hd : charOk n r d = true
      · -- the run goes on: stopping here is blocked
        have hstop : ((if mn ≤ k then [d :: t] else []).flatMap cont).length = 0 := by
          split <;> simp [hblock d t hd]
        rw [hstop]
        split
        · simp only [stepChar, hd, ↓reduceIte, List.flatMap_cons, List.flatMap_nil, List.append_nil]
          split
          · simpa using ih (k + 1) t
          · simp
        · simp
      · -- the run ends here
        have hstep : stepChar n r (d :: t) = [] := by simp [stepChar, hd]
        simp only [hstep, List.flatMap_nil]
        split <;> (split <;> simp [hone])

theorem singleB_sound (r : Re) : singleB r = true → ∀ s, (paths r s).length ≤ 1 := by
  induction r with
  | chars n rs => intro _ s; cases s with
    | nil => simp [paths, stepChar]
    | cons c t => simp only [paths, stepChar]; split <;> simp
  | eps => intro _ s; simp [paths]
  | eos => intro _ s; simp only [paths]; split <;> simp
  | nla a _ => intro _ s; simp only [paths]; split <;> simp
  | unsupported => intro _ s; simp [paths]
  | rep a mn mx _ => intro h; simp [singleB] at h
  | alt a b iha ihb =>
    intro h s
    simp only [singleB, Bool.and_eq_true] at h
    obtain ⟨⟨ha, hb⟩, he⟩ := h
    simp only [paths, List.length_append]
    rcases excl_sound a b he s with h0 | h0
    · rw [h0]; simpa using ihb hb s
    · rw [h0]; simpa using iha ha s
  | seq a b iha ihb =>
    intro h s
    simp only [singleB] at h
    cases hc : isRepChars a with
    | none =>
      simp only [hc, Bool.and_eq_true] at h
      simp only [paths]
      exact flatMap_le_one _ _ (iha h.1 s) (fun x => ihb h.2 x)
    | some c =>
      simp only [hc, Bool.and_eq_true] at h
      obtain ⟨mn, mx, ha⟩ := isRepChars_some hc
      subst ha
      simp only [paths]
      exact rep_chars_blocked c.1 c.2 mn mx (paths b)
        (fun d t hd => blocksHead_sound c b h.1 d t hd) (fun p => ihb h.2 p) _ _ _

end Cxx

namespace Cxx

/-! ### the analysis: every unbounded repetition has a single, non-nullable body -/

def polyOK : Re → Bool
  | .seq a b => polyOK a && polyOK b
  | .alt a b => polyOK a && polyOK b
  | .nla a => polyOK a
  | .rep a _ (some _) => polyOK a
  | .rep a _ none => polyOK a && singleB a && !nullable a
  | _ => true

/-- coefficient and degree of the bound on the number of paths: `c * (|s|+1)^d` -/
def pcoef : Re → Nat × Nat
  | .seq a b => ((pcoef a).1 * (pcoef b).1, (pcoef a).2 + (pcoef b).2)
  | .alt a b => ((pcoef a).1 + (pcoef b).1, max (pcoef a).2 (pcoef b).2)
  | .rep a _ (some m) => (((pcoef a).1 + 1) ^ m, (pcoef a).2 * m)
  | .rep _ _ none => (1, 1)
  | _ => (1, 0)

end Cxx

namespace Cxx

theorem one_le_pow' (a d : Nat) (h : 0 < a) : 1 ≤ a ^ d := by
  induction d with
  | zero => simp
  | succ d ih => rw [Nat.pow_succ]; exact Nat.le_trans ih (Nat.le_mul_of_pos_right _ h)

theorem length_flatMap_le {α β : Type} (l : List α) (f : α → List β) (B : Nat)
    (h : ∀ x ∈ l, (f x).length ≤ B) : (l.flatMap f).length ≤ l.length * B := by
  induction l with
  | nil => simp
  | cons x xs ih =>
    have h1 := h x (by simp)
    have h2 := ih (fun y hy => h y (by simp [hy]))
    simp only [List.flatMap_cons, List.length_append, List.length_cons]
    rw [Nat.add_mul, Nat.one_mul]
    omega

/-- bounded repetition: at most `(K+1)^(m-n)` paths when the body has at most `K` per position -/
theorem iterPaths_len_bounded (pa : Str → List Str) (K m mn : Nat) (s0 : Str)
    (hsuf : ∀ x p, p ∈ pa x → p <:+ x) (hK : ∀ x, x <:+ s0 → (pa x).length ≤ K) :
    ∀ fuel n s, s <:+ s0 → (iterPaths pa mn (some m) fuel n s).length ≤ (K + 1) ^ (m - n) := by
  intro fuel
  induction fuel with
  | zero =>
    intro n s _
    simp only [iterPaths]
    split
    · simpa using one_le_pow' (K + 1) (m - n) (by omega)
    · simp
  | succ fuel ih =>
    intro n s hs
    simp only [iterPaths, List.length_append]
    have hlast : (if mn ≤ n then [s] else ([] : List Str)).length ≤ 1 := by split <;> simp
    by_cases hn : n < m
    · simp only [underMax, hn, decide_true, ↓reduceIte]
      have hrec : ((pa s).flatMap (fun s' => if s'.length < s.length then iterPaths pa mn (some m) fuel (n + 1) s' else [])).length
          ≤ (pa s).length * (K + 1) ^ (m - (n + 1)) := by
        apply length_flatMap_le
        intro x hx
        split
        · exact ih (n + 1) x ((hsuf s x hx).trans hs)
        · simp
      have hk := hK s hs
      have hpow : (K + 1) ^ (m - n) = (K + 1) * (K + 1) ^ (m - (n + 1)) := by
        have : m - n = (m - (n + 1)) + 1 := by omega
        rw [this, Nat.pow_succ, Nat.mul_comm]
      have h1 : 1 ≤ (K + 1) ^ (m - (n + 1)) := one_le_pow' _ _ (by omega)
      calc _ ≤ (pa s).length * (K + 1) ^ (m - (n + 1)) + 1 := by omega
        _ ≤ K * (K + 1) ^ (m - (n + 1)) + (K + 1) ^ (m - (n + 1)) := by
            have := Nat.mul_le_mul_right ((K + 1) ^ (m - (n + 1))) hk
            omega
        _ = (K + 1) ^ (m - n) := by rw [hpow, Nat.add_mul, Nat.one_mul]
    · simp only [underMax, hn, decide_false, Bool.false_eq_true, ↓reduceIte, List.length_nil, Nat.zero_add]
      exact Nat.le_trans hlast (one_le_pow' _ _ (by omega))

/-- unbounded repetition of a single, consuming body: a chain, at most `|s|+1` paths -/
theorem iterPaths_len_single (pa : Str → List Str) (mn : Nat) (mx : Option Nat)
    (hone : ∀ x, (pa x).length ≤ 1) :
    ∀ fuel n s, (iterPaths pa mn mx fuel n s).length ≤ s.length + 1 := by
  intro fuel
  induction fuel with
  | zero => intro n s; simp only [iterPaths]; split <;> simp
  | succ fuel ih =>
    intro n s
    simp only [iterPaths, List.length_append]
    have hlast : (if mn ≤ n then [s] else ([] : List Str)).length ≤ 1 := by split <;> simp
    have hrec : (if underMax mx n = true then
        (pa s).flatMap (fun s' => if s'.length < s.length then iterPaths pa mn mx fuel (n + 1) s' else [])
        else []).length ≤ s.length := by
      split
      · match hp : pa s, hone s with
        | [], _ => simp
        | [x], _ =>
          simp only [List.flatMap_cons, List.flatMap_nil, List.append_nil]
          split
          · have := ih (n + 1) x; omega
          · simp
      · simp
    omega

theorem pow_mono_left {a b : Nat} (h : a ≤ b) (d : Nat) : a ^ d ≤ b ^ d := Nat.pow_le_pow_left h d

/-- **polynomial bound on the number of paths** -/
theorem polyOK_paths_le (r : Re) : polyOK r = true → ∀ s, (paths r s).length ≤ (pcoef r).1 * (s.length + 1) ^ (pcoef r).2 := by
  induction r with
  | chars n rs => intro _ s; cases s with
    | nil => simp [paths, stepChar, pcoef]
    | cons c t => simp only [paths, stepChar, pcoef]; split <;> simp
  | eps => intro _ s; simp [paths, pcoef]
  | eos => intro _ s; simp only [paths, pcoef]; split <;> simp
  | unsupported => intro _ s; simp [paths, pcoef]
  | nla a _ => intro _ s; simp only [paths, pcoef]; split <;> simp
  | seq a b iha ihb =>
    intro h s
    simp only [polyOK, Bool.and_eq_true] at h
    simp only [paths, pcoef]
    have hA := iha h.1 s
    have hB : ∀ x ∈ paths a s, (paths b x).length ≤ (pcoef b).1 * (s.length + 1) ^ (pcoef b).2 := by
      intro x hx
      have hl := suffix_length_le (paths_suffix a s x hx)
      exact Nat.le_trans (ihb h.2 x) (Nat.mul_le_mul_left _ (pow_mono_left (by omega) _))
    calc _ ≤ (paths a s).length * ((pcoef b).1 * (s.length + 1) ^ (pcoef b).2) := length_flatMap_le _ _ _ hB
      _ ≤ ((pcoef a).1 * (s.length + 1) ^ (pcoef a).2) * ((pcoef b).1 * (s.length + 1) ^ (pcoef b).2) :=
          Nat.mul_le_mul_right _ hA
      _ = (pcoef a).1 * (pcoef b).1 * (s.length + 1) ^ ((pcoef a).2 + (pcoef b).2) := by
          rw [Nat.pow_add]; simp only [Nat.mul_assoc, Nat.mul_left_comm, Nat.mul_comm]
  | alt a b iha ihb =>
    intro h s
    simp only [polyOK, Bool.and_eq_true] at h
    simp only [paths, pcoef, List.length_append]
    have hA := iha h.1 s
    have hB := ihb h.2 s
    have hN : 0 < s.length + 1 := by omega
    have h1 : (s.length + 1) ^ (pcoef a).2 ≤ (s.length + 1) ^ max (pcoef a).2 (pcoef b).2 :=
      Nat.pow_le_pow_right hN (Nat.le_max_left _ _)
    have h2 : (s.length + 1) ^ (pcoef b).2 ≤ (s.length + 1) ^ max (pcoef a).2 (pcoef b).2 :=
      Nat.pow_le_pow_right hN (Nat.le_max_right _ _)
    calc _ ≤ (pcoef a).1 * (s.length + 1) ^ (pcoef a).2 + (pcoef b).1 * (s.length + 1) ^ (pcoef b).2 := by omega
      _ ≤ (pcoef a).1 * (s.length + 1) ^ max (pcoef a).2 (pcoef b).2 + (pcoef b).1 * (s.length + 1) ^ max (pcoef a).2 (pcoef b).2 :=
          Nat.add_le_add (Nat.mul_le_mul_left _ h1) (Nat.mul_le_mul_left _ h2)
      _ = ((pcoef a).1 + (pcoef b).1) * (s.length + 1) ^ max (pcoef a).2 (pcoef b).2 := by rw [Nat.add_mul]
  | rep a mn mx iha =>
    intro h s
    cases mx with
    | some m =>
      simp only [polyOK] at h
      simp only [paths, pcoef]
      have hK : ∀ x, x <:+ s → (paths a x).length ≤ (pcoef a).1 * (s.length + 1) ^ (pcoef a).2 := by
        intro x hx
        exact Nat.le_trans (iha h x) (Nat.mul_le_mul_left _ (pow_mono_left (by have := suffix_length_le hx; omega) _))
      have := iterPaths_len_bounded (paths a) ((pcoef a).1 * (s.length + 1) ^ (pcoef a).2) m mn s
        (paths_suffix a) hK (s.length + 1) 0 s (List.suffix_refl _)
      simp only [Nat.sub_zero] at this
      refine Nat.le_trans this ?_
      -- (c N^d + 1)^m ≤ ((c+1) N^d)^m = (c+1)^m N^(d m)
      have hN : 1 ≤ (s.length + 1) ^ (pcoef a).2 := one_le_pow' _ _ (by omega)
      have : (pcoef a).1 * (s.length + 1) ^ (pcoef a).2 + 1 ≤ ((pcoef a).1 + 1) * (s.length + 1) ^ (pcoef a).2 := by
        rw [Nat.add_mul, Nat.one_mul]; omega
      calc _ ≤ (((pcoef a).1 + 1) * (s.length + 1) ^ (pcoef a).2) ^ m := pow_mono_left this m
        _ = ((pcoef a).1 + 1) ^ m * (s.length + 1) ^ ((pcoef a).2 * m) := by rw [Nat.mul_pow, Nat.pow_mul]
    | none =>
      simp only [polyOK, Bool.and_eq_true, Bool.not_eq_true'] at h
      simp only [paths, pcoef, Nat.one_mul, Nat.pow_one]
      exact iterPaths_len_single (paths a) mn none (singleB_sound a h.1.2) _ _ _

end Cxx

namespace Cxx

/-! ### size of the full backtracking search -/

def sumL : List Nat → Nat
  | [] => 0
  | x :: xs => x + sumL xs

/-- search nodes of one repetition: try the body, recurse on every way it matched (every
    continuation failing), then the "stop here" alternative -/
def iterCost (pa : Str → List Str) (ca : Str → Nat) (mn : Nat) (mx : Option Nat) : Nat → Nat → Str → Nat
  | 0, _, _ => 1
  | fuel + 1, n, s =>
    1 + (if underMax mx n then
          ca s + sumL ((pa s).map (fun s' => if s'.length < s.length then iterCost pa ca mn mx fuel (n + 1) s' else 0))
        else 0)

/-- number of nodes of the exhaustive backtracking search for `r` on `s` (all continuations
    failing): an upper bound on the work of the matcher whatever follows `r` -/
def cost : Re → Str → Nat
  | .seq a b, s => cost a s + sumL ((paths a s).map (cost b))
  | .alt a b, s => 1 + cost a s + cost b s
  | .nla a, s => 1 + cost a s
  | .rep a mn mx, s => iterCost (paths a) (cost a) mn mx (s.length + 1) 0 s
  | _, _ => 1

def ccoef : Re → Nat × Nat
  | .seq a b => ((ccoef a).1 + (pcoef a).1 * (ccoef b).1, max (ccoef a).2 ((pcoef a).2 + (ccoef b).2))
  | .alt a b => (1 + (ccoef a).1 + (ccoef b).1, max (ccoef a).2 (ccoef b).2)
  | .nla a => (1 + (ccoef a).1, (ccoef a).2)
  | .rep a _ (some m) => ((1 + (ccoef a).1) * ((pcoef a).1 + 1) ^ m, (ccoef a).2 + (pcoef a).2 * m)
  | .rep a _ none => (1 + (ccoef a).1, (ccoef a).2 + 1)
  | _ => (1, 0)

theorem sumL_map_le {α : Type} (l : List α) (f : α → Nat) (B : Nat) (h : ∀ x ∈ l, f x ≤ B) :
    sumL (l.map f) ≤ l.length * B := by
  induction l with
  | nil => simp [sumL]
  | cons x xs ih =>
    have h1 := h x (by simp)
    have h2 := ih (fun y hy => h y (by simp [hy]))
    simp only [List.map_cons, sumL, List.length_cons]
    rw [Nat.add_mul, Nat.one_mul]; omega

theorem iterCost_bounded (pa : Str → List Str) (ca : Str → Nat) (K C m mn : Nat) (s0 : Str)
    (hsuf : ∀ x p, p ∈ pa x → p <:+ x) (hK : ∀ x, x <:+ s0 → (pa x).length ≤ K) (hC : ∀ x, x <:+ s0 → ca x ≤ C) :
    ∀ fuel n s, s <:+ s0 → iterCost pa ca mn (some m) fuel n s ≤ (1 + C) * (K + 1) ^ (m - n) := by
  intro fuel
  induction fuel with
  | zero =>
    intro n s _
    simp only [iterCost]
    have := one_le_pow' (K + 1) (m - n) (by omega)
    calc 1 ≤ 1 * 1 := by omega
      _ ≤ (1 + C) * (K + 1) ^ (m - n) := Nat.mul_le_mul (by omega) this
  | succ fuel ih =>
    intro n s hs
    simp only [iterCost]
    by_cases hn : n < m
    · simp only [underMax, hn, decide_true, ↓reduceIte]
      have hsum : sumL ((pa s).map (fun s' => if s'.length < s.length then iterCost pa ca mn (some m) fuel (n + 1) s' else 0))
          ≤ (pa s).length * ((1 + C) * (K + 1) ^ (m - (n + 1))) := by
        apply sumL_map_le
        intro x hx
        split
        · exact ih (n + 1) x (List.IsSuffix.trans (hsuf s x hx) hs)
        · omega
      have hk := hK s hs
      have hc := hC s hs
      have hpow : (K + 1) ^ (m - n) = (K + 1) * (K + 1) ^ (m - (n + 1)) := by
        have : m - n = (m - (n + 1)) + 1 := by omega
        rw [this, Nat.pow_succ, Nat.mul_comm]
      have h1 : 1 ≤ (K + 1) ^ (m - (n + 1)) := one_le_pow' _ _ (by omega)
      have hk' : (pa s).length * ((1 + C) * (K + 1) ^ (m - (n + 1))) ≤ K * ((1 + C) * (K + 1) ^ (m - (n + 1))) :=
        Nat.mul_le_mul_right _ hk
      have hone : 1 + C ≤ (1 + C) * (K + 1) ^ (m - (n + 1)) := by
        calc 1 + C = (1 + C) * 1 := by omega
          _ ≤ (1 + C) * (K + 1) ^ (m - (n + 1)) := Nat.mul_le_mul_left _ h1
      calc _ ≤ (1 + C) + K * ((1 + C) * (K + 1) ^ (m - (n + 1))) := by omega
        _ ≤ (1 + C) * (K + 1) ^ (m - (n + 1)) + K * ((1 + C) * (K + 1) ^ (m - (n + 1))) := by omega
        _ = (1 + C) * (K + 1) ^ (m - n) := by
            rw [hpow]
            generalize (K + 1) ^ (m - (n + 1)) = P
            rw [Nat.add_mul K 1, Nat.mul_add, Nat.one_mul]
            simp only [Nat.mul_assoc, Nat.mul_left_comm, Nat.mul_comm, Nat.add_comm]
    · simp only [underMax, hn, decide_false, Bool.false_eq_true, ↓reduceIte, Nat.add_zero]
      have := one_le_pow' (K + 1) (m - n) (by omega)
      calc 1 ≤ 1 * 1 := by omega
        _ ≤ (1 + C) * (K + 1) ^ (m - n) := Nat.mul_le_mul (by omega) this

theorem iterCost_single (pa : Str → List Str) (ca : Str → Nat) (C mn : Nat) (mx : Option Nat) (s0 : Str)
    (hsuf : ∀ x p, p ∈ pa x → p <:+ x) (hone : ∀ x, (pa x).length ≤ 1) (hC : ∀ x, x <:+ s0 → ca x ≤ C) :
    ∀ fuel n s, s <:+ s0 → iterCost pa ca mn mx fuel n s ≤ (s.length + 1) * (1 + C) := by
  intro fuel
  induction fuel with
  | zero => intro n s _; simp only [iterCost]; calc 1 ≤ 1 * 1 := by omega
      _ ≤ (s.length + 1) * (1 + C) := Nat.mul_le_mul (by omega) (by omega)
  | succ fuel ih =>
    intro n s hs
    simp only [iterCost]
    have hc := hC s hs
    split
    · match hp : pa s, hone s with
      | [], _ =>
        simp only [List.map_nil, sumL, Nat.add_zero]
        calc 1 + ca s ≤ 1 * (1 + C) := by omega
          _ ≤ (s.length + 1) * (1 + C) := Nat.mul_le_mul_right _ (by omega)
      | [x], _ =>
        simp only [List.map_cons, List.map_nil, sumL, Nat.add_zero]
        split
        · rename_i hlt
          have hx : x <:+ s := hsuf s x (by rw [hp]; simp)
          have := ih (n + 1) x (List.IsSuffix.trans hx hs)
          have hmul : (x.length + 1) * (1 + C) + (1 + C) ≤ (s.length + 1) * (1 + C) := by
            have : x.length + 1 + 1 ≤ s.length + 1 := by omega
            calc (x.length + 1) * (1 + C) + (1 + C) = (x.length + 1 + 1) * (1 + C) := by rw [Nat.add_mul (x.length + 1) 1, Nat.one_mul]
              _ ≤ (s.length + 1) * (1 + C) := Nat.mul_le_mul_right _ this
          omega
        · calc 1 + (ca s + 0) ≤ 1 * (1 + C) := by omega
            _ ≤ (s.length + 1) * (1 + C) := Nat.mul_le_mul_right _ (by omega)
    · calc 1 + 0 ≤ 1 * 1 := by omega
        _ ≤ (s.length + 1) * (1 + C) := Nat.mul_le_mul (by omega) (by omega)

end Cxx

namespace Cxx

theorem pow_le_max_l (N a b : Nat) (hN : 0 < N) : N ^ a ≤ N ^ max a b := Nat.pow_le_pow_right hN (Nat.le_max_left _ _)
theorem pow_le_max_r (N a b : Nat) (hN : 0 < N) : N ^ b ≤ N ^ max a b := Nat.pow_le_pow_right hN (Nat.le_max_right _ _)

/-- **polynomial bound on the backtracking search** -/
theorem polyOK_cost_le (r : Re) : polyOK r = true → ∀ s, cost r s ≤ (ccoef r).1 * (s.length + 1) ^ (ccoef r).2 := by
  induction r with
  | chars n rs => intro _ s; simp [cost, ccoef]
  | eps => intro _ s; simp [cost, ccoef]
  | eos => intro _ s; simp [cost, ccoef]
  | unsupported => intro _ s; simp [cost, ccoef]
  | nla a iha =>
    intro h s
    simp only [polyOK] at h
    simp only [cost, ccoef]
    have hA := iha h s
    have h1 : 1 ≤ (s.length + 1) ^ (ccoef a).2 := one_le_pow' _ _ (by omega)
    calc 1 + cost a s ≤ (s.length + 1) ^ (ccoef a).2 + (ccoef a).1 * (s.length + 1) ^ (ccoef a).2 := by omega
      _ = (1 + (ccoef a).1) * (s.length + 1) ^ (ccoef a).2 := by rw [Nat.add_mul, Nat.one_mul]
  | alt a b iha ihb =>
    intro h s
    simp only [polyOK, Bool.and_eq_true] at h
    simp only [cost, ccoef]
    have hA := iha h.1 s
    have hB := ihb h.2 s
    have hN : 0 < s.length + 1 := by omega
    generalize hM : max (ccoef a).2 (ccoef b).2 = M
    have h1 : (s.length + 1) ^ (ccoef a).2 ≤ (s.length + 1) ^ M := by rw [← hM]; exact pow_le_max_l _ _ _ hN
    have h2 : (s.length + 1) ^ (ccoef b).2 ≤ (s.length + 1) ^ M := by rw [← hM]; exact pow_le_max_r _ _ _ hN
    have h0 : 1 ≤ (s.length + 1) ^ M := one_le_pow' _ _ hN
    calc 1 + cost a s + cost b s ≤ (s.length + 1) ^ M + (ccoef a).1 * (s.length + 1) ^ M + (ccoef b).1 * (s.length + 1) ^ M := by
          have := Nat.le_trans hA (Nat.mul_le_mul_left _ h1)
          have := Nat.le_trans hB (Nat.mul_le_mul_left _ h2)
          omega
      _ = (1 + (ccoef a).1 + (ccoef b).1) * (s.length + 1) ^ M := by rw [Nat.add_mul, Nat.add_mul, Nat.one_mul]
  | seq a b iha ihb =>
    intro h s
    simp only [polyOK, Bool.and_eq_true] at h
    simp only [cost, ccoef]
    have hA := iha h.1 s
    have hP := polyOK_paths_le a h.1 s
    have hN : 0 < s.length + 1 := by omega
    have hB : ∀ x ∈ paths a s, cost b x ≤ (ccoef b).1 * (s.length + 1) ^ (ccoef b).2 := by
      intro x hx
      have hl := suffix_length_le (paths_suffix a s x hx)
      exact Nat.le_trans (ihb h.2 x) (Nat.mul_le_mul_left _ (pow_mono_left (by omega) _))
    have hsum := sumL_map_le (paths a s) (cost b) _ hB
    generalize hM : max (ccoef a).2 ((pcoef a).2 + (ccoef b).2) = M
    have h1 : (s.length + 1) ^ (ccoef a).2 ≤ (s.length + 1) ^ M := by rw [← hM]; exact pow_le_max_l _ _ _ hN
    have h2 : (s.length + 1) ^ ((pcoef a).2 + (ccoef b).2) ≤ (s.length + 1) ^ M := by rw [← hM]; exact pow_le_max_r _ _ _ hN
    have hprod : (paths a s).length * ((ccoef b).1 * (s.length + 1) ^ (ccoef b).2) ≤
        (pcoef a).1 * (ccoef b).1 * (s.length + 1) ^ M := by
      calc _ ≤ ((pcoef a).1 * (s.length + 1) ^ (pcoef a).2) * ((ccoef b).1 * (s.length + 1) ^ (ccoef b).2) :=
            Nat.mul_le_mul_right _ hP
        _ = (pcoef a).1 * (ccoef b).1 * (s.length + 1) ^ ((pcoef a).2 + (ccoef b).2) := by
            rw [Nat.pow_add]; simp only [Nat.mul_assoc, Nat.mul_left_comm, Nat.mul_comm]
        _ ≤ (pcoef a).1 * (ccoef b).1 * (s.length + 1) ^ M := Nat.mul_le_mul_left _ h2
    calc cost a s + sumL ((paths a s).map (cost b))
        ≤ (ccoef a).1 * (s.length + 1) ^ M + (pcoef a).1 * (ccoef b).1 * (s.length + 1) ^ M := by
          have := Nat.le_trans hA (Nat.mul_le_mul_left _ h1)
          omega
      _ = ((ccoef a).1 + (pcoef a).1 * (ccoef b).1) * (s.length + 1) ^ M := by rw [Nat.add_mul]
  | rep a mn mx iha =>
    intro h s
    have hN : 0 < s.length + 1 := by omega
    cases mx with
    | some m =>
      simp only [polyOK] at h
      simp only [cost, ccoef]
      have hK : ∀ x, x <:+ s → (paths a x).length ≤ (pcoef a).1 * (s.length + 1) ^ (pcoef a).2 := by
        intro x hx
        exact Nat.le_trans (polyOK_paths_le a h x) (Nat.mul_le_mul_left _ (pow_mono_left (by have := suffix_length_le hx; omega) _))
      have hC : ∀ x, x <:+ s → cost a x ≤ (ccoef a).1 * (s.length + 1) ^ (ccoef a).2 := by
        intro x hx
        exact Nat.le_trans (iha h x) (Nat.mul_le_mul_left _ (pow_mono_left (by have := suffix_length_le hx; omega) _))
      have := iterCost_bounded (paths a) (cost a) _ _ m mn s (paths_suffix a) hK hC (s.length + 1) 0 s (List.suffix_refl _)
      simp only [Nat.sub_zero] at this
      refine Nat.le_trans this ?_
      have hp1 : 1 ≤ (s.length + 1) ^ (pcoef a).2 := one_le_pow' _ _ hN
      have hc1 : 1 ≤ (s.length + 1) ^ (ccoef a).2 := one_le_pow' _ _ hN
      have e1 : 1 + (ccoef a).1 * (s.length + 1) ^ (ccoef a).2 ≤ (1 + (ccoef a).1) * (s.length + 1) ^ (ccoef a).2 := by
        rw [Nat.add_mul, Nat.one_mul]; omega
      have e2 : (pcoef a).1 * (s.length + 1) ^ (pcoef a).2 + 1 ≤ ((pcoef a).1 + 1) * (s.length + 1) ^ (pcoef a).2 := by
        rw [Nat.add_mul, Nat.one_mul]; omega
      calc _ ≤ ((1 + (ccoef a).1) * (s.length + 1) ^ (ccoef a).2) * (((pcoef a).1 + 1) * (s.length + 1) ^ (pcoef a).2) ^ m :=
            Nat.mul_le_mul e1 (pow_mono_left e2 m)
        _ = (1 + (ccoef a).1) * ((pcoef a).1 + 1) ^ m * (s.length + 1) ^ ((ccoef a).2 + (pcoef a).2 * m) := by
            rw [Nat.mul_pow, ← Nat.pow_mul, Nat.pow_add]
            simp only [Nat.mul_assoc, Nat.mul_left_comm, Nat.mul_comm]
    | none =>
      simp only [polyOK, Bool.and_eq_true, Bool.not_eq_true'] at h
      simp only [cost, ccoef]
      have hC : ∀ x, x <:+ s → cost a x ≤ (ccoef a).1 * (s.length + 1) ^ (ccoef a).2 := by
        intro x hx
        exact Nat.le_trans (iha h.1.1 x) (Nat.mul_le_mul_left _ (pow_mono_left (by have := suffix_length_le hx; omega) _))
      have := iterCost_single (paths a) (cost a) _ mn none s (paths_suffix a) (singleB_sound a h.1.2) hC (s.length + 1) 0 s (List.suffix_refl _)
      refine Nat.le_trans this ?_
      have hc1 : 1 ≤ (s.length + 1) ^ (ccoef a).2 := one_le_pow' _ _ hN
      have e1 : 1 + (ccoef a).1 * (s.length + 1) ^ (ccoef a).2 ≤ (1 + (ccoef a).1) * (s.length + 1) ^ (ccoef a).2 := by
        rw [Nat.add_mul, Nat.one_mul]; omega
      calc (s.length + 1) * (1 + (ccoef a).1 * (s.length + 1) ^ (ccoef a).2)
          ≤ (s.length + 1) * ((1 + (ccoef a).1) * (s.length + 1) ^ (ccoef a).2) := Nat.mul_le_mul_left _ e1
        _ = (1 + (ccoef a).1) * (s.length + 1) ^ ((ccoef a).2 + 1) := by
            rw [Nat.pow_succ]; simp only [Nat.mul_assoc, Nat.mul_left_comm, Nat.mul_comm]

end Cxx
