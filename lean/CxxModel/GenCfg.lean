/-
  GenCfg.lean — the lexer configuration regenerated from `PlyLexer` and the table facts about
  it that several properties use; each is re-decided by the kernel on every run.
-/
import CxxModel.Gen.LexRules
import CxxModel.Theorems.LexTotal
import CxxModel.Theorems.LexLines
namespace Cxx

def genLexCfg : LexCfg := { rules := Gen.rules, literals := Gen.literals, ignore := Gen.ignore, keywords := Gen.keywords }

/-- no rule matches the empty string; no rule has an action outside the modelled language -/
theorem gen_rules_progress : RulesProgress genLexCfg = true := by decide +kernel

/-- every rule cannot match a newline, or counts the newlines of its match, or matches only newlines -/
theorem gen_line_count_ok : LineCountOK genLexCfg = true := by decide +kernel

end Cxx
