/-
  TokFmt.lean — model of `tokfmt.tokfmt` (the spacing table is regenerated: `Gen.wantSpacing`).
-/
import CxxModel.Types
import CxxModel.Gen.TokFmt
namespace Cxx

/-- (left, right) spacing wish of a token -/
def spacing (t : Token) : Nat × Nat :=
  if t.value = "operator" then (2, 0)
  else
    match Gen.wantSpacing.lookup t.type with
    | some lr => lr
    | none => (0, 0)

/-- the pieces `vals` of `tokfmt`; `last` = right spacing wish of the previous token -/
def tokfmtPieces : Nat → List Token → List String
  | _, [] => []
  | last, t :: ts =>
    let (l, r) := spacing t
    (if l + last ≥ 3 then [" ", t.value] else [t.value]) ++ tokfmtPieces r ts

def tokfmt (ts : List Token) : String := String.join (tokfmtPieces 0 ts)

/-- is a blank written between two adjacent tokens? -/
def blankBetween (a b : Token) : Bool := decide ((spacing b).1 + (spacing a).2 ≥ 3)

/-- exact characterisation of the output: the values in order, a single blank exactly where
    the spacing wishes of the two neighbours add up to 3 or more, nothing else -/
theorem tokfmtPieces_cons_cons (last : Nat) (a b : Token) (ts : List Token) :
    tokfmtPieces last (a :: b :: ts) =
      (if (spacing a).1 + last ≥ 3 then [" ", a.value] else [a.value]) ++
      (if blankBetween a b then [" ", b.value] else [b.value]) ++ tokfmtPieces (spacing b).2 ts := by
  simp only [tokfmtPieces, blankBetween, decide_eq_true_eq, List.append_assoc]

/-- no text is dropped or altered: without the pieces that are a lone blank, the pieces are
    exactly the token values, in order -/
theorem tokfmt_values (last : Nat) (ts : List Token) (h : ∀ t ∈ ts, t.value ≠ " ") :
    (tokfmtPieces last ts).filter (fun x => !decide (x = " ")) = ts.map (·.value) := by
  induction ts generalizing last with
  | nil => rfl
  | cons t ts ih =>
    have ht : t.value ≠ " " := h t (by simp)
    have := ih (spacing t).2 (fun x hx => h x (by simp [hx]))
    simp only [tokfmtPieces, List.map_cons]
    split <;> simp [List.filter_cons, ht, this]

/-- the token classes with spacing wish (2, 2): names, keywords, numbers, strings, characters -/
def isWide (t : Token) : Bool := spacing t == (2, 2)

/-- two adjacent wide tokens are always separated by a blank (they can never fuse) -/
theorem wide_always_separated (a b : Token) (ha : isWide a = true) (hb : isWide b = true) :
    blankBetween a b = true := by
  simp only [isWide, beq_iff_eq] at ha hb
  simp [blankBetween, ha, hb]

/-- a wide token after anything whose right wish is at least 1 is separated as well -/
theorem wide_after_spaced (a b : Token) (ha : (spacing a).2 ≥ 1) (hb : isWide b = true) :
    blankBetween a b = true := by
  simp only [isWide, beq_iff_eq] at hb
  simp [blankBetween, hb]; omega

end Cxx
