/-
  Driver.lean — JSON glue between the line protocol and the model's executable definitions.
  No logic lives here: every operation decodes its arguments, calls one model function and
  encodes the result canonically.
-/
import Lean.Data.Json
import CxxModel.Ply
import CxxModel.Gen.LexRules
open Lean

namespace Cxx.Driver

def cfg : LexCfg :=
  { rules := Gen.rules, literals := Gen.literals, ignore := Gen.ignore, keywords := Gen.keywords }

def jstr (s : Str) : Json := Json.str (strOfStr s)
def jopt (f : α → Json) : Option α → Json
  | none => Json.null
  | some a => f a
def jint (i : Int) : Json := toJson i
def jloc (l : Location) : Json := Json.arr #[jopt Json.str l.filename, jint l.lineno]

def jraw (t : RawTok) : Json := Json.arr #[Json.str t.type, jstr t.value, toJson t.lineno, toJson t.lexpos]

def jlexerr (e : LexErr) : Json :=
  Json.mkObj [("msg", Json.str e.msg), ("value", jstr e.tokValue), ("loc", jloc e.loc)]

def getStr (j : Json) (k : String) : String := (j.getObjValAs? String k).toOption.getD ""
def getOptStr (j : Json) (k : String) : Option String := (j.getObjValAs? String k).toOption
def getNat (j : Json) (k : String) : Nat := (j.getObjValAs? Nat k).toOption.getD 0

def opLex (j : Json) : Json :=
  let text := strToStr (getStr j "text")
  let st : LexState := { rest := text, filename := getOptStr j "filename" }
  let (toks, err, done) := lexAll cfg (text.length + 2) st []
  Json.mkObj [("toks", Json.arr (toks.map jraw).toArray), ("err", jopt jlexerr err), ("done", Json.bool done)]

def opRe (j : Json) : Json :=
  let text := strToStr (getStr j "text")
  let idx := getNat j "rule"
  match Gen.rules[idx]? with
  | none => Json.mkObj [("error", Json.str "no such rule")]
  | some r =>
    match rmatchK r.re text with
    | none => Json.mkObj [("m", Json.null)]
    | some rest => Json.mkObj [("m", toJson (text.length - rest.length))]

def handle (j : Json) : Json :=
  match getStr j "op" with
  | "lex" => opLex j
  | "re" => opRe j
  | "ping" => Json.mkObj [("pong", Json.bool true)]
  | op => Json.mkObj [("error", Json.str s!"unknown op {op}")]

end Cxx.Driver
