/-
  Driver.lean — JSON glue between the line protocol and the model's executable definitions.
  No logic lives here: every operation decodes its arguments, calls one model function and
  encodes the result canonically.
-/
import Lean.Data.Json
import CxxModel.Ply
import CxxModel.TokStream
import CxxModel.Parser.Decl
import CxxModel.ToJ
import CxxModel.PPFilter
import CxxModel.ReprRender
import CxxModel.TokFmt
import CxxModel.Format
import CxxModel.Gen.Schema
import CxxModel.Gen.LexRules
open Lean

namespace Cxx.Driver

def cfg : LexCfg :=
  { rules := Gen.rules, literals := Gen.literals, ignore := Gen.ignore, keywords := Gen.keywords }

def jstr (s : Str) : Json := Json.str (strOfStr s)
def jopt (f : α → Json) : Option α → Json
  | none => Json.null
  | some a => f a
def jint (i : Int) : Json := toJson i
def jloc (l : Location) : Json := Json.arr #[jopt Json.str l.filename, jint l.lineno]

def jraw (t : RawTok) : Json := Json.arr #[Json.str t.type, jstr t.value, toJson t.lineno, toJson t.lexpos]

def jlexerr (e : LexErr) : Json :=
  Json.mkObj [("msg", Json.str e.msg), ("value", jstr e.tokValue), ("loc", jloc e.loc)]

def getStr (j : Json) (k : String) : String := (j.getObjValAs? String k).toOption.getD ""
def getOptStr (j : Json) (k : String) : Option String := (j.getObjValAs? String k).toOption
def getNat (j : Json) (k : String) : Nat := (j.getObjValAs? Nat k).toOption.getD 0

def opLex (j : Json) : Json :=
  let text := strToStr (getStr j "text")
  let st : LexState := { rest := text, filename := getOptStr j "filename" }
  let (toks, err, done) := lexAll cfg (text.length + 2) st []
  Json.mkObj [("toks", Json.arr (toks.map jraw).toArray), ("err", jopt jlexerr err), ("done", Json.bool done)]

def opRe (j : Json) : Json :=
  let text := strToStr (getStr j "text")
  let idx := getNat j "rule"
  match Gen.rules[idx]? with
  | none => Json.mkObj [("error", Json.str "no such rule")]
  | some r =>
    match rmatchK r.re text with
    | none => Json.mkObj [("m", Json.null)]
    | some rest => Json.mkObj [("m", toJson (text.length - rest.length))]

def jtok (t : Tok) : Json := Json.arr #[Json.str t.type, Json.str t.value, jloc t.loc]

def jerr : Err → Json
  | .lex e => Json.mkObj [("k", "lex"), ("msg", Json.str e.msg), ("value", jstr e.tokValue), ("loc", jloc e.loc)]
  | .parse msg tok => Json.mkObj [("k", "parse"), ("msg", Json.str msg), ("tok", jopt (fun (t : CTok) => Json.arr #[Json.str t.type, Json.str t.value]) tok)]
  | .eof => Json.mkObj [("k", "eof")]
  | .py cls msg => Json.mkObj [("k", "py"), ("cls", Json.str cls), ("msg", Json.str msg)]
  | .visitor i => Json.mkObj [("k", "visitor"), ("idx", toJson i)]
  | .fuel => Json.mkObj [("k", "fuel")]
  | .unsupported w => Json.mkObj [("k", "unsupported"), ("what", Json.str w)]

def getArr (j : Json) (k : String) : Array Json :=
  match j.getObjVal? k with
  | .ok (.arr a) => a
  | _ => #[]

def jsonStrs (a : Array Json) : List String :=
  a.toList.filterMap (fun j => match j with | .str s => some s | _ => none)

/-- one token-stream operation; `got` is the list of tokens handed out so far (most recent last) -/
def streamStep (opj : Json) (b : Buf) (got : List Tok) : Except Err (Json × Buf × List Tok) :=
  let a := match opj with | .arr a => a | _ => #[]
  let name := match a[0]? with | some (.str s) => s | _ => ""
  let args := jsonStrs (a.extract 1 a.size)
  let optTok (r : Except Err (Option Tok × Buf)) : Except Err (Json × Buf × List Tok) :=
    match r with
    | .error e => .error e
    | .ok (none, b') => .ok (Json.null, b', got)
    | .ok (some t, b') => .ok (jtok t, b', got ++ [t])
  match name with
  | "token" =>
    match token cfg b with
    | .error e => .error e
    | .ok (t, b') => .ok (jtok t, b', got ++ [t])
  | "token_eof_ok" => optTok (tokenEofOk cfg b)
  | "token_newline_eof_ok" => optTok (tokenNewlineEofOk cfg b)
  | "token_if" => optTok (tokenIf cfg args b)
  | "token_if_val" => optTok (tokenIfVal cfg args b)
  | "token_if_not" => optTok (tokenIfNot cfg args b)
  | "token_peek_if" =>
    match tokenPeekIf cfg args b with
    | .error e => .error e
    | .ok (r, b') => .ok (Json.bool r, b', got)
  | "return_last" =>
    let k := (args.head?.bind String.toNat?).getD 1
    let k := min k got.length
    let back := got.drop (got.length - k)
    .ok (toJson k, returnTokens back b, got.take (got.length - k))
  | "current_location" =>
    match currentLocation b with
    | .error e => .error e
    | .ok l => .ok (jloc l, b, got)
  | "get_doxygen" =>
    match getDoxygen cfg Gen.multicommentRe b with
    | .error e => .error e
    | .ok (d, b') => .ok (jopt Json.str d, b', got)
  | "get_doxygen_after" =>
    let (d, b') := getDoxygenAfter Gen.multicommentRe b
    .ok (jopt Json.str d, b', got)
  | _ => .error (.unsupported name)

def streamRun : List Json → Buf → List Tok → List Json → (List Json × Option Err)
  | [], _, _, acc => (acc.reverse, none)
  | op :: ops, b, got, acc =>
    match streamStep op b got with
    | .error e => (acc.reverse, some e)
    | .ok (r, b', got') => streamRun ops b' got' (r :: acc)

def opStream (j : Json) : Json :=
  let text := strToStr (getStr j "text")
  let b : Buf := { tokbuf := [], lex := { rest := text, filename := getOptStr j "filename" } }
  let (outs, err) := streamRun (getArr j "ops").toList b [] []
  Json.mkObj [("outs", Json.arr outs.toArray), ("err", jopt jerr err)]

def blockName (h : BlockHdr) : String :=
  match h.kind with
  | .ns => P.joinWith "::" h.ns.names
  | .ext => h.linkage
  | .cls => (h.cls.typename.segments.getLast?.bind PQSeg.nameAttr).getD "<anon>"

def getBool (j : Json) (k : String) (dflt : Bool) : Bool := (j.getObjValAs? Bool k).toOption.getD dflt

def mkEnv (j : Json) : Env :=
  let o := (j.getObjVal? "opts").toOption.getD (Json.mkObj [])
  let skips := jsonStrs (getArr j "skip")
  { cfg := cfg, mcRe := Gen.multicommentRe,
    opts := { verbose := getBool o "verbose" false, convertVoidToZeroParams := getBool o "void" true },
    skip := fun _ h => skips.contains (blockName h),
    faultAt := (j.getObjValAs? Nat "fault").toOption }

def jresult : ParseResult → Json
  | .ok => Json.mkObj [("k", "ok")]
  | .ctorRaised e => Json.mkObj [("k", "ctor"), ("cause", jerr e)]
  | .parseError msg e => Json.mkObj [("k", "error"), ("msg", msg), ("cause", jerr e)]
  | .raw e => Json.mkObj [("k", "raw"), ("cause", jerr e)]

def opParse (j : Json) : Json :=
  let text := strToStr (getStr j "text")
  let filename := (getOptStr j "filename").getD "<str>"
  let env := mkEnv j
  let F := text.length + 16
  let D := (j.getObjValAs? Nat "depth").toOption.getD 150
  let (w, r) := runParse env filename text (P.parserProg F D)
  Json.mkObj [("events", Json.arr (w.events.map J.event).toArray), ("result", jresult r), ("anon", toJson w.anon)]

/-- `parse_string`: the parser driving a `SimpleCxxVisitor`.  If a callback of the fold
    raises at index `i`, the run is the one with `faultAt := i`. -/
def opSimple (j : Json) : Json :=
  let text := strToStr (getStr j "text")
  let filename := (getOptStr j "filename").getD "<str>"
  let env := mkEnv j
  let F := text.length + 16
  let D := (j.getObjValAs? Nat "depth").toOption.getD 150
  let (w, r) := runParse env filename text (P.parserProg F D)
  match simpleFold w.events with
  | .ok fs => Json.mkObj [("result", jresult r), ("data", match r with | .ok => J.parsedData fs | _ => Json.null)]
  | .error (i, _) =>
    let (_, r2) := runParse { env with faultAt := some i } filename text (P.parserProg F D)
    Json.mkObj [("result", jresult r2), ("data", Json.null), ("fold_fault", toJson i)]

def opPPFilter (j : Json) : Json :=
  let fname := strToStr (getStr j "fname")
  let lines := (jsonStrs (getArr j "lines")).map strToStr
  match getStr j "kind" with
  | "msvc" =>
    match msvcFilter lines with
    | some out => Json.mkObj [("out", Json.arr (out.map jstr).toArray)]
    | none => Json.mkObj [("assert", Json.bool true)]
  | kind =>
    let out := match kind with
      | "gcc" => gccFilterTop fname lines
      | _ => pcppFilter fname true lines
    Json.mkObj [("out", Json.arr (out.map jstr).toArray)]

/-- decode the harness's tagged JSON into a `PyVal` (fuel bounds the depth) -/
def toPyVal : Nat → Json → PyVal
  | 0, _ => .none
  | fuel + 1, j =>
    match j with
    | .null => .none
    | .bool b => .bool b
    | .num n => .int n.mantissa
    | .str s => .str s
    | .arr a => .list (a.toList.map (toPyVal fuel))
    | .obj _ =>
      match j.getObjValAs? String "__cls__" with
      | .ok cls =>
        let fs := (getArr j "fields").toList.map (fun p => match p with
          | .arr #[.str k, v] => (k, toPyVal fuel v)
          | _ => ("?", PyVal.none))
        .obj cls fs
      | .error _ =>
        let kvs := (getArr j "__dict__").toList.map (fun p => match p with
          | .arr #[.str k, v] => (k, toPyVal fuel v)
          | _ => ("?", PyVal.none))
        .dict kvs

def opRepr (j : Json) : Json :=
  let v := toPyVal 200 ((j.getObjVal? "value").toOption.getD Json.null)
  Json.mkObj [("repr", Json.str (nondefaultRepr Gen.schema v).render), ("conforms", Json.bool (Conforms Gen.schema v))]

def opTokFmt (j : Json) : Json :=
  let toks : List Token := (getArr j "toks").toList.map (fun p => match p with
    | .arr #[.str v, .str t] => { value := v, type := t }
    | _ => { value := "?", type := "?" })
  Json.mkObj [("s", Json.str (tokfmt toks))]

/-! decoding of the harness's dataclass JSON (`to_json`) back into model types (fuel = depth) -/

def jOptStr (j : Json) (k : String) : Option String :=
  match j.getObjVal? k with
  | .ok (.str s) => some s
  | _ => none

def jField (j : Json) (k : String) : Json := (j.getObjVal? k).toOption.getD Json.null
def jCls (j : Json) : String := getStr j "_"
def jTokens (j : Json) : List Token :=
  (getArr j "tokens").toList.map (fun t => { value := getStr t "value", type := getStr t "type" })
def jValue? (j : Json) : Option Value := match j with | .null => none | _ => some { tokens := jTokens j }

mutual
  def jToDType : Nat → Json → DType
    | 0, _ => default
    | f + 1, j =>
      match jCls j with
      | "Type" => .type (jToPQName f (jField j "typename")) (getBool j "const" false) (getBool j "volatile" false)
      | "Pointer" => .ptr (jToDType f (jField j "ptr_to")) (getBool j "const" false) (getBool j "volatile" false)
      | "Reference" => .ref (jToDType f (jField j "ref_to"))
      | "MoveReference" => .mref (jToDType f (jField j "moveref_to"))
      | "Array" => .array (jToDType f (jField j "array_of")) (jValue? (jField j "size"))
      | "FunctionType" =>
        .fn (jToDType f (jField j "return_type")) ((getArr j "parameters").toList.map (jToParam f))
          (getBool j "vararg" false) (getBool j "has_trailing_return" false) (jValue? (jField j "noexcept"))
          (jOptStr j "msvc_convention")
      | _ => default
  def jToParam : Nat → Json → Param
    | 0, _ => default
    | f + 1, j => .mk (jToDType f (jField j "type")) (jOptStr j "name") (jValue? (jField j "default")) (getBool j "param_pack" false)
  def jToPQName : Nat → Json → PQName
    | 0, _ => default
    | f + 1, j => .mk ((getArr j "segments").toList.map (jToSeg f)) (jOptStr j "classkey") (getBool j "has_typename" false)
  def jToSeg : Nat → Json → PQSeg
    | 0, _ => default
    | f + 1, j =>
      match jCls j with
      | "AnonymousName" => .anon (getNat j "id")
      | "FundamentalSpecifier" => .fund (getStr j "name")
      | "NameSpecifier" =>
        .name (getStr j "name") (match jField j "specialization" with
          | .null => none
          | sj => some (.mk ((getArr sj "args").toList.map (jToTArg f))))
      | "DecltypeSpecifier" => .decltype (jTokens j)
      | _ => .auto
  def jToTArg : Nat → Json → TemplateArg
    | 0, _ => .val { tokens := [] } false
    | f + 1, j =>
      let a := jField j "arg"
      if jCls a = "Value" then .val { tokens := jTokens a } (getBool j "param_pack" false)
      else .ty (jToDType f a) (getBool j "param_pack" false)
end

def opFormat (j : Json) : Json :=
  let tj := jField j "type"
  let name := getStr j "name"
  match getStr j "what" with
  | "param" => Json.mkObj [("format", Json.str (fmtParam (jToParam 100 tj)))]
  | "pqname" => Json.mkObj [("format", Json.str (fmtPQName (jToPQName 100 tj)))]
  | _ =>
    let t := jToDType 100 tj
    Json.mkObj [("format", Json.str (fmtType t)), ("format_decl", Json.str (fmtDecl t name))]

/-- fold of an event stream given by a parse (for the fold correspondence): the model's own
    events are folded; the harness compares with the implementation's `SimpleCxxVisitor` -/
def handle (j : Json) : Json :=
  match getStr j "op" with
  | "lex" => opLex j
  | "re" => opRe j
  | "stream" => opStream j
  | "parse" => opParse j
  | "simple" => opSimple j
  | "ppfilter" => opPPFilter j
  | "repr" => opRepr j
  | "tokfmt" => opTokFmt j
  | "format" => opFormat j
  | "ping" => Json.mkObj [("pong", Json.bool true)]
  | op => Json.mkObj [("error", Json.str s!"unknown op {op}")]

end Cxx.Driver
