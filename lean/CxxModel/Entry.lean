/-
  Entry.lean — the composition of the entry points (`simple.parse_file`, `simple.parse_string`,
  `CxxParser.__init__`): which content reaches the lexer.  File system and codecs are
  parameters (recorded assumptions); the logic is who decodes what with which encoding, and
  how often the preprocessor hook is called.
-/
import CxxModel.LexTypes
namespace Cxx

structure EntryEnv where
  /-- the file system: path ↦ bytes -/
  fs : String → Option (List Nat)
  /-- codec: encoding name ↦ bytes ↦ text (`none` = UnicodeDecodeError) -/
  decode : String → List Nat → Option Str
  /-- `options.preprocessor`, if configured: (filename, content-or-None) ↦ text -/
  preprocessor : Option (String → Option Str → Str)

inductive EntryOut where
  | content (s : Str)          -- what the lexer is given
  | ioError
  | decodeError
  deriving Repr, DecidableEq

/-- log of preprocessor calls: (filename, content passed) -/
abbrev PPLog := List (String × Option Str)

/-- `CxxParser.__init__(filename, content, visitor, options, encoding)` up to the creation of
    the token stream -/
def cxxParserInit (env : EntryEnv) (filename : String) (content : Option Str) (encoding : Option String) :
    EntryOut × PPLog :=
  let (content, log) : Option Str × PPLog :=
    match env.preprocessor with
    | some pp => (some (pp filename content), [(filename, content)])
    | none => (content, [])
  match content with
  | some c => (.content c, log)
  | none =>
    let enc := encoding.getD "utf-8-sig"
    match env.fs filename with
    | none => (.ioError, log)
    | some bytes =>
      match env.decode enc bytes with
      | none => (.decodeError, log)
      | some s => (.content s, log)

/-- `simple.parse_string(content, filename=…, options=…)` -/
def parseStringEntry (env : EntryEnv) (filename : String) (content : Str) : EntryOut × PPLog :=
  cxxParserInit env filename (some content) none

/-- `simple.parse_file(filename, encoding, options=…)` for a path other than `-`
    (`encoding` is forwarded: `Gen`-independent, follows the source after the fix commit) -/
def parseFileEntry (env : EntryEnv) (filename : String) (encoding : Option String) : EntryOut × PPLog :=
  cxxParserInit env filename none (some (encoding.getD "utf-8-sig"))

end Cxx
