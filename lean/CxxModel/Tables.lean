/-
  Tables.lean — obligations decided on the tables regenerated from /repo (Gen/*): if the
  source changes a regex, a token set, a dispatch entry or a slicing site, these are
  re-judged by the kernel on the next run.
-/
import CxxModel.Gen.LexRules
import CxxModel.Gen.StreamSets
import CxxModel.Gen.ParserTables
import CxxModel.Gen.TokFmt
import CxxModel.Gen.Uses
namespace Cxx

def Re.supported : Re → Bool
  | .chars _ _ => true
  | .eps => true
  | .seq a b => a.supported && b.supported
  | .alt a b => a.supported && b.supported
  | .rep a _ _ => a.supported
  | .nla a => a.supported
  | .eos => true
  | .unsupported => false

def Action.known : Action → Bool
  | .opaque => false
  | _ => true

/-- every lexer rule is inside the modelled regex fragment and its action was recognised -/
theorem rules_supported : Gen.rules.all (fun r => r.re.supported && r.action.known) = true := by
  decide +kernel

/-- the helper functions of `PlyLexer` the model relies on have their expected bodies -/
theorem lexer_helpers_standard :
    Gen.tErrorStandard = true ∧ Gen.errorFnStandard = true ∧ Gen.currentLocationStandard = true ∧
    Gen.reflagsVerboseOnly = true := by decide

/-- the discard sets of `TokenStream` are exactly the layout token types -/
theorem discard_sets_are_layout :
    Gen.discardTypes = ["COMMENT_MULTILINE", "COMMENT_SINGLELINE", "NEWLINE", "WHITESPACE"] ∧
    Gen.discardTypesExceptNewline = ["COMMENT_MULTILINE", "COMMENT_SINGLELINE", "WHITESPACE"] := by decide

/-- closers of `_balanced_token_map` and `_end_balanced_tokens` agree -/
theorem balanced_tables_consistent :
    (Gen.balancedTokenMap.all (fun p => Gen.endBalancedTokens.contains p.2)) = true ∧
    (Gen.endBalancedTokens.all (fun c => Gen.balancedTokenMap.any (fun p => p.2 = c))) = true ∧
    Gen.balancedTokenMap = [("(", ")"), ("<", ">"), ("DBL_LBRACKET", "DBL_RBRACKET"), ("[", "]"), ("{", "}")] := by
  decide

/-- the dispatch table of `parse()` -/
theorem dispatch_table_eq :
    Gen.dispatchTable =
      [("__attribute__", "_consume_gcc_attribute"), ("__declspec", "_consume_declspec"),
       ("alignas", "_consume_attribute_specifier_seq"), ("extern", "_parse_extern"),
       ("friend", "_parse_friend_decl"), ("inline", "_parse_inline"), ("namespace", "_parse_namespace"),
       ("private", "_process_access_specifier"), ("protected", "_process_access_specifier"),
       ("public", "_process_access_specifier"), ("static_assert", "_consume_static_assert"),
       ("template", "_parse_template"), ("typedef", "_parse_typedef"), ("using", "_parse_using"),
       ("{", "_on_empty_block_start"), ("}", "_on_block_end"),
       ("DBL_LBRACKET", "_consume_attribute_specifier_seq"),
       ("INCLUDE_DIRECTIVE", "_process_include_directive"), ("PRAGMA_DIRECTIVE", "_process_pragma_directive"),
       (";", "<lambda:Constant(None)>")] := by decide

/-- the main loop keeps a pending doc comment only across attribute-like items -/
theorem keep_doxygen_eq : Gen.keepDoxygen = ["DBL_LBRACKET", "__attribute__", "__declspec", "alignas"] := by decide

/-- every value whose delimiters are documented as omitted is stored with `[1:-1]` applied -/
theorem value_sites_conform :
    Gen.fnThrowSliced = true ∧ Gen.fnNoexceptSliced = true ∧ Gen.methodThrowSliced = true ∧
    Gen.methodNoexceptSliced = true ∧ Gen.decltypeSliced = true ∧ Gen.arraySizeSliced = true := by decide

end Cxx
