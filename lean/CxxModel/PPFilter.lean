/-
  PPFilter.lean — model of the preprocessor output filters of `preprocessor.py`
  (`_gcc_filter`, `_pcpp_filter`, `_msvc_filter`) as functions over lists of lines, and
  their specification: the output is exactly the marker-delimited segments that belong to
  the main file.

  A line is a `Str` (code points) that includes its trailing newline when it has one.
-/
import CxxModel.Regex
namespace Cxx

def isPrefix (pre s : Str) : Bool := pre.isPrefixOf s

def findIdxFrom (c : Nat) : Str → Nat → Option Nat
  | [], _ => none
  | x :: xs, i => if x = c then some i else findIdxFrom c xs (i + 1)

/-- `line.find('"')` -/
def findQuote (s : Str) : Option Nat := findIdxFrom 34 s 0

/-- `line.rfind('"')` -/
def rfindQuote (s : Str) : Option Nat :=
  match findIdxFrom 34 s.reverse 0 with
  | none => none
  | some i => some (s.length - 1 - i)

/-- `line[a:b]` -/
def slice (s : Str) (a b : Nat) : Str := (s.take b).drop a

/-- does a gcc line marker (`# N "file" flags`) name `fname`?  `none`: not a marker that
    changes the current file (no quote) -/
def gccMarkerKeep (fname : Str) (line : Str) : Option Bool :=
  if isPrefix [35, 32] line then
    match rfindQuote line with
    | none => none
    | some lastQ =>
      let firstQ := (findQuote line).getD 0
      some (slice line (firstQ + 1) lastQ == fname)
  else none

/-- `_gcc_filter(fname, fp)` after `fname.replace("\\", "\\\\")` has been applied by the caller -/
def gccFilter (fname : Str) : Bool → List Str → List Str
  | _, [] => []
  | keep, line :: rest =>
    let keep' := (gccMarkerKeep fname line).getD keep
    if keep' then line :: gccFilter fname keep' rest else gccFilter fname keep' rest

/-- `fname.replace("\\", "\\\\")`: gcc writes a backslash of a file name as two in its line markers -/
def escBackslash : Str → Str
  | [] => []
  | c :: cs => if c = 92 then 92 :: 92 :: escBackslash cs else c :: escBackslash cs

/-- the whole of `_gcc_filter(fname, fp)` -/
def gccFilterTop (fname : Str) (lines : List Str) : List Str := gccFilter (escBackslash fname) true lines

/-- escaping never identifies two different file names -/
theorem escBackslash_injective : ∀ (a b : Str), escBackslash a = escBackslash b → a = b := by
  intro a
  induction a with
  | nil =>
    intro b h
    cases b with
    | nil => rfl
    | cons d ds =>
      simp only [escBackslash] at h
      split at h <;> simp at h
  | cons c cs ih =>
    intro b h
    cases b with
    | nil =>
      simp only [escBackslash] at h
      split at h <;> simp at h
    | cons d ds =>
      simp only [escBackslash] at h
      by_cases hc : c = 92 <;> by_cases hd : d = 92
      · simp only [hc, hd, ↓reduceIte, List.cons.injEq, true_and] at h
        rw [hc, hd, ih ds h]
      · simp only [hc, hd, ↓reduceIte, List.cons.injEq] at h
        exact absurd h.1.symm (by simpa using hd)
      · simp only [hc, hd, ↓reduceIte, List.cons.injEq] at h
        exact (h.1).elim
      · simp only [hc, hd, ↓reduceIte, List.cons.injEq] at h
        rw [h.1, ih ds h.2]

/-- `#line N "file"\n`: the text from the first quote on must be `"fname"\n` -/
def pcppMarkerKeep (fname : Str) (line : Str) : Option Bool :=
  if isPrefix [35, 108, 105, 110, 101] line then
    let start : Nat := match findQuote line with
      | some i => i
      | none => line.length - 1      -- Python: line[-1:]
    some (line.drop start == [34] ++ fname ++ [34, 10])
  else none

/-- `_pcpp_filter(fname, fp, deps=None)` -/
def pcppFilter (fname : Str) : Bool → List Str → List Str
  | _, [] => []
  | keep, line :: rest =>
    let keep' := (pcppMarkerKeep fname line).getD keep
    if keep' then line :: pcppFilter fname keep' rest else pcppFilter fname keep' rest

/-! ### specification: marker-delimited segments -/

/-- generic filter driven by a marker classifier -/
def segFilter (mark : Str → Option Bool) : Bool → List Str → List Str
  | _, [] => []
  | keep, line :: rest =>
    let keep' := (mark line).getD keep
    if keep' then line :: segFilter mark keep' rest else segFilter mark keep' rest

theorem gccFilter_eq_seg (fname : Str) (keep : Bool) (ls : List Str) :
    gccFilter fname keep ls = segFilter (gccMarkerKeep fname) keep ls := by
  induction ls generalizing keep with
  | nil => rfl
  | cons l ls ih => simp only [gccFilter, segFilter, ih]

theorem pcppFilter_eq_seg (fname : Str) (keep : Bool) (ls : List Str) :
    pcppFilter fname keep ls = segFilter (pcppMarkerKeep fname) keep ls := by
  induction ls generalizing keep with
  | nil => rfl
  | cons l ls ih => simp only [pcppFilter, segFilter, ih]

/-- a segment: a marker line (classified `some b`) followed by content lines (classified `none`) -/
structure Segment where
  marker : Str
  body : List Str

def Segment.lines (s : Segment) : List Str := s.marker :: s.body

/-- **filter specification**: on marker-segmented output the filter keeps exactly the
    segments whose marker names the main file, whole and in order -/
theorem segFilter_spec (mark : Str → Option Bool) (segs : List Segment)
    (hm : ∀ s ∈ segs, (mark s.marker).isSome)
    (hb : ∀ s ∈ segs, ∀ l ∈ s.body, mark l = none) (keep0 : Bool) :
    segFilter mark keep0 (segs.flatMap Segment.lines) =
      (segs.filter (fun s => mark s.marker = some true)).flatMap Segment.lines := by
  induction segs generalizing keep0 with
  | nil => rfl
  | cons s rest ih =>
    have hms := hm s (by simp)
    have hbs := hb s (by simp)
    have body_lemma : ∀ (k : Bool) (body : List Str) (tail : List Str), (∀ l ∈ body, mark l = none) →
        segFilter mark k (body ++ tail) = (if k then body else []) ++ segFilter mark k tail := by
      intro k body tail hbody
      induction body with
      | nil => cases k <;> rfl
      | cons l ls ihb =>
        have hl : mark l = none := hbody l (by simp)
        have := ihb (fun x hx => hbody x (by simp [hx]))
        cases k <;> simp [segFilter, hl, this]
    cases hmk : mark s.marker with
    | none => simp [hmk] at hms
    | some b =>
      have ihr := ih (fun x hx => hm x (by simp [hx])) (fun x hx => hb x (by simp [hx])) b
      simp only [List.flatMap_cons, Segment.lines, List.cons_append, segFilter, hmk, Option.getD_some]
      rw [body_lemma b s.body _ hbs, ihr]
      cases b <;> simp [List.filter_cons, hmk, Segment.lines]

theorem findIdxFrom_append_notin (q : Nat) (a b : Str) (i : Nat) (h : ∀ c ∈ a, c ≠ q) :
    findIdxFrom q (a ++ b) i = findIdxFrom q b (i + a.length) := by
  induction a generalizing i with
  | nil => simp
  | cons x xs ih =>
    have hx : x ≠ q := h x (by simp)
    simp only [List.cons_append, findIdxFrom, hx, ↓reduceIte, List.length_cons]
    rw [ih (i + 1) (fun c hc => h c (by simp [hc]))]
    congr 1; omega

theorem findIdxFrom_hit (q : Nat) (b : Str) (i : Nat) : findIdxFrom q (q :: b) i = some i := by
  simp [findIdxFrom]

/-- the gcc classifier decides by *equality* with the main file's name: for a marker
    `<pre>"<file>"<flags>` whose only quotes are the two around the file name -/
theorem gccMarkerKeep_exact (fname file pre flags : Str)
    (hp : isPrefix [35, 32] pre = true)
    (hq : ∀ c ∈ file, c ≠ 34) (hn : ∀ c ∈ pre, c ≠ 34) (hf : ∀ c ∈ flags, c ≠ 34) :
    gccMarkerKeep fname (pre ++ [34] ++ file ++ [34] ++ flags) = some (file == fname) := by
  have hpre : isPrefix [35, 32] (pre ++ [34] ++ file ++ [34] ++ flags) = true := by
    simp only [isPrefix] at hp ⊢
    simp only [List.append_assoc]
    exact List.isPrefixOf_iff_prefix.mpr ((List.isPrefixOf_iff_prefix.mp hp).trans (List.prefix_append _ _))
  have hfirst : findQuote (pre ++ [34] ++ file ++ [34] ++ flags) = some pre.length := by
    simp only [findQuote, List.append_assoc]
    rw [findIdxFrom_append_notin 34 pre _ 0 hn]
    simp [findIdxFrom]
  have hlast : rfindQuote (pre ++ [34] ++ file ++ [34] ++ flags) = some (pre.length + 1 + file.length) := by
    simp only [rfindQuote, List.reverse_append, List.reverse_cons, List.reverse_nil, List.nil_append, List.append_assoc]
    rw [findIdxFrom_append_notin 34 flags.reverse _ 0 (by intro c hc; exact hf c (by simpa using hc))]
    simp only [List.singleton_append, findIdxFrom_hit]
    simp only [List.length_append, List.length_cons, List.length_nil, List.length_reverse]
    congr 1; omega
  simp only [gccMarkerKeep, hpre, ↓reduceIte, hlast, hfirst, Option.getD_some]
  congr 1
  have : slice (pre ++ [34] ++ file ++ [34] ++ flags) (pre.length + 1) (pre.length + 1 + file.length) = file := by
    simp only [slice, List.append_assoc]
    have e1 : pre ++ ([34] ++ (file ++ ([34] ++ flags))) = (pre ++ [34] ++ file) ++ ([34] ++ flags) := by simp
    rw [e1, List.take_append_of_le_length (by simp; omega)]
    rw [List.take_of_length_le (by simp; omega)]
    have e2 : pre ++ [34] ++ file = (pre ++ [34]) ++ file := by simp
    rw [e2, List.drop_append_of_le_length (by simp)]
    simp
  rw [this]

end Cxx

namespace Cxx

/-- the pcpp classifier decides by equality as well -/
theorem pcppMarkerKeep_exact (fname file pre : Str)
    (hp : isPrefix [35, 108, 105, 110, 101] pre = true) (hn : ∀ c ∈ pre, c ≠ 34) :
    pcppMarkerKeep fname (pre ++ [34] ++ file ++ [34, 10]) = some (file == fname) := by
  have hpre : isPrefix [35, 108, 105, 110, 101] (pre ++ [34] ++ file ++ [34, 10]) = true := by
    simp only [isPrefix] at hp ⊢
    simp only [List.append_assoc]
    exact List.isPrefixOf_iff_prefix.mpr ((List.isPrefixOf_iff_prefix.mp hp).trans (List.prefix_append _ _))
  have hfirst : findQuote (pre ++ [34] ++ file ++ [34, 10]) = some pre.length := by
    simp only [findQuote, List.append_assoc]
    rw [findIdxFrom_append_notin 34 pre _ 0 hn]
    simp [findIdxFrom]
  simp only [pcppMarkerKeep, hpre, ↓reduceIte, hfirst]
  congr 1
  have : (pre ++ [34] ++ file ++ [34, 10]).drop pre.length = [34] ++ file ++ [34, 10] := by
    simp only [List.append_assoc]
    rw [List.drop_append_of_le_length (Nat.le_refl _)]
    simp
  rw [this]
  by_cases h : file = fname
  · subst h; simp
  · have hne : ¬ (file ++ [34, 10] = fname ++ [34, 10]) := fun hh => h (List.append_cancel_right hh)
    have e1 : (file == fname) = false := by simpa using h
    have e2 : ([34] ++ file ++ [34, 10] == [34] ++ fname ++ [34, 10]) = false := by
      simp only [List.append_assoc, List.cons_append, List.nil_append]
      simpa using hne
    rw [e1, e2]


/-! ### `_msvc_filter`: the main file is the one named by the first `#line` line -/

def isSuffix (suf s : Str) : Bool := suf.reverse.isPrefixOf s.reverse

/-- `first[first.find('"'):]` (Python: `find` returning -1 gives the last character) -/
def msvcFname (first : Str) : Str :=
  match findQuote first with
  | some i => first.drop i
  | none => first.drop (first.length - 1)

def msvcMarkerKeep (fname : Str) (line : Str) : Option Bool :=
  if isPrefix [35, 108, 105, 110, 101] line then some (isSuffix fname line) else none

/-- `_msvc_filter(fp)`: `none` when the `assert first.startswith("#line")` fails -/
def msvcFilter (ls : List Str) : Option (List Str) :=
  let first := ls.headD []
  if isPrefix [35, 108, 105, 110, 101] first then
    some (segFilter (msvcMarkerKeep (msvcFname first)) true (ls.drop 1))
  else none

theorem isSuffix_append (a b : Str) : isSuffix b (a ++ b) = true := by
  simp [isSuffix, List.reverse_append]

theorem isPrefixOf_same_length {a b : Str} (hl : a.length = b.length) (h : a.isPrefixOf b = true) : a = b := by
  induction a generalizing b with
  | nil => cases b <;> simp_all
  | cons x xs ih =>
    cases b with
    | nil => simp at hl
    | cons y ys =>
      simp only [List.isPrefixOf, Bool.and_eq_true, beq_iff_eq] at h
      simp only [List.length_cons, Nat.add_right_cancel_iff] at hl
      rw [h.1, ih hl h.2]

theorem isPrefixOf_append_right : ∀ (a b c : Str), isPrefix a b = true → isPrefix a (b ++ c) = true := by
  intro a
  induction a with
  | nil => intro b c _; simp [isPrefix]
  | cons x xs ih =>
    intro b c h
    cases b with
    | nil => simp [isPrefix] at h
    | cons y ys =>
      simp only [isPrefix, List.isPrefixOf, Bool.and_eq_true, beq_iff_eq, List.cons_append] at h ⊢
      exact ⟨h.1, ih ys c h.2⟩

/-- a `#line N "file"` line is kept exactly when `file` is the main file: with quote-free
    file names the suffix test of `_msvc_filter` is an equality test, because the compared
    text starts at the opening quote -/
theorem msvcMarkerKeep_exact (main file pre : Str) (hm : ∀ c ∈ main, c ≠ 34) (hf : ∀ c ∈ file, c ≠ 34)
    (hp : ∀ c ∈ pre, c ≠ 34) (hpre : isPrefix [35, 108, 105, 110, 101] pre = true) :
    msvcMarkerKeep ([34] ++ main ++ [34, 10]) (pre ++ [34] ++ file ++ [34, 10]) = some (decide (file = main)) := by
  have hline : isPrefix [35, 108, 105, 110, 101] (pre ++ [34] ++ file ++ [34, 10]) = true := by
    have : pre ++ [34] ++ file ++ [34, 10] = pre ++ ([34] ++ file ++ [34, 10]) := by simp
    rw [this]
    exact isPrefixOf_append_right _ _ _ hpre
  simp only [msvcMarkerKeep, hline, ↓reduceIte, Option.some.injEq]
  by_cases hfm : file = main
  · subst hfm
    have : pre ++ [34] ++ file ++ [34, 10] = pre ++ ([34] ++ file ++ [34, 10]) := by simp
    rw [this, isSuffix_append]; simp
  · simp only [hfm, decide_false]
    -- compare the reversed texts: both start `\n " rev(name) "`
    cases hs : isSuffix ([34] ++ main ++ [34, 10]) (pre ++ [34] ++ file ++ [34, 10]) with
    | false => rfl
    | true =>
      exfalso
      simp only [isSuffix, List.reverse_append, List.reverse_cons, List.reverse_nil, List.nil_append,
        List.cons_append, List.append_assoc, List.isPrefixOf, Bool.and_eq_true, beq_iff_eq, true_and] at hs
      -- hs : main.reverse ++ [34] is a prefix of file.reverse ++ 34 :: pre.reverse
      have key : ∀ (a b : Str) (tail : Str), (∀ c ∈ a, c ≠ 34) → (∀ c ∈ b, c ≠ 34) →
          (a ++ [34]).isPrefixOf (b ++ 34 :: tail) = true → a = b := by
        intro a
        induction a with
        | nil =>
          intro b tail _ hb h
          cases b with
          | nil => rfl
          | cons y ys =>
            simp only [List.nil_append, List.cons_append, List.isPrefixOf, Bool.and_eq_true, beq_iff_eq] at h
            exact absurd h.1.symm (hb y (by simp))
        | cons x xs ih =>
          intro b tail ha hb h
          cases b with
          | nil =>
            simp only [List.cons_append, List.nil_append, List.isPrefixOf, Bool.and_eq_true, beq_iff_eq] at h
            exact absurd h.1 (ha x (by simp))
          | cons y ys =>
            simp only [List.cons_append, List.isPrefixOf, Bool.and_eq_true, beq_iff_eq] at h
            rw [h.1, ih ys tail (fun c hc => ha c (by simp [hc])) (fun c hc => hb c (by simp [hc])) h.2]
      have := key main.reverse file.reverse pre.reverse (by simpa using hm) (by simpa using hf) (by simpa using hs)
      have h2 := congrArg List.reverse this
      simp only [List.reverse_reverse] at h2
      exact hfm h2.symm

end Cxx
