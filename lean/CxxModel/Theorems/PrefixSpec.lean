/-
  Theorems/PrefixSpec.lean — declarator prefixes as an abstract interface (C02).

  `PrefixSpec env F D pt pre d1`: wherever the stream reads tokens with the types and texts `pre` and then a
  token that ends a prefix (a name, `;`, …), `_parse_cv_ptr_or_fn` on the base type `pt` returns `d1`, changes nothing else, and leaves a copy of
  the name next.  It is quantified over token COPIES (types and texts), because a look-ahead pushes back an
  equal token, not the same one.  Instances: pointer chains (`prefixSpec_ptr`), pointer chains ending in `&`
  or `&&` (`prefixSpec_ref`).  `parseDecl_prefix`, `declarator_variable_pre`, `declarator_field_pre`: the
  declarator theorems of VarDecl.lean over ANY prefix.
-/
import CxxModel.Theorems.VarDecl
import CxxModel.Theorems.RefChain
namespace Cxx
open P

/-- types and texts of a token list -/
def tvs (l : List Tok) : List (String × String) := l.map (fun t => (t.type, t.value))

/-- **a declarator prefix** -/
def PrefixSpec (env : Env) (F D : Nat) (pt : DType) (pre : List (String × String)) (d1 : DType) : Prop :=
  ∀ (w : World) (ops : List Tok) (bmid bx : Buf) (x : Tok), tvs ops = pre → Yields env.cfg w.buf ops bmid →
    tokenEofOk env.cfg bmid = .ok (some x, bx) → endsPtrPrefix x.type = true →
    ∃ (w1 : World) (t1 : Tok), interp env (parseCvPtrOrFnStep F (core F D) pt false) w = (w1, .ok d1) ∧ SameParse w w1 ∧
      tokenEofOk env.cfg w1.buf = .ok (some t1, bx) ∧ t1.type = x.type ∧ t1.value = x.value

theorem tvs_types (l : List Tok) : (tvs l).map (·.1) = l.map (·.type) := by
  unfold tvs; simp [List.map_map, Function.comp_def]

theorem tvs_length (l : List Tok) : (tvs l).length = l.length := by unfold tvs; simp

/-- pointer chains: any sequence of `*`, `const`, `volatile` that denotes `d1` over `pt` -/
theorem prefixSpec_ptr (env : Env) (F D : Nat) (pt d1 : DType) (pre : List (String × String))
    (ha : applyPtrOps pt (pre.map (·.1)) = some d1) (hF : pre.length + 1 ≤ F) : PrefixSpec env F D pt pre d1 := by
  intro w ops bmid bx x hops hy htx hx
  obtain ⟨w1, t1, hi1, hb1, htv1, hs1⟩ := cvPtr_chain env (core F D) false ops pt d1 F w bmid bx x hy
    (by rw [← tvs_types, hops]; exact ha) htx hx (by rw [← tvs_length, hops]; exact hF)
  have hty1 : t1.type = x.type := congrArg Prod.fst htv1
  have hv1 : t1.value = x.value := congrArg Prod.snd htv1
  exact ⟨w1, t1, hi1, hs1, by rw [hb1]; exact tokenEofOk_returnToken env.cfg t1 bx (by rw [hty1]; exact tokenEofOk_not_discard htx), hty1, hv1⟩

/-- pointer chains ending in `&` or `&&`: the lvalue / rvalue reference to what the chain denotes -/
theorem prefixSpec_ref (env : Env) (F D : Nat) (pt d1 : DType) (chain : List (String × String)) (amp : String × String)
    (ha : applyPtrOps pt (chain.map (·.1)) = some d1) (hnr : isRefLike d1 = false) (hamp : amp.1 = "&" ∨ amp.1 = "DBL_AMP")
    (hF : chain.length + 1 ≤ F) : PrefixSpec env F D pt (chain ++ [amp]) (refOf amp.1 d1) := by
  intro w ops bmid bx x hops hy htx hx
  obtain ⟨cops, a, rfl, hc, hav⟩ : ∃ cops a, ops = cops ++ [a] ∧ tvs cops = chain ∧ (a.type, a.value) = amp := by
    rcases List.eq_nil_or_concat ops with rfl | ⟨cops, a, rfl⟩
    · simp [tvs] at hops
    · refine ⟨cops, a, by simp, ?_, ?_⟩
      · have := congrArg List.dropLast hops
        simpa [tvs] using this
      · have := congrArg List.getLast? hops
        simpa [tvs] using this
  obtain ⟨bc, hy1, hy2⟩ := Yields.split hy
  have hta := Yields.single_inv hy2
  have hat : a.type = amp.1 := by rw [← hav]
  obtain ⟨w1, t1, hi1, hs1, ht1, hty1, hv1⟩ := cvPtr_chain_ref env (core F D) false cops pt d1 F w bc bmid bx a x hy1
    (by rw [← tvs_types, hc]; exact ha) hnr hta (by rw [hat]; exact hamp) htx (by intro h; rw [h] at hx; exact absurd hx (by decide)) (by rw [← tvs_length, hc]; exact hF)
  exact ⟨w1, t1, by rw [hi1, hat], hs1, ht1, hty1, hv1⟩

theorem refOf_notFn (a : String) (d : DType) : isFnType (refOf a d) = false := by
  unfold refOf; split <;> rfl

/-- **the declarator `ptr-ops x`** after the type: `_parse_decl` ends in `_parse_field` with the
    type the pointer chain denotes and the name `x` -/
theorem parseDecl_prefix (env : Env) (F D : Nat) (pt : DType) (mods : Mods) (location : LocRef) (doxygen : Option String) (isTypedef : Bool)
    (pre : List (String × String)) (ops : List Tok) (x tm : Tok) (d1 : DType) (w : World) (bmid bx b' : Buf)
    (blk : Block) (rest : List Block) (hstack : w.stack = blk :: rest)
    (hspec : PrefixSpec env F D pt pre d1) (hfn : isFnType d1 = false)
    (hy : Yields env.cfg w.buf ops bmid) (hops : tvs ops = pre)
    (htx : tokenEofOk env.cfg bmid = .ok (some x, bx)) (hx : x.type = "NAME") (hxv : identVal x.value = true)
    (httm : tokenEofOk env.cfg bx = .ok (some tm, b')) (hlt : tm.type ≠ "<") (hdc : tm.type ≠ "DBL_COLON") (hpar : tm.type ≠ "(")
    (hF : 1 ≤ F) :
    ∃ (w' : World) (t' : Tok), SameButLog w w' ∧ tokenEofOk env.cfg w'.buf = .ok (some t', b') ∧
      t'.type = tm.type ∧ t'.value = tm.value ∧
      interp env (parseDecl F (core F (D + 1)) pt mods location doxygen .none isTypedef false) w =
        interp env (do
          parseField F mods d1 (some (.mk [.name x.value none] none false)) none doxygen location isTypedef
          pure false) w' := by
  simp only [identVal, Bool.and_eq_true, Bool.not_eq_true', bne_iff_ne, ne_eq] at hxv
  obtain ⟨⟨⟨hpv, hnc⟩, hms⟩, hauto⟩ := hxv
  -- the pointer chain
  obtain ⟨w1, t1, hi1, hs1, ht1, hty1, hv1⟩ := hspec w ops bmid bx x hops hy htx (by rw [hx]; decide)
  have htop1 := interp_getTop env w1 blk rest (by rw [hs1.stack]; exact hstack)
  -- `(`? the calling convention? the name
  obtain ⟨w2, t2, hi2, hs2, ht2, hty2, hv2⟩ := step_tokenIf_miss env ["("] w1 t1 bx ht1 (by rw [hty1, hx]; decide)
  obtain ⟨w3, t3, hi3, hs3, ht3, hty3, hv3⟩ := step_tokenIfP_miss env (fun t => Gen.msvcConventions.contains t.value) w2 t2 bx ht2
    (by intro c _ hcv; show Gen.msvcConventions.contains c.value = false; rw [hcv, hv2, hv1]; exact hms)
  obtain ⟨w4, c4, hi4, hb4, hs4, hty4, hv4⟩ := step_tokenIfP_hit env (fun t => Gen.pqnameStartTokens.contains t.type) w3 t3 bx ht3
    (by intro c hct _; show Gen.pqnameStartTokens.contains c.type = true; rw [hct, hty3, hty2, hty1, hx]; decide)
  have hc4v : c4.value = x.value := by rw [hv4, hv3, hv2, hv1]
  obtain ⟨w5, t5, hpq, hs5, ht5, hty5, hv5⟩ := plain_pqname env F (core F D) true false false c4 [] w4 bx b' tm
    (by rw [hty4, hty3, hty2, hty1, hx]) (by rw [hc4v]; exact hpv) (by rw [hc4v]; exact hnc) (by simp)
    (by rw [hb4]; exact .nil _) httm hlt hdc
    (by simp; omega)
  obtain ⟨w6, t6, hi6, hs6, ht6, hty6, hv6⟩ := step_tokenIf_miss env ["("] (logged env w5 "parse_pqname") t5 b'
    (by rw [logged_buf']; exact ht5) (by rw [hty5]; simp [hpar])
  refine ⟨w6, t6, (((((hs1.trans hs2).trans hs3).trans hs4).trans hs5).butLog.trans (logged_butLog env w5 _)).trans hs6.butLog,
    ht6, by rw [hty6, hty5], by rw [hv6, hv5], ?_⟩
  unfold parseDecl parseCvPtr
  simp only [bind, interp_bind, core, coreStep, hi1, hfn, Bool.false_eq_true, ↓reduceIte, pure, interp, htop1, hi2,
    Option.isSome_some, P.tokenIfVal, P.tokenIfInSet, hi3, hi4, hpq, List.map_nil, hc4v, hi6, Option.isSome_none, opTruthy]

/-- **one declarator `ptr-ops x` and the `,` / `;` after it, outside a class**, with an active
    visitor that does not raise here: exactly ONE callback `on_variable` for the innermost open
    block, carrying the name `x`, the type the chain denotes, no value, and the doc text given
    or else the trailing documentation comment -/
theorem declarator_variable_pre (env : Env) (F D : Nat) (pt : DType) (location : LocRef) (doxygen : Option String)
    (pre : List (String × String)) (ops : List Tok) (x tm : Tok) (d1 : DType) (w : World) (bmid bx b' : Buf)
    (blk : Block) (rest : List Block) (hstack : w.stack = blk :: rest) (hk : blk.hdr.kind ≠ .cls)
    (hmu : w.muted = false) (hfa : ¬ env.faultAt = some w.delivered)
    (hspec : PrefixSpec env F D pt pre d1) (hfn : isFnType d1 = false)
    (hy : Yields env.cfg w.buf ops bmid) (hops : tvs ops = pre)
    (htx : tokenEofOk env.cfg bmid = .ok (some x, bx)) (hx : x.type = "NAME") (hxv : identVal x.value = true)
    (httm : tokenEofOk env.cfg bx = .ok (some tm, b')) (htm : tm.type = ";" ∨ tm.type = ",")
    (hF : 1 ≤ F) :
    ∃ (w7 : World) (c : CTok) (dox : Option String) (ev : Event),
      interp env (declaratorBody F (core F (D + 1)) pt {} .none false false (location, doxygen)) w =
        (w7, .ok (afterDeclarator tm c)) ∧
      SigEq b' w7.buf ∧ w7.stack = { blk with loc := location } :: rest ∧
      w7.events = w.events ++ [ev] ∧ ev.kind = .item (.variable (plainVariable x d1 dox)) ∧
      ev.stateId = blk.id ∧ ev.parentId = rest.head?.map (·.id) ∧ (∀ d, doxygen = some d → dox = some d) ∧
      w7.delivered = w.delivered + 1 ∧ w7.anon = w.anon ∧ w7.muted = false ∧ w7.nextId = w.nextId ∧
      w7.mainTok = w.mainTok := by
  obtain ⟨w1, t1, hs1, ht1, hty1, hv1, hi1⟩ := parseDecl_prefix env F D pt {} location doxygen false pre ops x tm d1 w bmid bx b'
    blk rest hstack hspec hfn hy hops htx hx hxv httm
    (by rcases htm with h | h <;> (rw [h]; decide)) (by rcases htm with h | h <;> (rw [h]; decide)) (by rcases htm with h | h <;> (rw [h]; decide)) hF
  have hnm : fieldName (false || decide (blk.hdr.kind = .cls)) (.mk [.name x.value none] none false) = some none := by
    have hd : decide (blk.hdr.kind = .cls) = false := by simp [hk]
    rw [hd]; rfl
  obtain ⟨w5, t5, b5, dox, hs5, ht5, hsig5, hty5, hv5, hdox, hi5⟩ := parseField_plain env F {} d1 (.mk [.name x.value none] none false)
    none doxygen location false w1 t1 b' blk rest (by rw [hs1.stack]; exact hstack) none hnm ht1
    (by rw [hty1]; rcases htm with h | h <;> (rw [h]; decide))
  -- the callback
  have hst5 : w5.stack = { blk with loc := location } :: rest := hs5.stack
  have hmu5 : w5.muted = false := by rw [hs5.muted]; show w1.muted = _; rw [hs1.muted]; exact hmu
  have hdl5 : w5.delivered = w.delivered := by rw [hs5.delivered]; show w1.delivered = _; exact hs1.delivered
  have hev5 : w5.events = w.events := by rw [hs5.events]; show w1.events = _; exact hs1.events
  have hdel := deliver_passing env w5 (mkEvent w5 (.item (.variable (plainVariable x d1 dox)))
    { blk with loc := location } (rest.head?.map (·.id))) hmu5 (by rw [hdl5]; exact hfa)
  have htok6 : tokenEofOk env.cfg ({ w5 with events := w5.events ++ [mkEvent w5 (.item (.variable (plainVariable x d1 dox)))
      { blk with loc := location } (rest.head?.map (·.id))], delivered := w5.delivered + 1 } : World).buf = .ok (some t5, b5) := ht5
  obtain ⟨w7, c7, hi7, hb7, hs7, hty7, _⟩ := step_mustBe env [",", ";"] _ t5 b5 htok6
    (by rw [hty5, hty1]; rcases htm with h | h <;> (rw [h]; decide))
  refine ⟨w7, c7, dox, _, ?_, by rw [hb7]; exact hsig5, by rw [hs7.stack]; exact hst5, by rw [hs7.events, hev5], rfl, rfl, rfl,
    hdox, by rw [hs7.delivered, hdl5], ?_, by rw [hs7.muted]; exact hmu5, ?_, ?_⟩
  · unfold declaratorBody
    have hk' : ¬ blk.hdr.kind = .cls := hk
    have hi7' := hi7
    simp only [hst5, plainVariable] at hi7'
    simp only [bind, interp_bind, hi1, hi5, fieldEmit, Block.view, hk', decide_false, Bool.false_eq_true, ↓reduceIte, hasKey,
      List.any_nil, P.emit, interp, hst5, plainVariable] at hdel ⊢
    simp only [hdel, Bool.false_eq_true, ↓reduceIte, bind, interp_bind, pure, interp, hi7', hty7, hty5, hty1, afterDeclarator]
    rcases htm with h | h <;> simp [h, interp]
  · rw [hs7.anon]; show w5.anon = _; rw [hs5.anon]; exact hs1.anon
  · rw [hs7.nextId]; show w5.nextId = _; rw [hs5.nextId]; exact hs1.nextId
  · rw [hs7.mainTok]; show w5.mainTok = _; rw [hs5.mainTok]; exact hs1.mainTok


/-- **one declarator `ptr-ops x` and the `,` / `;` after it, in a class body**, with an active
    visitor that does not raise here: exactly ONE callback `on_class_field` for the innermost open
    class, carrying the name `x`, the type the chain denotes, the access level in force in THAT
    class, no bit width, no value, and the doc text given or else the trailing documentation
    comment -/
theorem declarator_field_pre (env : Env) (F D : Nat) (pt : DType) (location : LocRef) (doxygen : Option String)
    (pre : List (String × String)) (ops : List Tok) (x tm : Tok) (d1 : DType) (w : World) (bmid bx b' : Buf)
    (blk : Block) (rest : List Block) (hstack : w.stack = blk :: rest) (hk : blk.hdr.kind = .cls) (acc : String) (hacc : blk.access = some acc)
    (hmu : w.muted = false) (hfa : ¬ env.faultAt = some w.delivered)
    (hspec : PrefixSpec env F D pt pre d1) (hfn : isFnType d1 = false)
    (hy : Yields env.cfg w.buf ops bmid) (hops : tvs ops = pre)
    (htx : tokenEofOk env.cfg bmid = .ok (some x, bx)) (hx : x.type = "NAME") (hxv : identVal x.value = true)
    (httm : tokenEofOk env.cfg bx = .ok (some tm, b')) (htm : tm.type = ";" ∨ tm.type = ",")
    (hF : 1 ≤ F) :
    ∃ (w7 : World) (c : CTok) (dox : Option String) (ev : Event),
      interp env (declaratorBody F (core F (D + 1)) pt {} .none false false (location, doxygen)) w =
        (w7, .ok (afterDeclarator tm c)) ∧
      SigEq b' w7.buf ∧ w7.stack = { blk with loc := location } :: rest ∧
      w7.events = w.events ++ [ev] ∧ ev.kind = .item (.classField (plainField x d1 acc dox)) ∧
      ev.stateId = blk.id ∧ ev.parentId = rest.head?.map (·.id) ∧ (∀ d, doxygen = some d → dox = some d) ∧
      w7.delivered = w.delivered + 1 ∧ w7.anon = w.anon ∧ w7.muted = false ∧ w7.nextId = w.nextId ∧
      w7.mainTok = w.mainTok := by
  obtain ⟨w1, t1, hs1, ht1, hty1, hv1, hi1⟩ := parseDecl_prefix env F D pt {} location doxygen false pre ops x tm d1 w bmid bx b'
    blk rest hstack hspec hfn hy hops htx hx hxv httm
    (by rcases htm with h | h <;> (rw [h]; decide)) (by rcases htm with h | h <;> (rw [h]; decide)) (by rcases htm with h | h <;> (rw [h]; decide)) hF
  have hnm : fieldName (false || decide (blk.hdr.kind = .cls)) (.mk [.name x.value none] none false) = some (some x.value) := by
    have hd : decide (blk.hdr.kind = .cls) = true := by simp [hk]
    rw [hd]; rfl
  obtain ⟨w5, t5, b5, dox, hs5, ht5, hsig5, hty5, hv5, hdox, hi5⟩ := parseField_plain env F {} d1 (.mk [.name x.value none] none false)
    none doxygen location false w1 t1 b' blk rest (by rw [hs1.stack]; exact hstack) (some x.value) hnm ht1
    (by rw [hty1]; rcases htm with h | h <;> (rw [h]; decide))
  -- the callback
  have hst5 : w5.stack = { blk with loc := location } :: rest := hs5.stack
  have hmu5 : w5.muted = false := by rw [hs5.muted]; show w1.muted = _; rw [hs1.muted]; exact hmu
  have hdl5 : w5.delivered = w.delivered := by rw [hs5.delivered]; show w1.delivered = _; exact hs1.delivered
  have hev5 : w5.events = w.events := by rw [hs5.events]; show w1.events = _; exact hs1.events
  have hdel := deliver_passing env w5 (mkEvent w5 (.item (.classField (plainField x d1 acc dox)))
    { blk with loc := location } (rest.head?.map (·.id))) hmu5 (by rw [hdl5]; exact hfa)
  have htok6 : tokenEofOk env.cfg ({ w5 with events := w5.events ++ [mkEvent w5 (.item (.classField (plainField x d1 acc dox)))
      { blk with loc := location } (rest.head?.map (·.id))], delivered := w5.delivered + 1 } : World).buf = .ok (some t5, b5) := ht5
  obtain ⟨w7, c7, hi7, hb7, hs7, hty7, _⟩ := step_mustBe env [",", ";"] _ t5 b5 htok6
    (by rw [hty5, hty1]; rcases htm with h | h <;> (rw [h]; decide))
  refine ⟨w7, c7, dox, _, ?_, by rw [hb7]; exact hsig5, by rw [hs7.stack]; exact hst5, by rw [hs7.events, hev5], rfl, rfl, rfl,
    hdox, by rw [hs7.delivered, hdl5], ?_, by rw [hs7.muted]; exact hmu5, ?_, ?_⟩
  · unfold declaratorBody
    have hi7' := hi7
    simp only [hst5, plainField, hacc] at hi7'
    simp only [bind, interp_bind, hi1, hi5, fieldEmit, Block.view, hk, hacc, decide_true, Bool.false_eq_true, ↓reduceIte, hasKey,
      List.any_nil, P.emit, interp, hst5, plainField] at hdel ⊢
    simp only [hdel, Bool.false_eq_true, ↓reduceIte, bind, interp_bind, pure, interp, hi7', hty7, hty5, hty1, afterDeclarator]
    rcases htm with h | h <;> simp [h, interp]
  · rw [hs7.anon]; show w5.anon = _; rw [hs5.anon]; exact hs1.anon
  · rw [hs7.nextId]; show w5.nextId = _; rw [hs5.nextId]; exact hs1.nextId
  · rw [hs7.mainTok]; show w5.mainTok = _; rw [hs5.mainTok]; exact hs1.mainTok


end Cxx
