/-
  Theorems/RefChain.lean — reference declarators (C02): for EVERY sequence of `*`, `const`,
  `volatile` after a type, followed by `&` or `&&` and then a token that is not `(`,
  `_parse_cv_ptr_or_fn` builds the lvalue / rvalue reference to the chain the operators denote and
  leaves that token in the stream — for every stream and parser state.
-/
import CxxModel.Theorems.PtrChain
import CxxModel.Theorems.Steps
namespace Cxx
open P

private theorem interp_tokenEofOk_some' (env : Env) (w : World) (t : Tok) (b1 : Buf)
    (h : tokenEofOk env.cfg w.buf = .ok (some t, b1)) :
    interp env P.tokenEofOk w =
      ((({ w with buf := b1 } : World).handOut t).2, .ok (some (({ w with buf := b1 } : World).handOut t).1)) := by
  unfold P.tokenEofOk
  simp only [interp, Bool.false_eq_true, ↓reduceIte, h]

/-- `token_peek_if(types)`: says whether the next token has one of the types; an equal token is
    the next one again -/
theorem step_tokenPeekIf (env : Env) (types : List String) (w : World) (t : Tok) (b1 : Buf)
    (htok : tokenEofOk env.cfg w.buf = .ok (some t, b1)) :
    ∃ (w1 : World) (t' : Tok), interp env (P.tokenPeekIf types) w = (w1, .ok (types.contains t.type)) ∧ SameParse w w1 ∧
      tokenEofOk env.cfg w1.buf = .ok (some t', b1) ∧ t'.type = t.type ∧ t'.value = t.value := by
  obtain ⟨hs, hb, hty, hv⟩ := handOut_same ({ w with buf := b1 } : World) t
  have hi := interp_tokenEofOk_some' env w t b1 htok
  generalize hwB : (({ w with buf := b1 } : World).handOut t).2 = wB at *
  generalize hcB : (({ w with buf := b1 } : World).handOut t).1 = cB at *
  have hnd : isDiscard cB.type = false := by rw [hty]; exact tokenEofOk_not_discard htok
  obtain ⟨w1, t', hi1, hs1, ht1, hty1, hv1⟩ := step_returnToken env wB cB hnd
  refine ⟨w1, t', ?_, ((SameParse.setBuf w b1).trans hs).trans hs1, (by have hb' : wB.buf = b1 := hb; rw [← hb']; exact ht1), by rw [hty1, hty], by rw [hv1, hv]⟩
  unfold P.tokenPeekIf
  simp only [bind, interp_bind, hi, hi1, pure, interp, hty]

/-- what a reference operator makes of a type -/
def refOf (ampTy : String) (d : DType) : DType := if ampTy = "&" then .ref d else .mref d

theorem cvPtr_chain_ref (env : Env) (rec : Core) (nf : Bool) (ops : List Tok) (d d1 : DType) (F : Nat) (w : World)
    (bmid bamp b' : Buf) (amp term : Tok)
    (hy : Yields env.cfg w.buf ops bmid) (ha : applyPtrOps d (ops.map (·.type)) = some d1) (hnr : isRefLike d1 = false)
    (htamp : tokenEofOk env.cfg bmid = .ok (some amp, bamp)) (hamp : amp.type = "&" ∨ amp.type = "DBL_AMP")
    (htok : tokenEofOk env.cfg bamp = .ok (some term, b')) (hterm : term.type ≠ "(")
    (hF : ops.length + 1 ≤ F) :
    ∃ (w' : World) (t' : Tok), interp env (parseCvPtrOrFnStep F rec d nf) w = (w', .ok (refOf amp.type d1)) ∧
      SameParse w w' ∧ tokenEofOk env.cfg w'.buf = .ok (some t', b') ∧ t'.type = term.type ∧ t'.value = term.value := by
  obtain ⟨wmid, hbm, hsp, hk⟩ := cvPtr_prefix env F rec nf ops d d1 w bmid hy ha
  obtain ⟨w1, t1, hi1, hs1, ht1, hty1, _⟩ := step_tokenIf_miss env ["*", "const", "volatile", "("] wmid amp bamp
    (by rw [hbm]; exact htamp) (by rcases hamp with h | h <;> (rw [h]; decide))
  obtain ⟨w2, c2, hi2, hb2, hs2, hty2, _⟩ := step_tokenIf_hit env ["&", "DBL_AMP"] w1 t1 bamp ht1
    (by rw [hty1]; rcases hamp with h | h <;> (rw [h]; decide))
  obtain ⟨w3, t3, hi3, hs3, ht3, hty3, hv3⟩ := step_tokenPeekIf env ["("] w2 term b' (by rw [hb2]; exact htok)
  refine ⟨w3, t3, ?_, (((hsp.trans hs1).trans hs2).trans hs3), ht3, hty3, hv3⟩
  obtain ⟨k, hkF⟩ : ∃ k, F = ops.length + (k + 1) := ⟨F - ops.length - 1, by omega⟩
  have hloop : interp env (P.loopN F d (cvPtrBody F rec nf)) w = (w1, .ok d1) := by
    conv => lhs; arg 2; arg 1; rw [hkF]
    rw [hk (k + 1), P.loopN]
    have hbody : interp env (cvPtrBody F rec nf d1) wmid = (w1, .ok (.inr d1)) := by
      unfold cvPtrBody
      simp only [bind, interp_bind, hi1, pure, interp]
    simp only [bind, interp_bind, hbody, pure, interp]
  have hnp : (["("].contains term.type) = false := by simp [hterm]
  have hc2 : c2.type = amp.type := by rw [hty2, hty1]
  unfold parseCvPtrOrFnStep
  simp only [bind, interp_bind, hloop]
  unfold cvRefTail
  simp only [bind, interp_bind, hi2, hnr, Bool.false_eq_true, ↓reduceIte, hi3, hnp, pure, interp, hc2, refOf]

end Cxx
