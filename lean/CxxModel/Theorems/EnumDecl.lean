/-
  Theorems/EnumDecl.lean — enum definitions `enum [class|struct] N { e1 [= v1] , … } ;` (C01, C14):
  through `_parse_declarations` the declaration is exactly ONE `on_enum` carrying the written key
  and name and one enumerator per item, in order, with the written names and exactly the written
  value tokens.
-/
import CxxModel.Theorems.FwdDecl
import CxxModel.Theorems.EnumList
import CxxModel.Theorems.ClassForm
import CxxModel.Theorems.Verbose
namespace Cxx
open P

/-- the class key an enum head spells: `enum`, `enum class`, `enum struct` -/
def enumKey (cs : Option Tok) : String :=
  match cs with
  | none => "enum"
  | some c => "enum " ++ c.value

/-- **`enum [class|struct] n1 :: … :: nk`** starting at the already read `enum` token -/
theorem enum_pqname (env : Env) (F : Nat) (rec : Core) (fnOk fundOk : Bool) (ck : CTok) (cs : Option Tok)
    (first : Tok) (pairs : List (Tok × Tok)) (w : World) (b0 b1 bmid b' : Buf) (term : Tok)
    (hck : ck.value = "enum") (hckt : ck.type = "enum")
    (hcs : match cs with
      | none => b0 = w.buf
      | some c => tokenEofOk env.cfg w.buf = .ok (some c, b0) ∧ (c.type = "class" ∨ c.type = "struct"))
    (htf : tokenEofOk env.cfg b0 = .ok (some first, b1)) (hf : first.type = "NAME") (hfv : plainVal first.value = true)
    (hall : ∀ p ∈ pairs, p.1.type = "DBL_COLON" ∧ p.2.type = "NAME" ∧ plainVal p.2.value = true)
    (hy : Yields env.cfg b1 (pairs.flatMap (fun p => [p.1, p.2])) bmid)
    (htok : tokenEofOk env.cfg bmid = .ok (some term, b')) (hlt : term.type ≠ "<") (hdc : term.type ≠ "DBL_COLON")
    (hF : pairs.length + 1 ≤ F) :
    ∃ (w' : World) (t' : Tok),
      interp env (parsePqnameStep F rec (some ck) fnOk true fundOk) w =
        (logged env w' "parse_pqname",
          .ok (.mk (.name first.value none :: pairs.map (fun p => .name p.2.value none)) (some (enumKey cs)) false, none)) ∧
      SameParse w w' ∧ tokenEofOk env.cfg w'.buf = .ok (some t', b') ∧ t'.type = term.type ∧ t'.value = term.value := by
  have hfin : ∀ (w0 : World) (o : Option CTok) (t0 : Tok), interp env (P.tokenIf ["class", "struct"]) w = (w0, .ok o) → SameParse w w0 →
      tokenEofOk env.cfg w0.buf = .ok (some t0, b1) → t0.type = first.type → t0.value = first.value →
      (match o with | none => "enum" | some t => "enum" ++ " " ++ t.value) = enumKey cs →
      ∃ (w' : World) (t' : Tok),
        interp env (parsePqnameStep F rec (some ck) fnOk true fundOk) w =
          (logged env w' "parse_pqname",
            .ok (.mk (.name first.value none :: pairs.map (fun p => .name p.2.value none)) (some (enumKey cs)) false, none)) ∧
        SameParse w w' ∧ tokenEofOk env.cfg w'.buf = .ok (some t', b') ∧ t'.type = term.type ∧ t'.value = term.value := by
    intro w0 o t0 hi0 hs0 ht0' hty0 hv0 hkey
    obtain ⟨wa, ta, hia, hsa, hta, htya, hva⟩ := step_tokenIf_miss env Gen.attributeStartTokens w0 t0 b1 ht0' (by rw [hty0, hf]; decide)
    obtain ⟨wb, cb, hib, hbb, hsb, htyb, hvb⟩ := step_tokenIf_hit env ["NAME", "DBL_COLON"] wa ta b1 hta (by rw [htya, hty0, hf]; decide)
    obtain ⟨w', t', hw, hs, ht, hty', hv⟩ := pqname_loop env F rec fnOk fundOk pairs [] cb wb bmid b' term F
      (by rw [hvb, hva, hv0]; exact hfv) hall (by rw [hbb]; exact hy) htok hlt hdc hF
    refine ⟨w', t', ?_, ((hs0.trans hsa).trans hsb).trans hs, ht, hty', hv⟩
    have hcbt : cb.type = "NAME" := by rw [htyb, htya, hty0, hf]
    have hcbv : cb.value = first.value := by rw [hvb, hva, hv0]
    unfold parsePqnameStep
    simp only [pure, interp, bind, interp_bind, hckt, hck, Bool.not_true, Bool.false_eq_true, ↓reduceIte,
      (by decide : Gen.pqnameStartTokens.contains "enum" = true), (by decide : Gen.nameCompoundStart.contains "enum" = true),
      (by decide : ("enum" = "auto") = False), hi0]
    cases o with
    | none =>
      simp only [hia, hib, hcbt, (by decide : ("NAME" = "DBL_COLON") = False), ↓reduceIte, pure, interp, bind, interp_bind,
        hw, List.nil_append, P.debugPrint, logged, hcbv, ← hkey]
    | some t =>
      simp only [hia, hib, hcbt, (by decide : ("NAME" = "DBL_COLON") = False), ↓reduceIte, pure, interp, bind, interp_bind,
        hw, List.nil_append, P.debugPrint, logged, hcbv, ← hkey]
  cases cs with
  | none =>
    simp only at hcs
    subst hcs
    obtain ⟨wa, ta, hia, hsa, hta, htya, hva⟩ := step_tokenIf_miss env ["class", "struct"] w first b1 htf (by rw [hf]; decide)
    exact hfin wa none ta hia hsa hta htya hva rfl
  | some c =>
    obtain ⟨htc, hct⟩ := hcs
    obtain ⟨wa, ca, hia, hba, hsa, _, hva⟩ := step_tokenIf_hit env ["class", "struct"] w c b0 htc
      (by rcases hct with h | h <;> (rw [h]; decide))
    exact hfin wa (some ca) first hia hsa (by rw [hba]; exact htf) rfl rfl (by simp [enumKey, hva])

/-- `_parse_type` on `enum [class|struct] n1 :: … :: nk` followed by `;` or `{` -/
theorem parseType_enum (env : Env) (F D : Nat) (ck : CTok) (cs : Option Tok) (first : Tok) (pairs : List (Tok × Tok))
    (w : World) (b0 b1 bmid b' : Buf) (semi : Tok)
    (hck : ck.value = "enum") (hckt : ck.type = "enum")
    (hcs : match cs with
      | none => b0 = w.buf
      | some c => tokenEofOk env.cfg w.buf = .ok (some c, b0) ∧ (c.type = "class" ∨ c.type = "struct"))
    (htf : tokenEofOk env.cfg b0 = .ok (some first, b1)) (hf : first.type = "NAME") (hfv : plainVal first.value = true)
    (hall : ∀ p ∈ pairs, p.1.type = "DBL_COLON" ∧ p.2.type = "NAME" ∧ plainVal p.2.value = true)
    (hy : Yields env.cfg b1 (pairs.flatMap (fun p => [p.1, p.2])) bmid)
    (htok : tokenEofOk env.cfg bmid = .ok (some semi, b')) (hs : semi.type = ";" ∨ semi.type = "{") (hF : pairs.length + 2 ≤ F) :
    ∃ (w' : World) (t' : Tok),
      interp env (parseTypeStep F (core F (D + 1)) (some ck) true) w =
        (w', .ok (some (.type (.mk (.name first.value none :: pairs.map (fun p => .name p.2.value none)) (some (enumKey cs)) false) false false), {})) ∧
      SameButLog w w' ∧ tokenEofOk env.cfg w'.buf = .ok (some t', b') ∧ t'.type = semi.type ∧ t'.value = semi.value := by
  obtain ⟨w1, t1, hpq, hs1, ht1, hty1, hv1⟩ := enum_pqname env F (core F D) false true ck cs first pairs w b0 b1 bmid b' semi
    hck hckt hcs htf hf hfv hall hy htok (by rcases hs with h | h <;> (rw [h]; decide)) (by rcases hs with h | h <;> (rw [h]; decide)) (by omega)
  obtain ⟨w2, c2, hi2, hb2, hs2, hty2, hv2⟩ := step_token env (logged env w1 "parse_pqname") t1 b'
    (by rw [logged_buf']; exact ht1)
  have hnd : isDiscard c2.type = false := by rw [hty2]; exact tokenEofOk_not_discard ht1
  obtain ⟨w3, t3, hi3, hs3, ht3, hty3, hv3⟩ := step_returnToken env w2 c2 hnd
  refine ⟨w3, t3, ?_, ((hs1.butLog.trans (logged_butLog env w1 _)).trans hs2.butLog).trans hs3.butLog,
    by rw [← hb2]; exact ht3, by rw [hty3, hty2, hty1], by rw [hv3, hv2, hv1]⟩
  obtain ⟨k, rfl⟩ : ∃ k, F = k + 2 := ⟨F - 2, by omega⟩
  have hstart : Gen.pqnameStartTokens.contains ck.type = true := by rw [hckt]; decide
  have hnop : (ck.type = "operator") = False := by rw [hckt]; decide
  have hbody1 : interp env (typeBody (k + 2) (core (k + 2) (D + 1)) true (ck, none, false, false, {}, false)) w =
      (w2, .ok (.inl (c2, some (.mk (.name first.value none :: pairs.map (fun p => .name p.2.value none)) (some (enumKey cs)) false), false, false, {}, false))) := by
    unfold typeBody
    simp only [hstart, ↓reduceIte, Option.isSome_none, Bool.false_eq_true, hnop, decide_false, Bool.and_false, bind, interp_bind,
      core, coreStep, hpq, pure, interp, hi2]
  have hbody2 : interp env (typeBody (k + 2) (core (k + 2) (D + 1)) true (c2,
      some (.mk (.name first.value none :: pairs.map (fun p => .name p.2.value none)) (some (enumKey cs)) false), false, false, {}, false)) w2 =
      (w2, .ok (.inr (c2, some (.mk (.name first.value none :: pairs.map (fun p => .name p.2.value none)) (some (enumKey cs)) false),
        false, false, {}, false))) := by
    rcases hs with h | h
    · exact typeBody_semi env _ _ true c2 _ false false {} false w2 (by rw [hty2, hty1, h])
    · exact typeBody_brace env _ _ true c2 _ false false {} false w2 (by rw [hty2, hty1, h])
  unfold parseTypeStep
  simp only [pure, interp, bind, interp_bind]
  rw [loopN]
  simp only [bind, interp_bind, hbody1]
  rw [loopN]
  simp only [bind, interp_bind, hbody2, pure, interp, hi3]

/-- the `;` after the closing brace of a named class or enum (not a typedef): consumed, nothing
    else happens -/
theorem finish_named_semi (env : Env) (F : Nat) (c : Core) (name : PQName) (mods : Mods) (ckey : Option String)
    (w : World) (blk : Block) (rest : List Block) (semi : Tok) (b' : Buf) (n : String) (sp : Option TemplateSpec)
    (hstack : w.stack = blk :: rest) (hname : name.segments.getLast? = some (.name n sp))
    (hacc : blk.hdr.kind = .cls → ∃ a, blk.access = some a)
    (htok : tokenEofOk env.cfg w.buf = .ok (some semi, b')) (hs : semi.type = ";") :
    ∃ w3, interp env (finishClassOrEnum F c name false mods ckey) w = (w3, .ok ()) ∧ w3.buf = b' ∧ SameParse w w3 := by
  obtain ⟨wa, ta, hia, hsa, hta, htya, _⟩ := step_tokenIf_miss env ["__attribute__"] w semi b' htok (by rw [hs]; decide)
  obtain ⟨wb, cb2, hib, hbb, hsb, _, _⟩ := step_tokenIf_hit env [";"] wa ta b' hta (by rw [htya, hs]; decide)
  have htopb := interp_getTop env wb blk rest (by rw [hsb.stack, hsa.stack]; exact hstack)
  refine ⟨wb, ?_, hbb, hsa.trans hsb⟩
  unfold finishClassOrEnum
  simp only [bind, interp_bind, hia, pure, interp, Bool.not_false, ↓reduceIte, hib, Option.isSome_some, htopb, Block.view]
  by_cases hbk : blk.hdr.kind = .cls
  · obtain ⟨a, ha⟩ := hacc hbk
    simp only [hbk, ↓reduceIte, ha, hname, Bool.and_false, Bool.false_eq_true, interp, pure]
  · simp only [hbk, ↓reduceIte, interp, pure]

theorem segs_last : ∀ (l : List (Tok × Tok)) (x : String),
    ∃ n, ((PQSeg.name x none) :: l.map (fun p => PQSeg.name p.2.value none)).getLast? = some (.name n none)
  | [], x => ⟨x, rfl⟩
  | p :: ps, _ => by
    obtain ⟨n, hn⟩ := segs_last ps p.2.value
    exact ⟨n, by simpa [List.getLast?_cons_cons] using hn⟩

/-- the enum written -/
def plainEnum (cs : Option Tok) (first : Tok) (pairs : List (Tok × Tok)) (vs : List Enumerator) (blk : Block) (dox : Option String) : EnumDecl :=
  { typename := .mk (.name first.value none :: pairs.map (fun p => .name p.2.value none)) (some (enumKey cs)) false,
    values := vs, base := none, doxygen := dox, access := if blk.hdr.kind = .cls then blk.access else none }

/-- **`enum [class|struct] n1 :: … :: nk { items } ;`** from `_parse_declarations`, in any block, with an
    active visitor that does not raise here: exactly ONE `on_enum` -/
theorem parseDeclarations_enum (env : Env) (hp : RulesProgress env.cfg = true) (F D : Nat) (ck : CTok) (doxygen : Option String)
    (cs : Option Tok) (first : Tok) (pairs : List (Tok × Tok)) (ob : Tok) (pre : List EItem) (last : EItem) (semi : Tok)
    (w : World) (b0 b1 bmid bl bs bEnd : Buf)
    (blk : Block) (rest : List Block) (hstack : w.stack = blk :: rest)
    (hacc : blk.hdr.kind = .cls → ∃ a, blk.access = some a)
    (hmu : w.muted = false) (hfa : ¬ env.faultAt = some w.delivered)
    (hck : ck.value = "enum") (hckt : ck.type = "enum")
    (hcs : match cs with
      | none => b0 = w.buf
      | some c => tokenEofOk env.cfg w.buf = .ok (some c, b0) ∧ (c.type = "class" ∨ c.type = "struct"))
    (hcsv : ∀ c, cs = some c → c.value = c.type)
    (htf : tokenEofOk env.cfg b0 = .ok (some first, b1)) (hf : first.type = "NAME") (hfv : plainVal first.value = true)
    (hall : ∀ p ∈ pairs, p.1.type = "DBL_COLON" ∧ p.2.type = "NAME" ∧ plainVal p.2.value = true)
    (hy : Yields env.cfg b1 (pairs.flatMap (fun p => [p.1, p.2])) bmid)
    (htob : tokenEofOk env.cfg bmid = .ok (some ob, bl)) (hob : ob.type = "{")
    (hpre : ∀ i ∈ pre, i.OK ∧ i.sep.type = "," ∧ i.toks.length + 2 ≤ F)
    (hlast : last.OK ∧ last.sep.type = "}" ∧ last.toks.length + 2 ≤ F)
    (hyl : Yields env.cfg bl ((pre ++ [last]).flatMap EItem.toks ++ [semi]) bEnd) (hs : semi.type = ";")
    (hF : pairs.length + 2 ≤ F) (hF2 : pre.length + 1 ≤ F) :
    ∃ (w7 : World) (vs : List Enumerator) (ev : Event),
      interp env (parseDeclarations F (core F (D + 1 + 1)) ck doxygen) w = (w7, .ok ()) ∧
      vs.map Enumerator.nv = (pre ++ [last]).map EItem.nv ∧
      SigEq bEnd w7.buf ∧ w7.stack = { blk with loc := .tok ck.sidx } :: rest ∧
      w7.events = w.events ++ [ev] ∧ ev.kind = .item (.enum (plainEnum cs first pairs vs blk doxygen)) ∧
      ev.stateId = blk.id ∧ ev.parentId = rest.head?.map (·.id) ∧
      w7.delivered = w.delivered + 1 ∧ w7.anon = w.anon ∧ w7.muted = false ∧ w7.nextId = w.nextId := by
  obtain ⟨w1, t1, hi1, hs1, ht1, hty1, _⟩ := parseType_enum env F D ck cs first pairs w b0 b1 bmid bl ob hck hckt hcs htf hf hfv hall hy
    htob (.inr hob) hF
  obtain ⟨w2, t2, hi2, hs2, ht2, hty2, _⟩ := step_tokenIf_miss env [";"] w1 t1 bl ht1 (by rw [hty1, hob]; decide)
  obtain ⟨w3, c3, hi3, hb3, hs3, hty3, _⟩ := step_tokenIfP_hit env (fun t => Gen.classEnumStage2.contains t.type) w2 t2 bl ht2
    (by intro c hct _; show Gen.classEnumStage2.contains c.type = true; rw [hct, hty2, hty1, hob]; decide)
  have hc3 : c3.type = "{" := by rw [hty3, hty2, hty1, hob]
  have hsl : SameButLog w w3 := (hs1.trans hs2.butLog).trans hs3.butLog
  have hst3 : w3.stack = blk :: rest := by rw [hsl.stack]; exact hstack
  -- the enumerators
  obtain ⟨w4, vs, bE4, hi4, hvs, hy4, hsig4, hs4⟩ := enumList_last env hp F pre last [semi]
    { w3 with stack := { blk with loc := .tok ck.sidx } :: rest } bEnd hpre hlast (by show Yields env.cfg w3.buf _ _; rw [hb3]; exact hyl) hF2
  have hst4 : w4.stack = { blk with loc := .tok ck.sidx } :: rest := hs4.stack
  have htop4 := interp_getTop env w4 { blk with loc := .tok ck.sidx } rest hst4
  have hmu4 : w4.muted = false := by rw [hs4.muted]; show w3.muted = _; rw [hsl.muted]; exact hmu
  have hdl4 : w4.delivered = w.delivered := by rw [hs4.delivered]; exact hsl.delivered
  have hdel := deliver_passing env w4 (mkEvent w4 (.item (.enum (plainEnum cs first pairs vs blk doxygen)))
    { blk with loc := .tok ck.sidx } (rest.head?.map (·.id))) hmu4 (by rw [hdl4]; exact hfa)
  cases hy4 with
  | cons htsemi hnil =>
    rename_i bS
    have hbS : bS = bE4 := by cases hnil; rfl
    subst hbS
    obtain ⟨nl, hnl⟩ := segs_last pairs first.value
    obtain ⟨w7, hi7, hb7, hs7⟩ := finish_named_semi env F (core F (D + 1 + 1))
      (.mk (.name first.value none :: pairs.map (fun p => .name p.2.value none)) (some (enumKey cs)) false) {} (some "enum")
      { w4 with events := w4.events ++ [mkEvent w4 (.item (.enum (plainEnum cs first pairs vs blk doxygen)))
          { blk with loc := .tok ck.sidx } (rest.head?.map (·.id))], delivered := w4.delivered + 1 }
      { blk with loc := .tok ck.sidx } rest semi bS nl none hst4 (by simp only [PQName.segments]; exact hnl) hacc htsemi hs
    refine ⟨w7, vs, _, ?_, hvs, by rw [hb7]; exact hsig4, by rw [hs7.stack]; exact hst4,
      by rw [hs7.events]; show w4.events ++ _ = _; rw [hs4.events]; show w3.events ++ _ = _; rw [hsl.events], rfl, rfl, rfl,
      by rw [hs7.delivered]; show w4.delivered + 1 = _; rw [hdl4], by rw [hs7.anon]; show w4.anon = _; rw [hs4.anon]; exact hsl.anon,
      by rw [hs7.muted]; exact hmu4, by rw [hs7.nextId]; show w4.nextId = _; rw [hs4.nextId]; exact hsl.nextId⟩
    have hkeyfacts : (enumKey cs).isEmpty = false ∧ (enumKey cs = "class") = False ∧ (enumKey cs = "struct") = False ∧
        (enumKey cs = "union") = False := by
      cases cs with
      | none => simp only [enumKey]; exact ⟨by decide, by decide, by decide, by decide⟩
      | some c =>
        have hv := hcsv c rfl
        obtain ⟨_, hct⟩ := hcs
        simp only [enumKey, hv]
        rcases hct with h | h <;> (rw [h]; exact ⟨by decide, by decide, by decide, by decide⟩)
    obtain ⟨hk1, hk2, hk3, hk4⟩ := hkeyfacts
    unfold parseDeclarations
    simp only [bind, interp_bind, core_parseType, hi1, Option.bind, typenameOf, PQName.classkey]
    unfold maybeParseClassEnumDecl parseEnumDecl
    simp only [strTruthy, PQName.classkey, bind, interp_bind, hi2, Option.isSome_none, ↓reduceIte, Bool.false_eq_true, Option.getD_some,
      P.tokenIfInSet, hi3, validate_empty, Bool.not_false, hc3, hk1, hk2, hk3, hk4, decide_false, Bool.or_self, TemplateVar.isSome,
      (by decide : ("{" != ":") = true), bne_self_eq_false, Bool.and_false, Bool.true_and, (by decide : ("{" = ":") = False),
      P.setLoc, interp, hst3, pure, hi4, currentAccess, htop4, Block.view, P.emit, hst4]
    simp only [plainEnum] at hdel hi7
    simp only [hdel, hi7, ↓reduceIte, interp]

end Cxx
