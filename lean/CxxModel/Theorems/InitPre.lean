/-
  Theorems/InitPre.lean — initialised variables over any type specifier and any declarator prefix (C14, C01):
  `S prefix x = value ;` delivers exactly ONE `on_variable` whose value is EXACTLY the written tokens.
-/
import CxxModel.Theorems.DeclPre
import CxxModel.Theorems.VarInit
namespace Cxx
open P

theorem declarator_variable_init_pre (env : Env) (G D : Nat) (pt : DType) (location : LocRef) (doxygen : Option String)
    (pre : List (String × String)) (ops : List Tok) (x eq : Tok) (vals : List Tok) (tm : Tok) (d1 : DType) (w : World) (bmid bx bq bv b' : Buf)
    (blk : Block) (rest : List Block) (hstack : w.stack = blk :: rest) (hk : blk.hdr.kind ≠ .cls)
    (hmu : w.muted = false) (hfa : ¬ env.faultAt = some w.delivered)
    (hspec : PrefixSpec env (G + 1) D pt pre d1) (hfn : isFnType d1 = false)
    (hy : Yields env.cfg w.buf ops bmid) (hops : tvs ops = pre)
    (htx : tokenEofOk env.cfg bmid = .ok (some x, bx)) (hx : x.type = "NAME") (hxv : identVal x.value = true)
    (hteq : tokenEofOk env.cfg bx = .ok (some eq, bq)) (heq : eq.type = "=")
    (hyv : Yields env.cfg bq vals bv) (htl : TopLevel [",", ";"] (vals.map (·.type)))
    (httm : tokenEofOk env.cfg bv = .ok (some tm, b')) (htm : tm.type = ";" ∨ tm.type = ",")
    (hFv : vals.length + 1 ≤ G) :
    ∃ (w7 : World) (c : CTok) (dox : Option String) (ev : Event),
      interp env (declaratorBody (G + 1) (core (G + 1) (D + 1)) pt {} .none false false (location, doxygen)) w =
        (w7, .ok (afterDeclarator tm c)) ∧
      SigEq b' w7.buf ∧ w7.stack = { blk with loc := location } :: rest ∧
      w7.events = w.events ++ [ev] ∧ ev.kind = .item (.variable (initVariable x d1 vals dox)) ∧
      ev.stateId = blk.id ∧ ev.parentId = rest.head?.map (·.id) ∧ (∀ d, doxygen = some d → dox = some d) ∧
      w7.delivered = w.delivered + 1 ∧ w7.anon = w.anon ∧ w7.muted = false ∧ w7.nextId = w.nextId ∧
      w7.mainTok = w.mainTok := by
  obtain ⟨w1, t1, hs1, ht1, hty1, hv1, hi1⟩ := parseDecl_prefix env (G + 1) D pt {} location doxygen false pre ops x eq d1 w bmid bx bq
    blk rest hstack hspec hfn hy hops htx hx hxv hteq (by rw [heq]; decide) (by rw [heq]; decide) (by rw [heq]; decide) (by omega)
  have hnm : fieldName (blk.hdr.kind = .cls) (.mk [.name x.value none] none false) = some none := by
    have hd : decide (blk.hdr.kind = .cls) = false := by simp [hk]
    rw [hd]; rfl
  obtain ⟨w5, t5, b5, dox, hs5, ht5, hsig5, hty5, hv5, hdox, hi5⟩ := parseField_init env G {} d1 (.mk [.name x.value none] none false)
    none doxygen location w1 t1 vals tm bq bv b' blk rest (by rw [hs1.stack]; exact hstack) none hnm ht1 (hty1.trans heq)
    hyv htl httm (by rcases htm with h | h <;> (rw [h]; decide)) hFv
  have hst5 : w5.stack = { blk with loc := location } :: rest := hs5.stack
  have hmu5 : w5.muted = false := by rw [hs5.muted]; show w1.muted = _; rw [hs1.muted]; exact hmu
  have hdl5 : w5.delivered = w.delivered := by rw [hs5.delivered]; show w1.delivered = _; exact hs1.delivered
  have hev5 : w5.events = w.events := by rw [hs5.events]; show w1.events = _; exact hs1.events
  have hdel := deliver_passing env w5 (mkEvent w5 (.item (.variable (initVariable x d1 vals dox)))
    { blk with loc := location } (rest.head?.map (·.id))) hmu5 (by rw [hdl5]; exact hfa)
  have htok6 : tokenEofOk env.cfg ({ w5 with events := w5.events ++ [mkEvent w5 (.item (.variable (initVariable x d1 vals dox)))
      { blk with loc := location } (rest.head?.map (·.id))], delivered := w5.delivered + 1 } : World).buf = .ok (some t5, b5) := ht5
  obtain ⟨w7, c7, hi7, hb7, hs7, hty7, _⟩ := step_mustBe env [",", ";"] _ t5 b5 htok6
    (by rw [hty5]; rcases htm with h | h <;> (rw [h]; decide))
  refine ⟨w7, c7, dox, _, ?_, by rw [hb7]; exact hsig5, by rw [hs7.stack]; exact hst5, by rw [hs7.events, hev5], rfl, rfl, rfl,
    hdox, by rw [hs7.delivered, hdl5], ?_, by rw [hs7.muted]; exact hmu5, ?_, ?_⟩
  · unfold declaratorBody
    have hk' : ¬ blk.hdr.kind = .cls := hk
    have hi7' := hi7
    simp only [hst5, initVariable] at hi7'
    simp only [bind, interp_bind, hi1, hi5, fieldEmit, Block.view, hk', decide_false, Bool.false_eq_true, ↓reduceIte, hasKey,
      List.any_nil, P.emit, interp, hst5, initVariable] at hdel ⊢
    simp only [hdel, Bool.false_eq_true, ↓reduceIte, bind, interp_bind, pure, interp, hi7', hty7, hty5, afterDeclarator]
    rcases htm with h | h <;> simp [h, interp]
  · rw [hs7.anon]; show w5.anon = _; rw [hs5.anon]; exact hs1.anon
  · rw [hs7.nextId]; show w5.nextId = _; rw [hs5.nextId]; exact hs1.nextId
  · rw [hs7.mainTok]; show w5.mainTok = _; rw [hs5.mainTok]; exact hs1.mainTok

/-- **`T ptr-ops x = value ;`** from `_parse_declarations`, outside a class, with an active visitor
    that does not raise here: exactly ONE `on_variable` callback, with the type the declarator
    denotes and exactly the written value tokens -/
theorem parseDeclarations_variable_init_pre (env : Env) (G D : Nat) (tok : CTok) (doxygen : Option String)
    (toks : List Tok) (f : Tok) (trest : List Tok) (segs : List PQSeg) (cst vol : Bool) (pre : List (String × String)) (ops : List Tok) (x eq : Tok) (vals : List Tok) (semi : Tok) (d1 : DType) (w : World) (b0 bmid bx bq bv b' : Buf)
    (blk : Block) (rest : List Block) (hstack : w.stack = blk :: rest) (hk : blk.hdr.kind ≠ .cls)
    (hmu : w.muted = false) (hfa : ¬ env.faultAt = some w.delivered)
    (hspecT : TypeSpecR env (G + 1) D toks segs cst vol) (htoks : toks = f :: trest)
    (hty : tok.type = f.type) (htv : tok.value = f.value)
    (hy0 : Yields env.cfg w.buf trest b0)
    (hhead : ∀ p ∈ pre.head?, declStart p.1 = true ∧ p.2 ≠ "auto")
    (hy : Yields env.cfg b0 ops bmid)
    (hpre : PrefixSpec env (G + 1) (D + 1) (.type (.mk segs none false) cst vol) pre d1) (hfn : isFnType d1 = false) (hops : tvs ops = pre)
    (htx : tokenEofOk env.cfg bmid = .ok (some x, bx)) (hx : x.type = "NAME") (hxv : identVal x.value = true)
    (hteq : tokenEofOk env.cfg bx = .ok (some eq, bq)) (heq : eq.type = "=")
    (hyv : Yields env.cfg bq vals bv) (htl : TopLevel [",", ";"] (vals.map (·.type)))
    (hsemi : tokenEofOk env.cfg bv = .ok (some semi, b')) (hs : semi.type = ";")
    (hFv : vals.length + 1 ≤ G) :
    ∃ (w7 : World) (dox : Option String) (ev : Event),
      interp env (parseDeclarations (G + 1) (core (G + 1) (D + 1 + 1)) tok doxygen) w = (w7, .ok ()) ∧
      SigEq b' w7.buf ∧ w7.stack = { blk with loc := .tok tok.sidx } :: rest ∧
      w7.events = w.events ++ [ev] ∧ ev.kind = .item (.variable (initVariable x d1 vals dox)) ∧
      ev.stateId = blk.id ∧ ev.parentId = rest.head?.map (·.id) ∧ (∀ d, doxygen = some d → dox = some d) ∧
      w7.delivered = w.delivered + 1 ∧ w7.anon = w.anon ∧ w7.muted = false ∧ w7.nextId = w.nextId ∧
      w7.mainTok = w.mainTok := by
  have hxauto : x.value ≠ "auto" := by
    have := hxv
    simp only [identVal, Bool.and_eq_true, Bool.not_eq_true', bne_iff_ne, ne_eq] at this
    exact this.2
  -- the token after the type name: the first pointer operator, or the name
  obtain ⟨nx, bnx, hnx, hnxstop, hnxauto⟩ : ∃ (nx : Tok) (bnx : Buf), tokenEofOk env.cfg b0 = .ok (some nx, bnx) ∧
      declStart nx.type = true ∧ nx.value ≠ "auto" := by
    cases ops with
    | nil =>
      cases hy
      exact ⟨x, bx, htx, by rw [hx]; decide, hxauto⟩
    | cons o os =>
      cases hy with
      | cons hto _ =>
        have hh := hhead (o.type, o.value) (by rw [← hops]; simp [tvs])
        exact ⟨o, _, hto, hh.1, hh.2⟩
  obtain ⟨w1, t1, hi1, hs1, ht1, hty1, hv1⟩ := hspecT true tok f trest w b0 bnx nx htoks hty htv hy0 hnx hnxstop
  obtain ⟨w2, t2, hi2, hs2, ht2, hty2, hv2⟩ := step_tokenIfP_miss env (fun t => ["auto"].contains t.value) w1 t1 bnx ht1
    (by intro c _ hcv; show ["auto"].contains c.value = false; rw [hcv, hv1]; simp [hnxauto])
  have hsl2 : SameButLog w w2 := hs1.trans hs2.butLog
  have htop2 := interp_getTop env w2 blk rest (by rw [hsl2.stack]; exact hstack)
  -- the stream seen by the declarator loop: the pushed-back copy of `nx`, then as given
  obtain ⟨ops', x', bmid', hy', hmapeq, htx', hx', hxv'⟩ : ∃ (ops' : List Tok) (x' : Tok) (bmid' : Buf),
      Yields env.cfg w2.buf ops' bmid' ∧ tvs ops' = tvs ops ∧
      tokenEofOk env.cfg bmid' = .ok (some x', bx) ∧ x'.type = "NAME" ∧ x'.value = x.value := by
    cases ops with
    | nil =>
      cases hy
      rw [htx] at hnx
      injection hnx with hnx; injection hnx with h1 h2
      injection h1 with h1
      subst h1; subst h2
      exact ⟨[], t2, w2.buf, .nil _, rfl, ht2, by rw [hty2, hty1, hx], by rw [hv2, hv1]⟩
    | cons o os =>
      cases hy with
      | cons hto hrest =>
        rw [hto] at hnx
        injection hnx with hnx; injection hnx with h1 h2
        injection h1 with h1
        subst h1; subst h2
        exact ⟨t2 :: os, x, bmid, .cons ht2 hrest, by simp [tvs, hty2, hty1, hv2, hv1], htx, hx, rfl⟩
  obtain ⟨w7, c7, dox, ev, hi7, hsig, hst7, hev7, hk7, hid7, hpar7, hdox7, hdl7, han7, hmu7, hnx7, hmt7⟩ :=
    declarator_variable_init_pre env G (D + 1) _ (.tok tok.sidx) doxygen pre ops' x' eq vals semi d1 w2 bmid' bx bq bv b' blk rest
      (by rw [hsl2.stack]; exact hstack) hk (by rw [hsl2.muted]; exact hmu) (by rw [hsl2.delivered]; exact hfa) hpre hfn hy'
      (by rw [hmapeq]; exact hops) htx' hx' (by rw [hxv']; exact hxv) hteq heq hyv htl hsemi (.inl hs) hFv
  refine ⟨w7, dox, ev, ?_, hsig, hst7, by rw [hev7, hsl2.events], ?_, hid7, hpar7, hdox7, by rw [hdl7, hsl2.delivered],
    by rw [han7, hsl2.anon], hmu7, by rw [hnx7, hsl2.nextId], by rw [hmt7, hsl2.mainTok]⟩
  · unfold parseDeclarations
    simp only [bind, interp_bind, core_parseType, hi1, Option.bind, typenameOf, strTruthy, PQName.classkey, Bool.false_eq_true, ↓reduceIte, pure, interp, Bool.not_false,
      P.tokenIfVal, hi2, htop2, validate_empty]
    rw [loopN]
    simp only [bind, interp_bind, hi7, afterDeclarator, hs, ↓reduceIte, pure, interp]
  · rw [hk7]
    simp only [initVariable, hxv']


theorem toplevel_variable_init_pre (env : Env) (hp : RulesProgress env.cfg = true) (G D : Nat) (w : World)
    (toks : List Tok) (first : Tok) (trest : List Tok) (segs : List PQSeg) (cst vol : Bool) (pre : List (String × String)) (ops : List Tok) (x eq : Tok) (vals : List Tok) (semi : Tok) (d1 : DType) (b1 b0 bmid bx bq bv b' : Buf)
    (blk : Block) (rest : List Block) (hstack : w.stack = blk :: rest) (hk : blk.hdr.kind ≠ .cls)
    (hmu : w.muted = false) (hfa : ¬ env.faultAt = some w.delivered)
    (hspecT : TypeSpecR env (G + 1) D toks segs cst vol) (htoks : toks = first :: trest) (hfirst : specFirst first.type = true)
    (htok : tokenEofOk env.cfg w.buf = .ok (some first, b1))
    (hy0 : Yields env.cfg b1 trest b0)
    (hhead : ∀ p ∈ pre.head?, declStart p.1 = true ∧ p.2 ≠ "auto")
    (hy : Yields env.cfg b0 ops bmid)
    (hpre : PrefixSpec env (G + 1) (D + 1) (.type (.mk segs none false) cst vol) pre d1) (hfn : isFnType d1 = false) (hops : tvs ops = pre)
    (htx : tokenEofOk env.cfg bmid = .ok (some x, bx)) (hx : x.type = "NAME") (hxv : identVal x.value = true)
    (hteq : tokenEofOk env.cfg bx = .ok (some eq, bq)) (heq : eq.type = "=")
    (hyv : Yields env.cfg bq vals bv) (htl : TopLevel [",", ";"] (vals.map (·.type)))
    (hsemi : tokenEofOk env.cfg bv = .ok (some semi, b')) (hs : semi.type = ";")
    (hFv : vals.length + 1 ≤ G) :
    ∃ (d : Option String) (bD : Buf) (w7 : World) (ct : CTok) (dox : Option String) (ev : Event),
      getDoxygen env.cfg env.mcRe w.buf = .ok (d, bD) ∧
      interp env (mainBody (G + 1) (core (G + 1) (D + 1 + 1)) none) w = (w7, .ok (.inl none)) ∧
      SigEq b' w7.buf ∧ ct.value = first.value ∧ w7.stack = { blk with loc := .tok ct.sidx } :: rest ∧
      w7.events = w.events ++ [ev] ∧ ev.kind = .item (.variable (initVariable x d1 vals dox)) ∧
      ev.stateId = blk.id ∧ ev.parentId = rest.head?.map (·.id) ∧ (∀ dd, d = some dd → dox = some dd) ∧
      w7.delivered = w.delivered + 1 ∧ w7.anon = w.anon ∧ w7.muted = false ∧ w7.nextId = w.nextId := by
  obtain ⟨d, bD, wA, ct, hd, hsA, hbA, htyc, hv, hi⟩ := mainBody_item env hp (G + 1) (core (G + 1) (D + 1 + 1)) w first b1 htok
  obtain ⟨w7, dox, ev, hi7, hsig, hst7, hev7, hk7, hid7, hpar7, hdox7, hdl7, han7, hmu7, hnx7, _⟩ :=
    parseDeclarations_variable_init_pre env G D ct d toks first trest segs cst vol pre ops x eq vals semi d1 { wA with mainTok := some ct } b0 bmid bx bq bv b' blk rest
      (by show wA.stack = _; rw [hsA.stack]; exact hstack) hk (by show wA.muted = _; rw [hsA.muted]; exact hmu)
      (by show ¬ env.faultAt = some wA.delivered; rw [hsA.delivered]; exact hfa) hspecT htoks htyc hv
      (by show Yields env.cfg wA.buf _ _; rw [hbA]; exact hy0) hhead hy hpre hfn hops htx hx hxv hteq heq hyv htl hsemi hs hFv
  refine ⟨d, bD, w7, ct, dox, ev, hd, ?_, hsig, hv, hst7, by rw [hev7]; show wA.events ++ _ = _; rw [hsA.events], hk7, hid7, hpar7,
    hdox7, by rw [hdl7]; show wA.delivered + 1 = _; rw [hsA.delivered], by rw [han7]; exact hsA.anon, hmu7,
    by rw [hnx7]; exact hsA.nextId⟩
  rw [hi]
  unfold specFirst at hfirst
  simp only [Bool.and_eq_true, Option.isNone_iff_eq_none, Bool.not_eq_true'] at hfirst
  have hti : topItem (G + 1) (core (G + 1) (D + 1 + 1)) ct d = parseDeclarations (G + 1) (core (G + 1) (D + 1 + 1)) ct d := by
    unfold topItem
    rw [htyc, hfirst.1]
  have hcar : carry ct d = none := by
    unfold carry
    rw [htyc, hfirst.2]
    rfl
  rw [hti, hi7, hcar]


end Cxx
