/-
  Theorems/ClassFinal.lean — class heads with `final` (C03): `key N final… [: base-clause] {`.  The `final` loop of
  `_parse_class_decl` is proved by induction over the written `final`s; the class block is marked `final` iff at least one was
  written, and everything else (name, key, default access, bases) is as for a head without it.  The head theorems are produced
  from the proofs of `parseDeclarations_class_head` / `_bases` by replacing the step that read the `{` / `:` directly.
-/
import CxxModel.Theorems.BaseClause
namespace Cxx
open P

/-- on `final` after the class name the type loop stops: a name has been read already -/
theorem typeBody_final (env : Env) (F : Nat) (rec : Core) (operatorOk : Bool) (c : CTok) (pq : PQName) (cst vol : Bool)
    (mods : Mods) (o : Bool) (w : World) (hc : c.type = "final") :
    interp env (typeBody F rec operatorOk (c, some pq, cst, vol, mods, o)) w = (w, .ok (.inr (c, some pq, cst, vol, mods, false))) := by
  unfold typeBody
  simp only [hc, (by decide : Gen.pqnameStartTokens.contains "final" = true), Option.isSome_some, ↓reduceIte, bind, interp_bind, pure, interp]

theorem parseType_compound_s2 (env : Env) (F D : Nat) (ck : CTok) (first : Tok) (pairs : List (Tok × Tok))
    (w : World) (b1 bmid b' : Buf) (semi : Tok)
    (hck : isClassKey ck.value = true) (hckt : ck.type = ck.value)
    (htf : tokenEofOk env.cfg w.buf = .ok (some first, b1)) (hf : first.type = "NAME") (hfv : plainVal first.value = true)
    (hall : ∀ p ∈ pairs, p.1.type = "DBL_COLON" ∧ p.2.type = "NAME" ∧ plainVal p.2.value = true)
    (hy : Yields env.cfg b1 (pairs.flatMap (fun p => [p.1, p.2])) bmid)
    (htok : tokenEofOk env.cfg bmid = .ok (some semi, b')) (hs : semi.type = "{" ∨ semi.type = ":" ∨ semi.type = "final") (hF : pairs.length + 2 ≤ F) :
    ∃ (w' : World) (t' : Tok),
      interp env (parseTypeStep F (core F (D + 1)) (some ck) true) w =
        (w', .ok (some (.type (.mk (.name first.value none :: pairs.map (fun p => .name p.2.value none)) (some ck.value) false) false false), {})) ∧
      SameButLog w w' ∧ tokenEofOk env.cfg w'.buf = .ok (some t', b') ∧ t'.type = semi.type ∧ t'.value = semi.value := by
  obtain ⟨w1, t1, hpq, hs1, ht1, hty1, hv1⟩ := compound_pqname env F (core F D) false true ck first pairs w b1 bmid b' semi
    hck hckt htf hf hfv hall hy htok (by rcases hs with h | h | h <;> (rw [h]; decide)) (by rcases hs with h | h | h <;> (rw [h]; decide)) (by omega)
  obtain ⟨w2, c2, hi2, hb2, hs2, hty2, hv2⟩ := step_token env (logged env w1 "parse_pqname") t1 b'
    (by rw [logged_buf']; exact ht1)
  have hnd : isDiscard c2.type = false := by rw [hty2]; exact tokenEofOk_not_discard ht1
  obtain ⟨w3, t3, hi3, hs3, ht3, hty3, hv3⟩ := step_returnToken env w2 c2 hnd
  refine ⟨w3, t3, ?_, ((hs1.butLog.trans (logged_butLog env w1 _)).trans hs2.butLog).trans hs3.butLog,
    by rw [← hb2]; exact ht3, by rw [hty3, hty2, hty1], by rw [hv3, hv2, hv1]⟩
  obtain ⟨k, rfl⟩ : ∃ k, F = k + 2 := ⟨F - 2, by omega⟩
  have hstart : Gen.pqnameStartTokens.contains ck.type = true := by
    simp only [isClassKey, Bool.or_eq_true, beq_iff_eq] at hck
    rw [hckt]
    rcases hck with (h | h) | h <;> (rw [h]; decide)
  have hnop : (ck.type = "operator") = False := by
    simp only [isClassKey, Bool.or_eq_true, beq_iff_eq] at hck
    rw [hckt]
    rcases hck with (h | h) | h <;> (rw [h]; decide)
  have hbody1 : interp env (typeBody (k + 2) (core (k + 2) (D + 1)) true (ck, none, false, false, {}, false)) w =
      (w2, .ok (.inl (c2, some (.mk (.name first.value none :: pairs.map (fun p => .name p.2.value none)) (some ck.value) false), false, false, {}, false))) := by
    unfold typeBody
    simp only [hstart, ↓reduceIte, Option.isSome_none, Bool.false_eq_true, hnop, decide_false, Bool.and_false, bind, interp_bind,
      core, coreStep, hpq, pure, interp, hi2]
  have hbody2 : interp env (typeBody (k + 2) (core (k + 2) (D + 1)) true (c2,
      some (.mk (.name first.value none :: pairs.map (fun p => .name p.2.value none)) (some ck.value) false), false, false, {}, false)) w2 =
      (w2, .ok (.inr (c2, some (.mk (.name first.value none :: pairs.map (fun p => .name p.2.value none)) (some ck.value) false),
        false, false, {}, false))) := by
    rcases hs with h | h | h
    · exact typeBody_brace env _ _ true c2 _ false false {} false w2 (by rw [hty2, hty1, h])
    · exact typeBody_colon env _ _ true c2 _ false false {} false w2 (by rw [hty2, hty1, h])
    · exact typeBody_final env _ _ true c2 _ false false {} false w2 (by rw [hty2, hty1, h])
  unfold parseTypeStep
  simp only [pure, interp, bind, interp_bind]
  rw [loopN]
  simp only [bind, interp_bind, hbody1]
  rw [loopN]
  simp only [bind, interp_bind, hbody2, pure, interp, hi3]



/-- one `final`: the loop reads on and sets the flag -/
theorem classSpecBody_final (env : Env) (ct : CTok) (ex fin : Bool) (w : World) (h : ct.type = "final") :
    interp env (classSpecBody (ct, ex, fin)) w =
      match interp env P.token w with
      | (w1, .ok t) => (w1, .ok (.inl (t, ex, true)))
      | (w1, .error e) => (w1, .error e) := by
  unfold classSpecBody
  simp only [h, ↓reduceIte, bind, interp_bind]
  cases interp env P.token w with
  | mk w1 r => cases r <;> rfl

theorem classSpecBody_end (env : Env) (ct : CTok) (ex fin : Bool) (w : World) (h1 : ct.type ≠ "final") (h2 : ct.type ≠ "explicit") :
    interp env (classSpecBody (ct, ex, fin)) w = (w, .ok (.inr (ct, ex, fin))) := by
  unfold classSpecBody
  simp only [h1, h2, ↓reduceIte, pure, interp]

/-- the `final` loop of `_parse_class_decl`: from the (already read) first token after the class name through any number of
    `final` to the token that ends them; the flag is set iff at least one `final` was written -/
theorem classSpec_loop (env : Env) : ∀ (fs : List Tok) (ct : CTok) (cur : Tok) (rest : List Tok) (term : Tok) (ex fin : Bool)
    (n : Nat) (w : World) (b' : Buf),
    (∀ f ∈ fs, f.type = "final") → term.type ≠ "final" → term.type ≠ "explicit" →
    fs ++ [term] = cur :: rest → ct.type = cur.type → ct.value = cur.value →
    Yields env.cfg w.buf rest b' → fs.length + 1 ≤ n →
    ∃ (w' : World) (c' : CTok),
      interp env (loopN n (ct, ex, fin) classSpecBody) w = (w', .ok (c', ex, fin || !fs.isEmpty)) ∧
      SameParse w w' ∧ w'.buf = b' ∧ c'.type = term.type ∧ c'.value = term.value := by
  intro fs
  induction fs with
  | nil =>
    intro ct cur rest term ex fin n w b' _ ht1 ht2 hsplit hty hv hy hn
    simp only [List.nil_append, List.cons.injEq] at hsplit
    obtain ⟨rfl, rfl⟩ := hsplit
    cases hy
    obtain ⟨m, rfl⟩ : ∃ m, n = m + 1 := ⟨n - 1, by omega⟩
    refine ⟨w, ct, ?_, SameParse.refl w, rfl, hty, hv⟩
    rw [loopN]
    simp only [bind, interp_bind, classSpecBody_end env ct ex fin w (by rw [hty]; exact ht1) (by rw [hty]; exact ht2), pure, interp,
      List.isEmpty_nil, Bool.not_true, Bool.or_false]
  | cons s ss ih =>
    intro ct cur rest term ex fin n w b' hall ht1 ht2 hsplit hty hv hy hn
    simp only [List.cons_append, List.cons.injEq] at hsplit
    obtain ⟨rfl, rfl⟩ := hsplit
    obtain ⟨g, grest, hg⟩ : ∃ g grest, ss ++ [term] = g :: grest := by
      cases ss with
      | nil => exact ⟨term, [], rfl⟩
      | cons a as => exact ⟨a, as ++ [term], rfl⟩
    rw [hg] at hy
    obtain ⟨b1, hgt, hyr⟩ := Yields.cons_inv hy
    obtain ⟨w1, c1, hi1, hb1, hs1, hty1, hv1⟩ := step_token env w g b1 hgt
    obtain ⟨m, rfl⟩ : ∃ m, n = m + 1 := ⟨n - 1, by omega⟩
    obtain ⟨w', c', hi, hs, hb, hty', hv'⟩ := ih c1 g grest term ex true
      m w1 b' (fun q hq => hall q (by simp [hq])) ht1 ht2 hg hty1 hv1 (by rw [hb1]; exact hyr) (by simp at hn; omega)
    refine ⟨w', c', ?_, hs1.trans hs, hb, hty', hv'⟩
    rw [loopN]
    simp only [bind, interp_bind, classSpecBody_final env ct ex fin w (by rw [hty]; exact hall s (by simp)), hi1]
    rw [hi]
    simp only [Bool.true_or, List.isEmpty_cons, Bool.not_false, Bool.or_true]

/-- the header of the block a class head opens: bases and the `final` flag as written -/
def classHdrF (ck : CTok) (first : Tok) (pairs : List (Tok × Tok)) (bases : List BaseClass) (fin : Bool) (blk : Block) (dox : Option String) : BlockHdr :=
  { kind := .cls, loc := .tok ck.sidx,
    cls := { typename := .mk (.name first.value none :: pairs.map (fun p => .name p.2.value none)) (some ck.value) false,
             bases := bases, template := .none, explicit := false, final := fin, doxygen := dox,
             access := if blk.hdr.kind = .cls then blk.access else none },
    access := some (defaultAccess ck.value), typedef := false, mods := {} }

theorem finals_split (fs : List Tok) (term : Tok) (hfs : ∀ f ∈ fs, f.type = "final") (ht : term.type = "{" ∨ term.type = ":") :
    ∃ t0 rest0, fs ++ [term] = t0 :: rest0 ∧ (t0.type = "{" ∨ t0.type = ":" ∨ t0.type = "final") := by
  cases fs with
  | nil => exact ⟨term, [], rfl, by rcases ht with h | h; exact .inl h; exact .inr (.inl h)⟩
  | cons a as => exact ⟨a, as ++ [term], rfl, .inr (.inr (hfs a (by simp)))⟩

/-- **`key n1 :: … :: nk final… {`** from `_parse_declarations`: the class block is marked `final` iff `final` was written -/
theorem parseDeclarations_class_head_final (env : Env) (F D : Nat) (ck : CTok) (doxygen : Option String)
    (first : Tok) (pairs : List (Tok × Tok)) (fs : List Tok) (ob : Tok) (w : World) (b1 bmid b' : Buf)
    (blk : Block) (rest : List Block) (hstack : w.stack = blk :: rest)
    (hmu : w.muted = false) (hfa : ¬ env.faultAt = some w.delivered)
    (hck : isClassKey ck.value = true) (hckt : ck.type = ck.value)
    (htf : tokenEofOk env.cfg w.buf = .ok (some first, b1)) (hf : first.type = "NAME") (hfv : plainVal first.value = true)
    (hall : ∀ p ∈ pairs, p.1.type = "DBL_COLON" ∧ p.2.type = "NAME" ∧ plainVal p.2.value = true)
    (hy : Yields env.cfg b1 (pairs.flatMap (fun p => [p.1, p.2])) bmid)
    (hfs : ∀ f ∈ fs, f.type = "final") (hyf : Yields env.cfg bmid (fs ++ [ob]) b') (hob : ob.type = "{") (hF : pairs.length + 2 ≤ F)
    (hFf : fs.length + 1 ≤ F) :
    ∃ (w' : World), w'.buf = b' ∧ SameButLog w w' ∧
      interp env (parseDeclarations F (core F (D + 1 + 1)) ck doxygen) w =
        (pushedWorld env (classHdrF ck first pairs [] (!fs.isEmpty) blk doxygen) w', .ok ()) := by
  obtain ⟨t0, rest0, hsplit, ht0⟩ := finals_split fs ob hfs (.inl hob)
  rw [hsplit] at hyf
  obtain ⟨b0, htok, hyr⟩ := hyf.cons_inv
  obtain ⟨w1, t1, hi1, hs1, ht1, hty1, hval1⟩ := parseType_compound_s2 env F D ck first pairs w b1 bmid b0 t0 hck hckt htf hf hfv hall hy
    htok ht0 hF
  obtain ⟨w2, t2, hi2, hs2, ht2, hty2, hval2⟩ := step_tokenIf_miss env [";"] w1 t1 b0 ht1 (by rw [hty1]; rcases ht0 with h | h | h <;> (rw [h]; decide))
  obtain ⟨w0, c0, hi3, hb0, hs3, hty3, hval3⟩ := step_tokenIfP_hit env (fun t => Gen.classEnumStage2.contains t.type) w2 t2 b0 ht2
    (by intro c hct _; show Gen.classEnumStage2.contains c.type = true; rw [hct, hty2, hty1]; rcases ht0 with h | h | h <;> (rw [h]; decide))
  obtain ⟨w3, c3, hloop, hs4, hb3, hty4, _⟩ := classSpec_loop env fs c0 t0 rest0 ob false false F w0 b' hfs (by rw [hob]; decide) (by rw [hob]; decide)
    hsplit (by rw [hty3, hty2, hty1]) (by rw [hval3, hval2, hval1]) (by rw [hb0]; exact hyr) hFf
  simp only [Bool.false_or] at hloop
  have hc3 : c3.type = "{" := by rw [hty4, hob]
  have hsl : SameButLog w w3 := ((hs1.trans hs2.butLog).trans hs3.butLog).trans hs4.butLog
  have hst3 : w3.stack = blk :: rest := by rw [hsl.stack]; exact hstack
  have htop3 := interp_getTop env w3 blk rest hst3
  have hpush := interp_push_passing env (classHdrF ck first pairs [] (!fs.isEmpty) blk doxygen) w3 (by rw [hsl.muted]; exact hmu)
    (by rw [hsl.delivered]; exact hfa)
  refine ⟨w3, hb3, hsl, ?_⟩
  obtain ⟨k, rfl⟩ : ∃ k, F = k + 1 := ⟨F - 1, by omega⟩
  simp only [isClassKey, Bool.or_eq_true, beq_iff_eq] at hck
  unfold parseDeclarations
  simp only [bind, interp_bind, core_parseType, hi1, Option.bind, typenameOf, PQName.classkey]
  unfold maybeParseClassEnumDecl parseClassDecl
  rcases hck with (hv1 | hv1) | hv1
  all_goals
    simp only [hv1, classHdrF, defaultAccess] at hpush ⊢
    simp only [interp, ↓reduceIte, (by decide : ("struct" = "class") = False), (by decide : ("union" = "class") = False)] at hpush
    simp only [hloop, strTruthy, PQName.classkey, bind, interp_bind, hi2, Option.isSome_none, ↓reduceIte, Bool.false_eq_true, Option.getD_some,
      P.tokenIfInSet, hi3, validate_empty, Bool.not_false, hc3,
      (by decide : "class".isEmpty = false), (by decide : "struct".isEmpty = false), (by decide : "union".isEmpty = false),
      (by decide : ("{" = "final") = False), (by decide : ("{" = "explicit") = False), (by decide : ("{" = ":") = False),
      (by decide : ("struct" = "class") = False), (by decide : ("union" = "class") = False), (by decide : ("union" = "struct") = False),
      decide_true, decide_false, Bool.or_true, Bool.true_or, Bool.or_false, bne_self_eq_false, pure, interp, currentAccess, htop3,
      Block.view, Option.some.injEq, hpush]


/-- **`key n1 :: … :: nk final… : base-clause {`** from `_parse_declarations`: ONE class block whose header carries one `BaseClass` per
    written base, in order, each with its own access level / `virtual` / pack flag -/
theorem parseDeclarations_class_head_final_bases (env : Env) (F D : Nat) (ck : CTok) (doxygen : Option String)
    (first : Tok) (pairs : List (Tok × Tok)) (fs : List Tok) (colon : Tok) (bs : List (BaseItem × Tok)) (last : BaseItem) (ob : Tok) (w : World) (b1 bmid bc bb b' : Buf)
    (blk : Block) (rest : List Block) (hstack : w.stack = blk :: rest)
    (hmu : w.muted = false) (hfa : ¬ env.faultAt = some w.delivered)
    (hck : isClassKey ck.value = true) (hckt : ck.type = ck.value)
    (htf : tokenEofOk env.cfg w.buf = .ok (some first, b1)) (hf : first.type = "NAME") (hfv : plainVal first.value = true)
    (hall : ∀ p ∈ pairs, p.1.type = "DBL_COLON" ∧ p.2.type = "NAME" ∧ plainVal p.2.value = true)
    (hy : Yields env.cfg b1 (pairs.flatMap (fun p => [p.1, p.2])) bmid)
    (hfs : ∀ f ∈ fs, f.type = "final") (hyf : Yields env.cfg bmid (fs ++ [colon]) bc) (hcolon : colon.type = ":") (hFf : fs.length + 1 ≤ F)
    (hbs : ∀ q ∈ bs, q.1.OK ∧ q.2.type = "," ∧ q.1.specs.length + q.1.pairs.length + 2 ≤ F)
    (hlast : last.OK) (hlF : last.specs.length + last.pairs.length + 2 ≤ F)
    (hyb : Yields env.cfg bc (bs.flatMap (fun q => q.1.toks ++ [q.2]) ++ last.toks) bb)
    (htob : tokenEofOk env.cfg bb = .ok (some ob, b')) (hob : ob.type = "{") (hF : pairs.length + 2 ≤ F) (hFb : bs.length + 1 ≤ F) :
    ∃ (w' : World), w'.buf = b' ∧ SameButLog w w' ∧
      interp env (parseDeclarations F (core F (D + 1 + 1)) ck doxygen) w =
        (pushedWorld env (classHdrF ck first pairs (bs.map (fun q => q.1.denotes (defaultAccess ck.value)) ++ [last.denotes (defaultAccess ck.value)]) (!fs.isEmpty) blk doxygen) w', .ok ()) := by
  obtain ⟨t0, rest0, hsplit, ht0⟩ := finals_split fs colon hfs (.inr hcolon)
  rw [hsplit] at hyf
  obtain ⟨b0, htok, hyr⟩ := hyf.cons_inv
  obtain ⟨w1, t1, hi1, hs1, ht1, hty1, hval1⟩ := parseType_compound_s2 env F D ck first pairs w b1 bmid b0 t0 hck hckt htf hf hfv hall hy
    htok ht0 hF
  obtain ⟨w2, t2, hi2, hs2, ht2, hty2, hval2⟩ := step_tokenIf_miss env [";"] w1 t1 b0 ht1 (by rw [hty1]; rcases ht0 with h | h | h <;> (rw [h]; decide))
  obtain ⟨w0, c0, hi3, hb0, hs3, hty3, hval3⟩ := step_tokenIfP_hit env (fun t => Gen.classEnumStage2.contains t.type) w2 t2 b0 ht2
    (by intro c hct _; show Gen.classEnumStage2.contains c.type = true; rw [hct, hty2, hty1]; rcases ht0 with h | h | h <;> (rw [h]; decide))
  obtain ⟨w3, c3, hloop, hs3', hb3, hty3', _⟩ := classSpec_loop env fs c0 t0 rest0 colon false false F w0 bc hfs (by rw [hcolon]; decide) (by rw [hcolon]; decide)
    hsplit (by rw [hty3, hty2, hty1]) (by rw [hval3, hval2, hval1]) (by rw [hb0]; exact hyr) hFf
  simp only [Bool.false_or] at hloop
  have hc3 : c3.type = ":" := by rw [hty3', hcolon]
  obtain ⟨w4, t4, hi4, hs4, ht4, hty4, _⟩ := baseClause_list env F (D + 1) (defaultAccess ck.value) bs last [] ob w3 bb b' F hbs hlast hlF
    (by rw [hb3]; exact hyb) htob (by rw [hob]; decide) (by rw [hob]; decide) (by rw [hob]; decide) (by rw [hob]; decide) hFb
  have hi4' : interp env (parseClassDeclBaseClause F (core F (D + 1 + 1)) (defaultAccess ck.value)) w3 = _ := hi4
  obtain ⟨w5, c5, hi5, hb5, hs5, hty5, _⟩ := step_token env w4 t4 b' ht4
  have hc5 : c5.type = "{" := by rw [hty5, hty4, hob]
  have hsl : SameButLog w w5 := ((((hs1.trans hs2.butLog).trans hs3.butLog).trans hs3'.butLog).trans hs4).trans hs5.butLog
  have hst3 : w5.stack = blk :: rest := by rw [hsl.stack]; exact hstack
  have htop3 := interp_getTop env w5 blk rest hst3
  have hpush := interp_push_passing env (classHdrF ck first pairs (bs.map (fun q => q.1.denotes (defaultAccess ck.value)) ++ [last.denotes (defaultAccess ck.value)]) (!fs.isEmpty) blk doxygen) w5 (by rw [hsl.muted]; exact hmu)
    (by rw [hsl.delivered]; exact hfa)
  refine ⟨w5, hb5, hsl, ?_⟩
  obtain ⟨k, rfl⟩ : ∃ k, F = k + 1 := ⟨F - 1, by omega⟩
  simp only [isClassKey, Bool.or_eq_true, beq_iff_eq] at hck
  unfold parseDeclarations
  simp only [bind, interp_bind, core_parseType, hi1, Option.bind, typenameOf, PQName.classkey]
  unfold maybeParseClassEnumDecl parseClassDecl
  rcases hck with (hv1 | hv1) | hv1
  all_goals
    simp only [hv1, classHdrF, defaultAccess] at hpush hi4' ⊢
    simp only [interp, ↓reduceIte, (by decide : ("struct" = "class") = False), (by decide : ("union" = "class") = False)] at hpush
    simp only [↓reduceIte, List.nil_append, (by decide : ("struct" = "class") = False), (by decide : ("union" = "class") = False)] at hi4'
    simp only [hloop, strTruthy, PQName.classkey, bind, interp_bind, hi2, Option.isSome_none, ↓reduceIte, Bool.false_eq_true, Option.getD_some,
      P.tokenIfInSet, hi3, validate_empty, Bool.not_false, hc3, hc5, hi4', hi5, List.nil_append,
      (by decide : (":" = "final") = False), (by decide : (":" = "explicit") = False),
      (by decide : "class".isEmpty = false), (by decide : "struct".isEmpty = false), (by decide : "union".isEmpty = false),
      (by decide : ("{" = "final") = False), (by decide : ("{" = "explicit") = False), (by decide : ("{" = ":") = False),
      (by decide : ("struct" = "class") = False), (by decide : ("union" = "class") = False), (by decide : ("union" = "struct") = False),
      decide_true, decide_false, Bool.or_true, Bool.true_or, Bool.or_false, bne_self_eq_false, pure, interp, currentAccess, htop3,
      Block.view, Option.some.injEq, hpush]



end Cxx
