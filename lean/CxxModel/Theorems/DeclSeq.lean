import CxxModel.Theorems.TopLevel

/-!
# Whole-`parse()` theorems for sequences of declarations

The `toplevel_*` theorems are about ONE iteration of the loop in `parse()`.  Here they are put
together: a source that consists of ANY NUMBER of simple variable declarations, in any layout, with
any comments between them, is parsed to the end with exactly one `on_variable` callback per
declaration, in source order, and nothing else.
-/

namespace Cxx
open P

/-- the significant tokens of one declaration `first (:: name)* ptr-ops x ;` and the type it denotes -/
structure VarDeclToks where
  first : Tok
  pairs : List (Tok × Tok)
  ops : List Tok
  x : Tok
  semi : Tok
  d1 : DType

/-- the stream at `b` reads the declaration `v` and is at `b'` after its `;` -/
def VarDeclAt (cfg : LexCfg) (b : Buf) (v : VarDeclToks) (b' : Buf) : Prop :=
  ∃ (b1 b0 bmid bx : Buf), tokenEofOk cfg b = .ok (some v.first, b1) ∧ v.first.type = "NAME" ∧ identVal v.first.value = true ∧
    (∀ p ∈ v.pairs, p.1.type = "DBL_COLON" ∧ p.2.type = "NAME" ∧ plainVal p.2.value = true) ∧
    Yields cfg b1 (v.pairs.flatMap (fun p => [p.1, p.2])) b0 ∧ opsHeadOk v.ops = true ∧ (∀ o ∈ v.ops, o.value ≠ "auto") ∧
    Yields cfg b0 v.ops bmid ∧
    applyPtrOps (.type (.mk (.name v.first.value none :: v.pairs.map (fun p => .name p.2.value none)) none false) false false)
      (v.ops.map (·.type)) = some v.d1 ∧
    tokenEofOk cfg bmid = .ok (some v.x, bx) ∧ v.x.type = "NAME" ∧ identVal v.x.value = true ∧
    tokenEofOk cfg bx = .ok (some v.semi, b') ∧ v.semi.type = ";"

/-- the stream from `b` reads the declarations `vs` one after the other and is at `bE` afterwards -/
inductive VarDeclsAt (cfg : LexCfg) : Buf → List VarDeclToks → Buf → Prop
  | nil (b : Buf) : VarDeclsAt cfg b [] b
  | cons {b b' bE : Buf} {v : VarDeclToks} {vs : List VarDeclToks} :
      VarDeclAt cfg b v b' → VarDeclsAt cfg b' vs bE → VarDeclsAt cfg b (v :: vs) bE

theorem tokenEofOk_of_sigEq (cfg : LexCfg) {b c b1 : Buf} {o : Option Tok} (h : SigEq b c)
    (ht : tokenEofOk cfg b = .ok (o, b1)) : ∃ c1, tokenEofOk cfg c = .ok (o, c1) ∧ SigEq b1 c1 := by
  rcases tokenEofOk_sigEq cfg h with ⟨e, h1, _⟩ | ⟨o', c1, c1', h1, h2, hs⟩
  · rw [ht] at h1; cases h1
  · rw [ht] at h1
    injection h1 with h1; injection h1 with ho hb; subst ho; subst hb
    exact ⟨c1', h2, hs⟩

/-- a declaration is read the same from a stream state that differs in waiting layout only -/
theorem VarDeclAt.sigEq {cfg : LexCfg} {b c b' : Buf} {v : VarDeclToks} (hv : VarDeclAt cfg b v b') (h : SigEq b c) :
    ∃ c', VarDeclAt cfg c v c' ∧ SigEq b' c' := by
  obtain ⟨b1, b0, bmid, bx, h1, h2, h3, h4, h5, h6, h7, h8, h9, h10, h11, h12, h13, h14⟩ := hv
  obtain ⟨c1, k1, s1⟩ := tokenEofOk_of_sigEq cfg h h1
  obtain ⟨c0, k5, s0⟩ := h5.sigEq s1
  obtain ⟨cmid, k8, smid⟩ := h8.sigEq s0
  obtain ⟨cx, k10, sx⟩ := tokenEofOk_of_sigEq cfg smid h10
  obtain ⟨c', k13, s'⟩ := tokenEofOk_of_sigEq cfg sx h13
  exact ⟨c', ⟨c1, c0, cmid, cx, k1, h2, h3, h4, k5, h6, h7, k8, h9, k10, h11, h12, k13, h14⟩, s'⟩

/-- what the visitor is told about declaration `v` in the block with id `sid` -/
def VarEventFor (sid : Nat) (pid : Option Nat) (ev : Event) (v : VarDeclToks) : Prop :=
  ∃ dox, ev.kind = .item (.variable (plainVariable v.x v.d1 dox)) ∧ ev.stateId = sid ∧ ev.parentId = pid

/-- the events `evs` are, one for one and in order, what `R` allows for the declarations `vs` -/
inductive OneEach {α : Type} (R : Event → α → Prop) : List Event → List α → Prop
  | nil : OneEach R [] []
  | cons {e : Event} {a : α} {es : List Event} {as : List α} : R e a → OneEach R es as → OneEach R (e :: es) (a :: as)

theorem OneEach.length {α : Type} {R : Event → α → Prop} {es : List Event} {as : List α} (h : OneEach R es as) :
    es.length = as.length := by
  induction h with
  | nil => rfl
  | cons _ _ ih => simp [ih]

/-- **a source made of variable declarations is parsed to its end, one callback each, in order**:
    for ANY number of declarations `T ptr-ops x ;` (qualified type names, any pointer chain, any layout
    and comments between and inside them), outside a class, with a visitor that does not raise, the
    loop of `parse()` runs to the end of the input and the events added are exactly one
    `on_variable` per declaration, in source order, each with the declared name and the type the
    declarator denotes, all in the enclosing block's state. -/
theorem parse_variable_sequence (env : Env) (hp : RulesProgress env.cfg = true) (hnf : env.faultAt = none) (F D : Nat)
    (rest : List Block) : ∀ (vs : List VarDeclToks) (w : World) (b bE bEE : Buf) (blk : Block),
    w.stack = blk :: rest → blk.hdr.kind ≠ .cls → w.muted = false →
    SigEq b w.buf → VarDeclsAt env.cfg b vs bE → tokenEofOk env.cfg bE = .ok (none, bEE) →
    (∀ v ∈ vs, v.pairs.length + v.ops.length + 2 ≤ F) → vs.length + 1 ≤ F →
    ∃ (wF : World) (evs : List Event) (blkF : Block),
      interp env (mainLoop F (core F (D + 1 + 1))) w = (wF, .ok ()) ∧
      wF.events = w.events ++ evs ∧ OneEach (VarEventFor blk.id (rest.head?.map (·.id))) evs vs ∧
      wF.stack = blkF :: rest ∧ blkF.hdr = blk.hdr ∧ blkF.id = blk.id ∧
      wF.delivered = w.delivered + vs.length ∧ wF.anon = w.anon ∧ wF.muted = false ∧ wF.nextId = w.nextId := by
  suffices hmain : ∀ (n : Nat) (vs : List VarDeclToks) (w : World) (b bE bEE : Buf) (blk : Block),
      w.stack = blk :: rest → blk.hdr.kind ≠ .cls → w.muted = false →
      SigEq b w.buf → VarDeclsAt env.cfg b vs bE → tokenEofOk env.cfg bE = .ok (none, bEE) →
      (∀ v ∈ vs, v.pairs.length + v.ops.length + 2 ≤ F) → vs.length + 1 ≤ n →
      ∃ (wF : World) (evs : List Event) (blkF : Block),
        interp env (loopN n (none : Option String) (mainBody F (core F (D + 1 + 1)))) w = (wF, .ok ()) ∧
        wF.events = w.events ++ evs ∧ OneEach (VarEventFor blk.id (rest.head?.map (·.id))) evs vs ∧
        wF.stack = blkF :: rest ∧ blkF.hdr = blk.hdr ∧ blkF.id = blk.id ∧
        wF.delivered = w.delivered + vs.length ∧ wF.anon = w.anon ∧ wF.muted = false ∧ wF.nextId = w.nextId by
    intro vs w b bE bEE blk h1 h2 h3 h4 h5 h6 h7 h8
    exact hmain F vs w b bE bEE blk h1 h2 h3 h4 h5 h6 h7 h8
  intro n vs
  induction vs generalizing n with
  | nil =>
    intro w b bE bEE blk hst hk hmu hsig hvs heof _ hn
    cases hvs
    obtain ⟨cE, heof', _⟩ := tokenEofOk_of_sigEq env.cfg hsig heof
    obtain ⟨wF, hi, h1, h2, h3, h4, h5, h6⟩ := toplevel_eof env hp F (core F (D + 1 + 1)) w cE heof'
    obtain ⟨k, rfl⟩ : ∃ k, n = k + 1 := ⟨n - 1, by omega⟩
    refine ⟨wF, [], blk, ?_, by simp [h2], .nil, by rw [h1]; exact hst, rfl, rfl, by simp [h3], h4, by rw [h5]; exact hmu, h6⟩
    rw [loopN]
    simp only [bind, interp_bind, hi, pure, interp]
  | cons v vs ih =>
    intro w b bE bEE blk hst hk hmu hsig hvs heof hF hn
    cases hvs with
    | cons hv hrest =>
      rename_i b'
      obtain ⟨c', hv', hs'⟩ := hv.sigEq hsig
      obtain ⟨b1, b0, bmid, bx, h1, h2, h3, h4, h5, h6, h7, h8, h9, h10, h11, h12, h13, h14⟩ := hv'
      obtain ⟨d, bD, w7, ct, dox, ev, _, hi7, hsig7, _, hst7, hev7, hk7, hid7, hpar7, _, hdl7, han7, hmu7, hnx7⟩ :=
        toplevel_variable env hp F D w v.first v.pairs v.ops v.x v.semi v.d1 b1 b0 bmid bx c' blk rest hst hk hmu
          (by rw [hnf]; simp) h1 h2 h3 h4 h5 h6 h7 h8 h9 h10 h11 h12 h13 h14 (hF v (by simp))
      obtain ⟨k, rfl⟩ : ∃ k, n = k + 1 := ⟨n - 1, by omega⟩
      obtain ⟨wF, evs, blkF, hiF, hevF, hfor, hstF, hhdr, hidF, hdlF, hanF, hmuF, hnxF⟩ :=
        ih k w7 b' bE bEE { blk with loc := .tok ct.sidx } hst7 hk hmu7 (hs'.trans hsig7) hrest heof
          (fun u hu => hF u (by simp [hu])) (by simp at hn; omega)
      refine ⟨wF, ev :: evs, blkF, ?_, by rw [hevF, hev7]; simp, .cons ⟨dox, hk7, hid7, hpar7⟩ hfor, hstF, hhdr, hidF,
        by rw [hdlF, hdl7]; simp; omega, by rw [hanF, han7], hmuF, by rw [hnxF, hnx7]⟩
      rw [loopN]
      simp only [bind, interp_bind, hi7]
      exact hiF

end Cxx
