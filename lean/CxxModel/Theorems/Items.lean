import CxxModel.Theorems.DeclSeq

/-!
# A compositional description of whole sources

An `Item` describes a piece of source — which significant tokens the stream must read for it
(`At`), which callbacks it allows (`Ev`) and how many iterations of the loop in `parse()` it
takes — together with a PROOF (`sound`) that from every parser state at non-class scope with an
active visitor those iterations run, leave the block stack as it was and add exactly those
callbacks.  Items compose: a sequence of items is an item (`Item.seq`), and `namespace N { item }`
is an item (`Item.ns`), so the final theorem `parse_item` covers sources of ANY length and ANY
nesting depth built from the proven declaration forms.
-/

namespace Cxx
open P

/-- only `state.location` differs -/
def Block.SameButLoc (a b : Block) : Prop :=
  a.id = b.id ∧ a.hdr = b.hdr ∧ a.access = b.access ∧ a.priorMuted = b.priorMuted ∧ a.isGlobal = b.isGlobal

theorem Block.SameButLoc.refl (a : Block) : a.SameButLoc a := ⟨rfl, rfl, rfl, rfl, rfl⟩
theorem Block.SameButLoc.trans {a b c : Block} (h1 : a.SameButLoc b) (h2 : b.SameButLoc c) : a.SameButLoc c :=
  ⟨h1.1.trans h2.1, h1.2.1.trans h2.2.1, h1.2.2.1.trans h2.2.2.1, h1.2.2.2.1.trans h2.2.2.2.1, h1.2.2.2.2.trans h2.2.2.2.2⟩
theorem Block.SameButLoc.symm {a b : Block} (h : a.SameButLoc b) : b.SameButLoc a :=
  ⟨h.1.symm, h.2.1.symm, h.2.2.1.symm, h.2.2.2.1.symm, h.2.2.2.2.symm⟩
theorem Block.sameButLoc_setLoc (a : Block) (l : LocRef) : a.SameButLoc { a with loc := l } := ⟨rfl, rfl, rfl, rfl, rfl⟩

theorem IterChain.append {env : Env} {F : Nat} {c : Core} : ∀ {ws1 ws2 : List World} {w w1 w2 : World},
    IterChain env F c w ws1 w1 → IterChain env F c w1 ws2 w2 → IterChain env F c w (ws1 ++ ws2) w2 := by
  intro ws1
  induction ws1 with
  | nil => intro ws2 w w1 w2 h1 h2; cases h1; exact h2
  | cons x xs ih =>
    intro ws2 w w1 w2 h1 h2
    cases h1 with
    | cons hi hrest => exact .cons hi (ih hrest h2)

theorem IterChain.one {env : Env} {F : Nat} {c : Core} {w w1 : World}
    (h : interp env (mainBody F c none) w = (w1, .ok (.inl none))) : IterChain env F c w [w1] w1 :=
  .cons h (.nil _)

/-- what running a piece of source from `w` achieves: `n` iterations, the same block on top
    (only its location may move), the events `evs` added, the visitor still active, the stream
    where `b'` says up to layout -/
structure Ran (env : Env) (F : Nat) (c : Core) (w : World) (n : Nat) (b' : Buf) (blk : Block) (rest : List Block)
    (evs : List Event) (w7 : World) : Prop where
  chain : ∃ ws, IterChain env F c w ws w7 ∧ ws.length = n
  buf : SigEq b' w7.buf
  stack : ∃ blk7, w7.stack = blk7 :: rest ∧ blk.SameButLoc blk7
  events : w7.events = w.events ++ evs
  muted : w7.muted = false

/-- a piece of source, what it makes the parser tell the visitor, and the proof of that -/
structure Item (env : Env) (F : Nat) (c : Core) where
  /-- the stream reads this piece from the first state to the second -/
  At : Buf → Buf → Prop
  /-- the callbacks allowed for it inside block `blk` whose enclosing blocks are `rest` -/
  Ev : Block → List Block → List Event → Prop
  /-- iterations of the loop in `parse()` it takes -/
  size : Nat
  at_sigEq : ∀ {b b' k : Buf}, At b b' → SigEq b k → ∃ k', At k k' ∧ SigEq b' k'
  sound : ∀ (w : World) (b' : Buf) (blk : Block) (rest : List Block), w.stack = blk :: rest → blk.hdr.kind ≠ .cls →
    w.muted = false → At w.buf b' → ∃ (w7 : World) (evs : List Event), Ran env F c w size b' blk rest evs w7 ∧ Ev blk rest evs

/-! ### sequences -/

/-- the stream reads the items one after the other -/
inductive SeqAt {env : Env} {F : Nat} {c : Core} : List (Item env F c) → Buf → Buf → Prop
  | nil (b : Buf) : SeqAt [] b b
  | cons {it : Item env F c} {its : List (Item env F c)} {b b1 b' : Buf} : it.At b b1 → SeqAt its b1 b' → SeqAt (it :: its) b b'

/-- the events are the items' events, one group each, in order -/
inductive SeqEv {env : Env} {F : Nat} {c : Core} (blk : Block) (rest : List Block) : List (Item env F c) → List Event → Prop
  | nil : SeqEv blk rest [] []
  | cons {it : Item env F c} {its : List (Item env F c)} {g evs : List Event} {blk' : Block} :
      blk.SameButLoc blk' → it.Ev blk' rest g → SeqEv blk rest its evs → SeqEv blk rest (it :: its) (g ++ evs)

def seqSize {env : Env} {F : Nat} {c : Core} (its : List (Item env F c)) : Nat := (its.map (·.size)).sum

theorem SeqAt.sigEq {env : Env} {F : Nat} {c : Core} : ∀ {its : List (Item env F c)} {b b' k : Buf},
    SeqAt its b b' → SigEq b k → ∃ k', SeqAt its k k' ∧ SigEq b' k' := by
  intro its
  induction its with
  | nil => intro b b' k h hs; cases h; exact ⟨k, .nil _, hs⟩
  | cons it its ih =>
    intro b b' k h hs
    cases h with
    | cons h1 hrest =>
      obtain ⟨k1, hk1, hs1⟩ := it.at_sigEq h1 hs
      obtain ⟨k', hk', hs'⟩ := ih hrest hs1
      exact ⟨k', .cons hk1 hk', hs'⟩

theorem seq_sound {env : Env} {F : Nat} {c : Core} : ∀ (its : List (Item env F c)) (w : World) (b' : Buf) (blk : Block)
    (rest : List Block), w.stack = blk :: rest → blk.hdr.kind ≠ .cls → w.muted = false → SeqAt its w.buf b' →
    ∃ (w7 : World) (evs : List Event), Ran env F c w (seqSize its) b' blk rest evs w7 ∧ SeqEv blk rest its evs := by
  intro its
  induction its with
  | nil =>
    intro w b' blk rest hst hk hmu hat
    cases hat
    exact ⟨w, [], ⟨⟨[], .nil _, rfl⟩, SigEq.refl _, ⟨blk, hst, .refl _⟩, by simp, hmu⟩, .nil⟩
  | cons it its ih =>
    intro w b' blk rest hst hk hmu hat
    cases hat with
    | cons h1 hrest =>
      rename_i b1
      obtain ⟨w1, g, ⟨⟨ws1, hc1, hl1⟩, hb1, ⟨blk1, hst1, hsb1⟩, hev1, hmu1⟩, hg⟩ := it.sound w b1 blk rest hst hk hmu h1
      obtain ⟨k', hrest', hs'⟩ := hrest.sigEq hb1
      obtain ⟨w7, evs, ⟨⟨ws2, hc2, hl2⟩, hb2, ⟨blk7, hst7, hsb7⟩, hev2, hmu2⟩, hse⟩ :=
        ih w1 k' blk1 rest hst1 (by rw [← hsb1.2.1]; exact hk) hmu1 hrest'
      refine ⟨w7, g ++ evs, ⟨⟨ws1 ++ ws2, hc1.append hc2, by simp [hl1, hl2, seqSize]⟩, hs'.trans hb2,
        ⟨blk7, hst7, hsb1.trans hsb7⟩, by rw [hev2, hev1]; simp, hmu2⟩, ?_⟩
      refine .cons (.refl _) hg ?_
      -- the later groups are stated relative to `blk1`; re-anchor them at `blk`
      clear hc2 hl2 hb2 hst7 hev2 hmu2 hrest' ih hrest
      induction hse with
      | nil => exact .nil
      | cons hsb hev _ ih2 => exact .cons (hsb1.trans hsb) hev ih2

/-- **a sequence of items is an item** -/
def Item.seq {env : Env} {F : Nat} {c : Core} (its : List (Item env F c)) : Item env F c where
  At := SeqAt its
  Ev := fun blk rest evs => SeqEv blk rest its evs
  size := seqSize its
  at_sigEq := fun h hs => h.sigEq hs
  sound := seq_sound its

/-! ### the whole parse -/

/-- **`parse()` on a source that is an item**: the loop runs to the end of the input, the events
    added are exactly the item's, the block stack is as before -/
theorem parse_item (env : Env) (hp : RulesProgress env.cfg = true) (F : Nat) (c : Core) (it : Item env F c)
    (w : World) (b bE bEE : Buf) (blk : Block) (rest : List Block)
    (hst : w.stack = blk :: rest) (hk : blk.hdr.kind ≠ .cls) (hmu : w.muted = false)
    (hsig : SigEq b w.buf) (hat : it.At b bE) (heof : tokenEofOk env.cfg bE = .ok (none, bEE)) (hF : it.size + 1 ≤ F) :
    ∃ (wF : World) (evs : List Event) (blkF : Block),
      interp env (mainLoop F c) w = (wF, .ok ()) ∧ wF.events = w.events ++ evs ∧ it.Ev blk rest evs ∧
      wF.stack = blkF :: rest ∧ blk.SameButLoc blkF ∧ wF.muted = false := by
  obtain ⟨k, hat', hs'⟩ := it.at_sigEq hat hsig
  obtain ⟨w7, evs, ⟨⟨ws, hc, hl⟩, hb, ⟨blk7, hst7, hsb⟩, hev, hmu7⟩, hE⟩ := it.sound w k blk rest hst hk hmu hat'
  obtain ⟨cE, heof', _⟩ := tokenEofOk_of_sigEq env.cfg (hs'.trans hb) heof
  obtain ⟨wF, hi, h1, h2, _, _, h5, _⟩ := toplevel_eof env hp F c w7 cE heof'
  exact ⟨wF, evs, blk7, mainLoop_of_chain env F c ws w w7 wF hc hi (by omega), by rw [h2, hev], hE, by rw [h1]; exact hst7,
    hsb, by rw [h5]; exact hmu7⟩

end Cxx
