/-
  Theorems/ChainRoundTrip.lean — format → parse for pointer chains, at the token level (C17):
  for every type `d` built from an unqualified-cv name by any number of pointer levels with any
  cv flags, `format()` writes the name followed by exactly the operators `chainOps d` (each `*`,
  then ` const`, then ` volatile` as flagged), and decoding those operators the way
  `_parse_cv_ptr_or_fn` does (`applyPtrOps`, `C02_pointer_chain`) gives back `d`.
-/
import CxxModel.Format
import CxxModel.Theorems.PtrChain
namespace Cxx
open P

/-- pointer chains over a plain (not const, not volatile) named type -/
def isChain : DType → Bool
  | .type _ c v => !c && !v
  | .ptr t _ _ => isChain t
  | _ => false

def chainBase : DType → Option PQName
  | .type n _ _ => some n
  | .ptr t _ _ => chainBase t
  | _ => none

/-- the declarator operators `format()` writes for a chain, innermost first -/
def chainOps : DType → List String
  | .ptr t c v => chainOps t ++ ["*"] ++ (if c then ["const"] else []) ++ (if v then ["volatile"] else [])
  | _ => []

/-- how `format()` spells an operator -/
def renderOp (op : String) : String := if op = "*" then "*" else " " ++ op

theorem isChain_notRef : ∀ (d : DType), isChain d = true → isRefLike d = false
  | .type _ _ _, _ => rfl
  | .ptr _ _ _, _ => rfl
  | .ref _, h => by simp [isChain] at h
  | .mref _, h => by simp [isChain] at h
  | .array _ _, h => by simp [isChain] at h
  | .fn _ _ _ _ _ _, h => by simp [isChain] at h

/-- **parse ∘ format = id on chains (operators)**: decoding the written operators gives the type back -/
theorem chain_decodes : ∀ (d : DType) (n : PQName), isChain d = true → chainBase d = some n →
    applyPtrOps (.type n false false) (chainOps d) = some d
  | .type m c v, n, h, hb => by
    simp only [isChain, Bool.and_eq_true, Bool.not_eq_true'] at h
    simp only [chainBase, Option.some.injEq] at hb
    subst hb
    rw [h.1, h.2]
    rfl
  | .ptr t c v, n, h, hb => by
    have ih := chain_decodes t n (by simpa [isChain] using h) (by simpa [chainBase] using hb)
    have hnr := isChain_notRef t (by simpa [isChain] using h)
    simp only [chainOps, List.append_assoc]
    rw [applyPtrOps_append, ih]
    cases c <;> cases v <;> simp [applyPtrOps, ptrStep, hnr, setConst, setVolatile]
  | .ref _, _, h, _ => by simp [isChain] at h
  | .mref _, _, h, _ => by simp [isChain] at h
  | .array _ _, _, h, _ => by simp [isChain] at h
  | .fn _ _ _ _ _ _, _, h, _ => by simp [isChain] at h

/-- **what `format()` writes for a chain**: the name, then the operators in order -/
theorem chain_format : ∀ (d : DType) (n : PQName), isChain d = true → chainBase d = some n →
    fmtType d = fmtPQName n ++ String.join ((chainOps d).map renderOp)
  | .type m c v, n, h, hb => by
    simp only [isChain, Bool.and_eq_true, Bool.not_eq_true'] at h
    simp only [chainBase, Option.some.injEq] at hb
    subst hb
    simp [fmtType, h.1, h.2, chainOps]
  | .ptr t c v, n, h, hb => by
    have ih := chain_format t n (by simpa [isChain] using h) (by simpa [chainBase] using hb)
    have ht : isChain t = true := by simpa [isChain] using h
    cases t with
    | type m c' v' =>
      simp only [fmtType] at ih ⊢
      rw [ih]
      cases c <;> cases v <;> simp [chainOps, renderOp, String.append_assoc]
    | ptr t' c' v' =>
      have hfm : fmtType ((DType.ptr t' c' v').ptr c v) =
          fmtType (DType.ptr t' c' v') ++ "*" ++ (if c then " const" else "") ++ (if v then " volatile" else "") := by
        simp [fmtType]
      rw [hfm, ih]
      cases c <;> cases v <;> simp [chainOps, renderOp, String.append_assoc]
    | ref _ => simp [isChain] at ht
    | mref _ => simp [isChain] at ht
    | array _ _ => simp [isChain] at ht
    | fn _ _ _ _ _ _ => simp [isChain] at ht
  | .ref _, _, h, _ => by simp [isChain] at h
  | .mref _, _, h, _ => by simp [isChain] at h
  | .array _ _, _, h, _ => by simp [isChain] at h
  | .fn _ _ _ _ _ _, _, h, _ => by simp [isChain] at h

/-- `format_decl(name)` of a chain: the formatted type, a blank, the name -/
theorem chain_format_decl (d : DType) (n : PQName) (name : String) (h : isChain d = true) (hb : chainBase d = some n) :
    fmtDecl d name = fmtPQName n ++ String.join ((chainOps d).map renderOp) ++ " " ++ name := by
  rw [← chain_format d n h hb]
  cases d with
  | type m c v =>
    simp only [isChain, Bool.and_eq_true, Bool.not_eq_true'] at h
    simp [fmtDecl, fmtType, h.1, h.2]
  | ptr t c v =>
    have ht : isChain t = true := by simpa [isChain] using h
    cases t with
    | type m c' v' => simp [fmtDecl, fmtType, String.append_assoc]
    | ptr t' c' v' => simp [fmtDecl, fmtType, String.append_assoc]
    | ref _ => simp [isChain] at ht
    | mref _ => simp [isChain] at ht
    | array _ _ => simp [isChain] at ht
    | fn _ _ _ _ _ _ => simp [isChain] at ht
  | ref _ => simp [isChain] at h
  | mref _ => simp [isChain] at h
  | array _ _ => simp [isChain] at h
  | fn _ _ _ _ _ _ => simp [isChain] at h

/-- the written operators are empty or start with `*` (the shape `toplevel_variable` asks for) -/
theorem chainOps_head : ∀ (d : DType), chainOps d = [] ∨ (chainOps d).head? = some "*"
  | .type _ _ _ => .inl rfl
  | .ptr t c v => by
    rcases chainOps_head t with h | h
    · right; simp [chainOps, h]
    · right
      cases hc : chainOps t with
      | nil => simp [hc] at h
      | cons o os => simp [chainOps, hc] at h ⊢; exact h
  | .ref _ => .inl rfl
  | .mref _ => .inl rfl
  | .array _ _ => .inl rfl
  | .fn _ _ _ _ _ _ => .inl rfl

end Cxx
