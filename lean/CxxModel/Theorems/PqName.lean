/-
  Theorems/PqName.lean — plain qualified names `n1 :: n2 :: … :: nk` (C02, C01): for names that
  are identifiers (not keywords of any kind) and a following token that is neither `<` nor `::`,
  `_parse_pqname` returns exactly the segments `[n1, …, nk]`, no class key, no `typename`, no
  operator, and leaves the following token in the stream — for every length, every stream and
  parser state, whatever `fn_ok` / `compound_ok` / `fund_ok`.
-/
import CxxModel.Theorems.Steps
import CxxModel.Tables
namespace Cxx
open P

/-- the text of an identifier segment: none of the words the segment parser treats specially -/
def plainVal (v : String) : Bool :=
  v != "decltype" && !Gen.fundamentals.contains v && v != "[[" && v != "template" && v != "operator"

/-- a plain identifier segment -/
theorem pqnameSeg_plain (env : Env) (F : Nat) (rec : Core) (fnOk fundOk : Bool) (segs : List PQSeg) (ct : CTok)
    (w : World) (nx : Tok) (b1 : Buf) (hpv : plainVal ct.value = true)
    (htok : tokenEofOk env.cfg w.buf = .ok (some nx, b1)) (hnx : nx.type ≠ "<") :
    ∃ (w1 : World) (t' : Tok), interp env (pqnameSeg F rec fnOk fundOk segs ct) w =
        (w1, .ok (segs ++ [.name ct.value none], none, false)) ∧
      SameParse w w1 ∧ tokenEofOk env.cfg w1.buf = .ok (some t', b1) ∧ t'.type = nx.type ∧ t'.value = nx.value := by
  simp only [plainVal, Bool.and_eq_true, bne_iff_ne, ne_eq, Bool.not_eq_true'] at hpv
  obtain ⟨⟨⟨⟨h1, h2⟩, h3⟩, h4⟩, h5⟩ := hpv
  obtain ⟨w1, t', hi, hs, ht, hty, hv⟩ := step_tokenIf_miss env ["<"] w nx b1 htok (by simp [hnx])
  refine ⟨w1, t', ?_, hs, ht, hty, hv⟩
  unfold pqnameSeg parsePqnameName
  simp only [h1, h2, h3, h4, h5, ↓reduceIte, Bool.false_eq_true, bind, interp_bind, pure, interp, hi, opTruthy]

/-- the segment loop on `ct (:: name)*` followed by a token that is neither `<` nor `::` -/
theorem pqname_loop (env : Env) (F : Nat) (rec : Core) (fnOk fundOk : Bool) :
    ∀ (pairs : List (Tok × Tok)) (segs : List PQSeg) (ct : CTok) (w : World) (bmid b' : Buf) (term : Tok) (n : Nat),
    plainVal ct.value = true →
    (∀ p ∈ pairs, p.1.type = "DBL_COLON" ∧ p.2.type = "NAME" ∧ plainVal p.2.value = true) →
    Yields env.cfg w.buf (pairs.flatMap (fun p => [p.1, p.2])) bmid →
    tokenEofOk env.cfg bmid = .ok (some term, b') → term.type ≠ "<" → term.type ≠ "DBL_COLON" → pairs.length + 1 ≤ n →
    ∃ (w' : World) (t' : Tok),
      interp env (loopN n (segs, ct) (pqnameBody F rec fnOk fundOk)) w =
        (w', .ok (segs ++ .name ct.value none :: pairs.map (fun p => .name p.2.value none), none)) ∧
      SameParse w w' ∧ tokenEofOk env.cfg w'.buf = .ok (some t', b') ∧ t'.type = term.type ∧ t'.value = term.value := by
  intro pairs
  induction pairs with
  | nil =>
    intro segs ct w bmid b' term n hpv _ hy htok hlt hdc hn
    cases hy
    obtain ⟨k, rfl⟩ : ∃ k, n = k + 1 := ⟨n - 1, by omega⟩
    obtain ⟨w1, t1, hi1, hs1, ht1, hty1, hv1⟩ := pqnameSeg_plain env F rec fnOk fundOk segs ct w term b' hpv htok hlt
    obtain ⟨w2, t2, hi2, hs2, ht2, hty2, hv2⟩ := step_tokenIf_miss env ["DBL_COLON"] w1 t1 b' ht1 (by simp [hty1, hdc])
    refine ⟨w2, t2, ?_, hs1.trans hs2, ht2, by rw [hty2, hty1], by rw [hv2, hv1]⟩
    rw [loopN]
    have hbody : interp env (pqnameBody F rec fnOk fundOk (segs, ct)) w = (w2, .ok (.inr (segs ++ [.name ct.value none], none))) := by
      unfold pqnameBody
      simp only [bind, interp_bind, hi1, Bool.false_eq_true, ↓reduceIte, hi2, pure, interp]
    simp only [bind, interp_bind, hbody, pure, interp, List.map_nil]
  | cons p rest ih =>
    intro segs ct w bmid b' term n hpv hall hy htok hlt hdc hn
    obtain ⟨hp1, hp2, hp3⟩ := hall p (by simp)
    simp only [List.flatMap_cons, List.cons_append, List.nil_append] at hy
    cases hy with
    | cons htokA hrestA =>
      rename_i bA
      cases hrestA with
      | cons htokB hrestB =>
        rename_i bB
        obtain ⟨k, rfl⟩ : ∃ k, n = k + 1 := ⟨n - 1, by omega⟩
        obtain ⟨w1, t1, hi1, hs1, ht1, hty1, _⟩ := pqnameSeg_plain env F rec fnOk fundOk segs ct w p.1 bA hpv htokA (by rw [hp1]; decide)
        obtain ⟨w2, c2, hi2, hb2, hs2, _, _⟩ := step_tokenIf_hit env ["DBL_COLON"] w1 t1 bA ht1 (by rw [hty1, hp1]; decide)
        obtain ⟨w3, c3, hi3, hb3, hs3, _, hv3⟩ := step_mustBe env ["NAME", "operator", "template", "decltype"] w2 p.2 bB
          (by rw [hb2]; exact htokB) (by rw [hp2]; decide)
        obtain ⟨w', t', hw, hs, ht, hty, hv⟩ := ih (segs ++ [.name ct.value none]) c3 w3 bmid b' term k (by rw [hv3]; exact hp3)
          (fun q hq => hall q (by simp [hq])) (by rw [hb3]; exact hrestB) htok hlt hdc (by simp at hn; omega)
        refine ⟨w', t', ?_, ((hs1.trans hs2).trans hs3).trans hs, ht, hty, hv⟩
        rw [loopN]
        have hbody : interp env (pqnameBody F rec fnOk fundOk (segs, ct)) w = (w3, .ok (.inl (segs ++ [.name ct.value none], c3))) := by
          unfold pqnameBody
          simp only [bind, interp_bind, hi1, Bool.false_eq_true, ↓reduceIte, hi2, hi3, pure, interp]
        rw [hv3] at hw
        simp only [bind, interp_bind, hbody, hw, List.map_cons, List.append_assoc, List.singleton_append]

/-- what `debug_print` does to the parser state: a log line in verbose mode, nothing otherwise -/
def logged (env : Env) (w : World) (m : String) : World :=
  if env.opts.verbose then { w with debugLog := w.debugLog ++ [m] } else w

/-- **`n1 :: … :: nk`** starting at the already read identifier `ct` -/
theorem plain_pqname (env : Env) (F : Nat) (rec : Core) (fnOk compoundOk fundOk : Bool) (ct : CTok)
    (pairs : List (Tok × Tok)) (w : World) (bmid b' : Buf) (term : Tok)
    (hty : ct.type = "NAME") (hpv : plainVal ct.value = true) (hnc : Gen.nameCompoundStart.contains ct.value = false)
    (hall : ∀ p ∈ pairs, p.1.type = "DBL_COLON" ∧ p.2.type = "NAME" ∧ plainVal p.2.value = true)
    (hy : Yields env.cfg w.buf (pairs.flatMap (fun p => [p.1, p.2])) bmid)
    (htok : tokenEofOk env.cfg bmid = .ok (some term, b')) (hlt : term.type ≠ "<") (hdc : term.type ≠ "DBL_COLON")
    (hF : pairs.length + 1 ≤ F) :
    ∃ (w' : World) (t' : Tok),
      interp env (parsePqnameStep F rec (some ct) fnOk compoundOk fundOk) w =
        (logged env w' "parse_pqname",
          .ok (.mk (.name ct.value none :: pairs.map (fun p => .name p.2.value none)) none false, none)) ∧
      SameParse w w' ∧ tokenEofOk env.cfg w'.buf = .ok (some t', b') ∧ t'.type = term.type ∧ t'.value = term.value := by
  obtain ⟨w', t', hw, hs, ht, hty', hv⟩ := pqname_loop env F rec fnOk fundOk pairs [] ct w bmid b' term F hpv hall hy htok hlt hdc hF
  refine ⟨w', t', ?_, hs, ht, hty', hv⟩
  have hstart : Gen.pqnameStartTokens.contains "NAME" = true := by decide
  unfold parsePqnameStep
  simp only [pure, interp, bind, interp_bind, hty, hstart, Bool.not_true, Bool.false_eq_true, ↓reduceIte, hnc,
    (by decide : ("NAME" = "auto") = False), (by decide : ("NAME" = "typename") = False),
    (by decide : ("NAME" = "DBL_COLON") = False), hw, List.nil_append, P.debugPrint, logged]

end Cxx
