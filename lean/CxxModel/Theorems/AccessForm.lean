/-
  Theorems/AccessForm.lean — `public:` / `protected:` / `private:` inside a class body (C03):
  `_process_access_specifier` sets the access level of the innermost open class — and of that
  block only — to the written keyword, consumes the colon and delivers nothing.
-/
import CxxModel.Theorems.Structural
namespace Cxx
open P

theorem access_specifier_form (env : Env) (tok : CTok) (colon : Tok) (w : World) (b1 : Buf) (blk : Block) (rest : List Block)
    (hstack : w.stack = blk :: rest) (hk : blk.view.kind = .cls) (hc : colon.type = ":")
    (htok : tokenEofOk env.cfg w.buf = .ok (some colon, b1)) :
    ∃ w', interp env (processAccessSpecifier tok) w = (w', .ok ()) ∧ w'.buf = b1 ∧
      w'.stack = { blk with access := some tok.value } :: rest ∧
      w'.events = w.events ∧ w'.delivered = w.delivered ∧ w'.anon = w.anon ∧ w'.muted = w.muted := by
  obtain ⟨w1, c, hi, hb, hs, _, _⟩ := step_mustBe env [":"] { w with stack := { blk with access := some tok.value } :: rest } colon b1
    htok (by rw [hc]; decide)
  refine ⟨w1, ?_, hb, hs.stack, hs.events, hs.delivered, hs.anon, hs.muted⟩
  unfold processAccessSpecifier
  simp only [bind, interp_bind, interp_getTop env w blk rest hstack, hk, bne_self_eq_false, Bool.false_eq_true, ↓reduceIte,
    interp, hstack, hi, pure]

end Cxx
