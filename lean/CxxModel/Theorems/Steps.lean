/-
  Theorems/Steps.lean — packaged single-token steps of the client interface, stated against
  the significant-token relation only (no `handOut` bookkeeping in the statement):

  * `step_mustBe`     — `_next_token_must_be(types)` on a token of a listed type;
  * `step_tokenIf_hit`  — `token_if(types)` on a token of a listed type;
  * `step_tokenIf_miss` — `token_if(types)` on any other token: nothing is consumed, the token
                          (same type and text) is the next one again.
-/
import CxxModel.Theorems.UsingDir
import CxxModel.Theorems.PtrChain
namespace Cxx
open P

theorem step_mustBe (env : Env) (types : List String) (w : World) (t : Tok) (b1 : Buf)
    (htok : tokenEofOk env.cfg w.buf = .ok (some t, b1)) (hty : types.contains t.type = true) :
    ∃ (w1 : World) (c : CTok), interp env (P.nextTokenMustBe types) w = (w1, .ok c) ∧ w1.buf = b1 ∧ SameParse w w1 ∧
      c.type = t.type ∧ c.value = t.value := by
  obtain ⟨hs, hb, hty', hv⟩ := handOut_same ({ w with buf := b1 } : World) t
  exact ⟨_, _, interp_nextTokenMustBe_ok env types w t b1 htok hty, hb, (SameParse.setBuf w b1).trans hs, hty', hv⟩

theorem step_tokenIf_hit (env : Env) (types : List String) (w : World) (t : Tok) (b1 : Buf)
    (htok : tokenEofOk env.cfg w.buf = .ok (some t, b1)) (hty : types.contains t.type = true) :
    ∃ (w1 : World) (c : CTok), interp env (P.tokenIf types) w = (w1, .ok (some c)) ∧ w1.buf = b1 ∧ SameParse w w1 ∧
      c.type = t.type ∧ c.value = t.value := by
  obtain ⟨hs, hb, hty', hv⟩ := handOut_same ({ w with buf := b1 } : World) t
  exact ⟨_, _, interp_tokenIf_hit env types w t b1 htok hty, hb, (SameParse.setBuf w b1).trans hs, hty', hv⟩

theorem step_tokenIf_miss (env : Env) (types : List String) (w : World) (t : Tok) (b1 : Buf)
    (htok : tokenEofOk env.cfg w.buf = .ok (some t, b1)) (hty : types.contains t.type = false) :
    ∃ (w1 : World) (t' : Tok), interp env (P.tokenIf types) w = (w1, .ok none) ∧ SameParse w w1 ∧
      tokenEofOk env.cfg w1.buf = .ok (some t', b1) ∧ t'.type = t.type ∧ t'.value = t.value := by
  obtain ⟨hs, hb, hty', hv⟩ := handOut_same ({ w with buf := b1 } : World) t
  generalize hwB : (({ w with buf := b1 } : World).handOut t).2 = wB at *
  generalize hcB : (({ w with buf := b1 } : World).handOut t).1 = cB at *
  have hnd : isDiscard (wB.toTok cB).type = false := by
    have := tokenEofOk_not_discard htok
    simpa [World.toTok, hty'] using this
  refine ⟨{ wB with buf := Cxx.returnToken (wB.toTok cB) b1 }, wB.toTok cB, ?_, ?_, ?_, ?_, ?_⟩
  · have := interp_tokenIf_miss env types w t b1 htok hty
    rw [hwB, hcB] at this
    exact this
  · exact ((SameParse.setBuf w b1).trans hs).trans (SameParse.setBuf wB _)
  · exact tokenEofOk_returnToken env.cfg _ _ hnd
  · simp [World.toTok, hty']
  · simp [World.toTok, hv]

/-! ### the same for an arbitrary token predicate (`token_if_val`, `token_if_in_set`, `token_if_not`) -/

theorem step_tokenIfP_hit (env : Env) (p : CTok → Bool) (w : World) (t : Tok) (b1 : Buf)
    (htok : tokenEofOk env.cfg w.buf = .ok (some t, b1))
    (hp : ∀ c : CTok, c.type = t.type → c.value = t.value → p c = true) :
    ∃ (w1 : World) (c : CTok), interp env (P.tokenIfP p) w = (w1, .ok (some c)) ∧ w1.buf = b1 ∧ SameParse w w1 ∧
      c.type = t.type ∧ c.value = t.value := by
  obtain ⟨hs, hb, hty', hv⟩ := handOut_same ({ w with buf := b1 } : World) t
  refine ⟨_, _, ?_, hb, (SameParse.setBuf w b1).trans hs, hty', hv⟩
  simp only [interp_tokenIfP, htok, hp _ hty' hv, ↓reduceIte]

theorem step_tokenIfP_miss (env : Env) (p : CTok → Bool) (w : World) (t : Tok) (b1 : Buf)
    (htok : tokenEofOk env.cfg w.buf = .ok (some t, b1))
    (hp : ∀ c : CTok, c.type = t.type → c.value = t.value → p c = false) :
    ∃ (w1 : World) (t' : Tok), interp env (P.tokenIfP p) w = (w1, .ok none) ∧ SameParse w w1 ∧
      tokenEofOk env.cfg w1.buf = .ok (some t', b1) ∧ t'.type = t.type ∧ t'.value = t.value := by
  obtain ⟨hs, hb, hty', hv⟩ := handOut_same ({ w with buf := b1 } : World) t
  have hpf := hp _ hty' hv
  generalize hwB : (({ w with buf := b1 } : World).handOut t).2 = wB at *
  generalize hcB : (({ w with buf := b1 } : World).handOut t).1 = cB at *
  have hnd : isDiscard (wB.toTok cB).type = false := by
    have := tokenEofOk_not_discard htok
    simpa [World.toTok, hty'] using this
  refine ⟨{ wB with buf := Cxx.returnToken (wB.toTok cB) b1 }, wB.toTok cB, ?_, ?_, ?_, ?_, ?_⟩
  · simp only [interp_tokenIfP, htok, hwB, hcB, hpf, Bool.false_eq_true, ↓reduceIte, List.map_cons, List.map_nil,
      Cxx.returnTokens, List.singleton_append, hb]
    rfl
  · exact ((SameParse.setBuf w b1).trans hs).trans (SameParse.setBuf wB _)
  · exact tokenEofOk_returnToken env.cfg _ _ hnd
  · simp [World.toTok, hty']
  · simp [World.toTok, hv]

/-- `self.lex.token()` on a token -/
theorem step_token (env : Env) (w : World) (t : Tok) (b1 : Buf)
    (htok : tokenEofOk env.cfg w.buf = .ok (some t, b1)) :
    ∃ (w1 : World) (c : CTok), interp env P.token w = (w1, .ok c) ∧ w1.buf = b1 ∧ SameParse w w1 ∧
      c.type = t.type ∧ c.value = t.value := by
  obtain ⟨hs, hb, hty', hv⟩ := handOut_same ({ w with buf := b1 } : World) t
  refine ⟨_, _, ?_, hb, (SameParse.setBuf w b1).trans hs, hty', hv⟩
  simp only [interp_token, htok]

/-- `self.lex.return_token(c)`: an equal token is the next one again -/
theorem step_returnToken (env : Env) (w : World) (c : CTok) (hnd : isDiscard c.type = false) :
    ∃ (w1 : World) (t' : Tok), interp env (P.returnToken c) w = (w1, .ok ()) ∧ SameParse w w1 ∧
      tokenEofOk env.cfg w1.buf = .ok (some t', w.buf) ∧ t'.type = c.type ∧ t'.value = c.value := by
  refine ⟨{ w with buf := Cxx.returnToken (w.toTok c) w.buf }, w.toTok c, ?_, SameParse.setBuf w _, ?_, rfl, rfl⟩
  · unfold P.returnToken
    simp only [interp, List.map_cons, List.map_nil, Cxx.returnTokens, List.singleton_append]
    rfl
  · exact tokenEofOk_returnToken env.cfg _ _ (by simpa [World.toTok] using hnd)

end Cxx
