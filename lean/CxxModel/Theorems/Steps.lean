/-
  Theorems/Steps.lean — packaged single-token steps of the client interface, stated against
  the significant-token relation only (no `handOut` bookkeeping in the statement):

  * `step_mustBe`     — `_next_token_must_be(types)` on a token of a listed type;
  * `step_tokenIf_hit`  — `token_if(types)` on a token of a listed type;
  * `step_tokenIf_miss` — `token_if(types)` on any other token: nothing is consumed, the token
                          (same type and text) is the next one again.
-/
import CxxModel.Theorems.UsingDir
import CxxModel.Theorems.PtrChain
namespace Cxx
open P

theorem step_mustBe (env : Env) (types : List String) (w : World) (t : Tok) (b1 : Buf)
    (htok : tokenEofOk env.cfg w.buf = .ok (some t, b1)) (hty : types.contains t.type = true) :
    ∃ (w1 : World) (c : CTok), interp env (P.nextTokenMustBe types) w = (w1, .ok c) ∧ w1.buf = b1 ∧ SameParse w w1 ∧
      c.type = t.type ∧ c.value = t.value := by
  obtain ⟨hs, hb, hty', hv⟩ := handOut_same ({ w with buf := b1 } : World) t
  exact ⟨_, _, interp_nextTokenMustBe_ok env types w t b1 htok hty, hb, (SameParse.setBuf w b1).trans hs, hty', hv⟩

theorem step_tokenIf_hit (env : Env) (types : List String) (w : World) (t : Tok) (b1 : Buf)
    (htok : tokenEofOk env.cfg w.buf = .ok (some t, b1)) (hty : types.contains t.type = true) :
    ∃ (w1 : World) (c : CTok), interp env (P.tokenIf types) w = (w1, .ok (some c)) ∧ w1.buf = b1 ∧ SameParse w w1 ∧
      c.type = t.type ∧ c.value = t.value := by
  obtain ⟨hs, hb, hty', hv⟩ := handOut_same ({ w with buf := b1 } : World) t
  exact ⟨_, _, interp_tokenIf_hit env types w t b1 htok hty, hb, (SameParse.setBuf w b1).trans hs, hty', hv⟩

theorem step_tokenIf_miss (env : Env) (types : List String) (w : World) (t : Tok) (b1 : Buf)
    (htok : tokenEofOk env.cfg w.buf = .ok (some t, b1)) (hty : types.contains t.type = false) :
    ∃ (w1 : World) (t' : Tok), interp env (P.tokenIf types) w = (w1, .ok none) ∧ SameParse w w1 ∧
      tokenEofOk env.cfg w1.buf = .ok (some t', b1) ∧ t'.type = t.type ∧ t'.value = t.value := by
  obtain ⟨hs, hb, hty', hv⟩ := handOut_same ({ w with buf := b1 } : World) t
  generalize hwB : (({ w with buf := b1 } : World).handOut t).2 = wB at *
  generalize hcB : (({ w with buf := b1 } : World).handOut t).1 = cB at *
  have hnd : isDiscard (wB.toTok cB).type = false := by
    have := tokenEofOk_not_discard htok
    simpa [World.toTok, hty'] using this
  refine ⟨{ wB with buf := Cxx.returnToken (wB.toTok cB) b1 }, wB.toTok cB, ?_, ?_, ?_, ?_, ?_⟩
  · have := interp_tokenIf_miss env types w t b1 htok hty
    rw [hwB, hcB] at this
    exact this
  · exact ((SameParse.setBuf w b1).trans hs).trans (SameParse.setBuf wB _)
  · exact tokenEofOk_returnToken env.cfg _ _ hnd
  · simp [World.toTok, hty']
  · simp [World.toTok, hv]

end Cxx
