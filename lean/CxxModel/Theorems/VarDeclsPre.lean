/-
  Theorems/VarDeclsPre.lean — declaration statements with ANY NUMBER of declarators over any type specifier, each
  declarator with ITS OWN prefix (C01, C02, C12): `S d1 , d2 , … , dn ;` where every `di` is `prefixᵢ xᵢ` delivers exactly
  one `on_variable` per declarator, in order, each with its own name and the type ITS prefix denotes over the shared
  type `S` denotes — e.g. `const T * a , & b , * const * c ;`.
-/
import CxxModel.Theorems.VarDecls
import CxxModel.Theorems.DeclPre
namespace Cxx
open P

/-- the declarator is well formed and denotes `ty` over the base type `pt` -/
def Dtor.OKp (env : Env) (F D : Nat) (pt : DType) (d : Dtor) (ty : DType) : Prop :=
  PrefixSpec env F D pt (tvs d.ops) ty ∧ isFnType ty = false ∧ d.x.type = "NAME" ∧ identVal d.x.value = true

theorem Dtor.replHead_OKp (env : Env) (F D : Nat) (pt : DType) (d : Dtor) (ty : DType) (t : Tok) (hty : t.type = d.head.type) (hv : t.value = d.head.value)
    (h : d.OKp env F D pt ty) : (d.replHead t).OKp env F D pt ty ∧ (d.replHead t).x.value = d.x.value ∧ (d.replHead t).sep = d.sep := by
  obtain ⟨hpre, hfn, hx, hxv⟩ := h
  unfold Dtor.head at hty hv
  unfold Dtor.replHead Dtor.OKp
  cases hops : d.ops with
  | nil =>
    simp only [hops] at hty hv hpre ⊢
    exact ⟨⟨hpre, hfn, hty.trans hx, by rw [hv]; exact hxv⟩, hv, trivial⟩
  | cons o os =>
    simp only [hops] at hty hv hpre ⊢
    refine ⟨⟨?_, hfn, hx, hxv⟩, trivial, trivial⟩
    simpa [tvs, hty, hv] using hpre

theorem declarators_variables_pre (env : Env) (hnf : env.faultAt = none) (F D : Nat) (pt : DType)
    (blkId : Nat) (hdr : BlockHdr) (hk : hdr.kind ≠ .cls) (rest : List Block) :
    ∀ (ds : List (Dtor × DType)) (last : Dtor × DType) (loc : LocRef) (dox : Option String) (w : World) (b' : Buf) (n : Nat)
      (blk : Block),
    blk.id = blkId → blk.hdr = hdr → w.stack = blk :: rest → w.muted = false →
    (∀ p ∈ ds, p.1.OKp env F D pt p.2 ∧ p.1.sep.type = ",") →
    last.1.OKp env F D pt last.2 → last.1.sep.type = ";" → 1 ≤ F →
    Yields env.cfg w.buf (ds.flatMap (fun p => p.1.toks) ++ last.1.toks) b' → ds.length + 1 ≤ n →
    ∃ (wF : World) (evs : List Event) (doxs : List (Option String)) (l : LocRef) (blkF : Block),
      interp env (loopN n (loc, dox) (declaratorBody F (core F (D + 1)) pt {} .none false false)) w = (wF, .ok ()) ∧
      SigEq b' wF.buf ∧ wF.stack = blkF :: rest ∧ blkF.id = blkId ∧ blkF.hdr = hdr ∧ blkF = { blk with loc := l } ∧
      wF.events = w.events ++ evs ∧ doxs.length = ds.length + 1 ∧
      evs.map (·.kind) = varKinds (ds ++ [last]) doxs ∧ (∀ e ∈ evs, e.stateId = blkId ∧ e.parentId = rest.head?.map (·.id)) ∧
      (∀ d, dox = some d → doxs.head? = some (some d)) ∧
      wF.delivered = w.delivered + (ds.length + 1) ∧ wF.anon = w.anon ∧ wF.muted = false ∧ wF.nextId = w.nextId := by
  intro ds
  induction ds with
  | nil =>
    intro last loc dox w b' n blk hid hhdr hstack hmu _ hok hsep hlen hy hn
    obtain ⟨hpre, hfn, hx, hxv⟩ := hok
    simp only [List.flatMap_nil, List.nil_append, Dtor.toks] at hy
    obtain ⟨bmid, hy1, hy2⟩ := Yields.split hy
    cases hy2 with
    | cons htx hy3 =>
      rename_i bx
      cases hy3 with
      | cons hts hnil =>
        rename_i bs
        have hbs : bs = b' := by cases hnil; rfl
        subst hbs
        obtain ⟨k, rfl⟩ : ∃ k, n = k + 1 := ⟨n - 1, by omega⟩
        obtain ⟨w7, c7, dox7, ev, hi7, hsig, hst7, hev7, hk7, hid7, hpar7, hdox7, hdl7, han7, hmu7, hnx7, _⟩ :=
          declarator_variable_pre env F D pt loc dox (tvs last.1.ops) last.1.ops last.1.x last.1.sep last.2 w bmid bx bs blk rest hstack
            (by rw [hhdr]; exact hk) hmu (by rw [hnf]; simp) hpre hfn hy1 rfl htx hx hxv hts (.inl hsep) hlen
        refine ⟨w7, [ev], [dox7], loc, { blk with loc := loc }, ?_, hsig, hst7, hid, hhdr, rfl, hev7, rfl, ?_, ?_, ?_,
          by rw [hdl7]; rfl, han7, hmu7, hnx7⟩
        · rw [loopN]
          simp only [bind, interp_bind, hi7, afterDeclarator, hsep, ↓reduceIte, pure, interp]
        · simp [varKinds, hk7]
        · intro e he
          simp only [List.mem_singleton] at he
          subst he
          exact ⟨hid7.trans hid, hpar7⟩
        · intro d hd
          simp [hdox7 d hd]
  | cons p ps ih =>
    intro last loc dox w b' n blk hid hhdr hstack hmu hall hok hsep hlen hy hn
    obtain ⟨⟨hpre, hfn, hx, hxv⟩, hpsep⟩ := hall p (by simp)
    simp only [List.flatMap_cons, Dtor.toks, List.append_assoc] at hy
    obtain ⟨bmid, hy1, hy2⟩ := Yields.split hy
    cases hy2 with
    | cons htx hy3 =>
      rename_i bx
      cases hy3 with
      | cons hts hrest =>
        rename_i bs
        obtain ⟨k, rfl⟩ : ∃ k, n = k + 1 := ⟨n - 1, by omega⟩
        obtain ⟨w7, c7, dox7, ev, hi7, hsig, hst7, hev7, hk7, hid7, hpar7, hdox7, hdl7, han7, hmu7, hnx7, _⟩ :=
          declarator_variable_pre env F D pt loc dox (tvs p.1.ops) p.1.ops p.1.x p.1.sep p.2 w bmid bx bs blk rest hstack
            (by rw [hhdr]; exact hk) hmu (by rw [hnf]; simp) hpre hfn hy1 rfl htx hx hxv hts (.inr hpsep) hlen
        -- the rest of the statement, read from the stream as `_parse_field` left it
        obtain ⟨bE, hyE, hsigE⟩ := Yields.sigEq hrest hsig
        obtain ⟨wF, evs, doxs, l, blkF, hiF, hsigF, hstF, hidF, hhdrF, hlF, hevF, hdl, hkinds, hids, _, hdlF, hanF, hmuF, hnxF⟩ :=
          ih last (LocRef.tok c7.sidx) none w7 bE k { blk with loc := loc } hid hhdr hst7 hmu7
            (fun q hq => hall q (by simp [hq])) hok hsep hlen
            (by simpa [Dtor.toks, List.append_assoc] using hyE) (by simp at hn; omega)
        refine ⟨wF, ev :: evs, dox7 :: doxs, l, blkF, ?_, hsigE.trans hsigF, hstF, hidF, hhdrF, hlF,
          by rw [hevF, hev7]; simp, by simp [hdl], ?_, ?_, ?_, by rw [hdlF, hdl7]; simp; omega, by rw [hanF, han7], hmuF,
          by rw [hnxF, hnx7]⟩
        · rw [loopN]
          have hne : ¬ p.1.sep.type = ";" := by rw [hpsep]; decide
          simp only [bind, interp_bind, hi7, afterDeclarator, hne, ↓reduceIte, hiF]
        · simp only [List.map_cons, hk7, hkinds, varKinds, List.cons_append, List.zipWith_cons_cons]
        · intro e he
          simp only [List.mem_cons] at he
          rcases he with rfl | he
          · exact ⟨hid7.trans hid, hpar7⟩
          · exact hids e he
        · intro d hd
          simp [hdox7 d hd]

theorem parseDeclarations_variables_loc_pre (env : Env) (hnf : env.faultAt = none) (F D : Nat) (tok : CTok) (doxygen : Option String)
    (toks : List Tok) (f : Tok) (trest : List Tok) (segs : List PQSeg) (cst vol : Bool) (ds : List (Dtor × DType)) (last : Dtor × DType) (w : World) (b0 b' : Buf)
    (blk : Block) (rest : List Block) (hstack : w.stack = blk :: rest) (hk : blk.hdr.kind ≠ .cls) (hmu : w.muted = false)
    (hspec : TypeSpecR env F D toks segs cst vol) (hspectoks : toks = f :: trest)
    (hty : tok.type = f.type) (htv : tok.value = f.value)
    (hy0 : Yields env.cfg w.buf trest b0)
    (hhead : ∀ o ∈ (firstDtor ds last).ops.head?, declStart o.type = true ∧ o.value ≠ "auto")
    (hds : ∀ p ∈ ds, p.1.OKp env F (D + 1) (.type (.mk segs none false) cst vol) p.2 ∧ p.1.sep.type = ",")
    (hlast : last.1.OKp env F (D + 1) (.type (.mk segs none false) cst vol) last.2)
    (hsep : last.1.sep.type = ";")
    (hy : Yields env.cfg b0 (ds.flatMap (fun p => p.1.toks) ++ last.1.toks) b')
    (hF : 2 ≤ F) (hF2 : ds.length + 1 ≤ F) :
    ∃ (wF : World) (evs : List Event) (doxs : List (Option String)) (blkF : Block),
      interp env (parseDeclarations F (core F (D + 1 + 1)) tok doxygen) w = (wF, .ok ()) ∧
      SigEq b' wF.buf ∧ wF.stack = blkF :: rest ∧ blkF.id = blk.id ∧ blkF.hdr = blk.hdr ∧
      wF.events = w.events ++ evs ∧ doxs.length = ds.length + 1 ∧
      evs.map (·.kind) = varKinds (ds ++ [last]) doxs ∧ (∀ e ∈ evs, e.stateId = blk.id ∧ e.parentId = rest.head?.map (·.id)) ∧
      (∀ d, doxygen = some d → doxs.head? = some (some d)) ∧
      wF.delivered = w.delivered + (ds.length + 1) ∧ wF.anon = w.anon ∧ wF.muted = false ∧ wF.nextId = w.nextId ∧
      ∃ l, blkF = { blk with loc := l } := by
  -- the first token of the first declarator
  have hfirstOK : ∃ ty, (firstDtor ds last).OKp env F (D + 1) (.type (.mk segs none false) cst vol) ty := by
    cases ds with
    | nil => exact ⟨last.2, hlast⟩
    | cons p ps => exact ⟨p.2, (hds p (by simp)).1⟩
  obtain ⟨ty0, hOK0⟩ := hfirstOK
  obtain ⟨tl, htoks, hrepl⟩ := (firstDtor ds last).toks_head
  obtain ⟨tlAll, hAll⟩ : ∃ tlAll, ds.flatMap (fun p => p.1.toks) ++ last.1.toks = (firstDtor ds last).head :: tlAll ∧
      ∀ t, (match ds with
        | [] => ([] : List (Dtor × DType)).flatMap (fun p => p.1.toks) ++ (last.1.replHead t).toks
        | p :: ps => ((p.1.replHead t, p.2) :: ps).flatMap (fun p => p.1.toks) ++ last.1.toks) = t :: tlAll := by
    cases ds with
    | nil =>
      refine ⟨tl, by simpa [firstDtor] using htoks, ?_⟩
      intro t
      simpa [firstDtor] using hrepl t
    | cons p ps =>
      refine ⟨tl ++ (ps.flatMap (fun p => p.1.toks) ++ last.1.toks), ?_, ?_⟩
      · simp only [firstDtor] at htoks ⊢
        simp [htoks]
      · intro t
        simp only [firstDtor] at hrepl
        simp [hrepl t]
  rw [hAll.1] at hy
  cases hy with
  | cons hnx hrest =>
    rename_i bnx
    have hheadTy : declStart (firstDtor ds last).head.type = true ∧ (firstDtor ds last).head.value ≠ "auto" := by
      unfold Dtor.head
      cases hops' : (firstDtor ds last).ops with
      | nil =>
        obtain ⟨_, _, hx, hxv⟩ := hOK0
        simp only [identVal, Bool.and_eq_true, Bool.not_eq_true', bne_iff_ne, ne_eq] at hxv
        exact ⟨by rw [hx]; decide, hxv.2⟩
      | cons o os => exact hhead o (by simp [hops'])
    obtain ⟨hstop, hauto⟩ := hheadTy
    obtain ⟨w1, t1, hi1, hs1, ht1, hty1, hv1⟩ := hspec true tok f trest w b0 bnx _ hspectoks hty htv hy0 hnx hstop
    obtain ⟨w2, t2, hi2, hs2, ht2, hty2, hv2⟩ := step_tokenIfP_miss env (fun t => ["auto"].contains t.value) w1 t1 bnx ht1
      (by intro c _ hcv; show ["auto"].contains c.value = false; rw [hcv, hv1]; simp [hauto])
    have hsl2 : SameButLog w w2 := hs1.trans hs2.butLog
    have htop2 := interp_getTop env w2 blk rest (by rw [hsl2.stack]; exact hstack)
    have hyW : Yields env.cfg w2.buf (t2 :: tlAll) b' := .cons ht2 hrest
    have ht2ty : t2.type = (firstDtor ds last).head.type := by rw [hty2, hty1]
    have ht2v : t2.value = (firstDtor ds last).head.value := by rw [hv2, hv1]
    -- the declarator loop on the stream with the pushed-back copy
    obtain ⟨wF, evs, doxs, l, blkF, hiF, hsigF, hstF, hidF, hhdrF, hlF, hevF, hdl, hkinds, hids, hdox, hdlF, hanF, hmuF, hnxF⟩ :
        ∃ (wF : World) (evs : List Event) (doxs : List (Option String)) (l : LocRef) (blkF : Block),
          interp env (loopN F (LocRef.tok tok.sidx, doxygen) (declaratorBody F (core F (D + 1 + 1))
            (.type (.mk segs none false) cst vol) {} .none false false)) w2 = (wF, .ok ()) ∧
          SigEq b' wF.buf ∧ wF.stack = blkF :: rest ∧ blkF.id = blk.id ∧ blkF.hdr = blk.hdr ∧ blkF = { blk with loc := l } ∧
          wF.events = w2.events ++ evs ∧ doxs.length = ds.length + 1 ∧
          evs.map (·.kind) = varKinds (ds ++ [last]) doxs ∧ (∀ e ∈ evs, e.stateId = blk.id ∧ e.parentId = rest.head?.map (·.id)) ∧
          (∀ d, doxygen = some d → doxs.head? = some (some d)) ∧
          wF.delivered = w2.delivered + (ds.length + 1) ∧ wF.anon = w2.anon ∧ wF.muted = false ∧ wF.nextId = w2.nextId := by
      cases ds with
      | nil =>
        obtain ⟨hOK', hxv', hsep'⟩ := Dtor.replHead_OKp env F (D + 1) _ last.1 last.2 t2 (by simpa [firstDtor] using ht2ty)
          (by simpa [firstDtor] using ht2v) hlast
        have hyW' := hyW
        rw [← hAll.2 t2] at hyW'
        obtain ⟨wF, evs, doxs, l, blkF, h⟩ := declarators_variables_pre env hnf F (D + 1) _ blk.id blk.hdr hk rest []
          (last.1.replHead t2, last.2) (LocRef.tok tok.sidx) doxygen w2 b' F blk rfl rfl (by rw [hsl2.stack]; exact hstack)
          (by rw [hsl2.muted]; exact hmu) (by simp) hOK' (by rw [hsep']; exact hsep) (by omega) hyW' (by simpa using hF2)
        refine ⟨wF, evs, doxs, l, blkF, h.1, h.2.1, h.2.2.1, h.2.2.2.1, h.2.2.2.2.1, h.2.2.2.2.2.1, h.2.2.2.2.2.2.1, h.2.2.2.2.2.2.2.1, ?_,
          h.2.2.2.2.2.2.2.2.2⟩
        rw [h.2.2.2.2.2.2.2.2.1]
        cases doxs with
        | nil => simp [varKinds]
        | cons dx dxs => simp [varKinds, plainVariable, hxv']
      | cons p ps =>
        obtain ⟨hOKp, hpsep⟩ := hds p (by simp)
        obtain ⟨hOK', hxv', hsep'⟩ := Dtor.replHead_OKp env F (D + 1) _ p.1 p.2 t2 (by simpa [firstDtor] using ht2ty)
          (by simpa [firstDtor] using ht2v) hOKp
        have hyW' := hyW
        rw [← hAll.2 t2] at hyW'
        obtain ⟨wF, evs, doxs, l, blkF, h⟩ := declarators_variables_pre env hnf F (D + 1) _ blk.id blk.hdr hk rest
          ((p.1.replHead t2, p.2) :: ps) last (LocRef.tok tok.sidx) doxygen w2 b' F blk rfl rfl (by rw [hsl2.stack]; exact hstack)
          (by rw [hsl2.muted]; exact hmu)
          (by
            intro q hq
            simp only [List.mem_cons] at hq
            rcases hq with rfl | hq
            · exact ⟨hOK', by rw [hsep']; exact hpsep⟩
            · exact hds q (by simp [hq]))
          hlast hsep (by omega) hyW' (by simpa using hF2)
        refine ⟨wF, evs, doxs, l, blkF, h.1, h.2.1, h.2.2.1, h.2.2.2.1, h.2.2.2.2.1, h.2.2.2.2.2.1, h.2.2.2.2.2.2.1,
          by simpa using h.2.2.2.2.2.2.2.1, ?_, h.2.2.2.2.2.2.2.2.2.1, h.2.2.2.2.2.2.2.2.2.2.1,
          by simpa using h.2.2.2.2.2.2.2.2.2.2.2.1, h.2.2.2.2.2.2.2.2.2.2.2.2⟩
        rw [h.2.2.2.2.2.2.2.2.1]
        cases doxs with
        | nil => simp [varKinds]
        | cons dx dxs => simp [varKinds, plainVariable, hxv']
    refine ⟨wF, evs, doxs, blkF, ?_, hsigF, hstF, hidF, hhdrF, by rw [hevF, hsl2.events], hdl, hkinds, hids, hdox,
      by rw [hdlF, hsl2.delivered], by rw [hanF, hsl2.anon], hmuF, by rw [hnxF, hsl2.nextId], l, hlF⟩
    unfold parseDeclarations
    simp only [bind, interp_bind, core_parseType, hi1, Option.bind, typenameOf, strTruthy, PQName.classkey, Bool.false_eq_true,
      ↓reduceIte, pure, interp, Bool.not_false, P.tokenIfVal, hi2, htop2, validate_empty, hiF]

theorem parseDeclarations_variables_pre (env : Env) (hnf : env.faultAt = none) (F D : Nat) (tok : CTok) (doxygen : Option String)
    (toks : List Tok) (f : Tok) (trest : List Tok) (segs : List PQSeg) (cst vol : Bool) (ds : List (Dtor × DType)) (last : Dtor × DType) (w : World) (b0 b' : Buf)
    (blk : Block) (rest : List Block) (hstack : w.stack = blk :: rest) (hk : blk.hdr.kind ≠ .cls) (hmu : w.muted = false)
    (hspec : TypeSpecR env F D toks segs cst vol) (hspectoks : toks = f :: trest)
    (hty : tok.type = f.type) (htv : tok.value = f.value)
    (hy0 : Yields env.cfg w.buf trest b0)
    (hhead : ∀ o ∈ (firstDtor ds last).ops.head?, declStart o.type = true ∧ o.value ≠ "auto")
    (hds : ∀ p ∈ ds, p.1.OKp env F (D + 1) (.type (.mk segs none false) cst vol) p.2 ∧ p.1.sep.type = ",")
    (hlast : last.1.OKp env F (D + 1) (.type (.mk segs none false) cst vol) last.2)
    (hsep : last.1.sep.type = ";")
    (hy : Yields env.cfg b0 (ds.flatMap (fun p => p.1.toks) ++ last.1.toks) b')
    (hF : 2 ≤ F) (hF2 : ds.length + 1 ≤ F) :
    ∃ (wF : World) (evs : List Event) (doxs : List (Option String)) (blkF : Block),
      interp env (parseDeclarations F (core F (D + 1 + 1)) tok doxygen) w = (wF, .ok ()) ∧
      SigEq b' wF.buf ∧ wF.stack = blkF :: rest ∧ blkF.id = blk.id ∧ blkF.hdr = blk.hdr ∧
      wF.events = w.events ++ evs ∧ doxs.length = ds.length + 1 ∧
      evs.map (·.kind) = varKinds (ds ++ [last]) doxs ∧ (∀ e ∈ evs, e.stateId = blk.id ∧ e.parentId = rest.head?.map (·.id)) ∧
      (∀ d, doxygen = some d → doxs.head? = some (some d)) ∧
      wF.delivered = w.delivered + (ds.length + 1) ∧ wF.anon = w.anon ∧ wF.muted = false ∧ wF.nextId = w.nextId := by
  obtain ⟨wF, evs, doxs, blkF, h1, h2, h3, h4, h5, h6, h7, h8, h9, h10, h11, h12, h13, h14, _⟩ :=
    parseDeclarations_variables_loc_pre env hnf F D tok doxygen toks f trest segs cst vol ds last w b0 b' blk rest hstack hk hmu hspec hspectoks hty htv hy0 hhead hds hlast hsep hy hF hF2
  exact ⟨wF, evs, doxs, blkF, h1, h2, h3, h4, h5, h6, h7, h8, h9, h10, h11, h12, h13, h14⟩

/-- **`S d1 , … , dn ;` through `parse()`'s loop**: any type specifier, every declarator with its own prefix -/
theorem toplevel_variables_pre (env : Env) (hp : RulesProgress env.cfg = true) (hnf : env.faultAt = none) (F D : Nat) (w : World)
    (toks : List Tok) (first : Tok) (trest : List Tok) (segs : List PQSeg) (cst vol : Bool) (ds : List (Dtor × DType)) (last : Dtor × DType) (b1 b0 b' : Buf)
    (blk : Block) (rest : List Block) (hstack : w.stack = blk :: rest) (hk : blk.hdr.kind ≠ .cls) (hmu : w.muted = false)
    (hspec : TypeSpecR env F D toks segs cst vol) (hspectoks : toks = first :: trest) (hfirst : specFirst first.type = true)
    (htok : tokenEofOk env.cfg w.buf = .ok (some first, b1))
    (hy0 : Yields env.cfg b1 trest b0)
    (hhead : ∀ o ∈ (firstDtor ds last).ops.head?, declStart o.type = true ∧ o.value ≠ "auto")
    (hds : ∀ p ∈ ds, p.1.OKp env F (D + 1) (.type (.mk segs none false) cst vol) p.2 ∧ p.1.sep.type = ",")
    (hlast : last.1.OKp env F (D + 1) (.type (.mk segs none false) cst vol) last.2)
    (hsep : last.1.sep.type = ";")
    (hy : Yields env.cfg b0 (ds.flatMap (fun p => p.1.toks) ++ last.1.toks) b')
    (hF : 2 ≤ F) (hF2 : ds.length + 1 ≤ F) :
    ∃ (d : Option String) (bD : Buf) (wF : World) (evs : List Event) (doxs : List (Option String)) (blkF : Block),
      getDoxygen env.cfg env.mcRe w.buf = .ok (d, bD) ∧
      interp env (mainBody F (core F (D + 1 + 1)) none) w = (wF, .ok (.inl none)) ∧
      SigEq b' wF.buf ∧ wF.stack = blkF :: rest ∧ blkF.id = blk.id ∧ blkF.hdr = blk.hdr ∧
      wF.events = w.events ++ evs ∧ doxs.length = ds.length + 1 ∧
      evs.map (·.kind) = varKinds (ds ++ [last]) doxs ∧ (∀ e ∈ evs, e.stateId = blk.id ∧ e.parentId = rest.head?.map (·.id)) ∧
      (∀ dd, d = some dd → doxs.head? = some (some dd)) ∧
      wF.delivered = w.delivered + (ds.length + 1) ∧ wF.anon = w.anon ∧ wF.muted = false ∧ wF.nextId = w.nextId ∧
      ∃ l, blkF = { blk with loc := l } := by
  obtain ⟨d, bD, wA, ct, hd, hsA, hbA, htyc, hv, hi⟩ := mainBody_item env hp F (core F (D + 1 + 1)) w first b1 htok
  obtain ⟨wF, evs, doxs, blkF, hiF, hsig, hstF, hidF, hhdrF, hevF, hdl, hkinds, hids, hdox, hdlF, hanF, hmuF, hnxF, hlF⟩ :=
    parseDeclarations_variables_loc_pre env hnf F D ct d toks first trest segs cst vol ds last { wA with mainTok := some ct } b0 b' blk rest
      (by show wA.stack = _; rw [hsA.stack]; exact hstack) hk (by show wA.muted = _; rw [hsA.muted]; exact hmu)
      hspec hspectoks htyc hv (by show Yields env.cfg wA.buf _ _; rw [hbA]; exact hy0) hhead
      hds hlast hsep hy hF hF2
  refine ⟨d, bD, wF, evs, doxs, blkF, hd, ?_, hsig, hstF, hidF, hhdrF, by rw [hevF]; show wA.events ++ _ = _; rw [hsA.events], hdl,
    hkinds, hids, hdox, by rw [hdlF]; show wA.delivered + _ = _; rw [hsA.delivered], by rw [hanF]; exact hsA.anon, hmuF,
    by rw [hnxF]; exact hsA.nextId, hlF⟩
  rw [hi]
  unfold specFirst at hfirst
  simp only [Bool.and_eq_true, Option.isNone_iff_eq_none, Bool.not_eq_true'] at hfirst
  have hti : topItem F (core F (D + 1 + 1)) ct d = parseDeclarations F (core F (D + 1 + 1)) ct d := by
    unfold topItem
    rw [htyc, hfirst.1]
  have hcar : carry ct d = none := by
    unfold carry
    rw [htyc, hfirst.2]
    rfl
  rw [hti, hiF, hcar]


end Cxx
