/-
  Theorems/Stream.lean — reasoning about particular parser routines at the level of the
  significant-token sequence.

  * `interp_bind`: the interpreter is a monad morphism (sequencing law);
  * `Yields cfg b ts b'`: from buffer state `b`, `token_eof_ok` returns the tokens `ts`, one
    after the other, and leaves the stream in `b'` — the abstraction of the real token stream
    (line-wise lexing, continuation splicing, discard of layout) to a token list;
  * `discard_interp` / `discard_resumes`: `_discard_contents` against that abstraction.
-/
import CxxModel.Interp
import CxxModel.Parser.Basic
namespace Cxx
open P

theorem interp_bind (env : Env) {α β : Type} (p : Prog α) (f : α → Prog β) :
    ∀ w, interp env (p.bind f) w =
      match interp env p w with
      | (w', .ok a) => interp env (f a) w'
      | (w', .error e) => (w', .error e) := by
  induction p with
  | pure a => intro w; rfl
  | next nl k ih =>
    intro w
    simp only [Prog.bind, interp]
    split
    · rfl
    · apply ih
    · apply ih
  | unread ts k ih => intro w; simp only [Prog.bind, interp]; apply ih
  | curLoc k ih =>
    intro w; simp only [Prog.bind, interp]
    split
    · rfl
    · apply ih
  | dox a k ih =>
    intro w; simp only [Prog.bind, interp]
    split
    · apply ih
    · split
      · rfl
      · apply ih
  | push h k ih =>
    intro w; simp only [Prog.bind, interp]
    split
    · rfl
    · apply ih
  | pop k ih =>
    intro w; simp only [Prog.bind, interp]
    split
    · rfl
    · split
      · rfl
      · split
        · rfl
        · apply ih
  | emit p k ih =>
    intro w; simp only [Prog.bind, interp]
    split
    · rfl
    · split
      · rfl
      · apply ih
  | top k ih =>
    intro w; simp only [Prog.bind, interp]
    split
    · rfl
    · apply ih
  | setAccess a k ih =>
    intro w; simp only [Prog.bind, interp]
    split
    · rfl
    · apply ih
  | setLoc l k ih =>
    intro w; simp only [Prog.bind, interp]
    split
    · rfl
    · apply ih
  | fresh k ih => intro w; simp only [Prog.bind, interp]; apply ih
  | bounded ts body k _ ih =>
    intro w; simp only [Prog.bind, interp]
    split
    · apply ih
    · split
      · apply ih
      · rfl
  | opt k ih => intro w; simp only [Prog.bind, interp]; apply ih
  | debug m k ih => intro w; simp only [Prog.bind, interp]; apply ih
  | note t k ih => intro w; simp only [Prog.bind, interp]; apply ih
  | fail e => intro w; rfl

/-! ### the significant-token abstraction -/

/-- from `b`, successive `token_eof_ok` calls return `ts` and leave the stream in `b'` -/
inductive Yields (cfg : LexCfg) : Buf → List Tok → Buf → Prop
  | nil (b : Buf) : Yields cfg b [] b
  | cons {b b' b'' : Buf} {t : Tok} {ts : List Tok} :
      tokenEofOk cfg b = .ok (some t, b') → Yields cfg b' ts b'' → Yields cfg b (t :: ts) b''

/-- everything of the parser state except the token stream and the ghost location table -/
structure SameParse (w w' : World) : Prop where
  stack : w'.stack = w.stack
  muted : w'.muted = w.muted
  anon : w'.anon = w.anon
  nextId : w'.nextId = w.nextId
  events : w'.events = w.events
  delivered : w'.delivered = w.delivered
  curLocs : w'.curLocs = w.curLocs
  startLoc : w'.startLoc = w.startLoc
  debugLog : w'.debugLog = w.debugLog
  mainTok : w'.mainTok = w.mainTok

theorem SameParse.refl (w : World) : SameParse w w := ⟨rfl, rfl, rfl, rfl, rfl, rfl, rfl, rfl, rfl, rfl⟩

theorem SameParse.trans {a b c : World} (h1 : SameParse a b) (h2 : SameParse b c) : SameParse a c :=
  ⟨h2.stack.trans h1.stack, h2.muted.trans h1.muted, h2.anon.trans h1.anon, h2.nextId.trans h1.nextId,
   h2.events.trans h1.events, h2.delivered.trans h1.delivered, h2.curLocs.trans h1.curLocs,
   h2.startLoc.trans h1.startLoc, h2.debugLog.trans h1.debugLog, h2.mainTok.trans h1.mainTok⟩

theorem SameParse.setBuf (w : World) (b : Buf) : SameParse w { w with buf := b } :=
  ⟨rfl, rfl, rfl, rfl, rfl, rfl, rfl, rfl, rfl, rfl⟩

theorem handOut_same (w : World) (t : Tok) : SameParse w (w.handOut t).2 ∧ (w.handOut t).2.buf = w.buf ∧
    (w.handOut t).1.type = t.type ∧ (w.handOut t).1.value = t.value := by
  unfold World.handOut
  split <;> exact ⟨⟨rfl, rfl, rfl, rfl, rfl, rfl, rfl, rfl, rfl, rfl⟩, rfl, rfl, rfl⟩

/-- `self.lex.token()` in the interpreter -/
theorem interp_token (env : Env) (w : World) :
    interp env P.token w =
      match tokenEofOk env.cfg w.buf with
      | .error e => (w, .error e)
      | .ok (none, b) => ({ w with buf := b }, .error .eof)
      | .ok (some t, b) => ((({ w with buf := b } : World).handOut t).2, .ok (({ w with buf := b } : World).handOut t).1) := by
  unfold P.token P.tokenEofOk
  simp only [bind, Prog.bind, interp, Bool.false_eq_true, ↓reduceIte]
  cases h : tokenEofOk env.cfg w.buf with
  | error e => rfl
  | ok r =>
    obtain ⟨o, b⟩ := r
    cases o with
    | none => rfl
    | some t => rfl

/-! ### `_discard_contents` -/

/-- the level counting of `_discard_contents` as a list function: the tokens left after the
    closer that brings the level to zero (`none`: the list ends first) -/
def scanLevel (s e : String) : Nat → List Tok → Option (List Tok)
  | _, [] => none
  | level, t :: ts =>
    if t.type = s then scanLevel s e (level + 1) ts
    else if t.type = e then (if level - 1 = 0 then some ts else scanLevel s e (level - 1) ts)
    else scanLevel s e level ts

/-- the loop body of `discardContents` -/
def discardBody (s e : String) (level : Nat) : M (Nat ⊕ Unit) := do
  let tok ← P.token
  if tok.type = s then pure (.inl (level + 1))
  else if tok.type = e then
    if level - 1 = 0 then pure (.inr ()) else pure (.inl (level - 1))
  else pure (.inl level)

theorem discardContents_eq (F : Nat) (s e : String) : P.discardContents F s e = P.loopN F 1 (discardBody s e) := rfl

/-- `_discard_contents` against the abstraction: if the stream yields `ts` and the level
    count closes exactly at the end of `ts`, the routine consumes exactly `ts`: it ends
    normally in the stream state after `ts`, and nothing else of the parser state changes. -/
theorem discard_interp (env : Env) (s e : String) : ∀ (ts : List Tok) (level F : Nat) (w : World) (b' : Buf),
    Yields env.cfg w.buf ts b' → scanLevel s e level ts = some [] → ts.length ≤ F →
    ∃ w', interp env (P.loopN (F + 1) level (discardBody s e)) w = (w', .ok ()) ∧ w'.buf = b' ∧ SameParse w w' := by
  intro ts
  induction ts with
  | nil => intro level F w b' _ h; simp [scanLevel] at h
  | cons t ts ih =>
    intro level F w b' hy hs hF
    cases hy with
    | cons htok hrest =>
      rename_i b1
      have hho := handOut_same ({ w with buf := b1 } : World) t
      obtain ⟨hsame0, hbuf, hty, _⟩ := hho
      have hsame := (SameParse.setBuf w b1).trans hsame0
      simp only [P.loopN, interp_bind, discardBody, bind]
      simp only [interp_bind, interp_token, htok]
      simp only [hty]
      simp only [scanLevel] at hs
      by_cases h1 : t.type = s
      · simp only [h1, ↓reduceIte] at hs ⊢
        cases F with
        | zero => cases ts <;> simp [scanLevel] at hs hF
        | succ F =>
          obtain ⟨w', hw, hb, hsp⟩ := ih (level + 1) F _ b' (by rw [hbuf]; exact hrest) hs (by simp at hF; omega)
          refine ⟨w', ?_, hb, ?_⟩
          · simpa [interp, pure] using hw
          · exact SameParse.trans hsame hsp
      · simp only [h1, ↓reduceIte] at hs ⊢
        by_cases h2 : t.type = e
        · simp only [h2, ↓reduceIte] at hs ⊢
          by_cases h3 : level - 1 = 0
          · simp only [h3, ↓reduceIte, Option.some.injEq] at hs ⊢
            subst hs
            cases hrest
            refine ⟨_, by simp [interp, pure], hbuf, ?_⟩
            exact hsame
          · simp only [h3, ↓reduceIte] at hs ⊢
            cases F with
            | zero => cases ts <;> simp [scanLevel] at hs hF
            | succ F =>
              obtain ⟨w', hw, hb, hsp⟩ := ih (level - 1) F _ b' (by rw [hbuf]; exact hrest) hs (by simp at hF; omega)
              refine ⟨w', ?_, hb, ?_⟩
              · simpa [interp, pure] using hw
              · exact SameParse.trans hsame hsp
        · simp only [h2, ↓reduceIte] at hs ⊢
          cases F with
          | zero => cases ts <;> simp [scanLevel] at hs hF
          | succ F =>
            obtain ⟨w', hw, hb, hsp⟩ := ih level F _ b' (by rw [hbuf]; exact hrest) hs (by simp at hF; omega)
            refine ⟨w', ?_, hb, ?_⟩
            · simpa [interp, pure] using hw
            · exact SameParse.trans hsame hsp

end Cxx
