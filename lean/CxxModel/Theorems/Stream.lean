/-
  Theorems/Stream.lean — reasoning about particular parser routines at the level of the
  significant-token sequence.

  * `interp_bind`: the interpreter is a monad morphism (sequencing law);
  * `Yields cfg b ts b'`: from buffer state `b`, `token_eof_ok` returns the tokens `ts`, one
    after the other, and leaves the stream in `b'` — the abstraction of the real token stream
    (line-wise lexing, continuation splicing, discard of layout) to a token list;
  * `discard_interp` / `discard_resumes`: `_discard_contents` against that abstraction.
-/
import CxxModel.Interp
import CxxModel.Parser.Basic
namespace Cxx
open P

theorem interp_bind (env : Env) {α β : Type} (p : Prog α) (f : α → Prog β) :
    ∀ w, interp env (p.bind f) w =
      match interp env p w with
      | (w', .ok a) => interp env (f a) w'
      | (w', .error e) => (w', .error e) := by
  induction p with
  | pure a => intro w; rfl
  | next nl k ih =>
    intro w
    simp only [Prog.bind, interp]
    split
    · rfl
    · apply ih
    · apply ih
  | unread ts k ih => intro w; simp only [Prog.bind, interp]; apply ih
  | curLoc k ih =>
    intro w; simp only [Prog.bind, interp]
    split
    · rfl
    · apply ih
  | dox a k ih =>
    intro w; simp only [Prog.bind, interp]
    split
    · apply ih
    · split
      · rfl
      · apply ih
  | push h k ih =>
    intro w; simp only [Prog.bind, interp]
    split
    · rfl
    · apply ih
  | pop k ih =>
    intro w; simp only [Prog.bind, interp]
    split
    · rfl
    · split
      · rfl
      · split
        · rfl
        · apply ih
  | emit p k ih =>
    intro w; simp only [Prog.bind, interp]
    split
    · rfl
    · split
      · rfl
      · apply ih
  | top k ih =>
    intro w; simp only [Prog.bind, interp]
    split
    · rfl
    · apply ih
  | setAccess a k ih =>
    intro w; simp only [Prog.bind, interp]
    split
    · rfl
    · apply ih
  | setLoc l k ih =>
    intro w; simp only [Prog.bind, interp]
    split
    · rfl
    · apply ih
  | fresh k ih => intro w; simp only [Prog.bind, interp]; apply ih
  | bounded ts body k _ ih =>
    intro w; simp only [Prog.bind, interp]
    split
    · apply ih
    · split
      · apply ih
      · rfl
  | opt k ih => intro w; simp only [Prog.bind, interp]; apply ih
  | debug m k ih => intro w; simp only [Prog.bind, interp]; apply ih
  | note t k ih => intro w; simp only [Prog.bind, interp]; apply ih
  | fail e => intro w; rfl

/-! ### the significant-token abstraction -/

/-- from `b`, successive `token_eof_ok` calls return `ts` and leave the stream in `b'` -/
inductive Yields (cfg : LexCfg) : Buf → List Tok → Buf → Prop
  | nil (b : Buf) : Yields cfg b [] b
  | cons {b b' b'' : Buf} {t : Tok} {ts : List Tok} :
      tokenEofOk cfg b = .ok (some t, b') → Yields cfg b' ts b'' → Yields cfg b (t :: ts) b''

/-- everything of the parser state except the token stream and the ghost location table -/
structure SameParse (w w' : World) : Prop where
  stack : w'.stack = w.stack
  muted : w'.muted = w.muted
  anon : w'.anon = w.anon
  nextId : w'.nextId = w.nextId
  events : w'.events = w.events
  delivered : w'.delivered = w.delivered
  curLocs : w'.curLocs = w.curLocs
  startLoc : w'.startLoc = w.startLoc
  debugLog : w'.debugLog = w.debugLog
  mainTok : w'.mainTok = w.mainTok

theorem SameParse.refl (w : World) : SameParse w w := ⟨rfl, rfl, rfl, rfl, rfl, rfl, rfl, rfl, rfl, rfl⟩

theorem SameParse.trans {a b c : World} (h1 : SameParse a b) (h2 : SameParse b c) : SameParse a c :=
  ⟨h2.stack.trans h1.stack, h2.muted.trans h1.muted, h2.anon.trans h1.anon, h2.nextId.trans h1.nextId,
   h2.events.trans h1.events, h2.delivered.trans h1.delivered, h2.curLocs.trans h1.curLocs,
   h2.startLoc.trans h1.startLoc, h2.debugLog.trans h1.debugLog, h2.mainTok.trans h1.mainTok⟩

theorem SameParse.setBuf (w : World) (b : Buf) : SameParse w { w with buf := b } :=
  ⟨rfl, rfl, rfl, rfl, rfl, rfl, rfl, rfl, rfl, rfl⟩

theorem handOut_same (w : World) (t : Tok) : SameParse w (w.handOut t).2 ∧ (w.handOut t).2.buf = w.buf ∧
    (w.handOut t).1.type = t.type ∧ (w.handOut t).1.value = t.value := by
  unfold World.handOut
  split <;> exact ⟨⟨rfl, rfl, rfl, rfl, rfl, rfl, rfl, rfl, rfl, rfl⟩, rfl, rfl, rfl⟩

/-- `self.lex.token()` in the interpreter -/
theorem interp_token (env : Env) (w : World) :
    interp env P.token w =
      match tokenEofOk env.cfg w.buf with
      | .error e => (w, .error e)
      | .ok (none, b) => ({ w with buf := b }, .error .eof)
      | .ok (some t, b) => ((({ w with buf := b } : World).handOut t).2, .ok (({ w with buf := b } : World).handOut t).1) := by
  unfold P.token P.tokenEofOk
  simp only [bind, Prog.bind, interp, Bool.false_eq_true, ↓reduceIte]
  cases h : tokenEofOk env.cfg w.buf with
  | error e => rfl
  | ok r =>
    obtain ⟨o, b⟩ := r
    cases o with
    | none => rfl
    | some t => rfl

/-! ### `_discard_contents` -/

/-- the level counting of `_discard_contents` as a list function: the tokens left after the
    closer that brings the level to zero (`none`: the list ends first) -/
def scanLevel (s e : String) : Nat → List Tok → Option (List Tok)
  | _, [] => none
  | level, t :: ts =>
    if t.type = s then scanLevel s e (level + 1) ts
    else if t.type = e then (if level - 1 = 0 then some ts else scanLevel s e (level - 1) ts)
    else scanLevel s e level ts

/-- the loop body of `discardContents` -/
def discardBody (s e : String) (level : Nat) : M (Nat ⊕ Unit) := do
  let tok ← P.token
  if tok.type = s then pure (.inl (level + 1))
  else if tok.type = e then
    if level - 1 = 0 then pure (.inr ()) else pure (.inl (level - 1))
  else pure (.inl level)

theorem discardContents_eq (F : Nat) (s e : String) : P.discardContents F s e = P.loopN F 1 (discardBody s e) := rfl

/-- `_discard_contents` against the abstraction: if the stream yields `ts` and the level
    count closes exactly at the end of `ts`, the routine consumes exactly `ts`: it ends
    normally in the stream state after `ts`, and nothing else of the parser state changes. -/
theorem discard_interp (env : Env) (s e : String) : ∀ (ts : List Tok) (level F : Nat) (w : World) (b' : Buf),
    Yields env.cfg w.buf ts b' → scanLevel s e level ts = some [] → ts.length ≤ F →
    ∃ w', interp env (P.loopN (F + 1) level (discardBody s e)) w = (w', .ok ()) ∧ w'.buf = b' ∧ SameParse w w' := by
  intro ts
  induction ts with
  | nil => intro level F w b' _ h; simp [scanLevel] at h
  | cons t ts ih =>
    intro level F w b' hy hs hF
    cases hy with
    | cons htok hrest =>
      rename_i b1
      have hho := handOut_same ({ w with buf := b1 } : World) t
      obtain ⟨hsame0, hbuf, hty, _⟩ := hho
      have hsame := (SameParse.setBuf w b1).trans hsame0
      simp only [P.loopN, interp_bind, discardBody, bind]
      simp only [interp_bind, interp_token, htok]
      simp only [hty]
      simp only [scanLevel] at hs
      by_cases h1 : t.type = s
      · simp only [h1, ↓reduceIte] at hs ⊢
        cases F with
        | zero => cases ts <;> simp [scanLevel] at hs hF
        | succ F =>
          obtain ⟨w', hw, hb, hsp⟩ := ih (level + 1) F _ b' (by rw [hbuf]; exact hrest) hs (by simp at hF; omega)
          refine ⟨w', ?_, hb, ?_⟩
          · simpa [interp, pure] using hw
          · exact SameParse.trans hsame hsp
      · simp only [h1, ↓reduceIte] at hs ⊢
        by_cases h2 : t.type = e
        · simp only [h2, ↓reduceIte] at hs ⊢
          by_cases h3 : level - 1 = 0
          · simp only [h3, ↓reduceIte, Option.some.injEq] at hs ⊢
            subst hs
            cases hrest
            refine ⟨_, by simp [interp, pure], hbuf, ?_⟩
            exact hsame
          · simp only [h3, ↓reduceIte] at hs ⊢
            cases F with
            | zero => cases ts <;> simp [scanLevel] at hs hF
            | succ F =>
              obtain ⟨w', hw, hb, hsp⟩ := ih (level - 1) F _ b' (by rw [hbuf]; exact hrest) hs (by simp at hF; omega)
              refine ⟨w', ?_, hb, ?_⟩
              · simpa [interp, pure] using hw
              · exact SameParse.trans hsame hsp
        · simp only [h2, ↓reduceIte] at hs ⊢
          cases F with
          | zero => cases ts <;> simp [scanLevel] at hs hF
          | succ F =>
            obtain ⟨w', hw, hb, hsp⟩ := ih level F _ b' (by rw [hbuf]; exact hrest) hs (by simp at hF; omega)
            refine ⟨w', ?_, hb, ?_⟩
            · simpa [interp, pure] using hw
            · exact SameParse.trans hsame hsp

/-! ### token-driven loops: `while True: tok = self.lex.token(); <pure step>` -/

def Tok.tv (t : Tok) : String × String := (t.type, t.value)
def CTok.tv (t : CTok) : String × String := (t.type, t.value)

theorem Yields.snoc {cfg : LexCfg} {b b' b'' : Buf} {ts : List Tok} {t : Tok}
    (h1 : Yields cfg b ts b') (h2 : tokenEofOk cfg b' = .ok (some t, b'')) : Yields cfg b (ts ++ [t]) b'' := by
  induction h1 with
  | nil b => exact .cons h2 (.nil _)
  | cons htok _ ih => exact .cons htok (ih h2)

theorem Yields.append {cfg : LexCfg} {b b' b'' : Buf} {ts us : List Tok}
    (h1 : Yields cfg b ts b') (h2 : Yields cfg b' us b'') : Yields cfg b (ts ++ us) b'' := by
  induction h1 with
  | nil b => exact h2
  | cons htok _ ih => exact .cons htok (ih h2)

/-- the tokens `cts` drive the pure step function from state `s` to the final result `a` -/
inductive RunsTo {σ α : Type} (step : σ → CTok → Except Err (σ ⊕ α)) : σ → List CTok → α → Prop
  | last {s : σ} {c : CTok} {a : α} : step s c = .ok (.inr a) → RunsTo step s [c] a
  | more {s s' : σ} {c : CTok} {cs : List CTok} {a : α} :
      step s c = .ok (.inl s') → RunsTo step s' cs a → RunsTo step s (c :: cs) a

theorem interp_liftE (env : Env) {α : Type} (r : Except Err α) (w : World) : interp env (P.liftE r) w = (w, r) := by
  cases r <;> rfl

/-- A loop that reads one token per iteration and decides with a pure function ends normally
    only like this: the stream yielded some tokens `ts`, the loop saw exactly those (same type
    and text, in order), the step function run over them gives the result, the stream is
    right after them and nothing else of the parser state changed. -/
theorem tokLoop_contiguous (env : Env) {σ α : Type} (step : σ → CTok → Except Err (σ ⊕ α)) :
    ∀ (F : Nat) (s : σ) (w w' : World) (a : α),
    interp env (P.loopN F s (fun s => do let tok ← P.token; P.liftE (step s tok))) w = (w', .ok a) →
    ∃ (ts : List Tok) (cts : List CTok), Yields env.cfg w.buf ts w'.buf ∧ SameParse w w' ∧
      cts.map CTok.tv = ts.map Tok.tv ∧ RunsTo step s cts a := by
  intro F
  induction F with
  | zero => intro s w w' a h; simp [P.loopN, interp] at h
  | succ F ih =>
    intro s w w' a h
    simp only [P.loopN, bind, interp_bind, interp_token] at h
    cases htok : tokenEofOk env.cfg w.buf with
    | error e => simp [htok] at h
    | ok r =>
      obtain ⟨o, b1⟩ := r
      cases o with
      | none => simp [htok] at h
      | some t =>
        simp only [htok, interp_liftE] at h
        have hho := handOut_same ({ w with buf := b1 } : World) t
        obtain ⟨hsame0, hbuf, hty, hval⟩ := hho
        have hsame := (SameParse.setBuf w b1).trans hsame0
        cases hstep : step s (({ w with buf := b1 } : World).handOut t).1 with
        | error e => simp [hstep] at h
        | ok r =>
          cases r with
          | inr a' =>
            simp only [hstep, interp, Prod.mk.injEq, Except.ok.injEq] at h
            obtain ⟨hw, ha⟩ := h
            subst hw; subst ha
            refine ⟨[t], [(({ w with buf := b1 } : World).handOut t).1], ?_, hsame, ?_, .last hstep⟩
            · exact .cons htok (by rw [hbuf]; exact .nil _)
            · simp [CTok.tv, Tok.tv, hty, hval]
          | inl s' =>
            simp only [hstep] at h
            obtain ⟨ts, cts, hy, hsp, htv, hr⟩ := ih s' _ w' a h
            refine ⟨t :: ts, (({ w with buf := b1 } : World).handOut t).1 :: cts, ?_, hsame.trans hsp, ?_, .more hstep hr⟩
            · exact .cons htok (by rw [hbuf] at hy; exact hy)
            · simp [CTok.tv, Tok.tv, hty, hval, htv] at htv ⊢

/-! ### `_consume_balanced_tokens` -/

/-- a closer of the expected type is never a fused pair -/
theorem fusedClosers_self (e : String) (stack : List String) : P.fusedClosers e e stack = false := by
  unfold P.fusedClosers
  by_cases h : e = "DBL_RBRACKET"
  · subst h; rfl
  · simp [h]

/-- a closer of the expected type: dropping pending `>` expectations (done for `]]` only) changes nothing -/
theorem skipGt_ne (e : String) (stack : List String) (h : e ≠ ">") : P.skipGt e stack = (e, stack) := by
  cases stack with
  | nil => simp [P.skipGt]
  | cons a as => simp [P.skipGt, h]

@[simp] theorem skipGt_fst_self (cl : String) (stack : List String) :
    (if cl = "DBL_RBRACKET" then (P.skipGt cl stack).1 else cl) = cl := by
  by_cases h : cl = "DBL_RBRACKET"
  · subst h; simp [skipGt_ne "DBL_RBRACKET" stack (by decide)]
  · simp [h]

@[simp] theorem skipGt_snd_self (cl : String) (stack : List String) :
    (if cl = "DBL_RBRACKET" then (P.skipGt cl stack).2 else stack) = stack := by
  by_cases h : cl = "DBL_RBRACKET"
  · subst h; simp [skipGt_ne "DBL_RBRACKET" stack (by decide)]
  · simp [h]

/-- `us` is `ts` with some `]]` tokens taken apart into two `]` (what the matcher does for
    `a[b[0]]`) -/
inductive Unfused : List CTok → List CTok → Prop
  | nil : Unfused [] []
  | keep (t : CTok) {ts us : List CTok} : Unfused ts us → Unfused (t :: ts) (t :: us)
  | split (t : CTok) {ts us : List CTok} : t.type = "DBL_RBRACKET" → Unfused ts us →
      Unfused (t :: ts) (P.unfused t :: P.unfused t :: us)

theorem Unfused.refl : ∀ (l : List CTok), Unfused l l
  | [] => .nil
  | t :: ts => .keep t (Unfused.refl ts)

theorem Unfused.append {a a' b b' : List CTok} (h1 : Unfused a a') (h2 : Unfused b b') : Unfused (a ++ b) (a' ++ b') := by
  induction h1 with
  | nil => exact h2
  | keep t _ ih => exact .keep t ih
  | split t ht _ ih => exact .split t ht ih

/-- taking `]]` apart changes no character: the concatenated token texts are the same -/
theorem Unfused.chars {cts us : List CTok} (h : Unfused cts us) (hv : ∀ t ∈ cts, t.type = "DBL_RBRACKET" → t.value = "]]") :
    String.join (us.map (·.value)) = String.join (cts.map (·.value)) := by
  induction h with
  | nil => rfl
  | keep t _ ih =>
    simp only [List.map_cons, String.join_cons]
    rw [ih (fun x hx => hv x (by simp [hx]))]
  | split t ht _ ih =>
    have hval := hv t (by simp) ht
    simp only [List.map_cons, String.join_cons, P.unfused]
    rw [ih (fun x hx => hv x (by simp [hx])), hval, ← String.append_assoc]
    rfl

/-- without `]]` tokens nothing is taken apart -/
theorem Unfused.none {cts us : List CTok} (h : Unfused cts us) (hn : ∀ t ∈ cts, t.type ≠ "DBL_RBRACKET") : us = cts := by
  induction h with
  | nil => rfl
  | keep t _ ih => rw [ih (fun x hx => hn x (by simp [hx]))]
  | split t ht _ _ => exact absurd ht (hn t (by simp))

theorem balStep_consumed (st : List CTok × List String) (tok : CTok) :
    (∀ st', P.balStep st tok = .ok (.inl st') → ∃ us, Unfused [tok] us ∧ st'.1 = st.1 ++ us) ∧
    (∀ r, P.balStep st tok = .ok (.inr r) → ∃ us, Unfused [tok] us ∧ r = st.1 ++ us) := by
  have hf : ∀ e stack, P.fusedClosers tok.type e stack = true → tok.type = "DBL_RBRACKET" := by
    intro e stack h
    simp only [P.fusedClosers, Bool.and_eq_true, beq_iff_eq] at h
    exact h.1.1
  unfold P.balStep
  constructor
  · intro st' h
    dsimp only at h
    repeat' (split at h)
    all_goals first
      | (simp at h; done)
      | (rename_i hfc _; simp at h; exact ⟨_, .split tok (hf _ _ hfc) .nil, by rw [← h]⟩)
      | (simp at h; exact ⟨[tok], Unfused.refl _, by rw [← h]⟩)
  · intro r h
    dsimp only at h
    repeat' (split at h)
    all_goals first
      | (simp at h; done)
      | (rename_i hfc _; simp at h; exact ⟨_, .split tok (hf _ _ hfc) .nil, h.symm⟩)
      | (simp at h; exact ⟨[tok], Unfused.refl _, h.symm⟩)

theorem runsTo_balStep (st : List CTok × List String) (cts : List CTok) (res : List CTok)
    (h : RunsTo P.balStep st cts res) : ∃ us, Unfused cts us ∧ res = st.1 ++ us := by
  induction h with
  | last hs => exact (balStep_consumed _ _).2 _ hs
  | more hs _ ih =>
    obtain ⟨us1, hu1, h1⟩ := (balStep_consumed _ _).1 _ hs
    obtain ⟨us2, hu2, h2⟩ := ih
    exact ⟨us1 ++ us2, Unfused.append hu1 hu2, by rw [h2, h1]; simp⟩

/-- `_consume_balanced_tokens` returns its initial tokens followed by exactly the tokens it
    took from the stream, in stream order (a `]]` that closes two `[` taken apart into `]` `]`),
    and leaves the stream right after the last one. -/
theorem consumeBalanced_contiguous (env : Env) (F : Nat) (init : List CTok) (w w' : World) (res : List CTok)
    (h : interp env (P.consumeBalancedTokens F init) w = (w', .ok res)) :
    ∃ (ts : List Tok) (cts us : List CTok), Yields env.cfg w.buf ts w'.buf ∧ SameParse w w' ∧
      cts.map CTok.tv = ts.map Tok.tv ∧ Unfused cts us ∧ res = init ++ us := by
  unfold P.consumeBalancedTokens at h
  obtain ⟨ts, cts, hy, hsp, htv, hr⟩ := tokLoop_contiguous env P.balStep F _ w w' res h
  obtain ⟨us, hu, hres⟩ := runsTo_balStep _ _ _ hr
  exact ⟨ts, cts, us, hy, hsp, htv, hu, hres⟩

/-! ### `_consume_value_until` -/

/-- the stream state after a look-ahead from `b`: end of input was seen, or one token was read
    and pushed back -/
inductive Peeked (cfg : LexCfg) (b : Buf) : Buf → Prop
  | eof {b' : Buf} : tokenEofOk cfg b = .ok (none, b') → Peeked cfg b b'
  | back {t t' : Tok} {b2 : Buf} : tokenEofOk cfg b = .ok (some t, b2) → t'.tv = t.tv →
      Peeked cfg b (Cxx.returnToken t' b2)

theorem interp_tokenIfP (env : Env) (p : CTok → Bool) (w : World) :
    interp env (P.tokenIfP p) w =
      match tokenEofOk env.cfg w.buf with
      | .error e => (w, .error e)
      | .ok (none, b) => ({ w with buf := b }, .ok none)
      | .ok (some t, b) =>
        let w1 := ({ w with buf := b } : World).handOut t
        if p w1.1 then (w1.2, .ok (some w1.1))
        else ({ w1.2 with buf := Cxx.returnTokens ([w1.1].map w1.2.toTok) w1.2.buf }, .ok none) := by
  unfold P.tokenIfP P.tokenEofOk P.returnToken
  simp only [bind, Prog.bind, interp, Bool.false_eq_true, ↓reduceIte]
  cases h : tokenEofOk env.cfg w.buf with
  | error e => rfl
  | ok r =>
    obtain ⟨o, b⟩ := r
    cases o with
    | none => rfl
    | some t =>
      simp only
      split <;> rfl

/-- `_consume_value_until` returns the tokens it was given followed by exactly the tokens it
    took from the stream, in stream order; the stream is left at a look-ahead right after them
    (the terminator, or end of input, was only peeked). -/
theorem consumeValueUntil_contiguous (env : Env) (types : List String) : ∀ (F : Nat) (rtoks : List CTok) (w w' : World) (res : List CTok),
    interp env (P.consumeValueUntil F rtoks types) w = (w', .ok res) →
    ∃ (ts : List Tok) (cts us : List CTok) (bmid : Buf), Yields env.cfg w.buf ts bmid ∧ Peeked env.cfg bmid w'.buf ∧
      SameParse w w' ∧ cts.map CTok.tv = ts.map Tok.tv ∧ Unfused cts us ∧ res = rtoks ++ us := by
  intro F
  -- the inner `_consume_balanced_tokens` uses the same fuel: generalise it
  suffices hgen : ∀ (G F : Nat) (rtoks : List CTok) (w w' : World) (res : List CTok),
      interp env (P.loopN F rtoks (fun rtoks => do
        match (← P.tokenIfNot types) with
        | none => pure (.inr rtoks)
        | some tok =>
          if P.isBalancedStart tok.type then do
            let more ← P.consumeBalancedTokens G [tok]
            pure (.inl (rtoks ++ more))
          else pure (.inl (rtoks ++ [tok])))) w = (w', .ok res) →
      ∃ (ts : List Tok) (cts us : List CTok) (bmid : Buf), Yields env.cfg w.buf ts bmid ∧ Peeked env.cfg bmid w'.buf ∧
        SameParse w w' ∧ cts.map CTok.tv = ts.map Tok.tv ∧ Unfused cts us ∧ res = rtoks ++ us from
    fun rtoks w w' res h => hgen F F rtoks w w' res h
  intro G F
  induction F with
  | zero => intro rtoks w w' res h; simp [P.loopN, interp] at h
  | succ F ih =>
    intro rtoks w w' res h
    simp only [P.loopN, bind, interp_bind, P.tokenIfNot, interp_tokenIfP] at h
    cases htok : tokenEofOk env.cfg w.buf with
    | error e => simp [htok] at h
    | ok r =>
      obtain ⟨o, b1⟩ := r
      cases o with
      | none =>
        simp only [htok, pure, interp, Prod.mk.injEq, Except.ok.injEq] at h
        obtain ⟨hw, hr⟩ := h
        subst hw; subst hr
        exact ⟨[], [], [], w.buf, .nil _, .eof htok, SameParse.setBuf w b1, rfl, .nil, by simp⟩
      | some t =>
        simp only [htok] at h
        have hho := handOut_same ({ w with buf := b1 } : World) t
        obtain ⟨hsame0, hbuf, hty, hval⟩ := hho
        have hsame := (SameParse.setBuf w b1).trans hsame0
        by_cases hp : (!types.contains (({ w with buf := b1 } : World).handOut t).1.type) = true
        · simp only [hp, ↓reduceIte] at h
          by_cases hb : P.isBalancedStart (({ w with buf := b1 } : World).handOut t).1.type = true
          · simp only [hb, ↓reduceIte, interp_bind] at h
            cases hcb : interp env (P.consumeBalancedTokens G [(({ w with buf := b1 } : World).handOut t).1])
                (({ w with buf := b1 } : World).handOut t).2 with
            | mk w2 r2 =>
              cases r2 with
              | error e => simp [hcb] at h
              | ok more =>
                simp only [hcb, pure, interp] at h
                obtain ⟨ts2, cts2, us2, hy2, hsp2, htv2, hu2, hm⟩ := consumeBalanced_contiguous env G _ _ w2 more hcb
                obtain ⟨ts3, cts3, us3, bmid, hy3, hpk, hsp3, htv3, hu3, hres⟩ := ih _ w2 w' res h
                refine ⟨t :: (ts2 ++ ts3), (({ w with buf := b1 } : World).handOut t).1 :: (cts2 ++ cts3),
                  (({ w with buf := b1 } : World).handOut t).1 :: (us2 ++ us3), bmid, ?_, hpk,
                  (hsame.trans hsp2).trans hsp3, ?_, .keep _ (Unfused.append hu2 hu3), ?_⟩
                · exact .cons htok (Yields.append (by rw [hbuf] at hy2; exact hy2) hy3)
                · simp [CTok.tv, Tok.tv, hty, hval] at htv2 htv3 ⊢; simp [htv2, htv3]
                · rw [hres, hm]; simp
          · simp only [hb, Bool.false_eq_true, ↓reduceIte, pure, interp] at h
            obtain ⟨ts3, cts3, us3, bmid, hy3, hpk, hsp3, htv3, hu3, hres⟩ := ih _ _ w' res h
            refine ⟨t :: ts3, (({ w with buf := b1 } : World).handOut t).1 :: cts3, (({ w with buf := b1 } : World).handOut t).1 :: us3,
              bmid, ?_, hpk, hsame.trans hsp3, ?_, .keep _ hu3, ?_⟩
            · exact .cons htok (by rw [hbuf] at hy3; exact hy3)
            · simp [CTok.tv, Tok.tv, hty, hval] at htv3 ⊢; exact htv3
            · rw [hres]; simp
        · simp only [hp, Bool.false_eq_true, ↓reduceIte, pure, interp, Prod.mk.injEq, Except.ok.injEq] at h
          obtain ⟨hw, hr⟩ := h
          subst hw; subst hr
          refine ⟨[], [], [], w.buf, .nil _, ?_, ?_, rfl, .nil, by simp⟩
          · simp only [List.map_cons, List.map_nil, Cxx.returnTokens, List.singleton_append]
            rw [hbuf]
            exact .back (t' := _) htok (by simp [Tok.tv, World.toTok, hty, hval])
          · exact hsame.trans (SameParse.setBuf _ _)


/-! ### completeness direction: a stream that yields a run of the step function is consumed by it -/

def ctokOf (t : Tok) : CTok := { type := t.type, value := t.value, sidx := 0 }

theorem ctokOf_tv (ts : List Tok) : (ts.map ctokOf).map CTok.tv = ts.map Tok.tv := by
  induction ts with
  | nil => rfl
  | cons t ts ih => simp [ctokOf, CTok.tv, Tok.tv] at ih ⊢

/-- a run is a function of its start state and tokens -/
theorem RunsTo.det {σ α : Type} {step : σ → CTok → Except Err (σ ⊕ α)} {s : σ} {cs : List CTok} {a a' : α}
    (h1 : RunsTo step s cs a) (h2 : RunsTo step s cs a') : a = a' := by
  induction h1 with
  | last hs =>
    cases h2 with
    | last hs' => rw [hs] at hs'; injection hs' with h; injection h
    | more hs' hr' => cases hr'
  | more hs hr ih =>
    cases h2 with
    | last hs' => cases hr
    | more hs' hr' =>
      rw [hs] at hs'
      injection hs' with h; injection h with h
      subst h
      exact ih hr'

theorem RunsTo.cons_inv {σ α : Type} {step : σ → CTok → Except Err (σ ⊕ α)} {s : σ} {c : CTok} {cs : List CTok} {a : α}
    (h : RunsTo step s (c :: cs) a) :
    (cs = [] ∧ step s c = .ok (.inr a)) ∨ (∃ s1, step s c = .ok (.inl s1) ∧ RunsTo step s1 cs a) := by
  cases h with
  | last hs => exact .inl ⟨rfl, hs⟩
  | more hs hr => exact .inr ⟨_, hs, hr⟩

/-- If the stream yields `ts` and the pure step function, run over any tokens with the same
    types and texts, reaches a result exactly at the end of them, then the loop ends normally
    with such a result, the stream is right after `ts` and nothing else changed. -/
theorem tokLoop_complete (env : Env) {σ α : Type} (step : σ → CTok → Except Err (σ ⊕ α)) :
    ∀ (ts : List Tok) (s : σ) (F : Nat) (w : World) (b' : Buf),
    Yields env.cfg w.buf ts b' → ts.length ≤ F →
    (∀ cts : List CTok, cts.map CTok.tv = ts.map Tok.tv → ∃ a, RunsTo step s cts a) →
    ∃ (w' : World) (a : α) (cts : List CTok),
      interp env (P.loopN (F + 1) s (fun s => do let tok ← P.token; P.liftE (step s tok))) w = (w', .ok a) ∧
      w'.buf = b' ∧ SameParse w w' ∧ cts.map CTok.tv = ts.map Tok.tv ∧ RunsTo step s cts a := by
  intro ts
  induction ts with
  | nil =>
    intro s F w b' _ _ hrun
    obtain ⟨a, hr⟩ := hrun [] rfl
    cases hr
  | cons t ts ih =>
    intro s F w b' hy hF hrun
    cases hy with
    | cons htok hrest =>
      rename_i b1
      have hho := handOut_same ({ w with buf := b1 } : World) t
      obtain ⟨hsame0, hbuf, hty, hval⟩ := hho
      have hsame := (SameParse.setBuf w b1).trans hsame0
      have hc : CTok.tv (({ w with buf := b1 } : World).handOut t).1 = Tok.tv t := by simp [CTok.tv, Tok.tv, hty, hval]
      simp only [P.loopN, bind, interp_bind, interp_token, htok, interp_liftE]
      obtain ⟨a0, hr0⟩ := hrun ((({ w with buf := b1 } : World).handOut t).1 :: ts.map ctokOf)
        (by simp only [List.map_cons, hc, ctokOf_tv])
      rcases hr0.cons_inv with ⟨hnil, hstep⟩ | ⟨s1, hstep, hr1⟩
      · -- the run ends at this token: `ts` is empty
        cases ts with
        | cons t2 ts2 => simp at hnil
        | nil =>
          have hb1 : b1 = b' := by cases hrest; rfl
          refine ⟨_, a0, [(({ w with buf := b1 } : World).handOut t).1], ?_, hbuf.trans hb1, hsame, by simp [hc], .last hstep⟩
          simp [hstep, interp]
      · cases F with
        | zero =>
          cases ts with
          | nil => cases hr1
          | cons t2 ts2 => simp at hF
        | succ F =>
          have hrun1 : ∀ cts : List CTok, cts.map CTok.tv = ts.map Tok.tv → ∃ a, RunsTo step s1 cts a := by
            intro cts hcts
            obtain ⟨a, hr⟩ := hrun ((({ w with buf := b1 } : World).handOut t).1 :: cts) (by simp only [List.map_cons, hc, hcts])
            rcases hr.cons_inv with ⟨_, hs⟩ | ⟨s1', hs, hr'⟩
            · rw [hstep] at hs; cases hs
            · rw [hstep] at hs; cases hs; exact ⟨a, hr'⟩
          obtain ⟨w', a, cts, hw, hb, hsp, htv, hr⟩ := ih s1 F _ b' (by rw [hbuf]; exact hrest) (by simp at hF; omega) hrun1
          refine ⟨w', a, (({ w with buf := b1 } : World).handOut t).1 :: cts, ?_, hb, hsame.trans hsp, by simp [hc, htv], .more hstep hr⟩
          simp only [hstep]
          exact hw

/-! ### the balanced-token matcher on properly nested content -/

/-- all-`inl` progress of a step function -/
inductive Steps {σ α : Type} (step : σ → CTok → Except Err (σ ⊕ α)) : σ → List CTok → σ → Prop
  | nil (s : σ) : Steps step s [] s
  | cons {s s1 s' : σ} {c : CTok} {cs : List CTok} : step s c = .ok (.inl s1) → Steps step s1 cs s' → Steps step s (c :: cs) s'

theorem Steps.append {σ α : Type} {step : σ → CTok → Except Err (σ ⊕ α)} {s s1 s2 : σ} {a b : List CTok}
    (h1 : Steps step s a s1) (h2 : Steps step s1 b s2) : Steps step s (a ++ b) s2 := by
  induction h1 with
  | nil s => exact h2
  | cons hs _ ih => exact .cons hs (ih h2)

theorem Steps.runsTo {σ α : Type} {step : σ → CTok → Except Err (σ ⊕ α)} {s s1 : σ} {a : List CTok} {c : CTok} {r : α}
    (h1 : Steps step s a s1) (h2 : step s1 c = .ok (.inr r)) : RunsTo step s (a ++ [c]) r := by
  induction h1 with
  | nil s => exact .last h2
  | cons hs _ ih => exact .more hs (ih h2)

/-- properly nested with respect to the bracket pairs of `_balanced_token_map` (a list of
    token types): every opener is closed by its own closer, in order; other tokens are free,
    except that a closer type never stands alone -/
inductive Nested : List String → Prop
  | nil : Nested []
  | atom (t : String) (rest : List String) : Gen.balancedTokenMap.lookup t = none → P.isBalancedEnd t = false →
      Nested rest → Nested (t :: rest)
  | group (o cl : String) (inner rest : List String) : Gen.balancedTokenMap.lookup o = some cl →
      Nested inner → Nested rest → Nested (o :: inner ++ cl :: rest)

/-- facts about the regenerated bracket table that the matcher relies on -/
def BalTableOK : Prop :=
  (∀ p ∈ Gen.balancedTokenMap, P.isBalancedEnd p.1 = false) ∧ (∀ p ∈ Gen.balancedTokenMap, P.isBalancedEnd p.2 = true)

theorem balTableOK : BalTableOK := by
  unfold BalTableOK
  constructor <;> decide

theorem lookup_mem {k v : String} : ∀ {l : List (String × String)}, l.lookup k = some v → (k, v) ∈ l := by
  intro l
  induction l with
  | nil => intro h; simp [List.lookup] at h
  | cons p r ih =>
    intro h
    obtain ⟨k', v'⟩ := p
    simp only [List.lookup] at h
    by_cases hk : k = k'
    · subst hk; simp at h; subst h; simp
    · have : (k == k') = false := by simp [hk]
      simp only [this] at h
      exact List.mem_cons_of_mem _ (ih h)

theorem nested_steps (tys : List String) (hn : Nested tys) :
    ∀ (cts : List CTok), cts.map (·.type) = tys → ∀ (consumed : List CTok) (stack : List String), stack ≠ [] →
    Steps P.balStep (consumed, stack) cts (consumed ++ cts, stack) := by
  induction hn with
  | nil =>
    intro cts h consumed stack _
    cases cts with
    | nil => simpa using Steps.nil _
    | cons c cs => simp at h
  | atom t rest hl he _ ih =>
    intro cts h consumed stack hne
    cases cts with
    | nil => simp at h
    | cons c cs =>
      simp only [List.map_cons, List.cons.injEq] at h
      obtain ⟨hc, hcs⟩ := h
      have hstep : P.balStep (consumed, stack) c = .ok (.inl (consumed ++ [c], stack)) := by
        simp [P.balStep, hc, he, hl]
      have := ih cs hcs (consumed ++ [c]) stack hne
      have h2 : consumed ++ [c] ++ cs = consumed ++ c :: cs := by simp
      rw [h2] at this
      exact .cons hstep this
  | group o cl inner rest hl _ _ ih1 ih2 =>
    intro cts h consumed stack hne
    have hmem := lookup_mem hl
    have ho : P.isBalancedEnd o = false := balTableOK.1 _ hmem
    have hcl : P.isBalancedEnd cl = true := balTableOK.2 _ hmem
    -- split cts = co :: ci ++ cc :: cr
    cases cts with
    | nil => simp at h
    | cons co cs =>
      simp only [List.map_cons, List.cons_append, List.cons.injEq] at h
      obtain ⟨hco, hcs⟩ := h
      obtain ⟨ci, crest, hsplit, hci, hcr⟩ := List.map_eq_append_iff.mp hcs
      cases crest with
      | nil => simp at hcr
      | cons cc cr =>
        simp only [List.map_cons, List.cons.injEq] at hcr
        obtain ⟨hcc, hcr⟩ := hcr
        subst hsplit
        have hstep1 : P.balStep (consumed, stack) co = .ok (.inl (consumed ++ [co], cl :: stack)) := by
          simp [P.balStep, hco, ho, hl]
        have hin := ih1 ci hci (consumed ++ [co]) (cl :: stack) (by simp)
        have hstep2 : P.balStep (consumed ++ [co] ++ ci, cl :: stack) cc = .ok (.inl (consumed ++ [co] ++ ci ++ [cc], stack)) := by
          have hs : stack.isEmpty = false := by cases stack <;> simp_all
          simp [P.balStep, hcc, hcl, hs, fusedClosers_self]
        have hre := ih2 cr hcr (consumed ++ [co] ++ ci ++ [cc]) stack hne
        have := Steps.cons hstep1 (Steps.append hin (Steps.cons hstep2 hre))
        simpa using this

/-- on `content ++ [closer]` with `content` properly nested, the matcher started with the
    single opener `o0` returns exactly `o0 :: content ++ [closer]` -/
theorem balanced_region_runs (o0 : CTok) (clty : String) (hl0 : Gen.balancedTokenMap.lookup o0.type = some clty)
    (content : List CTok) (closer : CTok) (hn : Nested (content.map (·.type))) (hc : closer.type = clty) :
    RunsTo P.balStep ([o0], [clty]) (content ++ [closer]) ([o0] ++ content ++ [closer]) := by
  have hmem := lookup_mem hl0
  have hcl : P.isBalancedEnd clty = true := balTableOK.2 _ hmem
  have hs := nested_steps _ hn content rfl [o0] [clty] (by simp)
  have hlast : P.balStep ([o0] ++ content, [clty]) closer = .ok (.inr ([o0] ++ content ++ [closer])) := by
    simp [P.balStep, hc, hcl, fusedClosers_self]
  exact Steps.runsTo hs hlast

/-- `_consume_balanced_tokens(o0)` on a stream that yields properly nested content followed
    by the closer of `o0`: ends normally, returns `o0`, the content and the closer, and the
    stream is right after the closer — whatever the content is. -/
theorem consumeBalanced_region (env : Env) (o0 : CTok) (clty : String)
    (hl0 : Gen.balancedTokenMap.lookup o0.type = some clty)
    (content : List Tok) (closer : Tok) (hn : Nested (content.map (·.type))) (hc : closer.type = clty)
    (w : World) (b' : Buf) (F : Nat) (hy : Yields env.cfg w.buf (content ++ [closer]) b') (hF : content.length + 1 ≤ F) :
    ∃ (w' : World) (res : List CTok), interp env (P.consumeBalancedTokens (F + 1) [o0]) w = (w', .ok res) ∧
      w'.buf = b' ∧ SameParse w w' ∧ res.map CTok.tv = o0.tv :: (content.map Tok.tv ++ [closer.tv]) := by
  have hrun : ∀ cts : List CTok, cts.map CTok.tv = (content ++ [closer]).map Tok.tv →
      RunsTo P.balStep ([o0], [clty]) cts ([o0] ++ cts) := by
    intro cts hcts
    -- split cts into content' ++ [closer']
    obtain ⟨c1, c2, hsplit, h1, h2⟩ := List.map_eq_append_iff.mp (by simpa using hcts)
    cases c2 with
    | nil => simp at h2
    | cons cc cr =>
      cases cr with
      | cons x y => simp at h2
      | nil =>
        simp only [List.map_cons, List.map_nil, List.cons.injEq, and_true] at h2
        subst hsplit
        have hty1 : c1.map (·.type) = content.map (·.type) := by
          have := congrArg (List.map Prod.fst) h1
          simpa [CTok.tv, Tok.tv, Function.comp_def] using this
        have htyc : cc.type = clty := by
          have := congrArg Prod.fst h2
          simp [CTok.tv, Tok.tv] at this
          rw [this, hc]
        have := balanced_region_runs o0 clty hl0 c1 cc (by rw [hty1]; exact hn) htyc
        simpa [List.append_assoc] using this
  have hstack : (([o0].map (fun t => (Gen.balancedTokenMap.lookup t.type).getD "?")).reverse) = [clty] := by simp [hl0]
  obtain ⟨w', a, cts, hw, hb, hsp, htv, hr⟩ := tokLoop_complete env P.balStep (content ++ [closer]) ([o0], [clty]) F w b' hy (by simpa using hF) (fun cts h => ⟨_, hrun cts h⟩)
  refine ⟨w', a, ?_, hb, hsp, ?_⟩
  · unfold P.consumeBalancedTokens
    simp only [hstack]
    exact hw
  · have := RunsTo.det hr (hrun cts htv)
    rw [this]
    simp [htv]


/-! ### routines built from the collectors -/

/-- `_next_token_must_be(types)` when the next token has one of the types -/
theorem interp_nextTokenMustBe_ok (env : Env) (types : List String) (w : World) (t : Tok) (b1 : Buf)
    (htok : tokenEofOk env.cfg w.buf = .ok (some t, b1)) (hty : types.contains t.type = true) :
    interp env (P.nextTokenMustBe types) w =
      ((({ w with buf := b1 } : World).handOut t).2, .ok (({ w with buf := b1 } : World).handOut t).1) := by
  have hho := handOut_same ({ w with buf := b1 } : World) t
  unfold P.nextTokenMustBe
  simp only [bind, interp_bind, interp_token, htok, hho.2.2.1, hty, ↓reduceIte]
  rfl

/-- two-opener start of `__attribute__((...))`: the matcher returns at the second closer -/
theorem balanced_region2_runs (o0 o1 : CTok) (cl0 cl1 : String)
    (hl0 : Gen.balancedTokenMap.lookup o0.type = some cl0) (hl1 : Gen.balancedTokenMap.lookup o1.type = some cl1)
    (content : List CTok) (c1 c0 : CTok) (hn : Nested (content.map (·.type))) (hc1 : c1.type = cl1) (hc0 : c0.type = cl0) :
    RunsTo P.balStep ([o0, o1], [cl1, cl0]) (content ++ [c1] ++ [c0]) ([o0, o1] ++ content ++ [c1] ++ [c0]) := by
  have he0 : P.isBalancedEnd cl0 = true := balTableOK.2 _ (lookup_mem hl0)
  have he1 : P.isBalancedEnd cl1 = true := balTableOK.2 _ (lookup_mem hl1)
  have hs := nested_steps _ hn content rfl [o0, o1] [cl1, cl0] (by simp)
  have h1 : P.balStep ([o0, o1] ++ content, [cl1, cl0]) c1 = .ok (.inl ([o0, o1] ++ content ++ [c1], [cl0])) := by
    simp [P.balStep, hc1, he1, fusedClosers_self]
  have h0 : P.balStep ([o0, o1] ++ content ++ [c1], [cl0]) c0 = .ok (.inr ([o0, o1] ++ content ++ [c1] ++ [c0])) := by
    simp [P.balStep, hc0, he0, fusedClosers_self]
  exact Steps.runsTo (Steps.append hs (.cons h1 (.nil _))) h0


def balStack0 (init : List CTok) : List String :=
  (init.map (fun t => (Gen.balancedTokenMap.lookup t.type).getD "?")).reverse

theorem consumeBalanced_of_runs (env : Env) (init : List CTok) (ts : List Tok) (w : World) (b' : Buf) (F : Nat)
    (hy : Yields env.cfg w.buf ts b') (hF : ts.length ≤ F)
    (hrun : ∀ cts : List CTok, cts.map CTok.tv = ts.map Tok.tv → RunsTo P.balStep (init, balStack0 init) cts (init ++ cts)) :
    ∃ (w' : World) (res : List CTok), interp env (P.consumeBalancedTokens (F + 1) init) w = (w', .ok res) ∧
      w'.buf = b' ∧ SameParse w w' ∧ res.map CTok.tv = init.map CTok.tv ++ ts.map Tok.tv := by
  obtain ⟨w', a, cts, hw, hb, hsp, htv, hr⟩ := tokLoop_complete env P.balStep ts (init, balStack0 init) F w b' hy hF (fun cts h => ⟨_, hrun cts h⟩)
  refine ⟨w', a, hw, hb, hsp, ?_⟩
  have := RunsTo.det hr (hrun cts htv)
  rw [this, List.map_append, htv]

/-- split a token list that is type/text-equal to `xs ++ [y]` -/
theorem tv_split_last {cts : List CTok} {xs : List Tok} {y : Tok} (h : cts.map CTok.tv = (xs ++ [y]).map Tok.tv) :
    ∃ c1 cc, cts = c1 ++ [cc] ∧ c1.map (·.type) = xs.map (·.type) ∧ cc.type = y.type ∧ c1.map CTok.tv = xs.map Tok.tv := by
  obtain ⟨c1, c2, hsplit, h1, h2⟩ := List.map_eq_append_iff.mp (by simpa using h)
  cases c2 with
  | nil => simp at h2
  | cons cc cr =>
    cases cr with
    | cons x y => simp at h2
    | nil =>
      simp only [List.map_cons, List.map_nil, List.cons.injEq, and_true] at h2
      refine ⟨c1, cc, hsplit, ?_, ?_, h1⟩
      · have := congrArg (List.map Prod.fst) h1
        simpa [CTok.tv, Tok.tv, Function.comp_def] using this
      · have := congrArg Prod.fst h2
        simpa [CTok.tv, Tok.tv] using this


/-! ### where `_consume_value_until` stops -/

theorem Yields.split {cfg : LexCfg} : ∀ {xs ys : List Tok} {b b' : Buf}, Yields cfg b (xs ++ ys) b' →
    ∃ bm, Yields cfg b xs bm ∧ Yields cfg bm ys b' := by
  intro xs
  induction xs with
  | nil => intro ys b b' h; exact ⟨b, .nil _, h⟩
  | cons x xs ih =>
    intro ys b b' h
    cases h with
    | cons htok hrest =>
      obtain ⟨bm, h1, h2⟩ := ih hrest
      exact ⟨bm, .cons htok h1, h2⟩

/-- the top level of a value for the terminator set `types`: tokens that are neither
    terminators nor openers, and bracket groups with properly nested content -/
inductive TopLevel (types : List String) : List String → Prop
  | nil : TopLevel types []
  | atom (t : String) (rest : List String) : types.contains t = false → Gen.balancedTokenMap.lookup t = none →
      TopLevel types rest → TopLevel types (t :: rest)
  | group (o cl : String) (inner rest : List String) : types.contains o = false →
      Gen.balancedTokenMap.lookup o = some cl → Nested inner → TopLevel types rest →
      TopLevel types (o :: (inner ++ cl :: rest))

/-- `_consume_value_until(rtoks, *types)` on a stream that yields a value (top-level shape
    `TopLevel types`) followed by a terminator: it returns `rtoks` followed by exactly the
    value's tokens, and the terminator is left in the stream (read and pushed back). -/
theorem consumeValueUntil_stops (env : Env) (types : List String) (tys : List String) (hn : TopLevel types tys) :
    ∀ (vals : List Tok), vals.map (·.type) = tys → ∀ (term : Tok), types.contains term.type = true →
    ∀ (G F : Nat) (rtoks : List CTok) (w : World) (bmid b' : Buf),
    Yields env.cfg w.buf vals bmid → tokenEofOk env.cfg bmid = .ok (some term, b') →
    vals.length + 1 ≤ F → vals.length + 1 ≤ G →
    ∃ (w' : World) (res : List CTok) (t' : Tok),
      interp env (P.loopN (F + 1) rtoks (fun rtoks => do
        match (← P.tokenIfNot types) with
        | none => pure (.inr rtoks)
        | some tok =>
          if P.isBalancedStart tok.type then do
            let more ← P.consumeBalancedTokens (G + 1) [tok]
            pure (.inl (rtoks ++ more))
          else pure (.inl (rtoks ++ [tok])))) w = (w', .ok res) ∧
      w'.buf = Cxx.returnToken t' b' ∧ t'.tv = term.tv ∧ SameParse w w' ∧
      res.map CTok.tv = rtoks.map CTok.tv ++ vals.map Tok.tv := by
  induction hn with
  | nil =>
    intro vals hv term hterm G F rtoks w bmid b' hy htok _ _
    cases vals with
    | cons v vs => simp at hv
    | nil =>
      cases hy
      have hho := handOut_same ({ w with buf := b' } : World) term
      obtain ⟨hsame0, hbuf, hty, hval⟩ := hho
      have hsame := (SameParse.setBuf w b').trans hsame0
      refine ⟨{ (({ w with buf := b' } : World).handOut term).2 with
          buf := Cxx.returnToken ((({ w with buf := b' } : World).handOut term).2.toTok (({ w with buf := b' } : World).handOut term).1) b' },
        rtoks, _, ?_, rfl, ?_, ?_, by simp⟩
      · simp only [P.loopN, bind, interp_bind, P.tokenIfNot, interp_tokenIfP, htok, hty, hterm, Bool.not_true,
          Bool.false_eq_true, ↓reduceIte, pure, interp]
        simp only [List.map_cons, List.map_nil, Cxx.returnTokens, List.singleton_append, hbuf]
        rfl
      · simp [Tok.tv, World.toTok, hty, hval]
      · exact hsame.trans (SameParse.setBuf _ _)
  | atom t rest hnt hl _ ih =>
    intro vals hv term hterm G F rtoks w bmid b' hy htok hF hG
    cases vals with
    | nil => simp at hv
    | cons v vs =>
      simp only [List.map_cons, List.cons.injEq] at hv
      obtain ⟨hvt, hvs⟩ := hv
      cases hy with
      | cons htokv hrest =>
        rename_i b1
        have hho := handOut_same ({ w with buf := b1 } : World) v
        obtain ⟨hsame0, hbuf, hty, hval⟩ := hho
        have hsame := (SameParse.setBuf w b1).trans hsame0
        cases F with
        | zero => simp at hF
        | succ F =>
          obtain ⟨w', res, t', hw, hb, ht', hsp, hres⟩ := ih vs hvs term hterm G F
            (rtoks ++ [(({ w with buf := b1 } : World).handOut v).1]) _ bmid b' (by rw [hbuf]; exact hrest) htok
            (by simp at hF; omega) (by simp at hG; omega)
          refine ⟨w', res, t', ?_, hb, ht', hsame.trans hsp, ?_⟩
          · have hns : P.isBalancedStart t = false := by simp [P.isBalancedStart, hl]
            rw [P.loopN]
            simp only [bind, interp_bind, P.tokenIfNot, interp_tokenIfP, htokv, hty, hvt, hnt, Bool.not_false, ↓reduceIte,
              hns, Bool.false_eq_true, pure, interp]
            exact hw
          · rw [hres]; simp [CTok.tv, Tok.tv, hty, hval]
  | group o cl inner rest hnt hl hin _ ih =>
    intro vals hv term hterm G F rtoks w bmid b' hy htok hF hG
    cases vals with
    | nil => simp at hv
    | cons v vs =>
      simp only [List.map_cons, List.cons.injEq] at hv
      obtain ⟨hvt, hvs⟩ := hv
      obtain ⟨vi, vrest, hsplit, hvi, hvr⟩ := List.map_eq_append_iff.mp hvs
      cases vrest with
      | nil => simp at hvr
      | cons vc vr =>
        simp only [List.map_cons, List.cons.injEq] at hvr
        obtain ⟨hvc, hvr⟩ := hvr
        subst hsplit
        cases hy with
        | cons htokv hrest =>
          rename_i b1
          have hho := handOut_same ({ w with buf := b1 } : World) v
          obtain ⟨hsame0, hbuf, hty, hval⟩ := hho
          have hsame := (SameParse.setBuf w b1).trans hsame0
          -- the group: inner ++ [closer], then the rest
          have hre : vi ++ vc :: vr = (vi ++ [vc]) ++ vr := by simp
          rw [hre] at hrest
          obtain ⟨bm, hy1, hy2⟩ := Yields.split hrest
          have hlv : Gen.balancedTokenMap.lookup (({ w with buf := b1 } : World).handOut v).1.type = some cl := by
            rw [hty, hvt]; exact hl
          obtain ⟨w2, more, hw2, hb2, hsp2, hmore⟩ := consumeBalanced_region env _ cl hlv vi vc (by rw [hvi]; exact hin) hvc
            _ bm G (by rw [hbuf]; exact hy1) (by simp only [List.length_cons, List.length_append] at hG; omega)
          have hlen : vr.length + 1 ≤ F := by simp only [List.length_cons, List.length_append] at hF; omega
          cases F with
          | zero => omega
          | succ F =>
            obtain ⟨w', res, t', hw, hb, ht', hsp, hres⟩ := ih vr hvr term hterm G F (rtoks ++ more) w2 bmid b'
              (by rw [hb2]; exact hy2) htok (by simp only [List.length_cons, List.length_append] at hF; omega)
              (by simp only [List.length_cons, List.length_append] at hG; omega)
            refine ⟨w', res, t', ?_, hb, ht', (hsame.trans hsp2).trans hsp, ?_⟩
            · have hs : P.isBalancedStart o = true := by simp [P.isBalancedStart, hl]
              rw [P.loopN]
              simp only [bind, interp_bind, P.tokenIfNot, interp_tokenIfP, htokv, hty, hvt, hnt, Bool.not_false, ↓reduceIte,
                hs, hw2, pure, interp]
              exact hw
            · rw [hres, List.map_append, hmore]; simp [CTok.tv, Tok.tv, hty, hval]

theorem Yields.cons_inv {cfg : LexCfg} {b b' : Buf} {t : Tok} {ts : List Tok} (h : Yields cfg b (t :: ts) b') :
    ∃ b1, tokenEofOk cfg b = .ok (some t, b1) ∧ Yields cfg b1 ts b' := by
  cases h with
  | cons h1 h2 => exact ⟨_, h1, h2⟩

theorem Yields.single_inv {cfg : LexCfg} {b b' : Buf} {t : Tok} (h : Yields cfg b [t] b') :
    tokenEofOk cfg b = .ok (some t, b') := by
  cases h with
  | cons h1 h2 => cases h2; exact h1

end Cxx
