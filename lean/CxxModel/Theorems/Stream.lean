/-
  Theorems/Stream.lean — reasoning about particular parser routines at the level of the
  significant-token sequence.

  * `interp_bind`: the interpreter is a monad morphism (sequencing law);
  * `Yields cfg b ts b'`: from buffer state `b`, `token_eof_ok` returns the tokens `ts`, one
    after the other, and leaves the stream in `b'` — the abstraction of the real token stream
    (line-wise lexing, continuation splicing, discard of layout) to a token list;
  * `discard_interp` / `discard_resumes`: `_discard_contents` against that abstraction.
-/
import CxxModel.Interp
import CxxModel.Parser.Basic
namespace Cxx
open P

theorem interp_bind (env : Env) {α β : Type} (p : Prog α) (f : α → Prog β) :
    ∀ w, interp env (p.bind f) w =
      match interp env p w with
      | (w', .ok a) => interp env (f a) w'
      | (w', .error e) => (w', .error e) := by
  induction p with
  | pure a => intro w; rfl
  | next nl k ih =>
    intro w
    simp only [Prog.bind, interp]
    split
    · rfl
    · apply ih
    · apply ih
  | unread ts k ih => intro w; simp only [Prog.bind, interp]; apply ih
  | curLoc k ih =>
    intro w; simp only [Prog.bind, interp]
    split
    · rfl
    · apply ih
  | dox a k ih =>
    intro w; simp only [Prog.bind, interp]
    split
    · apply ih
    · split
      · rfl
      · apply ih
  | push h k ih =>
    intro w; simp only [Prog.bind, interp]
    split
    · rfl
    · apply ih
  | pop k ih =>
    intro w; simp only [Prog.bind, interp]
    split
    · rfl
    · split
      · rfl
      · split
        · rfl
        · apply ih
  | emit p k ih =>
    intro w; simp only [Prog.bind, interp]
    split
    · rfl
    · split
      · rfl
      · apply ih
  | top k ih =>
    intro w; simp only [Prog.bind, interp]
    split
    · rfl
    · apply ih
  | setAccess a k ih =>
    intro w; simp only [Prog.bind, interp]
    split
    · rfl
    · apply ih
  | setLoc l k ih =>
    intro w; simp only [Prog.bind, interp]
    split
    · rfl
    · apply ih
  | fresh k ih => intro w; simp only [Prog.bind, interp]; apply ih
  | bounded ts body k _ ih =>
    intro w; simp only [Prog.bind, interp]
    split
    · apply ih
    · split
      · apply ih
      · rfl
  | opt k ih => intro w; simp only [Prog.bind, interp]; apply ih
  | debug m k ih => intro w; simp only [Prog.bind, interp]; apply ih
  | note t k ih => intro w; simp only [Prog.bind, interp]; apply ih
  | fail e => intro w; rfl

/-! ### the significant-token abstraction -/

/-- from `b`, successive `token_eof_ok` calls return `ts` and leave the stream in `b'` -/
inductive Yields (cfg : LexCfg) : Buf → List Tok → Buf → Prop
  | nil (b : Buf) : Yields cfg b [] b
  | cons {b b' b'' : Buf} {t : Tok} {ts : List Tok} :
      tokenEofOk cfg b = .ok (some t, b') → Yields cfg b' ts b'' → Yields cfg b (t :: ts) b''

/-- everything of the parser state except the token stream and the ghost location table -/
structure SameParse (w w' : World) : Prop where
  stack : w'.stack = w.stack
  muted : w'.muted = w.muted
  anon : w'.anon = w.anon
  nextId : w'.nextId = w.nextId
  events : w'.events = w.events
  delivered : w'.delivered = w.delivered
  curLocs : w'.curLocs = w.curLocs
  startLoc : w'.startLoc = w.startLoc
  debugLog : w'.debugLog = w.debugLog
  mainTok : w'.mainTok = w.mainTok

theorem SameParse.refl (w : World) : SameParse w w := ⟨rfl, rfl, rfl, rfl, rfl, rfl, rfl, rfl, rfl, rfl⟩

theorem SameParse.trans {a b c : World} (h1 : SameParse a b) (h2 : SameParse b c) : SameParse a c :=
  ⟨h2.stack.trans h1.stack, h2.muted.trans h1.muted, h2.anon.trans h1.anon, h2.nextId.trans h1.nextId,
   h2.events.trans h1.events, h2.delivered.trans h1.delivered, h2.curLocs.trans h1.curLocs,
   h2.startLoc.trans h1.startLoc, h2.debugLog.trans h1.debugLog, h2.mainTok.trans h1.mainTok⟩

theorem SameParse.setBuf (w : World) (b : Buf) : SameParse w { w with buf := b } :=
  ⟨rfl, rfl, rfl, rfl, rfl, rfl, rfl, rfl, rfl, rfl⟩

theorem handOut_same (w : World) (t : Tok) : SameParse w (w.handOut t).2 ∧ (w.handOut t).2.buf = w.buf ∧
    (w.handOut t).1.type = t.type ∧ (w.handOut t).1.value = t.value := by
  unfold World.handOut
  split <;> exact ⟨⟨rfl, rfl, rfl, rfl, rfl, rfl, rfl, rfl, rfl, rfl⟩, rfl, rfl, rfl⟩

/-- `self.lex.token()` in the interpreter -/
theorem interp_token (env : Env) (w : World) :
    interp env P.token w =
      match tokenEofOk env.cfg w.buf with
      | .error e => (w, .error e)
      | .ok (none, b) => ({ w with buf := b }, .error .eof)
      | .ok (some t, b) => ((({ w with buf := b } : World).handOut t).2, .ok (({ w with buf := b } : World).handOut t).1) := by
  unfold P.token P.tokenEofOk
  simp only [bind, Prog.bind, interp, Bool.false_eq_true, ↓reduceIte]
  cases h : tokenEofOk env.cfg w.buf with
  | error e => rfl
  | ok r =>
    obtain ⟨o, b⟩ := r
    cases o with
    | none => rfl
    | some t => rfl

/-! ### `_discard_contents` -/

/-- the level counting of `_discard_contents` as a list function: the tokens left after the
    closer that brings the level to zero (`none`: the list ends first) -/
def scanLevel (s e : String) : Nat → List Tok → Option (List Tok)
  | _, [] => none
  | level, t :: ts =>
    if t.type = s then scanLevel s e (level + 1) ts
    else if t.type = e then (if level - 1 = 0 then some ts else scanLevel s e (level - 1) ts)
    else scanLevel s e level ts

/-- the loop body of `discardContents` -/
def discardBody (s e : String) (level : Nat) : M (Nat ⊕ Unit) := do
  let tok ← P.token
  if tok.type = s then pure (.inl (level + 1))
  else if tok.type = e then
    if level - 1 = 0 then pure (.inr ()) else pure (.inl (level - 1))
  else pure (.inl level)

theorem discardContents_eq (F : Nat) (s e : String) : P.discardContents F s e = P.loopN F 1 (discardBody s e) := rfl

/-- `_discard_contents` against the abstraction: if the stream yields `ts` and the level
    count closes exactly at the end of `ts`, the routine consumes exactly `ts`: it ends
    normally in the stream state after `ts`, and nothing else of the parser state changes. -/
theorem discard_interp (env : Env) (s e : String) : ∀ (ts : List Tok) (level F : Nat) (w : World) (b' : Buf),
    Yields env.cfg w.buf ts b' → scanLevel s e level ts = some [] → ts.length ≤ F →
    ∃ w', interp env (P.loopN (F + 1) level (discardBody s e)) w = (w', .ok ()) ∧ w'.buf = b' ∧ SameParse w w' := by
  intro ts
  induction ts with
  | nil => intro level F w b' _ h; simp [scanLevel] at h
  | cons t ts ih =>
    intro level F w b' hy hs hF
    cases hy with
    | cons htok hrest =>
      rename_i b1
      have hho := handOut_same ({ w with buf := b1 } : World) t
      obtain ⟨hsame0, hbuf, hty, _⟩ := hho
      have hsame := (SameParse.setBuf w b1).trans hsame0
      simp only [P.loopN, interp_bind, discardBody, bind]
      simp only [interp_bind, interp_token, htok]
      simp only [hty]
      simp only [scanLevel] at hs
      by_cases h1 : t.type = s
      · simp only [h1, ↓reduceIte] at hs ⊢
        cases F with
        | zero => cases ts <;> simp [scanLevel] at hs hF
        | succ F =>
          obtain ⟨w', hw, hb, hsp⟩ := ih (level + 1) F _ b' (by rw [hbuf]; exact hrest) hs (by simp at hF; omega)
          refine ⟨w', ?_, hb, ?_⟩
          · simpa [interp, pure] using hw
          · exact SameParse.trans hsame hsp
      · simp only [h1, ↓reduceIte] at hs ⊢
        by_cases h2 : t.type = e
        · simp only [h2, ↓reduceIte] at hs ⊢
          by_cases h3 : level - 1 = 0
          · simp only [h3, ↓reduceIte, Option.some.injEq] at hs ⊢
            subst hs
            cases hrest
            refine ⟨_, by simp [interp, pure], hbuf, ?_⟩
            exact hsame
          · simp only [h3, ↓reduceIte] at hs ⊢
            cases F with
            | zero => cases ts <;> simp [scanLevel] at hs hF
            | succ F =>
              obtain ⟨w', hw, hb, hsp⟩ := ih (level - 1) F _ b' (by rw [hbuf]; exact hrest) hs (by simp at hF; omega)
              refine ⟨w', ?_, hb, ?_⟩
              · simpa [interp, pure] using hw
              · exact SameParse.trans hsame hsp
        · simp only [h2, ↓reduceIte] at hs ⊢
          cases F with
          | zero => cases ts <;> simp [scanLevel] at hs hF
          | succ F =>
            obtain ⟨w', hw, hb, hsp⟩ := ih level F _ b' (by rw [hbuf]; exact hrest) hs (by simp at hF; omega)
            refine ⟨w', ?_, hb, ?_⟩
            · simpa [interp, pure] using hw
            · exact SameParse.trans hsame hsp

/-! ### token-driven loops: `while True: tok = self.lex.token(); <pure step>` -/

def Tok.tv (t : Tok) : String × String := (t.type, t.value)
def CTok.tv (t : CTok) : String × String := (t.type, t.value)

theorem Yields.snoc {cfg : LexCfg} {b b' b'' : Buf} {ts : List Tok} {t : Tok}
    (h1 : Yields cfg b ts b') (h2 : tokenEofOk cfg b' = .ok (some t, b'')) : Yields cfg b (ts ++ [t]) b'' := by
  induction h1 with
  | nil b => exact .cons h2 (.nil _)
  | cons htok _ ih => exact .cons htok (ih h2)

theorem Yields.append {cfg : LexCfg} {b b' b'' : Buf} {ts us : List Tok}
    (h1 : Yields cfg b ts b') (h2 : Yields cfg b' us b'') : Yields cfg b (ts ++ us) b'' := by
  induction h1 with
  | nil b => exact h2
  | cons htok _ ih => exact .cons htok (ih h2)

/-- the tokens `cts` drive the pure step function from state `s` to the final result `a` -/
inductive RunsTo {σ α : Type} (step : σ → CTok → Except Err (σ ⊕ α)) : σ → List CTok → α → Prop
  | last {s : σ} {c : CTok} {a : α} : step s c = .ok (.inr a) → RunsTo step s [c] a
  | more {s s' : σ} {c : CTok} {cs : List CTok} {a : α} :
      step s c = .ok (.inl s') → RunsTo step s' cs a → RunsTo step s (c :: cs) a

theorem interp_liftE (env : Env) {α : Type} (r : Except Err α) (w : World) : interp env (P.liftE r) w = (w, r) := by
  cases r <;> rfl

/-- A loop that reads one token per iteration and decides with a pure function ends normally
    only like this: the stream yielded some tokens `ts`, the loop saw exactly those (same type
    and text, in order), the step function run over them gives the result, the stream is
    right after them and nothing else of the parser state changed. -/
theorem tokLoop_contiguous (env : Env) {σ α : Type} (step : σ → CTok → Except Err (σ ⊕ α)) :
    ∀ (F : Nat) (s : σ) (w w' : World) (a : α),
    interp env (P.loopN F s (fun s => do let tok ← P.token; P.liftE (step s tok))) w = (w', .ok a) →
    ∃ (ts : List Tok) (cts : List CTok), Yields env.cfg w.buf ts w'.buf ∧ SameParse w w' ∧
      cts.map CTok.tv = ts.map Tok.tv ∧ RunsTo step s cts a := by
  intro F
  induction F with
  | zero => intro s w w' a h; simp [P.loopN, interp] at h
  | succ F ih =>
    intro s w w' a h
    simp only [P.loopN, bind, interp_bind, interp_token] at h
    cases htok : tokenEofOk env.cfg w.buf with
    | error e => simp [htok] at h
    | ok r =>
      obtain ⟨o, b1⟩ := r
      cases o with
      | none => simp [htok] at h
      | some t =>
        simp only [htok, interp_liftE] at h
        have hho := handOut_same ({ w with buf := b1 } : World) t
        obtain ⟨hsame0, hbuf, hty, hval⟩ := hho
        have hsame := (SameParse.setBuf w b1).trans hsame0
        cases hstep : step s (({ w with buf := b1 } : World).handOut t).1 with
        | error e => simp [hstep] at h
        | ok r =>
          cases r with
          | inr a' =>
            simp only [hstep, interp, Prod.mk.injEq, Except.ok.injEq] at h
            obtain ⟨hw, ha⟩ := h
            subst hw; subst ha
            refine ⟨[t], [(({ w with buf := b1 } : World).handOut t).1], ?_, hsame, ?_, .last hstep⟩
            · exact .cons htok (by rw [hbuf]; exact .nil _)
            · simp [CTok.tv, Tok.tv, hty, hval]
          | inl s' =>
            simp only [hstep] at h
            obtain ⟨ts, cts, hy, hsp, htv, hr⟩ := ih s' _ w' a h
            refine ⟨t :: ts, (({ w with buf := b1 } : World).handOut t).1 :: cts, ?_, hsame.trans hsp, ?_, .more hstep hr⟩
            · exact .cons htok (by rw [hbuf] at hy; exact hy)
            · simp [CTok.tv, Tok.tv, hty, hval, htv] at htv ⊢

/-! ### `_consume_balanced_tokens` -/

theorem balStep_consumed (st : List CTok × List String) (tok : CTok) :
    (∀ st', P.balStep st tok = .ok (.inl st') → st'.1 = st.1 ++ [tok]) ∧
    (∀ r, P.balStep st tok = .ok (.inr r) → r = st.1 ++ [tok]) := by
  unfold P.balStep
  constructor
  · intro st' h
    dsimp only at h
    repeat' (split at h)
    all_goals (first | (simp at h; done) | (simp at h; rw [← h]))
  · intro r h
    dsimp only at h
    repeat' (split at h)
    all_goals (first | (simp at h; done) | (simp at h; exact h.symm))

theorem runsTo_balStep (st : List CTok × List String) (cts : List CTok) (res : List CTok)
    (h : RunsTo P.balStep st cts res) : res = st.1 ++ cts := by
  induction h with
  | last hs => exact (balStep_consumed _ _).2 _ hs
  | more hs _ ih => rw [ih, (balStep_consumed _ _).1 _ hs]; simp

/-- `_consume_balanced_tokens` returns its initial tokens followed by exactly the tokens it
    took from the stream, in stream order, and leaves the stream right after the last one. -/
theorem consumeBalanced_contiguous (env : Env) (F : Nat) (init : List CTok) (w w' : World) (res : List CTok)
    (h : interp env (P.consumeBalancedTokens F init) w = (w', .ok res)) :
    ∃ (ts : List Tok) (cts : List CTok), Yields env.cfg w.buf ts w'.buf ∧ SameParse w w' ∧
      cts.map CTok.tv = ts.map Tok.tv ∧ res = init ++ cts := by
  unfold P.consumeBalancedTokens at h
  obtain ⟨ts, cts, hy, hsp, htv, hr⟩ := tokLoop_contiguous env P.balStep F _ w w' res h
  exact ⟨ts, cts, hy, hsp, htv, runsTo_balStep _ _ _ hr⟩

/-! ### `_consume_value_until` -/

/-- the stream state after a look-ahead from `b`: end of input was seen, or one token was read
    and pushed back -/
inductive Peeked (cfg : LexCfg) (b : Buf) : Buf → Prop
  | eof {b' : Buf} : tokenEofOk cfg b = .ok (none, b') → Peeked cfg b b'
  | back {t t' : Tok} {b2 : Buf} : tokenEofOk cfg b = .ok (some t, b2) → t'.tv = t.tv →
      Peeked cfg b (Cxx.returnToken t' b2)

theorem interp_tokenIfP (env : Env) (p : CTok → Bool) (w : World) :
    interp env (P.tokenIfP p) w =
      match tokenEofOk env.cfg w.buf with
      | .error e => (w, .error e)
      | .ok (none, b) => ({ w with buf := b }, .ok none)
      | .ok (some t, b) =>
        let w1 := ({ w with buf := b } : World).handOut t
        if p w1.1 then (w1.2, .ok (some w1.1))
        else ({ w1.2 with buf := Cxx.returnTokens ([w1.1].map w1.2.toTok) w1.2.buf }, .ok none) := by
  unfold P.tokenIfP P.tokenEofOk P.returnToken
  simp only [bind, Prog.bind, interp, Bool.false_eq_true, ↓reduceIte]
  cases h : tokenEofOk env.cfg w.buf with
  | error e => rfl
  | ok r =>
    obtain ⟨o, b⟩ := r
    cases o with
    | none => rfl
    | some t =>
      simp only
      split <;> rfl

/-- `_consume_value_until` returns the tokens it was given followed by exactly the tokens it
    took from the stream, in stream order; the stream is left at a look-ahead right after them
    (the terminator, or end of input, was only peeked). -/
theorem consumeValueUntil_contiguous (env : Env) (types : List String) : ∀ (F : Nat) (rtoks : List CTok) (w w' : World) (res : List CTok),
    interp env (P.consumeValueUntil F rtoks types) w = (w', .ok res) →
    ∃ (ts : List Tok) (cts : List CTok) (bmid : Buf), Yields env.cfg w.buf ts bmid ∧ Peeked env.cfg bmid w'.buf ∧
      SameParse w w' ∧ cts.map CTok.tv = ts.map Tok.tv ∧ res = rtoks ++ cts := by
  intro F
  -- the inner `_consume_balanced_tokens` uses the same fuel: generalise it
  suffices hgen : ∀ (G F : Nat) (rtoks : List CTok) (w w' : World) (res : List CTok),
      interp env (P.loopN F rtoks (fun rtoks => do
        match (← P.tokenIfNot types) with
        | none => pure (.inr rtoks)
        | some tok =>
          if P.isBalancedStart tok.type then do
            let more ← P.consumeBalancedTokens G [tok]
            pure (.inl (rtoks ++ more))
          else pure (.inl (rtoks ++ [tok])))) w = (w', .ok res) →
      ∃ (ts : List Tok) (cts : List CTok) (bmid : Buf), Yields env.cfg w.buf ts bmid ∧ Peeked env.cfg bmid w'.buf ∧
        SameParse w w' ∧ cts.map CTok.tv = ts.map Tok.tv ∧ res = rtoks ++ cts from
    fun rtoks w w' res h => hgen F F rtoks w w' res h
  intro G F
  induction F with
  | zero => intro rtoks w w' res h; simp [P.loopN, interp] at h
  | succ F ih =>
    intro rtoks w w' res h
    simp only [P.loopN, bind, interp_bind, P.tokenIfNot, interp_tokenIfP] at h
    cases htok : tokenEofOk env.cfg w.buf with
    | error e => simp [htok] at h
    | ok r =>
      obtain ⟨o, b1⟩ := r
      cases o with
      | none =>
        simp only [htok, pure, interp, Prod.mk.injEq, Except.ok.injEq] at h
        obtain ⟨hw, hr⟩ := h
        subst hw; subst hr
        exact ⟨[], [], w.buf, .nil _, .eof htok, SameParse.setBuf w b1, rfl, by simp⟩
      | some t =>
        simp only [htok] at h
        have hho := handOut_same ({ w with buf := b1 } : World) t
        obtain ⟨hsame0, hbuf, hty, hval⟩ := hho
        have hsame := (SameParse.setBuf w b1).trans hsame0
        by_cases hp : (!types.contains (({ w with buf := b1 } : World).handOut t).1.type) = true
        · simp only [hp, ↓reduceIte] at h
          by_cases hb : P.isBalancedStart (({ w with buf := b1 } : World).handOut t).1.type = true
          · simp only [hb, ↓reduceIte, interp_bind] at h
            cases hcb : interp env (P.consumeBalancedTokens G [(({ w with buf := b1 } : World).handOut t).1])
                (({ w with buf := b1 } : World).handOut t).2 with
            | mk w2 r2 =>
              cases r2 with
              | error e => simp [hcb] at h
              | ok more =>
                simp only [hcb, pure, interp] at h
                obtain ⟨ts2, cts2, hy2, hsp2, htv2, hm⟩ := consumeBalanced_contiguous env G _ _ w2 more hcb
                obtain ⟨ts3, cts3, bmid, hy3, hpk, hsp3, htv3, hres⟩ := ih _ w2 w' res h
                refine ⟨t :: (ts2 ++ ts3), (({ w with buf := b1 } : World).handOut t).1 :: (cts2 ++ cts3), bmid, ?_, hpk,
                  (hsame.trans hsp2).trans hsp3, ?_, ?_⟩
                · exact .cons htok (Yields.append (by rw [hbuf] at hy2; exact hy2) hy3)
                · simp [CTok.tv, Tok.tv, hty, hval] at htv2 htv3 ⊢; simp [htv2, htv3]
                · rw [hres, hm]; simp
          · simp only [hb, Bool.false_eq_true, ↓reduceIte, pure, interp] at h
            obtain ⟨ts3, cts3, bmid, hy3, hpk, hsp3, htv3, hres⟩ := ih _ _ w' res h
            refine ⟨t :: ts3, (({ w with buf := b1 } : World).handOut t).1 :: cts3, bmid, ?_, hpk, hsame.trans hsp3, ?_, ?_⟩
            · exact .cons htok (by rw [hbuf] at hy3; exact hy3)
            · simp [CTok.tv, Tok.tv, hty, hval] at htv3 ⊢; exact htv3
            · rw [hres]; simp
        · simp only [hp, Bool.false_eq_true, ↓reduceIte, pure, interp, Prod.mk.injEq, Except.ok.injEq] at h
          obtain ⟨hw, hr⟩ := h
          subst hw; subst hr
          refine ⟨[], [], w.buf, .nil _, ?_, ?_, rfl, by simp⟩
          · simp only [List.map_cons, List.map_nil, Cxx.returnTokens, List.singleton_append]
            rw [hbuf]
            exact .back (t' := _) htok (by simp [Tok.tv, World.toTok, hty, hval])
          · exact hsame.trans (SameParse.setBuf _ _)

end Cxx
