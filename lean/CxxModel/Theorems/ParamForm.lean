/-
  Theorems/ParamForm.lean — plain function parameters `T ptr-ops name` (C02, C01): followed by `,` or
  `)`, `_parse_parameter` returns the parameter with the name, the type the declarator denotes, no
  default and no pack flag, and leaves the separator in the stream.
-/
import CxxModel.Theorems.VarDecl
namespace Cxx
open P

theorem core_parseParameter (F n : Nat) : (core F (n + 1)).parseParameter = parseParameterStep F (core F n) := rfl

/-- one written parameter: type name (qualified identifiers), pointer operators, the name -/
structure PItem where
  first : Tok
  pairs : List (Tok × Tok)
  ops : List Tok
  name : Tok

def PItem.toks (p : PItem) : List Tok := p.first :: (p.pairs.flatMap (fun q => [q.1, q.2]) ++ p.ops ++ [p.name])

/-- the base type the parameter's type name denotes -/
def PItem.base (p : PItem) : DType :=
  .type (.mk (.name p.first.value none :: p.pairs.map (fun q => .name q.2.value none)) none false) false false

structure PItem.OK (p : PItem) (ty : DType) : Prop where
  firstTy : p.first.type = "NAME"
  firstVal : identVal p.first.value = true
  pairsOk : ∀ q ∈ p.pairs, q.1.type = "DBL_COLON" ∧ q.2.type = "NAME" ∧ plainVal q.2.value = true
  opsHead : opsHeadOk p.ops = true
  denotes : applyPtrOps p.base (p.ops.map (·.type)) = some ty
  nameTy : p.name.type = "NAME"

theorem parameter_plain (env : Env) (F D : Nat) (p : PItem) (ty : DType) (hok : p.OK ty)
    (sep : Tok) (w : World) (bmid b' : Buf)
    (hy : Yields env.cfg w.buf p.toks bmid) (htsep : tokenEofOk env.cfg bmid = .ok (some sep, b'))
    (hsep : sep.type = "," ∨ sep.type = ")") (hF : p.pairs.length + p.ops.length + 2 ≤ F) :
    ∃ (w' : World) (t' : Tok),
      interp env (parseParameterStep F (core F (D + 1 + 1)) none true ")") w =
        (w', .ok (.mk ty (some p.name.value) none false, none)) ∧
      SameButLog w w' ∧ tokenEofOk env.cfg w'.buf = .ok (some t', b') ∧ t'.type = sep.type ∧ t'.value = sep.value := by
  obtain ⟨hft, hfv, hpairs, hopsH, hden, hnt⟩ := hok
  simp only [identVal, Bool.and_eq_true, Bool.not_eq_true', bne_iff_ne, ne_eq] at hfv
  obtain ⟨⟨⟨hpv, hnc⟩, _⟩, _⟩ := hfv
  unfold PItem.toks at hy
  cases hy with
  | cons htf hrest =>
    rename_i b1
    obtain ⟨b0, hy0, hy1⟩ := Yields.split (xs := p.pairs.flatMap (fun q => [q.1, q.2])) (by simpa [List.append_assoc] using hrest)
    obtain ⟨bops, hyops, hyn⟩ := Yields.split hy1
    cases hyn with
    | cons htn hnil =>
      rename_i bn
      have hbn : bn = bmid := by cases hnil; rfl
      subst hbn
      obtain ⟨w1, c1, hi1, hb1, hs1, hty1, hv1⟩ := step_token env w p.first b1 htf
      -- the token after the type name: the first pointer operator, or the parameter name
      obtain ⟨nx, bnx, hnx, hnxstop, hnxlt, hnxdc, hnxauto⟩ : ∃ (nx : Tok) (bnx : Buf), tokenEofOk env.cfg b0 = .ok (some nx, bnx) ∧
          typeStop nx.type = true ∧ nx.type ≠ "<" ∧ nx.type ≠ "DBL_COLON" ∧ nx.type ≠ "auto" := by
        cases hops : p.ops with
        | nil =>
          rw [hops] at hyops
          cases hyops
          exact ⟨p.name, bn, htn, by rw [hnt]; decide, by rw [hnt]; decide, by rw [hnt]; decide, by rw [hnt]; decide⟩
        | cons o os =>
          rw [hops] at hyops
          cases hyops with
          | cons hto _ =>
            have ho : o.type = "*" := by simpa [opsHeadOk, hops] using hopsH
            exact ⟨o, _, hto, by rw [ho]; decide, by rw [ho]; decide, by rw [ho]; decide, by rw [ho]; decide⟩
      obtain ⟨w2, t2, hi2, hs2, ht2, hty2, hv2⟩ := parseType_plain env F D false c1 p.pairs w1 b0 bnx nx (hty1.trans hft)
        (by rw [hv1]; exact hpv) (by rw [hv1]; exact hnc) hpairs (by rw [hb1]; exact hy0) hnx (typeStop_end hnxstop) hnxlt hnxdc (by omega)
      obtain ⟨w3, t3, hi3, hs3, ht3, hty3, hv3⟩ := step_tokenIf_miss env ["auto"] w2 t2 bnx ht2 (by rw [hty2]; simp [hnxauto])
      -- the stream seen by the pointer chain: the pushed-back copy of `nx`, then as given
      obtain ⟨ops', nm', bops', hy', hmapeq, hlen, htn', hnt', hnv'⟩ : ∃ (ops' : List Tok) (nm' : Tok) (bops' : Buf),
          Yields env.cfg w3.buf ops' bops' ∧ ops'.map (·.type) = p.ops.map (·.type) ∧ ops'.length = p.ops.length ∧
          tokenEofOk env.cfg bops' = .ok (some nm', bn) ∧ nm'.type = "NAME" ∧ nm'.value = p.name.value := by
        cases hops : p.ops with
        | nil =>
          rw [hops] at hyops
          cases hyops
          rw [htn] at hnx
          injection hnx with hnx; injection hnx with h1 h2
          injection h1 with h1
          subst h1; subst h2
          exact ⟨[], t3, w3.buf, .nil _, rfl, rfl, ht3, by rw [hty3, hty2, hnt], by rw [hv3, hv2]⟩
        | cons o os =>
          rw [hops] at hyops
          cases hyops with
          | cons hto hrest2 =>
            rw [hto] at hnx
            injection hnx with hnx; injection hnx with h1 h2
            injection h1 with h1
            subst h1; subst h2
            exact ⟨t3 :: os, p.name, bops, .cons ht3 hrest2, by simp [hty3, hty2], by simp, htn, hnt, rfl⟩
      unfold PItem.base at hden
      obtain ⟨w4, t4, hi4, hb4, htv4, hs4⟩ := cvPtr_chain env (core F (D + 1)) false ops'
        (.type (.mk (.name c1.value none :: p.pairs.map (fun q => .name q.2.value none)) none false) false false) ty F w3 bops' bn nm' hy'
        (by rw [hmapeq, hv1]; exact hden) htn' (by rw [hnt']; decide) (by rw [hlen]; omega)
      have hty4 : t4.type = nm'.type := congrArg Prod.fst htv4
      have hv4 : t4.value = nm'.value := congrArg Prod.snd htv4
      have ht4 : tokenEofOk env.cfg w4.buf = .ok (some t4, bn) := by
        rw [hb4]; exact tokenEofOk_returnToken env.cfg t4 bn (by rw [hty4]; exact tokenEofOk_not_discard htn')
      have hfn := applyPtrOps_notFn _ _ ty rfl hden
      rw [hv1] at hi2
      rw [hv1] at hi4
      obtain ⟨w5, t5, hi5, hs5, ht5, hty5, hv5⟩ := step_tokenIf_miss env ["ELLIPSIS"] w4 t4 bn ht4 (by rw [hty4, hnt']; decide)
      obtain ⟨w6, t6, hi6, hs6, ht6, hty6, hv6⟩ := step_tokenIf_miss env ["("] w5 t5 bn ht5 (by rw [hty5, hty4, hnt']; decide)
      obtain ⟨w7, c7, hi7, hb7, hs7, _, hv7⟩ := step_tokenIf_hit env ["NAME", "final"] w6 t6 bn ht6 (by rw [hty6, hty5, hty4, hnt']; decide)
      obtain ⟨w8, t8, hi8, hs8, ht8, hty8, hv8⟩ := step_tokenIf_miss env ["["] w7 sep b' (by rw [hb7]; exact htsep)
        (by rcases hsep with h | h <;> (rw [h]; decide))
      obtain ⟨w9, t9, hi9, hs9, ht9, hty9, hv9⟩ := step_tokenIf_miss env ["="] w8 t8 b' ht8
        (by rw [hty8]; rcases hsep with h | h <;> (rw [h]; decide))
      refine ⟨logged env w9 "parameter", t9, ?_, ?_, by rw [logged_buf']; exact ht9, by rw [hty9, hty8], by rw [hv9, hv8]⟩
      · have hc7v : c7.value = p.name.value := by rw [hv7, hv6, hv5, hv4, hnv']
        unfold parseParameterStep
        simp only [bind, interp_bind, pure, interp, hi1, hty1, hft, (by decide : ("NAME" = "auto") = False), ↓reduceIte,
          core_parseType, hi2, validate_empty]
        simp only [↓reduceIte, bind, interp_bind, hi3, pure, interp, parseCvPtr, core_parseCvPtrOrFn, hi4, hfn, Bool.false_eq_true,
          hi5, Option.isSome_none, hi6, hi7, Option.map_some, hi8, hi9, P.debugPrint, logged, hc7v]
      · exact ((((((((hs1.butLog.trans hs2).trans hs3.butLog).trans hs4.butLog).trans hs5.butLog).trans hs6.butLog).trans hs7.butLog).trans
          hs8.butLog).trans hs9.butLog).trans (logged_butLog env w9 _)

/-- **a parameter with a default argument `T ptr-ops name = value`**: the default is EXACTLY the tokens
    written between the `=` and the `,` / `)` that ends the parameter, for every value of top-level
    shape (`TopLevel [",", ")"]`: commas and parentheses only inside brackets) of any length -/
theorem parameter_default (env : Env) (F D : Nat) (p : PItem) (ty : DType) (hok : p.OK ty)
    (eq : Tok) (vals : List Tok) (sep : Tok) (w : World) (bmid bq bv b' : Buf)
    (hy : Yields env.cfg w.buf p.toks bmid) (hte : tokenEofOk env.cfg bmid = .ok (some eq, bq)) (heq : eq.type = "=")
    (hyv : Yields env.cfg bq vals bv) (htl : TopLevel [",", ")"] (vals.map (·.type)))
    (htsep : tokenEofOk env.cfg bv = .ok (some sep, b'))
    (hsep : sep.type = "," ∨ sep.type = ")") (hF : p.pairs.length + p.ops.length + 2 ≤ F + 1) (hFv : vals.length + 1 ≤ F) :
    ∃ (w' : World) (t' : Tok),
      interp env (parseParameterStep (F + 1) (core (F + 1) (D + 1 + 1)) none true ")") w =
        (w', .ok (.mk ty (some p.name.value) (some (valueOf vals)) false, none)) ∧
      SameButLog w w' ∧ tokenEofOk env.cfg w'.buf = .ok (some t', b') ∧ t'.type = sep.type ∧ t'.value = sep.value := by
  obtain ⟨hft, hfv, hpairs, hopsH, hden, hnt⟩ := hok
  simp only [identVal, Bool.and_eq_true, Bool.not_eq_true', bne_iff_ne, ne_eq] at hfv
  obtain ⟨⟨⟨hpv, hnc⟩, _⟩, _⟩ := hfv
  unfold PItem.toks at hy
  cases hy with
  | cons htf hrest =>
    rename_i b1
    obtain ⟨b0, hy0, hy1⟩ := Yields.split (xs := p.pairs.flatMap (fun q => [q.1, q.2])) (by simpa [List.append_assoc] using hrest)
    obtain ⟨bops, hyops, hyn⟩ := Yields.split hy1
    cases hyn with
    | cons htn hnil =>
      rename_i bn
      have hbn : bn = bmid := by cases hnil; rfl
      subst hbn
      obtain ⟨w1, c1, hi1, hb1, hs1, hty1, hv1⟩ := step_token env w p.first b1 htf
      -- the token after the type name: the first pointer operator, or the parameter name
      obtain ⟨nx, bnx, hnx, hnxstop, hnxlt, hnxdc, hnxauto⟩ : ∃ (nx : Tok) (bnx : Buf), tokenEofOk env.cfg b0 = .ok (some nx, bnx) ∧
          typeStop nx.type = true ∧ nx.type ≠ "<" ∧ nx.type ≠ "DBL_COLON" ∧ nx.type ≠ "auto" := by
        cases hops : p.ops with
        | nil =>
          rw [hops] at hyops
          cases hyops
          exact ⟨p.name, bn, htn, by rw [hnt]; decide, by rw [hnt]; decide, by rw [hnt]; decide, by rw [hnt]; decide⟩
        | cons o os =>
          rw [hops] at hyops
          cases hyops with
          | cons hto _ =>
            have ho : o.type = "*" := by simpa [opsHeadOk, hops] using hopsH
            exact ⟨o, _, hto, by rw [ho]; decide, by rw [ho]; decide, by rw [ho]; decide, by rw [ho]; decide⟩
      obtain ⟨w2, t2, hi2, hs2, ht2, hty2, hv2⟩ := parseType_plain env (F + 1) D false c1 p.pairs w1 b0 bnx nx (hty1.trans hft)
        (by rw [hv1]; exact hpv) (by rw [hv1]; exact hnc) hpairs (by rw [hb1]; exact hy0) hnx (typeStop_end hnxstop) hnxlt hnxdc (by omega)
      obtain ⟨w3, t3, hi3, hs3, ht3, hty3, hv3⟩ := step_tokenIf_miss env ["auto"] w2 t2 bnx ht2 (by rw [hty2]; simp [hnxauto])
      -- the stream seen by the pointer chain: the pushed-back copy of `nx`, then as given
      obtain ⟨ops', nm', bops', hy', hmapeq, hlen, htn', hnt', hnv'⟩ : ∃ (ops' : List Tok) (nm' : Tok) (bops' : Buf),
          Yields env.cfg w3.buf ops' bops' ∧ ops'.map (·.type) = p.ops.map (·.type) ∧ ops'.length = p.ops.length ∧
          tokenEofOk env.cfg bops' = .ok (some nm', bn) ∧ nm'.type = "NAME" ∧ nm'.value = p.name.value := by
        cases hops : p.ops with
        | nil =>
          rw [hops] at hyops
          cases hyops
          rw [htn] at hnx
          injection hnx with hnx; injection hnx with h1 h2
          injection h1 with h1
          subst h1; subst h2
          exact ⟨[], t3, w3.buf, .nil _, rfl, rfl, ht3, by rw [hty3, hty2, hnt], by rw [hv3, hv2]⟩
        | cons o os =>
          rw [hops] at hyops
          cases hyops with
          | cons hto hrest2 =>
            rw [hto] at hnx
            injection hnx with hnx; injection hnx with h1 h2
            injection h1 with h1
            subst h1; subst h2
            exact ⟨t3 :: os, p.name, bops, .cons ht3 hrest2, by simp [hty3, hty2], by simp, htn, hnt, rfl⟩
      unfold PItem.base at hden
      obtain ⟨w4, t4, hi4, hb4, htv4, hs4⟩ := cvPtr_chain env (core (F + 1) (D + 1)) false ops'
        (.type (.mk (.name c1.value none :: p.pairs.map (fun q => .name q.2.value none)) none false) false false) ty (F + 1) w3 bops' bn nm' hy'
        (by rw [hmapeq, hv1]; exact hden) htn' (by rw [hnt']; decide) (by rw [hlen]; omega)
      have hty4 : t4.type = nm'.type := congrArg Prod.fst htv4
      have hv4 : t4.value = nm'.value := congrArg Prod.snd htv4
      have ht4 : tokenEofOk env.cfg w4.buf = .ok (some t4, bn) := by
        rw [hb4]; exact tokenEofOk_returnToken env.cfg t4 bn (by rw [hty4]; exact tokenEofOk_not_discard htn')
      have hfn := applyPtrOps_notFn _ _ ty rfl hden
      rw [hv1] at hi2
      rw [hv1] at hi4
      obtain ⟨w5, t5, hi5, hs5, ht5, hty5, hv5⟩ := step_tokenIf_miss env ["ELLIPSIS"] w4 t4 bn ht4 (by rw [hty4, hnt']; decide)
      obtain ⟨w6, t6, hi6, hs6, ht6, hty6, hv6⟩ := step_tokenIf_miss env ["("] w5 t5 bn ht5 (by rw [hty5, hty4, hnt']; decide)
      obtain ⟨w7, c7, hi7, hb7, hs7, _, hv7⟩ := step_tokenIf_hit env ["NAME", "final"] w6 t6 bn ht6 (by rw [hty6, hty5, hty4, hnt']; decide)
      obtain ⟨w8, t8, hi8, hs8, ht8, hty8, hv8⟩ := step_tokenIf_miss env ["["] w7 eq bq (by rw [hb7]; exact hte) (by rw [heq]; decide)
      obtain ⟨w9, c9, hi9, hb9, hs9, _, _⟩ := step_tokenIf_hit env ["="] w8 t8 bq ht8 (by rw [hty8, heq]; decide)
      obtain ⟨wd, res, td, hid, hbd, htvd, hsd, hres⟩ := consumeValueUntil_stops env [",", ")"] _ htl vals rfl sep
        (by rcases hsep with h | h <;> (rw [h]; decide)) F F [] w9 bv b' (by rw [hb9]; exact hyv) htsep hFv hFv
      have hcv : createValue res = valueOf vals := createValue_eq res vals (by simpa using hres)
      have htyT : td.type = sep.type := congrArg Prod.fst htvd
      have hvT : td.value = sep.value := congrArg Prod.snd htvd
      have htd : tokenEofOk env.cfg wd.buf = .ok (some td, b') := by
        rw [hbd]; exact tokenEofOk_returnToken env.cfg td b' (by rw [htyT]; exact tokenEofOk_not_discard htsep)
      have hcvu : interp env (consumeValueUntil (F + 1) [] [",", ")"]) w9 = (wd, .ok res) := hid
      refine ⟨logged env wd "parameter", td, ?_, ?_, by rw [logged_buf']; exact htd, htyT, hvT⟩
      · have hc7v : c7.value = p.name.value := by rw [hv7, hv6, hv5, hv4, hnv']
        unfold parseParameterStep
        simp only [bind, interp_bind, pure, interp, hi1, hty1, hft, (by decide : ("NAME" = "auto") = False), ↓reduceIte,
          core_parseType, hi2, validate_empty]
        simp only [↓reduceIte, bind, interp_bind, hi3, pure, interp, parseCvPtr, core_parseCvPtrOrFn, hi4, hfn, Bool.false_eq_true,
          hi5, Option.isSome_none, hi6, hi7, Option.map_some, hi8, hi9, hcvu, hcv, P.debugPrint, logged, hc7v]
      · exact (((((((((hs1.butLog.trans hs2).trans hs3.butLog).trans hs4.butLog).trans hs5.butLog).trans hs6.butLog).trans hs7.butLog).trans
          hs8.butLog).trans hs9.butLog).trans hsd.butLog).trans (logged_butLog env wd _)

/-- the parameter a written item declares -/
def PItem.param (p : PItem) (ty : DType) : Param := .mk ty (some p.name.value) none false

/-- one iteration of the parameter loop on `p sep` -/
theorem paramsBody_item (env : Env) (F D : Nat) (p : PItem) (ty : DType) (hok : p.OK ty) (sep : Tok)
    (acc : List Param) (at0 : List TemplateParam) (w : World) (b' : Buf)
    (hy : Yields env.cfg w.buf (p.toks ++ [sep]) b') (hsep : sep.type = "," ∨ sep.type = ")")
    (hF : p.pairs.length + p.ops.length + 2 ≤ F) :
    ∃ (w' : World),
      interp env (paramsBody (core F (D + 1 + 1 + 1)) true (acc, at0)) w =
        (w', .ok (if sep.value = ")" then .inr (acc ++ [p.param ty], false, at0) else .inl (acc ++ [p.param ty], at0))) ∧
      SameButLog w w' ∧ w'.buf = b' := by
  obtain ⟨bmid, hy1, hy2⟩ := Yields.split hy
  cases hy2 with
  | cons hts hnil =>
    rename_i bs
    have hbs : bs = b' := by cases hnil; rfl
    subst hbs
    unfold PItem.toks at hy1
    cases hy1 with
    | cons hfb hrest =>
      rename_i b1
      obtain ⟨w1, t1, hi1, hs1, ht1, hty1, hv1⟩ := step_tokenIf_miss env ["ELLIPSIS"] w p.first b1 hfb (by rw [hok.firstTy]; decide)
      -- the parameter, read from the stream with the pushed-back copy of its first token
      have hok' : ({ p with first := t1 } : PItem).OK ty :=
        ⟨by rw [hty1]; exact hok.firstTy, by rw [hv1]; exact hok.firstVal, hok.pairsOk, hok.opsHead,
         by have := hok.denotes; unfold PItem.base at this ⊢; simp only [hv1]; exact this, hok.nameTy⟩
      obtain ⟨w2, t2, hi2, hs2, ht2, hty2, hv2⟩ := parameter_plain env F D { p with first := t1 } ty hok' sep w1 bmid bs
        (by unfold PItem.toks; exact .cons ht1 hrest) hts hsep hF
      obtain ⟨w3, c3, hi3, hb3, hs3, _, hv3⟩ := step_mustBe env [",", ")"] w2 t2 bs ht2
        (by rw [hty2]; rcases hsep with h | h <;> (rw [h]; decide))
      refine ⟨w3, ?_, (hs1.butLog.trans hs2).trans hs3.butLog, hb3⟩
      have hc3v : c3.value = sep.value := by rw [hv3, hv2]
      unfold paramsBody
      simp only [bind, interp_bind, hi1, core_parseParameter, hi2, hi3, hc3v, pure, interp, PItem.param]
      split <;> rfl

/-- the loop of `_parse_parameters` on `p1 , p2 , … , pn )` -/
theorem params_loop (env : Env) (F D : Nat) :
    ∀ (ps : List (PItem × DType × Tok)) (last : PItem × DType) (cp : Tok) (acc : List Param) (at0 : List TemplateParam)
      (w : World) (b' : Buf) (n : Nat),
    (∀ q ∈ ps, q.1.OK q.2.1 ∧ q.2.2.type = "," ∧ q.2.2.value ≠ ")" ∧ q.1.pairs.length + q.1.ops.length + 2 ≤ F) →
    last.1.OK last.2 → last.1.pairs.length + last.1.ops.length + 2 ≤ F → cp.type = ")" → cp.value = ")" →
    Yields env.cfg w.buf (ps.flatMap (fun q => q.1.toks ++ [q.2.2]) ++ (last.1.toks ++ [cp])) b' → ps.length + 1 ≤ n →
    ∃ (w' : World),
      interp env (loopN n (acc, at0) (paramsBody (core F (D + 1 + 1 + 1)) true)) w =
        (w', .ok (acc ++ ps.map (fun q => q.1.param q.2.1) ++ [last.1.param last.2], false, at0)) ∧
      SameButLog w w' ∧ w'.buf = b' := by
  intro ps
  induction ps with
  | nil =>
    intro last cp acc at0 w b' n _ hlast hlF hcp hcpv hy hn
    simp only [List.flatMap_nil, List.nil_append] at hy
    obtain ⟨k, rfl⟩ : ∃ k, n = k + 1 := ⟨n - 1, by omega⟩
    obtain ⟨w', hi, hs, hb⟩ := paramsBody_item env F D last.1 last.2 hlast cp acc at0 w b' hy (.inr hcp) hlF
    refine ⟨w', ?_, hs, hb⟩
    rw [loopN]
    simp only [bind, interp_bind, hi, hcpv, ↓reduceIte, pure, interp, List.map_nil, List.append_nil]
  | cons q qs ih =>
    intro last cp acc at0 w b' n hall hlast hlF hcp hcpv hy hn
    obtain ⟨hqok, hqsep, hqv, hqF⟩ := hall q (by simp)
    simp only [List.flatMap_cons, List.append_assoc] at hy
    obtain ⟨bq, hy1, hy2⟩ := Yields.split (xs := q.1.toks ++ [q.2.2]) (by simpa [List.append_assoc] using hy)
    obtain ⟨k, rfl⟩ : ∃ k, n = k + 1 := ⟨n - 1, by omega⟩
    obtain ⟨w1, hi1, hs1, hb1⟩ := paramsBody_item env F D q.1 q.2.1 hqok q.2.2 acc at0 w bq hy1 (.inl hqsep) hqF
    obtain ⟨w', hi, hs, hb⟩ := ih last cp (acc ++ [q.1.param q.2.1]) at0 w1 b' k (fun x hx => hall x (by simp [hx])) hlast hlF hcp hcpv
      (by rw [hb1]; exact hy2) (by simp at hn; omega)
    refine ⟨w', ?_, hs1.trans hs, hb⟩
    rw [loopN]
    simp only [bind, interp_bind, hi1, hqv, ↓reduceIte, hi, List.map_cons, List.append_assoc, List.singleton_append]

/-! ### `_parse_parameters` -/

theorem ptrStep_ptr_stays (t : DType) (c v : Bool) (op : String) (d' : DType) (h : ptrStep (.ptr t c v) op = some d') :
    ∃ t' c' v', d' = .ptr t' c' v' := by
  unfold ptrStep at h
  split at h
  · simp only [isRefLike, Bool.false_eq_true, ↓reduceIte, Option.some.injEq] at h
    exact ⟨_, _, _, h.symm⟩
  · split at h
    · simp only [setConst, Option.some.injEq] at h; exact ⟨_, _, _, h.symm⟩
    · split at h
      · simp only [setVolatile, Option.some.injEq] at h; exact ⟨_, _, _, h.symm⟩
      · cases h

theorem applyPtrOps_ptr_stays : ∀ (ops : List String) (t : DType) (c v : Bool) (d' : DType),
    applyPtrOps (.ptr t c v) ops = some d' → ∃ t' c' v', d' = .ptr t' c' v' := by
  intro ops
  induction ops with
  | nil => intro t c v d' h; simp only [applyPtrOps, Option.some.injEq] at h; exact ⟨_, _, _, h.symm⟩
  | cons o os ih =>
    intro t c v d' h
    simp only [applyPtrOps] at h
    cases hs : ptrStep (.ptr t c v) o with
    | none => simp [hs] at h
    | some d1 =>
      simp only [hs] at h
      obtain ⟨t1, c1, v1, rfl⟩ := ptrStep_ptr_stays t c v o d1 hs
      exact ih t1 c1 v1 d' h

/-- a plain parameter never has the lone `void` type that `_parse_parameters` drops -/
theorem PItem.notLoneVoid (p : PItem) (ty : DType) (hok : p.OK ty) : isLoneVoid ty = false := by
  obtain ⟨_, hfv, _, hopsH, hden, _⟩ := hok
  unfold PItem.base at hden
  cases hops : p.ops with
  | nil =>
    simp only [hops, List.map_nil, applyPtrOps, Option.some.injEq] at hden
    subst hden
    cases hp : p.pairs with
    | nil =>
      simp only [identVal, plainVal, Bool.and_eq_true, Bool.not_eq_true', bne_iff_ne, ne_eq] at hfv
      have hnf : Gen.fundamentals.contains p.first.value = false := hfv.1.1.1.1.1.1.2
      have : p.first.value ≠ "void" := by
        intro h; rw [h] at hnf; exact absurd hnf (by decide)
      simp [isLoneVoid, PQSeg.nameAttr, this]
    | cons q qs => simp [isLoneVoid]
  | cons o os =>
    have ho : o.type = "*" := by simpa [opsHeadOk, hops] using hopsH
    simp only [hops, List.map_cons, ho, applyPtrOps] at hden
    cases hs : ptrStep (DType.type (PQName.mk (PQSeg.name p.first.value none :: List.map (fun q => PQSeg.name q.2.value none) p.pairs) none false) false false) "*" with
    | none => simp [hs] at hden
    | some d1 =>
      simp only [hs] at hden
      simp only [ptrStep, ↓reduceIte, isRefLike, Bool.false_eq_true, Option.some.injEq] at hs
      subst hs
      obtain ⟨t', c', v', rfl⟩ := applyPtrOps_ptr_stays _ _ _ _ _ hden
      rfl

theorem core_parseParameters' (F n : Nat) : (core F (n + 1)).parseParameters = parseParametersStep F (core F n) := rfl

/-- an item with its first token replaced by an equal one -/
theorem PItem.OK.replFirst {p : PItem} {ty : DType} (hok : p.OK ty) (t : Tok) (hty : t.type = p.first.type) (hv : t.value = p.first.value) :
    ({ p with first := t } : PItem).OK ty ∧ ({ p with first := t } : PItem).param ty = p.param ty :=
  ⟨⟨by rw [hty]; exact hok.firstTy, by rw [hv]; exact hok.firstVal, hok.pairsOk, hok.opsHead,
    by have := hok.denotes; unfold PItem.base at this ⊢; simp only [hv]; exact this, hok.nameTy⟩, rfl⟩

/-- **`_parse_parameters` on `p1 , p2 , … , pn )`** (after the `(`), n ≥ 1: the parameters, in order, each
    with its own name and the type ITS declarator denotes; no vararg; nothing dropped by the
    `void` rule; the stream is right after the `)` -/
theorem parseParameters_plain (env : Env) (F D : Nat) (ps : List (PItem × DType × Tok)) (last : PItem × DType) (cp : Tok)
    (w : World) (b' : Buf)
    (hall : ∀ q ∈ ps, q.1.OK q.2.1 ∧ q.2.2.type = "," ∧ q.2.2.value ≠ ")" ∧ q.1.pairs.length + q.1.ops.length + 2 ≤ F)
    (hlast : last.1.OK last.2) (hlF : last.1.pairs.length + last.1.ops.length + 2 ≤ F) (hcp : cp.type = ")") (hcpv : cp.value = ")")
    (hy : Yields env.cfg w.buf (ps.flatMap (fun q => q.1.toks ++ [q.2.2]) ++ (last.1.toks ++ [cp])) b') (hF : ps.length + 1 ≤ F) :
    ∃ (w' : World),
      interp env (parseParametersStep F (core F (D + 1 + 1 + 1)) true) w =
        (w', .ok (ps.map (fun q => q.1.param q.2.1) ++ [last.1.param last.2], false, [])) ∧
      SameButLog w w' ∧ w'.buf = b' := by
  -- the look-ahead for `)` pushes the first token back: the loop reads an equal stream
  obtain ⟨w1, ps', last', hi1, hs1, hall', hlast', hlF', hy', hmap, hlen⟩ : ∃ (w1 : World) (ps' : List (PItem × DType × Tok)) (last' : PItem × DType),
      interp env (P.tokenIf [")"]) w = (w1, .ok none) ∧ SameParse w w1 ∧
      (∀ q ∈ ps', q.1.OK q.2.1 ∧ q.2.2.type = "," ∧ q.2.2.value ≠ ")" ∧ q.1.pairs.length + q.1.ops.length + 2 ≤ F) ∧
      last'.1.OK last'.2 ∧ last'.1.pairs.length + last'.1.ops.length + 2 ≤ F ∧
      Yields env.cfg w1.buf (ps'.flatMap (fun q => q.1.toks ++ [q.2.2]) ++ (last'.1.toks ++ [cp])) b' ∧
      ps'.map (fun q => q.1.param q.2.1) ++ [last'.1.param last'.2] = ps.map (fun q => q.1.param q.2.1) ++ [last.1.param last.2] ∧
      ps'.length = ps.length := by
    cases ps with
    | nil =>
      simp only [List.flatMap_nil, List.nil_append, PItem.toks, List.cons_append] at hy
      cases hy with
      | cons hfb hrest =>
        rename_i b1
        obtain ⟨w1, t1, hi1, hs1, ht1, hty1, hv1⟩ := step_tokenIf_miss env [")"] w last.1.first b1 hfb (by rw [hlast.firstTy]; decide)
        obtain ⟨hok', hpar'⟩ := hlast.replFirst t1 hty1 hv1
        exact ⟨w1, [], ({ last.1 with first := t1 }, last.2), hi1, hs1, by simp, hok', hlF,
          by simp only [List.flatMap_nil, List.nil_append, PItem.toks, List.cons_append]; exact .cons ht1 hrest,
          by simp [hpar'], rfl⟩
    | cons q qs =>
      obtain ⟨hqok, hqsep, hqv, hqF⟩ := hall q (by simp)
      simp only [List.flatMap_cons, PItem.toks, List.cons_append, List.append_assoc] at hy
      cases hy with
      | cons hfb hrest =>
        rename_i b1
        obtain ⟨w1, t1, hi1, hs1, ht1, hty1, hv1⟩ := step_tokenIf_miss env [")"] w q.1.first b1 hfb (by rw [hqok.firstTy]; decide)
        obtain ⟨hok', hpar'⟩ := hqok.replFirst t1 hty1 hv1
        refine ⟨w1, ({ q.1 with first := t1 }, q.2.1, q.2.2) :: qs, last, hi1, hs1, ?_, hlast, hlF, ?_, by simp [hpar'], by simp⟩
        · intro x hx
          simp only [List.mem_cons] at hx
          rcases hx with rfl | hx
          · exact ⟨hok', hqsep, hqv, hqF⟩
          · exact hall x (by simp [hx])
        · simp only [List.flatMap_cons, PItem.toks, List.cons_append, List.append_assoc]
          exact .cons ht1 hrest
  obtain ⟨w', hi, hs, hb⟩ := params_loop env F D ps' last' cp [] [] w1 b' F hall' hlast' hlF' hcp hcpv hy' (by rw [hlen]; exact hF)
  refine ⟨w', ?_, hs1.butLog.trans hs, hb⟩
  -- the `void` rule does not apply
  have hvoid : ∀ (convert : Bool), applyVoidOption convert (ps.map (fun q => q.1.param q.2.1) ++ [last.1.param last.2]) =
      ps.map (fun q => q.1.param q.2.1) ++ [last.1.param last.2] := by
    intro convert
    cases ps with
    | nil =>
      have := last.1.notLoneVoid last.2 hlast
      simp [applyVoidOption, PItem.param, Param.type, this]
    | cons q qs =>
      cases hq : (qs.map (fun q => q.1.param q.2.1) ++ [last.1.param last.2]) with
      | nil => simp at hq
      | cons x xs => simp [applyVoidOption, hq]
  unfold parseParametersStep
  simp only [bind, interp_bind, hi1, hi, List.nil_append, hmap, P.getConvertVoid, interp, pure, hvoid]

end Cxx
