/-
  Theorems/SigEq.lean — layout tokens waiting in the line buffer are invisible to
  `token_eof_ok`, and both documentation scans preserve the sequence of significant tokens
  (C09, C11).

  `SigEq b b'`: same lexer state, same kind of stream, and the same significant tokens in the
  line buffer (whatever WHITESPACE / NEWLINE / comment tokens lie between them).
-/
import CxxModel.Theorems.DoxNeutral
import CxxModel.Theorems.Stream
namespace Cxx

/-- the significant tokens of a line buffer -/
def sigOf (l : List Tok) : List Tok := l.filter (fun t => !isDiscard t.type)

structure SigEq (b b' : Buf) : Prop where
  lex : b.lex = b'.lex
  bounded : b.bounded = b'.bounded
  sig : sigOf b.tokbuf = sigOf b'.tokbuf

theorem SigEq.refl (b : Buf) : SigEq b b := ⟨rfl, rfl, rfl⟩
theorem SigEq.symm {a b : Buf} (h : SigEq a b) : SigEq b a := ⟨h.lex.symm, h.bounded.symm, h.sig.symm⟩
theorem SigEq.trans {a b c : Buf} (h1 : SigEq a b) (h2 : SigEq b c) : SigEq a c :=
  ⟨h1.lex.trans h2.lex, h1.bounded.trans h2.bounded, h1.sig.trans h2.sig⟩

theorem popSignificant_sigOf : ∀ (l : List Tok),
    popSignificant isDiscard l = (match sigOf l with
      | [] => none
      | t :: _ => some (t, (popSignificant isDiscard l).map (·.2) |>.getD [])) ∧
    (∀ t r, popSignificant isDiscard l = some (t, r) → sigOf l = t :: sigOf r) ∧
    (popSignificant isDiscard l = none → sigOf l = []) := by
  intro l
  induction l with
  | nil => simp [popSignificant, sigOf]
  | cons x xs ih =>
    by_cases hd : isDiscard x.type = true
    · obtain ⟨h1, h2, h3⟩ := ih
      have hs : sigOf (x :: xs) = sigOf xs := by simp [sigOf, List.filter_cons, hd]
      refine ⟨?_, ?_, ?_⟩
      · simp only [popSignificant, hd, ↓reduceIte, hs]; exact h1
      · intro t r h; simp only [popSignificant, hd, ↓reduceIte] at h; rw [hs]; exact h2 t r h
      · intro h; simp only [popSignificant, hd, ↓reduceIte] at h; rw [hs]; exact h3 h
    · have hs : sigOf (x :: xs) = x :: sigOf xs := by simp [sigOf, List.filter_cons, hd]
      refine ⟨?_, ?_, ?_⟩
      · simp [popSignificant, hd, hs]
      · intro t r h; simp only [popSignificant, hd, Bool.false_eq_true, ↓reduceIte, Option.some.injEq, Prod.mk.injEq] at h
        obtain ⟨rfl, rfl⟩ := h; exact hs
      · intro h; simp [popSignificant, hd] at h

/-- two line buffers with the same significant tokens pop the same token -/
theorem pop_sigEq {l l' : List Tok} (h : sigOf l = sigOf l') :
    (popSignificant isDiscard l = none ∧ popSignificant isDiscard l' = none) ∨
    (∃ t r r', popSignificant isDiscard l = some (t, r) ∧ popSignificant isDiscard l' = some (t, r') ∧ sigOf r = sigOf r') := by
  cases h1 : popSignificant isDiscard l with
  | none =>
    have := (popSignificant_sigOf l).2.2 h1
    cases h2 : popSignificant isDiscard l' with
    | none => exact .inl ⟨rfl, rfl⟩
    | some x =>
      obtain ⟨t, r⟩ := x
      have := (popSignificant_sigOf l').2.1 t r h2
      simp_all
  | some x =>
    obtain ⟨t, r⟩ := x
    have hs := (popSignificant_sigOf l).2.1 t r h1
    cases h2 : popSignificant isDiscard l' with
    | none =>
      have := (popSignificant_sigOf l').2.2 h2
      simp_all
    | some x' =>
      obtain ⟨t', r'⟩ := x'
      have hs' := (popSignificant_sigOf l').2.1 t' r' h2
      rw [hs, hs'] at h
      injection h with ht hr
      subst ht
      exact .inr ⟨t, r, r', rfl, rfl, hr⟩

theorem nextTok_sigEq (cfg : LexCfg) (n : Nat) {b b' : Buf} (h : SigEq b b') :
    (∃ e, nextTok cfg isDiscard (n + 1) b = .error e ∧ nextTok cfg isDiscard (n + 1) b' = .error e) ∨
    (∃ o b1 b1', nextTok cfg isDiscard (n + 1) b = .ok (o, b1) ∧ nextTok cfg isDiscard (n + 1) b' = .ok (o, b1') ∧ SigEq b1 b1') := by
  obtain ⟨tb, lx, bd⟩ := b
  obtain ⟨tb', lx', bd'⟩ := b'
  obtain ⟨hl, hbd, hsig⟩ := h
  simp only at hl hbd hsig
  subst hl; subst hbd
  simp only [nextTok]
  rcases pop_sigEq hsig with ⟨h1, h2⟩ | ⟨t, r, r', h1, h2, hr⟩
  · simp only [h1, h2]
    cases hf : fill cfg { tokbuf := [], lex := lx, bounded := bd } with
    | error e => exact .inl ⟨e, rfl, rfl⟩
    | ok x =>
      obtain ⟨more, b2⟩ := x
      cases more with
      | false => exact .inr ⟨none, b2, b2, rfl, rfl, SigEq.refl _⟩
      | true =>
        simp only
        cases hn : nextTok cfg isDiscard n b2 with
        | error e => exact .inl ⟨e, rfl, rfl⟩
        | ok y => obtain ⟨o, b3⟩ := y; exact .inr ⟨o, b3, b3, rfl, rfl, SigEq.refl _⟩
  · simp only [h1, h2]
    exact .inr ⟨some t, _, _, rfl, rfl, ⟨rfl, rfl, hr⟩⟩

/-- **`token_eof_ok` cannot see layout waiting in the buffer**: from `SigEq` stream states it
    returns the same token (or end, or error) and `SigEq` states again -/
theorem tokenEofOk_sigEq (cfg : LexCfg) {b b' : Buf} (h : SigEq b b') :
    (∃ e, tokenEofOk cfg b = .error e ∧ tokenEofOk cfg b' = .error e) ∨
    (∃ o b1 b1', tokenEofOk cfg b = .ok (o, b1) ∧ tokenEofOk cfg b' = .ok (o, b1') ∧ SigEq b1 b1') := by
  simp only [tokenEofOk, fuelFor, ← h.lex]
  exact nextTok_sigEq cfg _ h

/-- `Yields` respects `SigEq` -/
theorem Yields.sigEq {cfg : LexCfg} : ∀ {ts : List Tok} {b b' b1 : Buf}, Yields cfg b ts b1 → SigEq b b' →
    ∃ b1', Yields cfg b' ts b1' ∧ SigEq b1 b1' := by
  intro ts
  induction ts with
  | nil => intro b b' b1 hy h; cases hy; exact ⟨b', .nil _, h⟩
  | cons t ts ih =>
    intro b b' b1 hy h
    cases hy with
    | cons htok hrest =>
      rename_i b2
      rcases tokenEofOk_sigEq cfg h with ⟨e, h1, _⟩ | ⟨o, c1, c1', h1, h2, hs⟩
      · rw [htok] at h1; cases h1
      · rw [htok] at h1
        injection h1 with h1; injection h1 with ho hb; subst ho; subst hb
        obtain ⟨b1', hy', hs'⟩ := ih hrest hs
        exact ⟨b1', .cons h2 hy', hs'⟩

/-! ### the two documentation scans -/

theorem sigOf_append (a b : List Tok) : sigOf (a ++ b) = sigOf a ++ sigOf b := by simp [sigOf, List.filter_append]

theorem sigOf_cons (t : Tok) (ts : List Tok) : sigOf (t :: ts) = sigOf [t] ++ sigOf ts := by
  have : t :: ts = [t] ++ ts := rfl
  rw [this, sigOf_append]

theorem doxAfterScan_sig : ∀ (l cs nb : List Tok),
    sigOf ((doxAfterScan cs nb l).2.1 ++ (doxAfterScan cs nb l).2.2) = sigOf nb ++ sigOf l := by
  intro l
  induction l with
  | nil => intro cs nb; simp [doxAfterScan, sigOf]
  | cons t ts ih =>
    intro cs nb
    simp only [doxAfterScan]
    split
    · rename_i h
      have hd : isDiscard t.type = true := by rw [h]; decide
      simp [sigOf, List.filter_cons, hd, List.filter_append]
    · split
      · rename_i h
        have hd : isDiscard t.type = true := by rw [h]; decide
        rw [ih]; simp [sigOf, List.filter_cons, hd, List.filter_append]
      · split
        · rename_i h
          have hd : isDiscard t.type = true := by
            simp only [isComment, Bool.or_eq_true, decide_eq_true_eq] at h
            rcases h with h | h <;> (rw [h]; decide)
          rw [ih]; simp [sigOf, List.filter_cons, hd]
        · split
          · rw [sigOf_append, sigOf_append, sigOf_cons t ts, List.append_assoc]
          · rw [ih, sigOf_append, sigOf_cons t ts, List.append_assoc]

/-- `get_doxygen_after()` leaves the significant tokens alone -/
theorem getDoxygenAfter_sigEq (mcRe : Re) (b : Buf) : SigEq (getDoxygenAfter mcRe b).2 b := by
  unfold getDoxygenAfter
  split
  · exact SigEq.refl _
  · split
    · exact SigEq.refl _
    · refine ⟨rfl, rfl, ?_⟩
      have := doxAfterScan_sig b.tokbuf [] []
      simpa [sigOf] using this

/-- `get_doxygen()` leaves the sequence the stream yields alone -/
theorem Yields.after_getDoxygen {cfg : LexCfg} (hp : RulesProgress cfg = true) {mcRe : Re} {b b1 b' : Buf} {d : Option String}
    {t : Tok} {ts : List Tok} (hd : getDoxygen cfg mcRe b = .ok (d, b1)) (hy : Yields cfg b (t :: ts) b') :
    Yields cfg b1 (t :: ts) b' := by
  cases hy with
  | cons htok hrest =>
    have := getDoxygen_next cfg hp mcRe b b1 d hd
    exact .cons (by rw [this]; exact htok) hrest

end Cxx
