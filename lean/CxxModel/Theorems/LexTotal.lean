/-
  Theorems/LexTotal.lean — the PLY token loop always makes progress, so the bound the model
  puts on it is never what ends it (C06 / C07): with rules none of which can match the empty
  string and none of whose actions is outside the modelled language (both decided on the
  regenerated table), `Lexer.token` — skipping ignored characters and `#line` / `#warning`
  matches — either returns a token, reports a lexical error, or reaches the real end of the
  input; the outcomes "bound exhausted" and "unmodelled action" cannot occur.
-/
import CxxModel.Theorems.LexPartition
import CxxModel.Cost
import CxxModel.TokStream
namespace Cxx

def ruleProgressOK (r : Rule) : Bool := !nullable r.re && r.action != .opaque

def RulesProgress (cfg : LexCfg) : Bool := cfg.rules.all ruleProgressOK

theorem firstRule_shorter {rules : List Rule} {s rest : Str} {r : Rule} (hall : ∀ x ∈ rules, nullable x.re = false)
    (h : firstRule rules s = some (r, rest)) : rest.length < s.length := by
  induction rules with
  | nil => simp [firstRule] at h
  | cons x xs ih =>
    simp only [firstRule] at h
    split at h
    · rename_i rest' hm
      injection h with h; injection h with h1 h2
      subst h1; subst h2
      rw [rmatchK_eq_rmatch] at hm
      exact nonnull_consumes x.re (hall x (by simp)) s rest' (List.mem_of_head? hm)
    · exact ih (fun y hy => hall y (by simp [hy])) h

theorem runAction_not_opaque {kw : List String} {r : Rule} {v : Str} {st0 : LexState} {rest : Str}
    (h : r.action ≠ .opaque) : runAction kw r v st0 rest ≠ .opaque := by
  unfold runAction
  cases ha : r.action <;> simp only []
  case keyword => split <;> simp
  case ppDirective => split <;> (try split) <;> (try split) <;> simp [mkErr]
  case error => simp [mkErr]
  case errorFmt => simp [mkErr]
  case «opaque» => exact absurd ha h
  all_goals simp

/-- with enough fuel for the remaining text, the loop never yields `opaque`, and `eof` only at
    the real end of the input -/
theorem plyToken_total (cfg : LexCfg) (hp : RulesProgress cfg = true) : ∀ (fuel : Nat) (st : LexState),
    st.rest.length < fuel →
    plyToken cfg fuel st ≠ .opaque ∧ (∀ st', plyToken cfg fuel st = .eof st' → st'.rest = []) := by
  simp only [RulesProgress, List.all_eq_true, ruleProgressOK, Bool.and_eq_true, Bool.not_eq_true', bne_iff_ne, ne_eq] at hp
  have hnull : ∀ x ∈ cfg.rules, nullable x.re = false := fun x hx => (hp x hx).1
  intro fuel
  induction fuel with
  | zero => intro st h; omega
  | succ n ih =>
    intro st hlen
    simp only [plyToken]
    cases hr : st.rest with
    | nil => exact ⟨by simp, by intro st' h; injection h with h; subst h; exact hr⟩
    | cons c t =>
      simp only
      rw [hr] at hlen
      split
      · exact ih _ (by simp at hlen ⊢; omega)
      · cases hf : firstRule cfg.rules (c :: t) with
        | none =>
          simp only
          split
          · exact ⟨by simp, by intro st' h; cases h⟩
          · exact ⟨by simp, by intro st' h; cases h⟩
        | some x =>
          obtain ⟨r, rest⟩ := x
          simp only
          have hmem := firstRule_mem hf
          have hshort := firstRule_shorter hnull hf
          have hact : r.action ≠ .opaque := (hp r hmem).2
          have hno := runAction_not_opaque (kw := cfg.keywords) (r := r)
            (v := (c :: t).take ((c :: t).length - rest.length)) (st0 := st) (rest := rest) hact
          cases ha : runAction cfg.keywords r ((c :: t).take ((c :: t).length - rest.length)) st rest with
          | tok tk st1 => exact ⟨by simp, by intro st' h; cases h⟩
          | err e => exact ⟨by simp, by intro st' h; cases h⟩
          | «opaque» => exact absurd ha hno
          | none st1 =>
            simp only
            have hst1 := (runAction_none ha).1
            have hlt : st1.rest.length < st.rest.length := by rw [hst1, hr]; exact hshort
            have hlt2 : st1.rest.length < (c :: t).length := by rw [hst1]; exact hshort
            first
              | (simp only [hlt, ↓reduceIte]; exact ih st1 (by rw [hr] at hlt; simp at hlen hlt ⊢; omega))
              | (simp only [hlt2, ↓reduceIte]; exact ih st1 (by simp at hlen hlt2 ⊢; omega))
              | (simp only [hr, hlt2, ↓reduceIte]; exact ih st1 (by simp at hlen hlt2 ⊢; omega))

theorem plyTokenF_total (cfg : LexCfg) (hp : RulesProgress cfg = true) (st : LexState) :
    plyTokenF cfg st ≠ .opaque ∧ (∀ st', plyTokenF cfg st = .eof st' → st'.rest = []) :=
  plyToken_total cfg hp _ st (by omega)


/-! ### the token stream: `_fill_tokbuf` shortens the remaining text, so the bound on the
    number of fills in `token_eof_ok` is never reached -/

theorem plyToken_rest_le (cfg : LexCfg) : ∀ (fuel : Nat) (st : LexState),
    (∀ t st', plyToken cfg fuel st = .tok t st' → st'.rest.length ≤ st.rest.length) ∧
    (∀ st', plyToken cfg fuel st = .eof st' → st'.rest.length ≤ st.rest.length) := by
  intro fuel
  induction fuel with
  | zero =>
    intro st
    exact ⟨(by intro t st' h; simp [plyToken] at h), (by intro st' h; simp only [plyToken] at h; injection h with h; subst h; exact Nat.le_refl _)⟩
  | succ n ih =>
    intro st
    simp only [plyToken]
    cases hr : st.rest with
    | nil =>
      exact ⟨(by intro t st' h; cases h), (by intro st' h; injection h with h; subst h; rw [hr]; exact Nat.le_refl _)⟩
    | cons c t =>
      simp only
      split
      · have := ih { st with rest := t, pos := st.pos + 1 }
        exact ⟨fun tk st' h => Nat.le_trans (this.1 tk st' h) (by simp), fun st' h => Nat.le_trans (this.2 st' h) (by simp)⟩
      · cases hf : firstRule cfg.rules (c :: t) with
        | none =>
          simp only
          split
          · exact ⟨(by intro tk st' h; injection h with _ h2; subst h2; simp), (by intro st' h; cases h)⟩
          · exact ⟨(by intro tk st' h; cases h), (by intro st' h; cases h)⟩
        | some x =>
          obtain ⟨r, rest⟩ := x
          simp only
          have hsuf := suffix_length_le (firstRule_suffix hf)
          cases ha : runAction cfg.keywords r ((c :: t).take ((c :: t).length - rest.length)) st rest with
          | tok tk st1 =>
            have := (runAction_tok ha).2.2.2.1
            exact ⟨(by intro tk' st' h; injection h with _ h2; subst h2; rw [this]; exact hsuf), (by intro st' h; cases h)⟩
          | err e => exact ⟨(by intro tk st' h; cases h), (by intro st' h; cases h)⟩
          | «opaque» => exact ⟨(by intro tk st' h; cases h), (by intro st' h; cases h)⟩
          | none st1 =>
            simp only
            have hst1 := (runAction_none ha).1
            split
            · have := ih st1
              have hle : st1.rest.length ≤ (c :: t).length := by rw [hst1]; exact hsuf
              exact ⟨fun tk st' h => Nat.le_trans (this.1 tk st' h) hle, fun st' h => Nat.le_trans (this.2 st' h) hle⟩
            · exact ⟨(by intro tk st' h; cases h), (by intro st' h; cases h)⟩

theorem plyToken_tok_shorter (cfg : LexCfg) (hp : RulesProgress cfg = true) : ∀ (fuel : Nat) (st : LexState) (tk : RawTok) (st' : LexState),
    plyToken cfg fuel st = .tok tk st' → st'.rest.length < st.rest.length := by
  simp only [RulesProgress, List.all_eq_true, ruleProgressOK, Bool.and_eq_true, Bool.not_eq_true', bne_iff_ne, ne_eq] at hp
  have hnull : ∀ x ∈ cfg.rules, nullable x.re = false := fun x hx => (hp x hx).1
  intro fuel
  induction fuel with
  | zero => intro st tk st' h; simp [plyToken] at h
  | succ n ih =>
    intro st tk st' h
    simp only [plyToken] at h
    cases hr : st.rest with
    | nil => simp [hr] at h
    | cons c t =>
      simp only [hr] at h
      split at h
      · have := ih _ _ _ h
        simp at this ⊢; omega
      · cases hf : firstRule cfg.rules (c :: t) with
        | none =>
          simp only [hf] at h
          split at h
          · injection h with _ h2; subst h2; simp
          · cases h
        | some x =>
          obtain ⟨r, rest⟩ := x
          simp only [hf] at h
          have hshort := firstRule_shorter hnull hf
          cases ha : runAction cfg.keywords r ((c :: t).take ((c :: t).length - rest.length)) st rest with
          | tok tk1 st1 =>
            simp only [ha] at h
            injection h with _ h2; subst h2
            rw [(runAction_tok ha).2.2.2.1]; exact hshort
          | err e => simp only [ha] at h; cases h
          | «opaque» => simp only [ha] at h; cases h
          | none st1 =>
            simp only [ha] at h
            have hst1 := (runAction_none ha).1
            split at h
            · have := ih _ _ _ h
              have hle : st1.rest.length < (c :: t).length := by rw [hst1]; exact hshort
              omega
            · cases h

theorem fillLoop_rest_le (cfg : LexCfg) : ∀ (fuel : Nat) (line : List Tok) (raw : RawTok) (st : LexState) (l : List Tok) (st' : LexState),
    fillLoop cfg fuel line raw st = .ok (l, st') → st'.rest.length ≤ st.rest.length := by
  intro fuel
  induction fuel with
  | zero => intro line raw st l st' h; simp only [fillLoop] at h; injection h with h; injection h with _ h2; subst h2; exact Nat.le_refl _
  | succ n ih =>
    intro line raw st l st' h
    have hply := plyToken_rest_le cfg (st.rest.length + 1) st
    simp only [fillLoop] at h
    split at h
    · injection h with h; injection h with _ h2; subst h2; exact Nat.le_refl _
    · split at h
      · -- user-defined-literal start
        cases hp : plyTokenF cfg st with
        | eof s1 => simp only [hp] at h; injection h with h; injection h with _ h2; subst h2; exact hply.2 _ hp
        | err e s1 => simp [hp] at h
        | «opaque» => simp only [hp] at h; injection h with h; injection h with _ h2; subst h2; exact Nat.le_refl _
        | tok r2 s2 =>
          simp only [hp] at h
          have h2le := hply.1 _ _ hp
          split at h
          · exact Nat.le_trans (ih _ _ _ _ _ h) h2le
          · have hply2 := plyToken_rest_le cfg (s2.rest.length + 1) s2
            cases hq : plyTokenF cfg s2 with
            | eof s3 => simp only [hq] at h; injection h with h; injection h with _ h3; subst h3; exact Nat.le_trans (hply2.2 _ hq) h2le
            | err e s3 => simp [hq] at h
            | «opaque» => simp only [hq] at h; injection h with h; injection h with _ h3; subst h3; exact h2le
            | tok r3 s3 =>
              simp only [hq] at h
              exact Nat.le_trans (ih _ _ _ _ _ h) (Nat.le_trans (hply2.1 _ _ hq) h2le)
      · cases hp : plyTokenF cfg st with
        | eof s1 => simp only [hp] at h; injection h with h; injection h with _ h2; subst h2; exact hply.2 _ hp
        | err e s1 => simp [hp] at h
        | «opaque» => simp only [hp] at h; injection h with h; injection h with _ h2; subst h2; exact Nat.le_refl _
        | tok r2 s2 =>
          simp only [hp] at h
          exact Nat.le_trans (ih _ _ _ _ _ h) (hply.1 _ _ hp)

/-- a fill that produced tokens shortened the remaining text -/
theorem fill_progress (cfg : LexCfg) (hp : RulesProgress cfg = true) (b b' : Buf) (h : fill cfg b = .ok (true, b')) :
    b'.lex.rest.length < b.lex.rest.length := by
  unfold fill at h
  split at h
  · cases h
  · cases hq : plyTokenF cfg b.lex with
    | eof s1 => simp [hq] at h
    | err e s1 => simp [hq] at h
    | «opaque» => simp [hq] at h
    | tok raw s1 =>
      simp only [hq] at h
      have hlt := plyToken_tok_shorter cfg hp _ _ _ _ hq
      split at h
      · cases h
      · rename_i line st' hfl
        injection h with h; injection h with _ h2; subst h2
        exact Nat.lt_of_le_of_lt (fillLoop_rest_le cfg _ _ _ _ _ _ hfl) hlt

/-- **the stream never runs out of its bound**: `token_eof_ok` / `token_newline_eof_ok` with
    the model's fuel (`|rest| + 2`) never end with the `fuel` outcome -/
theorem nextTok_no_fuel (cfg : LexCfg) (hp : RulesProgress cfg = true) (disc : String → Bool) :
    ∀ (n : Nat) (b : Buf), b.lex.rest.length + 1 < n → nextTok cfg disc n b ≠ .error .fuel := by
  intro n
  induction n with
  | zero => intro b h; omega
  | succ n ih =>
    intro b hlen
    simp only [nextTok]
    split
    · simp
    · cases hf : fill cfg { b with tokbuf := [] } with
      | error e =>
        simp only
        -- errors of `fill` are lexical errors, the bounded-stream error, or unmodelled actions: never `fuel`
        unfold fill at hf
        split at hf
        · injection hf with hf; subst hf; simp
        · split at hf <;> (try (injection hf with hf; subst hf; simp)) <;> (try cases hf)
          split at hf
          · injection hf with hf; subst hf; simp
          · cases hf
      | ok x =>
        obtain ⟨more, b'⟩ := x
        cases more with
        | false => simp
        | true =>
          simp only
          have := fill_progress cfg hp _ _ hf
          exact ih b' (by simp at this; omega)

theorem tokenEofOk_no_fuel (cfg : LexCfg) (hp : RulesProgress cfg = true) (b : Buf) : tokenEofOk cfg b ≠ .error .fuel :=
  nextTok_no_fuel cfg hp isDiscard _ b (by simp [fuelFor])

end Cxx
