/-
  Theorems/DoxNeutral.lean — the documentation-comment scans never change what the parser
  reads next (C11, C09): after `get_doxygen()` the next significant token and the stream
  state after it are exactly what they would have been without the scan.
-/
import CxxModel.Theorems.LexTotal
namespace Cxx

/-- more fuel never changes a result that was not "out of fuel" -/
theorem nextTok_fuel_mono (cfg : LexCfg) (disc : String → Bool) : ∀ (n : Nat) (b : Buf),
    nextTok cfg disc n b ≠ .error .fuel → nextTok cfg disc (n + 1) b = nextTok cfg disc n b := by
  intro n
  induction n with
  | zero => intro b h; simp [nextTok] at h
  | succ n ih =>
    intro b h
    simp only [nextTok] at h ⊢
    split
    · rfl
    · cases hf : fill cfg { b with tokbuf := [] } with
      | error e => rfl
      | ok x =>
        obtain ⟨more, b'⟩ := x
        cases more with
        | false => rfl
        | true =>
          simp only
          rename_i hp
          simp only [hp, hf] at h
          exact ih b' h

theorem nextTok_fuel_add (cfg : LexCfg) (disc : String → Bool) (n : Nat) (b : Buf)
    (h : nextTok cfg disc n b ≠ .error .fuel) : ∀ k, nextTok cfg disc (n + k) b = nextTok cfg disc n b := by
  intro k
  induction k with
  | zero => rfl
  | succ k ih =>
    have : nextTok cfg disc (n + k) b ≠ .error .fuel := by rw [ih]; exact h
    rw [← Nat.add_assoc, nextTok_fuel_mono cfg disc (n + k) b this, ih]

/-- with the rules making progress, any two sufficient fuels give the same result -/
theorem nextTok_fuel_irrel (cfg : LexCfg) (hp : RulesProgress cfg = true) (disc : String → Bool) (n1 n2 : Nat) (b : Buf)
    (h1 : b.lex.rest.length + 1 < n1) (h2 : b.lex.rest.length + 1 < n2) :
    nextTok cfg disc n1 b = nextTok cfg disc n2 b := by
  have key : ∀ n, b.lex.rest.length + 1 < n → nextTok cfg disc n b = nextTok cfg disc (b.lex.rest.length + 2) b := by
    intro n hn
    obtain ⟨k, rfl⟩ : ∃ k, n = (b.lex.rest.length + 2) + k := ⟨n - (b.lex.rest.length + 2), by omega⟩
    exact nextTok_fuel_add cfg disc _ b (nextTok_no_fuel cfg hp disc _ b (by omega)) k
  rw [key n1 h1, key n2 h2]

/-- popping the next significant token does not care about a layout prefix that a doc scan
    would drop -/
theorem doxScan_pop (cs : List Tok) : ∀ (l : List Tok),
    popSignificant isDiscard (doxScan cs l).2.1 = popSignificant isDiscard l := by
  intro l
  induction l generalizing cs with
  | nil => simp [doxScan]
  | cons t ts ih =>
    simp only [doxScan]
    split
    · rename_i h
      have hd : isDiscard t.type = true := by rw [h]; decide
      simp only [popSignificant, hd, ↓reduceIte]; exact ih []
    · split
      · rename_i h
        have hd : isDiscard t.type = true := by rw [h]; decide
        simp only [popSignificant, hd, ↓reduceIte]; exact ih cs
      · split
        · rename_i h
          have hd : isDiscard t.type = true := by
            simp only [isComment, Bool.or_eq_true, decide_eq_true_eq] at h
            rcases h with h | h <;> (rw [h]; decide)
          simp only [popSignificant, hd, ↓reduceIte]; exact ih _
        · rfl

theorem doxScan_stop_false (cs : List Tok) : ∀ (l : List Tok), (doxScan cs l).2.2 = false →
    (doxScan cs l).2.1 = [] ∧ popSignificant isDiscard l = none := by
  intro l
  induction l generalizing cs with
  | nil => intro _; simp [doxScan, popSignificant]
  | cons t ts ih =>
    intro h
    simp only [doxScan] at h ⊢
    split at h
    · rename_i ht
      have hd : isDiscard t.type = true := by rw [ht]; decide
      simp only [ht, ↓reduceIte, popSignificant, hd]; exact ih [] h
    · split at h
      · rename_i h1 ht
        have hd : isDiscard t.type = true := by rw [ht]; decide
        simp only [h1, ht, ↓reduceIte, popSignificant, hd]; exact ih cs h
      · split at h
        · rename_i h1 h2 ht
          have hd : isDiscard t.type = true := by
            simp only [isComment, Bool.or_eq_true, decide_eq_true_eq] at ht
            rcases ht with ht | ht <;> (rw [ht]; decide)
          simp only [h1, h2, ht, ↓reduceIte, popSignificant, hd]; exact ih _ h
        · simp at h

/-- at the end of the input a second fill finds the end again and changes nothing -/
theorem fill_eof_idem (cfg : LexCfg) (hp : RulesProgress cfg = true) (b0 b' : Buf) (h : fill cfg b0 = .ok (false, b')) :
    b'.tokbuf = b0.tokbuf ∧ fill cfg b' = .ok (false, b') := by
  unfold fill at h
  split at h
  · cases h
  · rename_i hb
    cases hq : plyTokenF cfg b0.lex with
    | tok r s => simp only [hq] at h; split at h <;> cases h
    | err e s => simp [hq] at h
    | «opaque» => simp [hq] at h
    | eof st =>
      simp only [hq] at h
      injection h with h; injection h with _ h2; subst h2
      have hrest := (plyTokenF_total cfg hp b0.lex).2 st hq
      refine ⟨rfl, ?_⟩
      unfold fill
      simp only [hb, Bool.false_eq_true, ↓reduceIte]
      have : plyTokenF cfg st = .eof st := by
        unfold plyTokenF
        rw [hrest]
        simp [plyToken, hrest]
      simp [this]

/-- the scan loop against `nextTok`: whatever fuel the loop had, the stream it leaves gives the
    same next token as the stream it started from -/
theorem getDoxygenLoop_next (cfg : LexCfg) (hp : RulesProgress cfg = true) (mcRe : Re) : ∀ (n : Nat) (cs : List Tok) (b b1 : Buf) (d : Option String),
    getDoxygenLoop cfg mcRe n cs b = .ok (d, b1) →
    ∀ m1 m2, b1.lex.rest.length + 1 < m1 → b.lex.rest.length + 1 < m2 →
      nextTok cfg isDiscard m1 b1 = nextTok cfg isDiscard m2 b := by
  intro n
  induction n with
  | zero => intro cs b b1 d h; simp [getDoxygenLoop] at h
  | succ n ih =>
    intro cs b b1 d h m1 m2 hm1 hm2
    simp only [getDoxygenLoop] at h
    split at h
    · -- stopped at a significant token: same lexer state, layout prefix dropped
      rename_i hstop
      injection h with h; injection h with _ h2; subst h2
      obtain ⟨k1, rfl⟩ : ∃ k, m1 = k + 1 := ⟨m1 - 1, by omega⟩
      obtain ⟨k2, rfl⟩ : ∃ k, m2 = k + 1 := ⟨m2 - 1, by omega⟩
      simp only [nextTok, doxScan_pop]
      cases hpop : popSignificant isDiscard b.tokbuf with
      | some x => rfl
      | none =>
        simp only
        cases hf : fill cfg { b with tokbuf := [] } with
        | error e => rfl
        | ok x =>
          obtain ⟨more, b'⟩ := x
          cases more with
          | false => rfl
          | true =>
            simp only
            have hpr := fill_progress cfg hp _ _ hf
            exact nextTok_fuel_irrel cfg hp isDiscard k1 k2 b' (by simp at hpr hm1; omega) (by simp at hpr hm2; omega)
    · rename_i hstop
      have hsf := doxScan_stop_false cs b.tokbuf (by simpa using hstop)
      -- the buffer is all layout: both sides fill the same stream
      obtain ⟨k2, rfl⟩ : ∃ k, m2 = k + 1 := ⟨m2 - 1, by omega⟩
      have hfeq : fill cfg { b with tokbuf := (doxScan cs b.tokbuf).2.1 } = fill cfg { b with tokbuf := [] } := by rw [hsf.1]
      rw [hfeq] at h
      simp only [nextTok, hsf.2]
      cases hf : fill cfg { b with tokbuf := [] } with
      | error e => simp [hf] at h
      | ok x =>
        obtain ⟨more, b'⟩ := x
        simp only [hf] at h
        cases more with
        | false =>
          simp only at h ⊢
          injection h with h; injection h with _ h2
          -- at end of input: `fill` found nothing and a later fill finds nothing again
          obtain ⟨k1, rfl⟩ : ∃ k, m1 = k + 1 := ⟨m1 - 1, by omega⟩
          obtain ⟨htb, hidem⟩ := fill_eof_idem cfg hp _ _ hf
          have hb1 : b1 = b' := h2.symm
          subst hb1
          have hemp : b1.tokbuf = [] := htb
          have hself : ({ b1 with tokbuf := [] } : Buf) = b1 := by
            cases b1; simp only at hemp; subst hemp; rfl
          simp only [nextTok, hemp, popSignificant, hself, hidem]
        | true =>
          simp only at h ⊢
          have hpr := fill_progress cfg hp _ _ hf
          exact ih _ b' b1 d h m1 k2 hm1 (by simp at hpr hm2; omega)


/-- **`get_doxygen()` is neutral for the token sequence**: after it, `token_eof_ok` returns
    exactly what it would have returned before — the same token (or end of input, or the same
    lexical error) and the same stream state afterwards -/
theorem getDoxygen_next (cfg : LexCfg) (hp : RulesProgress cfg = true) (mcRe : Re) (b b1 : Buf) (d : Option String)
    (h : getDoxygen cfg mcRe b = .ok (d, b1)) : tokenEofOk cfg b1 = tokenEofOk cfg b := by
  unfold getDoxygen at h
  split at h
  · injection h with h; injection h with _ h2; subst h2; rfl
  · split at h
    · rename_i hemp
      have hnil : b.tokbuf = [] := by simpa using hemp
      have hself : ({ b with tokbuf := [] } : Buf) = b := by
        cases b; simp only at hnil; subst hnil; rfl
      cases hf : fill cfg b with
      | error e => simp [hf] at h
      | ok x =>
        obtain ⟨more, b'⟩ := x
        simp only [hf] at h
        cases more with
        | false =>
          simp only at h
          injection h with h; injection h with _ h2
          obtain ⟨htb, hidem⟩ := fill_eof_idem cfg hp _ _ hf
          have hb1 : b1 = b' := h2.symm
          subst hb1
          have hemp' : b1.tokbuf = [] := by rw [htb]; exact hnil
          have hself' : ({ b1 with tokbuf := [] } : Buf) = b1 := by
            cases b1; simp only at hemp'; subst hemp'; rfl
          simp only [tokenEofOk, fuelFor, nextTok, hnil, hemp', popSignificant, hself, hself', hf, hidem]
        | true =>
          simp only at h
          have hpr := fill_progress cfg hp _ _ hf
          have hloop := getDoxygenLoop_next cfg hp mcRe _ _ b' b1 d h
          simp only [tokenEofOk, fuelFor]
          rw [hloop (b1.lex.rest.length + 2) (b.lex.rest.length + 1) (by omega) (by omega)]
          simp only [nextTok, hnil, popSignificant, hself, hf]
    · simp only [tokenEofOk, fuelFor]
      exact getDoxygenLoop_next cfg hp mcRe _ _ b b1 d h _ _ (by omega) (by omega)


/-! ### `get_doxygen()` fails only where reading the next token would fail the same way -/

theorem getDoxygenLoop_err (cfg : LexCfg) (hp : RulesProgress cfg = true) (mcRe : Re) : ∀ (n : Nat) (cs : List Tok) (b : Buf) (e : Err),
    b.lex.rest.length + 1 < n → getDoxygenLoop cfg mcRe n cs b = .error e →
    ∀ m, b.lex.rest.length + 1 < m → nextTok cfg isDiscard m b = .error e := by
  intro n
  induction n with
  | zero => intro cs b e hn; omega
  | succ n ih =>
    intro cs b e hn h m hm
    simp only [getDoxygenLoop] at h
    split at h
    · cases h
    · rename_i hstop
      have hsf := doxScan_stop_false cs b.tokbuf (by simpa using hstop)
      obtain ⟨k, rfl⟩ : ∃ k, m = k + 1 := ⟨m - 1, by omega⟩
      have hfeq : fill cfg { b with tokbuf := (doxScan cs b.tokbuf).2.1 } = fill cfg { b with tokbuf := [] } := by rw [hsf.1]
      rw [hfeq] at h
      simp only [nextTok, hsf.2]
      cases hf : fill cfg { b with tokbuf := [] } with
      | error e' => simp only [hf] at h; injection h with h; subst h; rfl
      | ok x =>
        obtain ⟨more, b'⟩ := x
        simp only [hf] at h
        cases more with
        | false => simp at h
        | true =>
          simp only at h ⊢
          have hpr := fill_progress cfg hp _ _ hf
          exact ih _ b' e (by simp at hpr; omega) h k (by simp at hpr; omega)

/-- if the next token can be read, `get_doxygen()` succeeds -/
theorem getDoxygen_ok (cfg : LexCfg) (hp : RulesProgress cfg = true) (mcRe : Re) (b : Buf) (o : Option Tok) (b' : Buf)
    (h : tokenEofOk cfg b = .ok (o, b')) : ∃ d b1, getDoxygen cfg mcRe b = .ok (d, b1) := by
  cases hd : getDoxygen cfg mcRe b with
  | ok x => obtain ⟨d, b1⟩ := x; exact ⟨d, b1, rfl⟩
  | error e =>
    exfalso
    unfold getDoxygen at hd
    split at hd
    · cases hd
    · split at hd
      · rename_i hemp
        have hnil : b.tokbuf = [] := by simpa using hemp
        have hself : ({ b with tokbuf := [] } : Buf) = b := by
          cases b; simp only at hnil; subst hnil; rfl
        cases hf : fill cfg b with
        | error e' =>
          simp only [tokenEofOk, fuelFor, nextTok, hnil, popSignificant, hself, hf] at h
          cases h
        | ok x =>
          obtain ⟨more, b2⟩ := x
          simp only [hf] at hd
          cases more with
          | false => simp at hd
          | true =>
            simp only at hd
            have hpr := fill_progress cfg hp _ _ hf
            have := getDoxygenLoop_err cfg hp mcRe _ _ b2 e (by simp [fuelFor]) hd (b.lex.rest.length + 1) (by omega)
            have hunf : tokenEofOk cfg b = nextTok cfg isDiscard (b.lex.rest.length + 1) b2 := by
              simp only [tokenEofOk, fuelFor]
              rw [show b.lex.rest.length + 2 = (b.lex.rest.length + 1) + 1 from rfl, nextTok]
              simp only [hnil, popSignificant, hself, hf]
            rw [hunf, this] at h
            cases h
      · have := getDoxygenLoop_err cfg hp mcRe _ _ b e (by simp [fuelFor]) hd (b.lex.rest.length + 2) (by omega)
        simp only [tokenEofOk, fuelFor, this] at h
        cases h

end Cxx
