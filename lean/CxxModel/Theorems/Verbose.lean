/-
  Theorems/Verbose.lean — `verbose` changes diagnostics only: for every client program the
  delivered stream, the outcome and the whole parser state are the same with and without
  it; only the debug log differs.
-/
import CxxModel.Interp
namespace Cxx

def Env.withVerbose (env : Env) (v : Bool) : Env := { env with opts := { env.opts with verbose := v } }

@[simp] theorem withVerbose_cfg (env : Env) (v : Bool) : (env.withVerbose v).cfg = env.cfg := rfl
@[simp] theorem withVerbose_mcRe (env : Env) (v : Bool) : (env.withVerbose v).mcRe = env.mcRe := rfl
@[simp] theorem withVerbose_skip (env : Env) (v : Bool) : (env.withVerbose v).skip = env.skip := rfl
@[simp] theorem withVerbose_faultAt (env : Env) (v : Bool) : (env.withVerbose v).faultAt = env.faultAt := rfl
@[simp] theorem withVerbose_convert (env : Env) (v : Bool) :
    (env.withVerbose v).opts.convertVoidToZeroParams = env.opts.convertVoidToZeroParams := rfl

/-- equal except for the debug log -/
structure VSim (w w' : World) : Prop where
  buf : w.buf = w'.buf
  stack : w.stack = w'.stack
  muted : w.muted = w'.muted
  anon : w.anon = w'.anon
  nextId : w.nextId = w'.nextId
  events : w.events = w'.events
  delivered : w.delivered = w'.delivered
  sigLocs : w.sigLocs = w'.sigLocs
  curLocs : w.curLocs = w'.curLocs
  startLoc : w.startLoc = w'.startLoc
  mainTok : w.mainTok = w'.mainTok

macro "vsim" h:ident : tactic =>
  `(tactic| (constructor <;>
      simp [($h).buf, ($h).stack, ($h).muted, ($h).anon, ($h).nextId, ($h).events, ($h).delivered,
            ($h).sigLocs, ($h).curLocs, ($h).startLoc, ($h).mainTok]))

def VOut {α : Type} (o o' : World × Except Err α) : Prop := VSim o.1 o'.1 ∧ o.2 = o'.2

theorem vresolve {w w' : World} (h : VSim w w') (l : LocRef) : w.resolve l = w'.resolve l := by
  cases l <;> simp [World.resolve, h.sigLocs, h.curLocs, h.startLoc]

theorem vtoTok {w w' : World} (h : VSim w w') (c : CTok) : w.toTok c = w'.toTok c := by
  simp [World.toTok, vresolve h]

theorem vmkEvent {w w' : World} (h : VSim w w') (k : EventKind) (b : Block) (p : Option Nat) :
    mkEvent w k b p = mkEvent w' k b p := by simp [mkEvent, vresolve h]

theorem mkEvent_congr (W w : World) (h1 : W.sigLocs = w.sigLocs) (h2 : W.curLocs = w.curLocs)
    (h3 : W.startLoc = w.startLoc) (k : EventKind) (b : Block) (p : Option Nat) :
    mkEvent W k b p = mkEvent w k b p := by
  have : ∀ l, W.resolve l = w.resolve l := by intro l; cases l <;> simp [World.resolve, h1, h2, h3]
  simp [mkEvent, this]

theorem vdeliver (env : Env) (v : Bool) {w w' : World} (h : VSim w w') (e : Event) :
    VSim (deliver env w e).1 (deliver (env.withVerbose v) w' e).1 ∧
    (deliver env w e).2 = (deliver (env.withVerbose v) w' e).2 := by
  simp only [deliver, withVerbose_faultAt, ← h.muted, ← h.delivered]
  split
  · exact ⟨h, rfl⟩
  · split
    · exact ⟨by vsim h, rfl⟩
    · exact ⟨by vsim h, rfl⟩

theorem deliver_muted (env : Env) (w : World) (e : Event) (hm : w.muted = true) :
    deliver env w e = (w, none) := by simp [deliver, hm]

theorem deliver_faulting (env : Env) (w : World) (e : Event) (hm : w.muted = false)
    (hf : env.faultAt = some w.delivered) :
    deliver env w e = ({ w with events := w.events ++ [e], delivered := w.delivered + 1 }, some (.visitor w.delivered)) := by
  simp [deliver, hm, hf]

theorem deliver_passing (env : Env) (w : World) (e : Event) (hm : w.muted = false)
    (hf : ¬ env.faultAt = some w.delivered) :
    deliver env w e = ({ w with events := w.events ++ [e], delivered := w.delivered + 1 }, none) := by
  simp [deliver, hm, hf]

theorem vdeliver_then (env : Env) (v : Bool) {α : Type} {w w' : World} (h : VSim w w') (e : Event)
    (f : Env → World → World × Except Err α)
    (hf : ∀ w1 w1', VSim w1 w1' → VOut (f env w1) (f (env.withVerbose v) w1')) :
    VOut
      (match deliver env w e with
        | (w1, some err) => (w1, .error err)
        | (w1, none) => f env w1)
      (match deliver (env.withVerbose v) w' e with
        | (w1, some err) => (w1, .error err)
        | (w1, none) => f (env.withVerbose v) w1) := by
  cases hm : w.muted with
  | true =>
    have hm' : w'.muted = true := by rw [← h.muted]; exact hm
    rw [deliver_muted env w e hm, deliver_muted _ w' e hm']
    exact hf _ _ h
  | false =>
    have hm' : w'.muted = false := by rw [← h.muted]; exact hm
    by_cases hfa : env.faultAt = some w.delivered
    · have hfa' : (env.withVerbose v).faultAt = some w'.delivered := by rw [← h.delivered]; exact hfa
      rw [deliver_faulting env w e hm hfa, deliver_faulting _ w' e hm' hfa']
      exact ⟨by vsim h, by simp [h.delivered]⟩
    · have hfa' : ¬ (env.withVerbose v).faultAt = some w'.delivered := by rw [← h.delivered]; exact hfa
      rw [deliver_passing env w e hm hfa, deliver_passing _ w' e hm' hfa']
      apply hf; vsim h

theorem verbose_sim (env : Env) (v : Bool) {α : Type} (p : Prog α) :
    ∀ w w', VSim w w' → VOut (interp env p w) (interp (env.withVerbose v) p w') := by
  induction p with
  | pure a => intro w w' h; exact ⟨h, rfl⟩
  | fail e => intro w w' h; exact ⟨h, rfl⟩
  | next nl k ih =>
    intro w w' h
    simp only [interp, withVerbose_cfg, ← h.buf]
    split
    · exact ⟨h, rfl⟩
    · apply ih; vsim h
    · simp only [World.handOut, ← h.sigLocs]
      split
      · apply ih; vsim h
      · apply ih; vsim h
  | unread ts k ih =>
    intro w w' h
    simp only [interp]
    have : ts.map w.toTok = ts.map w'.toTok := List.map_congr_left (fun c _ => vtoTok h c)
    rw [this]
    apply ih; vsim h
  | curLoc k ih =>
    intro w w' h
    simp only [interp, ← h.buf, ← h.curLocs]
    split
    · exact ⟨h, rfl⟩
    · apply ih; vsim h
  | dox after k ih =>
    intro w w' h
    simp only [interp, withVerbose_cfg, withVerbose_mcRe, ← h.buf]
    split
    · apply ih; vsim h
    · split
      · exact ⟨h, rfl⟩
      · apply ih; vsim h
  | top k ih =>
    intro w w' h
    simp only [interp, ← h.stack]
    split
    · exact ⟨h, rfl⟩
    · exact ih _ _ _ h
  | setAccess a k ih =>
    intro w w' h
    simp only [interp, ← h.stack]
    split
    · exact ⟨h, rfl⟩
    · apply ih; vsim h
  | setLoc l k ih =>
    intro w w' h
    simp only [interp, ← h.stack]
    split
    · exact ⟨h, rfl⟩
    · apply ih; vsim h
  | fresh k ih =>
    intro w w' h
    simp only [interp, ← h.anon]
    apply ih; vsim h
  | opt k ih => intro w w' h; simp only [interp, withVerbose_convert]; exact ih _ _ _ h
  | debug m k ih =>
    intro w w' h
    simp only [interp]
    apply ih
    split <;> split <;> vsim h
  | note t k ih => intro w w' h; simp only [interp]; apply ih; vsim h
  | emit p k ih =>
    intro w w' h
    simp only [interp, ← h.stack]
    split
    · exact ⟨h, rfl⟩
    · rw [vmkEvent h]
      exact vdeliver_then env v h _ (fun env w1 => interp env k w1) (fun w1 w1' hs => ih w1 w1' hs)
  | pop k ih =>
    intro w w' h
    simp only [interp, ← h.stack]
    split
    · exact ⟨h, rfl⟩
    · rename_i blk rest _
      split
      · exact ⟨h, rfl⟩
      · rw [vmkEvent h]
        exact vdeliver_then env v h _
          (fun env w1 => interp env (k blk.view) { w1 with muted := blk.priorMuted, stack := rest })
          (fun w1 w1' hs => ih _ _ _ (by vsim hs))
  | push hdr k ih =>
    intro w w' h
    simp only [interp, withVerbose_skip, ← h.nextId, ← h.muted, ← h.stack]
    have e2 : mkEvent { w' with stack := { id := w.nextId, hdr := hdr, loc := hdr.loc, access := hdr.access, priorMuted := w.muted } :: w.stack, muted := w.muted, nextId := w.nextId + 1 }
          .blockStart { id := w.nextId, hdr := hdr, loc := hdr.loc, access := hdr.access, priorMuted := w.muted } (w.stack.head?.map (·.id)) =
        mkEvent { w with stack := { id := w.nextId, hdr := hdr, loc := hdr.loc, access := hdr.access, priorMuted := w.muted } :: w.stack, nextId := w.nextId + 1 }
          .blockStart { id := w.nextId, hdr := hdr, loc := hdr.loc, access := hdr.access, priorMuted := w.muted } (w.stack.head?.map (·.id)) :=
      mkEvent_congr _ _ h.sigLocs.symm h.curLocs.symm h.startLoc.symm _ _ _
    rw [e2]
    refine vdeliver_then env v (by vsim h) _
      (fun env' w2 => interp env' k (if !w2.muted && env.skip w.nextId hdr then { w2 with muted := true } else w2))
      (fun w1 w1' hs => ih _ _ (by rw [← hs.muted]; split <;> vsim hs))
  | bounded ts body k ihb ihk =>
    intro w w' h
    simp only [interp]
    have : ts.map w.toTok = ts.map w'.toTok := List.map_congr_left (fun c _ => vtoTok h c)
    rw [this]
    have hin : VSim { w with buf := { tokbuf := ts.map w'.toTok, lex := { rest := [] }, bounded := true } }
        { w' with buf := { tokbuf := ts.map w'.toTok, lex := { rest := [] }, bounded := true } } := by vsim h
    obtain ⟨hs, hr⟩ := ihb _ _ hin
    rcases h1 : interp env body { w with buf := { tokbuf := ts.map w'.toTok, lex := { rest := [] }, bounded := true } } with ⟨w1, r1⟩
    rcases h2 : interp (env.withVerbose v) body { w' with buf := { tokbuf := ts.map w'.toTok, lex := { rest := [] }, bounded := true } } with ⟨w1', r1'⟩
    simp only [h1, h2] at hs hr ⊢
    subst hr
    have hb := h.buf
    cases r1 with
    | ok g => simp only [← hs.buf]; apply ihk; vsim hs; exact hb
    | error e =>
      simp only [← hs.buf]
      split
      · apply ihk; vsim hs; exact hb
      · refine ⟨?_, rfl⟩; vsim hs; exact hb

end Cxx
