/-
  Theorems/Layout.lean — the parser observes the text only through the stream operations.

  `StreamBisim env R`: `R` relates two token-stream states that no stream operation can tell
  apart — every operation of the interface (`token_eof_ok`, `token_newline_eof_ok`,
  push-back, `current_location`, `get_doxygen`, `get_doxygen_after`, bounded sub-streams)
  gives the same tokens (type, text, identity) and the same doc text on both and leads to
  `R`-related states again.  Locations may differ.

  `layout_sim`: for EVERY client program, running it from two worlds whose streams are
  `R`-related and whose parser states agree gives the same result, the same callbacks with
  the same payloads in the same order (only the resolved `location` of an event may differ),
  the same block stack and counters, and `R`-related streams at the end.  So whatever the
  two texts are — different blanks, comments, line splits, line numbers — if the stream
  operations cannot distinguish them, neither can any parser written against the interface.
-/
import CxxModel.Interp
import CxxModel.Theorems.Verbose
namespace Cxx

def TokEq (t1 t2 : Tok) : Prop := t1.type = t2.type ∧ t1.value = t2.value ∧ t1.sidx = t2.sidx

/-- pointwise `TokEq` -/
inductive TokEqL : List Tok → List Tok → Prop
  | nil : TokEqL [] []
  | cons {t1 t2 : Tok} {l1 l2 : List Tok} : TokEq t1 t2 → TokEqL l1 l2 → TokEqL (t1 :: l1) (t2 :: l2)

/-- errors agree, except that two lexer errors (which quote a line number) only need to be
    lexer errors both -/
def ErrRel (e1 e2 : Err) : Prop := e1 = e2 ∨ (∃ l1 l2, e1 = .lex l1 ∧ e2 = .lex l2)

theorem ErrRel.refl (e : Err) : ErrRel e e := .inl rfl

theorem ErrRel.catchable {e1 e2 : Err} (h : ErrRel e1 e2) : catchable e1 = catchable e2 := by
  rcases h with rfl | ⟨l1, l2, rfl, rfl⟩
  · rfl
  · rfl

def Event.noLoc (e : Event) : Event := { e with loc := default }

def nextOp (cfg : LexCfg) (nl : Bool) (b : Buf) : Except Err (Option Tok × Buf) :=
  if nl then tokenNewlineEofOk cfg b else tokenEofOk cfg b

def NextRel (R : Buf → Buf → Prop) (r1 r2 : Except Err (Option Tok × Buf)) : Prop :=
  match r1, r2 with
  | .error e1, .error e2 => ErrRel e1 e2
  | .ok (none, b1), .ok (none, b2) => R b1 b2
  | .ok (some t1, b1), .ok (some t2, b2) => TokEq t1 t2 ∧ R b1 b2
  | _, _ => False

def LocRel (r1 r2 : Except Err Location) : Prop :=
  match r1, r2 with
  | .ok _, .ok _ => True
  | .error e1, .error e2 => ErrRel e1 e2
  | _, _ => False

def DoxRel (R : Buf → Buf → Prop) (r1 r2 : Except Err (Option String × Buf)) : Prop :=
  match r1, r2 with
  | .ok (d1, b1), .ok (d2, b2) => d1 = d2 ∧ R b1 b2
  | .error e1, .error e2 => ErrRel e1 e2
  | _, _ => False

def boundedBuf (ts : List Tok) : Buf := { tokbuf := ts, lex := { rest := [] }, bounded := true }

/-- `R` is a bisimulation for the stream interface -/
structure StreamBisim (env : Env) (R : Buf → Buf → Prop) : Prop where
  next : ∀ (nl : Bool) (b1 b2 : Buf), R b1 b2 → NextRel R (nextOp env.cfg nl b1) (nextOp env.cfg nl b2)
  unread : ∀ (ts1 ts2 : List Tok) (b1 b2 : Buf), R b1 b2 → TokEqL ts1 ts2 →
    R (returnTokens ts1 b1) (returnTokens ts2 b2)
  curLoc : ∀ (b1 b2 : Buf), R b1 b2 → LocRel (currentLocation b1) (currentLocation b2)
  dox : ∀ (b1 b2 : Buf), R b1 b2 → DoxRel R (getDoxygen env.cfg env.mcRe b1) (getDoxygen env.cfg env.mcRe b2)
  doxAfter : ∀ (b1 b2 : Buf), R b1 b2 →
    (getDoxygenAfter env.mcRe b1).1 = (getDoxygenAfter env.mcRe b2).1 ∧
    R (getDoxygenAfter env.mcRe b1).2 (getDoxygenAfter env.mcRe b2).2
  bounded : ∀ (ts1 ts2 : List Tok), TokEqL ts1 ts2 → R (boundedBuf ts1) (boundedBuf ts2)
  hasTokens : ∀ (b1 b2 : Buf), R b1 b2 → b1.bounded = true → b1.tokbuf.isEmpty = b2.tokbuf.isEmpty

/-- parser states agree; streams are `R`-related; location tables have the same shape -/
structure LSim (R : Buf → Buf → Prop) (w1 w2 : World) : Prop where
  buf : R w1.buf w2.buf
  stack : w1.stack = w2.stack
  muted : w1.muted = w2.muted
  anon : w1.anon = w2.anon
  nextId : w1.nextId = w2.nextId
  events : w1.events.map Event.noLoc = w2.events.map Event.noLoc
  delivered : w1.delivered = w2.delivered
  sigLen : w1.sigLocs.length = w2.sigLocs.length
  curLen : w1.curLocs.length = w2.curLocs.length
  debugLog : w1.debugLog = w2.debugLog
  mainTok : w1.mainTok = w2.mainTok

def ResRel {α : Type} (r1 r2 : Except Err α) : Prop :=
  match r1, r2 with
  | .ok a, .ok b => a = b
  | .error e1, .error e2 => ErrRel e1 e2
  | _, _ => False

def LOut (R : Buf → Buf → Prop) {α : Type} (o1 o2 : World × Except Err α) : Prop :=
  LSim R o1.1 o2.1 ∧ ResRel o1.2 o2.2

theorem ResRel.err {α : Type} {e1 e2 : Err} (h : ErrRel e1 e2) : ResRel (α := α) (.error e1) (.error e2) := h

/-! ### the `bounded` flag of the stream is never changed by running a program -/

theorem fill_flag {cfg : LexCfg} {b b' : Buf} {x : Bool} (h : fill cfg b = .ok (x, b')) : b'.bounded = b.bounded := by
  unfold fill at h
  split at h
  · cases h
  · split at h
    · cases h; rfl
    · cases h
    · cases h
    · split at h
      · cases h
      · cases h; rfl

theorem nextTok_flag (cfg : LexCfg) (disc : String → Bool) : ∀ (fuel : Nat) (b b' : Buf) (o : Option Tok),
    nextTok cfg disc fuel b = .ok (o, b') → b'.bounded = b.bounded := by
  intro fuel
  induction fuel with
  | zero => intro b b' o h; simp [nextTok] at h
  | succ n ih =>
    intro b b' o h
    simp only [nextTok] at h
    split at h
    · cases h; rfl
    · split at h
      · cases h
      · rename_i hf
        cases h
        have := fill_flag hf
        exact this
      · rename_i hf
        have := fill_flag hf
        rw [ih _ _ _ h, this]

theorem nextOp_flag {cfg : LexCfg} {nl : Bool} {b b' : Buf} {o : Option Tok}
    (h : nextOp cfg nl b = .ok (o, b')) : b'.bounded = b.bounded := by
  unfold nextOp at h
  split at h
  · exact nextTok_flag _ _ _ _ _ _ h
  · exact nextTok_flag _ _ _ _ _ _ h

theorem getDoxygenLoop_flag (cfg : LexCfg) (mcRe : Re) : ∀ (fuel : Nat) (cs : List Tok) (b b' : Buf) (d : Option String),
    getDoxygenLoop cfg mcRe fuel cs b = .ok (d, b') → b'.bounded = b.bounded := by
  intro fuel
  induction fuel with
  | zero => intro cs b b' d h; simp [getDoxygenLoop] at h
  | succ n ih =>
    intro cs b b' d h
    simp only [getDoxygenLoop] at h
    split at h
    · cases h; rfl
    · split at h
      · cases h
      · rename_i hf
        cases h
        have := fill_flag hf
        exact this
      · rename_i hf
        have := fill_flag hf
        rw [ih _ _ _ _ h, this]

theorem getDoxygen_flag {cfg : LexCfg} {mcRe : Re} {b b' : Buf} {d : Option String}
    (h : getDoxygen cfg mcRe b = .ok (d, b')) : b'.bounded = b.bounded := by
  unfold getDoxygen at h
  split at h
  · cases h; rfl
  · split at h
    · split at h
      · cases h
      · rename_i hf; cases h; exact fill_flag hf
      · rename_i hf; rw [getDoxygenLoop_flag _ _ _ _ _ _ _ h, fill_flag hf]
    · exact getDoxygenLoop_flag _ _ _ _ _ _ _ h

theorem getDoxygenAfter_flag (mcRe : Re) (b : Buf) : (getDoxygenAfter mcRe b).2.bounded = b.bounded := by
  unfold getDoxygenAfter
  split
  · rfl
  · split
    · rfl
    · rfl

theorem deliver_buf (env : Env) (w : World) (ev : Event) : (deliver env w ev).1.buf = w.buf := by
  simp only [deliver]; split <;> (try split) <;> rfl

theorem deliver_buf_eq {env : Env} {w w' : World} {ev : Event} {o : Option Err} (h : deliver env w ev = (w', o)) :
    w'.buf = w.buf := by
  have := deliver_buf env w ev
  rw [h] at this
  exact this

theorem interp_flag (env : Env) {α : Type} (p : Prog α) : ∀ w, (interp env p w).1.buf.bounded = w.buf.bounded := by
  induction p with
  | pure a => intro w; rfl
  | fail e => intro w; rfl
  | next nl k ih =>
    intro w
    simp only [interp]
    have key : ∀ r, nextOp env.cfg nl w.buf = r →
        (match r with
          | .error e => (w, Except.error e)
          | .ok (none, b) => interp env (k none) { w with buf := b }
          | .ok (some t, b) => interp env (k (some (({ w with buf := b } : World).handOut t).1)) (({ w with buf := b } : World).handOut t).2).1.buf.bounded = w.buf.bounded := by
      intro r hr
      cases r with
      | error e => rfl
      | ok x =>
        obtain ⟨o, b⟩ := x
        cases o with
        | none => simp only; rw [ih]; exact nextOp_flag hr
        | some t =>
          simp only
          rw [ih]
          have : (({ w with buf := b } : World).handOut t).2.buf = b := by
            unfold World.handOut; split <;> rfl
          rw [this]; exact nextOp_flag hr
    exact key _ rfl
  | unread ts k ih => intro w; simp only [interp]; rw [ih]; rfl
  | curLoc k ih =>
    intro w; simp only [interp]
    split
    · rfl
    · rw [ih]
  | dox after k ih =>
    intro w; simp only [interp]
    split
    · rw [ih]; exact getDoxygenAfter_flag _ _
    · split
      · rfl
      · rename_i hd; rw [ih]; exact getDoxygen_flag hd
  | push h k ih =>
    intro w; simp only [interp]
    split
    · rename_i hd
      have := deliver_buf_eq hd; exact congrArg Buf.bounded this
    · rename_i hd
      have := deliver_buf_eq hd
      rw [ih]
      split <;> exact congrArg Buf.bounded this
  | pop k ih =>
    intro w; simp only [interp]
    split
    · rfl
    · split
      · rfl
      · split
        · rename_i hd
          have := deliver_buf_eq hd; exact congrArg Buf.bounded this
        · rename_i hd
          have := deliver_buf_eq hd
          rw [ih]; exact congrArg Buf.bounded this
  | emit p k ih =>
    intro w; simp only [interp]
    split
    · rfl
    · split
      · rename_i hd
        have := deliver_buf_eq hd; exact congrArg Buf.bounded this
      · rename_i hd
        have := deliver_buf_eq hd
        rw [ih]; exact congrArg Buf.bounded this
  | top k ih =>
    intro w; simp only [interp]
    split
    · rfl
    · rw [ih]
  | setAccess a k ih =>
    intro w; simp only [interp]
    split
    · rfl
    · rw [ih]
  | setLoc l k ih =>
    intro w; simp only [interp]
    split
    · rfl
    · rw [ih]
  | fresh k ih => intro w; simp only [interp]; rw [ih]
  | bounded ts body k _ ihk =>
    intro w; simp only [interp]
    split
    · rw [ihk]
    · split
      · rw [ihk]
      · rfl
  | opt k ih => intro w; simp only [interp]; rw [ih]
  | debug m k ih => intro w; simp only [interp]; rw [ih]; split <;> rfl
  | note t k ih => intro w; simp only [interp]; rw [ih]


/-! ### the simulation -/

theorem TokEqL.isEmpty {l1 l2 : List Tok} (h : TokEqL l1 l2) : l1.isEmpty = l2.isEmpty := by
  cases h <;> rfl

theorem toTok_eqL (w1 w2 : World) (ts : List CTok) : TokEqL (ts.map w1.toTok) (ts.map w2.toTok) := by
  induction ts with
  | nil => exact .nil
  | cons c cs ih => exact .cons ⟨rfl, rfl, rfl⟩ ih

theorem mkEvent_noLoc (w1 w2 : World) (k : EventKind) (b : Block) (p : Option Nat) :
    (mkEvent w1 k b p).noLoc = (mkEvent w2 k b p).noLoc := rfl

theorem handOut_lsim {R : Buf → Buf → Prop} {w1 w2 : World} (h : LSim R w1 w2) {t1 t2 : Tok} (ht : TokEq t1 t2) :
    (w1.handOut t1).1 = (w2.handOut t2).1 ∧ LSim R (w1.handOut t1).2 (w2.handOut t2).2 := by
  obtain ⟨hty, hval, hsx⟩ := ht
  unfold World.handOut
  by_cases h0 : t1.sidx = 0
  · have h0' : t2.sidx = 0 := by rw [← hsx]; exact h0
    simp only [h0, h0', ↓reduceIte, hty, hval, h.sigLen, true_and]
    exact ⟨h.buf, h.stack, h.muted, h.anon, h.nextId, h.events, h.delivered, by simp [h.sigLen], h.curLen, h.debugLog, h.mainTok⟩
  · have h0' : ¬ t2.sidx = 0 := by rw [← hsx]; exact h0
    simp only [h0, h0', ↓reduceIte, hty, hval, hsx, true_and]
    exact h

theorem ldeliver_then (env : Env) (R : Buf → Buf → Prop) {α : Type} {w1 w2 : World} (h : LSim R w1 w2)
    (e1 e2 : Event) (he : e1.noLoc = e2.noLoc)
    (f1 f2 : World → World × Except Err α)
    (hf : ∀ a b, LSim R a b → LOut R (f1 a) (f2 b)) :
    LOut R
      (match deliver env w1 e1 with
        | (w', some err) => (w', .error err)
        | (w', none) => f1 w')
      (match deliver env w2 e2 with
        | (w', some err) => (w', .error err)
        | (w', none) => f2 w') := by
  cases hm : w1.muted with
  | true =>
    have hm' : w2.muted = true := by rw [← h.muted]; exact hm
    rw [deliver_muted env w1 e1 hm, deliver_muted env w2 e2 hm']
    exact hf _ _ h
  | false =>
    have hm' : w2.muted = false := by rw [← h.muted]; exact hm
    have hs : LSim R { w1 with events := w1.events ++ [e1], delivered := w1.delivered + 1 }
        { w2 with events := w2.events ++ [e2], delivered := w2.delivered + 1 } :=
      ⟨h.buf, h.stack, h.muted, h.anon, h.nextId, by simp [h.events, he], by simp [h.delivered], h.sigLen, h.curLen,
        h.debugLog, h.mainTok⟩
    by_cases hfa : env.faultAt = some w1.delivered
    · have hfa' : env.faultAt = some w2.delivered := by rw [← h.delivered]; exact hfa
      rw [deliver_faulting env w1 e1 hm hfa, deliver_faulting env w2 e2 hm' hfa']
      exact ⟨hs, by rw [h.delivered]; exact ErrRel.refl _⟩
    · have hfa' : ¬ env.faultAt = some w2.delivered := by rw [← h.delivered]; exact hfa
      rw [deliver_passing env w1 e1 hm hfa, deliver_passing env w2 e2 hm' hfa']
      exact hf _ _ hs

theorem layout_sim (env : Env) (R : Buf → Buf → Prop) (hR : StreamBisim env R) {α : Type} (p : Prog α) :
    ∀ w1 w2, LSim R w1 w2 → LOut R (interp env p w1) (interp env p w2) := by
  induction p with
  | pure a => intro w1 w2 h; exact ⟨h, rfl⟩
  | fail e => intro w1 w2 h; exact ⟨h, ErrRel.refl e⟩
  | next nl k ih =>
    intro w1 w2 h
    have hn := hR.next nl _ _ h.buf
    simp only [interp]
    simp only [nextOp] at hn
    generalize (if nl = true then tokenNewlineEofOk env.cfg w1.buf else tokenEofOk env.cfg w1.buf) = r1 at hn ⊢
    generalize (if nl = true then tokenNewlineEofOk env.cfg w2.buf else tokenEofOk env.cfg w2.buf) = r2 at hn ⊢
    cases r1 with
    | error e1 =>
      cases r2 with
      | error e2 => exact ⟨h, hn⟩
      | ok x2 => obtain ⟨o2, b2⟩ := x2; cases o2 <;> simp [NextRel] at hn
    | ok x1 =>
      obtain ⟨o1, b1⟩ := x1
      cases r2 with
      | error e2 => cases o1 <;> simp [NextRel] at hn
      | ok x2 =>
        obtain ⟨o2, b2⟩ := x2
        cases o1 with
        | none =>
          cases o2 with
          | some t2 => simp [NextRel] at hn
          | none =>
            simp only [NextRel] at hn
            exact ih _ _ _ ⟨hn, h.stack, h.muted, h.anon, h.nextId, h.events, h.delivered, h.sigLen, h.curLen, h.debugLog, h.mainTok⟩
        | some t1 =>
          cases o2 with
          | none => simp [NextRel] at hn
          | some t2 =>
            simp only [NextRel] at hn
            have hs : LSim R { w1 with buf := b1 } { w2 with buf := b2 } :=
              ⟨hn.2, h.stack, h.muted, h.anon, h.nextId, h.events, h.delivered, h.sigLen, h.curLen, h.debugLog, h.mainTok⟩
            obtain ⟨hc, hw⟩ := handOut_lsim hs hn.1
            simp only
            rw [hc]
            exact ih _ _ _ hw
  | unread ts k ih =>
    intro w1 w2 h
    simp only [interp]
    apply ih
    exact ⟨hR.unread _ _ _ _ h.buf (toTok_eqL w1 w2 ts), h.stack, h.muted, h.anon, h.nextId, h.events, h.delivered,
      h.sigLen, h.curLen, h.debugLog, h.mainTok⟩
  | curLoc k ih =>
    intro w1 w2 h
    have hl := hR.curLoc _ _ h.buf
    simp only [interp]
    generalize currentLocation w1.buf = r1 at hl ⊢
    generalize currentLocation w2.buf = r2 at hl ⊢
    cases r1 with
    | error e1 =>
      cases r2 with
      | error e2 => exact ⟨h, hl⟩
      | ok l2 => simp [LocRel] at hl
    | ok l1 =>
      cases r2 with
      | error e2 => simp [LocRel] at hl
      | ok l2 =>
        simp only [h.curLen]
        apply ih
        exact ⟨h.buf, h.stack, h.muted, h.anon, h.nextId, h.events, h.delivered, h.sigLen, by simp [h.curLen], h.debugLog, h.mainTok⟩
  | dox after k ih =>
    intro w1 w2 h
    simp only [interp]
    by_cases ha : after = true
    · simp only [ha, ↓reduceIte]
      obtain ⟨hd, hb⟩ := hR.doxAfter _ _ h.buf
      rw [hd]
      apply ih
      exact ⟨hb, h.stack, h.muted, h.anon, h.nextId, h.events, h.delivered, h.sigLen, h.curLen, h.debugLog, h.mainTok⟩
    · simp only [ha, Bool.false_eq_true, ↓reduceIte]
      have hd := hR.dox _ _ h.buf
      generalize getDoxygen env.cfg env.mcRe w1.buf = r1 at hd ⊢
      generalize getDoxygen env.cfg env.mcRe w2.buf = r2 at hd ⊢
      cases r1 with
      | error e1 =>
        cases r2 with
        | error e2 => exact ⟨h, hd⟩
        | ok x2 => simp [DoxRel] at hd
      | ok x1 =>
        cases r2 with
        | error e2 => simp [DoxRel] at hd
        | ok x2 =>
          obtain ⟨d1, b1⟩ := x1
          obtain ⟨d2, b2⟩ := x2
          simp only [DoxRel] at hd
          simp only [hd.1]
          apply ih
          exact ⟨hd.2, h.stack, h.muted, h.anon, h.nextId, h.events, h.delivered, h.sigLen, h.curLen, h.debugLog, h.mainTok⟩
  | top k ih =>
    intro w1 w2 h
    simp only [interp, ← h.stack]
    split
    · exact ⟨h, ErrRel.refl _⟩
    · exact ih _ _ _ h
  | setAccess a k ih =>
    intro w1 w2 h
    simp only [interp, ← h.stack]
    split
    · exact ⟨h, ErrRel.refl _⟩
    · apply ih
      exact ⟨h.buf, rfl, h.muted, h.anon, h.nextId, h.events, h.delivered, h.sigLen, h.curLen, h.debugLog, h.mainTok⟩
  | setLoc l k ih =>
    intro w1 w2 h
    simp only [interp, ← h.stack]
    split
    · exact ⟨h, ErrRel.refl _⟩
    · apply ih
      exact ⟨h.buf, rfl, h.muted, h.anon, h.nextId, h.events, h.delivered, h.sigLen, h.curLen, h.debugLog, h.mainTok⟩
  | fresh k ih =>
    intro w1 w2 h
    simp only [interp, ← h.anon]
    apply ih
    exact ⟨h.buf, h.stack, h.muted, rfl, h.nextId, h.events, h.delivered, h.sigLen, h.curLen, h.debugLog, h.mainTok⟩
  | opt k ih => intro w1 w2 h; simp only [interp]; exact ih _ _ _ h
  | debug m k ih =>
    intro w1 w2 h
    simp only [interp]
    apply ih
    split
    · exact ⟨h.buf, h.stack, h.muted, h.anon, h.nextId, h.events, h.delivered, h.sigLen, h.curLen, by simp [h.debugLog], h.mainTok⟩
    · exact h
  | note t k ih =>
    intro w1 w2 h
    simp only [interp]
    apply ih
    exact ⟨h.buf, h.stack, h.muted, h.anon, h.nextId, h.events, h.delivered, h.sigLen, h.curLen, h.debugLog, rfl⟩
  | emit p k ih =>
    intro w1 w2 h
    simp only [interp, ← h.stack]
    split
    · exact ⟨h, ErrRel.refl _⟩
    · exact ldeliver_then env R h _ _ (mkEvent_noLoc _ _ _ _ _) _ _ (fun a b hs => ih a b hs)
  | pop k ih =>
    intro w1 w2 h
    simp only [interp, ← h.stack]
    split
    · exact ⟨h, ErrRel.refl _⟩
    · rename_i blk rest _
      split
      · exact ⟨h, ErrRel.refl _⟩
      · exact ldeliver_then env R h _ _ (mkEvent_noLoc _ _ _ _ _)
          (fun a => interp env (k blk.view) { a with muted := blk.priorMuted, stack := rest })
          (fun b => interp env (k blk.view) { b with muted := blk.priorMuted, stack := rest })
          (fun a b hs => ih _ _ _ ⟨hs.buf, rfl, rfl, hs.anon, hs.nextId, hs.events, hs.delivered, hs.sigLen, hs.curLen, hs.debugLog, hs.mainTok⟩)
  | push hdr k ih =>
    intro w1 w2 h
    simp only [interp, ← h.nextId, ← h.muted, ← h.stack]
    refine ldeliver_then env R (w1 := { w1 with stack := _ :: w1.stack, nextId := w1.nextId + 1 })
      (w2 := { w2 with stack := _ :: w1.stack, muted := w1.muted, nextId := w1.nextId + 1 })
      ⟨h.buf, rfl, rfl, h.anon, rfl, h.events, h.delivered, h.sigLen, h.curLen, h.debugLog, h.mainTok⟩
      _ _ (mkEvent_noLoc _ _ _ _ _)
      (fun a => interp env k (if !a.muted && env.skip w1.nextId hdr then { a with muted := true } else a))
      (fun b => interp env k (if !b.muted && env.skip w1.nextId hdr then { b with muted := true } else b))
      (fun a b hs => ih _ _ ?_)
    rw [← hs.muted]
    split
    · exact ⟨hs.buf, hs.stack, rfl, hs.anon, hs.nextId, hs.events, hs.delivered, hs.sigLen, hs.curLen, hs.debugLog, hs.mainTok⟩
    · exact hs
  | bounded ts body k ihb ihk =>
    intro w1 w2 h
    simp only [interp]
    have hin : LSim R { w1 with buf := boundedBuf (ts.map w1.toTok) } { w2 with buf := boundedBuf (ts.map w2.toTok) } :=
      ⟨hR.bounded _ _ (toTok_eqL w1 w2 ts), h.stack, h.muted, h.anon, h.nextId, h.events, h.delivered, h.sigLen, h.curLen,
        h.debugLog, h.mainTok⟩
    have hb := ihb _ _ hin
    have hfl := interp_flag env body { w1 with buf := boundedBuf (ts.map w1.toTok) }
    simp only [boundedBuf] at hb hfl
    rcases h1 : interp env body { w1 with buf := { tokbuf := ts.map w1.toTok, lex := { rest := [] }, bounded := true } } with ⟨a1, r1⟩
    rcases h2 : interp env body { w2 with buf := { tokbuf := ts.map w2.toTok, lex := { rest := [] }, bounded := true } } with ⟨a2, r2⟩
    simp only [h1, h2] at hb hfl ⊢
    obtain ⟨hs, hr⟩ := hb
    have hhas : a1.buf.tokbuf.isEmpty = a2.buf.tokbuf.isEmpty := hR.hasTokens _ _ hs.buf hfl
    have hrest : LSim R { a1 with buf := w1.buf } { a2 with buf := w2.buf } :=
      ⟨h.buf, hs.stack, hs.muted, hs.anon, hs.nextId, hs.events, hs.delivered, hs.sigLen, hs.curLen, hs.debugLog, hs.mainTok⟩
    cases r1 with
    | ok g1 =>
      cases r2 with
      | error e2 => simp [ResRel] at hr
      | ok g2 =>
        simp only [ResRel] at hr
        subst hr
        simp only [hhas]
        exact ihk _ _ _ hrest
    | error e1 =>
      cases r2 with
      | ok g2 => simp [ResRel] at hr
      | error e2 =>
        simp only [ResRel] at hr
        simp only [hr.catchable, hhas]
        split
        · exact ihk _ _ _ hrest
        · exact ⟨hrest, hr⟩


/-! ### an instance: pre-lexed (bounded) streams whose tokens differ only in their locations -/

/-- bounded streams holding the same tokens (type, text, identity); locations are free -/
def RBnd (b1 b2 : Buf) : Prop :=
  b1.bounded = true ∧ b2.bounded = true ∧ TokEqL b1.tokbuf b2.tokbuf

theorem TokEqL.append {a1 a2 b1 b2 : List Tok} (h1 : TokEqL a1 a2) (h2 : TokEqL b1 b2) : TokEqL (a1 ++ b1) (a2 ++ b2) := by
  induction h1 with
  | nil => exact h2
  | cons ht _ ih => exact .cons ht ih

def PopRel (r1 r2 : Option (Tok × List Tok)) : Prop :=
  match r1, r2 with
  | none, none => True
  | some (t1, l1), some (t2, l2) => TokEq t1 t2 ∧ TokEqL l1 l2
  | _, _ => False

theorem popSignificant_eqL (disc : String → Bool) {l1 l2 : List Tok} (h : TokEqL l1 l2) :
    PopRel (popSignificant disc l1) (popSignificant disc l2) := by
  induction h with
  | nil => simp [popSignificant, PopRel]
  | cons ht hl ih =>
    rename_i t1 t2 l1 l2
    simp only [popSignificant, ← ht.1]
    by_cases hd : disc t1.type = true
    · simp only [hd, ↓reduceIte]; exact ih
    · simp only [hd, Bool.false_eq_true, ↓reduceIte, PopRel]; exact ⟨ht, hl⟩

theorem fill_bounded (cfg : LexCfg) (b : Buf) (hb : b.bounded = true) :
    fill cfg b = .error (.parse "no more tokens left in this group" none) := by
  simp [fill, hb]

theorem nextTok_bnd (cfg : LexCfg) (disc : String → Bool) (n1 n2 : Nat) (b1 b2 : Buf) (h : RBnd b1 b2) :
    NextRel RBnd (nextTok cfg disc (n1 + 1) b1) (nextTok cfg disc (n2 + 1) b2) := by
  obtain ⟨hb1, hb2, hl⟩ := h
  have hp := popSignificant_eqL disc hl
  simp only [nextTok]
  cases h1 : popSignificant disc b1.tokbuf with
  | none =>
    cases h2 : popSignificant disc b2.tokbuf with
    | some x => simp [h1, h2, PopRel] at hp
    | none =>
      simp only [fill_bounded cfg { b1 with tokbuf := [] } hb1, fill_bounded cfg { b2 with tokbuf := [] } hb2, NextRel]
      exact ErrRel.refl _
  | some x1 =>
    cases h2 : popSignificant disc b2.tokbuf with
    | none => simp [h1, h2, PopRel] at hp
    | some x2 =>
      obtain ⟨t1, r1⟩ := x1
      obtain ⟨t2, r2⟩ := x2
      simp only [h1, h2, PopRel] at hp
      simp only [NextRel]
      exact ⟨hp.1, hb1, hb2, hp.2⟩

theorem rbnd_bisim (env : Env) : StreamBisim env RBnd where
  next := by
    intro nl b1 b2 h
    unfold nextOp tokenNewlineEofOk tokenEofOk fuelFor
    split
    · exact nextTok_bnd _ _ _ _ _ _ h
    · exact nextTok_bnd _ _ _ _ _ _ h
  unread := by
    intro ts1 ts2 b1 b2 h hts
    exact ⟨h.1, h.2.1, TokEqL.append hts h.2.2⟩
  curLoc := by
    intro b1 b2 h
    obtain ⟨hb1, hb2, hl⟩ := h
    unfold currentLocation
    cases h1 : b1.tokbuf with
    | nil =>
      cases h2 : b2.tokbuf with
      | nil => simp only [hb1, hb2, ↓reduceIte, LocRel]; exact ErrRel.refl _
      | cons t2 r2 => rw [h1, h2] at hl; cases hl
    | cons t1 r1 =>
      cases h2 : b2.tokbuf with
      | nil => rw [h1, h2] at hl; cases hl
      | cons t2 r2 => simp only [LocRel]
  dox := by
    intro b1 b2 h
    simp only [getDoxygen, h.1, h.2.1, ↓reduceIte, DoxRel]
    exact ⟨trivial, h⟩
  doxAfter := by
    intro b1 b2 h
    simp only [getDoxygenAfter, h.1, h.2.1, ↓reduceIte]
    exact ⟨trivial, h⟩
  bounded := by
    intro ts1 ts2 h
    exact ⟨rfl, rfl, h⟩
  hasTokens := by
    intro b1 b2 h _
    exact h.2.2.isEmpty

end Cxx
