/-
  Theorems/Layout.lean — the parser observes the text only through the stream operations.

  `StreamBisim env R`: `R` relates two token-stream states that no stream operation can tell
  apart — every operation of the interface (`token_eof_ok`, `token_newline_eof_ok`,
  push-back, `current_location`, `get_doxygen`, `get_doxygen_after`, bounded sub-streams)
  gives the same tokens (type, text, identity) and the same doc text on both and leads to
  `R`-related states again.  Locations may differ.

  `layout_sim`: for EVERY client program, running it from two worlds whose streams are
  `R`-related and whose parser states agree gives the same result, the same callbacks with
  the same payloads in the same order (only the resolved `location` of an event may differ),
  the same block stack and counters, and `R`-related streams at the end.  So whatever the
  two texts are — different blanks, comments, line splits, line numbers — if the stream
  operations cannot distinguish them, neither can any parser written against the interface.
-/
import CxxModel.Interp
import CxxModel.Theorems.Verbose
namespace Cxx

def TokEq (t1 t2 : Tok) : Prop := t1.type = t2.type ∧ t1.value = t2.value ∧ t1.sidx = t2.sidx

/-- pointwise `TokEq` -/
inductive TokEqL : List Tok → List Tok → Prop
  | nil : TokEqL [] []
  | cons {t1 t2 : Tok} {l1 l2 : List Tok} : TokEq t1 t2 → TokEqL l1 l2 → TokEqL (t1 :: l1) (t2 :: l2)

/-- errors agree, except that two lexer errors (which quote a line number) only need to be
    lexer errors both -/
def ErrRel (e1 e2 : Err) : Prop := e1 = e2 ∨ (∃ l1 l2, e1 = .lex l1 ∧ e2 = .lex l2)

theorem ErrRel.refl (e : Err) : ErrRel e e := .inl rfl

theorem ErrRel.catchable {e1 e2 : Err} (h : ErrRel e1 e2) : catchable e1 = catchable e2 := by
  rcases h with rfl | ⟨l1, l2, rfl, rfl⟩
  · rfl
  · rfl

def Event.noLoc (e : Event) : Event := { e with loc := default }

def nextOp (cfg : LexCfg) (nl : Bool) (b : Buf) : Except Err (Option Tok × Buf) :=
  if nl then tokenNewlineEofOk cfg b else tokenEofOk cfg b

def NextRel (R : Buf → Buf → Prop) (r1 r2 : Except Err (Option Tok × Buf)) : Prop :=
  match r1, r2 with
  | .error e1, .error e2 => ErrRel e1 e2
  | .ok (none, b1), .ok (none, b2) => R b1 b2
  | .ok (some t1, b1), .ok (some t2, b2) => TokEq t1 t2 ∧ R b1 b2
  | _, _ => False

def LocRel (r1 r2 : Except Err Location) : Prop :=
  match r1, r2 with
  | .ok _, .ok _ => True
  | .error e1, .error e2 => ErrRel e1 e2
  | _, _ => False

def DoxRel (R : Buf → Buf → Prop) (r1 r2 : Except Err (Option String × Buf)) : Prop :=
  match r1, r2 with
  | .ok (d1, b1), .ok (d2, b2) => d1 = d2 ∧ R b1 b2
  | .error e1, .error e2 => ErrRel e1 e2
  | _, _ => False

def boundedBuf (ts : List Tok) : Buf := { tokbuf := ts, lex := { rest := [] }, bounded := true }

/-- `R` is a bisimulation for the stream interface -/
structure StreamBisim (env : Env) (R : Buf → Buf → Prop) : Prop where
  next : ∀ (nl : Bool) (b1 b2 : Buf), R b1 b2 → NextRel R (nextOp env.cfg nl b1) (nextOp env.cfg nl b2)
  unread : ∀ (ts1 ts2 : List Tok) (b1 b2 : Buf), R b1 b2 → TokEqL ts1 ts2 →
    R (returnTokens ts1 b1) (returnTokens ts2 b2)
  curLoc : ∀ (b1 b2 : Buf), R b1 b2 → LocRel (currentLocation b1) (currentLocation b2)
  dox : ∀ (b1 b2 : Buf), R b1 b2 → DoxRel R (getDoxygen env.cfg env.mcRe b1) (getDoxygen env.cfg env.mcRe b2)
  doxAfter : ∀ (b1 b2 : Buf), R b1 b2 →
    (getDoxygenAfter env.mcRe b1).1 = (getDoxygenAfter env.mcRe b2).1 ∧
    R (getDoxygenAfter env.mcRe b1).2 (getDoxygenAfter env.mcRe b2).2
  bounded : ∀ (ts1 ts2 : List Tok), TokEqL ts1 ts2 → R (boundedBuf ts1) (boundedBuf ts2)
  hasTokens : ∀ (b1 b2 : Buf), R b1 b2 → b1.bounded = true → b1.tokbuf.isEmpty = b2.tokbuf.isEmpty

/-- parser states agree; streams are `R`-related; location tables have the same shape -/
structure LSim (R : Buf → Buf → Prop) (w1 w2 : World) : Prop where
  buf : R w1.buf w2.buf
  stack : w1.stack = w2.stack
  muted : w1.muted = w2.muted
  anon : w1.anon = w2.anon
  nextId : w1.nextId = w2.nextId
  events : w1.events.map Event.noLoc = w2.events.map Event.noLoc
  delivered : w1.delivered = w2.delivered
  sigLen : w1.sigLocs.length = w2.sigLocs.length
  curLen : w1.curLocs.length = w2.curLocs.length
  debugLog : w1.debugLog = w2.debugLog
  mainTok : w1.mainTok = w2.mainTok

def ResRel {α : Type} (r1 r2 : Except Err α) : Prop :=
  match r1, r2 with
  | .ok a, .ok b => a = b
  | .error e1, .error e2 => ErrRel e1 e2
  | _, _ => False

def LOut (R : Buf → Buf → Prop) {α : Type} (o1 o2 : World × Except Err α) : Prop :=
  LSim R o1.1 o2.1 ∧ ResRel o1.2 o2.2

theorem ResRel.err {α : Type} {e1 e2 : Err} (h : ErrRel e1 e2) : ResRel (α := α) (.error e1) (.error e2) := h

/-! ### the `bounded` flag of the stream is never changed by running a program -/

theorem fill_flag {cfg : LexCfg} {b b' : Buf} {x : Bool} (h : fill cfg b = .ok (x, b')) : b'.bounded = b.bounded := by
  unfold fill at h
  split at h
  · cases h
  · split at h
    · cases h; rfl
    · cases h
    · cases h
    · split at h
      · cases h
      · cases h; rfl

theorem nextTok_flag (cfg : LexCfg) (disc : String → Bool) : ∀ (fuel : Nat) (b b' : Buf) (o : Option Tok),
    nextTok cfg disc fuel b = .ok (o, b') → b'.bounded = b.bounded := by
  intro fuel
  induction fuel with
  | zero => intro b b' o h; simp [nextTok] at h
  | succ n ih =>
    intro b b' o h
    simp only [nextTok] at h
    split at h
    · cases h; rfl
    · split at h
      · cases h
      · rename_i hf
        cases h
        have := fill_flag hf
        exact this
      · rename_i hf
        have := fill_flag hf
        rw [ih _ _ _ h, this]

theorem nextOp_flag {cfg : LexCfg} {nl : Bool} {b b' : Buf} {o : Option Tok}
    (h : nextOp cfg nl b = .ok (o, b')) : b'.bounded = b.bounded := by
  unfold nextOp at h
  split at h
  · exact nextTok_flag _ _ _ _ _ _ h
  · exact nextTok_flag _ _ _ _ _ _ h

theorem getDoxygenLoop_flag (cfg : LexCfg) (mcRe : Re) : ∀ (fuel : Nat) (cs : List Tok) (b b' : Buf) (d : Option String),
    getDoxygenLoop cfg mcRe fuel cs b = .ok (d, b') → b'.bounded = b.bounded := by
  intro fuel
  induction fuel with
  | zero => intro cs b b' d h; simp [getDoxygenLoop] at h
  | succ n ih =>
    intro cs b b' d h
    simp only [getDoxygenLoop] at h
    split at h
    · cases h; rfl
    · split at h
      · cases h
      · rename_i hf
        cases h
        have := fill_flag hf
        exact this
      · rename_i hf
        have := fill_flag hf
        rw [ih _ _ _ _ h, this]

theorem getDoxygen_flag {cfg : LexCfg} {mcRe : Re} {b b' : Buf} {d : Option String}
    (h : getDoxygen cfg mcRe b = .ok (d, b')) : b'.bounded = b.bounded := by
  unfold getDoxygen at h
  split at h
  · cases h; rfl
  · split at h
    · split at h
      · cases h
      · rename_i hf; cases h; exact fill_flag hf
      · rename_i hf; rw [getDoxygenLoop_flag _ _ _ _ _ _ _ h, fill_flag hf]
    · exact getDoxygenLoop_flag _ _ _ _ _ _ _ h

theorem getDoxygenAfter_flag (mcRe : Re) (b : Buf) : (getDoxygenAfter mcRe b).2.bounded = b.bounded := by
  unfold getDoxygenAfter
  split
  · rfl
  · split
    · rfl
    · rfl

theorem deliver_buf (env : Env) (w : World) (ev : Event) : (deliver env w ev).1.buf = w.buf := by
  simp only [deliver]; split <;> (try split) <;> rfl

theorem deliver_buf_eq {env : Env} {w w' : World} {ev : Event} {o : Option Err} (h : deliver env w ev = (w', o)) :
    w'.buf = w.buf := by
  have := deliver_buf env w ev
  rw [h] at this
  exact this

theorem interp_flag (env : Env) {α : Type} (p : Prog α) : ∀ w, (interp env p w).1.buf.bounded = w.buf.bounded := by
  induction p with
  | pure a => intro w; rfl
  | fail e => intro w; rfl
  | next nl k ih =>
    intro w
    simp only [interp]
    have key : ∀ r, nextOp env.cfg nl w.buf = r →
        (match r with
          | .error e => (w, Except.error e)
          | .ok (none, b) => interp env (k none) { w with buf := b }
          | .ok (some t, b) => interp env (k (some (({ w with buf := b } : World).handOut t).1)) (({ w with buf := b } : World).handOut t).2).1.buf.bounded = w.buf.bounded := by
      intro r hr
      cases r with
      | error e => rfl
      | ok x =>
        obtain ⟨o, b⟩ := x
        cases o with
        | none => simp only; rw [ih]; exact nextOp_flag hr
        | some t =>
          simp only
          rw [ih]
          have : (({ w with buf := b } : World).handOut t).2.buf = b := by
            unfold World.handOut; split <;> rfl
          rw [this]; exact nextOp_flag hr
    exact key _ rfl
  | unread ts k ih => intro w; simp only [interp]; rw [ih]; rfl
  | curLoc k ih =>
    intro w; simp only [interp]
    split
    · rfl
    · rw [ih]
  | dox after k ih =>
    intro w; simp only [interp]
    split
    · rw [ih]; exact getDoxygenAfter_flag _ _
    · split
      · rfl
      · rename_i hd; rw [ih]; exact getDoxygen_flag hd
  | push h k ih =>
    intro w; simp only [interp]
    split
    · rename_i hd
      have := deliver_buf_eq hd; exact congrArg Buf.bounded this
    · rename_i hd
      have := deliver_buf_eq hd
      rw [ih]
      split <;> exact congrArg Buf.bounded this
  | pop k ih =>
    intro w; simp only [interp]
    split
    · rfl
    · split
      · rfl
      · split
        · rename_i hd
          have := deliver_buf_eq hd; exact congrArg Buf.bounded this
        · rename_i hd
          have := deliver_buf_eq hd
          rw [ih]; exact congrArg Buf.bounded this
  | emit p k ih =>
    intro w; simp only [interp]
    split
    · rfl
    · split
      · rename_i hd
        have := deliver_buf_eq hd; exact congrArg Buf.bounded this
      · rename_i hd
        have := deliver_buf_eq hd
        rw [ih]; exact congrArg Buf.bounded this
  | top k ih =>
    intro w; simp only [interp]
    split
    · rfl
    · rw [ih]
  | setAccess a k ih =>
    intro w; simp only [interp]
    split
    · rfl
    · rw [ih]
  | setLoc l k ih =>
    intro w; simp only [interp]
    split
    · rfl
    · rw [ih]
  | fresh k ih => intro w; simp only [interp]; rw [ih]
  | bounded ts body k _ ihk =>
    intro w; simp only [interp]
    split
    · rw [ihk]
    · split
      · rw [ihk]
      · rfl
  | opt k ih => intro w; simp only [interp]; rw [ih]
  | debug m k ih => intro w; simp only [interp]; rw [ih]; split <;> rfl
  | note t k ih => intro w; simp only [interp]; rw [ih]


/-! ### the simulation -/

theorem TokEqL.isEmpty {l1 l2 : List Tok} (h : TokEqL l1 l2) : l1.isEmpty = l2.isEmpty := by
  cases h <;> rfl

theorem toTok_eqL (w1 w2 : World) (ts : List CTok) : TokEqL (ts.map w1.toTok) (ts.map w2.toTok) := by
  induction ts with
  | nil => exact .nil
  | cons c cs ih => exact .cons ⟨rfl, rfl, rfl⟩ ih

theorem mkEvent_noLoc (w1 w2 : World) (k : EventKind) (b : Block) (p : Option Nat) :
    (mkEvent w1 k b p).noLoc = (mkEvent w2 k b p).noLoc := rfl

theorem handOut_lsim {R : Buf → Buf → Prop} {w1 w2 : World} (h : LSim R w1 w2) {t1 t2 : Tok} (ht : TokEq t1 t2) :
    (w1.handOut t1).1 = (w2.handOut t2).1 ∧ LSim R (w1.handOut t1).2 (w2.handOut t2).2 := by
  obtain ⟨hty, hval, hsx⟩ := ht
  unfold World.handOut
  by_cases h0 : t1.sidx = 0
  · have h0' : t2.sidx = 0 := by rw [← hsx]; exact h0
    simp only [h0, h0', ↓reduceIte, hty, hval, h.sigLen, true_and]
    exact ⟨h.buf, h.stack, h.muted, h.anon, h.nextId, h.events, h.delivered, by simp [h.sigLen], h.curLen, h.debugLog, h.mainTok⟩
  · have h0' : ¬ t2.sidx = 0 := by rw [← hsx]; exact h0
    simp only [h0, h0', ↓reduceIte, hty, hval, hsx, true_and]
    exact h

theorem ldeliver_then (env : Env) (R : Buf → Buf → Prop) {α : Type} {w1 w2 : World} (h : LSim R w1 w2)
    (e1 e2 : Event) (he : e1.noLoc = e2.noLoc)
    (f1 f2 : World → World × Except Err α)
    (hf : ∀ a b, LSim R a b → LOut R (f1 a) (f2 b)) :
    LOut R
      (match deliver env w1 e1 with
        | (w', some err) => (w', .error err)
        | (w', none) => f1 w')
      (match deliver env w2 e2 with
        | (w', some err) => (w', .error err)
        | (w', none) => f2 w') := by
  cases hm : w1.muted with
  | true =>
    have hm' : w2.muted = true := by rw [← h.muted]; exact hm
    rw [deliver_muted env w1 e1 hm, deliver_muted env w2 e2 hm']
    exact hf _ _ h
  | false =>
    have hm' : w2.muted = false := by rw [← h.muted]; exact hm
    have hs : LSim R { w1 with events := w1.events ++ [e1], delivered := w1.delivered + 1 }
        { w2 with events := w2.events ++ [e2], delivered := w2.delivered + 1 } :=
      ⟨h.buf, h.stack, h.muted, h.anon, h.nextId, by simp [h.events, he], by simp [h.delivered], h.sigLen, h.curLen,
        h.debugLog, h.mainTok⟩
    by_cases hfa : env.faultAt = some w1.delivered
    · have hfa' : env.faultAt = some w2.delivered := by rw [← h.delivered]; exact hfa
      rw [deliver_faulting env w1 e1 hm hfa, deliver_faulting env w2 e2 hm' hfa']
      exact ⟨hs, by rw [h.delivered]; exact ErrRel.refl _⟩
    · have hfa' : ¬ env.faultAt = some w2.delivered := by rw [← h.delivered]; exact hfa
      rw [deliver_passing env w1 e1 hm hfa, deliver_passing env w2 e2 hm' hfa']
      exact hf _ _ hs

theorem layout_sim (env : Env) (R : Buf → Buf → Prop) (hR : StreamBisim env R) {α : Type} (p : Prog α) :
    ∀ w1 w2, LSim R w1 w2 → LOut R (interp env p w1) (interp env p w2) := by
  induction p with
  | pure a => intro w1 w2 h; exact ⟨h, rfl⟩
  | fail e => intro w1 w2 h; exact ⟨h, ErrRel.refl e⟩
  | next nl k ih =>
    intro w1 w2 h
    have hn := hR.next nl _ _ h.buf
    simp only [interp]
    simp only [nextOp] at hn
    generalize (if nl = true then tokenNewlineEofOk env.cfg w1.buf else tokenEofOk env.cfg w1.buf) = r1 at hn ⊢
    generalize (if nl = true then tokenNewlineEofOk env.cfg w2.buf else tokenEofOk env.cfg w2.buf) = r2 at hn ⊢
    cases r1 with
    | error e1 =>
      cases r2 with
      | error e2 => exact ⟨h, hn⟩
      | ok x2 => obtain ⟨o2, b2⟩ := x2; cases o2 <;> simp [NextRel] at hn
    | ok x1 =>
      obtain ⟨o1, b1⟩ := x1
      cases r2 with
      | error e2 => cases o1 <;> simp [NextRel] at hn
      | ok x2 =>
        obtain ⟨o2, b2⟩ := x2
        cases o1 with
        | none =>
          cases o2 with
          | some t2 => simp [NextRel] at hn
          | none =>
            simp only [NextRel] at hn
            exact ih _ _ _ ⟨hn, h.stack, h.muted, h.anon, h.nextId, h.events, h.delivered, h.sigLen, h.curLen, h.debugLog, h.mainTok⟩
        | some t1 =>
          cases o2 with
          | none => simp [NextRel] at hn
          | some t2 =>
            simp only [NextRel] at hn
            have hs : LSim R { w1 with buf := b1 } { w2 with buf := b2 } :=
              ⟨hn.2, h.stack, h.muted, h.anon, h.nextId, h.events, h.delivered, h.sigLen, h.curLen, h.debugLog, h.mainTok⟩
            obtain ⟨hc, hw⟩ := handOut_lsim hs hn.1
            simp only
            rw [hc]
            exact ih _ _ _ hw
  | unread ts k ih =>
    intro w1 w2 h
    simp only [interp]
    apply ih
    exact ⟨hR.unread _ _ _ _ h.buf (toTok_eqL w1 w2 ts), h.stack, h.muted, h.anon, h.nextId, h.events, h.delivered,
      h.sigLen, h.curLen, h.debugLog, h.mainTok⟩
  | curLoc k ih =>
    intro w1 w2 h
    have hl := hR.curLoc _ _ h.buf
    simp only [interp]
    generalize currentLocation w1.buf = r1 at hl ⊢
    generalize currentLocation w2.buf = r2 at hl ⊢
    cases r1 with
    | error e1 =>
      cases r2 with
      | error e2 => exact ⟨h, hl⟩
      | ok l2 => simp [LocRel] at hl
    | ok l1 =>
      cases r2 with
      | error e2 => simp [LocRel] at hl
      | ok l2 =>
        simp only [h.curLen]
        apply ih
        exact ⟨h.buf, h.stack, h.muted, h.anon, h.nextId, h.events, h.delivered, h.sigLen, by simp [h.curLen], h.debugLog, h.mainTok⟩
  | dox after k ih =>
    intro w1 w2 h
    simp only [interp]
    by_cases ha : after = true
    · simp only [ha, ↓reduceIte]
      obtain ⟨hd, hb⟩ := hR.doxAfter _ _ h.buf
      rw [hd]
      apply ih
      exact ⟨hb, h.stack, h.muted, h.anon, h.nextId, h.events, h.delivered, h.sigLen, h.curLen, h.debugLog, h.mainTok⟩
    · simp only [ha, Bool.false_eq_true, ↓reduceIte]
      have hd := hR.dox _ _ h.buf
      generalize getDoxygen env.cfg env.mcRe w1.buf = r1 at hd ⊢
      generalize getDoxygen env.cfg env.mcRe w2.buf = r2 at hd ⊢
      cases r1 with
      | error e1 =>
        cases r2 with
        | error e2 => exact ⟨h, hd⟩
        | ok x2 => simp [DoxRel] at hd
      | ok x1 =>
        cases r2 with
        | error e2 => simp [DoxRel] at hd
        | ok x2 =>
          obtain ⟨d1, b1⟩ := x1
          obtain ⟨d2, b2⟩ := x2
          simp only [DoxRel] at hd
          simp only [hd.1]
          apply ih
          exact ⟨hd.2, h.stack, h.muted, h.anon, h.nextId, h.events, h.delivered, h.sigLen, h.curLen, h.debugLog, h.mainTok⟩
  | top k ih =>
    intro w1 w2 h
    simp only [interp, ← h.stack]
    split
    · exact ⟨h, ErrRel.refl _⟩
    · exact ih _ _ _ h
  | setAccess a k ih =>
    intro w1 w2 h
    simp only [interp, ← h.stack]
    split
    · exact ⟨h, ErrRel.refl _⟩
    · apply ih
      exact ⟨h.buf, rfl, h.muted, h.anon, h.nextId, h.events, h.delivered, h.sigLen, h.curLen, h.debugLog, h.mainTok⟩
  | setLoc l k ih =>
    intro w1 w2 h
    simp only [interp, ← h.stack]
    split
    · exact ⟨h, ErrRel.refl _⟩
    · apply ih
      exact ⟨h.buf, rfl, h.muted, h.anon, h.nextId, h.events, h.delivered, h.sigLen, h.curLen, h.debugLog, h.mainTok⟩
  | fresh k ih =>
    intro w1 w2 h
    simp only [interp, ← h.anon]
    apply ih
    exact ⟨h.buf, h.stack, h.muted, rfl, h.nextId, h.events, h.delivered, h.sigLen, h.curLen, h.debugLog, h.mainTok⟩
  | opt k ih => intro w1 w2 h; simp only [interp]; exact ih _ _ _ h
  | debug m k ih =>
    intro w1 w2 h
    simp only [interp]
    apply ih
    split
    · exact ⟨h.buf, h.stack, h.muted, h.anon, h.nextId, h.events, h.delivered, h.sigLen, h.curLen, by simp [h.debugLog], h.mainTok⟩
    · exact h
  | note t k ih =>
    intro w1 w2 h
    simp only [interp]
    apply ih
    exact ⟨h.buf, h.stack, h.muted, h.anon, h.nextId, h.events, h.delivered, h.sigLen, h.curLen, h.debugLog, rfl⟩
  | emit p k ih =>
    intro w1 w2 h
    simp only [interp, ← h.stack]
    split
    · exact ⟨h, ErrRel.refl _⟩
    · exact ldeliver_then env R h _ _ (mkEvent_noLoc _ _ _ _ _) _ _ (fun a b hs => ih a b hs)
  | pop k ih =>
    intro w1 w2 h
    simp only [interp, ← h.stack]
    split
    · exact ⟨h, ErrRel.refl _⟩
    · rename_i blk rest _
      split
      · exact ⟨h, ErrRel.refl _⟩
      · exact ldeliver_then env R h _ _ (mkEvent_noLoc _ _ _ _ _)
          (fun a => interp env (k blk.view) { a with muted := blk.priorMuted, stack := rest })
          (fun b => interp env (k blk.view) { b with muted := blk.priorMuted, stack := rest })
          (fun a b hs => ih _ _ _ ⟨hs.buf, rfl, rfl, hs.anon, hs.nextId, hs.events, hs.delivered, hs.sigLen, hs.curLen, hs.debugLog, hs.mainTok⟩)
  | push hdr k ih =>
    intro w1 w2 h
    simp only [interp, ← h.nextId, ← h.muted, ← h.stack]
    refine ldeliver_then env R (w1 := { w1 with stack := _ :: w1.stack, nextId := w1.nextId + 1 })
      (w2 := { w2 with stack := _ :: w1.stack, muted := w1.muted, nextId := w1.nextId + 1 })
      ⟨h.buf, rfl, rfl, h.anon, rfl, h.events, h.delivered, h.sigLen, h.curLen, h.debugLog, h.mainTok⟩
      _ _ (mkEvent_noLoc _ _ _ _ _)
      (fun a => interp env k (if !a.muted && env.skip w1.nextId hdr then { a with muted := true } else a))
      (fun b => interp env k (if !b.muted && env.skip w1.nextId hdr then { b with muted := true } else b))
      (fun a b hs => ih _ _ ?_)
    rw [← hs.muted]
    split
    · exact ⟨hs.buf, hs.stack, rfl, hs.anon, hs.nextId, hs.events, hs.delivered, hs.sigLen, hs.curLen, hs.debugLog, hs.mainTok⟩
    · exact hs
  | bounded ts body k ihb ihk =>
    intro w1 w2 h
    simp only [interp]
    have hin : LSim R { w1 with buf := boundedBuf (ts.map w1.toTok) } { w2 with buf := boundedBuf (ts.map w2.toTok) } :=
      ⟨hR.bounded _ _ (toTok_eqL w1 w2 ts), h.stack, h.muted, h.anon, h.nextId, h.events, h.delivered, h.sigLen, h.curLen,
        h.debugLog, h.mainTok⟩
    have hb := ihb _ _ hin
    have hfl := interp_flag env body { w1 with buf := boundedBuf (ts.map w1.toTok) }
    simp only [boundedBuf] at hb hfl
    rcases h1 : interp env body { w1 with buf := { tokbuf := ts.map w1.toTok, lex := { rest := [] }, bounded := true } } with ⟨a1, r1⟩
    rcases h2 : interp env body { w2 with buf := { tokbuf := ts.map w2.toTok, lex := { rest := [] }, bounded := true } } with ⟨a2, r2⟩
    simp only [h1, h2] at hb hfl ⊢
    obtain ⟨hs, hr⟩ := hb
    have hhas : a1.buf.tokbuf.isEmpty = a2.buf.tokbuf.isEmpty := hR.hasTokens _ _ hs.buf hfl
    have hrest : LSim R { a1 with buf := w1.buf } { a2 with buf := w2.buf } :=
      ⟨h.buf, hs.stack, hs.muted, hs.anon, hs.nextId, hs.events, hs.delivered, hs.sigLen, hs.curLen, hs.debugLog, hs.mainTok⟩
    cases r1 with
    | ok g1 =>
      cases r2 with
      | error e2 => simp [ResRel] at hr
      | ok g2 =>
        simp only [ResRel] at hr
        subst hr
        simp only [hhas]
        exact ihk _ _ _ hrest
    | error e1 =>
      cases r2 with
      | ok g2 => simp [ResRel] at hr
      | error e2 =>
        simp only [ResRel] at hr
        simp only [hr.catchable, hhas]
        split
        · exact ihk _ _ _ hrest
        · exact ⟨hrest, hr⟩


/-! ### an instance: pre-lexed (bounded) streams whose tokens differ only in their locations -/

/-- bounded streams holding the same tokens (type, text, identity); locations are free -/
def RBnd (b1 b2 : Buf) : Prop :=
  b1.bounded = true ∧ b2.bounded = true ∧ TokEqL b1.tokbuf b2.tokbuf

theorem TokEqL.append {a1 a2 b1 b2 : List Tok} (h1 : TokEqL a1 a2) (h2 : TokEqL b1 b2) : TokEqL (a1 ++ b1) (a2 ++ b2) := by
  induction h1 with
  | nil => exact h2
  | cons ht _ ih => exact .cons ht ih

def PopRel (r1 r2 : Option (Tok × List Tok)) : Prop :=
  match r1, r2 with
  | none, none => True
  | some (t1, l1), some (t2, l2) => TokEq t1 t2 ∧ TokEqL l1 l2
  | _, _ => False

theorem popSignificant_eqL (disc : String → Bool) {l1 l2 : List Tok} (h : TokEqL l1 l2) :
    PopRel (popSignificant disc l1) (popSignificant disc l2) := by
  induction h with
  | nil => simp [popSignificant, PopRel]
  | cons ht hl ih =>
    rename_i t1 t2 l1 l2
    simp only [popSignificant, ← ht.1]
    by_cases hd : disc t1.type = true
    · simp only [hd, ↓reduceIte]; exact ih
    · simp only [hd, Bool.false_eq_true, ↓reduceIte, PopRel]; exact ⟨ht, hl⟩

theorem fill_bounded (cfg : LexCfg) (b : Buf) (hb : b.bounded = true) :
    fill cfg b = .error (.parse "no more tokens left in this group" none) := by
  simp [fill, hb]

theorem nextTok_bnd (cfg : LexCfg) (disc : String → Bool) (n1 n2 : Nat) (b1 b2 : Buf) (h : RBnd b1 b2) :
    NextRel RBnd (nextTok cfg disc (n1 + 1) b1) (nextTok cfg disc (n2 + 1) b2) := by
  obtain ⟨hb1, hb2, hl⟩ := h
  have hp := popSignificant_eqL disc hl
  simp only [nextTok]
  cases h1 : popSignificant disc b1.tokbuf with
  | none =>
    cases h2 : popSignificant disc b2.tokbuf with
    | some x => simp [h1, h2, PopRel] at hp
    | none =>
      simp only [fill_bounded cfg { b1 with tokbuf := [] } hb1, fill_bounded cfg { b2 with tokbuf := [] } hb2, NextRel]
      exact ErrRel.refl _
  | some x1 =>
    cases h2 : popSignificant disc b2.tokbuf with
    | none => simp [h1, h2, PopRel] at hp
    | some x2 =>
      obtain ⟨t1, r1⟩ := x1
      obtain ⟨t2, r2⟩ := x2
      simp only [h1, h2, PopRel] at hp
      simp only [NextRel]
      exact ⟨hp.1, hb1, hb2, hp.2⟩

theorem rbnd_bisim (env : Env) : StreamBisim env RBnd where
  next := by
    intro nl b1 b2 h
    unfold nextOp tokenNewlineEofOk tokenEofOk fuelFor
    split
    · exact nextTok_bnd _ _ _ _ _ _ h
    · exact nextTok_bnd _ _ _ _ _ _ h
  unread := by
    intro ts1 ts2 b1 b2 h hts
    exact ⟨h.1, h.2.1, TokEqL.append hts h.2.2⟩
  curLoc := by
    intro b1 b2 h
    obtain ⟨hb1, hb2, hl⟩ := h
    unfold currentLocation
    cases h1 : b1.tokbuf with
    | nil =>
      cases h2 : b2.tokbuf with
      | nil => simp only [hb1, hb2, ↓reduceIte, LocRel]; exact ErrRel.refl _
      | cons t2 r2 => rw [h1, h2] at hl; cases hl
    | cons t1 r1 =>
      cases h2 : b2.tokbuf with
      | nil => rw [h1, h2] at hl; cases hl
      | cons t2 r2 => simp only [LocRel]
  dox := by
    intro b1 b2 h
    simp only [getDoxygen, h.1, h.2.1, ↓reduceIte, DoxRel]
    exact ⟨trivial, h⟩
  doxAfter := by
    intro b1 b2 h
    simp only [getDoxygenAfter, h.1, h.2.1, ↓reduceIte]
    exact ⟨trivial, h⟩
  bounded := by
    intro ts1 ts2 h
    exact ⟨rfl, rfl, h⟩
  hasTokens := by
    intro b1 b2 h _
    exact h.2.2.isEmpty


/-! ### an instance on the real, lexer-backed stream: line numbers and file names are opaque

    Two stream states over the same remaining text whose lexer line counters, line offsets
    and file names differ (a different `filename` argument, a different starting line, text
    reached after different `#line` directives) cannot be told apart by any operation. -/

def StRel (s1 s2 : LexState) : Prop := s1.rest = s2.rest
def RawEq (r1 r2 : RawTok) : Prop := r1.type = r2.type ∧ r1.value = r2.value

def ActRel (a1 a2 : ActOut) : Prop :=
  match a1, a2 with
  | .tok t1 s1, .tok t2 s2 => RawEq t1 t2 ∧ StRel s1 s2
  | .none s1, .none s2 => StRel s1 s2
  | .err _, .err _ => True
  | .opaque, .opaque => True
  | _, _ => False

theorem runAction_rel (kw : List String) (r : Rule) (v : Str) (st1 st2 : LexState) (rest : Str) :
    ActRel (runAction kw r v st1 rest) (runAction kw r v st2 rest) := by
  unfold runAction
  cases r.action with
  | ret => exact ⟨⟨rfl, rfl⟩, rfl⟩
  | skip => exact (rfl : StRel _ _)
  | countNl => exact ⟨⟨rfl, rfl⟩, rfl⟩
  | lenNl => exact ⟨⟨rfl, rfl⟩, rfl⟩
  | keyword =>
    simp only
    split
    · exact ⟨⟨rfl, rfl⟩, rfl⟩
    · exact ⟨⟨rfl, rfl⟩, rfl⟩
  | ppDirective =>
    simp only
    split
    · exact (rfl : StRel _ _)
    · split
      · exact (rfl : StRel _ _)
      · split
        · simp [mkErr, ActRel]
        · simp [mkErr, ActRel]
  | error msg => simp [mkErr, ActRel]
  | errorFmt pre => simp [mkErr, ActRel]
  | «opaque» => simp [ActRel]

def OutRel (o1 o2 : TokOut) : Prop :=
  match o1, o2 with
  | .tok t1 s1, .tok t2 s2 => RawEq t1 t2 ∧ StRel s1 s2
  | .eof s1, .eof s2 => StRel s1 s2
  | .err _ _, .err _ _ => True
  | .opaque, .opaque => True
  | _, _ => False

theorem plyToken_rel (cfg : LexCfg) : ∀ (fuel : Nat) (st1 st2 : LexState), StRel st1 st2 →
    OutRel (plyToken cfg fuel st1) (plyToken cfg fuel st2) := by
  intro fuel
  induction fuel with
  | zero => intro st1 st2 h; exact h
  | succ n ih =>
    intro st1 st2 h
    unfold StRel at h
    simp only [plyToken, ← h]
    cases hr : st1.rest with
    | nil => simp only [OutRel]; exact h
    | cons c t =>
      simp only
      split
      · exact ih _ _ rfl
      · cases hf : firstRule cfg.rules (c :: t) with
        | none =>
          simp only
          split
          · exact ⟨⟨rfl, rfl⟩, rfl⟩
          · simp [OutRel]
        | some x =>
          obtain ⟨r, rest⟩ := x
          simp only
          have ha := runAction_rel cfg.keywords r ((c :: t).take ((c :: t).length - rest.length)) st1 st2 rest
          generalize runAction cfg.keywords r ((c :: t).take ((c :: t).length - rest.length)) st1 rest = a1 at ha ⊢
          generalize runAction cfg.keywords r ((c :: t).take ((c :: t).length - rest.length)) st2 rest = a2 at ha ⊢
          cases a1 with
          | tok t1 s1 => cases a2 <;> simp [ActRel] at ha; exact ha
          | none s1 =>
            cases a2 <;> simp [ActRel] at ha
            rename_i s2
            unfold StRel at ha
            simp only [← ha]
            split
            · exact ih _ _ ha
            · simp [OutRel]
          | err e1 => cases a2 <;> simp [ActRel] at ha; simp [OutRel]
          | «opaque» => cases a2 <;> simp [ActRel] at ha; simp [OutRel]

theorem plyTokenF_rel (cfg : LexCfg) (st1 st2 : LexState) (h : StRel st1 st2) :
    OutRel (plyTokenF cfg st1) (plyTokenF cfg st2) := by
  unfold plyTokenF
  have : st1.rest.length = st2.rest.length := by rw [h]
  rw [this]
  exact plyToken_rel cfg _ _ _ h

theorem TokEqL.length {l1 l2 : List Tok} (h : TokEqL l1 l2) : l1.length = l2.length := by
  induction h with
  | nil => rfl
  | cons _ _ ih => simp [ih]

theorem TokEqL.reverse {l1 l2 : List Tok} (h : TokEqL l1 l2) : TokEqL l1.reverse l2.reverse := by
  induction h with
  | nil => exact .nil
  | cons ht _ ih => simp only [List.reverse_cons]; exact TokEqL.append ih (.cons ht .nil)

theorem TokEqL.dropLast {l1 l2 : List Tok} (h : TokEqL l1 l2) : TokEqL l1.dropLast l2.dropLast := by
  induction h with
  | nil => exact .nil
  | cons ht hl ih =>
    cases hl with
    | nil => exact .nil
    | cons ht2 hl2 => simp only [List.dropLast_cons₂]; exact .cons ht ih

def SpliceRel (r1 r2 : Option (List Tok)) : Prop :=
  match r1, r2 with
  | none, none => True
  | some l1, some l2 => TokEqL l1 l2
  | _, _ => False

theorem splice_rel {l1 l2 : List Tok} (h : TokEqL l1 l2) : SpliceRel (spliceContinuation l1) (spliceContinuation l2) := by
  unfold spliceContinuation
  rw [← h.length]
  split
  · have hr := h.reverse
    generalize l1.reverse = r1 at hr ⊢
    generalize l2.reverse = r2 at hr ⊢
    cases hr with
    | nil => simp [SpliceRel]
    | cons ht hl =>
      cases hl with
      | nil => simp [SpliceRel]
      | cons ht2 hl2 =>
        simp only [← ht2.1]
        split
        · exact hl2.reverse
        · simp [SpliceRel]
  · simp [SpliceRel]

def FillLoopRel (r1 r2 : Except LexErr (List Tok × LexState)) : Prop :=
  match r1, r2 with
  | .error _, .error _ => True
  | .ok (l1, s1), .ok (l2, s2) => TokEqL l1 l2 ∧ StRel s1 s2
  | _, _ => False

theorem ofRaw_eq {r1 r2 : RawTok} (h : RawEq r1 r2) (l1 l2 : Location) : TokEq (Tok.ofRaw r1 l1) (Tok.ofRaw r2 l2) := by
  simp [Tok.ofRaw, TokEq, h.1, h.2]

theorem fused_eq {r1 r2 : RawTok} (h : RawEq r1 r2) (l1 l2 : Location) {v1 v2 : Str} (hv : v1 = v2) :
    TokEq { Tok.ofRaw r1 l1 with value := (Tok.ofRaw r1 l1).value ++ strOfStr v1, type := "UD_" ++ (Tok.ofRaw r1 l1).type }
      { Tok.ofRaw r2 l2 with value := (Tok.ofRaw r2 l2).value ++ strOfStr v2, type := "UD_" ++ (Tok.ofRaw r2 l2).type } := by
  simp [Tok.ofRaw, TokEq, h.1, h.2, hv]

theorem fillLoop_rel (cfg : LexCfg) : ∀ (fuel : Nat) (line1 line2 : List Tok) (raw1 raw2 : RawTok) (st1 st2 : LexState),
    TokEqL line1 line2 → RawEq raw1 raw2 → StRel st1 st2 →
    FillLoopRel (fillLoop cfg fuel line1 raw1 st1) (fillLoop cfg fuel line2 raw2 st2) := by
  intro fuel
  induction fuel with
  | zero => intro l1 l2 r1 r2 s1 s2 hl _ hs; exact ⟨hl, hs⟩
  | succ n ih =>
    intro l1 l2 r1 r2 s1 s2 hl hr hs
    simp only [fillLoop]
    have hline : TokEqL (l1 ++ [Tok.ofRaw r1 s1.location]) (l2 ++ [Tok.ofRaw r2 s2.location]) :=
      TokEqL.append hl (.cons (ofRaw_eq hr _ _) .nil)
    simp only [← hr.1]
    have hsp : SpliceRel
        (if r1.type = "NEWLINE" then spliceContinuation (l1 ++ [Tok.ofRaw r1 s1.location]) else some (l1 ++ [Tok.ofRaw r1 s1.location]))
        (if r1.type = "NEWLINE" then spliceContinuation (l2 ++ [Tok.ofRaw r2 s2.location]) else some (l2 ++ [Tok.ofRaw r2 s2.location])) := by
      split
      · exact splice_rel hline
      · exact hline
    generalize (if r1.type = "NEWLINE" then spliceContinuation (l1 ++ [Tok.ofRaw r1 s1.location]) else some (l1 ++ [Tok.ofRaw r1 s1.location])) = o1 at hsp ⊢
    generalize (if r1.type = "NEWLINE" then spliceContinuation (l2 ++ [Tok.ofRaw r2 s2.location]) else some (l2 ++ [Tok.ofRaw r2 s2.location])) = o2 at hsp ⊢
    cases o1 with
    | none =>
      cases o2 with
      | some x => simp [SpliceRel] at hsp
      | none => exact ⟨hline, hs⟩
    | some ln1 =>
      cases o2 with
      | none => simp [SpliceRel] at hsp
      | some ln2 =>
        simp only [SpliceRel] at hsp
        simp only
        have hp := plyTokenF_rel cfg s1 s2 hs
        generalize plyTokenF cfg s1 = p1 at hp ⊢
        generalize plyTokenF cfg s2 = p2 at hp ⊢
        by_cases hu : isUdlStart r1.type = true
        · simp only [hu, ↓reduceIte]
          cases p1 with
          | eof a1 => cases p2 <;> simp [OutRel] at hp; exact ⟨hsp, hp⟩
          | err e1 a1 => cases p2 <;> simp [OutRel] at hp; simp [FillLoopRel]
          | «opaque» => cases p2 <;> simp [OutRel] at hp; exact ⟨hsp, hs⟩
          | tok t1 a1 =>
            cases p2 <;> simp [OutRel] at hp
            rename_i t2 a2
            obtain ⟨ht, ha⟩ := hp
            simp only [← ht.1, ← ht.2]
            split
            · exact ih _ _ _ _ _ _ hsp ht ha
            · have hfl : TokEqL (ln1.dropLast ++ [{ Tok.ofRaw r1 s1.location with value := (Tok.ofRaw r1 s1.location).value ++ strOfStr t1.value, type := "UD_" ++ (Tok.ofRaw r1 s1.location).type }])
                  (ln2.dropLast ++ [{ Tok.ofRaw r2 s2.location with value := (Tok.ofRaw r2 s2.location).value ++ strOfStr t1.value, type := "UD_" ++ (Tok.ofRaw r2 s2.location).type }]) :=
                TokEqL.append hsp.dropLast (.cons (fused_eq hr _ _ rfl) .nil)
              have hq := plyTokenF_rel cfg a1 a2 ha
              generalize plyTokenF cfg a1 = q1 at hq ⊢
              generalize plyTokenF cfg a2 = q2 at hq ⊢
              cases q1 with
              | eof c1 => cases q2 <;> simp [OutRel] at hq; exact ⟨hfl, hq⟩
              | err e1 c1 => cases q2 <;> simp [OutRel] at hq; simp [FillLoopRel]
              | «opaque» => cases q2 <;> simp [OutRel] at hq; exact ⟨hfl, ha⟩
              | tok u1 c1 =>
                cases q2 <;> simp [OutRel] at hq
                exact ih _ _ _ _ _ _ hfl hq.1 hq.2
        · simp only [hu, Bool.false_eq_true, ↓reduceIte]
          cases p1 with
          | eof a1 => cases p2 <;> simp [OutRel] at hp; exact ⟨hsp, hp⟩
          | err e1 a1 => cases p2 <;> simp [OutRel] at hp; simp [FillLoopRel]
          | «opaque» => cases p2 <;> simp [OutRel] at hp; exact ⟨hsp, hs⟩
          | tok t1 a1 =>
            cases p2 <;> simp [OutRel] at hp
            exact ih _ _ _ _ _ _ hsp hp.1 hp.2


/-- same tokens buffered, same remaining text, same kind of stream; line counters and file
    names are free -/
def RLoc (b1 b2 : Buf) : Prop :=
  b1.bounded = b2.bounded ∧ TokEqL b1.tokbuf b2.tokbuf ∧ StRel b1.lex b2.lex

def FillRel (r1 r2 : Except Err (Bool × Buf)) : Prop :=
  match r1, r2 with
  | .error e1, .error e2 => ErrRel e1 e2
  | .ok (x1, b1), .ok (x2, b2) => x1 = x2 ∧ RLoc b1 b2
  | _, _ => False

theorem fill_rel (cfg : LexCfg) (b1 b2 : Buf) (h : RLoc b1 b2) : FillRel (fill cfg b1) (fill cfg b2) := by
  obtain ⟨hb, hl, hs⟩ := h
  unfold fill
  rw [← hb]
  split
  · exact ErrRel.refl _
  · have hp := plyTokenF_rel cfg b1.lex b2.lex hs
    generalize plyTokenF cfg b1.lex = p1 at hp ⊢
    generalize plyTokenF cfg b2.lex = p2 at hp ⊢
    cases p1 with
    | eof a1 => cases p2 <;> simp [OutRel] at hp; exact ⟨rfl, rfl, hl, hp⟩
    | err e1 a1 => cases p2 <;> simp [OutRel] at hp; exact .inr ⟨_, _, rfl, rfl⟩
    | «opaque» => cases p2 <;> simp [OutRel] at hp; exact ErrRel.refl _
    | tok t1 a1 =>
      cases p2 <;> simp [OutRel] at hp
      rename_i t2 a2
      simp only
      have hlen : a1.rest.length = a2.rest.length := by rw [hp.2]
      rw [hlen]
      have hf := fillLoop_rel cfg (a2.rest.length + 2) [] [] t1 t2 a1 a2 .nil hp.1 hp.2
      generalize fillLoop cfg (a2.rest.length + 2) [] t1 a1 = f1 at hf ⊢
      generalize fillLoop cfg (a2.rest.length + 2) [] t2 a2 = f2 at hf ⊢
      cases f1 with
      | error e1 => cases f2 <;> simp [FillLoopRel] at hf; exact .inr ⟨_, _, rfl, rfl⟩
      | ok x1 =>
        cases f2 with
        | error e2 => obtain ⟨l1, s1⟩ := x1; simp [FillLoopRel] at hf
        | ok x2 =>
          obtain ⟨l1, s1⟩ := x1
          obtain ⟨l2, s2⟩ := x2
          simp only [FillLoopRel] at hf
          exact ⟨rfl, rfl, TokEqL.append hl hf.1, hf.2⟩

theorem nextTok_rloc (cfg : LexCfg) (disc : String → Bool) : ∀ (n : Nat) (b1 b2 : Buf), RLoc b1 b2 →
    NextRel RLoc (nextTok cfg disc n b1) (nextTok cfg disc n b2) := by
  intro n
  induction n with
  | zero => intro b1 b2 _; exact ErrRel.refl _
  | succ n ih =>
    intro b1 b2 h
    obtain ⟨hb, hl, hs⟩ := h
    have hp := popSignificant_eqL disc hl
    simp only [nextTok]
    cases h1 : popSignificant disc b1.tokbuf with
    | some x1 =>
      cases h2 : popSignificant disc b2.tokbuf with
      | none => simp [h1, h2, PopRel] at hp
      | some x2 =>
        obtain ⟨t1, r1⟩ := x1
        obtain ⟨t2, r2⟩ := x2
        simp only [h1, h2, PopRel] at hp
        exact ⟨hp.1, hb, hp.2, hs⟩
    | none =>
      cases h2 : popSignificant disc b2.tokbuf with
      | some x => simp [h1, h2, PopRel] at hp
      | none =>
        simp only
        have hf := fill_rel cfg { b1 with tokbuf := [] } { b2 with tokbuf := [] } ⟨hb, .nil, hs⟩
        generalize fill cfg { b1 with tokbuf := [] } = f1 at hf ⊢
        generalize fill cfg { b2 with tokbuf := [] } = f2 at hf ⊢
        cases f1 with
        | error e1 => cases f2 <;> simp [FillRel] at hf; exact hf
        | ok x1 =>
          cases f2 with
          | error e2 => obtain ⟨y1, c1⟩ := x1; simp [FillRel] at hf
          | ok x2 =>
            obtain ⟨y1, c1⟩ := x1
            obtain ⟨y2, c2⟩ := x2
            simp only [FillRel] at hf
            obtain ⟨hy, hc⟩ := hf
            subst hy
            cases y1 with
            | false => exact hc
            | true => exact ih _ _ hc

theorem doxScan_rel : ∀ {l1 l2 : List Tok} {c1 c2 : List Tok}, TokEqL l1 l2 → TokEqL c1 c2 →
    TokEqL (doxScan c1 l1).1 (doxScan c2 l2).1 ∧ TokEqL (doxScan c1 l1).2.1 (doxScan c2 l2).2.1 ∧
      (doxScan c1 l1).2.2 = (doxScan c2 l2).2.2 := by
  intro l1 l2 c1 c2 hl
  induction hl generalizing c1 c2 with
  | nil => intro hc; exact ⟨hc, .nil, rfl⟩
  | cons ht hl ih =>
    intro hc
    simp only [doxScan, ← ht.1]
    split
    · exact ih .nil
    · split
      · exact ih hc
      · split
        · exact ih (TokEqL.append hc (.cons ht .nil))
        · exact ⟨hc, .cons ht hl, rfl⟩

theorem docLines_eq (mcRe : Re) {c1 c2 : List Tok} (h : TokEqL c1 c2) :
    c1.flatMap (docLinesOf mcRe) = c2.flatMap (docLinesOf mcRe) := by
  induction h with
  | nil => rfl
  | cons ht _ ih =>
    simp only [List.flatMap_cons, ih]
    congr 1
    simp only [docLinesOf, ht.1, ht.2.1]

theorem extractComments_eq (mcRe : Re) {c1 c2 : List Tok} (h : TokEqL c1 c2) :
    extractComments mcRe c1 = extractComments mcRe c2 := by
  simp only [extractComments, docLines_eq mcRe h]

theorem doxResult_eq (mcRe : Re) {c1 c2 : List Tok} (h : TokEqL c1 c2) :
    (if c1.isEmpty then none else extractComments mcRe c1) = (if c2.isEmpty then none else extractComments mcRe c2) := by
  rw [h.isEmpty, extractComments_eq mcRe h]

theorem getDoxygenLoop_rel (cfg : LexCfg) (mcRe : Re) : ∀ (n : Nat) (c1 c2 : List Tok) (b1 b2 : Buf),
    TokEqL c1 c2 → RLoc b1 b2 →
    DoxRel RLoc (getDoxygenLoop cfg mcRe n c1 b1) (getDoxygenLoop cfg mcRe n c2 b2) := by
  intro n
  induction n with
  | zero => intro c1 c2 b1 b2 _ _; exact ErrRel.refl _
  | succ n ih =>
    intro c1 c2 b1 b2 hc h
    obtain ⟨hb, hl, hs⟩ := h
    obtain ⟨hcs, hrest, hstop⟩ := doxScan_rel hl hc
    simp only [getDoxygenLoop, ← hstop]
    split
    · exact ⟨doxResult_eq mcRe hcs, hb, hrest, hs⟩
    · have hf := fill_rel cfg { b1 with tokbuf := (doxScan c1 b1.tokbuf).2.1 } { b2 with tokbuf := (doxScan c2 b2.tokbuf).2.1 } ⟨hb, hrest, hs⟩
      generalize fill cfg { b1 with tokbuf := (doxScan c1 b1.tokbuf).2.1 } = f1 at hf ⊢
      generalize fill cfg { b2 with tokbuf := (doxScan c2 b2.tokbuf).2.1 } = f2 at hf ⊢
      cases f1 with
      | error e1 => cases f2 <;> simp [FillRel] at hf; exact hf
      | ok x1 =>
        cases f2 with
        | error e2 => obtain ⟨y1, d1⟩ := x1; simp [FillRel] at hf
        | ok x2 =>
          obtain ⟨y1, d1⟩ := x1
          obtain ⟨y2, d2⟩ := x2
          simp only [FillRel] at hf
          obtain ⟨hy, hd⟩ := hf
          subst hy
          cases y1 with
          | false => exact ⟨doxResult_eq mcRe hcs, hd⟩
          | true => exact ih _ _ _ _ hcs hd

theorem doxAfterScan_rel : ∀ {l1 l2 c1 c2 n1 n2 : List Tok}, TokEqL l1 l2 → TokEqL c1 c2 → TokEqL n1 n2 →
    TokEqL (doxAfterScan c1 n1 l1).1 (doxAfterScan c2 n2 l2).1 ∧
    TokEqL (doxAfterScan c1 n1 l1).2.1 (doxAfterScan c2 n2 l2).2.1 ∧
    TokEqL (doxAfterScan c1 n1 l1).2.2 (doxAfterScan c2 n2 l2).2.2 := by
  intro l1 l2 c1 c2 n1 n2 hl
  induction hl generalizing c1 c2 n1 n2 with
  | nil => intro hc hn; exact ⟨hc, hn, .nil⟩
  | cons ht hl ih =>
    intro hc hn
    simp only [doxAfterScan, ← ht.1]
    split
    · exact ⟨hc, TokEqL.append hn (.cons ht .nil), hl⟩
    · split
      · exact ih hc (TokEqL.append hn (.cons ht .nil))
      · split
        · exact ih (TokEqL.append hc (.cons ht .nil)) hn
        · rw [← hc.isEmpty]
          split
          · exact ⟨hc, TokEqL.append hn (.cons ht .nil), hl⟩
          · exact ih hc (TokEqL.append hn (.cons ht .nil))

theorem rloc_bisim (env : Env) : StreamBisim env RLoc where
  next := by
    intro nl b1 b2 h
    unfold nextOp tokenNewlineEofOk tokenEofOk fuelFor
    have : b1.lex.rest.length = b2.lex.rest.length := by rw [h.2.2]
    rw [this]
    split
    · exact nextTok_rloc _ _ _ _ _ h
    · exact nextTok_rloc _ _ _ _ _ h
  unread := by
    intro ts1 ts2 b1 b2 h hts
    exact ⟨h.1, TokEqL.append hts h.2.1, h.2.2⟩
  curLoc := by
    intro b1 b2 h
    obtain ⟨hb, hl, hs⟩ := h
    unfold currentLocation
    cases h1 : b1.tokbuf with
    | nil =>
      cases h2 : b2.tokbuf with
      | nil =>
        simp only [← hb]
        split
        · exact ErrRel.refl _
        · simp [LocRel]
      | cons t2 r2 => rw [h1, h2] at hl; cases hl
    | cons t1 r1 =>
      cases h2 : b2.tokbuf with
      | nil => rw [h1, h2] at hl; cases hl
      | cons t2 r2 => simp only [LocRel]
  dox := by
    intro b1 b2 h
    unfold getDoxygen
    rw [← h.1, ← h.2.1.isEmpty]
    split
    · exact ⟨rfl, h⟩
    · split
      · have hf := fill_rel env.cfg b1 b2 h
        generalize fill env.cfg b1 = f1 at hf ⊢
        generalize fill env.cfg b2 = f2 at hf ⊢
        cases f1 with
        | error e1 => cases f2 <;> simp [FillRel] at hf; exact hf
        | ok x1 =>
          cases f2 with
          | error e2 => obtain ⟨y1, d1⟩ := x1; simp [FillRel] at hf
          | ok x2 =>
            obtain ⟨y1, d1⟩ := x1
            obtain ⟨y2, d2⟩ := x2
            simp only [FillRel] at hf
            obtain ⟨hy, hd⟩ := hf
            subst hy
            cases y1 with
            | false => exact ⟨rfl, hd⟩
            | true =>
              simp only [fuelFor]
              have : d1.lex.rest.length = d2.lex.rest.length := by rw [hd.2.2]
              rw [this]
              exact getDoxygenLoop_rel _ _ _ _ _ _ _ .nil hd
      · simp only [fuelFor]
        have : b1.lex.rest.length = b2.lex.rest.length := by rw [h.2.2]
        rw [this]
        exact getDoxygenLoop_rel _ _ _ _ _ _ _ .nil h
  doxAfter := by
    intro b1 b2 h
    unfold getDoxygenAfter
    rw [← h.1, ← h.2.1.isEmpty]
    split
    · exact ⟨rfl, h⟩
    · split
      · exact ⟨rfl, h⟩
      · obtain ⟨hc, hn, hr⟩ := doxAfterScan_rel (c1 := []) (c2 := []) (n1 := []) (n2 := []) h.2.1 .nil .nil
        simp only
        exact ⟨doxResult_eq env.mcRe hc, rfl, TokEqL.append hn hr, h.2.2⟩
  bounded := by
    intro ts1 ts2 h
    exact ⟨rfl, h, rfl⟩
  hasTokens := by
    intro b1 b2 h _
    exact h.2.1.isEmpty

end Cxx
