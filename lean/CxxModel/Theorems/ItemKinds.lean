import CxxModel.Theorems.Items

/-!
# The proven declaration forms as `Item`s

Each `toplevel_*` theorem becomes an `Item`; `Item.ns` wraps an item in `namespace N { … }`.
The parser is run at the depth `core F (D + 4)` so that every form's recursion budget fits.
-/

namespace Cxx
open P


/-- an item that is ONE iteration delivering ONE callback and moving only the block's location -/
def Item.single {env : Env} {F : Nat} {c : Core} (At : Buf → Buf → Prop) (E : Block → List Block → Event → Prop)
    (at_sigEq : ∀ {b b' k : Buf}, At b b' → SigEq b k → ∃ k', At k k' ∧ SigEq b' k')
    (sound : ∀ (w : World) (b' : Buf) (blk : Block) (rest : List Block), w.stack = blk :: rest → blk.hdr.kind ≠ .cls →
      w.muted = false → At w.buf b' → ∃ (w7 : World) (l : LocRef) (ev : Event),
        interp env (mainBody F c none) w = (w7, .ok (.inl none)) ∧ SigEq b' w7.buf ∧ w7.stack = { blk with loc := l } :: rest ∧
        w7.events = w.events ++ [ev] ∧ E blk rest ev ∧ w7.muted = false) : Item env F c where
  At := At
  Ev := fun blk rest evs => ∃ ev, evs = [ev] ∧ E blk rest ev
  size := 1
  at_sigEq := at_sigEq
  sound := by
    intro w b' blk rest hst hk hmu hat
    obtain ⟨w7, l, ev, hi, hb, hst7, hev, hE, hmu7⟩ := sound w b' blk rest hst hk hmu hat
    exact ⟨w7, [ev], ⟨⟨[w7], .one hi, rfl⟩, hb, ⟨_, hst7, Block.sameButLoc_setLoc blk l⟩, hev, hmu7⟩, ev, rfl, hE⟩

/-- the event `ev` is an item callback with payload `p` for block `blk` under `rest` -/
def ItemEvent (blk : Block) (rest : List Block) (ev : Event) (p : Payload) : Prop :=
  ev.kind = .item p ∧ ev.stateId = blk.id ∧ ev.parentId = rest.head?.map (·.id)

section kinds
variable (env : Env) (hp : RulesProgress env.cfg = true) (hnf : env.faultAt = none) (F D : Nat)

/-- a stray `;` -/
def Item.semicolon : Item env F (core F (D + 1 + 1 + 1 + 1)) where
  At := fun b b' => ∃ t, tokenEofOk env.cfg b = .ok (some t, b') ∧ t.type = ";"
  Ev := fun _ _ evs => evs = []
  size := 1
  at_sigEq := by
    intro b b' k ⟨t, h1, h2⟩ hs
    obtain ⟨k', hk, hs'⟩ := tokenEofOk_of_sigEq env.cfg hs h1
    exact ⟨k', ⟨t, hk, h2⟩, hs'⟩
  sound := by
    intro w b' blk rest hst hk hmu ⟨t, h1, h2⟩
    obtain ⟨wA, ct, hs, hb, _, hi⟩ := toplevel_semicolon env hp F (core F (D + 1 + 1 + 1 + 1)) w t b' h1 h2
    refine ⟨{ wA with mainTok := some ct }, [], ⟨⟨[_], .one hi, rfl⟩, by show SigEq b' wA.buf; rw [hb]; exact .refl _,
      ⟨blk, by show wA.stack = _; rw [hs.stack]; exact hst, .refl _⟩, by show wA.events = _; rw [hs.events]; simp,
      by show wA.muted = _; rw [hs.muted]; exact hmu⟩, rfl⟩

/-- the significant tokens of `first (:: name)* ptr-ops x ;` -/
def VarDeclToks.toks (v : VarDeclToks) : List Tok :=
  v.first :: (v.pairs.flatMap (fun p => [p.1, p.2]) ++ (v.ops ++ [v.x, v.semi]))

/-- the side conditions of the plain declaration form -/
def VarDeclToks.OK (v : VarDeclToks) (F : Nat) : Prop :=
  v.first.type = "NAME" ∧ identVal v.first.value = true ∧
    (∀ p ∈ v.pairs, p.1.type = "DBL_COLON" ∧ p.2.type = "NAME" ∧ plainVal p.2.value = true) ∧
    opsHeadOk v.ops = true ∧ (∀ o ∈ v.ops, o.value ≠ "auto") ∧
    applyPtrOps (.type (.mk (.name v.first.value none :: v.pairs.map (fun p => .name p.2.value none)) none false) false false)
      (v.ops.map (·.type)) = some v.d1 ∧
    v.x.type = "NAME" ∧ identVal v.x.value = true ∧ v.semi.type = ";" ∧ v.pairs.length + v.ops.length + 2 ≤ F

theorem VarDeclToks.at_of_yields {cfg : LexCfg} {v : VarDeclToks} {G : Nat} {b b' : Buf} (hok : v.OK G)
    (hy : Yields cfg b v.toks b') : VarDeclAt cfg b v b' := by
  obtain ⟨h2, h3, h4, h6, h7, h9, h11, h12, h14, _⟩ := hok
  obtain ⟨b1, h1, hy⟩ := hy.cons_inv
  obtain ⟨b0, h5, hy⟩ := hy.split
  obtain ⟨bmid, h8, hy⟩ := hy.split
  obtain ⟨bx, h10, hy⟩ := hy.cons_inv
  exact ⟨b1, b0, bmid, bx, h1, h2, h3, h4, h5, h6, h7, h8, h9, h10, h11, h12, hy.single_inv, h14⟩

/-- `T ptr-ops x ;` at namespace scope -/
def Item.variable (v : VarDeclToks) : Item env F (core F (D + 1 + 1 + 1 + 1)) :=
  Item.single (fun b b' => v.OK F ∧ Yields env.cfg b v.toks b')
    (fun blk rest ev => ∃ dox, ItemEvent blk rest ev (.variable (plainVariable v.x v.d1 dox)))
    (by
      intro b b' k ⟨hok, hy⟩ hs
      obtain ⟨k', hy', hs'⟩ := hy.sigEq hs
      exact ⟨k', ⟨hok, hy'⟩, hs'⟩)
    (by
      intro w b' blk rest hst hk hmu ⟨hok, hy⟩
      obtain ⟨b1, b0, bmid, bx, h1, h2, h3, h4, h5, h6, h7, h8, h9, h10, h11, h12, h13, h14⟩ := VarDeclToks.at_of_yields hok hy
      obtain ⟨d, bD, w7, ct, dox, ev, _, hi7, hsig7, _, hst7, hev7, hk7, hid7, hpar7, _, _, _, hmu7, _⟩ :=
        toplevel_variable env hp F (D + 1 + 1) w v.first v.pairs v.ops v.x v.semi v.d1 b1 b0 bmid bx b' blk rest hst hk hmu
          (by rw [hnf]; simp) h1 h2 h3 h4 h5 h6 h7 h8 h9 h10 h11 h12 h13 h14 hok.2.2.2.2.2.2.2.2.2
      exact ⟨w7, _, ev, hi7, hsig7, hst7, hev7, ⟨dox, hk7, hid7, hpar7⟩, hmu7⟩)

/-- an item given by its list of significant tokens, side conditions `OK`, and ONE callback -/
def Item.ofToks {c : Core} (toks : List Tok) (OK : Prop) (E : Block → List Block → Event → Prop)
    (sound : ∀ (w : World) (b' : Buf) (blk : Block) (rest : List Block), w.stack = blk :: rest → blk.hdr.kind ≠ .cls →
      w.muted = false → OK → Yields env.cfg w.buf toks b' → ∃ (w7 : World) (l : LocRef) (ev : Event),
        interp env (mainBody F c none) w = (w7, .ok (.inl none)) ∧ SigEq b' w7.buf ∧ w7.stack = { blk with loc := l } :: rest ∧
        w7.events = w.events ++ [ev] ∧ E blk rest ev ∧ w7.muted = false) : Item env F c :=
  Item.single (fun b b' => OK ∧ Yields env.cfg b toks b') E
    (by
      intro b b' k ⟨hok, hy⟩ hs
      obtain ⟨k', hy', hs'⟩ := hy.sigEq hs
      exact ⟨k', ⟨hok, hy'⟩, hs'⟩)
    (fun w b' blk rest hst hk hmu ⟨hok, hy⟩ => sound w b' blk rest hst hk hmu hok hy)

def flatPairs (pairs : List (Tok × Tok)) : List Tok := pairs.flatMap (fun p => [p.1, p.2])

/-- `using namespace a::b;` -/
def Item.usingNamespace (kwU kwN first : Tok) (pairs : List (Tok × Tok)) (semi : Tok) : Item env F (core F (D + 1 + 1 + 1 + 1)) :=
  Item.ofToks env F (kwU :: ((kwN :: first :: pairs.flatMap (fun p => [p.1, p.2])) ++ [semi]))
    (kwU.type = "using" ∧ kwN.type = "namespace" ∧ first.type = "NAME" ∧
      (∀ p ∈ pairs, p.1.type = "DBL_COLON" ∧ p.2.type = "NAME") ∧ semi.type = ";" ∧ pairs.length + 1 ≤ F)
    (fun blk rest ev => ItemEvent blk rest ev (.usingNamespace (first.value :: pairs.map (·.2.value))))
    (by
      intro w b' blk rest hst hk hmu ⟨h1, h2, h3, h4, h5, h6⟩ hy
      obtain ⟨w2, ct, ev, hi, hb, _, hst2, hev, hk2, hid, hpar, _, _, hmu2⟩ :=
        toplevel_using_namespace env hp F (core F (D + 1 + 1 + 1 + 1)) w kwU kwN first pairs semi b' blk rest hst hk hmu
          (by rw [hnf]; simp) h1 h2 h3 h4 h5 hy h6
      exact ⟨w2, _, ev, hi, by rw [hb]; exact .refl _, hst2, hev, ⟨hk2, hid, hpar⟩, hmu2⟩)

/-- `using a::b;` -/
def Item.usingDeclaration (kwU first : Tok) (pairs : List (Tok × Tok)) (semi : Tok) : Item env F (core F (D + 1 + 1 + 1 + 1)) :=
  Item.ofToks env F (kwU :: ((first :: pairs.flatMap (fun p => [p.1, p.2])) ++ [semi]))
    (kwU.type = "using" ∧ first.type = "NAME" ∧ plainVal first.value = true ∧ Gen.nameCompoundStart.contains first.value = false ∧
      (∀ p ∈ pairs, p.1.type = "DBL_COLON" ∧ p.2.type = "NAME" ∧ plainVal p.2.value = true) ∧ semi.type = ";" ∧ pairs.length + 1 ≤ F)
    (fun blk rest ev => ∃ d, ItemEvent blk rest ev (.usingDeclaration {
        typename := .mk (.name first.value none :: pairs.map (fun p => .name p.2.value none)) none false,
        access := none, doxygen := d }))
    (by
      intro w b' blk rest hst hk hmu ⟨h1, h2, h3, h4, h5, h6, h7⟩ hy
      obtain ⟨d, bD, w2, ct, ev, _, hi, hb, _, hst2, hev, hk2, hid, hpar, _, _, hmu2, _⟩ :=
        toplevel_using_declaration env hp F (D + 1 + 1 + 1) w kwU first pairs semi b' blk rest hst hmu
          (by rw [hnf]; simp) h1 h2 h3 h4 h5 h6 hy h7
      simp only [hk, ↓reduceIte] at hk2
      exact ⟨w2, _, ev, hi, by rw [hb]; exact .refl _, hst2, hev, ⟨d, hk2, hid, hpar⟩, hmu2⟩)

/-- `typedef T ptr-ops x;` -/
def Item.typedef (kw : Tok) (v : VarDeclToks) : Item env F (core F (D + 1 + 1 + 1 + 1)) :=
  Item.ofToks env F (kw :: v.toks) (kw.type = "typedef" ∧ v.x.value ≠ "" ∧ v.OK F)
    (fun blk rest ev => ItemEvent blk rest ev (.typedef (plainTypedef v.x v.d1 blk)))
    (by
      intro w b' blk rest hst hk hmu ⟨hkw, hxne, hok⟩ hy
      obtain ⟨bk, h0, hy⟩ := hy.cons_inv
      obtain ⟨b1, b0, bmid, bx, h1, h2, h3, h4, h5, h6, h7, h8, h9, h10, h11, h12, h13, h14⟩ := VarDeclToks.at_of_yields hok hy
      obtain ⟨w7, ct, ev, hi7, hsig7, _, hst7, hev7, hk7, hid7, hpar7, _, _, hmu7, _⟩ :=
        toplevel_typedef env hp F (D + 1 + 1) w kw v.first v.pairs v.ops v.x v.semi v.d1 bk b1 b0 bmid bx b' blk rest hst hxne hmu
          (by rw [hnf]; simp) h0 hkw h1 h2 h3 h4 h5 h6 h7 h8 h9 h10 h11 h12 h13 h14 hok.2.2.2.2.2.2.2.2.2
      exact ⟨w7, _, ev, hi7, hsig7, hst7, hev7, ⟨hk7, hid7, hpar7⟩, hmu7⟩)

/-- `class a::b;` (also `struct`, `union`) -/
def Item.forwardDecl (kw first : Tok) (pairs : List (Tok × Tok)) (semi : Tok) : Item env F (core F (D + 1 + 1 + 1 + 1)) :=
  Item.ofToks env F (kw :: first :: (pairs.flatMap (fun p => [p.1, p.2]) ++ [semi]))
    (isClassKey kw.value = true ∧ kw.type = kw.value ∧ first.type = "NAME" ∧ plainVal first.value = true ∧
      (∀ p ∈ pairs, p.1.type = "DBL_COLON" ∧ p.2.type = "NAME" ∧ plainVal p.2.value = true) ∧ semi.type = ";" ∧ pairs.length + 2 ≤ F)
    (fun blk rest ev => ∃ d, ItemEvent blk rest ev (.forwardDecl (plainFwd kw.value first pairs blk d)))
    (by
      intro w b' blk rest hst hk hmu ⟨h1, h2, h3, h4, h5, h6, h7⟩ hy
      obtain ⟨bk, t0, hy⟩ := hy.cons_inv
      obtain ⟨b1, t1, hy⟩ := hy.cons_inv
      obtain ⟨bmid, hy1, hy⟩ := hy.split
      obtain ⟨d, bD, w7, ct, ev, _, hi7, hb, hst7, hev7, hk7, hid7, hpar7, _, _, hmu7, _⟩ :=
        toplevel_forward_decl env hp F (D + 1 + 1) w kw first pairs semi bk b1 bmid b' blk rest hst hmu (by rw [hnf]; simp)
          t0 h1 h2 t1 h3 h4 h5 hy1 hy.single_inv h6 h7
      exact ⟨w7, _, ev, hi7, by rw [hb]; exact .refl _, hst7, hev7, ⟨d, hk7, hid7, hpar7⟩, hmu7⟩)

/-- `using A = T ptr-ops;` -/
def Item.usingAlias (kw a eq first : Tok) (pairs : List (Tok × Tok)) (ops : List Tok) (semi : Tok) (d1 : DType) :
    Item env F (core F (D + 1 + 1 + 1 + 1)) :=
  Item.ofToks env F (kw :: a :: eq :: first :: (pairs.flatMap (fun p => [p.1, p.2]) ++ (ops ++ [semi])))
    (kw.type = "using" ∧ a.type = "NAME" ∧ eq.type = "=" ∧ first.type = "NAME" ∧ identVal first.value = true ∧
      (∀ p ∈ pairs, p.1.type = "DBL_COLON" ∧ p.2.type = "NAME" ∧ plainVal p.2.value = true) ∧ opsHeadOk ops = true ∧
      applyPtrOps (.type (.mk (.name first.value none :: pairs.map (fun p => .name p.2.value none)) none false) false false)
        (ops.map (·.type)) = some d1 ∧ semi.type = ";" ∧ pairs.length + ops.length + 2 ≤ F)
    (fun blk rest ev => ∃ d, ItemEvent blk rest ev (.usingAlias (plainAlias a d1 blk d)))
    (by
      intro w b' blk rest hst hk hmu ⟨h1, h2, h3, h4, h5, h6, h7, h8, h9, h10⟩ hy
      obtain ⟨bk, t0, hy⟩ := hy.cons_inv
      obtain ⟨ba, t1, hy⟩ := hy.cons_inv
      obtain ⟨bq, t2, hy⟩ := hy.cons_inv
      obtain ⟨b1, t3, hy⟩ := hy.cons_inv
      obtain ⟨b0, hy0, hy⟩ := hy.split
      obtain ⟨bmid, hy1, hy⟩ := hy.split
      obtain ⟨d, bD, w7, ct, ev, _, hi7, hb, _, hst7, hev7, hk7, hid7, hpar7, _, _, hmu7, _⟩ :=
        toplevel_using_alias env hp F (D + 1 + 1) w kw a eq first pairs ops semi d1 bk ba bq b1 b0 bmid b' blk rest hst hmu
          (by rw [hnf]; simp) t0 h1 t1 h2 t2 h3 t3 h4 h5 h6 hy0 h7 hy1 h8 hy.single_inv h9 h10
      exact ⟨w7, _, ev, hi7, by rw [hb]; exact .refl _, hst7, hev7, ⟨d, hk7, hid7, hpar7⟩, hmu7⟩)

/-- the shared side conditions of `T ptr-ops x` at the start of a function declaration -/
def FnHeadOK (first : Tok) (pairs : List (Tok × Tok)) (ops : List Tok) (x : Tok) (d1 : DType) (F : Nat) : Prop :=
  first.type = "NAME" ∧ identVal first.value = true ∧
    (∀ p ∈ pairs, p.1.type = "DBL_COLON" ∧ p.2.type = "NAME" ∧ plainVal p.2.value = true) ∧
    opsHeadOk ops = true ∧ (∀ o ∈ ops, o.value ≠ "auto") ∧
    applyPtrOps (.type (.mk (.name first.value none :: pairs.map (fun p => .name p.2.value none)) none false) false false)
      (ops.map (·.type)) = some d1 ∧
    x.type = "NAME" ∧ identVal x.value = true ∧ pairs.length + ops.length + 2 ≤ F

/-- `T ptr-ops f();` -/
def Item.function (first : Tok) (pairs : List (Tok × Tok)) (ops : List Tok) (x op cp semi : Tok) (d1 : DType) :
    Item env F (core F (D + 1 + 1 + 1 + 1)) :=
  Item.ofToks env F (first :: (pairs.flatMap (fun p => [p.1, p.2]) ++ (ops ++ [x, op, cp, semi])))
    (FnHeadOK first pairs ops x d1 F ∧ op.type = "(" ∧ cp.type = ")" ∧ semi.type = ";")
    (fun blk rest ev => ∃ d, ItemEvent blk rest ev (.function (plainFunction x d1 d)))
    (by
      intro w b' blk rest hst hk hmu ⟨⟨h1, h2, h3, h4, h5, h6, h7, h8, h9⟩, ho, hc, hs⟩ hy
      obtain ⟨b1, t0, hy⟩ := hy.cons_inv
      obtain ⟨b0, hy0, hy⟩ := hy.split
      obtain ⟨bmid, hy1, hy⟩ := hy.split
      obtain ⟨bx, t1, hy⟩ := hy.cons_inv
      obtain ⟨bo, t2, hy⟩ := hy.cons_inv
      obtain ⟨bc, t3, hy⟩ := hy.cons_inv
      obtain ⟨d, bD, w7, ct, ev, _, hi7, hb, _, hst7, hev7, hk7, hid7, hpar7, _, _, hmu7, _⟩ :=
        toplevel_function env hp F (D + 1 + 1) w first pairs ops x op cp semi d1 b1 b0 bmid bx bo bc b' blk rest hst hk hmu
          (by rw [hnf]; simp) t0 h1 h2 h3 hy0 h4 h5 hy1 h6 t1 h7 h8 t2 ho t3 hc hy.single_inv hs h9
      exact ⟨w7, _, ev, hi7, by rw [hb]; exact .refl _, hst7, hev7, ⟨d, hk7, hid7, hpar7⟩, hmu7⟩)

/-- `T ptr-ops f(P₁, …, Pₙ);` with n ≥ 1 parameters of the plain form -/
def Item.functionParams (first : Tok) (pairs : List (Tok × Tok)) (ops : List Tok) (x op : Tok) (ps : List (PItem × DType × Tok))
    (last : PItem × DType) (cp semi : Tok) (d1 : DType) : Item env F (core F (D + 1 + 1 + 1 + 1)) :=
  Item.ofToks env F (first :: (pairs.flatMap (fun p => [p.1, p.2]) ++ (ops ++ (x :: op ::
      ((ps.flatMap (fun q => q.1.toks ++ [q.2.2]) ++ (last.1.toks ++ [cp])) ++ [semi])))))
    (FnHeadOK first pairs ops x d1 F ∧ op.type = "(" ∧
      (∀ q ∈ ps, q.1.OK q.2.1 ∧ q.2.2.type = "," ∧ q.2.2.value ≠ ")" ∧ q.1.pairs.length + q.1.ops.length + 2 ≤ F) ∧
      last.1.OK last.2 ∧ last.1.pairs.length + last.1.ops.length + 2 ≤ F ∧ cp.type = ")" ∧ cp.value = ")" ∧ ps.length + 1 ≤ F ∧
      semi.type = ";")
    (fun blk rest ev => ∃ d, ItemEvent blk rest ev (.function { plainFunction x d1 d with
        parameters := ps.map (fun q => q.1.param q.2.1) ++ [last.1.param last.2] }))
    (by
      intro w b' blk rest hst hk hmu ⟨⟨h1, h2, h3, h4, h5, h6, h7, h8, h9⟩, ho, hps, hl, hlF, hc, hcv, hFp, hs⟩ hy
      obtain ⟨b1, t0, hy⟩ := hy.cons_inv
      obtain ⟨b0, hy0, hy⟩ := hy.split
      obtain ⟨bmid, hy1, hy⟩ := hy.split
      obtain ⟨bx, t1, hy⟩ := hy.cons_inv
      obtain ⟨bo, t2, hy⟩ := hy.cons_inv
      obtain ⟨bc, hyp, hy⟩ := hy.split
      obtain ⟨d, bD, w7, ct, ev, _, hi7, hb, _, hst7, hev7, hk7, hid7, hpar7, _, _, hmu7, _⟩ :=
        toplevel_function_params env hp F D w first pairs ops x op ps last cp semi d1 b1 b0 bmid bx bo bc b' blk rest hst hk hmu
          (by rw [hnf]; simp) t0 h1 h2 h3 hy0 h4 h5 hy1 h6 t1 h7 h8 t2 ho hps hl hlF hc hcv hyp hFp hy.single_inv hs h9
      exact ⟨w7, _, ev, hi7, by rw [hb]; exact .refl _, hst7, hev7, ⟨d, hk7, hid7, hpar7⟩, hmu7⟩)

/-- `T ptr-ops x = value-tokens;` -/
def Item.variableInit (first : Tok) (pairs : List (Tok × Tok)) (ops : List Tok) (x eq : Tok) (vals : List Tok) (semi : Tok)
    (d1 : DType) : Item env F (core F (D + 1 + 1 + 1 + 1)) :=
  Item.ofToks env F (first :: (pairs.flatMap (fun p => [p.1, p.2]) ++ (ops ++ (x :: eq :: (vals ++ [semi])))))
    (FnHeadOK first pairs ops x d1 F ∧ eq.type = "=" ∧ TopLevel [",", ";"] (vals.map (·.type)) ∧ semi.type = ";" ∧ vals.length + 2 ≤ F)
    (fun blk rest ev => ∃ dox, ItemEvent blk rest ev (.variable (initVariable x d1 vals dox)))
    (by
      intro w b' blk rest hst hk hmu ⟨⟨h1, h2, h3, h4, h5, h6, h7, h8, h9⟩, he, htl, hs, hFv⟩ hy
      obtain ⟨G, rfl⟩ : ∃ G, F = G + 1 := ⟨F - 1, by omega⟩
      obtain ⟨b1, t0, hy⟩ := hy.cons_inv
      obtain ⟨b0, hy0, hy⟩ := hy.split
      obtain ⟨bmid, hy1, hy⟩ := hy.split
      obtain ⟨bx, t1, hy⟩ := hy.cons_inv
      obtain ⟨bq, t2, hy⟩ := hy.cons_inv
      obtain ⟨bv, hyv, hy⟩ := hy.split
      obtain ⟨d, bD, w7, ct, dox, ev, _, hi7, hsig, _, hst7, hev7, hk7, hid7, hpar7, _, _, _, hmu7, _⟩ :=
        toplevel_variable_init env hp G (D + 1 + 1) w first pairs ops x eq vals semi d1 b1 b0 bmid bx bq bv b' blk rest hst hk hmu
          (by rw [hnf]; simp) t0 h1 h2 h3 hy0 h4 h5 hy1 h6 t1 h7 h8 t2 he hyv htl hy.single_inv hs h9 (by omega)
      exact ⟨w7, _, ev, hi7, hsig, hst7, hev7, ⟨dox, hk7, hid7, hpar7⟩, hmu7⟩)

theorem enum_cs_hyp (cfg : LexCfg) (cs : Option Tok) (bk b0 : Buf) (hcs : Yields cfg bk cs.toList b0)
    (h3 : ∀ c, cs = some c → (c.type = "class" ∨ c.type = "struct")) :
    match (generalizing := false) cs with
    | none => b0 = bk
    | some c => tokenEofOk cfg bk = .ok (some c, b0) ∧ (c.type = "class" ∨ c.type = "struct") := by
  cases cs with
  | none => cases hcs; rfl
  | some c => exact ⟨hcs.single_inv, h3 c rfl⟩

/-- `enum [class|struct] a::b { e₁ [= v₁], …, eₙ [= vₙ] };` -/
def Item.enum (kw : Tok) (cs : Option Tok) (first : Tok) (pairs : List (Tok × Tok)) (ob : Tok) (pre : List EItem) (last : EItem)
    (semi : Tok) : Item env F (core F (D + 1 + 1 + 1 + 1)) :=
  Item.ofToks env F (kw :: (cs.toList ++ (first :: (pairs.flatMap (fun p => [p.1, p.2]) ++
      (ob :: ((pre ++ [last]).flatMap EItem.toks ++ [semi]))))))
    (kw.value = "enum" ∧ kw.type = "enum" ∧ (∀ c, cs = some c → (c.type = "class" ∨ c.type = "struct") ∧ c.value = c.type) ∧
      first.type = "NAME" ∧ plainVal first.value = true ∧
      (∀ p ∈ pairs, p.1.type = "DBL_COLON" ∧ p.2.type = "NAME" ∧ plainVal p.2.value = true) ∧ ob.type = "{" ∧
      (∀ i ∈ pre, i.OK ∧ i.sep.type = "," ∧ i.toks.length + 2 ≤ F) ∧ (last.OK ∧ last.sep.type = "}" ∧ last.toks.length + 2 ≤ F) ∧
      semi.type = ";" ∧ pairs.length + 2 ≤ F ∧ pre.length + 1 ≤ F)
    (fun blk rest ev => ∃ d vs, vs.map Enumerator.nv = (pre ++ [last]).map EItem.nv ∧
      ItemEvent blk rest ev (.enum (plainEnum cs first pairs vs blk d)))
    (by
      intro w b' blk rest hst hk hmu ⟨h1, h2, h3, h4, h5, h6, h7, h8, h9, h10, h11, h12⟩ hy
      obtain ⟨bk, t0, hy⟩ := hy.cons_inv
      obtain ⟨b0, hcs, hy⟩ := hy.split
      obtain ⟨b1, t1, hy⟩ := hy.cons_inv
      obtain ⟨bmid, hy1, hy⟩ := hy.split
      obtain ⟨bl, t2, hy⟩ := hy.cons_inv
      have hcs' := enum_cs_hyp env.cfg cs bk b0 hcs (fun c hc => (h3 c hc).1)
      obtain ⟨d, bD, w7, ct, vs, ev, _, hi7, hvs, hsig, hst7, hev7, hk7, hid7, hpar7, _, _, hmu7, _⟩ :=
        toplevel_enum env hp F (D + 1 + 1) w kw cs first pairs ob pre last semi bk b0 b1 bmid bl b' blk rest hst
          (fun hc => absurd hc hk) hmu (by rw [hnf]; simp) t0 h1 h2 hcs' (fun c hc => (h3 c hc).2) t1 h4 h5 h6 hy1 t2 h7 h8 h9 hy h10 h11 h12
      exact ⟨w7, _, ev, hi7, hsig, hst7, hev7, ⟨d, vs, hvs, hk7, hid7, hpar7⟩, hmu7⟩)

/-- `T d₁, d₂, …, dₙ;` — one `on_variable` per declarator, in order -/
def Item.variables (first : Tok) (pairs : List (Tok × Tok)) (ds : List (Dtor × DType)) (last : Dtor × DType) :
    Item env F (core F (D + 1 + 1 + 1 + 1)) where
  At := fun b b' =>
    (first.type = "NAME" ∧ identVal first.value = true ∧
      (∀ p ∈ pairs, p.1.type = "DBL_COLON" ∧ p.2.type = "NAME" ∧ plainVal p.2.value = true) ∧
      opsHeadOk (firstDtor ds last).ops = true ∧ (∀ o ∈ (firstDtor ds last).ops, o.value ≠ "auto") ∧
      (∀ p ∈ ds, p.1.OK (.type (.mk (.name first.value none :: pairs.map (fun p => .name p.2.value none)) none false) false false) p.2 ∧
        p.1.sep.type = "," ∧ p.1.ops.length + 1 ≤ F) ∧
      last.1.OK (.type (.mk (.name first.value none :: pairs.map (fun p => .name p.2.value none)) none false) false false) last.2 ∧
      last.1.sep.type = ";" ∧ last.1.ops.length + 1 ≤ F ∧ pairs.length + 2 ≤ F ∧ ds.length + 1 ≤ F) ∧
    Yields env.cfg b (first :: (pairs.flatMap (fun p => [p.1, p.2]) ++ (ds.flatMap (fun p => p.1.toks) ++ last.1.toks))) b'
  Ev := fun blk rest evs => ∃ doxs : List (Option String), doxs.length = ds.length + 1 ∧
    evs.map (·.kind) = varKinds (ds ++ [last]) doxs ∧ (∀ e ∈ evs, e.stateId = blk.id ∧ e.parentId = rest.head?.map (·.id))
  size := 1
  at_sigEq := by
    intro b b' k ⟨hok, hy⟩ hs
    obtain ⟨k', hy', hs'⟩ := hy.sigEq hs
    exact ⟨k', ⟨hok, hy'⟩, hs'⟩
  sound := by
    intro w b' blk rest hst hk hmu ⟨⟨h1, h2, h3, h4, h5, h6, h7, h8, h9, h10, h11⟩, hy⟩
    obtain ⟨b1, t0, hy⟩ := hy.cons_inv
    obtain ⟨b0, hy0, hy⟩ := hy.split
    obtain ⟨d, bD, wF, evs, doxs, blkF, _, hi, hsig, hstF, _, _, hev, hdl, hkinds, hall, _, _, _, hmuF, _, l, hl⟩ :=
      toplevel_variables_loc env hp hnf F (D + 1 + 1) w first pairs ds last b1 b0 b' blk rest hst hk hmu t0 h1 h2 h3 hy0 h4 h5 h6 h7 h8 h9
        hy h10 h11
    exact ⟨wF, evs, ⟨⟨[wF], .one hi, rfl⟩, hsig, ⟨blkF, hstF, by rw [hl]; exact Block.sameButLoc_setLoc blk l⟩, hev, hmuF⟩,
      doxs, hdl, hkinds, hall⟩

/-! ### `namespace N { … }` -/

/-- the callbacks of a block: its start, what is inside, its end — all for the same fresh block `nb`,
    a child of `blk` -/
def BlockEvents (blk : Block) (hdrOK : BlockHdr → Prop) (inner : Block → List Event → Prop) (evs : List Event) : Prop :=
  ∃ (nb : Block) (s e : Event) (mid : List Event), evs = s :: (mid ++ [e]) ∧
    s.kind = .blockStart ∧ s.stateId = nb.id ∧ s.parentId = some blk.id ∧ s.hdr = nb.hdr ∧ hdrOK nb.hdr ∧
    inner nb mid ∧ e.kind = .blockEnd ∧ e.stateId = nb.id ∧ e.parentId = some blk.id

variable (hskip : ∀ i h, env.skip i h = false)

/-- **`namespace a::b { body }` is an item whenever `body` is** -/
def Item.ns (names : List String) (body : Item env F (core F (D + 1 + 1 + 1 + 1))) : Item env F (core F (D + 1 + 1 + 1 + 1)) where
  At := fun b b' => ∃ (kw first : Tok) (pairs : List (Tok × Tok)) (ob cl : Tok) (b1 b2 : Buf),
    kw.type = "namespace" ∧ first.type = "NAME" ∧ (∀ p ∈ pairs, p.1.type = "DBL_COLON" ∧ p.2.type = "NAME") ∧ ob.type = "{" ∧
    names = first.value :: pairs.map (·.2.value) ∧ pairs.length + 1 ≤ F ∧
    Yields env.cfg b (kw :: first :: (pairs.flatMap (fun p => [p.1, p.2]) ++ [ob])) b1 ∧ body.At b1 b2 ∧
    tokenEofOk env.cfg b2 = .ok (some cl, b') ∧ cl.type = "}"
  Ev := fun blk rest evs => BlockEvents blk (fun h => h.kind = .ns ∧ h.ns.names = names ∧ h.ns.inline = false)
    (fun nb mid => body.Ev nb (blk :: rest) mid) evs
  size := body.size + 2
  at_sigEq := by
    intro b b' k ⟨kw, first, pairs, ob, cl, b1, b2, h1, h2, h3, h4, h5, h6, hy, hb, hc, h7⟩ hs
    obtain ⟨k1, hy', hs1⟩ := hy.sigEq hs
    obtain ⟨k2, hb', hs2⟩ := body.at_sigEq hb hs1
    obtain ⟨k', hc', hs'⟩ := tokenEofOk_of_sigEq env.cfg hs2 hc
    exact ⟨k', ⟨kw, first, pairs, ob, cl, k1, k2, h1, h2, h3, h4, h5, h6, hy', hb', hc', h7⟩, hs'⟩
  sound := by
    intro w b' blk rest hst hk hmu ⟨kw, first, pairs, ob, cl, b1, b2, h1, h2, h3, h4, h5, h6, hy, hb, hc, h7⟩
    have hfa : ∀ n, ¬ env.faultAt = some n := by intro n; rw [hnf]; simp
    obtain ⟨d, bD, w', ct, _, hbuf', hst', hev', hdl', _, hmu', _, _, hi⟩ :=
      toplevel_namespace_opens env hp F (core F (D + 1 + 1 + 1 + 1)) w kw first pairs ob b1 blk rest hst hk hmu (hfa _) h1 h2 h3 h4 hy h6
    generalize hhdr : ({ kind := .ns, loc := .tok ct.sidx, ns := { names := first.value :: pairs.map (·.2.value), inline := false, doxygen := d } } : BlockHdr) = hdr at hi
    have hPst : (pushedWorld env hdr w').stack = pushedBlock hdr w' :: blk :: rest := by
      show pushedBlock hdr w' :: w'.stack = _; rw [hst', hst]
    have hPmu : (pushedWorld env hdr w').muted = false := hskip _ _
    have hkind : (pushedBlock hdr w').hdr.kind ≠ .cls := by show hdr.kind ≠ .cls; rw [← hhdr]; simp
    obtain ⟨w7, mid, ⟨⟨ws, hch, hl⟩, hb7, ⟨nb7, hst7, hsb7⟩, hev7, hmu7⟩, hE⟩ :=
      body.sound (pushedWorld env hdr w') b2 (pushedBlock hdr w') (blk :: rest) hPst hkind hPmu
        (by show body.At w'.buf b2; rw [hbuf']; exact hb)
    obtain ⟨k', hc', hs'⟩ := tokenEofOk_of_sigEq env.cfg hb7 hc
    obtain ⟨wA, cc, hsA, hbA, _, hiE⟩ := toplevel_block_end env hp F (core F (D + 1 + 1 + 1 + 1)) w7 cl k' nb7 (blk :: rest) hst7
      (by rw [← hsb7.2.2.2.2]; rfl) (by rw [← hsb7.2.1]; exact hkind) hc' h7
    have hdel := deliver_passing env { wA with mainTok := some cc }
      (mkEvent { wA with mainTok := some cc } .blockEnd nb7 ((blk :: rest).head?.map (·.id)))
      (by show wA.muted = false; rw [hsA.muted]; exact hmu7) (hfa _)
    rw [hdel] at hiE
    simp only at hiE
    refine ⟨_, pushEvent hdr w' :: (mid ++ [mkEvent { wA with mainTok := some cc } .blockEnd nb7 ((blk :: rest).head?.map (·.id))]),
      ⟨⟨pushedWorld env hdr w' :: (ws ++ [_]), .cons hi (hch.append (.one hiE)), by simp [hl]⟩, ?_, ⟨blk, rfl, .refl _⟩, ?_, ?_⟩, ?_⟩
    · show SigEq b' wA.buf; rw [hbA]; exact hs'
    · show wA.events ++ _ = _
      rw [hsA.events, hev7]
      show (w'.events ++ [pushEvent hdr w']) ++ mid ++ _ = _
      rw [hev']; simp
    · show nb7.priorMuted = false
      rw [← hsb7.2.2.2.1]; show w'.muted = false; rw [hmu']; exact hmu
    · refine ⟨pushedBlock hdr w', _, _, mid, rfl, rfl, rfl, ?_, rfl, ?_, hE, rfl, hsb7.1.symm, rfl⟩
      · show w'.stack.head?.map (·.id) = _; rw [hst', hst]; rfl
      · show hdr.kind = .ns ∧ hdr.ns.names = names ∧ hdr.ns.inline = false
        rw [← hhdr, h5]; exact ⟨rfl, rfl, rfl⟩

/-- **`extern "C" { body }` is an item whenever `body` is** -/
def Item.externBlock (linkage : String) (body : Item env F (core F (D + 1 + 1 + 1 + 1))) : Item env F (core F (D + 1 + 1 + 1 + 1)) where
  At := fun b b' => ∃ (kw str ob cl : Tok) (b1 b2 : Buf),
    kw.type = "extern" ∧ str.type = "STRING_LITERAL" ∧ ob.type = "{" ∧ linkage = str.value ∧
    Yields env.cfg b [kw, str, ob] b1 ∧ body.At b1 b2 ∧ tokenEofOk env.cfg b2 = .ok (some cl, b') ∧ cl.type = "}"
  Ev := fun blk rest evs => BlockEvents blk (fun h => h.kind = .ext ∧ h.linkage = linkage)
    (fun nb mid => body.Ev nb (blk :: rest) mid) evs
  size := body.size + 2
  at_sigEq := by
    intro b b' k ⟨kw, str, ob, cl, b1, b2, h1, h2, h3, h4, hy, hb, hc, h7⟩ hs
    obtain ⟨k1, hy', hs1⟩ := hy.sigEq hs
    obtain ⟨k2, hb', hs2⟩ := body.at_sigEq hb hs1
    obtain ⟨k', hc', hs'⟩ := tokenEofOk_of_sigEq env.cfg hs2 hc
    exact ⟨k', ⟨kw, str, ob, cl, k1, k2, h1, h2, h3, h4, hy', hb', hc', h7⟩, hs'⟩
  sound := by
    intro w b' blk rest hst hk hmu ⟨kw, str, ob, cl, b1, b2, h1, h2, h3, h4, hy, hb, hc, h7⟩
    have hfa : ∀ n, ¬ env.faultAt = some n := by intro n; rw [hnf]; simp
    obtain ⟨w', ct, e, hbuf', hst', hev', _, hmu', _, _, _, hev, hi⟩ :=
      toplevel_extern_opens env hp F (core F (D + 1 + 1 + 1 + 1)) w kw str ob b1 blk rest hst hk hmu (hfa _) h1 h2 h3 hy
    generalize hhdr : ({ kind := .ext, loc := .tok ct.sidx, linkage := e.value } : BlockHdr) = hdr at hi
    have hPst : (pushedWorld env hdr w').stack = pushedBlock hdr w' :: blk :: rest := by
      show pushedBlock hdr w' :: w'.stack = _; rw [hst', hst]
    have hPmu : (pushedWorld env hdr w').muted = false := hskip _ _
    have hkind : (pushedBlock hdr w').hdr.kind ≠ .cls := by show hdr.kind ≠ .cls; rw [← hhdr]; simp
    obtain ⟨w7, mid, ⟨⟨ws, hch, hl⟩, hb7, ⟨nb7, hst7, hsb7⟩, hev7, hmu7⟩, hE⟩ :=
      body.sound (pushedWorld env hdr w') b2 (pushedBlock hdr w') (blk :: rest) hPst hkind hPmu
        (by show body.At w'.buf b2; rw [hbuf']; exact hb)
    obtain ⟨k', hc', hs'⟩ := tokenEofOk_of_sigEq env.cfg hb7 hc
    obtain ⟨wA, cc, hsA, hbA, _, hiE⟩ := toplevel_block_end env hp F (core F (D + 1 + 1 + 1 + 1)) w7 cl k' nb7 (blk :: rest) hst7
      (by rw [← hsb7.2.2.2.2]; rfl) (by rw [← hsb7.2.1]; exact hkind) hc' h7
    have hdel := deliver_passing env { wA with mainTok := some cc }
      (mkEvent { wA with mainTok := some cc } .blockEnd nb7 ((blk :: rest).head?.map (·.id)))
      (by show wA.muted = false; rw [hsA.muted]; exact hmu7) (hfa _)
    rw [hdel] at hiE
    simp only at hiE
    refine ⟨_, pushEvent hdr w' :: (mid ++ [mkEvent { wA with mainTok := some cc } .blockEnd nb7 ((blk :: rest).head?.map (·.id))]),
      ⟨⟨pushedWorld env hdr w' :: (ws ++ [_]), .cons hi (hch.append (.one hiE)), by simp [hl]⟩, ?_, ⟨blk, rfl, .refl _⟩, ?_, ?_⟩, ?_⟩
    · show SigEq b' wA.buf; rw [hbA]; exact hs'
    · show wA.events ++ _ = _
      rw [hsA.events, hev7]
      show (w'.events ++ [pushEvent hdr w']) ++ mid ++ _ = _
      rw [hev']; simp
    · show nb7.priorMuted = false
      rw [← hsb7.2.2.2.1]; show w'.muted = false; rw [hmu']; exact hmu
    · refine ⟨pushedBlock hdr w', _, _, mid, rfl, rfl, rfl, ?_, rfl, ?_, hE, rfl, hsb7.1.symm, rfl⟩
      · show w'.stack.head?.map (·.id) = _; rw [hst', hst]; rfl
      · show hdr.kind = .ext ∧ hdr.linkage = linkage
        rw [← hhdr, h4, hev]; exact ⟨rfl, rfl⟩

end kinds

end Cxx
