import CxxModel.Theorems.MemberKinds

/-!
# `CxxParser(...).parse()` on whole sources

`parse_source` states the result of the COMPLETE run — constructor, `on_parse_start`, the loop to
the end of the input — for every source that is an `Item` (any number of declarations of the proven
forms, namespaces / extern blocks / classes nested to any depth, any layout and comments).
-/

namespace Cxx
open P

/-- the global namespace block `CxxParser.__init__` creates -/
def globalBlock : Block :=
  { id := 0, hdr := { kind := .ns, loc := .start, ns := { names := [], inline := false } },
    loc := .start, access := none, priorMuted := false, isGlobal := true }

/-- the parser state `CxxParser.__init__` builds before `on_parse_start` -/
def startWorld (filename : String) (content : Str) : World :=
  { buf := { tokbuf := [], lex := { rest := content, filename := some filename } }, stack := [globalBlock], startLoc := ({ rest := content, filename := some filename } : LexState).location }

/-- **the whole run**: for a visitor that neither raises nor skips blocks, on a source whose
    significant tokens form the item `it`, `parse()` returns normally, and the callbacks are
    `on_parse_start` followed by EXACTLY the item's callbacks for the global namespace — one per
    declaration, in source order, block starts and ends paired around their contents -/
theorem parse_source (env : Env) (hp : RulesProgress env.cfg = true) (hnf : env.faultAt = none) (F D : Nat)
    (it : Item env F (core F D)) (filename : String) (content : Str) (bE bEE : Buf)
    (hat : it.At { tokbuf := [], lex := { rest := content, filename := some filename } } bE)
    (heof : tokenEofOk env.cfg bE = .ok (none, bEE)) (hF : it.size + 1 ≤ F) :
    ∃ (wF : World) (start : Event) (evs : List Event),
      runParse env filename content (parserProg F D) = (wF, .ok) ∧ wF.events = start :: evs ∧
      start.kind = .parseStart ∧ it.Ev globalBlock [] evs ∧ (∃ g, wF.stack = [g] ∧ g.id = 0 ∧ g.isGlobal = true) := by
  have hfa : ¬ env.faultAt = some 0 := by rw [hnf]; simp
  generalize hw : startWorld filename content = w
  have hinit : initWorld env filename content =
      ({ w with events := w.events ++ [mkEvent w .parseStart globalBlock none], delivered := w.delivered + 1 }, none) := by
    unfold initWorld
    simp only
    show deliver env (startWorld filename content) (mkEvent (startWorld filename content) .parseStart globalBlock none) = _
    rw [hw]
    exact deliver_passing env w _ (by rw [← hw]; rfl) (by rw [← hw]; exact hfa)
  obtain ⟨wF, evs, blkF, hi, hev, hE, hst, hsb, _⟩ := parse_item env hp F (core F D) it
    { w with events := w.events ++ [mkEvent w .parseStart globalBlock none], delivered := w.delivered + 1 }
    { tokbuf := [], lex := { rest := content, filename := some filename } } bE bEE globalBlock []
    (by rw [← hw]; rfl) (by simp [globalBlock]) (by rw [← hw]; rfl) (by rw [← hw]; exact .refl _) hat heof hF
  refine ⟨wF, mkEvent w .parseStart globalBlock none, evs, ?_, ?_, rfl, hE, blkF, hst, hsb.1.symm, hsb.2.2.2.2.symm⟩
  · unfold runParse parserProg
    rw [hinit]
    simp only [hi]
  · rw [hev, ← hw]; rfl

/-! ### reading a member's callbacks off a class body -/

theorem accAfter_append {env : Env} {F : Nat} {c : Core} (pre post : List (Member env F c)) (acc : String) :
    accAfter (pre ++ post) acc = accAfter post (accAfter pre acc) := by
  simp [accAfter, List.foldl_append]

/-- members that are not access specifiers leave the access level alone -/
theorem accAfter_id {env : Env} {F : Nat} {c : Core} : ∀ (ms : List (Member env F c)) (acc : String),
    (∀ m ∈ ms, m.accOut = id) → accAfter ms acc = acc := by
  intro ms
  induction ms with
  | nil => intro acc _; rfl
  | cons m ms ih =>
    intro acc h
    show accAfter ms (m.accOut acc) = acc
    rw [h m (by simp), ih _ (fun q hq => h q (by simp [hq]))]
    rfl

/-- **the access level a member is reported with**: in the callbacks of a class body, the member
    at ANY position is reported under the access level left by the members before it -/
theorem MSeqEv.at_member {env : Env} {F : Nat} {c : Core} {blk : Block} {rest : List Block} :
    ∀ (pre : List (Member env F c)) (m : Member env F c) (post : List (Member env F c)) (acc : String) (evs : List Event),
    MSeqEv blk rest (pre ++ m :: post) acc evs →
    ∃ (e1 g e2 : List Event) (blk' : Block), evs = e1 ++ g ++ e2 ∧ blk.SameButLocAcc blk' ∧ m.Ev blk' rest (accAfter pre acc) g := by
  intro pre
  induction pre with
  | nil =>
    intro m post acc evs h
    cases h with
    | cons hsb hev hrest =>
      rename_i g evs' blk'
      exact ⟨[], g, evs', blk', by simp, hsb, hev⟩
  | cons p pre ih =>
    intro m post acc evs h
    cases h with
    | cons hsb hev hrest =>
      rename_i g0 evs' blk0
      obtain ⟨e1, g, e2, blk', he, hsb', hE⟩ := ih m post _ _ hrest
      exact ⟨g0 ++ e1, g, e2, blk', by rw [he]; simp, hsb', hE⟩

/-- **latest access specifier wins**: after `… kw: m₁ … mₖ` where the `mᵢ` are not access
    specifiers, the level in force is `kw`'s — whatever came before -/
theorem accAfter_spec {env : Env} (hp : RulesProgress env.cfg = true) {F D : Nat} (pre post : List (Member env F (core F (D + 1 + 1 + 1 + 1)))) (kw colon : Tok) (acc : String)
    (hpost : ∀ m ∈ post, m.accOut = id) :
    accAfter (pre ++ Member.accessSpec env hp F D kw colon :: post) acc = kw.value := by
  rw [accAfter_append]
  show accAfter post kw.value = kw.value
  exact accAfter_id post _ hpost

/-! ### concatenation -/

theorem SeqAt.append {env : Env} {F : Nat} {c : Core} : ∀ {xs ys : List (Item env F c)} {b b1 b' : Buf},
    SeqAt xs b b1 → SeqAt ys b1 b' → SeqAt (xs ++ ys) b b' := by
  intro xs
  induction xs with
  | nil => intro ys b b1 b' h1 h2; cases h1; exact h2
  | cons x xs ih => intro ys b b1 b' h1 h2; cases h1 with | cons ha hr => exact .cons ha (ih hr h2)

theorem SeqEv.split {env : Env} {F : Nat} {c : Core} {blk : Block} {rest : List Block} :
    ∀ {xs ys : List (Item env F c)} {evs : List Event}, SeqEv blk rest (xs ++ ys) evs →
    ∃ e1 e2, evs = e1 ++ e2 ∧ SeqEv blk rest xs e1 ∧ SeqEv blk rest ys e2 := by
  intro xs
  induction xs with
  | nil => intro ys evs h; exact ⟨[], evs, rfl, .nil, h⟩
  | cons x xs ih =>
    intro ys evs h
    cases h with
    | cons hsb hev hr =>
      rename_i g evs' blk'
      obtain ⟨e1, e2, he, h1, h2⟩ := ih hr
      exact ⟨g ++ e1, e2, by rw [he]; simp, .cons hsb hev h1, h2⟩

theorem seqSize_append {env : Env} {F : Nat} {c : Core} (xs ys : List (Item env F c)) :
    seqSize (xs ++ ys) = seqSize xs + seqSize ys := by
  simp [seqSize]

/-- **concatenation of two declaration sequences** (C12): run from any state at non-class scope,
    the source `xs ys` delivers callbacks that split into a group for `xs` and a group for `ys`,
    each constrained ONLY by its own items and the enclosing block — the same constraints each
    sequence has when it stands alone (`seq_sound`): nothing of `xs` reaches into `ys` -/
theorem seq_concat {env : Env} {F : Nat} {c : Core} (xs ys : List (Item env F c)) (w : World) (b1 b' : Buf) (blk : Block)
    (rest : List Block) (hst : w.stack = blk :: rest) (hk : blk.hdr.kind ≠ .cls) (hmu : w.muted = false)
    (hx : SeqAt xs w.buf b1) (hy : SeqAt ys b1 b') :
    ∃ (w7 : World) (e1 e2 : List Event), Ran env F c w (seqSize xs + seqSize ys) b' blk rest (e1 ++ e2) w7 ∧
      SeqEv blk rest xs e1 ∧ SeqEv blk rest ys e2 := by
  obtain ⟨w7, evs, hran, hev⟩ := seq_sound (xs ++ ys) w b' blk rest hst hk hmu (hx.append hy)
  obtain ⟨e1, e2, he, h1, h2⟩ := hev.split
  rw [seqSize_append, he] at hran
  exact ⟨w7, e1, e2, hran, h1, h2⟩

/-! ### the stream states used in the non-vacuity examples -/

/-- a stream whose buffer already holds the significant tokens `ts` hands out exactly those -/
theorem Yields.of_tokbuf (cfg : LexCfg) (lex : LexState) (bd : Bool) : ∀ (ts rest : List Tok),
    (∀ t ∈ ts, isDiscard t.type = false) →
    Yields cfg { tokbuf := ts ++ rest, lex := lex, bounded := bd } ts { tokbuf := rest, lex := lex, bounded := bd } := by
  intro ts
  induction ts with
  | nil => intro rest _; exact .nil _
  | cons t ts ih =>
    intro rest h
    refine .cons ?_ (ih rest (fun q hq => h q (by simp [hq])))
    have : popSignificant isDiscard (t :: (ts ++ rest)) = some (t, ts ++ rest) := by
      simp [popSignificant, h t (by simp)]
    simp only [tokenEofOk, fuelFor, nextTok, List.cons_append, this]

end Cxx
