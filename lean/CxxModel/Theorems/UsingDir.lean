/-
  Theorems/UsingDir.lean — a whole declaration form: `using namespace [::] n1 :: n2 :: … ;`
  (C01).  After `using namespace` has been dispatched, `_parse_using_directive` reads the
  qualified name of any length and emits exactly one `on_using_namespace` callback carrying
  the written names, in order (with a leading empty name for a leading `::`), in the scope of
  the innermost open block; the token after the name stays in the stream.
-/
import CxxModel.Theorems.Stream
import CxxModel.Theorems.PtrChain
import CxxModel.Parser.Decl
namespace Cxx
open P

theorem interp_tokenIf_hit (env : Env) (types : List String) (w : World) (t : Tok) (b1 : Buf)
    (htok : tokenEofOk env.cfg w.buf = .ok (some t, b1)) (hty : types.contains t.type = true) :
    interp env (P.tokenIf types) w =
      ((({ w with buf := b1 } : World).handOut t).2, .ok (some (({ w with buf := b1 } : World).handOut t).1)) := by
  have hho := handOut_same ({ w with buf := b1 } : World) t
  unfold P.tokenIf
  simp only [interp_tokenIfP, htok, hho.2.2.1, hty, ↓reduceIte]

theorem interp_tokenIf_miss (env : Env) (types : List String) (w : World) (t : Tok) (b1 : Buf)
    (htok : tokenEofOk env.cfg w.buf = .ok (some t, b1)) (hty : types.contains t.type = false) :
    interp env (P.tokenIf types) w =
      ({ (({ w with buf := b1 } : World).handOut t).2 with
          buf := Cxx.returnToken ((({ w with buf := b1 } : World).handOut t).2.toTok (({ w with buf := b1 } : World).handOut t).1) b1 },
        .ok none) := by
  have hho := handOut_same ({ w with buf := b1 } : World) t
  unfold P.tokenIf
  simp only [interp_tokenIfP, htok, hho.2.2.1, hty, Bool.false_eq_true, ↓reduceIte,
    List.map_cons, List.map_nil, Cxx.returnTokens, List.singleton_append, hho.2.1]
  rfl

/-- an iteration whose name is followed by `::` -/
theorem usingDirBody_more (env : Env) (names : List String) (w : World) (nm colon : Tok) (b1 b2 : Buf)
    (h1 : tokenEofOk env.cfg w.buf = .ok (some nm, b1)) (hn : nm.type = "NAME")
    (h2 : tokenEofOk env.cfg b1 = .ok (some colon, b2)) (hc : colon.type = "DBL_COLON") :
    ∃ w', interp env (usingDirBody names) w = (w', .ok (.inl (names ++ [nm.value]))) ∧ w'.buf = b2 ∧ SameParse w w' := by
  have hho := handOut_same ({ w with buf := b1 } : World) nm
  obtain ⟨hs1, hb1, _, hv1⟩ := hho
  generalize hwA : (({ w with buf := b1 } : World).handOut nm).2 = wA at *
  generalize hcA : (({ w with buf := b1 } : World).handOut nm).1 = cA at *
  have h2' : tokenEofOk env.cfg wA.buf = .ok (some colon, b2) := by rw [hb1]; exact h2
  have hhit := interp_tokenIf_hit env ["DBL_COLON"] wA colon b2 h2' (by rw [hc]; decide)
  have hho2 := handOut_same ({ wA with buf := b2 } : World) colon
  obtain ⟨hs2, hb2, _, _⟩ := hho2
  refine ⟨(({ wA with buf := b2 } : World).handOut colon).2, ?_, hb2,
    (((SameParse.setBuf w b1).trans hs1).trans (SameParse.setBuf wA b2)).trans hs2⟩
  unfold usingDirBody
  simp only [bind, interp_bind, interp_nextTokenMustBe_ok env ["NAME"] w nm b1 h1 (by rw [hn]; decide), hwA, hcA,
    hhit, Option.isNone_some, Bool.false_eq_true, ↓reduceIte, pure, interp, hv1]

/-- the last iteration: the name is followed by something else, which is pushed back -/
theorem usingDirBody_last (env : Env) (names : List String) (w : World) (nm term : Tok) (b1 b' : Buf)
    (h1 : tokenEofOk env.cfg w.buf = .ok (some nm, b1)) (hn : nm.type = "NAME")
    (h2 : tokenEofOk env.cfg b1 = .ok (some term, b')) (hc : term.type ≠ "DBL_COLON") :
    ∃ (w' : World) (t' : Tok), interp env (usingDirBody names) w = (w', .ok (.inr (names ++ [nm.value]))) ∧
      w'.buf = Cxx.returnToken t' b' ∧ t'.tv = term.tv ∧ SameParse w w' := by
  have hho := handOut_same ({ w with buf := b1 } : World) nm
  obtain ⟨hs1, hb1, _, hv1⟩ := hho
  generalize hwA : (({ w with buf := b1 } : World).handOut nm).2 = wA at *
  generalize hcA : (({ w with buf := b1 } : World).handOut nm).1 = cA at *
  have h2' : tokenEofOk env.cfg wA.buf = .ok (some term, b') := by rw [hb1]; exact h2
  have hmiss := interp_tokenIf_miss env ["DBL_COLON"] wA term b' h2' (by simp [hc])
  have hho2 := handOut_same ({ wA with buf := b' } : World) term
  obtain ⟨hs2, _, hty2, hv2⟩ := hho2
  refine ⟨{ (({ wA with buf := b' } : World).handOut term).2 with
      buf := Cxx.returnToken ((({ wA with buf := b' } : World).handOut term).2.toTok (({ wA with buf := b' } : World).handOut term).1) b' },
    _, ?_, rfl, by simp [Tok.tv, World.toTok, hty2, hv2], ?_⟩
  · unfold usingDirBody
    simp only [bind, interp_bind, interp_nextTokenMustBe_ok env ["NAME"] w nm b1 h1 (by rw [hn]; decide), hwA, hcA,
      hmiss, Option.isNone_none, ↓reduceIte, pure, interp, hv1]
  · exact ((((SameParse.setBuf w b1).trans hs1).trans (SameParse.setBuf wA b')).trans hs2).trans (SameParse.setBuf _ _)

/-- the name loop: `first (:: name)*` then a token that is not `::` -/
theorem usingDir_names (env : Env) : ∀ (pairs : List (Tok × Tok)) (first : Tok) (names : List String) (w : World)
    (bmid b' : Buf) (term : Tok) (n : Nat),
    first.type = "NAME" → (∀ p ∈ pairs, p.1.type = "DBL_COLON" ∧ p.2.type = "NAME") →
    Yields env.cfg w.buf (first :: pairs.flatMap (fun p => [p.1, p.2])) bmid →
    tokenEofOk env.cfg bmid = .ok (some term, b') → term.type ≠ "DBL_COLON" → pairs.length + 1 ≤ n →
    ∃ (w' : World) (t' : Tok), interp env (P.loopN n names usingDirBody) w =
        (w', .ok (names ++ first.value :: pairs.map (·.2.value))) ∧
      w'.buf = Cxx.returnToken t' b' ∧ t'.tv = term.tv ∧ SameParse w w' := by
  intro pairs
  induction pairs with
  | nil =>
    intro first names w bmid b' term n hf _ hy htok hterm hn
    cases hy with
    | cons htok1 hrest =>
      rename_i b1
      have hb : b1 = bmid := by cases hrest; rfl
      subst hb
      obtain ⟨w', t', hw, hb', ht, hsp⟩ := usingDirBody_last env names w first term b1 b' htok1 hf htok hterm
      obtain ⟨k, rfl⟩ : ∃ k, n = k + 1 := ⟨n - 1, by omega⟩
      refine ⟨w', t', ?_, hb', ht, hsp⟩
      rw [P.loopN]
      simp only [bind, interp_bind, hw, pure, interp, List.map_nil]
  | cons p rest ih =>
    intro first names w bmid b' term n hf hall hy htok hterm hn
    obtain ⟨hp1, hp2⟩ := hall p (by simp)
    cases hy with
    | cons htok1 hrest =>
      rename_i b1
      simp only [List.flatMap_cons, List.cons_append, List.nil_append] at hrest
      cases hrest with
      | cons htokc hrest2 =>
        rename_i b2
        obtain ⟨w1, hw1, hb1, hs1⟩ := usingDirBody_more env names w first p.1 b1 b2 htok1 hf htokc hp1
        obtain ⟨k, rfl⟩ : ∃ k, n = k + 1 := ⟨n - 1, by omega⟩
        obtain ⟨w', t', hw, hb, ht, hsp⟩ := ih p.2 (names ++ [first.value]) w1 bmid b' term k hp2
          (fun q hq => hall q (by simp [hq])) (by rw [hb1]; exact hrest2) htok hterm (by simp at hn; omega)
        refine ⟨w', t', ?_, hb, ht, hs1.trans hsp⟩
        rw [P.loopN]
        simp only [bind, interp_bind, hw1]
        rw [hw]
        simp [List.append_assoc]

/-- **`using namespace n1 :: … :: nk`** (no leading `::`): the routine is "read the name, then
    deliver `on_using_namespace [n1, …, nk]`" -/
theorem usingDirective_plain (env : Env) (pairs : List (Tok × Tok)) (first : Tok) (w : World) (bmid b' : Buf) (term : Tok) (F : Nat)
    (hf : first.type = "NAME") (hall : ∀ p ∈ pairs, p.1.type = "DBL_COLON" ∧ p.2.type = "NAME")
    (hy : Yields env.cfg w.buf (first :: pairs.flatMap (fun p => [p.1, p.2])) bmid)
    (htok : tokenEofOk env.cfg bmid = .ok (some term, b')) (hterm : term.type ≠ "DBL_COLON") (hF : pairs.length + 1 ≤ F) :
    ∃ (w' : World) (t' : Tok), w'.buf = Cxx.returnToken t' b' ∧ t'.tv = term.tv ∧ SameParse w w' ∧
      interp env (parseUsingDirective F) w =
        interp env (P.emit (.usingNamespace (first.value :: pairs.map (·.2.value)))) w' := by
  cases hy with
  | cons htok1 hrest =>
    rename_i b1
    -- the optional leading `::` is looked for and not found: `first` is pushed back and read again
    have hmiss := interp_tokenIf_miss env ["DBL_COLON"] w first b1 htok1 (by rw [hf]; decide)
    have hho := handOut_same ({ w with buf := b1 } : World) first
    obtain ⟨hs0, hb0, hty0, hv0⟩ := hho
    have hsx := handOut_sidx_ne ({ w with buf := b1 } : World) first
    generalize hwA : (({ w with buf := b1 } : World).handOut first).2 = wA at *
    generalize hcA : (({ w with buf := b1 } : World).handOut first).1 = cA at *
    have hnd : isDiscard (wA.toTok cA).type = false := by
      have := tokenEofOk_not_discard htok1
      simpa [World.toTok, hty0] using this
    have hpeek : tokenEofOk env.cfg (Cxx.returnToken (wA.toTok cA) b1) = .ok (some (wA.toTok cA), b1) :=
      tokenEofOk_returnToken env.cfg _ _ hnd
    have hfty : (wA.toTok cA).type = "NAME" := by simp [World.toTok, hty0, hf]
    have hyP : Yields env.cfg ({ wA with buf := Cxx.returnToken (wA.toTok cA) b1 } : World).buf
        (wA.toTok cA :: pairs.flatMap (fun p => [p.1, p.2])) bmid := .cons hpeek hrest
    obtain ⟨w', t', hw, hb, ht, hsp⟩ := usingDir_names env pairs (wA.toTok cA) [] _ bmid b' term F hfty hall hyP htok hterm hF
    have hval : (wA.toTok cA).value = first.value := by simp [World.toTok, hv0]
    refine ⟨w', t', hb, ht, (((SameParse.setBuf w b1).trans hs0).trans (SameParse.setBuf wA _)).trans hsp, ?_⟩
    unfold parseUsingDirective
    simp only [bind, interp_bind, hmiss, hwA, hcA, Option.isSome_none, Bool.false_eq_true, ↓reduceIte, hw,
      List.nil_append, hval, List.isEmpty_cons]

end Cxx
