/-
  Theorems/PtrChain.lean — `_parse_cv_ptr_or_fn` on pointer / cv-qualifier chains (C02):
  for EVERY sequence of `*`, `const`, `volatile` tokens (any length, any order) followed by a
  token that ends the declarator prefix, the type built is the pointer chain the sequence
  denotes (`applyPtrOps`), each cv flag on the level it was written after, and the stream is
  left at the token that follows.
-/
import CxxModel.Theorems.Stream
import CxxModel.Parser.Core
namespace Cxx
open P

def ptrStep (d : DType) (ty : String) : Option DType :=
  if ty = "*" then (if isRefLike d then none else some (.ptr d false false))
  else if ty = "const" then setConst d
  else if ty = "volatile" then setVolatile d
  else none

def applyPtrOps : DType → List String → Option DType
  | d, [] => some d
  | d, t :: ts =>
    match ptrStep d t with
    | some d' => applyPtrOps d' ts
    | none => none

/-- token types that end the pointer / reference prefix of a declarator -/
def endsPtrPrefix (ty : String) : Bool := !(["*", "const", "volatile", "(", "&", "DBL_AMP"].contains ty)

theorem cvPtrBody_op (env : Env) (F : Nat) (rec : Core) (nf : Bool) (d d' : DType) (w : World) (t : Tok) (b1 : Buf)
    (htok : tokenEofOk env.cfg w.buf = .ok (some t, b1)) (hs : ptrStep d t.type = some d') :
    interp env (cvPtrBody F rec nf d) w = ((({ w with buf := b1 } : World).handOut t).2, .ok (.inl d')) := by
  have hho := handOut_same ({ w with buf := b1 } : World) t
  obtain ⟨_, _, hty, _⟩ := hho
  unfold cvPtrBody P.tokenIf
  simp only [bind, interp_bind, interp_tokenIfP, htok, hty]
  unfold ptrStep at hs
  split at hs
  · rename_i hv
    split at hs
    · cases hs
    · rename_i hr
      injection hs with hs; subst hs
      simp [hty, hv, hr, pure, interp]
  · split at hs
    · rename_i hv1 hv
      simp [hty, hv1, hv, hs, pure, interp]
    · split at hs
      · rename_i hv1 hv2 hv
        simp [hty, hv1, hv2, hv, hs, pure, interp]
      · cases hs

theorem cvPtrBody_end (env : Env) (F : Nat) (rec : Core) (nf : Bool) (d : DType) (w : World) (t : Tok) (b1 : Buf)
    (htok : tokenEofOk env.cfg w.buf = .ok (some t, b1)) (he : endsPtrPrefix t.type = true) :
    interp env (cvPtrBody F rec nf d) w =
      ({ (({ w with buf := b1 } : World).handOut t).2 with
          buf := Cxx.returnTokens ([(({ w with buf := b1 } : World).handOut t).1].map (({ w with buf := b1 } : World).handOut t).2.toTok)
            (({ w with buf := b1 } : World).handOut t).2.buf }, .ok (.inr d)) := by
  have hho := handOut_same ({ w with buf := b1 } : World) t
  obtain ⟨_, _, hty, _⟩ := hho
  simp only [endsPtrPrefix, List.contains_cons, List.contains_nil, Bool.or_false, Bool.not_eq_true', Bool.or_eq_false_iff,
    beq_eq_false_iff_ne, ne_eq] at he
  obtain ⟨h1, h2, h3, h4, _, _⟩ := he
  unfold cvPtrBody P.tokenIf
  simp only [bind, interp_bind, interp_tokenIfP, htok, hty]
  simp [hty, h1, h2, h3, h4, pure, interp, Prog.bind]

/-- the loop over a chain of pointer operators -/
theorem cvPtr_prefix (env : Env) (G : Nat) (rec : Core) (nf : Bool) : ∀ (ops : List Tok) (d d1 : DType) (w : World) (bmid : Buf),
    Yields env.cfg w.buf ops bmid → applyPtrOps d (ops.map (·.type)) = some d1 →
    ∃ wmid, wmid.buf = bmid ∧ SameParse w wmid ∧
      ∀ k, interp env (P.loopN (ops.length + k) d (cvPtrBody G rec nf)) w =
           interp env (P.loopN k d1 (cvPtrBody G rec nf)) wmid := by
  intro ops
  induction ops with
  | nil =>
    intro d d1 w bmid hy ha
    cases hy
    simp only [List.map_nil, applyPtrOps, Option.some.injEq] at ha
    subst ha
    exact ⟨w, rfl, SameParse.refl w, by intro k; simp⟩
  | cons q qs ih =>
    intro d d1 w bmid hy ha
    cases hy with
    | cons htq hrest =>
      rename_i b1
      simp only [List.map_cons, applyPtrOps] at ha
      cases hqs : ptrStep d q.type with
      | none => simp [hqs] at ha
      | some d2 =>
        simp only [hqs] at ha
        have hho := handOut_same ({ w with buf := b1 } : World) q
        obtain ⟨hsame0, hbuf, _, _⟩ := hho
        obtain ⟨wmid, hb, hsp, hk⟩ := ih d2 d1 _ bmid (by rw [hbuf]; exact hrest) ha
        refine ⟨wmid, hb, ((SameParse.setBuf w b1).trans hsame0).trans hsp, ?_⟩
        intro k
        have : (q :: qs).length + k = (qs.length + k) + 1 := by simp; omega
        rw [this, P.loopN]
        simp only [bind, interp_bind, cvPtrBody_op env G rec nf d d2 w q b1 htq hqs]
        exact hk k

/-! ### a token that was just read and pushed back is read again -/

theorem popSignificant_not_disc (disc : String → Bool) : ∀ (l : List Tok) (t : Tok) (r : List Tok),
    popSignificant disc l = some (t, r) → disc t.type = false := by
  intro l
  induction l with
  | nil => intro t r h; simp [popSignificant] at h
  | cons x xs ih =>
    intro t r h
    simp only [popSignificant] at h
    split at h
    · exact ih t r h
    · rename_i hx
      injection h with h; injection h with h1 _; subst h1
      simpa using hx

theorem nextTok_not_disc (cfg : LexCfg) (disc : String → Bool) : ∀ (n : Nat) (b b' : Buf) (t : Tok),
    nextTok cfg disc n b = .ok (some t, b') → disc t.type = false := by
  intro n
  induction n with
  | zero => intro b b' t h; simp [nextTok] at h
  | succ n ih =>
    intro b b' t h
    simp only [nextTok] at h
    split at h
    · rename_i t0 r0 hp
      injection h with h; injection h with h1 _; injection h1 with h1; subst h1
      exact popSignificant_not_disc disc _ _ _ hp
    · split at h
      · cases h
      · cases h
      · exact ih _ _ _ h

theorem tokenEofOk_not_discard {cfg : LexCfg} {b b' : Buf} {t : Tok} (h : tokenEofOk cfg b = .ok (some t, b')) :
    isDiscard t.type = false := nextTok_not_disc cfg isDiscard _ b b' t h

theorem tokenEofOk_returnToken (cfg : LexCfg) (t : Tok) (b : Buf) (hd : isDiscard t.type = false) :
    tokenEofOk cfg (Cxx.returnToken t b) = .ok (some t, b) := by
  simp [tokenEofOk, fuelFor, nextTok, Cxx.returnToken, popSignificant, hd]

theorem handOut_sidx_ne (w : World) (t : Tok) : (w.handOut t).1.sidx ≠ 0 := by
  unfold World.handOut
  split
  · simp
  · rename_i h; simpa using h

theorem handOut_nonzero (w : World) (t : Tok) (h : t.sidx ≠ 0) :
    w.handOut t = ({ type := t.type, value := t.value, sidx := t.sidx }, w) := by
  unfold World.handOut
  simp [h]

/-- **pointer chains**: `ops` (any sequence of `*`, `const`, `volatile`), then a token that
    ends the declarator prefix: the result is `applyPtrOps d ops`, the stream holds that token -/
theorem cvPtr_chain (env : Env) (rec : Core) (nf : Bool) (ops : List Tok) (d d1 : DType) (F : Nat) (w : World)
    (bmid b' : Buf) (term : Tok)
    (hy : Yields env.cfg w.buf ops bmid) (ha : applyPtrOps d (ops.map (·.type)) = some d1)
    (htok : tokenEofOk env.cfg bmid = .ok (some term, b')) (he : endsPtrPrefix term.type = true)
    (hF : ops.length + 1 ≤ F) :
    ∃ (w' : World) (t' : Tok), interp env (parseCvPtrOrFnStep F rec d nf) w = (w', .ok d1) ∧
      w'.buf = Cxx.returnToken t' b' ∧ t'.tv = term.tv ∧ SameParse w w' := by
  obtain ⟨wmid, hbm, hsp, hk⟩ := cvPtr_prefix env F rec nf ops d d1 w bmid hy ha
  have htok' : tokenEofOk env.cfg wmid.buf = .ok (some term, b') := by rw [hbm]; exact htok
  have hho := handOut_same ({ wmid with buf := b' } : World) term
  obtain ⟨hsame0, hbuf, hty, hval⟩ := hho
  have hsx := handOut_sidx_ne ({ wmid with buf := b' } : World) term
  generalize hwA : (({ wmid with buf := b' } : World).handOut term).2 = wA at *
  generalize hcA : (({ wmid with buf := b' } : World).handOut term).1 = cA at *
  have hb'' : wA.buf = b' := hbuf
  have hnd : isDiscard (wA.toTok cA).type = false := by
    have := tokenEofOk_not_discard htok
    simpa [World.toTok, hty] using this
  have hpeek : tokenEofOk env.cfg (Cxx.returnToken (wA.toTok cA) b') = .ok (some (wA.toTok cA), b') :=
    tokenEofOk_returnToken env.cfg _ _ hnd
  have hend := cvPtrBody_end env F rec nf d1 wmid term b' htok' he
  simp only [hwA, hcA, List.map_cons, List.map_nil, Cxx.returnTokens, List.singleton_append, hb''] at hend
  simp only [endsPtrPrefix, List.contains_cons, List.contains_nil, Bool.or_false, Bool.not_eq_true', Bool.or_eq_false_iff,
    beq_eq_false_iff_ne, ne_eq] at he
  obtain ⟨_, _, _, _, h5, h6⟩ := he
  obtain ⟨k, hkF⟩ : ∃ k, F = ops.length + (k + 1) := ⟨F - ops.length - 1, by omega⟩
  have hsx2 : (wA.toTok cA).sidx ≠ 0 := by simpa [World.toTok] using hsx
  refine ⟨{ wA with buf := Cxx.returnToken (wA.toTok cA) b' }, wA.toTok cA, ?_, rfl,
    by simp [Tok.tv, World.toTok, hty, hval], ?_⟩
  · unfold parseCvPtrOrFnStep
    simp only [bind, interp_bind]
    have hloop : interp env (P.loopN F d (cvPtrBody F rec nf)) w =
        ({ wA with buf := Cxx.returnToken (wA.toTok cA) b' }, .ok d1) := by
      conv => lhs; arg 2; arg 1; rw [hkF]
      rw [hk (k + 1), P.loopN]
      simp only [bind, interp_bind, hend, pure, interp]
      rfl
    rw [hloop]
    simp only
    unfold cvRefTail P.tokenIf
    simp only [bind, interp_bind, interp_tokenIfP, hpeek]
    rw [handOut_nonzero _ _ hsx2]
    have htt : (wA.toTok cA).type = term.type := by simp [World.toTok, hty]
    have hcty : cA.type = term.type := hty
    simp [htt, hcty, h5, h6, pure, interp, World.toTok, Cxx.returnTokens, Cxx.returnToken, World.resolve]
  · exact (hsp.trans ((SameParse.setBuf wmid b').trans hsame0)).trans (SameParse.setBuf wA _)

/-! ### what the chain denotes -/

theorem applyPtrOps_cv_on_ptr : ∀ (cvs : List String) (t : DType) (c v : Bool), (∀ x ∈ cvs, x = "const" ∨ x = "volatile") →
    applyPtrOps (.ptr t c v) cvs = some (.ptr t (c || cvs.contains "const") (v || cvs.contains "volatile")) := by
  intro cvs
  induction cvs with
  | nil => intro t c v _; simp [applyPtrOps]
  | cons x xs ih =>
    intro t c v h
    have hx := h x (by simp)
    have hxs : ∀ y ∈ xs, y = "const" ∨ y = "volatile" := fun y hy => h y (by simp [hy])
    rcases hx with rfl | rfl
    · simp only [applyPtrOps, ptrStep, setConst]
      simp only [show ("const" = "*") = False by decide, ↓reduceIte]
      rw [ih t true v hxs]; simp [List.contains_cons]
    · simp only [applyPtrOps, ptrStep, setVolatile]
      simp only [show ("volatile" = "*") = False by decide, show ("volatile" = "const") = False by decide, ↓reduceIte]
      rw [ih t c true hxs]; simp [List.contains_cons]

/-- one pointer level: `*` followed by any cv qualifiers gives a pointer to the type so far
    whose flags are exactly the qualifiers written -/
theorem applyPtrOps_level (d : DType) (cvs : List String) (hr : isRefLike d = false)
    (h : ∀ x ∈ cvs, x = "const" ∨ x = "volatile") :
    applyPtrOps d ("*" :: cvs) = some (.ptr d (cvs.contains "const") (cvs.contains "volatile")) := by
  simp only [applyPtrOps, ptrStep, ↓reduceIte, hr, Bool.false_eq_true]
  rw [applyPtrOps_cv_on_ptr cvs d false false h]; simp

theorem applyPtrOps_append : ∀ (a b : List String) (d : DType),
    applyPtrOps d (a ++ b) = (applyPtrOps d a).bind (fun d' => applyPtrOps d' b) := by
  intro a
  induction a with
  | nil => intro b d; simp [applyPtrOps]
  | cons x xs ih =>
    intro b d
    simp only [List.cons_append, applyPtrOps]
    cases ptrStep d x with
    | none => simp
    | some d' => simp [ih]

end Cxx
